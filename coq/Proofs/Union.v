(* C14 — proofs about Model/Union.v *)
From PG Require Import Lib.Strs Model.Union.
From Coq Require Import ZArith.

(* the property for one (type, payload): decoding succeeds and the re-encoding carries the payload *)
Definition lossless (t : ty) (j : json) : Prop :=
  exists v, structure t j = Ok v /\ approx (unstructure v) j = true.

(* ------------------------------------------------------------------------------------- *)
(* induction principles for the nested inductives                                         *)
Definition disc_all (P : ty -> Prop) (d : option (str * list (str * ty))) : Prop :=
  match d with Some pm => Forall (fun q => P (snd q)) (snd pm) | None => True end.

Section TyInd.
  Variable P : ty -> Prop.
  Hypothesis HNone : P TNone.
  Hypothesis HAny : P TAny.
  Hypothesis HStr : P TStr.
  Hypothesis HInt : P TInt.
  Hypothesis HBool : P TBool.
  Hypothesis HList : forall e, P e -> P (TList e).
  Hypothesis HMap : forall e, P e -> P (TMap e).
  Hypothesis HObj : forall n fs, Forall (fun f => P (fst (snd f))) fs -> P (TObj n fs).
  Hypothesis HUnion : forall d vs, disc_all P d -> Forall P vs -> P (TUnion d vs).
  Fixpoint ty_ind' (t : ty) : P t :=
    match t with
    | TNone => HNone | TAny => HAny | TStr => HStr | TInt => HInt | TBool => HBool
    | TList e => HList e (ty_ind' e)
    | TMap e => HMap e (ty_ind' e)
    | TObj n fs =>
        HObj n fs ((fix go (fs : list (str * (ty * bool))) : Forall (fun f => P (fst (snd f))) fs :=
                      match fs with
                      | [] => Forall_nil _
                      | (k, (ft, r)) :: rest => @Forall_cons _ (fun f => P (fst (snd f))) (k, (ft, r)) rest (ty_ind' ft) (go rest)
                      end) fs)
    | TUnion d vs =>
        HUnion d vs
          (match d as d0 return disc_all P d0 with
           | None => I
           | Some pm =>
               (fix go (m : list (str * ty)) : Forall (fun q => P (snd q)) m :=
                  match m with
                  | [] => Forall_nil _
                  | (s, V) :: rest => @Forall_cons _ (fun q => P (snd q)) (s, V) rest (ty_ind' V) (go rest)
                  end) (snd pm)
           end)
          ((fix go (vs : list ty) : Forall P vs :=
              match vs with
              | [] => Forall_nil _
              | v :: rest => Forall_cons _ (ty_ind' v) (go rest)
              end) vs)
    end.
End TyInd.

Section JsonInd.
  Variable P : json -> Prop.
  Hypothesis HNull : P JNull.
  Hypothesis HBool : forall b, P (JBool b).
  Hypothesis HInt : forall z, P (JInt z).
  Hypothesis HStr : forall s, P (JStr s).
  Hypothesis HArr : forall l, Forall P l -> P (JArr l).
  Hypothesis HObj : forall kv, Forall (fun p => P (snd p)) kv -> P (JObj kv).
  Fixpoint json_ind' (j : json) : P j :=
    match j with
    | JNull => HNull | JBool b => HBool b | JInt z => HInt z | JStr s => HStr s
    | JArr l => HArr l ((fix go (l : list json) : Forall P l :=
                           match l with [] => Forall_nil _ | x :: r => Forall_cons _ (json_ind' x) (go r) end) l)
    | JObj kv => HObj kv ((fix go (kv : list (str * json)) : Forall (fun p => P (snd p)) kv :=
                             match kv with
                             | [] => Forall_nil _
                             | (k, x) :: r => @Forall_cons _ (fun p => P (snd p)) (k, x) r (json_ind' x) (go r)
                             end) kv)
    end.
End JsonInd.

(* ------------------------------------------------------------------------------------- *)
(* Discriminator theorems                                                                  *)
Lemma apply_map_in : forall S m d V j,
  NoDup (map fst m) -> In (d, V) m -> apply_map S m d j = Some (S V j).
Proof.
  induction m as [|[d' V'] m IH]; intros d V j Hnd Hin; simpl in *.
  - contradiction.
  - inversion Hnd as [|? ? Hnotin Hnd']; subst.
    destruct Hin as [Heq | Hin].
    + inversion Heq; subst. rewrite str_eqb_refl. reflexivity.
    + destruct (str_eqb d d') eqn:E.
      * apply str_eqb_eq in E. subst d'. exfalso. apply Hnotin.
        change d with (fst (d, V)). apply in_map. exact Hin.
      * apply IH; assumption.
Qed.

Lemma apply_map_notin : forall S m d j, ~ In d (map fst m) -> apply_map S m d j = None.
Proof.
  induction m as [|[d' V'] m IH]; intros d j Hn; simpl in *.
  - reflexivity.
  - destruct (str_eqb d d') eqn:E.
    + apply str_eqb_eq in E. subst. exfalso. apply Hn. left. reflexivity.
    + apply IH. intro H. apply Hn. right. exact H.
Qed.

(* the variant is exactly the one the discriminator value maps to: the result IS the structuring of
   the mapped variant V (a value of V or an error) — no other variant is consulted *)
Lemma disc_exact : forall p m vs kv d V,
  NoDup (map fst m) -> In (d, V) m -> alookup p kv = Some (JStr d) ->
  structure_union (Some (p, m)) vs (JObj kv) = structure V (JObj kv).
Proof.
  intros p m vs kv d V Hnd Hin Hp.
  unfold structure_union. simpl. unfold union_body, by_discriminator. rewrite Hp.
  destruct m as [|m0 m']; [contradiction|].
  rewrite (apply_map_in structure (m0 :: m') d V (JObj kv) Hnd Hin). reflexivity.
Qed.

(* a payload of a mapped variant that fails to decode is reported, not retried as another variant *)
Lemma no_retry : forall p m vs kv d V,
  NoDup (map fst m) -> In (d, V) m -> alookup p kv = Some (JStr d) ->
  structure V (JObj kv) = Err ->
  structure_union (Some (p, m)) vs (JObj kv) = Err.
Proof. intros. erewrite disc_exact; eauto. Qed.

(* an unmapped value (of any JSON kind) with a non-empty mapping is an error, never a guess *)
Lemma disc_unknown : forall p m vs kv dv,
  m <> [] -> alookup p kv = Some dv ->
  (forall s, dv = JStr s -> ~ In s (map fst m)) ->
  structure_union (Some (p, m)) vs (JObj kv) = Err.
Proof.
  intros p m vs kv dv Hm Hp Hun.
  unfold structure_union. simpl. unfold union_body, by_discriminator. rewrite Hp.
  destruct m as [|m0 m']; [congruence|].
  destruct dv; try reflexivity.
  rewrite apply_map_notin; [reflexivity|]. apply Hun. reflexivity.
Qed.

(* what the discriminator does NOT decide (F14d): without a mapping, or when the property is absent,
   the decode is the sequential guess *)
Lemma disc_fallthrough : forall p m vs kv,
  (m = [] \/ alookup p kv = None) ->
  structure_union (Some (p, m)) vs (JObj kv) = sequential structure vs (JObj kv).
Proof.
  intros p m vs kv H. unfold structure_union. simpl. unfold union_body, by_discriminator.
  destruct (alookup p kv) eqn:E.
  - destruct H as [H|H]; [subst; reflexivity|discriminate].
  - reflexivity.
Qed.

(* ------------------------------------------------------------------------------------- *)
(* Witnesses: the full statement  [conforms (nth k vs) j -> lossless (TUnion d vs) j]  is false *)
Definition k_x : str := [120]. Definition k_y : str := [121]. Definition k_z : str := [122].
Definition k_t : str := [116]. Definition k_q : str := [113].
Definition tA := TObj [65] [(k_x, (TInt, true))].
Definition tB := TObj [66] [(k_x, (TInt, true)); (k_y, (TInt, true))].
Definition n_Ta : str := [84;97]. Definition n_Tb : str := [84;98].
Definition tTa := TObj n_Ta [(k_t, (TStr, true)); (k_x, (TInt, true))].
Definition tTb := TObj n_Tb [(k_t, (TStr, true)); (k_x, (TInt, true)); (k_y, (TInt, true))].

Ltac refute :=
  repeat split; try (vm_compute; reflexivity);
  let v := fresh "v" in let H1 := fresh "H1" in let H2 := fresh "H2" in
  intros [v [H1 H2]]; vm_compute in H1;
  first [discriminate H1 | (inversion H1; subst; vm_compute in H2; discriminate H2)].

(* F14a: [A{x}; B{x,y}] with {x:1,y:2} is decoded as A(x=1): key y is discarded *)
Definition u_F14a := TUnion None [tA; tB].
Definition j_F14a := JObj [(k_x, JInt 1%Z); (k_y, JInt 2%Z)].
Lemma refuted_F14a :
  conforms (nth 1 [tA; tB] TNone) j_F14a = true /\ safe u_F14a j_F14a = false /\
  structure u_F14a j_F14a = Ok (VObj [65] [(k_x, VInt 1%Z)]) /\ ~ lossless u_F14a j_F14a.
Proof. refute. Qed.

(* F14b: Union[str, int] with 5 is decoded as "5" *)
Definition u_F14b := TUnion None [TStr; TInt].
Definition j_F14b := JInt 5%Z.
Lemma refuted_F14b :
  conforms (nth 1 [TStr; TInt] TNone) j_F14b = true /\ safe u_F14b j_F14b = false /\
  structure u_F14b j_F14b = Ok (VStr [53]) /\ ~ lossless u_F14b j_F14b.
Proof. refute. Qed.

(* F14d: a discriminator WITHOUT mapping does not select the variant: {t:"Tb",x:1,y:2} becomes Ta, y lost *)
Definition u_F14d := TUnion (Some (k_t, [])) [tTa; tTb].
Definition j_F14d := JObj [(k_t, JStr n_Tb); (k_x, JInt 1%Z); (k_y, JInt 2%Z)].
Lemma refuted_F14d :
  conforms (nth 1 [tTa; tTb] TNone) j_F14d = true /\ safe u_F14d j_F14d = false /\
  structure u_F14d j_F14d = Ok (VObj n_Ta [(k_t, VStr n_Tb); (k_x, VInt 1%Z)]) /\ ~ lossless u_F14d j_F14d.
Proof. refute. Qed.
(* ... whereas the same union WITH the mapping decodes it as Tb, losslessly *)
Example mapped_F14d_ok :
  structure (TUnion (Some (k_t, [(n_Ta, tTa); (n_Tb, tTb)])) [tTa; tTb]) j_F14d
  = Ok (VObj n_Tb [(k_t, VStr n_Tb); (k_x, VInt 1%Z); (k_y, VInt 2%Z)]).
Proof. vm_compute. reflexivity. Qed.

(* F14e (fixed): Union[A, dict[str,int]] with {q:1} — the typed map variant is now tried after the
   dataclass variants failed; the old witness meets the spec *)
Definition u_F14e := TUnion None [tA; TMap TInt].
Definition j_F14e := JObj [(k_q, JInt 1%Z)].
Lemma regression_F14e :
  conforms (nth 1 [tA; TMap TInt] TNone) j_F14e = true /\ safe u_F14e j_F14e = true /\
  structure u_F14e j_F14e = Ok (VDict [(k_q, VInt 1%Z)]) /\ approx (unstructure (VDict [(k_q, VInt 1%Z)])) j_F14e = true.
Proof. repeat split; vm_compute; reflexivity. Qed.

(* ------------------------------------------------------------------------------------- *)
(* Names for the nested fixpoints of the model (convertible with them)                     *)
Definition unstr_kv := fix go (kv : list (str * value)) : list (str * json) :=
  match kv with [] => [] | (k, v) :: r => (k, unstructure v) :: go r end.
Definition raw_kv := fix go (kv : list (str * json)) : list (str * value) :=
  match kv with [] => [] | (k, v) :: r => (k, raw v) :: go r end.
Definition approx_items := fix go (l l' : list json) : bool :=
  match l, l' with
  | [], [] => true
  | x :: r, x' :: r' => approx x' x && go r r'
  | _, _ => false
  end.
Definition approx_fields (kv' : list (str * json)) := fix go (kv : list (str * json)) : bool :=
  match kv with
  | [] => true
  | (k, v) :: r => match alookup k kv' with Some v' => approx v' v | None => false end && go r
  end.
Definition wf_vals := fix go (kv : list (str * json)) : bool :=
  match kv with [] => true | (_, v) :: r => wf_json v && go r end.

Lemma unstructure_VDict : forall kv, unstructure (VDict kv) = JObj (unstr_kv kv).
Proof. reflexivity. Qed.
Lemma unstructure_VObj : forall n kv, unstructure (VObj n kv) = JObj (unstr_kv kv).
Proof. reflexivity. Qed.
Lemma raw_JObj : forall kv, raw (JObj kv) = VDict (raw_kv kv).
Proof. reflexivity. Qed.
Lemma approx_JArr : forall l' l, approx (JArr l') (JArr l) = approx_items l l'.
Proof. reflexivity. Qed.
Lemma approx_JObj : forall kv' kv,
  approx (JObj kv') (JObj kv) =
  approx_fields kv' kv && forallb (fun p => has_key (fst p) kv || is_null (snd p)) kv'.
Proof. reflexivity. Qed.
Lemma wf_JObj : forall kv, wf_json (JObj kv) = nodup_keys kv && wf_vals kv.
Proof. reflexivity. Qed.

(* ---- association-list facts ---- *)
Lemma alookup_in : forall {V} (kv : list (str * V)) k v, alookup k kv = Some v -> In (k, v) kv.
Proof.
  induction kv as [|[k0 v0] kv IH]; intros k v H; simpl in *.
  - discriminate.
  - destruct (str_eqb k k0) eqn:E.
    + apply str_eqb_eq in E. subst. inversion H; subst. left. reflexivity.
    + right. apply IH. exact H.
Qed.

Lemma in_has_key : forall {V} (kv : list (str * V)) k v, In (k, v) kv -> has_key k kv = true.
Proof.
  unfold has_key. induction kv as [|[k0 v0] kv IH]; intros k v H; simpl in *.
  - contradiction.
  - destruct (str_eqb k k0) eqn:E; [reflexivity|].
    destruct H as [H|H].
    + inversion H; subst. rewrite str_eqb_refl in E. discriminate.
    + eapply IH. exact H.
Qed.

Lemma nodup_in_alookup : forall {V} (kv : list (str * V)) k v,
  nodup_keys kv = true -> In (k, v) kv -> alookup k kv = Some v.
Proof.
  induction kv as [|[k0 v0] kv IH]; intros k v Hnd Hin; simpl in *.
  - contradiction.
  - apply andb_true_iff in Hnd. destruct Hnd as [Hk Hnd].
    destruct Hin as [Hin|Hin].
    + inversion Hin; subst. rewrite str_eqb_refl. reflexivity.
    + destruct (str_eqb k k0) eqn:E.
      * apply str_eqb_eq in E. subst k0.
        rewrite (in_has_key kv k v Hin) in Hk. discriminate.
      * apply IH; assumption.
Qed.

(* the two obligations of [approx] on objects *)
Lemma approx_fields_intro : forall kv' kv,
  (forall k v, In (k, v) kv -> exists v', alookup k kv' = Some v' /\ approx v' v = true) ->
  approx_fields kv' kv = true.
Proof.
  induction kv as [|[k v] kv IH]; intros H; simpl.
  - reflexivity.
  - destruct (H k v (or_introl eq_refl)) as [v' [H1 H2]]. rewrite H1, H2. simpl.
    apply IH. intros k0 v0 Hin. apply H. right. exact Hin.
Qed.

Lemma approx_obj_intro : forall kv kv',
  (forall k v, In (k, v) kv -> exists v', alookup k kv' = Some v' /\ approx v' v = true) ->
  (forall k v', In (k, v') kv' -> has_key k kv = true \/ v' = JNull) ->
  approx (JObj kv') (JObj kv) = true.
Proof.
  intros kv kv' H1 H2. rewrite approx_JObj. apply andb_true_iff. split.
  - apply approx_fields_intro. exact H1.
  - apply forallb_forall. intros [k v'] Hin. simpl.
    destruct (H2 k v' Hin) as [H|H]; [rewrite H; reflexivity|subst; apply orb_true_r].
Qed.

(* ---- raw / unstructure / approx on raw payloads ---- *)
Lemma unstructure_raw : forall j, unstructure (raw j) = j.
Proof.
  induction j as [| | | |l IH|kv IH] using json_ind'; try reflexivity.
  - simpl. f_equal. induction IH as [|x l Hx _ IHl]; simpl; [reflexivity|]. rewrite Hx, IHl. reflexivity.
  - rewrite raw_JObj, unstructure_VDict. f_equal.
    induction IH as [|[k x] kv Hx _ IHkv]; simpl; [reflexivity|]. simpl in Hx. rewrite Hx, IHkv. reflexivity.
Qed.

Lemma approx_refl : forall j, wf_json j = true -> approx j j = true.
Proof.
  induction j as [|b|z|s|l IH|kv IH] using json_ind'; intro Hwf; try reflexivity.
  - simpl. destruct b; reflexivity.
  - simpl. apply Z.eqb_refl.
  - simpl. apply str_eqb_refl.
  - rewrite approx_JArr. simpl in Hwf.
    induction IH as [|x l Hx _ IHl]; simpl; [reflexivity|].
    simpl in Hwf. apply andb_true_iff in Hwf. destruct Hwf as [Hw1 Hw2].
    rewrite (Hx Hw1). simpl. apply IHl. exact Hw2.
  - rewrite wf_JObj in Hwf. apply andb_true_iff in Hwf. destruct Hwf as [Hnd Hvals].
    apply approx_obj_intro.
    + intros k v Hin. exists v. split; [apply nodup_in_alookup; assumption|].
      assert (Hw : wf_json v = true).
      { clear IH Hnd. induction kv as [|[k0 v0] kv IHkv]; simpl in *; [contradiction|].
        apply andb_true_iff in Hvals. destruct Hvals as [Hv0 Hvals].
        destruct Hin as [Hin|Hin]; [inversion Hin; subst; exact Hv0|apply IHkv; assumption]. }
      rewrite Forall_forall in IH. apply (IH (k, v) Hin). exact Hw.
    + intros k v' Hin. left. eapply in_has_key. exact Hin.
Qed.

(* ------------------------------------------------------------------------------------- *)
(* C14_lossless_partial: [safe t j] -> decoding succeeds and re-encodes to (at least) the payload *)
Definition good (t : ty) : Prop := forall j, safe t j = true -> lossless t j.

Lemma list_good : forall e l, good e -> forallb (safe e) l = true ->
  exists vs, map_res (structure e) l = Ok vs /\ approx_items l (map unstructure vs) = true.
Proof.
  intros e l He. induction l as [|x l IH]; intro H; simpl in *.
  - exists []. split; reflexivity.
  - apply andb_true_iff in H. destruct H as [Hx Hl].
    destruct (He x Hx) as [v [Hv Ha]]. destruct (IH Hl) as [vs [Hvs Has]].
    exists (v :: vs). rewrite Hv, Hvs. split; [reflexivity|]. simpl. rewrite Ha, Has. reflexivity.
Qed.

(* same keys position by position, values carried *)
Definition kv_rel (kv : list (str * json)) (kv' : list (str * json)) : Prop :=
  Forall2 (fun p q => fst p = fst q /\ approx (snd q) (snd p) = true) kv kv'.

Lemma kv_rel_lookup : forall kv kv', kv_rel kv kv' -> nodup_keys kv = true ->
  forall k v, In (k, v) kv -> exists v', alookup k kv' = Some v' /\ approx v' v = true.
Proof.
  induction 1 as [|[k0 v0] [k0' v0'] kv kv' [Hk Ha] Hrel IH]; intros Hnd k v Hin; simpl in *.
  - contradiction.
  - subst k0'. apply andb_true_iff in Hnd. destruct Hnd as [Hnk Hnd].
    destruct Hin as [Hin|Hin].
    + inversion Hin; subst. rewrite str_eqb_refl. exists v0'. split; [reflexivity|exact Ha].
    + destruct (str_eqb k k0) eqn:E.
      * apply str_eqb_eq in E. subst k0. rewrite (in_has_key kv k v Hin) in Hnk. discriminate.
      * apply IH; assumption.
Qed.

Lemma kv_rel_keys : forall kv kv', kv_rel kv kv' ->
  forall k v', In (k, v') kv' -> has_key k kv = true.
Proof.
  induction 1 as [|[k0 v0] [k0' v0'] kv kv' [Hk Ha] Hrel IH]; intros k v' Hin; simpl in *.
  - contradiction.
  - subst k0'. unfold has_key. simpl. destruct (str_eqb k k0) eqn:E; [reflexivity|].
    destruct Hin as [Hin|Hin].
    + inversion Hin; subst. rewrite str_eqb_refl in E. discriminate.
    + apply (IH k v' Hin).
Qed.

Lemma map_good : forall e kv, good e -> forallb (fun p => safe e (snd p)) kv = true ->
  exists vs, map_res_kv (structure e) kv = Ok vs /\ kv_rel kv (unstr_kv vs).
Proof.
  intros e kv He. induction kv as [|[k x] kv IH]; intro H; simpl in *.
  - exists []. split; [reflexivity|constructor].
  - apply andb_true_iff in H. destruct H as [Hx Hl].
    destruct (He x Hx) as [v [Hv Ha]]. destruct (IH Hl) as [vs [Hvs Has]].
    exists ((k, v) :: vs). rewrite Hv, Hvs. split; [reflexivity|].
    constructor; [split; [reflexivity|exact Ha]|exact Has].
Qed.

(* dataclass fields *)
Definition fs_rel (kv : list (str * json)) (fs : list (str * (ty * bool))) (vs : list (str * value)) : Prop :=
  Forall2 (fun f r => fst r = fst f /\
                      match alookup (fst f) kv with
                      | Some x => approx (unstructure (snd r)) x = true
                      | None => snd r = VNone
                      end) fs vs.

Lemma fields_good : forall kv fs,
  Forall (fun f => good (fst (snd f))) fs -> fields_safe safe fs kv = true ->
  exists vs, structure_fields structure fs (JObj kv) = Ok vs /\ fs_rel kv fs vs.
Proof.
  intros kv fs HF. induction HF as [|[k [ft req]] fs Hf _ IH]; intro H; simpl in *.
  - exists []. split; [reflexivity|constructor].
  - apply andb_true_iff in H. destruct H as [Hx Hl]. destruct (IH Hl) as [vs [Hvs Hrel]].
    destruct (alookup k kv) as [x|] eqn:E.
    + destruct (Hf x Hx) as [v [Hv Ha]]. exists ((k, v) :: vs). rewrite Hv, Hvs.
      split; [reflexivity|]. constructor; [|exact Hrel]. simpl. rewrite E. split; [reflexivity|exact Ha].
    + destruct req; [discriminate|]. exists ((k, VNone) :: vs). rewrite Hvs.
      split; [reflexivity|]. constructor; [|exact Hrel]. simpl. rewrite E. split; reflexivity.
Qed.

Lemma fs_rel_lookup : forall kv fs vs, fs_rel kv fs vs ->
  forall k v, has_key k fs = true -> alookup k kv = Some v ->
  exists v', alookup k (unstr_kv vs) = Some v' /\ approx v' v = true.
Proof.
  induction 1 as [|[k0 [ft req]] [k0' v0] fs vs [Hk Hv] Hrel IH]; intros k v Hk' Hl; simpl in *.
  - unfold has_key in Hk'. simpl in Hk'. discriminate.
  - subst k0'. unfold has_key in Hk'. simpl in Hk'. destruct (str_eqb k k0) eqn:E.
    + apply str_eqb_eq in E. subst k0. rewrite Hl in Hv. exists (unstructure v0). split; [reflexivity|exact Hv].
    + apply IH; assumption.
Qed.

Lemma fs_rel_extra : forall kv fs vs, fs_rel kv fs vs ->
  forall k v', In (k, v') (unstr_kv vs) -> has_key k kv = true \/ v' = JNull.
Proof.
  induction 1 as [|[k0 [ft req]] [k0' v0] fs vs [Hk Hv] Hrel IH]; intros k v' Hin; simpl in *.
  - contradiction.
  - subst k0'. destruct Hin as [Hin|Hin].
    + inversion Hin; subst. unfold has_key. destruct (alookup k kv); [left; reflexivity|].
      right. rewrite Hv. reflexivity.
    + apply (IH k v' Hin).
Qed.

(* ---- a variant that may not accept the payload (shape level) does fail ---- *)
Lemma required_absent_fails : forall S fs kv,
  required_present fs kv = false -> structure_fields S fs (JObj kv) = Err.
Proof.
  intros S fs kv. induction fs as [|[k [ft req]] fs IH]; intro H; simpl in *.
  - discriminate.
  - unfold has_key in H. destruct (alookup k kv) as [x|] eqn:E; simpl in H.
    + rewrite orb_true_r in H. simpl in H. rewrite (IH H). destruct (S ft x); reflexivity.
    + destruct req; simpl in H; [reflexivity|]. rewrite (IH H). reflexivity.
Qed.

Lemma may_accept_complete : forall v j,
  (is_dc v = true /\ exists kv, j = JObj kv) \/ is_other v = true ->
  j <> JNull -> may_accept v j = false -> structure v j = Err.
Proof.
  intros v j Hcat Hnn Hma. destruct v; simpl in Hma; try discriminate.
  - destruct Hcat as [[H _]|H]; discriminate.
  - destruct j; try discriminate; try reflexivity. simpl. destruct (parse_int s); [discriminate|reflexivity].
  - destruct j; try discriminate; reflexivity.
  - destruct j; try discriminate; reflexivity.
  - destruct Hcat as [[_ [kv Hj]]|H]; [|discriminate]. subst j. simpl.
    rewrite (required_absent_fails structure fs kv Hma). reflexivity.
Qed.

Lemma first_safe_try : forall f vs j,
  Forall good vs ->
  (forall v, In v vs -> f v = true -> may_accept v j = false -> structure v j = Err) ->
  first_safe safe f vs j = true ->
  exists v, try_each structure f vs j = Some v /\ approx (unstructure v) j = true.
Proof.
  intros f vs j HF. induction HF as [|v vs Hv _ IH]; intros Hfail H; simpl in *.
  - discriminate.
  - destruct (f v) eqn:Ef.
    + destruct (may_accept v j) eqn:Em.
      * destruct (Hv j H) as [x [Hx Ha]]. rewrite Hx. exists x. split; [reflexivity|exact Ha].
      * rewrite (Hfail v (or_introl eq_refl) Ef Em). apply IH; [|exact H].
        intros v0 Hin. apply Hfail. right. exact Hin.
    + apply IH; [|exact H]. intros v0 Hin. apply Hfail. right. exact Hin.
Qed.

Lemma none_may_accept_try : forall f vs j,
  (forall v, In v vs -> f v = true -> may_accept v j = false -> structure v j = Err) ->
  existsb (fun v => f v && may_accept v j) vs = false ->
  try_each structure f vs j = None.
Proof.
  intros f vs j. induction vs as [|v vs IH]; intros Hfail H; simpl in *.
  - reflexivity.
  - apply orb_false_iff in H. destruct H as [H1 H2].
    destruct (f v) eqn:Ef; simpl in H1.
    + rewrite (Hfail v (or_introl eq_refl) Ef H1). apply IH; [|exact H2].
      intros v0 Hin. apply Hfail. right. exact Hin.
    + apply IH; [|exact H2]. intros v0 Hin. apply Hfail. right. exact Hin.
Qed.

Lemma map_safe_apply : forall m s j,
  Forall (fun q => good (snd q)) m -> map_safe safe m s j = true ->
  exists r, apply_map structure m s j = Some r /\ exists v, r = Ok v /\ approx (unstructure v) j = true.
Proof.
  intros m s j HF. induction HF as [|[d V] m HV _ IH]; intro H; simpl in *.
  - discriminate.
  - destruct (str_eqb s d).
    + destruct (HV j H) as [v [Hv Ha]]. exists (structure V j). split; [reflexivity|].
      exists v. split; assumption.
    + apply IH. exact H.
Qed.

Lemma seq_good : forall vs j, Forall good vs -> j <> JNull ->
  seq_safe safe vs j = true ->
  exists v, sequential structure vs j = Ok v /\ approx (unstructure v) j = true.
Proof.
  intros vs j HF Hnn H.
  assert (Hother : forall v, In v vs -> is_other v = true -> may_accept v j = false -> structure v j = Err).
  { intros v _ Ho Hm. apply may_accept_complete; auto. }
  assert (Hothers : first_safe safe is_other vs j = true ->
          exists v, match try_each structure is_other vs j with Some v => Ok v | None => Err end = Ok v
                    /\ approx (unstructure v) j = true).
  { intro Hf. destruct (first_safe_try is_other vs j HF Hother Hf) as [v [Hv Ha]].
    rewrite Hv. exists v. split; [reflexivity|exact Ha]. }
  destruct j as [| | | | |kv]; try (unfold seq_safe in H; unfold sequential; apply Hothers; exact H).
  assert (Hdc : forall v, In v vs -> is_dc v = true -> may_accept v (JObj kv) = false ->
                structure v (JObj kv) = Err).
  { intros v _ Hd Hm. apply may_accept_complete; auto. left. split; [exact Hd|exists kv; reflexivity]. }
  unfold seq_safe in H. unfold sequential.
  destruct (existsb (fun v => is_dc v && may_accept v (JObj kv)) vs) eqn:Edc.
  - destruct (first_safe_try is_dc vs (JObj kv) HF Hdc H) as [v [Hv Ha]].
    rewrite Hv. exists v. split; [reflexivity|exact Ha].
  - rewrite (none_may_accept_try is_dc vs (JObj kv) Hdc Edc).
    destruct (existsb is_any_map vs).
    + exists (raw (JObj kv)). split; [reflexivity|]. rewrite unstructure_raw. apply approx_refl. exact H.
    + destruct (existsb is_dc vs); [|apply Hothers; exact H].
      assert (Htm : forall v, In v vs -> is_tmap v = true -> may_accept v (JObj kv) = false ->
                    structure v (JObj kv) = Err).
      { intros v _ Ht Hm. destruct v; try discriminate. }
      destruct (first_safe_try is_tmap vs (JObj kv) HF Htm H) as [v [Hv Ha]].
      rewrite Hv. exists v. split; [reflexivity|exact Ha].
Qed.

Theorem safe_lossless : forall t, good t.
Proof.
  induction t as [| | | | |e IHe|e IHe|n fs IHfs|d vs IHd IHvs] using ty_ind'; intros j H; simpl in H.
  - discriminate.
  - exists (raw j). split; [reflexivity|]. rewrite unstructure_raw. apply approx_refl. exact H.
  - destruct j; try discriminate. exists (VStr s). split; [reflexivity|]. simpl. apply str_eqb_refl.
  - destruct j; try discriminate. exists (VInt z). split; [reflexivity|]. simpl. apply Z.eqb_refl.
  - destruct j; try discriminate. exists (VBool b). split; [reflexivity|]. simpl. destruct b; reflexivity.
  - destruct j; try discriminate. destruct (list_good e l IHe H) as [vs [Hvs Ha]].
    exists (VList vs). simpl. rewrite Hvs. split; [reflexivity|]. exact Ha.
  - destruct j as [| | | | |kv]; try discriminate. apply andb_true_iff in H. destruct H as [Hnd Hs].
    destruct (map_good e kv IHe Hs) as [vs [Hvs Hrel]].
    exists (VDict vs). simpl structure. rewrite Hvs. split; [reflexivity|].
    rewrite unstructure_VDict. apply approx_obj_intro.
    + apply kv_rel_lookup; assumption.
    + intros k v' Hin. left. eapply kv_rel_keys; eassumption.
  - destruct j as [| | | | |kv]; try discriminate.
    apply andb_true_iff in H. destruct H as [H Hfs].
    apply andb_true_iff in H. destruct H as [H Hsub].
    apply andb_true_iff in H. destruct H as [Hnd Hndf].
    destruct (fields_good kv fs IHfs Hfs) as [vs [Hvs Hrel]].
    exists (VObj n vs). simpl structure. rewrite Hvs. split; [reflexivity|].
    rewrite unstructure_VObj. apply approx_obj_intro.
    + intros k v Hin. eapply fs_rel_lookup; [exact Hrel| |apply nodup_in_alookup; assumption].
      rewrite forallb_forall in Hsub. apply (Hsub (k, v) Hin).
    + eapply fs_rel_extra. exact Hrel.
  - unfold lossless. simpl structure. unfold union_safe in H. unfold union_body.
    destruct j as [|b|z|s|l|kv].
    + rewrite H. exists VNone. split; reflexivity.
    + assert (Hd : by_discriminator structure d (JBool b) = None) by (destruct d as [[p m]|]; reflexivity).
      rewrite Hd. apply seq_good; [exact IHvs|discriminate|]. destruct d as [[p m]|]; exact H.
    + assert (Hd : by_discriminator structure d (JInt z) = None) by (destruct d as [[p m]|]; reflexivity).
      rewrite Hd. apply seq_good; [exact IHvs|discriminate|]. destruct d as [[p m]|]; exact H.
    + assert (Hd : by_discriminator structure d (JStr s) = None) by (destruct d as [[p m]|]; reflexivity).
      rewrite Hd. apply seq_good; [exact IHvs|discriminate|]. destruct d as [[p m]|]; exact H.
    + assert (Hd : by_discriminator structure d (JArr l) = None) by (destruct d as [[p m]|]; reflexivity).
      rewrite Hd. apply seq_good; [exact IHvs|discriminate|]. destruct d as [[p m]|]; exact H.
    + destruct d as [[p m]|]; [|apply seq_good; [exact IHvs|discriminate|exact H]].
      unfold by_discriminator. simpl in IHd.
      destruct (alookup p kv) as [dv|] eqn:Ep; [|apply seq_good; [exact IHvs|discriminate|exact H]].
      destruct m as [|m0 m']; [apply seq_good; [exact IHvs|discriminate|destruct dv; exact H]|].
      destruct dv; try discriminate.
      destruct (map_safe_apply (m0 :: m') s (JObj kv) IHd H) as [r [Hr [v [Hv Ha]]]].
      rewrite Hr. subst r. exists v. split; [reflexivity|exact Ha].
Qed.

(* ------------------------------------------------------------------------------------- *)
(* The guard in the form of DESIGN §3 C14: "separated" unions.                             *)
Lemma fields_safe_required : forall fs kv, fields_safe safe fs kv = true -> required_present fs kv = true.
Proof.
  induction fs as [|[k [ft req]] fs IH]; intros kv H; simpl in *.
  - reflexivity.
  - apply andb_true_iff in H. destruct H as [H1 H2]. rewrite (IH kv H2). unfold has_key.
    destruct (alookup k kv); [rewrite orb_true_r; reflexivity|]. rewrite H1. reflexivity.
Qed.

Lemma safe_may_accept : forall v j, safe v j = true -> may_accept v j = true.
Proof.
  intros v j H. destruct v; simpl in *; try reflexivity; try discriminate.
  - destruct j; try discriminate; reflexivity.
  - destruct j; try discriminate; reflexivity.
  - destruct j; try discriminate; reflexivity.
  - destruct j; try discriminate. apply andb_true_iff in H. destruct H as [_ H].
    apply fields_safe_required. exact H.
Qed.

Lemma first_safe_at : forall f vs k v j,
  nth_error vs k = Some v -> f v = true -> safe v j = true ->
  (forall i w, (i < k)%nat -> nth_error vs i = Some w -> f w = true -> may_accept w j = false) ->
  first_safe safe f vs j = true.
Proof.
  intros f vs. induction vs as [|w vs IH]; intros k v j Hk Hf Hs Hsep.
  - destruct k; discriminate.
  - destruct k as [|k]; simpl in *.
    + inversion Hk; subst. rewrite Hf, (safe_may_accept v j Hs). exact Hs.
    + destruct (f w) eqn:Ef.
      * rewrite (Hsep O w (Nat.lt_0_succ k) eq_refl Ef).
        apply (IH k v j Hk Hf Hs). intros i w0 Hi. apply (Hsep (S i)). apply (proj1 (Nat.succ_lt_mono i k)). exact Hi.
      * apply (IH k v j Hk Hf Hs). intros i w0 Hi. apply (Hsep (S i)). apply (proj1 (Nat.succ_lt_mono i k)). exact Hi.
Qed.

Lemma existsb_nth : forall (g : ty -> bool) vs k v, nth_error vs k = Some v -> g v = true -> existsb g vs = true.
Proof.
  intros g vs. induction vs as [|w vs IH]; intros k v Hk Hg; destruct k; simpl in *; try discriminate.
  - inversion Hk; subst. rewrite Hg. reflexivity.
  - rewrite (IH k v Hk Hg). apply orb_true_r.
Qed.

(* object payload of the dataclass variant at position k: lossless when every EARLIER dataclass variant
   misses one of its required keys in the payload (F14a excluded), no discriminator involved *)
Theorem lossless_separated_obj : forall vs k n fs kv,
  nth_error vs k = Some (TObj n fs) ->
  safe (TObj n fs) (JObj kv) = true ->
  (forall i n' fs', (i < k)%nat -> nth_error vs i = Some (TObj n' fs') -> required_present fs' kv = false) ->
  lossless (TUnion None vs) (JObj kv).
Proof.
  intros vs k n fs kv Hk Hs Hsep. apply safe_lossless. simpl. unfold seq_safe.
  assert (Hex : existsb (fun v => is_dc v && may_accept v (JObj kv)) vs = true).
  { apply (existsb_nth _ vs k (TObj n fs) Hk). rewrite (safe_may_accept _ _ Hs). reflexivity. }
  rewrite Hex. apply (first_safe_at is_dc vs k (TObj n fs) (JObj kv) Hk eq_refl Hs).
  intros i w Hi Hw Hd. destruct w; try discriminate. simpl. apply (Hsep i name fs0 Hi Hw).
Qed.

(* non-object, non-null payload of the variant at position k: lossless when no earlier non-dataclass variant
   may coerce it (F14b excluded) *)
Theorem lossless_separated_other : forall vs k v j,
  j <> JNull -> (forall kv, j <> JObj kv) ->
  nth_error vs k = Some v -> is_other v = true -> safe v j = true ->
  (forall i w, (i < k)%nat -> nth_error vs i = Some w -> is_other w = true -> may_accept w j = false) ->
  lossless (TUnion None vs) j.
Proof.
  intros vs k v j Hnn Hno Hk Ho Hs Hsep. apply safe_lossless. simpl.
  destruct j as [| | | | |kv]; try congruence;
    try (unfold seq_safe; apply (first_safe_at is_other vs k v _ Hk Ho Hs Hsep)).
  all: try (exfalso; apply (Hno kv); reflexivity).
Qed.

(* discriminated: the payload names a mapped variant it safely conforms to *)
Theorem lossless_mapped : forall p m vs kv d V,
  NoDup (map fst m) -> In (d, V) m -> alookup p kv = Some (JStr d) ->
  safe V (JObj kv) = true ->
  lossless (TUnion (Some (p, m)) vs) (JObj kv).
Proof.
  intros p m vs kv d V Hnd Hin Hp Hs. destruct (safe_lossless V (JObj kv) Hs) as [v [Hv Ha]].
  exists v. split; [|exact Ha].
  change (structure (TUnion (Some (p, m)) vs) (JObj kv)) with (structure_union (Some (p, m)) vs (JObj kv)).
  rewrite (disc_exact p m vs kv d V Hnd Hin Hp). exact Hv.
Qed.

(* ---- non-vacuity: the guard holds on overlapping, all-optional, nullable, discriminated inputs ---- *)
Definition tC := TObj [67] [(k_x, (TUnion None [TInt; TNone], false)); (k_z, (TUnion None [TStr; TNone], false))].
Example guard_nonvacuous_1 :   (* [B{x,y}; A{x}; C{x?,z?}; list[int]; None] — the later, overlapping variant A is reached *)
  safe (TUnion None [tB; tA; tC; TList TInt; TNone]) (JObj [(k_x, JInt 1%Z)]) = true
  /\ structure (TUnion None [tB; tA; tC; TList TInt; TNone]) (JObj [(k_x, JInt 1%Z)]) = Ok (VObj [65] [(k_x, VInt 1%Z)]).
Proof. split; vm_compute; reflexivity. Qed.
Example guard_nonvacuous_2 :   (* discriminated, payload of the LAST variant, mapping decides *)
  safe (TUnion (Some (k_t, [(n_Ta, tTa); (n_Tb, tTb)])) [tTa; tTb]) j_F14d = true.
Proof. vm_compute. reflexivity. Qed.
Example guard_nonvacuous_3 :   (* list of nullable unions of int and list[str]: [1, ["a"], null] *)
  safe (TList (TUnion None [TInt; TList TStr; TNone])) (JArr [JInt 1%Z; JArr [JStr [97]]; JNull]) = true.
Proof. vm_compute. reflexivity. Qed.
Lemma guard_nonvacuous :
  exists t j, safe t j = true /\ (exists d vs, t = TUnion d vs /\ (length vs >= 4)%nat) /\ j <> JNull.
Proof.
  exists (TUnion None [tB; tA; tC; TList TInt; TNone]), (JObj [(k_x, JInt 1%Z)]).
  split; [exact (proj1 guard_nonvacuous_1)|]. split; [|discriminate].
  eexists _, _. split; [reflexivity|]. simpl. repeat constructor.
Qed.

(* ------------------------------------------------------------------------------------- *)
(* How far is [safe] from necessary?  It is sufficient (safe_lossless) but NOT necessary:
   [may_accept] is a shape-level over-approximation of "structure succeeds".  It is exact for
   primitives (int("a") fails, so Union[int,str] with "a" is safe) ... *)
Example safe_int_str_nondigit :
  safe (TUnion None [TInt; TStr]) (JStr [97]) = true /\ safe (TUnion None [TInt; TStr]) (JStr [55]) = false.
Proof. split; vm_compute; reflexivity. Qed.

(* ... but not for dataclass variants: A{x:int} has its required key in {x:"q"} and is therefore assumed
   to accept it, although int("q") fails and the next variant S{x:str} then decodes the payload losslessly *)
Definition tS := TObj [83] [(k_x, (TStr, true))].
Example lossless_not_safe :
  safe (TUnion None [tA; tS]) (JObj [(k_x, JStr [113])]) = false /\
  lossless (TUnion None [tA; tS]) (JObj [(k_x, JStr [113])]).
Proof.
  split; [vm_compute; reflexivity|].
  exists (VObj [83] [(k_x, VStr [113])]). split; vm_compute; reflexivity.
Qed.
