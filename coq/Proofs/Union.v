(* C14 — proofs about Model/Union.v *)
From PG Require Import Lib.Strs Model.Union.
From Coq Require Import ZArith.

(* the property for one (type, payload): decoding succeeds and the re-encoding carries the payload *)
Definition lossless (t : ty) (j : json) : Prop :=
  exists v, structure t j = Ok v /\ approx (unstructure v) j = true.

(* ------------------------------------------------------------------------------------- *)
(* induction principles for the nested inductives                                         *)
Definition disc_all (P : ty -> Prop) (d : option (str * list (str * ty))) : Prop :=
  match d with Some pm => Forall (fun q => P (snd q)) (snd pm) | None => True end.

Section TyInd.
  Variable P : ty -> Prop.
  Hypothesis HNone : P TNone.
  Hypothesis HAny : P TAny.
  Hypothesis HStr : P TStr.
  Hypothesis HInt : P TInt.
  Hypothesis HBool : P TBool.
  Hypothesis HList : forall e, P e -> P (TList e).
  Hypothesis HMap : forall e, P e -> P (TMap e).
  Hypothesis HObj : forall n fs, Forall (fun f => P (fst (snd f))) fs -> P (TObj n fs).
  Hypothesis HUnion : forall d vs, disc_all P d -> Forall P vs -> P (TUnion d vs).
  Fixpoint ty_ind' (t : ty) : P t :=
    match t with
    | TNone => HNone | TAny => HAny | TStr => HStr | TInt => HInt | TBool => HBool
    | TList e => HList e (ty_ind' e)
    | TMap e => HMap e (ty_ind' e)
    | TObj n fs =>
        HObj n fs ((fix go (fs : list (str * (ty * bool))) : Forall (fun f => P (fst (snd f))) fs :=
                      match fs with
                      | [] => Forall_nil _
                      | (k, (ft, r)) :: rest => @Forall_cons _ (fun f => P (fst (snd f))) (k, (ft, r)) rest (ty_ind' ft) (go rest)
                      end) fs)
    | TUnion d vs =>
        HUnion d vs
          (match d as d0 return disc_all P d0 with
           | None => I
           | Some pm =>
               (fix go (m : list (str * ty)) : Forall (fun q => P (snd q)) m :=
                  match m with
                  | [] => Forall_nil _
                  | (s, V) :: rest => @Forall_cons _ (fun q => P (snd q)) (s, V) rest (ty_ind' V) (go rest)
                  end) (snd pm)
           end)
          ((fix go (vs : list ty) : Forall P vs :=
              match vs with
              | [] => Forall_nil _
              | v :: rest => Forall_cons _ (ty_ind' v) (go rest)
              end) vs)
    end.
End TyInd.

Section JsonInd.
  Variable P : json -> Prop.
  Hypothesis HNull : P JNull.
  Hypothesis HBool : forall b, P (JBool b).
  Hypothesis HInt : forall z, P (JInt z).
  Hypothesis HStr : forall s, P (JStr s).
  Hypothesis HArr : forall l, Forall P l -> P (JArr l).
  Hypothesis HObj : forall kv, Forall (fun p => P (snd p)) kv -> P (JObj kv).
  Fixpoint json_ind' (j : json) : P j :=
    match j with
    | JNull => HNull | JBool b => HBool b | JInt z => HInt z | JStr s => HStr s
    | JArr l => HArr l ((fix go (l : list json) : Forall P l :=
                           match l with [] => Forall_nil _ | x :: r => Forall_cons _ (json_ind' x) (go r) end) l)
    | JObj kv => HObj kv ((fix go (kv : list (str * json)) : Forall (fun p => P (snd p)) kv :=
                             match kv with
                             | [] => Forall_nil _
                             | (k, x) :: r => @Forall_cons _ (fun p => P (snd p)) (k, x) r (json_ind' x) (go r)
                             end) kv)
    end.
End JsonInd.

(* ------------------------------------------------------------------------------------- *)
(* Discriminator theorems                                                                  *)
Lemma apply_map_in : forall S m d V j,
  NoDup (map fst m) -> In (d, V) m -> apply_map S m d j = Some (S V j).
Proof.
  induction m as [|[d' V'] m IH]; intros d V j Hnd Hin; simpl in *.
  - contradiction.
  - inversion Hnd as [|? ? Hnotin Hnd']; subst.
    destruct Hin as [Heq | Hin].
    + inversion Heq; subst. rewrite str_eqb_refl. reflexivity.
    + destruct (str_eqb d d') eqn:E.
      * apply str_eqb_eq in E. subst d'. exfalso. apply Hnotin.
        change d with (fst (d, V)). apply in_map. exact Hin.
      * apply IH; assumption.
Qed.

Lemma apply_map_notin : forall S m d j, ~ In d (map fst m) -> apply_map S m d j = None.
Proof.
  induction m as [|[d' V'] m IH]; intros d j Hn; simpl in *.
  - reflexivity.
  - destruct (str_eqb d d') eqn:E.
    + apply str_eqb_eq in E. subst. exfalso. apply Hn. left. reflexivity.
    + apply IH. intro H. apply Hn. right. exact H.
Qed.

(* the variant is exactly the one the discriminator value maps to: the result IS the structuring of
   the mapped variant V (a value of V or an error) — no other variant is consulted *)
Lemma disc_exact : forall p m vs kv d V,
  NoDup (map fst m) -> In (d, V) m -> alookup p kv = Some (JStr d) ->
  structure_union (Some (p, m)) vs (JObj kv) = structure V (JObj kv).
Proof.
  intros p m vs kv d V Hnd Hin Hp.
  unfold structure_union. simpl. unfold union_body, by_discriminator. rewrite Hp.
  destruct m as [|m0 m']; [contradiction|].
  rewrite (apply_map_in structure (m0 :: m') d V (JObj kv) Hnd Hin). reflexivity.
Qed.

(* a payload of a mapped variant that fails to decode is reported, not retried as another variant *)
Lemma no_retry : forall p m vs kv d V,
  NoDup (map fst m) -> In (d, V) m -> alookup p kv = Some (JStr d) ->
  structure V (JObj kv) = Err ->
  structure_union (Some (p, m)) vs (JObj kv) = Err.
Proof. intros. erewrite disc_exact; eauto. Qed.

(* an unmapped value (of any JSON kind) with a non-empty mapping is an error, never a guess *)
Lemma disc_unknown : forall p m vs kv dv,
  m <> [] -> alookup p kv = Some dv ->
  (forall s, dv = JStr s -> ~ In s (map fst m)) ->
  structure_union (Some (p, m)) vs (JObj kv) = Err.
Proof.
  intros p m vs kv dv Hm Hp Hun.
  unfold structure_union. simpl. unfold union_body, by_discriminator. rewrite Hp.
  destruct m as [|m0 m']; [congruence|].
  destruct dv; try reflexivity.
  rewrite apply_map_notin; [reflexivity|]. apply Hun. reflexivity.
Qed.

(* what the discriminator does NOT decide (F14d): without a mapping, or when the property is absent,
   the decode is the sequential guess *)
Lemma disc_fallthrough : forall p m vs kv,
  (m = [] \/ alookup p kv = None) ->
  structure_union (Some (p, m)) vs (JObj kv) = sequential structure vs (JObj kv).
Proof.
  intros p m vs kv H. unfold structure_union. simpl. unfold union_body, by_discriminator.
  destruct (alookup p kv) eqn:E.
  - destruct H as [H|H]; [subst; reflexivity|discriminate].
  - reflexivity.
Qed.

(* ------------------------------------------------------------------------------------- *)
(* Witnesses: the full statement  [conforms (nth k vs) j -> lossless (TUnion d vs) j]  is false *)
Definition k_x : str := [120]. Definition k_y : str := [121]. Definition k_z : str := [122].
Definition k_t : str := [116]. Definition k_q : str := [113].
Definition tA := TObj [65] [(k_x, (TInt, true))].
Definition tB := TObj [66] [(k_x, (TInt, true)); (k_y, (TInt, true))].
Definition n_Ta : str := [84;97]. Definition n_Tb : str := [84;98].
Definition tTa := TObj n_Ta [(k_t, (TStr, true)); (k_x, (TInt, true))].
Definition tTb := TObj n_Tb [(k_t, (TStr, true)); (k_x, (TInt, true)); (k_y, (TInt, true))].

Ltac refute :=
  repeat split; try (vm_compute; reflexivity);
  let v := fresh "v" in let H1 := fresh "H1" in let H2 := fresh "H2" in
  intros [v [H1 H2]]; vm_compute in H1;
  first [discriminate H1 | (inversion H1; subst; vm_compute in H2; discriminate H2)].

(* F14a: [A{x}; B{x,y}] with {x:1,y:2} is decoded as A(x=1): key y is discarded *)
Definition u_F14a := TUnion None [tA; tB].
Definition j_F14a := JObj [(k_x, JInt 1%Z); (k_y, JInt 2%Z)].
Lemma refuted_F14a :
  conforms (nth 1 [tA; tB] TNone) j_F14a = true /\ safe u_F14a j_F14a = false /\
  structure u_F14a j_F14a = Ok (VObj [65] [(k_x, VInt 1%Z)]) /\ ~ lossless u_F14a j_F14a.
Proof. refute. Qed.

(* F14b: Union[str, int] with 5 is decoded as "5" *)
Definition u_F14b := TUnion None [TStr; TInt].
Definition j_F14b := JInt 5%Z.
Lemma refuted_F14b :
  conforms (nth 1 [TStr; TInt] TNone) j_F14b = true /\ safe u_F14b j_F14b = false /\
  structure u_F14b j_F14b = Ok (VStr [53]) /\ ~ lossless u_F14b j_F14b.
Proof. refute. Qed.

(* F14d: a discriminator WITHOUT mapping does not select the variant: {t:"Tb",x:1,y:2} becomes Ta, y lost *)
Definition u_F14d := TUnion (Some (k_t, [])) [tTa; tTb].
Definition j_F14d := JObj [(k_t, JStr n_Tb); (k_x, JInt 1%Z); (k_y, JInt 2%Z)].
Lemma refuted_F14d :
  conforms (nth 1 [tTa; tTb] TNone) j_F14d = true /\ safe u_F14d j_F14d = false /\
  structure u_F14d j_F14d = Ok (VObj n_Ta [(k_t, VStr n_Tb); (k_x, VInt 1%Z)]) /\ ~ lossless u_F14d j_F14d.
Proof. refute. Qed.
(* ... whereas the same union WITH the mapping decodes it as Tb, losslessly *)
Example mapped_F14d_ok :
  structure (TUnion (Some (k_t, [(n_Ta, tTa); (n_Tb, tTb)])) [tTa; tTb]) j_F14d
  = Ok (VObj n_Tb [(k_t, VStr n_Tb); (k_x, VInt 1%Z); (k_y, VInt 2%Z)]).
Proof. vm_compute. reflexivity. Qed.

(* F14e: Union[A, dict[str,int]] with {q:1}: a conforming payload of the map variant is rejected *)
Definition u_F14e := TUnion None [tA; TMap TInt].
Definition j_F14e := JObj [(k_q, JInt 1%Z)].
Lemma refuted_F14e :
  conforms (nth 1 [tA; TMap TInt] TNone) j_F14e = true /\ safe u_F14e j_F14e = false /\
  structure u_F14e j_F14e = Err /\ ~ lossless u_F14e j_F14e.
Proof. refute. Qed.
