From PG Require Import Lib.Strs Model.Wire.
