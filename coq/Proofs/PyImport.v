(* C01 — proofs about Model/PyImport.v: witnesses for the known findings, non-vacuity, soundness of pkg_ok *)
From PG Require Import Lib.Strs Model.CoreImports Model.PyImport Gen.T_C01.
From Coq Require Import Arith.PeanoNat Lia.

(* ------------------------------------------------------------------ witness packages (hand-minimised skeletons
   of what the generator emits for the corpus documents; the corpus documents themselves are replayed on the real
   generator by the check, where exec_mod on the extracted skeleton is compared with the real import) *)
Definition n_p : str := [112]%N.                     (* "p"  : the output package *)
Definition n_models : str := [109;111;100;101;108;115]%N.
Definition n_core : str := [99;111;114;101]%N.
Definition n_a : str := [97]%N.  Definition n_b : str := [98]%N.
Definition n_A : str := [65]%N.  Definition n_B : str := [66]%N.
Definition n_Node : str := [78;111;100;101]%N.
Definition n_node : str := [110;111;100;101]%N.
Definition n_next : str := [110;101;120;116]%N.
Definition n_date : str := [100;97;116;101]%N.
Definition n_datetime : str := [100;97;116;101;116;105;109;101]%N.
Definition n_dataclass : str := [100;97;116;97;99;108;97;115;115]%N.
Definition n_dataclasses : str := [100;97;116;97;99;108;97;115;115;101;115]%N.
Definition n_Ev : str := [69;118]%N.
Definition n_ev : str := [101;118]%N.
Definition n_E302 : str := [69;114;114;111;114;51;48;50]%N.
Definition n_HTTPError : str := [72;84;84;80;69;114;114;111;114]%N.
Definition n_ep : str := [101;112]%N.
Definition n_mocks : str := [109;111;99;107;115]%N.

Definition dc_import : stmt := FromImport [n_dataclasses] [(n_dataclass, n_dataclass)].

(* F01a: A{b:$ref B}, B{a:$ref A}: models/a.py and models/b.py import each other at module level *)
Definition w_F01a : package :=
  [ mkMod [n_p] [];
    mkMod [n_p; n_models] [FromImport [n_p; n_models; n_a] [(n_A, n_A)]; FromImport [n_p; n_models; n_b] [(n_B, n_B)]];
    mkMod [n_p; n_models; n_a]
      [dc_import; FromImport [n_p; n_models; n_b] [(n_B, n_B)];
       ClassDef n_A [AName n_dataclass] [CField n_b (AOr (AName n_B) ANone) (Some ANone)]];
    mkMod [n_p; n_models; n_b]
      [dc_import; FromImport [n_p; n_models; n_a] [(n_A, n_A)];
       ClassDef n_B [AName n_dataclass] [CField n_a (AOr (AName n_A) ANone) (Some ANone)]] ].

(* F01b: Node{next:$ref Node} optional: the self reference is quoted and then or-ed with None *)
Definition w_F01b : package :=
  [ mkMod [n_p] [];
    mkMod [n_p; n_models] [FromImport [n_p; n_models; n_node] [(n_Node, n_Node)]];
    mkMod [n_p; n_models; n_node]
      [dc_import; ClassDef n_Node [AName n_dataclass] [CField n_next (AOr (AStr []) ANone) (Some ANone)]] ].

(* F01c: property `date` of format date: `date: date | None = None` binds date=None first *)
Definition w_F01c : package :=
  [ mkMod [n_p] [];
    mkMod [n_p; n_models] [FromImport [n_p; n_models; n_ev] [(n_Ev, n_Ev)]];
    mkMod [n_p; n_models; n_ev]
      [dc_import; FromImport [n_datetime] [(n_date, n_date)];
       ClassDef n_Ev [AName n_dataclass] [CField n_date (AOr (AName n_date) ANone) (Some ANone)]] ].

(* F06d: declared 302: endpoints import Error302 from the core package, which has no such alias *)
Definition w_F06d : package :=
  [ mkMod [n_p] [];
    mkMod [n_p; n_core] [Alias n_HTTPError AConst None];
    mkMod [n_p; n_ep] [FromImport [n_p; n_core] [(n_E302, n_E302)]] ].

(* F13b / F04c / F01g (and formerly F01e, F20a): a file that does not compile (decided by compile() in the oracle) *)
Definition w_syntax : package :=
  [ mkMod [n_p] [];
    mkMod [n_p; n_mocks] [Broken] ].

(* F01f: package "dup.dup": the repaired import path names a module that is not emitted *)
Definition n_dup : str := [100;117;112]%N.
Definition w_F01f : package :=
  [ mkMod [n_dup; n_dup] [];
    mkMod [n_dup; n_dup; n_core] [];
    mkMod [n_dup; n_dup; n_ep] [FromImport [n_dup; n_dup; n_dup; n_core] [(n_HTTPError, n_HTTPError)]] ].

Definition ex (pkg : package) (p : modpath) := exec_mod builtin_names pkg (size pkg) p.
Definition failed_with {A} (r : res A) (e : err) : Prop := r = Fail e.

Lemma refuted_F01a :
  c_acyclic w_F01a = false /\ c_parses w_F01a = true /\ c_closed w_F01a = true /\
  failed_with (ex w_F01a [n_p; n_models; n_a]) EImport /\ failed_with (ex w_F01a [n_p; n_models]) EImport.
Proof. vm_compute. repeat split; reflexivity. Qed.

Lemma refuted_F01b :
  c_no_str_or w_F01b = false /\ c_acyclic w_F01b = true /\
  failed_with (ex w_F01b [n_p; n_models; n_node]) EType.
Proof. vm_compute. repeat split; reflexivity. Qed.

Lemma refuted_F01c :
  c_no_shadow w_F01c = false /\ c_no_str_or w_F01c = true /\ c_acyclic w_F01c = true /\
  failed_with (ex w_F01c [n_p; n_models; n_ev]) EType.
Proof. vm_compute. repeat split; reflexivity. Qed.

Lemma refuted_F06d :
  c_static builtin_names w_F06d = false /\ c_closed w_F06d = true /\ c_acyclic w_F06d = true /\
  failed_with (ex w_F06d [n_p; n_ep]) EImport.
Proof. vm_compute. repeat split; reflexivity. Qed.

Lemma refuted_syntax :
  c_parses w_syntax = false /\ failed_with (ex w_syntax [n_p; n_mocks]) ESyntax.
Proof. vm_compute. repeat split; reflexivity. Qed.

Lemma refuted_F01f :
  c_closed w_F01f = false /\ failed_with (ex w_F01f [n_dup; n_dup; n_ep]) ENotFound.
Proof. vm_compute. repeat split; reflexivity. Qed.

(* a package that meets pkg_ok, with a dependency chain, a self reference inside a subscript, a star import and __all__ *)
Definition n_List : str := [76;105;115;116]%N.
Definition w_good : package :=
  [ mkMod [n_p] [FromImport [n_p; n_ep] [(n_A, n_A)]];
    mkMod [n_p; n_core] [Alias n_HTTPError AConst None; AllDecl [n_HTTPError]];
    mkMod [n_p; n_models] [FromImport [n_p; n_models; n_a] [(n_A, n_A)]; FromImport [n_p; n_models; n_b] [(n_B, n_B)];
                           AllDecl [n_A; n_B]];
    mkMod [n_p; n_models; n_a]
      [dc_import; FromImport [s_typing] [(n_List, n_List)]; FromImport [n_p; n_models; n_b] [(n_B, n_B)];
       ClassDef n_A [AName n_dataclass]
         [CField n_b (AOr (AName n_B) ANone) (Some ANone);
          CField n_next (AOr (ASub (AName n_List) [AStr []]) ANone) (Some ANone)]];
    mkMod [n_p; n_models; n_b] [dc_import; ClassDef n_B [AName n_dataclass] [CField n_a (AStr []) None]];
    mkMod [n_p; n_ep] [ImportStar [n_p; n_core]; FromImport [n_p; n_models; n_a] [(n_A, n_A)];
                       Def n_ep [AName n_A; AName n_HTTPError]] ].

Lemma good_pkg_ok :
  pkg_ok builtin_names w_good = true /\
  forallb (fun m => match ex w_good (path m) with Ok _ => true | Fail _ => false end) w_good = true.
Proof. vm_compute. split; reflexivity. Qed.

(* ================================================================== soundness of pkg_ok *)
Local Open Scope nat_scope.

Lemma mpeq_true : forall a b, modpath_eqb a b = true <-> a = b.
Proof.
  unfold modpath_eqb.
  induction a as [|x a IH]; destruct b as [|y b]; simpl; split; intro H;
    try reflexivity; try discriminate.
  - apply andb_true_iff in H. destruct H as [H1 H2].
    apply str_eqb_eq in H1. apply IH in H2. subst. reflexivity.
  - inversion H; subst. apply andb_true_iff. split; [apply str_eqb_refl | apply IH; reflexivity].
Qed.
Lemma mpeq_refl : forall a, modpath_eqb a a = true.
Proof. intro a. apply mpeq_true. reflexivity. Qed.
Lemma mpeq_false : forall a b, modpath_eqb a b = false <-> a <> b.
Proof.
  intros a b. split.
  - intros H E. apply mpeq_true in E. congruence.
  - intro H. destruct (modpath_eqb a b) eqn:E; [apply mpeq_true in E; contradiction | reflexivity].
Qed.
Lemma mpeq_sym : forall a b, modpath_eqb a b = modpath_eqb b a.
Proof.
  intros a b. destruct (modpath_eqb a b) eqn:E.
  - apply mpeq_true in E. subst. symmetry. apply mpeq_refl.
  - symmetry. apply mpeq_false. apply mpeq_false in E. congruence.
Qed.

(* ---------- sys.modules as an association list *)
Lemma find_sys_app : forall st1 st2 p,
  find_sys (st1 ++ st2) p = match find_sys st1 p with Some x => Some x | None => find_sys st2 p end.
Proof.
  induction st1 as [|m st1 IH]; intros st2 p; simpl; [reflexivity|].
  destruct (modpath_eqb (ms_path m) p); [reflexivity | apply IH].
Qed.

Lemma find_sys_path : forall st p m, find_sys st p = Some m -> ms_path m = p.
Proof.
  induction st as [|x st IH]; intros p m H; simpl in H; [discriminate|].
  destruct (modpath_eqb (ms_path x) p) eqn:E.
  - inversion H; subst. apply mpeq_true. exact E.
  - apply IH. exact H.
Qed.

Lemma find_update_same : forall st p f,
  (forall m, ms_path (f m) = ms_path m) ->
  find_sys (update_sys st p f) p = option_map f (find_sys st p).
Proof.
  induction st as [|x st IH]; intros p f Hf; simpl; [reflexivity|].
  destruct (modpath_eqb (ms_path x) p) eqn:E; simpl.
  - rewrite Hf, E. reflexivity.
  - rewrite E. apply IH. exact Hf.
Qed.

Lemma find_update_other : forall st p q f,
  (forall m, ms_path (f m) = ms_path m) -> q <> p ->
  find_sys (update_sys st p f) q = find_sys st q.
Proof.
  induction st as [|x st IH]; intros p q f Hf Hne; simpl; [reflexivity|].
  destruct (modpath_eqb (ms_path x) p) eqn:E; simpl.
  - rewrite Hf. apply mpeq_true in E.
    assert (E2 : modpath_eqb (ms_path x) q = false) by (apply mpeq_false; congruence).
    rewrite E2. reflexivity.
  - destruct (modpath_eqb (ms_path x) q); [reflexivity | apply IH; assumption].
Qed.

Lemma in_sys_true : forall st p, in_sys st p = true <-> exists m, find_sys st p = Some m.
Proof.
  intros st p. unfold in_sys. destruct (find_sys st p) as [m|].
  - split; [intros _; exists m; reflexivity | reflexivity].
  - split; [discriminate | intros [m H]; discriminate].
Qed.

(* ---------- pure_step only looks at the view at the statement's target *)
Lemma bind_names_ext : forall pkg vw1 vw2 t names g,
  vw1 t = vw2 t -> bind_names pkg vw1 t g names = bind_names pkg vw2 t g names.
Proof.
  intros pkg vw1 vw2 t names. induction names as [|[n asn] r IH]; intros g H; simpl; [reflexivity|].
  rewrite <- H. destruct (vw1 t) as [T|].
  - destruct (alookup n (ms_globals T)); [apply IH; exact H|].
    destruct (has_mod pkg (t ++ [n])); [apply IH; exact H | reflexivity].
  - apply IH. exact H.
Qed.

Lemma pure_step_ext : forall B pkg vw1 vw2 ga s,
  (forall t, stmt_target s = Some t -> vw1 t = vw2 t) ->
  pure_step B pkg vw1 ga s = pure_step B pkg vw2 ga s.
Proof.
  intros B pkg vw1 vw2 ga s H. destruct s; simpl in *; try reflexivity.
  - rewrite (bind_names_ext pkg vw1 vw2 target names (fst ga) (H _ eq_refl)). reflexivity.
  - rewrite (H _ eq_refl). reflexivity.
Qed.

Lemma submodule_loads_ext : forall pkg vw1 vw2 s,
  (forall t, stmt_target s = Some t -> vw1 t = vw2 t) ->
  submodule_loads pkg vw1 s = submodule_loads pkg vw2 s.
Proof.
  intros pkg vw1 vw2 s H. destruct s; simpl in *; try reflexivity.
  rewrite (H _ eq_refl). reflexivity.
Qed.

(* ---------- the import chain of a target: its nonempty prefixes, shortest first *)
Lemma prefixes_from_spec : forall p acc,
  prefixes_from acc p = map (fun k => acc ++ firstn k p) (seq 1 (length p - 1)).
Proof.
  induction p as [|x p IH]; intro acc; [reflexivity|].
  destruct p as [|y r]; [reflexivity|].
  change (prefixes_from acc (x :: y :: r)) with ((acc ++ [x]) :: prefixes_from (acc ++ [x]) (y :: r)).
  rewrite IH.
  replace (length (x :: y :: r) - 1) with (S (length r)) by (simpl; lia).
  replace (length (y :: r) - 1) with (length r) by (simpl; lia).
  change (seq 1 (S (length r))) with (1 :: seq 2 (length r)).
  rewrite <- (seq_shift (length r) 1). rewrite map_cons, map_map.
  f_equal. apply map_ext. intro k. rewrite <- app_assoc. reflexivity.
Qed.

Lemma chain_nth : forall t i, i < length t ->
  nth_error (chain_of t) i = Some (firstn (S i) t).
Proof.
  intros t i Hi. unfold chain_of, proper_prefixes. rewrite prefixes_from_spec.
  destruct (Nat.eq_dec i (length t - 1)) as [E|E].
  - rewrite nth_error_app2; rewrite map_length, seq_length; [|lia].
    replace (i - (length t - 1)) with 0 by lia.
    change (nth_error [t] 0) with (Some t).
    rewrite (firstn_all2 (n := S i) t) by lia. reflexivity.
  - rewrite nth_error_app1 by (rewrite map_length, seq_length; lia).
    rewrite nth_error_map. rewrite nth_error_nth' with (d := 0) by (rewrite seq_length; lia).
    rewrite seq_nth by lia. reflexivity.
Qed.

Lemma chain_length : forall t, t <> [] -> length (chain_of t) = length t.
Proof.
  intros t Ht. unfold chain_of, proper_prefixes. rewrite prefixes_from_spec.
  rewrite app_length, map_length, seq_length. simpl.
  destruct t; [contradiction | simpl; lia].
Qed.

Lemma proper_prefixes_In : forall q a, In a (proper_prefixes q) ->
  exists k, 1 <= k /\ k < length q /\ a = firstn k q.
Proof.
  intros q a H. unfold proper_prefixes in H. rewrite prefixes_from_spec in H.
  apply in_map_iff in H. destruct H as [k [Hk Hin]]. apply in_seq in Hin.
  exists k. simpl in Hk. repeat split; try lia. symmetry. exact Hk.
Qed.

(* ancestors come earlier in the chain *)
Lemma chain_ancestors_earlier : forall t l1 q l2,
  chain_of t = l1 ++ q :: l2 -> forall a, In a (proper_prefixes q) -> In a l1.
Proof.
  intros t l1 q l2 H a Ha.
  destruct t as [|x t'].
  - (* chain_of [] = [[]] *)
    destruct l1 as [|y l1]; simpl in H.
    + inversion H; subst. simpl in Ha. contradiction.
    + inversion H. destruct l1; discriminate.
  - set (t := x :: t') in *.
    assert (Hlen : length (chain_of t) = length t) by (apply chain_length; discriminate).
    assert (Hi : length l1 < length t).
    { rewrite <- Hlen, H, app_length. simpl. lia. }
    assert (Hq : q = firstn (S (length l1)) t).
    { pose proof (chain_nth t (length l1) Hi) as Hn. rewrite H in Hn.
      rewrite nth_error_app2 in Hn by lia. rewrite Nat.sub_diag in Hn. cbn [nth_error] in Hn. injection Hn as Hn. exact Hn. }
    apply proper_prefixes_In in Ha. destruct Ha as [k [Hk1 [Hk2 ->]]].
    assert (Hql : length q = S (length l1)) by (rewrite Hq, firstn_length; lia).
    assert (Hk : k - 1 < length l1) by lia.
    pose proof (chain_nth t (k - 1) ltac:(lia)) as Hn.
    rewrite H in Hn. rewrite nth_error_app1 in Hn by lia.
    apply nth_error_In in Hn.
    replace (S (k - 1)) with k in Hn by lia.
    rewrite Hq. rewrite firstn_firstn. replace (Init.Nat.min k (S (length l1))) with k by lia.
    exact Hn.
Qed.

Lemma prefix_parts_firstn : forall k (t : modpath), prefix_parts (firstn k t) t = true.
Proof.
  induction k as [|k IH]; intros [|x t]; simpl; try reflexivity.
  rewrite str_eqb_refl. simpl. apply IH.
Qed.

Lemma prefix_parts_refl : forall (t : modpath), prefix_parts t t = true.
Proof. induction t as [|x t IH]; simpl; [reflexivity | rewrite str_eqb_refl; exact IH]. Qed.

Lemma chain_In_prefix : forall t q, In q (chain_of t) -> t <> [] -> prefix_parts q t = true /\ q <> [].
Proof.
  intros t q H Ht. apply In_nth_error in H. destruct H as [i Hi].
  assert (Hlt : i < length t).
  { rewrite <- (chain_length t Ht). apply nth_error_Some. congruence. }
  rewrite (chain_nth t i Hlt) in Hi.
  assert (Hq : q = firstn (S i) t) by congruence. clear Hi. subst q. split.
  - apply prefix_parts_firstn.
  - destruct t; [contradiction | simpl; discriminate].
Qed.

(* ---------- small facts about lookups in lists of paths / modules *)
Lemma mem_path_In' : forall m l, mem_path m l = true <-> In m l.
Proof.
  intros m l. unfold mem_path. rewrite existsb_exists. split.
  - intros [x [Hin He]]. apply mpeq_true in He. subst. exact Hin.
  - intro H. exists m. split; [exact H | apply mpeq_refl].
Qed.

Lemma nodup_paths_NoDup : forall l, nodup_paths l = true -> NoDup l.
Proof.
  induction l as [|x l IH]; intro H; [constructor|].
  simpl in H. apply andb_true_iff in H. destruct H as [H1 H2].
  constructor; [|apply IH; exact H2].
  intro Hin. apply mem_path_In' in Hin. rewrite Hin in H1. discriminate.
Qed.

Lemma index_of_nth : forall l p i, index_of p l = Some i -> nth_error l i = Some p.
Proof.
  induction l as [|x l IH]; intros p i H; simpl in H; [discriminate|].
  destruct (modpath_eqb x p) eqn:E.
  - inversion H; subst. apply mpeq_true in E. subst. reflexivity.
  - destruct (index_of p l) as [j|] eqn:Ej; [|discriminate].
    inversion H; subst. simpl. apply IH. exact Ej.
Qed.

Lemma index_of_In : forall l p, In p l -> exists i, index_of p l = Some i.
Proof.
  induction l as [|x l IH]; intros p H; [contradiction|]. simpl.
  destruct (modpath_eqb x p) eqn:E; [exists 0; reflexivity|].
  destruct H as [H|H]; [subst; rewrite mpeq_refl in E; discriminate|].
  destruct (IH p H) as [i Hi]. rewrite Hi. exists (S i). reflexivity.
Qed.

Lemma index_of_lt : forall l p i, index_of p l = Some i -> i < length l.
Proof. intros l p i H. apply index_of_nth in H. apply nth_error_Some. congruence. Qed.

Lemma find_mod_spec : forall pkg p m, find_mod pkg p = Some m -> In m pkg /\ path m = p.
Proof.
  induction pkg as [|x pkg IH]; intros p m H; simpl in H; [discriminate|].
  destruct (modpath_eqb (path x) p) eqn:E.
  - inversion H; subst. split; [left; reflexivity | apply mpeq_true; exact E].
  - destruct (IH p m H) as [H1 H2]. split; [right; exact H1 | exact H2].
Qed.

Lemma has_mod_true : forall pkg p, has_mod pkg p = true <-> exists m, find_mod pkg p = Some m.
Proof.
  intros pkg p. unfold has_mod. destruct (find_mod pkg p) as [m|].
  - split; [intros _; exists m; reflexivity | reflexivity].
  - split; [discriminate | intros [m H]; discriminate].
Qed.

Lemma find_mod_In : forall pkg m, In m pkg -> has_mod pkg (path m) = true.
Proof.
  induction pkg as [|x pkg IH]; intros m H; [contradiction|].
  unfold has_mod. simpl. destruct (modpath_eqb (path x) (path m)) eqn:E; [reflexivity|].
  destruct H as [H|H]; [subst; rewrite mpeq_refl in E; discriminate|].
  apply IH in H. unfold has_mod in H. exact H.
Qed.

Lemma find_sys_In_paths : forall st p e, find_sys st p = Some e -> In p (map ms_path st).
Proof.
  induction st as [|x st IH]; intros p e H; simpl in H; [discriminate|].
  destruct (modpath_eqb (ms_path x) p) eqn:E.
  - left. apply mpeq_true. exact E.
  - right. eapply IH. exact H.
Qed.

Lemma find_sys_first : forall st p j e,
  nth_error st j = Some e -> ms_path e = p ->
  (forall i e', i < j -> nth_error st i = Some e' -> ms_path e' <> p) ->
  find_sys st p = Some e.
Proof.
  induction st as [|x st IH]; intros p j e Hn Hp Hfirst; [destruct j; discriminate|].
  destruct j as [|j]; simpl in *.
  - inversion Hn; subst. rewrite mpeq_refl. reflexivity.
  - assert (E : modpath_eqb (ms_path x) p = false).
    { apply mpeq_false. apply (Hfirst 0 x); [lia | reflexivity]. }
    rewrite E. apply (IH p j e Hn Hp).
    intros i e' Hi Hn'. apply (Hfirst (S i) e'); [lia | exact Hn'].
Qed.

(* ---------- the canonical (static) run *)
Lemma fold_canon_fail : forall B pkg l e, fold_left (canon_step B pkg) l (Fail e) = Fail e.
Proof. induction l as [|p l IH]; intro e; simpl; [reflexivity | apply IH]. Qed.

Lemma fold_canon : forall B pkg l acc C,
  fold_left (canon_step B pkg) l (Ok acc) = Ok C ->
  exists ext, C = acc ++ ext /\ map ms_path ext = l /\
    forall i p, nth_error l i = Some p ->
      exists m g al, find_mod pkg p = Some m /\
        sbody B pkg (find_sys (acc ++ firstn i ext)) ([], None) (body m) = Ok (g, al) /\
        exports_ok g al = true /\ nth_error ext i = Some (mkMS p true g al).
Proof.
  intros B pkg. induction l as [|p l IH]; intros acc C H; simpl in H.
  - inversion H; subst. exists []. rewrite app_nil_r. repeat split; auto.
    intros i p Hn. destruct i; discriminate.
  - destruct (find_mod pkg p) as [m|] eqn:Em; [|rewrite fold_canon_fail in H; discriminate].
    destruct (sbody B pkg (find_sys acc) ([], None) (body m)) as [[g al]|e] eqn:Es;
      [|rewrite fold_canon_fail in H; discriminate].
    simpl in H. destruct (exports_ok g al) eqn:Ee; [|rewrite fold_canon_fail in H; discriminate].
    apply IH in H. destruct H as [ext [HC [Hmap Hall]]].
    exists (mkMS p true g al :: ext). split; [|split].
    + rewrite HC, <- app_assoc. reflexivity.
    + simpl. rewrite Hmap. reflexivity.
    + intros i q Hn. destruct i as [|i].
      * simpl in Hn. inversion Hn; subst q. exists m, g, al. simpl. rewrite app_nil_r. auto.
      * simpl in Hn. destruct (Hall i q Hn) as [m' [g' [al' [H1 [H2 [H3 H4]]]]]].
        exists m', g', al'. repeat split; auto.
        simpl. rewrite <- app_assoc in H2. exact H2.
Qed.

Lemma proper_prefixes_complete : forall q p,
  prefix_parts q p = true -> q <> [] -> q <> p -> In q (proper_prefixes p).
Proof.
  intros q p Hpre Hne Hneq.
  assert (Hq : q = firstn (length q) p /\ length q <= length p).
  { clear Hne Hneq. revert p Hpre. induction q as [|x q IH]; intros p Hpre; [split; [reflexivity | simpl; lia]|].
    destruct p as [|y p]; [discriminate|]. simpl in Hpre.
    apply andb_true_iff in Hpre. destruct Hpre as [H1 H2]. apply str_eqb_eq in H1. subst y.
    destruct (IH p H2) as [E L]. split; [simpl; f_equal; exact E | simpl; lia]. }
  destruct Hq as [Hq Hl].
  assert (Hlt : length q < length p).
  { destruct (Nat.eq_dec (length q) (length p)) as [E|E]; [|lia].
    exfalso. apply Hneq. rewrite Hq, E. apply firstn_all. }
  unfold proper_prefixes. rewrite prefixes_from_spec. apply in_map_iff.
  exists (length q). split; [simpl; symmetry; exact Hq|].
  apply in_seq. destruct q; [contradiction | simpl in *; lia].
Qed.

Lemma in_sys_update : forall st p f q,
  (forall m, ms_path (f m) = ms_path m) -> in_sys (update_sys st p f) q = in_sys st q.
Proof.
  intros st p f q Hf. unfold in_sys.
  destruct (mpeq_true q p) as [_ _]. destruct (modpath_eqb q p) eqn:E.
  - apply mpeq_true in E. subst q. rewrite find_update_same by exact Hf.
    destruct (find_sys st p); reflexivity.
  - apply mpeq_false in E. rewrite find_update_other by assumption. reflexivity.
Qed.

Lemma nth_error_firstn' : forall (A : Type) (l : list A) j k,
  nth_error (firstn j l) k = if k <? j then nth_error l k else None.
Proof.
  induction l as [|x l IH]; intros j k.
  - rewrite firstn_nil. destruct k; destruct (_ <? _); reflexivity.
  - destruct j as [|j]; [destruct k; reflexivity|].
    destruct k as [|k]; [reflexivity|]. simpl firstn. simpl nth_error. rewrite IH.
    change (S k <? S j) with (k <? j). reflexivity.
Qed.

Section Sound.
  Variable B : list str.
  Variable P : package.
  Variable C : sysmods.
  Variable order : list modpath.
  Hypothesis Hcanon : canon_with B P order = Ok C.
  Hypothesis Hacyc : c_acyclic_with P order = true.
  Hypothesis Hclosed : c_closed P = true.
  Hypothesis Hnoanc : c_no_ancestor_names P = true.
  Hypothesis Hpaths : c_paths P = true.

  Definition idx (p : modpath) : option nat := index_of p order.

  Lemma ord_nodup : NoDup order.
  Proof.
    unfold c_acyclic_with in Hacyc. apply andb_true_iff in Hacyc. destruct Hacyc as [H _].
    apply andb_true_iff in H. destruct H as [H _]. apply nodup_paths_NoDup. exact H.
  Qed.

  Lemma ord_mod : forall p i, idx p = Some i -> has_mod P p = true.
  Proof.
    intros p i H. unfold c_acyclic_with in Hacyc. apply andb_true_iff in Hacyc. destruct Hacyc as [_ H3].
    rewrite forallb_forall in H3. apply H3. apply index_of_nth in H. eapply nth_error_In. exact H.
  Qed.

  Lemma ord_edges : forall m, In m P ->
    exists i, idx (path m) = Some i /\
      forall q, In q (mod_edges P m) -> exists j, idx q = Some j /\ j < i.
  Proof.
    intros m Hm. unfold c_acyclic_with in Hacyc. apply andb_true_iff in Hacyc. destruct Hacyc as [H _].
    apply andb_true_iff in H. destruct H as [_ H]. rewrite forallb_forall in H. specialize (H m Hm).
    unfold edges_decrease in H.
    destruct (index_of (path m) order) as [i|] eqn:Ei; [|discriminate].
    exists i. split; [exact Ei|]. intros q Hq. rewrite forallb_forall in H. specialize (H q Hq).
    unfold idx. destruct (index_of q order) as [j|]; [|discriminate].
    exists j. split; [reflexivity | apply Nat.ltb_lt; exact H].
  Qed.

  (* --- the canonical entries *)
  Lemma canon_paths : map ms_path C = order.
  Proof.
    unfold canon_with in Hcanon. apply fold_canon in Hcanon. destruct Hcanon as [ext [HC [Hm _]]].
    simpl in HC. subst C. exact Hm.
  Qed.

  Lemma canon_nth : forall p j, idx p = Some j ->
    exists m g al, find_mod P p = Some m /\
      sbody B P (find_sys (firstn j C)) ([], None) (body m) = Ok (g, al) /\
      exports_ok g al = true /\ nth_error C j = Some (mkMS p true g al).
  Proof.
    intros p j H. unfold canon_with in Hcanon. apply fold_canon in Hcanon.
    destruct Hcanon as [ext [HC [_ Hall]]]. simpl in HC. subst C.
    apply index_of_nth in H. exact (Hall j p H).
  Qed.

  Lemma canon_unique : forall i j e e' p,
    nth_error C i = Some e -> nth_error C j = Some e' -> ms_path e = p -> ms_path e' = p -> i = j.
  Proof.
    intros i j e e' p Hi Hj Hp Hp'.
    assert (Hi' : nth_error order i = Some p) by (rewrite <- canon_paths, nth_error_map, Hi; simpl; congruence).
    assert (Hj' : nth_error order j = Some p) by (rewrite <- canon_paths, nth_error_map, Hj; simpl; congruence).
    pose proof ord_nodup as Hnd. rewrite NoDup_nth_error in Hnd. apply Hnd; [|congruence].
    apply nth_error_Some. congruence.
  Qed.

  Lemma canon_find : forall p j e, nth_error C j = Some e -> ms_path e = p -> find_sys C p = Some e.
  Proof.
    intros p j e Hn Hp. apply (find_sys_first C p j e Hn Hp).
    intros i e' Hi Hn' Hp'. assert (i = j) by (eapply canon_unique; eauto). lia.
  Qed.

  Lemma canon_find_prefix : forall p j k e, nth_error C k = Some e -> ms_path e = p -> k < j ->
    find_sys (firstn j C) p = Some e.
  Proof.
    intros p j k e Hn Hp Hk.
    assert (Hn2 : nth_error (firstn j C) k = Some e) by (rewrite nth_error_firstn'; destruct (Nat.ltb_spec k j); [exact Hn | lia]).
    apply (find_sys_first _ p k e Hn2 Hp).
    intros i e' Hi Hn' Hp'.
    assert (Hn3 : nth_error C i = Some e').
    { rewrite nth_error_firstn' in Hn'. destruct (Nat.ltb_spec i j); [exact Hn' | discriminate]. }
    assert (i = k) by (eapply canon_unique; eauto). lia.
  Qed.

  Lemma canon_entry : forall p j, idx p = Some j ->
    exists m g al, find_mod P p = Some m /\
      sbody B P (find_sys (firstn j C)) ([], None) (body m) = Ok (g, al) /\
      exports_ok g al = true /\ find_sys C p = Some (mkMS p true g al).
  Proof.
    intros p j H. destruct (canon_nth p j H) as [m [g [al [H1 [H2 [H3 H4]]]]]].
    exists m, g, al. repeat split; auto. eapply canon_find; [exact H4 | reflexivity].
  Qed.

  Lemma canon_view_low : forall t k j, idx t = Some k -> k < j -> find_sys (firstn j C) t = find_sys C t.
  Proof.
    intros t k j Hk Hlt. destruct (canon_nth t k Hk) as [m [g [al [_ [_ [_ H4]]]]]].
    rewrite (canon_find_prefix t j k _ H4 eq_refl Hlt). symmetry. eapply canon_find; [exact H4 | reflexivity].
  Qed.

  Lemma canon_view_ext : forall t j, has_mod P t = false -> find_sys (firstn j C) t = None.
  Proof.
    intros t j H. destruct (find_sys (firstn j C) t) as [e|] eqn:E; [|reflexivity].
    exfalso. apply find_sys_In_paths in E.
    assert (Hin : In t order).
    { rewrite <- canon_paths. rewrite <- (firstn_skipn j C), map_app. apply in_or_app. left. exact E. }
    destruct (index_of_In order t Hin) as [i Hi]. rewrite (ord_mod t i Hi) in H. discriminate.
  Qed.

  Lemma canon_done : forall q ms, find_sys C q = Some ms -> ms_done ms = true.
  Proof.
    intros q ms H. pose proof (find_sys_In_paths _ _ _ H) as Hin. rewrite canon_paths in Hin.
    destruct (index_of_In order q Hin) as [i Hi].
    destruct (canon_entry q i Hi) as [m [g [al [_ [_ [_ H4]]]]]]. rewrite H in H4. inversion H4. reflexivity.
  Qed.

  (* --- invariants of the dynamic run *)
  Definition Inv (st : sysmods) : Prop :=
    (forall q ms, find_sys st q = Some ms -> ms_done ms = true -> find_sys C q = Some ms) /\
    (forall q, in_sys st q = true -> has_mod P q = true) /\
    (forall q a, in_sys st q = true -> In a (proper_prefixes q) -> has_mod P a = true -> in_sys st a = true).

  (* every partially initialised module has rank >= r *)
  Definition Low (st : sysmods) (r : nat) : Prop :=
    forall q ms, find_sys st q = Some ms -> ms_done ms = false -> exists k, idx q = Some k /\ r <= k.

  Definition Ext (st st' : sysmods) : Prop :=
    (forall q ms, find_sys st q = Some ms -> find_sys st' q = Some ms) /\
    (forall q ms, find_sys st' q = Some ms -> ms_done ms = false -> find_sys st q = Some ms).

  Lemma Ext_refl : forall st, Ext st st.
  Proof. intro st. split; auto. Qed.

  Lemma Ext_trans : forall a b c, Ext a b -> Ext b c -> Ext a c.
  Proof.
    intros a b c [H1 H2] [H3 H4]. split; intros q ms H.
    - apply H3. apply H1. exact H.
    - intro Hd. apply H2; [apply H4; assumption | exact Hd].
  Qed.

  Lemma Ext_in_sys : forall st st' q, Ext st st' -> in_sys st q = true -> in_sys st' q = true.
  Proof.
    intros st st' q [H _] Hq. apply in_sys_true in Hq. destruct Hq as [m Hm].
    apply in_sys_true. exists m. apply H. exact Hm.
  Qed.

  Lemma no_empty_mod : has_mod P [] = false.
  Proof.
    destruct (has_mod P []) eqn:E; [|reflexivity]. exfalso.
    apply has_mod_true in E. destruct E as [m Hm]. apply find_mod_spec in Hm. destruct Hm as [Hin Hp].
    unfold c_paths in Hpaths. apply andb_true_iff in Hpaths. destruct Hpaths as [_ H].
    rewrite forallb_forall in H. specialize (H m Hin). rewrite Hp in H. discriminate.
  Qed.

  Lemma find_app_fresh_other : forall st e q, q <> ms_path e -> find_sys (st ++ [e]) q = find_sys st q.
  Proof.
    intros st e q Hne. rewrite find_sys_app. destruct (find_sys st q); [reflexivity|]. simpl.
    assert (E : modpath_eqb (ms_path e) q = false) by (apply mpeq_false; congruence). rewrite E. reflexivity.
  Qed.

  Lemma find_app_fresh_same : forall st e, find_sys st (ms_path e) = None -> find_sys (st ++ [e]) (ms_path e) = Some e.
  Proof. intros st e H. rewrite find_sys_app, H. simpl. rewrite mpeq_refl. reflexivity. Qed.

  (* ---------------------------------------------------------------- executing the body of one module *)
  Section Body.
    Variable p : modpath.
    Variable i : nat.
    Variable m : pymod.
    Variable f' : nat.
    Hypothesis Hidx : idx p = Some i.
    Hypothesis Hm : find_mod P p = Some m.
    Hypothesis Hf' : 1 <= f'.
    (* induction hypothesis of the main lemma: modules of smaller rank load fine *)
    Hypothesis IHload : forall q k, idx q = Some k -> k < i -> forall st,
      Inv st -> Low st (S k) ->
      (forall a, In a (proper_prefixes q) -> has_mod P a = true -> in_sys st a = true) ->
      exists st', load B P f' st q = Ok st' /\ Inv st' /\ Ext st st' /\
                  (exists ms, find_sys st' q = Some ms /\ ms_done ms = true).

    Definition BI (st : sysmods) (ga : env * option (list str)) : Prop :=
      Inv st /\ find_sys st p = Some (mkMS p false (fst ga) (snd ga)) /\
      (forall q ms, find_sys st q = Some ms -> ms_done ms = false ->
                    q = p \/ exists k, idx q = Some k /\ S i <= k).

    Definition Ext' (st st' : sysmods) : Prop :=
      (forall q ms, q <> p -> find_sys st q = Some ms -> find_sys st' q = Some ms) /\
      (forall q ms, find_sys st' q = Some ms -> ms_done ms = false -> q = p \/ find_sys st q = Some ms).

    Lemma Ext_Ext' : forall st st', Ext st st' -> Ext' st st'.
    Proof. intros st st' [H1 H2]. split; intros q ms; [intros _; apply H1 | intros H Hd; right; apply H2; assumption]. Qed.

    Lemma Ext'_refl : forall st, Ext' st st.
    Proof. intro st. apply Ext_Ext'. apply Ext_refl. Qed.

    Lemma Ext'_trans : forall a b c, Ext' a b -> Ext' b c -> Ext' a c.
    Proof.
      intros a b c [H1 H2] [H3 H4]. split; intros q ms.
      - intros Hne H. apply H3; [exact Hne|]. apply H1; assumption.
      - intros H Hd. destruct (H4 q ms H Hd) as [E|E]; [left; exact E|]. apply H2; assumption.
    Qed.

    Definition lowish (st : sysmods) (q : modpath) : Prop :=
      in_sys st q = true \/ exists k, idx q = Some k /\ k < i.

    Lemma lowish_Ext : forall st st' q, Ext st st' -> lowish st q -> lowish st' q.
    Proof. intros st st' q HE [H|H]; [left; eapply Ext_in_sys; eauto | right; exact H]. Qed.

    Lemma BI_Ext : forall st st' ga, BI st ga -> Inv st' -> Ext st st' -> BI st' ga.
    Proof.
      intros st st' ga [HI [He Hl]] HI' [H1 H2]. split; [exact HI'|]. split; [apply H1; exact He|].
      intros q ms Hq Hd. apply (Hl q ms); [apply H2; assumption | exact Hd].
    Qed.

    Lemma load_present : forall st q, in_sys st q = true -> load B P f' st q = Ok st.
    Proof. intros st q H. destruct f' as [|f'']; [lia|]. simpl. rewrite H. reflexivity. Qed.

    Lemma ONE : forall st ga q, BI st ga -> has_mod P q = true -> lowish st q ->
      (forall a, In a (proper_prefixes q) -> has_mod P a = true -> in_sys st a = true) ->
      exists st', load B P f' st q = Ok st' /\ BI st' ga /\ Ext st st' /\ in_sys st' q = true.
    Proof.
      intros st ga q HB Hq Hlow Hanc. destruct (in_sys st q) eqn:E.
      - exists st. split; [apply load_present; exact E|]. split; [exact HB|]. split; [apply Ext_refl | exact E].
      - destruct Hlow as [Hl|[k [Hk Hlt]]]; [congruence|].
        destruct HB as [HI [He Hl]].
        assert (HLow : Low st (S k)).
        { intros q0 ms Hq0 Hd. destruct (Hl q0 ms Hq0 Hd) as [->|[k0 [Hk0 Hle]]].
          - exists i. split; [exact Hidx | lia].
          - exists k0. split; [exact Hk0 | lia]. }
        destruct (IHload q k Hk Hlt st HI HLow Hanc) as [st' [H1 [H2 [H3 [ms [H4 H5]]]]]].
        exists st'. split; [exact H1|]. split; [|split; [exact H3|]].
        + apply (BI_Ext st st' ga); [split; [exact HI | split; assumption] | exact H2 | exact H3].
        + apply in_sys_true. exists ms. exact H4.
    Qed.

    Lemma LIST : forall l pre st ga, BI st ga ->
      (forall a, In a pre -> has_mod P a = true -> in_sys st a = true) ->
      (forall l1 q l2, l = l1 ++ q :: l2 -> forall a, In a (proper_prefixes q) -> In a (pre ++ l1)) ->
      (forall q, In q l -> has_mod P q = true -> lowish st q) ->
      exists st', load_list P (load B P f') st l = Ok st' /\ BI st' ga /\ Ext st st' /\
                  (forall a, In a (pre ++ l) -> has_mod P a = true -> in_sys st' a = true).
    Proof.
      induction l as [|q l IH]; intros pre st ga HB Hpre Hdec Hlow.
      - exists st. simpl. split; [reflexivity|]. split; [exact HB|]. split; [apply Ext_refl|].
        rewrite app_nil_r. exact Hpre.
      - simpl. destruct (has_mod P q) eqn:Hq.
        + assert (Hanc : forall a, In a (proper_prefixes q) -> has_mod P a = true -> in_sys st a = true).
          { intros a Ha Hm'. apply Hpre; [|exact Hm'].
            specialize (Hdec [] q l eq_refl a Ha). rewrite app_nil_r in Hdec. exact Hdec. }
          destruct (ONE st ga q HB Hq (Hlow q (or_introl eq_refl) Hq) Hanc) as [st1 [H1 [H2 [H3 H4]]]].
          rewrite H1.
          destruct (IH (pre ++ [q]) st1 ga H2) as [st' [G1 [G2 [G3 G4]]]].
          * intros a Ha Hm'. apply in_app_or in Ha. destruct Ha as [Ha|[<-|[]]].
            -- eapply Ext_in_sys; [exact H3 | apply Hpre; assumption].
            -- exact H4.
          * intros l1 q' l2 El a Ha. rewrite <- app_assoc. simpl.
            apply (Hdec (q :: l1) q' l2); [rewrite El; reflexivity | exact Ha].
          * intros q' Hq' Hm'. eapply lowish_Ext; [exact H3|]. apply Hlow; [right; exact Hq' | exact Hm'].
          * exists st'. split; [exact G1|]. split; [exact G2|]. split; [eapply Ext_trans; eauto|].
            intros a Ha. apply G4. rewrite <- app_assoc. exact Ha.
        + destruct (IH (pre ++ [q]) st ga HB) as [st' [G1 [G2 [G3 G4]]]].
          * intros a Ha Hm'. apply in_app_or in Ha. destruct Ha as [Ha|[<-|[]]]; [apply Hpre; assumption | congruence].
          * intros l1 q' l2 El a Ha. rewrite <- app_assoc. simpl.
            apply (Hdec (q :: l1) q' l2); [rewrite El; reflexivity | exact Ha].
          * intros q' Hq' Hm'. apply Hlow; [right; exact Hq' | exact Hm'].
          * exists st'. split; [exact G1|]. split; [exact G2|]. split; [exact G3|].
            intros a Ha. apply G4. rewrite <- app_assoc. exact Ha.
    Qed.

    Lemma TARGET : forall st ga t, BI st ga ->
      (forall q, In q (chain_of t) -> has_mod P q = true -> lowish st q) ->
      (has_mod P t = true \/ internal P t = false) ->
      exists st', load_chain P (load B P f') st t = Ok st' /\ BI st' ga /\ Ext st st' /\
                  (has_mod P t = true -> in_sys st' t = true).
    Proof.
      intros st ga t HB Hlow Hcl. unfold load_chain.
      destruct (LIST (proper_prefixes t) [] st ga HB) as [st1 [H1 [H2 [H3 H4]]]].
      - intros a [].
      - intros l1 q l2 El a Ha. simpl.
        apply (chain_ancestors_earlier t l1 q (l2 ++ [t])); [|exact Ha].
        unfold chain_of. rewrite El, <- app_assoc. reflexivity.
      - intros q Hq. apply Hlow. unfold chain_of. apply in_or_app. left. exact Hq.
      - rewrite H1. destruct (has_mod P t) eqn:Ht.
        + assert (Hanc : forall a, In a (proper_prefixes t) -> has_mod P a = true -> in_sys st1 a = true)
            by (intros a Ha; apply H4; exact Ha).
          assert (Hl : lowish st1 t).
          { eapply lowish_Ext; [exact H3|]. apply Hlow; [|exact Ht]. unfold chain_of. apply in_or_app. right. left. reflexivity. }
          destruct (ONE st1 ga t H2 Ht Hl Hanc) as [st' [G1 [G2 [G3 G4]]]].
          exists st'. split; [exact G1|]. split; [exact G2|]. split; [eapply Ext_trans; eauto | intros _; exact G4].
        + exists st1. split.
          * destruct f' as [|f'']; [lia|]. simpl. destruct (in_sys st1 t); [reflexivity|].
            unfold has_mod in Ht. destruct (find_mod P t); [discriminate|].
            destruct Hcl as [Hc|Hc]; [discriminate | rewrite Hc; reflexivity].
          * split; [exact H2|]. split; [exact H3 | discriminate].
    Qed.

    Lemma TARGETS : forall l st ga, BI st ga ->
      (forall t q, In t l -> In q (chain_of t) -> has_mod P q = true -> lowish st q) ->
      (forall t, In t l -> has_mod P t = true) ->
      exists st', load_chains P (load B P f') st l = Ok st' /\ BI st' ga /\ Ext st st'.
    Proof.
      induction l as [|t l IH]; intros st ga HB Hlow Hmods.
      - exists st. simpl. split; [reflexivity|]. split; [exact HB | apply Ext_refl].
      - simpl.
        destruct (TARGET st ga t HB) as [st1 [H1 [H2 [H3 _]]]].
        + intros q Hq. apply (Hlow t q); [left; reflexivity | exact Hq].
        + left. apply Hmods. left. reflexivity.
        + rewrite H1. destruct (IH st1 ga H2) as [st' [G1 [G2 G3]]].
          * intros t' q Ht' Hq Hm'. eapply lowish_Ext; [exact H3|]. apply (Hlow t' q); [right; exact Ht' | exact Hq | exact Hm'].
          * intros t' Ht'. apply Hmods. right. exact Ht'.
          * exists st'. split; [exact G1|]. split; [exact G2 | eapply Ext_trans; eauto].
    Qed.

    (* --- which modules a statement of m can make CPython load *)
    Definition targets_of (s : stmt) : list modpath :=
      match s with
      | FromImport t names => t :: map (fun na => t ++ [fst na]) (filter (fun na => has_mod P (t ++ [fst na])) names)
      | ImportStar t | ImportMod t _ => [t]
      | _ => []
      end.

    Lemma stmt_edges_eq : forall s,
      stmt_edges P p s = filter (fun q => has_mod P q && negb (is_ancestor_or_self q p)) (flat_map chain_of (targets_of s)).
    Proof. destruct s; reflexivity. Qed.

    Lemma path_m : path m = p.
    Proof. apply find_mod_spec in Hm. tauto. Qed.
    Lemma In_m : In m P.
    Proof. apply find_mod_spec in Hm. tauto. Qed.

    Lemma edge_low : forall s t q st ga, In s (body m) -> In t (targets_of s) -> In q (chain_of t) ->
      has_mod P q = true -> BI st ga -> lowish st q.
    Proof.
      intros s t q st ga Hs Ht Hq Hmq [HI [He _]].
      destruct (is_ancestor_or_self q p) eqn:Ea.
      - left. unfold is_ancestor_or_self in Ea.
        destruct (modpath_eqb q p) eqn:Eq.
        + apply mpeq_true in Eq. subst q. apply in_sys_true. eexists. exact He.
        + apply mpeq_false in Eq.
          assert (Hne : q <> []) by (intro; subst q; rewrite no_empty_mod in Hmq; discriminate).
          destruct HI as [_ [_ H4]]. apply (H4 p q).
          * apply in_sys_true. eexists. exact He.
          * apply proper_prefixes_complete; assumption.
          * exact Hmq.
      - right. destruct (ord_edges m In_m) as [i' [Hi' Hall]]. rewrite path_m in Hi'.
        assert (i' = i) by congruence. subst i'.
        apply Hall. unfold mod_edges. apply in_flat_map. exists s. split; [exact Hs|].
        rewrite path_m, stmt_edges_eq. apply filter_In. split.
        + apply in_flat_map. exists t. split; assumption.
        + rewrite Hmq, Ea. reflexivity.
    Qed.

    Lemma stmt_target_in : forall s t, stmt_target s = Some t -> In t (targets_of s).
    Proof. intros s t H. destruct s; simpl in *; inversion H; subst; left; reflexivity. Qed.

    Lemma submodule_loads_in : forall vw s x, In x (submodule_loads P vw s) ->
      In x (targets_of s) /\ has_mod P x = true.
    Proof.
      intros vw s x H. destruct s; simpl in H; try contradiction.
      destruct (vw target) as [T|]; [|contradiction].
      apply in_map_iff in H. destruct H as [na [Hx Hna]]. apply filter_In in Hna. destruct Hna as [Hin Hf].
      destruct (alookup (fst na) (ms_globals T)); [discriminate|].
      subst x. split; [|exact Hf]. simpl. right. apply in_map_iff. exists na. split; [reflexivity|].
      apply filter_In. split; assumption.
    Qed.

    Lemma closed_stmt : forall s t, In s (body m) -> stmt_target s = Some t ->
      has_mod P t = true \/ internal P t = false.
    Proof.
      intros s t Hs Ht. unfold c_closed in Hclosed. rewrite forallb_forall in Hclosed.
      specialize (Hclosed m In_m). rewrite forallb_forall in Hclosed. specialize (Hclosed s Hs).
      rewrite Ht in Hclosed. apply orb_true_iff in Hclosed. destruct Hclosed as [H|H]; [left; exact H|].
      right. apply negb_true_iff. exact H.
    Qed.

    Definition names_target (s : stmt) : option modpath :=
      match s with FromImport t _ | ImportStar t => Some t | _ => None end.

    Lemma pure_step_ext' : forall vw1 vw2 ga s,
      (forall t, names_target s = Some t -> vw1 t = vw2 t) ->
      pure_step B P vw1 ga s = pure_step B P vw2 ga s.
    Proof.
      intros vw1 vw2 ga s H. destruct s; simpl in *; try reflexivity.
      - rewrite (bind_names_ext P vw1 vw2 target names (fst ga) (H _ eq_refl)). reflexivity.
      - rewrite (H _ eq_refl). reflexivity.
    Qed.

    Lemma noanc_stmt : forall s t, In s (body m) -> names_target s = Some t -> is_ancestor_or_self t p = false.
    Proof.
      intros s t Hs Ht. unfold c_no_ancestor_names in Hnoanc. rewrite forallb_forall in Hnoanc.
      specialize (Hnoanc m In_m). rewrite forallb_forall in Hnoanc. specialize (Hnoanc s Hs).
      rewrite path_m in Hnoanc. destruct s; simpl in Ht; inversion Ht; subst; apply negb_true_iff; exact Hnoanc.
    Qed.

    Lemma chain_last : forall t, In t (chain_of t).
    Proof. intro t. unfold chain_of. apply in_or_app. right. left. reflexivity. Qed.

    Lemma STEP : forall s ga ga' st, In s (body m) -> BI st ga ->
      pure_step B P (find_sys (firstn i C)) ga s = Ok ga' ->
      exists st', step B P (load B P f') p st s = Ok st' /\ BI st' ga' /\ Ext' st st'.
    Proof.
      intros s ga ga' st Hs HB Hpure. unfold step.
      (* phase 1: the target and its parents *)
      assert (P1 : exists st1, (match stmt_target s with Some t => load_chain P (load B P f') st t | None => Ok st end) = Ok st1
                               /\ BI st1 ga /\ Ext st st1 /\
                               (forall t, stmt_target s = Some t -> has_mod P t = true -> in_sys st1 t = true)).
      { destruct (stmt_target s) as [t|] eqn:Et.
        - destruct (TARGET st ga t HB) as [st1 [H1 [H2 [H3 H4]]]].
          + intros q Hq Hmq. apply (edge_low s t q st ga Hs (stmt_target_in s t Et) Hq Hmq HB).
          + apply (closed_stmt s t Hs Et).
          + exists st1. split; [exact H1|]. split; [exact H2|]. split; [exact H3|].
            intros t' Ht'. inversion Ht'; subst. exact H4.
        - exists st. split; [reflexivity|]. split; [exact HB|]. split; [apply Ext_refl|].
          intros t' Ht'. discriminate. }
      destruct P1 as [st1 [E1 [HB1 [HE1 Hin1]]]]. rewrite E1.
      (* phase 2: submodules named in a from-import *)
      destruct (TARGETS (submodule_loads P (find_sys st1) s) st1 ga HB1) as [st2 [E2 [HB2 HE2]]].
      { intros t q Ht Hq Hmq. apply submodule_loads_in in Ht. destruct Ht as [Ht _].
        apply (edge_low s t q st1 ga Hs Ht Hq Hmq HB1). }
      { intros t Ht. apply submodule_loads_in in Ht. tauto. }
      rewrite E2.
      (* phase 3: the pure effect, with a view that agrees with the canonical one *)
      destruct HB2 as [HI2 [He2 Hl2]].
      assert (Hent : entry_of st2 p = ga) by (unfold entry_of; rewrite He2; destruct ga; reflexivity).
      rewrite Hent.
      assert (Hview : forall t, names_target s = Some t -> find_sys st2 t = find_sys (firstn i C) t).
      { intros t Ht. destruct (has_mod P t) eqn:Hmt.
        - assert (Hna : is_ancestor_or_self t p = false) by (apply (noanc_stmt s t Hs Ht)).
          assert (Hst : stmt_target s = Some t) by (destruct s; simpl in *; congruence).
          assert (Hlow : exists k, idx t = Some k /\ k < i).
          { destruct (ord_edges m In_m) as [i' [Hi' Hall]]. rewrite path_m in Hi'.
            assert (i' = i) by congruence. subst i'. apply Hall.
            unfold mod_edges. apply in_flat_map. exists s. split; [exact Hs|].
            rewrite path_m, stmt_edges_eq. apply filter_In. split.
            - apply in_flat_map. exists t. split; [apply stmt_target_in; exact Hst | apply chain_last].
            - rewrite Hmt, Hna. reflexivity. }
          destruct Hlow as [k [Hk Hlt]].
          assert (Hin2 : in_sys st2 t = true) by (eapply Ext_in_sys; [exact HE2 | apply Hin1; assumption]).
          apply in_sys_true in Hin2. destruct Hin2 as [e He]. rewrite He.
          destruct (ms_done e) eqn:Hd.
          + destruct HI2 as [H1 _]. rewrite (canon_view_low t k i Hk Hlt). symmetry. apply H1; assumption.
          + exfalso. destruct (Hl2 t e He Hd) as [->|[k' [Hk' Hle]]].
            * unfold is_ancestor_or_self in Hna. rewrite prefix_parts_refl in Hna. discriminate.
            * assert (k' = k) by congruence. lia.
        - rewrite (canon_view_ext t i Hmt).
          destruct (find_sys st2 t) as [e|] eqn:He; [|reflexivity]. exfalso.
          destruct HI2 as [_ [H3 _]]. assert (in_sys st2 t = true) by (apply in_sys_true; eexists; exact He).
          rewrite (H3 t H) in Hmt. discriminate. }
      rewrite (pure_step_ext' (find_sys st2) (find_sys (firstn i C)) ga s Hview), Hpure.
      exists (set_entry st2 p ga'). split; [reflexivity|].
      assert (Hf : forall x, ms_path (mkMS (ms_path x) (ms_done x) (fst ga') (snd ga')) = ms_path x) by reflexivity.
      split; [split; [|split]|].
      - (* Inv *)
        destruct HI2 as [H1 [H3 H4]]. split; [|split].
        + intros q ms Hq Hd. unfold set_entry in Hq.
          destruct (modpath_eqb q p) eqn:Eq.
          * apply mpeq_true in Eq. subst q. rewrite find_update_same in Hq by exact Hf. rewrite He2 in Hq.
            simpl in Hq. inversion Hq; subst ms. discriminate.
          * apply mpeq_false in Eq. rewrite find_update_other in Hq by assumption. apply H1; assumption.
        + intros q Hq. unfold set_entry in Hq. rewrite in_sys_update in Hq by exact Hf. apply H3. exact Hq.
        + intros q a Hq Ha Hma. unfold set_entry in *. rewrite in_sys_update in * by exact Hf. eapply H4; eauto.
      - unfold set_entry. rewrite find_update_same by exact Hf. rewrite He2. reflexivity.
      - intros q ms Hq Hd. unfold set_entry in Hq.
        destruct (modpath_eqb q p) eqn:Eq; [left; apply mpeq_true; exact Eq|].
        apply mpeq_false in Eq. rewrite find_update_other in Hq by assumption. apply (Hl2 q ms); assumption.
      - (* Ext' *)
        pose proof (Ext_trans _ _ _ HE1 HE2) as [G1 G2]. split.
        + intros q ms Hne Hq. unfold set_entry. rewrite find_update_other by assumption. apply G1. exact Hq.
        + intros q ms Hq Hd. unfold set_entry in Hq.
          destruct (modpath_eqb q p) eqn:Eq; [left; apply mpeq_true; exact Eq|].
          apply mpeq_false in Eq. rewrite find_update_other in Hq by assumption. right. apply G2; assumption.
    Qed.

    Lemma RB : forall stmts ga st gaf, (forall s, In s stmts -> In s (body m)) -> BI st ga ->
      sbody B P (find_sys (firstn i C)) ga stmts = Ok gaf ->
      exists st', run_body B P (load B P f') p st stmts = Ok st' /\ BI st' gaf /\ Ext' st st'.
    Proof.
      induction stmts as [|s r IH]; intros ga st gaf Hsub HB Hs.
      - simpl in Hs. inversion Hs; subst. exists st. simpl. split; [reflexivity|]. split; [exact HB | apply Ext'_refl].
      - simpl in Hs. destruct (pure_step B P (find_sys (firstn i C)) ga s) as [ga1|e] eqn:E1; [|discriminate].
        destruct (STEP s ga ga1 st (Hsub s (or_introl eq_refl)) HB E1) as [st1 [H1 [H2 H3]]].
        simpl. rewrite H1.
        destruct (IH ga1 st1 gaf (fun s0 H => Hsub s0 (or_intror H)) H2 Hs) as [st' [G1 [G2 G3]]].
        exists st'. split; [exact G1|]. split; [exact G2 | eapply Ext'_trans; eauto].
    Qed.
  End Body.

  Lemma in_sys_app_l : forall st l q, in_sys st q = true -> in_sys (st ++ l) q = true.
  Proof.
    intros st l q H. apply in_sys_true in H. destruct H as [e He]. apply in_sys_true. exists e.
    rewrite find_sys_app, He. reflexivity.
  Qed.

  (* ---------------------------------------------------------------- the main lemma: induction over the import order *)
  Lemma load_ok : forall n p i, idx p = Some i -> i < n -> forall f, i + 2 <= f -> forall st,
    Inv st -> Low st (S i) ->
    (forall a, In a (proper_prefixes p) -> has_mod P a = true -> in_sys st a = true) ->
    exists st', load B P f st p = Ok st' /\ Inv st' /\ Ext st st' /\
                (exists ms, find_sys st' p = Some ms /\ ms_done ms = true).
  Proof.
    induction n as [|n IHn]; intros p i Hi Hlt f Hf st HI HL Hanc; [lia|].
    destruct f as [|f']; [lia|]. simpl.
    destruct (in_sys st p) eqn:Ein.
    - exists st. split; [reflexivity|]. split; [exact HI|]. split; [apply Ext_refl|].
      apply in_sys_true in Ein. destruct Ein as [ms Hms]. exists ms. split; [exact Hms|].
      destruct (ms_done ms) eqn:Hd; [reflexivity|].
      destruct (HL p ms Hms Hd) as [k [Hk Hle]]. assert (k = i) by congruence. lia.
    - pose proof (ord_mod p i Hi) as Hmod. apply has_mod_true in Hmod. destruct Hmod as [m Hm]. rewrite Hm.
      destruct (canon_entry p i Hi) as [m' [g [al [Hm' [Hsb [Hex Hfind]]]]]].
      assert (m' = m) by congruence. subst m'.
      set (e0 := mkMS p false [] None).
      assert (Hnone : find_sys st p = None) by (unfold in_sys in Ein; destruct (find_sys st p); [discriminate | reflexivity]).
      assert (Hother : forall q, q <> p -> find_sys (st ++ [e0]) q = find_sys st q)
        by (intros q Hq; apply find_app_fresh_other; exact Hq).
      assert (Hsame : find_sys (st ++ [e0]) p = Some e0) by (apply (find_app_fresh_same st e0); exact Hnone).
      destruct HI as [I1 [I3 I4]].
      assert (HB1 : BI p i (st ++ [e0]) ([], None)).
      { split; [split; [|split]|split].
        - intros q ms Hq Hd. destruct (modpath_eqb q p) eqn:Eq.
          + apply mpeq_true in Eq. subst q. rewrite Hsame in Hq. inversion Hq; subst ms. discriminate.
          + apply mpeq_false in Eq. rewrite Hother in Hq by exact Eq. apply I1; assumption.
        - intros q Hq. destruct (modpath_eqb q p) eqn:Eq.
          + apply mpeq_true in Eq. subst q. apply (ord_mod p i Hi).
          + apply mpeq_false in Eq. apply I3. unfold in_sys in *. rewrite Hother in Hq by exact Eq. exact Hq.
        - intros q a Hq Ha Hma. apply in_sys_app_l. destruct (modpath_eqb q p) eqn:Eq.
          + apply mpeq_true in Eq. subst q. apply Hanc; assumption.
          + apply mpeq_false in Eq. apply (I4 q a); try assumption.
            unfold in_sys in *. rewrite Hother in Hq by exact Eq. exact Hq.
        - exact Hsame.
        - intros q ms Hq Hd. destruct (modpath_eqb q p) eqn:Eq; [left; apply mpeq_true; exact Eq|].
          right. apply mpeq_false in Eq. rewrite Hother in Hq by exact Eq. exact (HL q ms Hq Hd). }
      assert (IHload : forall q k, idx q = Some k -> k < i -> forall st0,
                 Inv st0 -> Low st0 (S k) ->
                 (forall a, In a (proper_prefixes q) -> has_mod P a = true -> in_sys st0 a = true) ->
                 exists st', load B P f' st0 q = Ok st' /\ Inv st' /\ Ext st0 st' /\
                             (exists ms, find_sys st' q = Some ms /\ ms_done ms = true)).
      { intros q k Hk Hkl st0 HI0 HL0 Hanc0. apply (IHn q k Hk); try assumption; lia. }
      destruct (RB p i m f' Hi Hm ltac:(lia) IHload (body m) ([], None) (st ++ [e0]) (g, al)
                   (fun s H => H) HB1 Hsb) as [st2 [H1 [H2 H3]]].
      rewrite H1. destruct H2 as [[J1 [J3 J4]] [He2 Hl2]]. simpl in He2.
      assert (Hent : entry_of st2 p = (g, al)) by (unfold entry_of; rewrite He2; reflexivity).
      rewrite Hent. simpl fst. simpl snd. rewrite Hex.
      assert (Hf0 : forall x, ms_path (mkMS (ms_path x) true (ms_globals x) (ms_all x)) = ms_path x) by reflexivity.
      eexists. split; [reflexivity|]. split; [split; [|split]|split].
      + intros q ms Hq Hd. destruct (modpath_eqb q p) eqn:Eq.
        * apply mpeq_true in Eq. subst q. rewrite find_update_same in Hq by exact Hf0. rewrite He2 in Hq.
          simpl in Hq. inversion Hq; subst ms. exact Hfind.
        * apply mpeq_false in Eq. rewrite find_update_other in Hq by assumption. apply J1; assumption.
      + intros q Hq. rewrite in_sys_update in Hq by exact Hf0. apply J3. exact Hq.
      + intros q a Hq Ha Hma. rewrite in_sys_update in * by exact Hf0. eapply J4; eauto.
      + destruct H3 as [G1 G2]. split.
        * intros q ms Hq. assert (Hne : q <> p) by (intro; subst q; congruence).
          rewrite find_update_other by assumption. apply G1; [exact Hne|]. rewrite Hother by exact Hne. exact Hq.
        * intros q ms Hq Hd. destruct (modpath_eqb q p) eqn:Eq.
          -- apply mpeq_true in Eq. subst q. rewrite find_update_same in Hq by exact Hf0. rewrite He2 in Hq.
             simpl in Hq. inversion Hq; subst ms. discriminate.
          -- apply mpeq_false in Eq. rewrite find_update_other in Hq by assumption.
             destruct (G2 q ms Hq Hd) as [E|E]; [contradiction|]. rewrite Hother in E by exact Eq. exact E.
      + eexists. split; [rewrite find_update_same by exact Hf0; rewrite He2; reflexivity | reflexivity].
  Qed.

  (* ---------------------------------------------------------------- `import m` in a fresh interpreter *)
  Definition AllDone (st : sysmods) : Prop := forall q ms, find_sys st q = Some ms -> ms_done ms = true.

  Lemma order_le : length order <= length P.
  Proof.
    rewrite <- (map_length path P). apply NoDup_incl_length; [apply ord_nodup|].
    intros q Hq. destruct (index_of_In order q Hq) as [k Hk].
    pose proof (ord_mod q k Hk) as Hmq. apply has_mod_true in Hmq. destruct Hmq as [m Hm].
    apply find_mod_spec in Hm. destruct Hm as [Hin Hp]. apply in_map_iff. exists m. split; assumption.
  Qed.

  Lemma mod_idx : forall q, has_mod P q = true -> exists k, idx q = Some k.
  Proof.
    intros q Hq. apply has_mod_true in Hq. destruct Hq as [m Hm]. apply find_mod_spec in Hm.
    destruct Hm as [Hin Hp]. destruct (ord_edges m Hin) as [k [Hk _]]. rewrite Hp in Hk. exists k. exact Hk.
  Qed.

  Lemma root_ONE : forall st q, Inv st -> AllDone st -> has_mod P q = true ->
    (forall a, In a (proper_prefixes q) -> has_mod P a = true -> in_sys st a = true) ->
    exists st', load B P (size P) st q = Ok st' /\ Inv st' /\ AllDone st' /\ Ext st st' /\ in_sys st' q = true.
  Proof.
    intros st q HI HD Hq Hanc. destruct (mod_idx q Hq) as [k Hk].
    assert (Hlt : k < length order) by (apply (index_of_lt order q k Hk)).
    pose proof order_le as Hle.
    destruct (load_ok (S k) q k Hk ltac:(lia) (size P) ltac:(unfold size; lia) st HI) as [st' [H1 [H2 [H3 [ms [H4 H5]]]]]].
    - intros q0 ms Hq0 Hd. rewrite (HD q0 ms Hq0) in Hd. discriminate.
    - exact Hanc.
    - exists st'. split; [exact H1|]. split; [exact H2|]. split; [|split; [exact H3|]].
      + intros q0 ms0 Hq0. destruct (ms_done ms0) eqn:Hd; [reflexivity|].
        destruct H3 as [_ G2]. specialize (G2 q0 ms0 Hq0 Hd). rewrite (HD q0 ms0 G2) in Hd. discriminate.
      + apply in_sys_true. exists ms. exact H4.
  Qed.

  Lemma root_LIST : forall l pre st, Inv st -> AllDone st ->
    (forall a, In a pre -> has_mod P a = true -> in_sys st a = true) ->
    (forall l1 q l2, l = l1 ++ q :: l2 -> forall a, In a (proper_prefixes q) -> In a (pre ++ l1)) ->
    exists st', load_list P (load B P (size P)) st l = Ok st' /\ Inv st' /\ AllDone st' /\ Ext st st' /\
                (forall a, In a (pre ++ l) -> has_mod P a = true -> in_sys st' a = true).
  Proof.
    induction l as [|q l IH]; intros pre st HI HD Hpre Hdec.
    - exists st. simpl. split; [reflexivity|]. split; [exact HI|]. split; [exact HD|]. split; [apply Ext_refl|].
      rewrite app_nil_r. exact Hpre.
    - cbn [load_list]. destruct (has_mod P q) eqn:Hq.
      + assert (Hanc : forall a, In a (proper_prefixes q) -> has_mod P a = true -> in_sys st a = true).
        { intros a Ha Hm'. apply Hpre; [|exact Hm'].
          specialize (Hdec [] q l eq_refl a Ha). rewrite app_nil_r in Hdec. exact Hdec. }
        destruct (root_ONE st q HI HD Hq Hanc) as [st1 [H1 [H2 [H2' [H3 H4]]]]]. rewrite H1.
        destruct (IH (pre ++ [q]) st1 H2 H2') as [st' [G1 [G2 [G2' [G3 G4]]]]].
        * intros a Ha Hm'. apply in_app_or in Ha. destruct Ha as [Ha|[<-|[]]].
          -- eapply Ext_in_sys; [exact H3 | apply Hpre; assumption].
          -- exact H4.
        * intros l1 q' l2 El a Ha. rewrite <- app_assoc. simpl.
          apply (Hdec (q :: l1) q' l2); [rewrite El; reflexivity | exact Ha].
        * exists st'. split; [exact G1|]. split; [exact G2|]. split; [exact G2'|]. split; [eapply Ext_trans; eauto|].
          intros a Ha. apply G4. rewrite <- app_assoc. exact Ha.
      + destruct (IH (pre ++ [q]) st HI HD) as [st' [G1 [G2 [G2' [G3 G4]]]]].
        * intros a Ha Hm'. apply in_app_or in Ha. destruct Ha as [Ha|[<-|[]]]; [apply Hpre; assumption | congruence].
        * intros l1 q' l2 El a Ha. rewrite <- app_assoc. simpl.
          apply (Hdec (q :: l1) q' l2); [rewrite El; reflexivity | exact Ha].
        * exists st'. split; [exact G1|]. split; [exact G2|]. split; [exact G2'|]. split; [exact G3|].
          intros a Ha. apply G4. rewrite <- app_assoc. exact Ha.
  Qed.

  Lemma Inv_nil : Inv [].
  Proof. split; [|split]; intros; discriminate. Qed.

  Theorem exec_mod_ok : forall m, In m P -> exists st, exec_mod B P (size P) (path m) = Ok st.
  Proof.
    intros m Hm. unfold exec_mod, load_chain.
    destruct (root_LIST (proper_prefixes (path m)) [] [] Inv_nil) as [st1 [H1 [H2 [H2' [H3 H4]]]]].
    - intros q ms Hq. discriminate.
    - intros a [].
    - intros l1 q l2 El a Ha. simpl.
      apply (chain_ancestors_earlier (path m) l1 q (l2 ++ [path m])); [|exact Ha].
      unfold chain_of. rewrite El, <- app_assoc. reflexivity.
    - rewrite H1.
      destruct (root_ONE st1 (path m) H2 H2' (find_mod_In P m Hm)) as [st' [G1 _]].
      + intros a Ha. apply H4. exact Ha.
      + exists st'. exact G1.
  Qed.
End Sound.

(* soundness w.r.t. any supplied order *)
Theorem pkg_ok_with_sound : forall B pkg order, pkg_ok_with B pkg order = true ->
  forall m, In m pkg -> exec_pkg B pkg (size pkg) m = Ok tt.
Proof.
  intros B pkg order H m Hm. unfold pkg_ok_with in H.
  repeat (apply andb_true_iff in H; destruct H as [H ?]).
  unfold c_static_with in *. destruct (canon_with B pkg order) as [C|e] eqn:EC; [|discriminate].
  unfold exec_pkg.
  destruct (exec_mod_ok B pkg C order EC) with (m := m) as [st Hst]; try assumption.
  rewrite Hst. reflexivity.
Qed.

(* pkg_ok is a sufficient condition: every module of the package imports from a fresh interpreter *)
Theorem pkg_ok_sound : forall B pkg, pkg_ok B pkg = true ->
  forall m, In m pkg -> exec_pkg B pkg (size pkg) m = Ok tt.
Proof.
  intros B pkg H m Hm. apply (pkg_ok_with_sound B pkg (topo_order pkg)); [|exact Hm].
  unfold pkg_ok, pkg_ok_conjuncts in H. simpl in H.
  repeat (apply andb_true_iff in H; destruct H as [? H]).
  unfold pkg_ok_with. unfold c_acyclic, c_static in *.
  rewrite H0, H1, H2, H5, H6, H7. reflexivity.
Qed.

(* F20e: an enum value that sanitises to a _sunder_ member name (`_A_`): Enum refuses the class *)
Definition n_Enum : str := [69;110;117;109]%N.
Definition n_enum : str := [101;110;117;109]%N.
Definition n_sunder : str := [95;65;95]%N.
Definition w_F20e : package :=
  [ mkMod [n_p] [];
    mkMod [n_p; n_ev] [FromImport [n_enum] [(n_Enum, n_Enum)];
                       ClassDef n_Ev [AName n_Enum] [CAssign n_sunder (AStr []); CAssign n_B (AStr [])]] ].
Lemma refuted_F20e :
  c_static builtin_names w_F20e = false /\ c_parses w_F20e = true /\ failed_with (ex w_F20e [n_p; n_ev]) EValue.
Proof. vm_compute. repeat split; reflexivity. Qed.
