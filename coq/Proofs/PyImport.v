(* C01 — proofs about Model/PyImport.v: witnesses for the known findings, non-vacuity, soundness of pkg_ok *)
From PG Require Import Lib.Strs Model.CoreImports Model.PyImport Gen.T_C01.
From Coq Require Import Arith.PeanoNat Lia.

(* ------------------------------------------------------------------ witness packages (hand-minimised skeletons
   of what the generator emits for the corpus documents; the corpus documents themselves are replayed on the real
   generator by the check, where exec_mod on the extracted skeleton is compared with the real import) *)
Definition n_p : str := [112]%N.                     (* "p"  : the output package *)
Definition n_models : str := [109;111;100;101;108;115]%N.
Definition n_core : str := [99;111;114;101]%N.
Definition n_a : str := [97]%N.  Definition n_b : str := [98]%N.
Definition n_A : str := [65]%N.  Definition n_B : str := [66]%N.
Definition n_Node : str := [78;111;100;101]%N.
Definition n_node : str := [110;111;100;101]%N.
Definition n_next : str := [110;101;120;116]%N.
Definition n_date : str := [100;97;116;101]%N.
Definition n_datetime : str := [100;97;116;101;116;105;109;101]%N.
Definition n_dataclass : str := [100;97;116;97;99;108;97;115;115]%N.
Definition n_dataclasses : str := [100;97;116;97;99;108;97;115;115;101;115]%N.
Definition n_Ev : str := [69;118]%N.
Definition n_ev : str := [101;118]%N.
Definition n_E302 : str := [69;114;114;111;114;51;48;50]%N.
Definition n_HTTPError : str := [72;84;84;80;69;114;114;111;114]%N.
Definition n_ep : str := [101;112]%N.
Definition n_mocks : str := [109;111;99;107;115]%N.

Definition dc_import : stmt := FromImport [n_dataclasses] [(n_dataclass, n_dataclass)].

(* F01a: A{b:$ref B}, B{a:$ref A}: models/a.py and models/b.py import each other at module level *)
Definition w_F01a : package :=
  [ mkMod [n_p] [];
    mkMod [n_p; n_models] [FromImport [n_p; n_models; n_a] [(n_A, n_A)]; FromImport [n_p; n_models; n_b] [(n_B, n_B)]];
    mkMod [n_p; n_models; n_a]
      [dc_import; FromImport [n_p; n_models; n_b] [(n_B, n_B)];
       ClassDef n_A [AName n_dataclass] [CField n_b (AOr (AName n_B) ANone) (Some ANone)]];
    mkMod [n_p; n_models; n_b]
      [dc_import; FromImport [n_p; n_models; n_a] [(n_A, n_A)];
       ClassDef n_B [AName n_dataclass] [CField n_a (AOr (AName n_A) ANone) (Some ANone)]] ].

(* F01b: Node{next:$ref Node} optional: the self reference is quoted and then or-ed with None *)
Definition w_F01b : package :=
  [ mkMod [n_p] [];
    mkMod [n_p; n_models] [FromImport [n_p; n_models; n_node] [(n_Node, n_Node)]];
    mkMod [n_p; n_models; n_node]
      [dc_import; ClassDef n_Node [AName n_dataclass] [CField n_next (AOr (AStr []) ANone) (Some ANone)]] ].

(* F01c: property `date` of format date: `date: date | None = None` binds date=None first *)
Definition w_F01c : package :=
  [ mkMod [n_p] [];
    mkMod [n_p; n_models] [FromImport [n_p; n_models; n_ev] [(n_Ev, n_Ev)]];
    mkMod [n_p; n_models; n_ev]
      [dc_import; FromImport [n_datetime] [(n_date, n_date)];
       ClassDef n_Ev [AName n_dataclass] [CField n_date (AOr (AName n_date) ANone) (Some ANone)]] ].

(* F06d: declared 302: endpoints import Error302 from the core package, which has no such alias *)
Definition w_F06d : package :=
  [ mkMod [n_p] [];
    mkMod [n_p; n_core] [Alias n_HTTPError AConst None];
    mkMod [n_p; n_ep] [FromImport [n_p; n_core] [(n_E302, n_E302)]] ].

(* F01e / F13b / F20a / F04c: a file that does not compile (decided by compile() in the oracle) *)
Definition w_syntax : package :=
  [ mkMod [n_p] [];
    mkMod [n_p; n_mocks] [Broken] ].

(* F01f: package "dup.dup": the repaired import path names a module that is not emitted *)
Definition n_dup : str := [100;117;112]%N.
Definition w_F01f : package :=
  [ mkMod [n_dup; n_dup] [];
    mkMod [n_dup; n_dup; n_core] [];
    mkMod [n_dup; n_dup; n_ep] [FromImport [n_dup; n_dup; n_dup; n_core] [(n_HTTPError, n_HTTPError)]] ].

Definition ex (pkg : package) (p : modpath) := exec_mod builtin_names pkg (size pkg) p.
Definition failed_with {A} (r : res A) (e : err) : Prop := r = Fail e.

Lemma refuted_F01a :
  c_acyclic w_F01a = false /\ c_parses w_F01a = true /\ c_closed w_F01a = true /\
  failed_with (ex w_F01a [n_p; n_models; n_a]) EImport /\ failed_with (ex w_F01a [n_p; n_models]) EImport.
Proof. vm_compute. repeat split; reflexivity. Qed.

Lemma refuted_F01b :
  c_no_str_or w_F01b = false /\ c_acyclic w_F01b = true /\
  failed_with (ex w_F01b [n_p; n_models; n_node]) EType.
Proof. vm_compute. repeat split; reflexivity. Qed.

Lemma refuted_F01c :
  c_no_shadow w_F01c = false /\ c_no_str_or w_F01c = true /\ c_acyclic w_F01c = true /\
  failed_with (ex w_F01c [n_p; n_models; n_ev]) EType.
Proof. vm_compute. repeat split; reflexivity. Qed.

Lemma refuted_F06d :
  c_static builtin_names w_F06d = false /\ c_closed w_F06d = true /\ c_acyclic w_F06d = true /\
  failed_with (ex w_F06d [n_p; n_ep]) EImport.
Proof. vm_compute. repeat split; reflexivity. Qed.

Lemma refuted_syntax :
  c_parses w_syntax = false /\ failed_with (ex w_syntax [n_p; n_mocks]) ESyntax.
Proof. vm_compute. repeat split; reflexivity. Qed.

Lemma refuted_F01f :
  c_closed w_F01f = false /\ failed_with (ex w_F01f [n_dup; n_dup; n_ep]) ENotFound.
Proof. vm_compute. repeat split; reflexivity. Qed.

(* a package that meets pkg_ok, with a dependency chain, a self reference inside a subscript, a star import and __all__ *)
Definition n_List : str := [76;105;115;116]%N.
Definition w_good : package :=
  [ mkMod [n_p] [FromImport [n_p; n_ep] [(n_A, n_A)]];
    mkMod [n_p; n_core] [Alias n_HTTPError AConst None; AllDecl [n_HTTPError]];
    mkMod [n_p; n_models] [FromImport [n_p; n_models; n_a] [(n_A, n_A)]; FromImport [n_p; n_models; n_b] [(n_B, n_B)];
                           AllDecl [n_A; n_B]];
    mkMod [n_p; n_models; n_a]
      [dc_import; FromImport [s_typing] [(n_List, n_List)]; FromImport [n_p; n_models; n_b] [(n_B, n_B)];
       ClassDef n_A [AName n_dataclass]
         [CField n_b (AOr (AName n_B) ANone) (Some ANone);
          CField n_next (AOr (ASub (AName n_List) [AStr []]) ANone) (Some ANone)]];
    mkMod [n_p; n_models; n_b] [dc_import; ClassDef n_B [AName n_dataclass] [CField n_a (AStr []) None]];
    mkMod [n_p; n_ep] [ImportStar [n_p; n_core]; FromImport [n_p; n_models; n_a] [(n_A, n_A)];
                       Def n_ep [AName n_A; AName n_HTTPError]] ].

Lemma good_pkg_ok :
  pkg_ok builtin_names w_good = true /\
  forallb (fun m => match ex w_good (path m) with Ok _ => true | Fail _ => false end) w_good = true.
Proof. vm_compute. split; reflexivity. Qed.
