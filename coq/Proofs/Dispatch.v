(* C06 — proofs about Model/Dispatch.v *)
From PG Require Import Lib.Strs Model.Dispatch.

Definition R (c : code) (b : bool) : resp := {| r_code := c; r_content := b |}.

(* ---------- witnesses of the findings (each replays on the implementation: corpus/C06/F06*.json) ---------- *)
Definition op_F06a : op := [R (Num 200) true; R (Num 404) true].
Definition op_F06b : op := [R (Num 200) true].
Definition op_F06c : op := [R (Num 200) true; R Default true].
Definition op_F06d : op := [R (Num 200) true; R (Num 302) false].

From Coq Require Import Lia ZifyBool.

(* ---------- the three copies of _get_primary_response agree ---------- *)
Lemma first_with_code_find : forall c rs,
  first_with_code c rs = find (fun r => code_eqb (r_code r) (Num c)) rs.
Proof. induction rs as [|r rs IH]; simpl; [reflexivity|]. destruct (code_eqb (r_code r) (Num c)); auto. Qed.

Lemma prio_loop_next : forall codes rs, prio_loop codes rs = prio_next codes rs.
Proof.
  induction codes as [|c cs IH]; intro rs; simpl; [reflexivity|].
  rewrite first_with_code_find, IH. reflexivity.
Qed.

Lemma first_starts2_find : forall rs, first_starts2 rs = find (fun r => starts2 (r_code r)) rs.
Proof. induction rs as [|r rs IH]; simpl; [reflexivity|]. destruct (starts2 (r_code r)); auto. Qed.

Lemma first_default_find : forall rs, first_default rs = find is_default rs.
Proof. induction rs as [|r rs IH]; simpl; [reflexivity|]. destruct (is_default r); auto. Qed.

Lemma prio_next_nil : forall codes, prio_next codes [] = None.
Proof. induction codes; simpl; auto. Qed.

Theorem primary_agree : forall o, primary_rs o = primary_eu o.
Proof.
  intros [|r0 rs].
  - unfold primary_rs, primary_eu. rewrite prio_next_nil. reflexivity.
  - unfold primary_rs, primary_eu.
    rewrite prio_loop_next, first_starts2_find, first_default_find. reflexivity.
Qed.

(* ---------- finite status facts (bound: 100..599, by computation over the whole range) ---------- *)
Definition status_range : list N := map N.of_nat (seq 100 500).

Lemma in_status_range : forall n, 100 <= n <= 599 -> In n status_range.
Proof.
  intros n H. unfold status_range. rewrite <- (N2Nat.id n). apply in_map. apply in_seq. lia.
Qed.

Lemma lead2_table :
  forallb (fun n => implb (lead2 n) ((200 <=? n) && (n <? 300))) status_range = true.
Proof. vm_compute. reflexivity. Qed.

Lemma lead2_range : forall n, 100 <= n <= 599 -> lead2 n = true -> 200 <= n < 300.
Proof.
  intros n Hn Hl. pose proof lead2_table as T. rewrite forallb_forall in T.
  specialize (T n (in_status_range n Hn)). rewrite Hl in T. simpl in T. lia.
Qed.

(* ---------- structure of the generated case list ---------- *)
Lemma processed_primary_lead2 : forall o p n, processed_primary o = Some (p, n) -> lead2 n = true.
Proof.
  intros o p n H. unfold processed_primary in H.
  destruct (primary_eu o) as [r|]; [|discriminate].
  destruct (r_code r) as [m| |s]; try discriminate.
  destruct (lead2 m) eqn:E; [|discriminate]. inversion H; subst. exact E.
Qed.

Lemma case_of_In : forall r m a, In (m, a) (case_of r) ->
  a = if lead2 m then CReturn else if is_error_code m then CAlias m else CBase.
Proof.
  intros r m a H. unfold case_of in H. destruct (r_code r) as [k| |s]; simpl in H; try contradiction.
  destruct H as [H|[]]. inversion H; subst. reflexivity.
Qed.

Lemma cases_In : forall o m a, In (m, a) (cases o) ->
  (a = CReturn /\ lead2 m = true)
  \/ (a = CAlias m /\ lead2 m = false /\ is_error_code m = true)
  \/ (a = CBase /\ lead2 m = false /\ is_error_code m = false).
Proof.
  intros o m a H. unfold cases in H. apply in_app_or in H. destruct H as [H|H].
  - destruct (processed_primary o) as [[p n]|] eqn:E; simpl in H; [|contradiction].
    destruct H as [H|[]]. inversion H; subst. left. split; [reflexivity|].
    eapply processed_primary_lead2; eauto.
  - apply in_flat_map in H. destruct H as (r & _ & H). apply case_of_In in H.
    destruct (lead2 m); [left; auto|]. destruct (is_error_code m); [right; left | right; right]; auto.
Qed.

Lemma find_case_Some : forall st cs m a, find_case st cs = Some (m, a) -> m = st /\ In (m, a) cs.
Proof.
  intros st cs m a H. unfold find_case in H. apply find_some in H. destruct H as [Hin He].
  simpl in He. apply N.eqb_eq in He. auto.
Qed.

(* ---------- class facts ---------- *)
Lemma client_range : forall n, 400 <= n < 500 -> is_client_error n = true.
Proof. intros n H. unfold is_client_error, in_range, client_lo, client_hi. lia. Qed.
Lemma server_range : forall n, 500 <= n < 600 -> is_server_error n = true /\ is_client_error n = false.
Proof.
  intros n H. unfold is_server_error, is_client_error, in_range, client_lo, client_hi, server_lo, server_hi. lia.
Qed.
Lemma error_code_range : forall n, is_error_code n = true -> 400 <= n < 600.
Proof. intros n H. unfold is_error_code, in_range, error_lo, error_hi in H. lia. Qed.
Lemma error_code_alias_exists : forall n, is_error_code n = true -> alias_exists n = true.
Proof.
  intros n H. unfold alias_exists. rewrite H. pose proof (error_code_range n H) as R.
  unfold is_client_error, is_server_error, in_range, client_lo, client_hi, server_lo, server_hi. lia.
Qed.

Lemma alias_client : forall n, is_client_error n = true ->
  sub (Alias n) ClientError /\ sub (Alias n) HTTPError.
Proof.
  intros n H. unfold sub, subclass_of.
  split; cbn [subclass_fuel cls_eqb ClientError HTTPError orb parent]; unfold alias_parent; rewrite H;
    vm_compute; reflexivity.
Qed.
Lemma alias_server : forall n, is_client_error n = false -> is_server_error n = true ->
  sub (Alias n) ServerError /\ sub (Alias n) HTTPError.
Proof.
  intros n H0 H. unfold sub, subclass_of.
  split; cbn [subclass_fuel cls_eqb ServerError HTTPError orb parent]; unfold alias_parent; rewrite H0, H;
    vm_compute; reflexivity.
Qed.

(* the class a range table picks is right for the status: the heart of the F06a / F06b fixes *)
Definition class_ok (c : cls) (st : N) : Prop :=
  sub c HTTPError /\ (400 <= st < 500 -> sub c ClientError) /\ (500 <= st < 600 -> sub c ServerError).

Lemma transport_class_ok : forall st, class_ok (Named (range_class transport_ranges transport_default st)) st.
Proof.
  intro st. unfold transport_ranges, transport_default. cbn [range_class]. unfold in_range.
  destruct ((400 <=? st) && (st <? 500)) eqn:E1; [|destruct ((500 <=? st) && (st <? 600)) eqn:E2];
    (split; [vm_compute; reflexivity | split; intro H; try lia; vm_compute; reflexivity]).
Qed.
Lemma handler_class_ok : forall st, class_ok (Named (range_class handler_ranges handler_fallback_raises st)) st.
Proof.
  intro st. unfold handler_ranges, handler_fallback_raises. cbn [range_class]. unfold in_range.
  destruct ((400 <=? st) && (st <? 500)) eqn:E1; [|destruct ((500 <=? st) && (st <? 600)) eqn:E2];
    (split; [vm_compute; reflexivity | split; intro H; try lia; vm_compute; reflexivity]).
Qed.
Lemma declared_other_class_ok : forall st, is_error_code st = false ->
  class_ok (Named handler_declared_other_raises) st.
Proof.
  intros st H. unfold is_error_code, in_range, error_lo, error_hi in H.
  split; [vm_compute; reflexivity | split; intro; lia].
Qed.

(* ---------- F06d fixed: the alias import can no longer fail ---------- *)
Lemma op_imports_always : forall o, op_imports_ok o = true.
Proof.
  intro o. unfold op_imports_ok. apply forallb_forall. intros [m a] Hin. cbn [snd].
  destruct (cases_In _ _ _ Hin) as [[-> _]|[[-> [_ He]]|[-> _]]]; try reflexivity.
  apply error_code_alias_exists. exact He.
Qed.
Lemma imports_always : forall s, imports_ok s = true.
Proof. intro s. unfold imports_ok. apply forallb_forall. intros o _. apply op_imports_always. Qed.

(* ---------- what the handler does with a status outside 200-299 ---------- *)
Lemma dispatch_non2xx : forall o st, 100 <= st <= 599 -> ~ (200 <= st < 300) ->
  (dispatch o st = ARaiseAlias st /\ is_error_code st = true)
  \/ (dispatch o st = ARaiseDeclaredOther /\ is_error_code st = false)
  \/ dispatch o st = ARaiseFallback.
Proof.
  intros o st Hr Hn. unfold dispatch.
  destruct (find_case st (cases o)) as [[m a]|] eqn:E.
  - apply find_case_Some in E. destruct E as [-> Hin].
    destruct (cases_In _ _ _ Hin) as [[-> Hl]|[[-> [_ He]]|[-> [_ He]]]].
    + exfalso. apply Hn. apply lead2_range; assumption.
    + left. auto.
    + right. left. auto.
  - right. right.
    replace (in_range wildcard_lo wildcard_hi st) with false
      by (unfold in_range, wildcard_lo, wildcard_hi; lia).
    rewrite andb_false_r. unfold fallback.
    replace (in_range default_success_lo default_success_hi st) with false
      by (unfold in_range, default_success_lo, default_success_hi; lia).
    rewrite andb_false_r. reflexivity.
Qed.

(* ---------- C06_full ---------- *)
Theorem full : forall k s o st, status_ok st -> C06_spec (call k s o st) st.
Proof.
  intros k s o st [Hr Hn]. unfold call. rewrite imports_always. cbn [negb].
  destruct k; cbn [transport].
  - replace ((st <? transport_lo) || (transport_hi <=? st)) with true
      by (unfold transport_lo, transport_hi; lia).
    eexists. split; [reflexivity|]. apply transport_class_ok.
  - destruct (dispatch_non2xx o st Hr Hn) as [[-> He]|[[-> He]| ->]].
    + pose proof (error_code_range _ He) as Hrange.
      exists (Alias st). split; [reflexivity|].
      destruct (N.ltb_spec st 500) as [Hlt|Hge].
      * destruct (alias_client st (client_range st ltac:(lia))) as [Hc1 Hc2].
        split; [exact Hc2|]. split; intro; [exact Hc1 | lia].
      * destruct (server_range st ltac:(lia)) as [Hs1 Hs0].
        destruct (alias_server st Hs0 Hs1) as [Hc1 Hc2].
        split; [exact Hc2|]. split; intro; [lia | exact Hc1].
    + eexists. split; [reflexivity|]. apply declared_other_class_ok. exact He.
    + eexists. split; [reflexivity|]. apply handler_class_ok.
Qed.

(* ---------- regression: the witnesses of the former findings F06a-d now meet the property ---------- *)
Example fixed_F06a : call Bundled [op_F06a] op_F06a 404 = Raised ClientError 404 true
  /\ call Bundled [op_F06a] op_F06a 503 = Raised ServerError 503 true
  /\ call Bundled [op_F06a] op_F06a 302 = Raised HTTPError 302 true.
Proof. repeat split; vm_compute; reflexivity. Qed.
Example fixed_F06b : call Custom [op_F06b] op_F06b 404 = Raised ClientError 404 true
  /\ call Custom [op_F06b] op_F06b 500 = Raised ServerError 500 true.
Proof. repeat split; vm_compute; reflexivity. Qed.
Example fixed_F06c : call Custom [op_F06c] op_F06c 500 = Raised ServerError 500 true
  /\ call Custom [op_F06c] op_F06c 201 = Returned.
Proof. repeat split; vm_compute; reflexivity. Qed.
Example fixed_F06d : call Custom [op_F06d] op_F06d 302 = Raised HTTPError 302 true
  /\ call Custom [op_F06d] op_F06d 404 = Raised ClientError 404 true
  /\ call Custom [op_F06d] op_F06d 200 = Returned.
Proof. repeat split; vm_compute; reflexivity. Qed.

(* the per-status aliases still fire where declared (non-vacuity of the alias branch) *)
Definition op_ok : op := [R (Num 200) true; R (Num 404) true; R (Num 503) false; R Default false].
Example alias_branch_live :
  call Custom [op_ok] op_ok 404 = Raised (Alias 404) 404 true /\ call Custom [op_ok] op_ok 503 = Raised (Alias 503) 503 true.
Proof. repeat split; vm_compute; reflexivity. Qed.

(* ---------- the alias table (finite, regenerated from core/http_status_codes.py) ---------- *)
Definition error_codes : list N := map N.of_nat (seq 400 200).
Fixpoint distinct_strs (l : list str) : bool :=
  match l with [] => true | x :: r => negb (mem_str x r) && distinct_strs r end.

(* for all codes 400..599: alias class names are pairwise different and none shadows a base class *)
Theorem alias_names_sound :
  distinct_strs (map alias_name error_codes) = true
  /\ forallb (fun n => negb (mem_str (alias_name n) (map fst exc_hierarchy))) error_codes = true
  /\ forallb (fun n => alias_exists n) error_codes = true.
Proof. repeat split; vm_compute; reflexivity. Qed.

(* ---------- the import namespace of the endpoints module (finding F06e, fixed) ---------- *)
Lemma resolves_ref : forall all ms c, incl ms all -> resolves ms (exception_ref all c) = true.
Proof.
  intros all ms c Hincl. unfold exception_ref. destruct (mem_str (cls_name c) all) eqn:E; [reflexivity|].
  cbn [resolves]. apply negb_true_iff. destruct (mem_str (cls_name c) ms) eqn:M; [|reflexivity].
  apply mem_str_In in M. apply Hincl in M. apply mem_str_In in M. congruence.
Qed.
(* C06_full with the namespace: whatever model classes the module imports (they are model classes of the spec) *)
Theorem full_ns : forall k s all ms o st, incl ms all -> status_ok st -> C06_spec (call_ns k s all ms o st) st.
Proof.
  intros k s all ms o st Hincl Hst. pose proof (full k s o st Hst) as F. unfold call_ns.
  destruct (transport k st); [exact F|]. destruct F as (c & E & Hc). rewrite E. rewrite (resolves_ref all ms c Hincl).
  exists c. auto.
Qed.
(* what the collision test buys: if colliding names were referenced by name, the witness of F06e would crash *)
Definition ms_F06e : list str := [alias_name 404].
Example fixed_F06e :
  call_ns Custom [op_F06a] ms_F06e ms_F06e op_F06a 404 = Raised (Alias 404) 404 true
  /\ exception_ref ms_F06e (Alias 404) = Qualified (alias_name 404)
  /\ call_ns Custom [op_F06a] [] ms_F06e op_F06a 404 = Crashed.
Proof. repeat split; vm_compute; reflexivity. Qed.
