(* C06 — proofs about Model/Dispatch.v *)
From PG Require Import Lib.Strs Model.Dispatch.

Definition R (c : code) (b : bool) : resp := {| r_code := c; r_content := b |}.

(* ---------- witnesses of the findings (each replays on the implementation: corpus/C06/F06*.json) ---------- *)
Definition op_F06a : op := [R (Num 200) true; R (Num 404) true].
Definition op_F06b : op := [R (Num 200) true].
Definition op_F06c : op := [R (Num 200) true; R Default true].
Definition op_F06d : op := [R (Num 200) true; R (Num 302) false].

From Coq Require Import Lia ZifyBool.

(* ---------- the three copies of _get_primary_response agree ---------- *)
Lemma first_with_code_find : forall c rs,
  first_with_code c rs = find (fun r => code_eqb (r_code r) (Num c)) rs.
Proof. induction rs as [|r rs IH]; simpl; [reflexivity|]. destruct (code_eqb (r_code r) (Num c)); auto. Qed.

Lemma prio_loop_next : forall codes rs, prio_loop codes rs = prio_next codes rs.
Proof.
  induction codes as [|c cs IH]; intro rs; simpl; [reflexivity|].
  rewrite first_with_code_find, IH. reflexivity.
Qed.

Lemma first_starts2_find : forall rs, first_starts2 rs = find (fun r => starts2 (r_code r)) rs.
Proof. induction rs as [|r rs IH]; simpl; [reflexivity|]. destruct (starts2 (r_code r)); auto. Qed.

Lemma first_default_find : forall rs, first_default rs = find is_default rs.
Proof. induction rs as [|r rs IH]; simpl; [reflexivity|]. destruct (is_default r); auto. Qed.

Lemma prio_next_nil : forall codes, prio_next codes [] = None.
Proof. induction codes; simpl; auto. Qed.

Theorem primary_agree : forall o, primary_rs o = primary_eu o.
Proof.
  intros [|r0 rs].
  - unfold primary_rs, primary_eu. rewrite prio_next_nil. reflexivity.
  - unfold primary_rs, primary_eu.
    rewrite prio_loop_next, first_starts2_find, first_default_find. reflexivity.
Qed.

(* ---------- finite status facts (bound: 100..599, by computation over the whole range) ---------- *)
Definition status_range : list N := map N.of_nat (seq 100 500).

Lemma in_status_range : forall n, 100 <= n <= 599 -> In n status_range.
Proof.
  intros n H. unfold status_range. rewrite <- (N2Nat.id n). apply in_map. apply in_seq. lia.
Qed.

Lemma lead2_table :
  forallb (fun n => implb (lead2 n) ((200 <=? n) && (n <? 300))) status_range = true.
Proof. vm_compute. reflexivity. Qed.

Lemma lead2_range : forall n, 100 <= n <= 599 -> lead2 n = true -> 200 <= n < 300.
Proof.
  intros n Hn Hl. pose proof lead2_table as T. rewrite forallb_forall in T.
  specialize (T n (in_status_range n Hn)). rewrite Hl in T. simpl in T. lia.
Qed.

(* ---------- structure of the generated case list ---------- *)
Lemma processed_primary_lead2 : forall o p n, processed_primary o = Some (p, n) -> lead2 n = true.
Proof.
  intros o p n H. unfold processed_primary in H.
  destruct (primary_eu o) as [r|]; [|discriminate].
  destruct (r_code r) as [m| |s]; try discriminate.
  destruct (lead2 m) eqn:E; [|discriminate]. inversion H; subst. exact E.
Qed.

Lemma case_of_In : forall r m a, In (m, a) (case_of r) -> a = if lead2 m then CReturn else CAlias m.
Proof.
  intros r m a H. unfold case_of in H. destruct (r_code r) as [k| |s]; simpl in H; try contradiction.
  destruct H as [H|[]]. inversion H; subst. reflexivity.
Qed.

Lemma cases_In : forall o m a, In (m, a) (cases o) ->
  (a = CReturn /\ lead2 m = true) \/ (a = CAlias m /\ lead2 m = false).
Proof.
  intros o m a H. unfold cases in H. apply in_app_or in H. destruct H as [H|H].
  - destruct (processed_primary o) as [[p n]|] eqn:E; simpl in H; [|contradiction].
    destruct H as [H|[]]. inversion H; subst. left. split; [reflexivity|].
    eapply processed_primary_lead2; eauto.
  - apply in_flat_map in H. destruct H as (r & _ & H). apply case_of_In in H.
    destruct (lead2 m); [left|right]; auto.
Qed.

Lemma find_case_Some : forall st cs m a, find_case st cs = Some (m, a) -> m = st /\ In (m, a) cs.
Proof.
  intros st cs m a H. unfold find_case in H. apply find_some in H. destruct H as [Hin He].
  simpl in He. apply N.eqb_eq in He. auto.
Qed.

(* ---------- class facts ---------- *)
Lemma sub_transport_http : sub (Named transport_raises) HTTPError.
Proof. vm_compute. reflexivity. Qed.
Lemma sub_fallback_http : sub (Named handler_fallback_raises) HTTPError.
Proof. vm_compute. reflexivity. Qed.
Lemma transport_not_client : subclass_of (Named transport_raises) ClientError = false.
Proof. vm_compute. reflexivity. Qed.
Lemma transport_not_server : subclass_of (Named transport_raises) ServerError = false.
Proof. vm_compute. reflexivity. Qed.
Lemma fallback_not_client : subclass_of (Named handler_fallback_raises) ClientError = false.
Proof. vm_compute. reflexivity. Qed.
Lemma fallback_not_server : subclass_of (Named handler_fallback_raises) ServerError = false.
Proof. vm_compute. reflexivity. Qed.

Lemma client_range : forall n, 400 <= n < 500 -> is_client_error n = true.
Proof. intros n H. unfold is_client_error, in_range, client_lo, client_hi. lia. Qed.
Lemma server_range : forall n, 500 <= n < 600 -> is_server_error n = true /\ is_client_error n = false.
Proof.
  intros n H. unfold is_server_error, is_client_error, in_range, client_lo, client_hi, server_lo, server_hi. lia.
Qed.
Lemma alias_exists_range : forall n, alias_exists n = true -> 400 <= n < 600.
Proof.
  intros n H. unfold alias_exists, is_error_code, in_range, error_lo, error_hi in H. lia.
Qed.
Lemma err_range_iff : forall n, err_range n = true <-> 400 <= n < 600.
Proof. intro n. unfold err_range, in_range. lia. Qed.

Lemma alias_client : forall n, is_client_error n = true ->
  sub (Alias n) ClientError /\ sub (Alias n) HTTPError.
Proof.
  intros n H. unfold sub, subclass_of.
  split; cbn [subclass_fuel cls_eqb ClientError HTTPError orb parent]; unfold alias_parent; rewrite H;
    vm_compute; reflexivity.
Qed.
Lemma alias_server : forall n, is_client_error n = false -> is_server_error n = true ->
  sub (Alias n) ServerError /\ sub (Alias n) HTTPError.
Proof.
  intros n H0 H. unfold sub, subclass_of.
  split; cbn [subclass_fuel cls_eqb ServerError HTTPError orb parent]; unfold alias_parent; rewrite H0, H;
    vm_compute; reflexivity.
Qed.

(* ---------- what the handler does with a status outside 200-299 ---------- *)
Lemma op_imports_alias : forall o m k, op_imports_ok o = true -> In (m, CAlias k) (cases o) -> alias_exists k = true.
Proof.
  intros o m k H Hin. unfold op_imports_ok in H. rewrite forallb_forall in H.
  specialize (H _ Hin). exact H.
Qed.

Lemma dispatch_cases : forall o st, 100 <= st <= 599 -> ~ (200 <= st < 300) ->
  (declared_case o st = true /\ dispatch o st = ARaiseAlias st /\ In (st, CAlias st) (cases o))
  \/ (declared_case o st = false /\ dispatch o st = fallback o).
Proof.
  intros o st Hr Hn. unfold declared_case, dispatch.
  destruct (find_case st (cases o)) as [[m a]|] eqn:E.
  - left. apply find_case_Some in E. destruct E as [-> Hin].
    destruct (cases_In _ _ _ Hin) as [[-> Hl]|[-> Hl]].
    + exfalso. apply Hn. apply lead2_range; assumption.
    + auto.
  - right. auto.
Qed.

Lemma fallback_cases : forall o,
  (fallback o = AReturn /\ fallback_returns o = true) \/ (fallback o = ARaiseFallback /\ fallback_returns o = false).
Proof.
  intro o. unfold fallback_returns. unfold fallback.
  destruct (first_default o) as [d|]; [destruct (r_content d && negb (ret_none o))|]; auto.
Qed.

(* ---------- C06_partial: the full conclusion under the executable guard ---------- *)
Theorem partial : forall k s o st, In o s -> status_ok st -> guard k s o st = true -> C06_spec (call k s o st) st.
Proof.
  intros k s o st Hin [Hr Hn] G. unfold guard in G.
  apply andb_true_iff in G. destruct G as [G Gd]. apply andb_true_iff in G. destruct G as [G Gc].
  apply andb_true_iff in G. destruct G as [Ga Gb].
  unfold guard_F06d in Gd. unfold call. rewrite Gd. cbn [negb].
  assert (Ho : op_imports_ok o = true).
  { unfold imports_ok in Gd. rewrite forallb_forall in Gd. apply Gd. exact Hin. }
  destruct k; cbn [transport].
  - (* Bundled: the transport raises before the handler *)
    replace ((st <? transport_lo) || (transport_hi <=? st)) with true
      by (unfold transport_lo, transport_hi; lia).
    exists (Named transport_raises). split; [reflexivity|]. split; [exact sub_transport_http|].
    unfold guard_F06a in Ga. cbn [is_bundled andb] in Ga.
    assert (He : err_range st = false) by (destruct (err_range st); [discriminate | reflexivity]).
    split; intro Hs; exfalso; assert (err_range st = true) by (apply err_range_iff; lia); congruence.
  - (* Custom: the generated match decides *)
    unfold guard_F06b, guard_F06c in *. cbn [is_bundled negb andb] in Gb, Gc.
    destruct (dispatch_cases o st Hr Hn) as [(Hd & -> & Hc)|(Hd & ->)].
    + pose proof (op_imports_alias _ _ _ Ho Hc) as Ha. pose proof (alias_exists_range _ Ha) as Hrange.
      exists (Alias st). split; [reflexivity|].
      destruct (N.ltb_spec st 500) as [Hlt|Hge].
      * destruct (alias_client st (client_range st ltac:(lia))) as [Hc1 Hc2].
        split; [exact Hc2|]. split; intro; [exact Hc1 | lia].
      * destruct (server_range st ltac:(lia)) as [Hs1 Hs0].
        destruct (alias_server st Hs0 Hs1) as [Hc1 Hc2].
        split; [exact Hc2|]. split; intro; [lia | exact Hc1].
    + rewrite Hd in Gb, Gc. cbn [negb andb] in Gb, Gc.
      destruct (fallback_cases o) as [[-> Hf]|[-> Hf]]; rewrite Hf in *.
      * discriminate.
      * exists (Named handler_fallback_raises). split; [reflexivity|]. split; [exact sub_fallback_http|].
        rewrite andb_true_r in Gb.
        assert (He : err_range st = false) by (destruct (err_range st); [discriminate | reflexivity]).
        split; intro Hs; exfalso; assert (err_range st = true) by (apply err_range_iff; lia); congruence.
Qed.

(* ---------- and the guard is exact: outside it the conclusion is false ---------- *)
Theorem guard_exact : forall k s o st, status_ok st -> C06_spec (call k s o st) st -> guard k s o st = true.
Proof.
  intros k s o st [Hr Hn] (c & Hcall & Hh & Hc & Hs). unfold call in Hcall.
  destruct (imports_ok s) eqn:Gd; cbn [negb] in Hcall; [|discriminate].
  unfold guard, guard_F06d. rewrite Gd, andb_true_r.
  assert (Hnot : forall c', c = c' -> subclass_of c' ClientError = false -> subclass_of c' ServerError = false ->
                            err_range st = false).
  { intros c' -> H1 H2. destruct (err_range st) eqn:E; [|reflexivity]. apply err_range_iff in E.
    destruct (N.ltb_spec st 500); [specialize (Hc ltac:(lia)) | specialize (Hs ltac:(lia))];
      unfold sub in *; congruence. }
  destruct k; cbn [transport] in Hcall.
  - replace ((st <? transport_lo) || (transport_hi <=? st)) with true in Hcall
      by (unfold transport_lo, transport_hi; lia).
    inversion Hcall; subst c.
    unfold guard_F06a, guard_F06b, guard_F06c. cbn [is_bundled negb andb].
    rewrite (Hnot _ eq_refl transport_not_client transport_not_server). reflexivity.
  - unfold guard_F06a, guard_F06b, guard_F06c. cbn [is_bundled negb andb].
    destruct (dispatch_cases o st Hr Hn) as [(Hd & Hdisp & _)|(Hd & Hdisp)]; rewrite Hdisp in Hcall; rewrite Hd.
    + rewrite !andb_false_r. reflexivity.
    + cbn [negb]. rewrite !andb_true_r.
      destruct (fallback_cases o) as [[Hf Hfr]|[Hf Hfr]]; rewrite Hf in Hcall; [discriminate|].
      rewrite Hfr. cbn [negb]. rewrite andb_true_r. inversion Hcall; subst c.
      rewrite (Hnot _ eq_refl fallback_not_client fallback_not_server). reflexivity.
Qed.

(* ---------- what holds for EVERY transport and status once F06c/F06d are excluded ---------- *)
Theorem weak : forall k s o st, In o s -> status_ok st ->
  guard_F06c k o st = true -> guard_F06d s = true -> C06_weak_spec (call k s o st) st.
Proof.
  intros k s o st Hin [Hr Hn] Gc Gd. unfold guard_F06d in Gd. unfold call. rewrite Gd. cbn [negb].
  assert (Ho : op_imports_ok o = true).
  { unfold imports_ok in Gd. rewrite forallb_forall in Gd. apply Gd. exact Hin. }
  destruct k; cbn [transport].
  - replace ((st <? transport_lo) || (transport_hi <=? st)) with true
      by (unfold transport_lo, transport_hi; lia).
    exists (Named transport_raises). split; [reflexivity | exact sub_transport_http].
  - unfold guard_F06c in Gc. cbn [is_bundled negb andb] in Gc.
    destruct (dispatch_cases o st Hr Hn) as [(Hd & -> & Hc)|(Hd & ->)].
    + pose proof (alias_exists_range _ (op_imports_alias _ _ _ Ho Hc)) as Hrange.
      exists (Alias st). split; [reflexivity|].
      destruct (N.ltb_spec st 500) as [Hlt|Hge].
      * apply (alias_client st (client_range st ltac:(lia))).
      * destruct (server_range st ltac:(lia)) as [Hs1 Hs0]. apply (alias_server st Hs0 Hs1).
    + rewrite Hd in Gc. cbn [negb andb] in Gc.
      destruct (fallback_cases o) as [[-> Hf]|[-> Hf]]; rewrite Hf in *; [discriminate|].
      exists (Named handler_fallback_raises). split; [reflexivity | exact sub_fallback_http].
Qed.

(* ---------- the unguarded statement is false: one witness per finding ---------- *)
Theorem refuted_F06a :
  status_ok 404 /\ guard_F06a Bundled 404 = false /\ guard_F06b Bundled op_F06a 404 = true
  /\ guard_F06c Bundled op_F06a 404 = true /\ guard_F06d [op_F06a] = true
  /\ call Bundled [op_F06a] op_F06a 404 = Raised HTTPError 404 true
  /\ ~ C06_spec (call Bundled [op_F06a] op_F06a 404) 404.
Proof.
  split; [unfold status_ok; lia|]. repeat (split; [vm_compute; reflexivity|]).
  intro H. apply guard_exact in H; [|unfold status_ok; lia]. vm_compute in H. discriminate.
Qed.

Theorem refuted_F06b :
  status_ok 404 /\ guard_F06a Custom 404 = true /\ guard_F06b Custom op_F06b 404 = false
  /\ guard_F06c Custom op_F06b 404 = true /\ guard_F06d [op_F06b] = true
  /\ call Custom [op_F06b] op_F06b 404 = Raised HTTPError 404 true
  /\ ~ C06_spec (call Custom [op_F06b] op_F06b 404) 404.
Proof.
  split; [unfold status_ok; lia|]. repeat (split; [vm_compute; reflexivity|]).
  intro H. apply guard_exact in H; [|unfold status_ok; lia]. vm_compute in H. discriminate.
Qed.

Theorem refuted_F06c :
  status_ok 500 /\ guard_F06a Custom 500 = true /\ guard_F06b Custom op_F06c 500 = true
  /\ guard_F06c Custom op_F06c 500 = false /\ guard_F06d [op_F06c] = true
  /\ call Custom [op_F06c] op_F06c 500 = Returned
  /\ ~ C06_weak_spec (call Custom [op_F06c] op_F06c 500) 500.
Proof.
  split; [unfold status_ok; lia|]. repeat (split; [vm_compute; reflexivity|]).
  intros (c & H & _). vm_compute in H. discriminate.
Qed.

Theorem refuted_F06d :
  status_ok 302 /\ guard_F06a Custom 302 = true /\ guard_F06b Custom op_F06d 302 = true
  /\ guard_F06c Custom op_F06d 302 = true /\ guard_F06d [op_F06d] = false
  /\ (forall k st, call k [op_F06d] op_F06d st = ImportFails)
  /\ ~ C06_weak_spec (call Custom [op_F06d] op_F06d 302) 302.
Proof.
  split; [unfold status_ok; lia|]. repeat (split; [vm_compute; reflexivity|]).
  intros (c & H & _). vm_compute in H. discriminate.
Qed.

(* F06a is not one input but a whole class: EVERY 4xx/5xx through the bundled transport, whatever is declared *)
Theorem F06a_all : forall s o st, 400 <= st < 600 -> ~ C06_spec (call Bundled s o st) st.
Proof.
  intros s o st Hr H. apply guard_exact in H; [|unfold status_ok; lia].
  unfold guard, guard_F06a in H. cbn [is_bundled andb] in H.
  assert (E : err_range st = true) by (apply err_range_iff; lia). rewrite E in H. discriminate.
Qed.

(* ---------- non-vacuity ---------- *)
Definition op_ok : op := [R (Num 200) true; R (Num 404) true; R (Num 503) false; R Default false].
Example guard_nonvacuous :
  guard Custom [op_ok] op_ok 404 = true /\ call Custom [op_ok] op_ok 404 = Raised (Alias 404) 404 true
  /\ guard Custom [op_ok] op_ok 503 = true /\ call Custom [op_ok] op_ok 503 = Raised (Alias 503) 503 true
  /\ guard Custom [op_ok] op_ok 302 = true /\ guard Bundled [op_ok] op_ok 302 = true.
Proof. repeat split; vm_compute; reflexivity. Qed.

(* ---------- the alias table (finite, regenerated from core/http_status_codes.py) ---------- *)
Definition error_codes : list N := map N.of_nat (seq 400 200).
Fixpoint distinct_strs (l : list str) : bool :=
  match l with [] => true | x :: r => negb (mem_str x r) && distinct_strs r end.

(* for all codes 400..599: alias class names are pairwise different and none shadows a base class *)
Theorem alias_names_sound :
  distinct_strs (map alias_name error_codes) = true
  /\ forallb (fun n => negb (mem_str (alias_name n) (map fst exc_hierarchy))) error_codes = true
  /\ forallb (fun n => alias_exists n) error_codes = true.
Proof. repeat split; vm_compute; reflexivity. Qed.
