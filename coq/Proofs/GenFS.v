(* C10 — proofs about Model/GenFS.v *)
From PG Require Import Lib.Strs Model.GenFS.

(* ---------- witnesses ---------- *)
Definition pR : path := [[82]].            (* project root "R" *)
Definition pT : path := [[84]].            (* temporary directory "T" *)
Definition pB : path := [[66]; [99; 119; 100]].   (* "B/cwd" *)
Definition s_sentinel : str := [83; 69; 78; 84; 73; 78; 69; 76].
Definition s_pets : str := [112; 101; 116; 115].
Definition s_pet : str := [112; 101; 116].
Definition s_a : str := [97].
Definition s_client : str := [99; 108; 105; 101; 110; 116].

Definition fs0 : fs := [(pR, Dir); (pR ++ [s_sentinel], File 1)].

(* F10a: output_package "." (split on dots: two empty components), force *)
Definition cfg_F10a : config :=
  {| root := pR; tmp := pT; cwd := pB; out_pkg := [[]; []]; core_pkg := None; force := true; post := false;
     tags := [s_pets]; models := [s_pet] |}.

(* F10b: non-force over an existing package, post-processing on, started from the project root *)
Definition cfg_F10b : config :=
  {| root := pR; tmp := pT; cwd := pR; out_pkg := [s_a; s_client]; core_pkg := None; force := false; post := true;
     tags := [s_pets]; models := [s_pet] |}.
Definition fs1 : fs :=
  fs0 ++ [(pR ++ [s_a], Dir); (pR ++ [s_a; s_init], File 0); (pR ++ [s_a; s_client], Dir);
          (pR ++ [s_a; s_client; s_client_py], File 1)].

(* ---------- paths ---------- *)
Lemma list_eqb_str_eq : forall a b : path, path_eqb a b = true <-> a = b.
Proof.
  unfold path_eqb. induction a as [|x a IH]; destruct b as [|y b]; simpl; split; intro H;
    try reflexivity; try discriminate.
  - apply andb_true_iff in H. destruct H as [H1 H2]. apply str_eqb_eq in H1. apply IH in H2. subst. reflexivity.
  - inversion H; subst. apply andb_true_iff. split; [apply str_eqb_refl | apply IH; reflexivity].
Qed.

Lemma path_eqb_refl : forall a, path_eqb a a = true.
Proof. intro a. apply list_eqb_str_eq. reflexivity. Qed.

Lemma under_refl : forall a, under a a = true.
Proof. induction a as [|x a IH]; simpl; [reflexivity|]. rewrite str_eqb_refl. exact IH. Qed.

Lemma under_app : forall a x, under a (a ++ x) = true.
Proof. induction a as [|y a IH]; intro x; simpl; [reflexivity|]. rewrite str_eqb_refl. apply IH. Qed.

Lemma under_trans : forall a b c, under a b = true -> under b c = true -> under a c = true.
Proof.
  induction a as [|x a IH]; intros b c H1 H2; simpl; [reflexivity|].
  destruct b as [|y b]; [discriminate|]. destruct c as [|z c]; [discriminate|].
  simpl in *. apply andb_true_iff in H1. destruct H1 as [E1 H1].
  apply andb_true_iff in H2. destruct H2 as [E2 H2].
  apply str_eqb_eq in E1. apply str_eqb_eq in E2. subst. rewrite str_eqb_refl. simpl. eapply IH; eauto.
Qed.

(* two prefixes of the same path are comparable *)
Lemma under_comparable : forall a b p, under a p = true -> under b p = true -> under a b = true \/ under b a = true.
Proof.
  induction a as [|x a IH]; intros b p Ha Hb.
  - left. reflexivity.
  - destruct b as [|y b]; [right; reflexivity|].
    destruct p as [|z p]; [discriminate|]. simpl in *.
    apply andb_true_iff in Ha. destruct Ha as [E1 Ha].
    apply andb_true_iff in Hb. destruct Hb as [E2 Hb].
    apply str_eqb_eq in E1. apply str_eqb_eq in E2. subst. rewrite str_eqb_refl. simpl.
    eapply IH; eauto.
Qed.

Lemma under_antisym : forall a b, under a b = true -> under b a = true -> a = b.
Proof.
  induction a as [|x a IH]; intros b H1 H2.
  - destruct b; [reflexivity | discriminate].
  - destruct b as [|y b]; [discriminate|]. simpl in *.
    apply andb_true_iff in H1. destruct H1 as [E1 H1].
    apply andb_true_iff in H2. destruct H2 as [_ H2].
    apply str_eqb_eq in E1. subst. f_equal. apply IH; auto.
Qed.

Lemma under_app_inv : forall r a b, under (r ++ a) (r ++ b) = under a b.
Proof. induction r as [|x r IH]; intros a b; simpl; [reflexivity|]. rewrite str_eqb_refl. apply IH. Qed.

Lemma under_exists : forall a p, under a p = true -> exists x, p = a ++ x.
Proof.
  induction a as [|y a IH]; intros p H.
  - exists p. reflexivity.
  - destruct p as [|z p]; [discriminate|]. simpl in H. apply andb_true_iff in H. destruct H as [E H].
    apply str_eqb_eq in E. subst. destruct (IH p H) as [x Hx]. exists x. simpl. f_equal. exact Hx.
Qed.

Lemma In_prefixes : forall p q, In q (prefixes p) <-> (q <> [] /\ under q p = true).
Proof.
  induction p as [|x p IH]; intro q; simpl.
  - split; [intros [] | intros [Hn Hu]]. destruct q; [congruence | discriminate].
  - split.
    + intros [H|H].
      * subst. split; [discriminate|]. simpl. rewrite str_eqb_refl. reflexivity.
      * apply in_map_iff in H. destruct H as [q' [Hq Hin]]. subst. split; [discriminate|].
        simpl. rewrite str_eqb_refl. simpl. apply IH in Hin. destruct q'; [reflexivity | apply Hin].
    + intros [Hn Hu]. destruct q as [|y q]; [congruence|]. simpl in Hu.
      apply andb_true_iff in Hu. destruct Hu as [E Hu]. apply str_eqb_eq in E. subst y.
      destruct q as [|z q]; [left; reflexivity|]. right. apply in_map_iff. exists (z :: q). split; [reflexivity|].
      apply IH. split; [discriminate | exact Hu].
Qed.

Lemma under_removelast : forall p, under (removelast p) p = true.
Proof.
  induction p as [|x p IH]; [reflexivity|]. destruct p as [|y p]; [reflexivity|].
  change (removelast (x :: y :: p)) with (x :: removelast (y :: p)).
  simpl under. rewrite str_eqb_refl. exact IH.
Qed.

(* ---------- operations that stay outside a directory r leave its content alone ---------- *)
Definition op_outside (r : path) (op : fs_op) : Prop :=
  match op with
  | Write p _ | WriteIfAbsent p _ | Remove p | Mkdirs p => under r p = false
  | Rmtree p => under r p = false /\ under p r = false
  | Stash _ => under r mem_slot = false
  | Unstash p => under r p = false /\ under r mem_slot = false
  | Rewrite p => under r p = false
  end.

Definition inr (r : path) (kv : path * entry) : bool := under r (fst kv).

Lemma filter_set_outside : forall r s p e, under r p = false -> filter (inr r) (set s p e) = filter (inr r) s.
Proof.
  intros r s p e Hp. induction s as [|[q e'] s IH]; simpl.
  - unfold inr. simpl. rewrite Hp. reflexivity.
  - destruct (path_eqb p q) eqn:E; simpl.
    + apply list_eqb_str_eq in E. subst q. unfold inr. simpl. rewrite Hp. reflexivity.
    + rewrite IH. reflexivity.
Qed.

Lemma filter_filter_absorb : forall {A} (f g : A -> bool) l,
  (forall x, f x = true -> g x = true) -> filter f (filter g l) = filter f l.
Proof.
  intros A f g l H. induction l as [|x l IH]; simpl; [reflexivity|].
  destruct (g x) eqn:Eg; simpl.
  - rewrite IH. reflexivity.
  - destruct (f x) eqn:Ef; [apply H in Ef; congruence | exact IH].
Qed.

Lemma under_false_prefix : forall r q p, under r p = false -> under q p = true -> under r q = false.
Proof.
  intros r q p Hp Hq. destruct (under r q) eqn:E; [|reflexivity].
  rewrite (under_trans r q p E Hq) in Hp. discriminate.
Qed.

Lemma mkdirs_outside : forall r l s, (forall q, In q l -> under r q = false) ->
  filter (inr r) (fold_left mkdir1 l s) = filter (inr r) s.
Proof.
  intros r l. induction l as [|q l IH]; intros s H; simpl; [reflexivity|].
  rewrite IH by (intros q' Hq'; apply H; right; exact Hq').
  unfold mkdir1. destruct (exists_b s q); [reflexivity|].
  rewrite filter_app. simpl. unfold inr at 2. simpl. rewrite (H q (or_introl eq_refl)). apply app_nil_r.
Qed.

Lemma filter_remove_outside : forall r s p, under r p = false ->
  filter (inr r) (filter (fun kv => negb (path_eqb (fst kv) p)) s) = filter (inr r) s.
Proof.
  intros r s p H. apply filter_filter_absorb. intros [q e] Hq. unfold inr in Hq. simpl in *.
  destruct (path_eqb q p) eqn:E; [|reflexivity]. apply list_eqb_str_eq in E. subst. congruence.
Qed.

Lemma under_nil_false : forall r t, under r t = false -> under r [] = false.
Proof. intros r t H. destruct r; [discriminate | reflexivity]. Qed.

Lemma apply_outside : forall r s op, op_outside r op -> filter (inr r) (apply_op s op) = filter (inr r) s.
Proof.
  intros r s op H. destruct op as [p t|p t|p|p|p|p|p|p]; simpl in *.
  - apply filter_set_outside. exact H.
  - destruct (exists_b s p); [reflexivity | apply filter_set_outside; exact H].
  - apply filter_filter_absorb. intros [q e] Hq. unfold inr in Hq. simpl in *.
    destruct (path_eqb q p) eqn:E; [|reflexivity]. apply list_eqb_str_eq in E. subst. congruence.
  - apply mkdirs_outside. intros q Hq. apply In_prefixes in Hq. destruct Hq as [_ Hq].
    eapply under_false_prefix; eauto.
  - destruct H as [H1 H2]. apply filter_filter_absorb. intros [q e] Hq. unfold inr in Hq. simpl in *.
    destruct (under p q) eqn:E; [|reflexivity].
    destruct (under_comparable r p q Hq E) as [C|C]; congruence.
  - destruct (lookup p s); [apply filter_set_outside; exact H | apply filter_remove_outside; exact H].
  - destruct H as [H1 H2]. destruct (lookup mem_slot s); [|reflexivity].
    rewrite filter_set_outside by exact H1. apply filter_remove_outside. exact H2.
  - reflexivity.
Qed.

Lemma touched_outside : forall r s op p, op_outside r op -> In p (op_touched s op) -> under r p = false.
Proof.
  intros r s op p H Hin. destruct op as [q t|q t|q|q|q|q|q|q]; simpl in *.
  - destruct Hin as [Hin|[]]. subst. exact H.
  - destruct (exists_b s q); [contradiction|]. destruct Hin as [Hin|[]]. subst. exact H.
  - destruct Hin as [Hin|[]]. subst. exact H.
  - apply filter_In in Hin. destruct Hin as [Hin _]. apply In_prefixes in Hin. destruct Hin as [_ Hin].
    eapply under_false_prefix; eauto.
  - destruct H as [H1 H2]. apply in_map_iff in Hin. destruct Hin as [[p' e] [Hp Hin]]. simpl in Hp. subst p'.
    apply filter_In in Hin. destruct Hin as [_ Hu]. simpl in Hu.
    destruct (under r p) eqn:E; [|reflexivity].
    destruct (under_comparable r q p E Hu) as [C|C]; congruence.
  - contradiction.
  - destruct H as [H1 H2]. destruct (exists_b s mem_slot); [|contradiction].
    destruct Hin as [Hin|[]]. subst. exact H1.
  - destruct (exists_b s q); [|contradiction]. destruct Hin as [Hin|[]]. subst. exact H.
Qed.

Lemma exec_outside : forall r pl s, Forall (fun so => op_outside r (snd so)) pl ->
  filter (inr r) (exec s pl) = filter (inr r) s.
Proof.
  intros r pl. unfold exec. induction pl as [|[st op] pl IH]; intros s H; simpl; [reflexivity|].
  inversion H as [|? ? H1 H2]; subst. rewrite IH by exact H2. apply apply_outside. exact H1.
Qed.

Lemma touched_all_outside : forall r pl s p, Forall (fun so => op_outside r (snd so)) pl ->
  In p (touched s pl) -> under r p = false.
Proof.
  intros r pl. induction pl as [|[st op] pl IH]; intros s p H Hin; simpl in *; [contradiction|].
  inversion H as [|? ? H1 H2]; subst. apply in_app_or in Hin. destruct Hin as [Hin|Hin].
  - eapply touched_outside; eauto.
  - eapply IH; eauto.
Qed.

(* ---------- in the diff path every operation is outside the project root ---------- *)
Lemma disjoint_app : forall r t x, under r t = false -> under t r = false -> under r (t ++ x) = false.
Proof.
  intros r t x H1 H2. destruct (under r (t ++ x)) eqn:E; [|reflexivity].
  destruct (under_comparable r t (t ++ x) E (under_app t x)) as [C|C]; congruence.
Qed.

Lemma rebase_outside : forall r t op, under r t = false -> under t r = false -> op_outside r (rebase t op).
Proof.
  intros r t op H1 H2. destruct op as [p n|p n|p|p|p|p|p|p]; simpl; try (apply disjoint_app; assumption).
  - split; [apply disjoint_app; assumption|].
    destruct (under (t ++ p) r) eqn:E; [|reflexivity].
    rewrite (under_trans t (t ++ p) r (under_app t p) E) in H2. discriminate.
  - eapply under_nil_false; exact H1.
  - split; [apply disjoint_app; assumption | eapply under_nil_false; exact H1].
Qed.

Lemma before_incl : forall k l st, In st (before k l) -> In st l.
Proof.
  intros k l. induction l as [|x l IH]; intros st H; simpl in *; [contradiction|].
  destruct k as [f|].
  - destruct (stage_eqb f x); [contradiction|]. destruct H as [H|H]; auto.
  - destruct H as [H|H]; auto.
Qed.

Lemma wf_tmp_split : forall c, wf_tmp c = true -> under (root c) (tmp c) = false /\ under (tmp c) (root c) = false.
Proof.
  intros c H. unfold wf_tmp in H. apply andb_true_iff in H. destruct H as [H1 H2].
  apply negb_true_iff in H1. apply negb_true_iff in H2. auto.
Qed.

Lemma effects_diff_outside : forall c st, wf_tmp c = true ->
  Forall (fun op => op_outside (root c) op) (effects c true st).
Proof.
  intros c st Hw. destruct (wf_tmp_split c Hw) as [H1 H2]. unfold effects.
  apply Forall_app. split.
  - apply Forall_forall. intros op Hop. apply in_map_iff in Hop. destruct Hop as [op' [E _]]. subst.
    apply rebase_outside; assumption.
  - destruct (stage_eqb st Setup && true); [|constructor].
    constructor; [|constructor; [|constructor]]; simpl.
    + eapply under_nil_false; exact H1.
    + split; [apply disjoint_app; assumption | eapply under_nil_false; exact H1].
Qed.

Lemma plan_diff_outside : forall c k, wf_tmp c = true ->
  Forall (fun so => op_outside (root c) (snd so)) (plan_main c true k ++ plan_final c true k).
Proof.
  intros c k Hw. apply Forall_app. split.
  - unfold plan_main. apply Forall_forall. intros [st op] Hin. apply in_flat_map in Hin.
    destruct Hin as [st' [Hst Hin]]. apply in_map_iff in Hin. destruct Hin as [op' [E Hop]].
    inversion E; subst. simpl.
    pose proof (effects_diff_outside c st Hw) as HF.
    rewrite Forall_forall in HF. apply HF. exact Hop.
  - unfold plan_final. destruct (true && existsb (stage_eqb Setup) (before k (run_stages c true))); [|constructor].
    constructor; [|constructor]. simpl. destruct (wf_tmp_split c Hw) as [H1 H2]. split; assumption.
Qed.

(* C10_noforce *)
Theorem noforce_untouched : forall c k s,
  wf_tmp c = true ->
  force c = false -> exists_b s (out_dir c) = true ->
  restrict_root c (fst (generate c k s)) = restrict_root c s.
Proof.
  intros c k s Hw Hf He. unfold generate. cbn [fst].
  assert (Hd : diff_mode c s = true) by (unfold diff_mode; rewrite Hf, He; reflexivity).
  rewrite Hd. unfold restrict_root.
  change (fun kv : path * entry => under (root c) (fst kv)) with (inr (root c)).
  pose proof (plan_diff_outside c k Hw) as HF. apply Forall_app in HF. destruct HF as [HF1 HF2].
  rewrite (exec_outside _ _ _ HF2). apply exec_outside. exact HF1.
Qed.

(* ---------- containment in the direct path ---------- *)
Lemma allowed_under_out : forall c q, under (out_pkg c) q = true -> allowed c (root c ++ q) = true.
Proof.
  intros c q H. unfold allowed, spec_out. rewrite under_app_inv, H. reflexivity.
Qed.
Lemma allowed_under_core : forall c q, under (core_fqn c) q = true -> allowed c (root c ++ q) = true.
Proof.
  intros c q H. unfold allowed, spec_core. rewrite (under_app_inv (root c) (core_fqn c) q), H.
  rewrite orb_true_r. reflexivity.
Qed.

Lemma allowed_anc : forall c d q, (d = out_pkg c \/ d = core_fqn c) -> In q (prefixes d) ->
  allowed c (root c ++ q) = true /\ allowed c (root c ++ q ++ [s_init]) = true.
Proof.
  intros c d q Hd Hq.
  assert (Hin : In (root c ++ q) (ancestors c (out_pkg c) ++ ancestors c (core_fqn c))).
  { apply in_or_app. destruct Hd as [Hd|Hd]; subst d; [left|right];
      unfold ancestors; apply in_map_iff; exists q; auto. }
  split; unfold allowed; apply orb_true_iff; right; apply existsb_exists; exists (root c ++ q); (split; [exact Hin|]).
  - rewrite path_eqb_refl. reflexivity.
  - rewrite <- app_assoc. rewrite path_eqb_refl. apply orb_true_r.
Qed.

Lemma allowed_under_d : forall c d q, (d = out_pkg c \/ d = core_fqn c) -> under d q = true -> allowed c (root c ++ q) = true.
Proof. intros c d q [Hd|Hd] H; subst d; [apply allowed_under_out | apply allowed_under_core]; exact H. Qed.

Definition rel_ok (c : config) (op : fs_op) : bool :=
  match op with
  | Write q _ | WriteIfAbsent q _ | Remove q => allowed c (root c ++ q)
  | Mkdirs q => forallb (fun q' => allowed c (root c ++ q')) (prefixes q)
  | Rmtree q => under (out_pkg c) q || under (core_fqn c) q
  | Stash _ => true
  | Unstash q | Rewrite q => allowed c (root c ++ q)
  end.

Lemma prefixes_allowed : forall c d x, (d = out_pkg c \/ d = core_fqn c) ->
  forallb (fun q' => allowed c (root c ++ q')) (prefixes (d ++ x)) = true.
Proof.
  intros c d x Hd. apply forallb_forall. intros q Hq. apply In_prefixes in Hq. destruct Hq as [Hn Hu].
  destruct (under_comparable q d (d ++ x) Hu (under_app d x)) as [C|C].
  - apply (allowed_anc c d q Hd). apply In_prefixes. auto.
  - apply (allowed_under_d c d q Hd C).
Qed.

Lemma rel_ok_at : forall c d op, (d = out_pkg c \/ d = core_fqn c) -> rel_ok c (rebase d op) = true.
Proof.
  intros c d op Hd. destruct op as [p t|p t|p|p|p|p|p|p]; simpl;
    try (apply (allowed_under_d c d _ Hd); apply under_app).
  - apply prefixes_allowed. exact Hd.
  - destruct Hd as [Hd|Hd]; subst d; rewrite under_app; [reflexivity | apply orb_true_r].
  - reflexivity.
Qed.

Lemma rel_ok_map_at : forall c d ops, (d = out_pkg c \/ d = core_fqn c) ->
  forallb (rel_ok c) (map (rebase d) ops) = true.
Proof.
  intros c d ops Hd. apply forallb_forall. intros op Hin. apply in_map_iff in Hin.
  destruct Hin as [op' [E _]]. subst. apply rel_ok_at. exact Hd.
Qed.

Lemma rel_ok_mkdirs_parent : forall c d, (d = out_pkg c \/ d = core_fqn c) -> rel_ok c (Mkdirs (removelast d)) = true.
Proof.
  intros c d Hd. simpl. apply forallb_forall. intros q Hq. apply In_prefixes in Hq. destruct Hq as [Hn Hu].
  apply (allowed_anc c d q Hd). apply In_prefixes. split; [exact Hn|].
  eapply under_trans; [exact Hu | apply under_removelast].
Qed.

Lemma rel_ok_mkdirs_self : forall c d, (d = out_pkg c \/ d = core_fqn c) -> rel_ok c (Mkdirs d) = true.
Proof.
  intros c d Hd. simpl. rewrite <- (app_nil_r d) at 1. apply prefixes_allowed. exact Hd.
Qed.

Lemma rel_ok_init_chain : forall c d, (d = out_pkg c \/ d = core_fqn c) -> forallb (rel_ok c) (init_chain d) = true.
Proof.
  intros c d Hd. unfold init_chain. apply forallb_forall. intros op Hin. apply in_map_iff in Hin.
  destruct Hin as [q [E Hq]]. subst. simpl. apply in_rev in Hq. apply (allowed_anc c d q Hd Hq).
Qed.

Lemma filter_nonempty_id : forall l, forallb nonempty l = true -> filter nonempty l = l.
Proof.
  induction l as [|x l IH]; intro H; simpl in *; [reflexivity|].
  apply andb_true_iff in H. destruct H as [H1 H2]. rewrite H1. f_equal. apply IH. exact H2.
Qed.

Lemma wf_pkg_rel : forall c, wf_pkg c = true -> rel_out c = out_pkg c /\ rel_core c = core_fqn c.
Proof.
  intros c H. unfold wf_pkg in H. repeat (apply andb_true_iff in H; destruct H as [H ?]).
  unfold rel_out, rel_core, rel_of. split; apply filter_nonempty_id; assumption.
Qed.

Lemma rel_effects_gen_ok : forall c st, wf_pkg c = true -> forallb (rel_ok c) (rel_effects_gen c false st) = true.
Proof.
  intros c st Hwf. destruct (wf_pkg_rel c Hwf) as [Ho Hk].
  assert (HO : out_pkg c = out_pkg c \/ out_pkg c = core_fqn c) by (left; reflexivity).
  assert (HK : core_fqn c = out_pkg c \/ core_fqn c = core_fqn c) by (right; reflexivity).
  destruct st; unfold rel_effects_gen; rewrite ?Ho, ?Hk; try reflexivity;
    try (apply rel_ok_map_at; assumption).
  - (* Setup *)
    cbn [negb]. rewrite !forallb_app. repeat (apply andb_true_iff; split).
    + destruct (under (out_pkg c) (core_fqn c) && negb (path_eqb (out_pkg c) (core_fqn c))); reflexivity.
    + simpl. rewrite under_refl. reflexivity.
    + apply rel_ok_mkdirs_parent. exact HO.
    + apply rel_ok_mkdirs_self. exact HO.
    + reflexivity.
    + destruct (path_eqb (core_fqn c) (out_pkg c)); [reflexivity|].
      cbn [forallb]. rewrite (rel_ok_mkdirs_parent c _ HK), (rel_ok_mkdirs_self c _ HK). reflexivity.
    + destruct (under (out_pkg c) (core_fqn c) && negb (path_eqb (out_pkg c) (core_fqn c))); [|reflexivity].
      cbn [forallb]. rewrite andb_true_r.
      change (Unstash (core_fqn c ++ [s_registry])) with (rebase (core_fqn c) (Unstash [s_registry])).
      apply rel_ok_at. exact HK.
    + apply rel_ok_init_chain. exact HO.
    + destruct (path_eqb (core_fqn c) (out_pkg c)); [reflexivity | apply rel_ok_init_chain; exact HK].
  - (* RichInit *)
    destruct (core_pkg c); [|reflexivity]. cbn [forallb]. rewrite andb_true_r.
    change (Write (out_pkg c ++ [s_init]) 0) with (rebase (out_pkg c) (Write [s_init] 0)).
    apply rel_ok_at. exact HO.
Qed.

Lemma rel_ok_written : forall c op q, rel_ok c op = true -> In q (written_path op) -> allowed c (root c ++ q) = true.
Proof.
  intros c op q H Hin. destruct op; simpl in *; try contradiction; destruct Hin as [Hin|[]]; subst; exact H.
Qed.

(* post-processing only rewrites files that an emitter wrote: every target is an allowed path *)
Lemma rel_effects_ok : forall c st, wf_pkg c = true -> forallb (rel_ok c) (rel_effects c false st) = true.
Proof.
  intros c st Hwf. destruct st; try (apply rel_effects_gen_ok; exact Hwf).
  unfold rel_effects, post_targets. apply forallb_forall. intros op Hop. apply in_map_iff in Hop.
  destruct Hop as [q [E Hq]]. subst. simpl.
  apply filter_In in Hq. destruct Hq as [Hq _]. apply in_flat_map in Hq. destruct Hq as [op [Hop Hq]].
  apply in_flat_map in Hop. destruct Hop as [st [_ Hop]].
  pose proof (rel_effects_gen_ok c st Hwf) as H. rewrite forallb_forall in H.
  eapply rel_ok_written; [apply H; exact Hop | exact Hq].
Qed.

Lemma sunder_split : forall r p, sunder r p = true -> exists x, p = r ++ x /\ x <> [].
Proof.
  intros r p H. unfold sunder in H. apply andb_true_iff in H. destruct H as [Hu Hn].
  destruct (under_exists r p Hu) as [x Hx]. exists x. split; [exact Hx|].
  intro E. subst x. rewrite app_nil_r in Hx. subst p. rewrite path_eqb_refl in Hn. discriminate.
Qed.

Lemma touched_ok : forall c s op p, rel_ok c op = true ->
  In p (op_touched s (rebase (root c) op)) -> sunder (root c) p = true -> allowed c p = true.
Proof.
  intros c s op p Hok Hin Hs. destruct op as [q t|q t|q|q|q|q|q|q]; simpl in *;
    [| | | | |contradiction|
     destruct (exists_b s mem_slot); [destruct Hin as [Hin|[]]; subst; exact Hok | contradiction]|
     destruct (exists_b s (root c ++ q)); [destruct Hin as [Hin|[]]; subst; exact Hok | contradiction]].
  - destruct Hin as [Hin|[]]. subst. exact Hok.
  - destruct (exists_b s (root c ++ q)); [contradiction|]. destruct Hin as [Hin|[]]. subst. exact Hok.
  - destruct Hin as [Hin|[]]. subst. exact Hok.
  - apply filter_In in Hin. destruct Hin as [Hin _]. apply In_prefixes in Hin. destruct Hin as [_ Hu].
    destruct (sunder_split _ _ Hs) as [x [Hx Hn]]. subst p. rewrite under_app_inv in Hu.
    rewrite forallb_forall in Hok. apply Hok. apply In_prefixes. auto.
  - apply in_map_iff in Hin. destruct Hin as [[p' e] [Hp Hin]]. simpl in Hp. subst p'.
    apply filter_In in Hin. destruct Hin as [_ Hu]. simpl in Hu.
    destruct (under_exists _ _ Hu) as [y Hy]. subst p. rewrite <- app_assoc.
    apply orb_true_iff in Hok. destruct Hok as [Hok|Hok].
    + apply allowed_under_out. eapply under_trans; [exact Hok | apply under_app].
    + apply allowed_under_core. eapply under_trans; [exact Hok | apply under_app].
Qed.

(* an absolute operation of the direct path: either outside the root, or a well-placed relative one *)
Definition abs_ok (c : config) (op : fs_op) : Prop :=
  op_outside (root c) op \/ exists rop, op = rebase (root c) rop /\ rel_ok c rop = true.

Lemma is_ident_nonempty : forall x, is_ident x = true -> nonempty x = true.
Proof. intros x H. destruct x; [discriminate | reflexivity]. Qed.

Lemma forallb_ident_nonempty : forall l, forallb is_ident l = true -> forallb nonempty l = true.
Proof.
  induction l as [|x l IH]; intro H; simpl in *; [reflexivity|].
  apply andb_true_iff in H. destruct H as [H1 H2]. rewrite (is_ident_nonempty x H1). simpl. auto.
Qed.

Lemma valid_wf : forall c, valid_pkgs c = true -> wf_pkg c = true.
Proof.
  intros c H. unfold valid_pkgs, valid_pkg in H.
  apply andb_true_iff in H. destruct H as [Ho Hk]. apply andb_true_iff in Ho. destruct Ho as [Ho1 Ho2].
  unfold wf_pkg, core_fqn. rewrite Ho1, (forallb_ident_nonempty _ Ho2). simpl.
  destruct (core_pkg c) as [k|].
  - apply andb_true_iff in Hk. destruct Hk as [Hk1 Hk2]. rewrite Hk1, (forallb_ident_nonempty _ Hk2). reflexivity.
  - rewrite forallb_app, (forallb_ident_nonempty _ Ho2). simpl.
    destruct (out_pkg c); reflexivity.
Qed.

Lemma effects_direct_ok : forall c st,
  In st (run_stages c false) -> Forall (abs_ok c) (effects c false st).
Proof.
  intros c st Hin. unfold run_stages in Hin. destruct (valid_pkgs c) eqn:Hv.
  - pose proof (valid_wf c Hv) as Hwf. unfold effects. rewrite andb_false_r, app_nil_r.
    apply Forall_forall. intros op Hop. apply in_map_iff in Hop. destruct Hop as [rop [E Hr]]. subst.
    right. exists rop. split; [reflexivity|].
    pose proof (rel_effects_ok c st Hwf) as H. rewrite forallb_forall in H. apply H. exact Hr.
  - destruct Hin as [Hin|[Hin|[]]]; subst; constructor.
Qed.

Lemma touched_plan_ok : forall c pl s p, Forall (fun so => abs_ok c (snd so)) pl ->
  In p (touched s pl) -> sunder (root c) p = true -> allowed c p = true.
Proof.
  intros c pl. induction pl as [|[st op] pl IH]; intros s p H Hin Hs; simpl in *; [contradiction|].
  inversion H as [|? ? H1 H2]; subst. apply in_app_or in Hin. destruct Hin as [Hin|Hin].
  - simpl in H1. destruct H1 as [Ho|[rop [E Hr]]].
    + pose proof (touched_outside _ _ _ _ Ho Hin) as Hu. unfold sunder in Hs. rewrite Hu in Hs. discriminate.
    + subst op. eapply touched_ok; eauto.
  - eapply IH; eauto.
Qed.

(* C10_contained *)
Theorem contained : forall c k s p,
  wf_tmp c = true ->
  In p (touched s (plan c k s)) -> sunder (root c) p = true -> allowed c p = true.
Proof.
  intros c k s p Hw Hin Hs. unfold plan in Hin. destruct (diff_mode c s) eqn:Hd.
  - pose proof (touched_all_outside _ _ _ _ (plan_diff_outside c k Hw) Hin) as Hu.
    unfold sunder in Hs. rewrite Hu in Hs. discriminate.
  - unfold plan_final in Hin. cbn [andb] in Hin. rewrite app_nil_r in Hin.
    eapply touched_plan_ok; [|exact Hin|exact Hs].
    unfold plan_main. apply Forall_forall. intros [st op] Hso. apply in_flat_map in Hso.
    destruct Hso as [st' [Hst Hop]]. apply in_map_iff in Hop. destruct Hop as [op' [E Hop]].
    inversion E; subst. simpl.
    pose proof (effects_direct_ok c st (before_incl _ _ _ Hst)) as HF.
    rewrite Forall_forall in HF. apply HF. exact Hop.
Qed.

(* C10_result *)
Theorem result_ok_iff : forall c k s,
  snd (generate c k s) = Ok <->
  fails k (run_stages c (diff_mode c s)) = false /\ valid_pkgs c = true
  /\ diff_mode c s && has_diff c (exec s (plan_main c (diff_mode c s) k)) = false.
Proof.
  intros c k s. unfold generate. cbn [snd].
  destruct (fails k (run_stages c (diff_mode c s))) eqn:Ef.
  - destruct k as [f|]; [|discriminate Ef]. split; [discriminate | intros [H _]; discriminate].
  - destruct (valid_pkgs c); cbn [negb].
    + destruct (diff_mode c s && has_diff c (exec s (plan_main c (diff_mode c s) k))); split; auto;
        try discriminate. intros [_ [_ H]]. discriminate.
    + split; [discriminate | intros [_ [H _]]; discriminate].
Qed.

Theorem result_fail_iff : forall c k s f,
  snd (generate c k s) = Fail f <-> k = Some f /\ fails k (run_stages c (diff_mode c s)) = true.
Proof.
  intros c k s f. unfold generate. cbn [snd].
  destruct (fails k (run_stages c (diff_mode c s))) eqn:Ef.
  - destruct k as [f'|]; [|discriminate Ef]. split.
    + intro H. inversion H; subst. auto.
    + intros [H _]. inversion H; subst. reflexivity.
  - split.
    + destruct (valid_pkgs c); cbn [negb]; [|discriminate].
      destruct (diff_mode c s && has_diff c (exec s (plan_main c (diff_mode c s) k))); discriminate.
    + intros [_ H]. discriminate.
Qed.

(* invalid package names are rejected before anything is touched (F10a fixed) *)
Theorem invalid_rejected : forall c s,
  valid_pkgs c = false -> generate c None s = (s, Invalid) /\ plan c None s = [].
Proof.
  intros c s H. unfold generate, plan, plan_main, plan_final, run_stages. rewrite H. simpl.
  rewrite andb_false_r. simpl. split; reflexivity.
Qed.

(* ---------- regressions: the witnesses of the fixed findings now meet the property ---------- *)
Lemma existsb_path_In : forall p l, existsb (path_eqb p) l = true -> In p l.
Proof.
  intros p l H. apply existsb_exists in H. destruct H as [x [Hin E]]. apply list_eqb_str_eq in E. subst. exact Hin.
Qed.

(* F10a: output_package "." with force is rejected; the sentinel survives *)
Lemma fixed_F10a :
  valid_pkgs cfg_F10a = false /\ generate cfg_F10a None fs0 = (fs0, Invalid) /\ touched fs0 (plan cfg_F10a None fs0) = [].
Proof. repeat split; vm_compute; reflexivity. Qed.

(* F10b: post-processing started from the project root, no force, existing package: nothing changes *)
Lemma fixed_F10b :
  valid_pkgs cfg_F10b = true /\ post cfg_F10b = true /\ cwd cfg_F10b = root cfg_F10b
  /\ restrict_root cfg_F10b (fst (generate cfg_F10b None fs1)) = restrict_root cfg_F10b fs1
  /\ snd (generate cfg_F10b None fs1) = DiffFound.
Proof. repeat split; vm_compute; reflexivity. Qed.

(* ---------- non-vacuity ---------- *)
(* nested layout a.b.client with core a.core; existing tree with a locally edited client.py *)
Definition s_b : str := [98].
Definition cfg_ok : config :=
  {| root := pR; tmp := pT; cwd := pB; out_pkg := [s_a; s_b; s_client]; core_pkg := Some [s_a; s_core];
     force := false; post := true; tags := [s_pets]; models := [s_pet] |}.
Definition fs_ok : fs :=
  fs0 ++ [(pR ++ [s_a], Dir); (pR ++ [s_a; s_init], File 0); (pR ++ [s_a; s_b], Dir);
          (pR ++ [s_a; s_b; s_client], Dir); (pR ++ [s_a; s_b; s_client; s_client_py], File 1);
          (pR ++ [s_a; s_core], Dir); (pR ++ [s_a; s_core; s_config], File 0)].
Lemma guard_nonvacuous :
  valid_pkgs cfg_ok = true /\ wf_tmp cfg_ok = true
  /\ exists_b fs_ok (out_dir cfg_ok) = true
  /\ snd (generate cfg_ok None fs_ok) = DiffFound
  /\ snd (generate cfg_ok (Some Models) fs_ok) = Fail Models
  /\ (length (touched fs_ok (plan cfg_ok None fs_ok)) > 40)%nat
  /\ lookup pT (fst (generate cfg_ok (Some Models) fs_ok)) = None.
Proof. vm_compute. repeat split; auto; lia. Qed.
(* the same configuration with force: 40+ paths are written under the root, all allowed *)
Definition cfg_ok_force : config :=
  {| root := pR; tmp := pT; cwd := pB; out_pkg := [s_a; s_b; s_client]; core_pkg := Some [s_a; s_core];
     force := true; post := true; tags := [s_pets]; models := [s_pet] |}.
Lemma guard_nonvacuous_force :
  valid_pkgs cfg_ok_force = true /\ wf_tmp cfg_ok_force = true
  /\ snd (generate cfg_ok_force None fs_ok) = Ok
  /\ (length (filter (sunder pR) (touched fs_ok (plan cfg_ok_force None fs_ok))) > 40)%nat
  /\ lookup (pR ++ [s_sentinel]) (fst (generate cfg_ok_force None fs_ok)) = Some (File 1).
Proof. vm_compute. repeat split; auto; lia. Qed.

(* ---------- a failure at ANY point: only a prefix of the planned operations is carried out ---------- *)
Lemma Forall_firstn : forall {A} (P : A -> Prop) n l, Forall P l -> Forall P (firstn n l).
Proof.
  intros A P n. induction n as [|n IH]; intros l H; simpl; [constructor|].
  destruct l as [|x l]; [constructor|]. inversion H; subst. constructor; auto.
Qed.

Lemma touched_firstn : forall pl n s p, In p (touched s (firstn n pl)) -> In p (touched s pl).
Proof.
  induction pl as [|[st op] pl IH]; intros n s p H; destruct n; simpl in *; try contradiction.
  apply in_app_or in H. apply in_or_app. destruct H as [H|H]; [left; exact H | right; eapply IH; exact H].
Qed.

(* the diff path interrupted after n operations, then the TemporaryDirectory clean-up *)
Theorem noforce_untouched_anywhere : forall c k s n,
  wf_tmp c = true ->
  restrict_root c (exec (exec s (firstn n (plan_main c true k))) [(Final, Rmtree (tmp c))]) = restrict_root c s.
Proof.
  intros c k s n Hw. unfold restrict_root.
  change (fun kv : path * entry => under (root c) (fst kv)) with (inr (root c)).
  pose proof (plan_diff_outside c k Hw) as HF. apply Forall_app in HF. destruct HF as [HF1 _].
  rewrite exec_outside.
  - apply exec_outside. apply Forall_firstn. exact HF1.
  - constructor; [|constructor]. simpl. destruct (wf_tmp_split c Hw) as [H1 H2]. split; assumption.
Qed.

Theorem contained_anywhere : forall c k s n p,
  wf_tmp c = true ->
  In p (touched s (firstn n (plan c k s))) -> sunder (root c) p = true -> allowed c p = true.
Proof. intros c k s n p Hw Hin. apply (contained c k s p Hw). eapply touched_firstn. exact Hin. Qed.

(* ---------- failures inside a stage (the OS refuses one creation) ---------- *)
Lemma Forall_skipn : forall {A} (P : A -> Prop) n l, Forall P l -> Forall P (skipn n l).
Proof.
  intros A P n. induction n as [|n IH]; intros l H; simpl; [exact H|].
  destruct l as [|x l]; [constructor|]. inversion H; subst. auto.
Qed.

Lemma io_plan_Forall : forall (Q : fs_op -> Prop) name c,
  (forall p q, Q (Mkdirs p) -> In q (prefixes p) -> Q (Mkdirs (removelast q))) ->
  (forall st, Forall Q (error_log_ops c st)) ->
  forall pl s, Forall (fun so => Q (snd so)) pl -> Forall (fun so => Q (snd so)) (io_ops (io_plan name c s pl)).
Proof.
  intros Q name c Hcl Hlog pl. induction pl as [|[st op] pl IH]; intros s H; simpl; [constructor|].
  inversion H as [|? ? H1 H2]; subst. simpl in H1.
  destruct (io_cut name s op) as [part|] eqn:Ecut.
  - simpl.
    + apply Forall_forall. intros [st' op'] Hin. apply in_map_iff in Hin. destruct Hin as [op'' [E Hin]].
      inversion E; subst. simpl. apply in_app_or in Hin. destruct Hin as [Hin|Hin].
      * destruct op as [p t|p t|p|p|p|p|p|p]; simpl in Ecut.
        -- destruct (base_matches name p); inversion Ecut; subst; contradiction.
        -- destruct (negb (exists_b s p) && base_matches name p); inversion Ecut; subst; contradiction.
        -- discriminate.
        -- destruct (find (fun q => negb (exists_b s q) && base_matches name q) (prefixes p)) as [q|] eqn:Ef;
             [|discriminate]. inversion Ecut; subst. destruct Hin as [Hin|[]]. subst.
           apply find_some in Ef. destruct Ef as [Ef _]. eapply Hcl; eauto.
        -- discriminate.
        -- discriminate.
        -- destruct (exists_b s mem_slot && base_matches name p); inversion Ecut; subst; contradiction.
        -- discriminate.
      * pose proof (Hlog st') as HL. rewrite Forall_forall in HL. apply HL. exact Hin.
  - simpl. constructor; [exact H1 | apply IH; exact H2].
Qed.

Lemma prefixes_removelast_in : forall p q p', In q (prefixes p) -> In p' (prefixes (removelast q)) -> In p' (prefixes p).
Proof.
  intros p q p' Hq Hp'. apply In_prefixes in Hq. destruct Hq as [_ Hq]. apply In_prefixes in Hp'. destruct Hp' as [Hn Hp'].
  apply In_prefixes. split; [exact Hn|].
  eapply under_trans; [exact Hp'|]. eapply under_trans; [apply under_removelast | exact Hq].
Qed.

Lemma outside_closed : forall r p q, op_outside r (Mkdirs p) -> In q (prefixes p) -> op_outside r (Mkdirs (removelast q)).
Proof.
  intros r p q H Hq. simpl in *. apply In_prefixes in Hq. destruct Hq as [_ Hq].
  eapply under_false_prefix; [exact H|]. eapply under_trans; [apply under_removelast | exact Hq].
Qed.

Lemma wf_log_split : forall c, wf_log c = true ->
  under (root c) (sys_tmp c ++ [s_error_log]) = false /\ under (root c) (sys_tmp c ++ [s_mocks_error_log]) = false.
Proof.
  intros c H. unfold wf_log in H. apply andb_true_iff in H. destruct H as [H1 H2].
  apply negb_true_iff in H1. apply negb_true_iff in H2. auto.
Qed.

Lemma error_log_outside : forall c st, wf_log c = true -> Forall (op_outside (root c)) (error_log_ops c st).
Proof.
  intros c st H. destruct (wf_log_split c H) as [H1 H2].
  destruct st; simpl; repeat constructor; assumption.
Qed.

Theorem noforce_untouched_io : forall c name s,
  wf_tmp c = true -> wf_log c = true ->
  force c = false -> exists_b s (out_dir c) = true ->
  restrict_root c (fst (generate_io c name s)) = restrict_root c s.
Proof.
  intros c name s Hw Hl Hf He. unfold generate_io. cbn [fst]. unfold plan_io, io_run.
  assert (Hd : diff_mode c s = true) by (unfold diff_mode; rewrite Hf, He; reflexivity).
  rewrite Hd. unfold restrict_root.
  change (fun kv : path * entry => under (root c) (fst kv)) with (inr (root c)).
  apply exec_outside. apply Forall_app. split.
  - apply (io_plan_Forall (op_outside (root c)) name c).
    + intros p q. apply outside_closed.
    + intro st. apply error_log_outside. exact Hl.
    + pose proof (plan_diff_outside c None Hw) as HF. apply Forall_app in HF. apply HF.
  - destruct (true && valid_pkgs c); [|constructor].
    constructor; [|constructor]. simpl. destruct (wf_tmp_split c Hw) as [H1 H2]. split; assumption.
Qed.

(* semantic placement: whatever the operation touches strictly below the root is allowed *)
Definition sem_ok (c : config) (op : fs_op) : Prop :=
  forall s p, In p (op_touched s op) -> sunder (root c) p = true -> allowed c p = true.

Lemma outside_sem_ok : forall c op, op_outside (root c) op -> sem_ok c op.
Proof.
  intros c op H s p Hin Hs. pose proof (touched_outside _ _ _ _ H Hin) as Hu.
  unfold sunder in Hs. rewrite Hu in Hs. discriminate.
Qed.

Lemma abs_sem_ok : forall c op, abs_ok c op -> sem_ok c op.
Proof.
  intros c op [H|[rop [E Hr]]]; [apply outside_sem_ok; exact H|].
  subst. intros s p Hin Hs. eapply touched_ok; eauto.
Qed.

Lemma sem_ok_closed : forall c p q, sem_ok c (Mkdirs p) -> In q (prefixes p) -> sem_ok c (Mkdirs (removelast q)).
Proof.
  intros c p q H Hq s p' Hin Hs. apply (H s p'); [|exact Hs]. simpl in *.
  apply filter_In in Hin. destruct Hin as [Hin Hm]. apply filter_In. split; [|exact Hm].
  eapply prefixes_removelast_in; eauto.
Qed.

Lemma touched_plan_sem : forall c pl s p, Forall (fun so => sem_ok c (snd so)) pl ->
  In p (touched s pl) -> sunder (root c) p = true -> allowed c p = true.
Proof.
  intros c pl. induction pl as [|[st op] pl IH]; intros s p H Hin Hs; simpl in *; [contradiction|].
  inversion H as [|? ? H1 H2]; subst. apply in_app_or in Hin. destruct Hin as [Hin|Hin].
  - apply (H1 s p Hin Hs).
  - eapply IH; eauto.
Qed.

Lemma plan_main_sem : forall c d, wf_tmp c = true ->
  Forall (fun so => sem_ok c (snd so)) (plan_main c d None).
Proof.
  intros c d Hw. destruct d.
  - pose proof (plan_diff_outside c None Hw) as HF. apply Forall_app in HF. destruct HF as [HF _].
    eapply Forall_impl; [|exact HF]. intros so. apply outside_sem_ok.
  - unfold plan_main. apply Forall_forall. intros [st op] Hso. apply in_flat_map in Hso.
    destruct Hso as [st' [Hst Hop]]. apply in_map_iff in Hop. destruct Hop as [op' [E Hop]].
    inversion E; subst. simpl. apply abs_sem_ok.
    pose proof (effects_direct_ok c st (before_incl _ _ _ Hst)) as HF.
    rewrite Forall_forall in HF. apply HF. exact Hop.
Qed.

Theorem contained_io : forall c name s p,
  wf_tmp c = true -> wf_log c = true ->
  In p (touched s (plan_io c name s)) -> sunder (root c) p = true -> allowed c p = true.
Proof.
  intros c name s p Hw Hl Hin Hs. eapply touched_plan_sem; [|exact Hin|exact Hs].
  unfold plan_io, io_run. apply Forall_app. split.
  - apply (io_plan_Forall (sem_ok c) name c).
    + intros p0 q. apply sem_ok_closed.
    + intro st. eapply Forall_impl; [|apply error_log_outside; exact Hl]. intro op. apply outside_sem_ok.
    + apply plan_main_sem; assumption.
  - destruct (diff_mode c s && valid_pkgs c); [|constructor]. constructor; [|constructor]. simpl. apply outside_sem_ok.
    simpl. destruct (wf_tmp_split c Hw) as [H1 H2]. split; assumption.
Qed.

(* a refused operation always makes the call raise (F10c fixed: nothing is swallowed) *)
Theorem io_raises : forall c name s,
  io_refused c name s = true -> exists st, snd (generate_io c name s) = FailIO st.
Proof.
  intros c name s Hr. unfold io_refused in Hr. unfold generate_io. cbn [snd].
  destruct (io_hit (io_run c name s)) as [st|]; [exists st; reflexivity | discriminate].
Qed.

(* F10c: embedded core, no force, existing tree equal to what would be generated; the OS refuses models/pet.tmp *)
Definition cfg_F10c : config :=
  {| root := pR; tmp := pT; cwd := pB; out_pkg := [s_a; s_client]; core_pkg := None; force := false; post := false;
     tags := [s_pets]; models := [s_pet] |}.
Definition fs_F10c : fs :=
  fs0 ++ [(pR ++ [s_a], Dir); (pR ++ [s_a; s_init], File 0); (pR ++ [s_a; s_client], Dir);
          (pR ++ [s_a; s_client; s_client_py], File 0); (pR ++ [s_a; s_client; s_models], Dir);
          (pR ++ [s_a; s_client; s_models; s_pet ++ s_dot_py], File 0)].
(* regression: the refused write of models/pet.tmp now makes the non-force call raise, tree untouched *)
Lemma fixed_F10c :
  valid_pkgs cfg_F10c = true /\ force cfg_F10c = false /\ exists_b fs_F10c (out_dir cfg_F10c) = true
  /\ io_refused cfg_F10c (s_pet ++ s_dot_tmp) fs_F10c = true
  /\ snd (generate_io cfg_F10c (s_pet ++ s_dot_tmp) fs_F10c) = FailIO Models
  /\ restrict_root cfg_F10c (fst (generate_io cfg_F10c (s_pet ++ s_dot_tmp) fs_F10c)) = restrict_root cfg_F10c fs_F10c.
Proof. repeat split; vm_compute; reflexivity. Qed.

(* non-vacuity of the inner-failure theorems: client.py refused in the direct path -> error log, FailIO Client *)
Lemma io_nonvacuous :
  valid_pkgs cfg_ok_force = true /\ wf_log cfg_ok_force = true
  /\ snd (generate_io cfg_ok_force s_client_py fs_ok) = FailIO Client
  /\ lookup (sys_tmp cfg_ok_force ++ [s_error_log]) (fst (generate_io cfg_ok_force s_client_py fs_ok)) = Some (File 1)
  /\ snd (generate_io cfg_ok s_mock_client fs_ok) = FailIO Mocks
  /\ (length (filter (sunder pR) (touched fs_ok (plan_io cfg_ok_force s_client_py fs_ok))) > 30)%nat.
Proof. repeat split; vm_compute; try reflexivity; lia. Qed.

(* ---------- the process is killed between two file operations (no clean-up runs) ---------- *)
Theorem noforce_untouched_killed : forall c k s n,
  wf_tmp c = true ->
  restrict_root c (exec s (firstn n (plan_main c true k))) = restrict_root c s.
Proof.
  intros c k s n Hw. unfold restrict_root.
  change (fun kv : path * entry => under (root c) (fst kv)) with (inr (root c)).
  pose proof (plan_diff_outside c k Hw) as HF. apply Forall_app in HF. destruct HF as [HF1 _].
  apply exec_outside. apply Forall_firstn. exact HF1.
Qed.

Theorem noforce_untouched_killed_io : forall c name s n,
  wf_tmp c = true -> wf_log c = true ->
  force c = false -> exists_b s (out_dir c) = true ->
  restrict_root c (exec s (firstn n (plan_io c name s))) = restrict_root c s.
Proof.
  intros c name s n Hw Hl Hf He. unfold plan_io, io_run.
  assert (Hd : diff_mode c s = true) by (unfold diff_mode; rewrite Hf, He; reflexivity).
  rewrite Hd. unfold restrict_root.
  change (fun kv : path * entry => under (root c) (fst kv)) with (inr (root c)).
  apply exec_outside. apply Forall_firstn. apply Forall_app. split.
  - apply (io_plan_Forall (op_outside (root c)) name c).
    + intros p q. apply outside_closed.
    + intro st. apply error_log_outside. exact Hl.
    + pose proof (plan_diff_outside c None Hw) as HF. apply Forall_app in HF. apply HF.
  - destruct (true && valid_pkgs c); [|constructor].
    constructor; [|constructor]. simpl. destruct (wf_tmp_split c Hw) as [H1 H2]. split; assumption.
Qed.

(* ---------- the environment assumptions, reduced to more primitive facts ---------- *)
(* every ancestor of an existing path exists *)
Definition closed_fs (s : fs) : Prop :=
  forall p q, exists_b s p = true -> q <> [] -> under q p = true -> exists_b s q = true.

Record env_ok (c : config) (s : fs) : Prop := {
  env_tmpdir : under (root c) (sys_tmp c) = false;   (* tempfile.gettempdir() is not the project root nor inside it *)
  env_child  : tmp c <> [];                          (* mkdtemp: a child of gettempdir() ... *)
  env_fresh  : exists_b s (tmp c) = false;           (* ... that did not exist before *)
  env_root   : lookup (root c) s = Some Dir;         (* the project root is an existing directory *)
  env_closed : closed_fs s;
  env_log1   : lookup (sys_tmp c ++ [s_error_log]) s <> Some Dir;        (* the log files are not directories *)
  env_log2   : lookup (sys_tmp c ++ [s_mocks_error_log]) s <> Some Dir
}.

Lemma under_snoc : forall r a x, under r (a ++ [x]) = true -> under r a = true \/ r = a ++ [x].
Proof.
  induction r as [|y r IH]; intros a x H.
  - left. reflexivity.
  - destruct a as [|z a]; simpl in *.
    + apply andb_true_iff in H. destruct H as [E H]. apply str_eqb_eq in E. subst.
      destruct r; [right; reflexivity | discriminate].
    + apply andb_true_iff in H. destruct H as [E H]. apply str_eqb_eq in E. subst. rewrite str_eqb_refl. simpl.
      destruct (IH a x H) as [H1|H1]; [left; exact H1 | right; subst; reflexivity].
Qed.

Lemma env_wf : forall c s, env_ok c s -> wf_tmp c = true /\ wf_log c = true.
Proof.
  intros c s [Ht Hc Hf Hr Hcl Hl1 Hl2].
  assert (Hex : exists_b s (root c) = true) by (unfold exists_b; rewrite Hr; reflexivity).
  assert (Htmp : tmp c = sys_tmp c ++ [last (tmp c) []]) by (unfold sys_tmp; apply app_removelast_last; exact Hc).
  assert (Hlog : forall nm, lookup (sys_tmp c ++ [nm]) s <> Some Dir -> under (root c) (sys_tmp c ++ [nm]) = false).
  { intros nm Hnm. destruct (under (root c) (sys_tmp c ++ [nm])) eqn:E; [|reflexivity].
    destruct (under_snoc _ _ _ E) as [H|H]; [congruence|]. rewrite <- H in Hnm. congruence. }
  split.
  - unfold wf_tmp. apply andb_true_iff. split; apply negb_true_iff.
    + destruct (under (root c) (tmp c)) eqn:E; [|reflexivity]. rewrite Htmp in E.
      destruct (under_snoc _ _ _ E) as [H|H]; [congruence|].
      rewrite <- Htmp in H. rewrite H in Hex. congruence.
    + destruct (under (tmp c) (root c)) eqn:E; [|reflexivity].
      rewrite (Hcl (root c) (tmp c) Hex Hc E) in Hf. discriminate.
  - unfold wf_log. rewrite (Hlog _ Hl1), (Hlog _ Hl2). reflexivity.
Qed.

Theorem noforce_untouched_env : forall c k s,
  env_ok c s -> force c = false -> exists_b s (out_dir c) = true ->
  restrict_root c (fst (generate c k s)) = restrict_root c s.
Proof. intros c k s He. destruct (env_wf c s He) as [Hw _]. apply noforce_untouched. exact Hw. Qed.

(* ---------- where the paths of the resulting file system come from ---------- *)
Definition paths (s : fs) : list path := map fst s.

Lemma paths_set : forall s q e p, In p (paths (set s q e)) -> p = q \/ In p (paths s).
Proof.
  induction s as [|[q' e'] s IH]; intros q e p H; simpl in *.
  - destruct H as [H|[]]. left. auto.
  - destruct (path_eqb q q') eqn:E; simpl in H.
    + destruct H as [H|H]; auto.
    + destruct H as [H|H]; auto. apply IH in H. tauto.
Qed.

Lemma paths_filter : forall (f : path * entry -> bool) s p, In p (paths (filter f s)) -> In p (paths s).
Proof.
  intros f s p H. unfold paths in *. apply in_map_iff in H. destruct H as [kv [E H]].
  apply filter_In in H. destruct H as [H _]. apply in_map_iff. exists kv. auto.
Qed.

Lemma exists_b_In : forall s p, exists_b s p = true -> In p (paths s).
Proof.
  unfold exists_b. induction s as [|[q e] s IH]; intros p H; simpl in *; [discriminate|].
  destruct (path_eqb p q) eqn:E.
  - left. apply list_eqb_str_eq in E. auto.
  - right. apply IH. exact H.
Qed.

Lemma paths_mkdirs : forall l s p, In p (paths (fold_left mkdir1 l s)) -> In p (paths s) \/ In p l.
Proof.
  induction l as [|q l IH]; intros s p H; simpl in *; [left; exact H|].
  apply IH in H. destruct H as [H|H]; [|right; right; exact H].
  unfold mkdir1 in H. destruct (exists_b s q); [left; exact H|].
  unfold paths in H. rewrite map_app in H. apply in_app_or in H. destruct H as [H|[H|[]]]; [left; exact H|].
  right. left. exact H.
Qed.

Lemma apply_paths : forall s op p, In p (paths (apply_op s op)) ->
  In p (paths s) \/ In p (op_touched s op) \/ p = mem_slot.
Proof.
  intros s op p H. destruct op as [q t|q t|q|q|q|q|q|q]; simpl in *.
  - apply paths_set in H. destruct H as [H|H]; [right; left; left; auto | left; exact H].
  - destruct (exists_b s q); [left; exact H|].
    apply paths_set in H. destruct H as [H|H]; [right; left; left; auto | left; exact H].
  - left. eapply paths_filter. exact H.
  - apply paths_mkdirs in H. destruct H as [H|H]; [left; exact H|].
    destruct (exists_b s p) eqn:E; [left; apply exists_b_In; exact E|].
    right. left. apply filter_In. split; [exact H | rewrite E; reflexivity].
  - left. eapply paths_filter. exact H.
  - destruct (lookup q s).
    + apply paths_set in H. destruct H as [H|H]; [right; right; exact H | left; exact H].
    + left. eapply paths_filter. exact H.
  - unfold exists_b. destruct (lookup mem_slot s).
    + apply paths_set in H. destruct H as [H|H]; [right; left; left; auto | left; eapply paths_filter; exact H].
    + left. exact H.
  - left. exact H.
Qed.

Lemma exec_paths : forall pl s p, In p (paths (exec s pl)) ->
  In p (paths s) \/ In p (touched s pl) \/ p = mem_slot.
Proof.
  unfold exec. induction pl as [|[st op] pl IH]; intros s p H; simpl in *; [left; exact H|].
  apply IH in H. destruct H as [H|[H|H]].
  - apply apply_paths in H. destruct H as [H|[H|H]]; [left; exact H | right; left; apply in_or_app; left; exact H | right; right; exact H].
  - right. left. apply in_or_app. right. exact H.
  - right. right. exact H.
Qed.

Lemma generate_is_exec : forall c k s, fst (generate c k s) = exec s (plan c k s).
Proof. intros c k s. unfold generate, plan, exec. cbn [fst]. rewrite fold_left_app. reflexivity. Qed.

Lemma sunder_mem_slot : forall r, sunder r mem_slot = false.
Proof. intro r. unfold sunder, mem_slot. destruct r; reflexivity. Qed.

(* every path strictly below the root after a call was there before or is an allowed path of the call *)
Theorem generate_paths : forall c k s p,
  wf_tmp c = true ->
  In p (paths (fst (generate c k s))) -> sunder (root c) p = true ->
  In p (paths s) \/ allowed c p = true.
Proof.
  intros c k s p Hw Hin Hs. rewrite generate_is_exec in Hin. apply exec_paths in Hin.
  destruct Hin as [H|[H|H]].
  - left. exact H.
  - right. eapply contained; eauto.
  - subst. rewrite sunder_mem_slot in Hs. discriminate.
Qed.

(* ---------- the command line entry ---------- *)
(* a plain run (no --force) over an existing output package leaves the project untouched *)
Theorem cli_default_untouched : forall c a k s,
  wf_tmp c = true -> a_force a = None ->
  exists_b s (out_dir (cli_config c a)) = true ->
  restrict_root c (fst (generate (cli_config c a) k s)) = restrict_root c s.
Proof.
  intros c a k s Hw Hf He.
  change (restrict_root c) with (restrict_root (cli_config c a)).
  apply noforce_untouched; [exact Hw | simpl; rewrite Hf; reflexivity | exact He].
Qed.

Lemma cli_defaults : forall c a, a_force a = None -> a_no_postprocess a = None ->
  force (cli_config c a) = false /\ post (cli_config c a) = true /\ core_pkg (cli_config c a) <> None.
Proof. intros c a H1 H2. simpl. rewrite H1, H2. repeat split. discriminate. Qed.

(* ---------- post-processing targets ---------- *)
Theorem post_targets_allowed : forall c q,
  valid_pkgs c = true -> In q (post_targets c false) -> allowed c (root c ++ q) = true.
Proof.
  intros c q Hv Hq. pose proof (rel_effects_ok c Post (valid_wf c Hv)) as H. rewrite forallb_forall in H.
  apply (H (Rewrite q)). simpl. apply in_map. exact Hq.
Qed.
