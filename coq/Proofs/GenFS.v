(* C10 — proofs about Model/GenFS.v *)
From PG Require Import Lib.Strs Model.GenFS.

(* ---------- witnesses ---------- *)
Definition pR : path := [[82]].            (* project root "R" *)
Definition pT : path := [[84]].            (* temporary directory "T" *)
Definition pB : path := [[66]; [99; 119; 100]].   (* "B/cwd" *)
Definition s_sentinel : str := [83; 69; 78; 84; 73; 78; 69; 76].
Definition s_pets : str := [112; 101; 116; 115].
Definition s_pet : str := [112; 101; 116].
Definition s_a : str := [97].
Definition s_client : str := [99; 108; 105; 101; 110; 116].

Definition fs0 : fs := [(pR, Dir); (pR ++ [s_sentinel], File 1)].

(* F10a: output_package "." (split on dots: two empty components), force *)
Definition cfg_F10a : config :=
  {| root := pR; tmp := pT; cwd := pB; out_pkg := [[]; []]; core_pkg := None; force := true; post := false;
     tags := [s_pets]; models := [s_pet] |}.

(* F10b: non-force over an existing package, post-processing on, started from the project root *)
Definition cfg_F10b : config :=
  {| root := pR; tmp := pT; cwd := pR; out_pkg := [s_a; s_client]; core_pkg := None; force := false; post := true;
     tags := [s_pets]; models := [s_pet] |}.
Definition fs1 : fs :=
  fs0 ++ [(pR ++ [s_a], Dir); (pR ++ [s_a; s_init], File 0); (pR ++ [s_a; s_client], Dir);
          (pR ++ [s_a; s_client; s_client_py], File 1)].

(* ---------- paths ---------- *)
Lemma list_eqb_str_eq : forall a b : path, path_eqb a b = true <-> a = b.
Proof.
  unfold path_eqb. induction a as [|x a IH]; destruct b as [|y b]; simpl; split; intro H;
    try reflexivity; try discriminate.
  - apply andb_true_iff in H. destruct H as [H1 H2]. apply str_eqb_eq in H1. apply IH in H2. subst. reflexivity.
  - inversion H; subst. apply andb_true_iff. split; [apply str_eqb_refl | apply IH; reflexivity].
Qed.

Lemma path_eqb_refl : forall a, path_eqb a a = true.
Proof. intro a. apply list_eqb_str_eq. reflexivity. Qed.

Lemma under_refl : forall a, under a a = true.
Proof. induction a as [|x a IH]; simpl; [reflexivity|]. rewrite str_eqb_refl. exact IH. Qed.

Lemma under_app : forall a x, under a (a ++ x) = true.
Proof. induction a as [|y a IH]; intro x; simpl; [reflexivity|]. rewrite str_eqb_refl. apply IH. Qed.

Lemma under_trans : forall a b c, under a b = true -> under b c = true -> under a c = true.
Proof.
  induction a as [|x a IH]; intros b c H1 H2; simpl; [reflexivity|].
  destruct b as [|y b]; [discriminate|]. destruct c as [|z c]; [discriminate|].
  simpl in *. apply andb_true_iff in H1. destruct H1 as [E1 H1].
  apply andb_true_iff in H2. destruct H2 as [E2 H2].
  apply str_eqb_eq in E1. apply str_eqb_eq in E2. subst. rewrite str_eqb_refl. simpl. eapply IH; eauto.
Qed.

(* two prefixes of the same path are comparable *)
Lemma under_comparable : forall a b p, under a p = true -> under b p = true -> under a b = true \/ under b a = true.
Proof.
  induction a as [|x a IH]; intros b p Ha Hb.
  - left. reflexivity.
  - destruct b as [|y b]; [right; reflexivity|].
    destruct p as [|z p]; [discriminate|]. simpl in *.
    apply andb_true_iff in Ha. destruct Ha as [E1 Ha].
    apply andb_true_iff in Hb. destruct Hb as [E2 Hb].
    apply str_eqb_eq in E1. apply str_eqb_eq in E2. subst. rewrite str_eqb_refl. simpl.
    eapply IH; eauto.
Qed.

Lemma under_antisym : forall a b, under a b = true -> under b a = true -> a = b.
Proof.
  induction a as [|x a IH]; intros b H1 H2.
  - destruct b; [reflexivity | discriminate].
  - destruct b as [|y b]; [discriminate|]. simpl in *.
    apply andb_true_iff in H1. destruct H1 as [E1 H1].
    apply andb_true_iff in H2. destruct H2 as [_ H2].
    apply str_eqb_eq in E1. subst. f_equal. apply IH; auto.
Qed.

Lemma under_app_inv : forall r a b, under (r ++ a) (r ++ b) = under a b.
Proof. induction r as [|x r IH]; intros a b; simpl; [reflexivity|]. rewrite str_eqb_refl. apply IH. Qed.

Lemma under_exists : forall a p, under a p = true -> exists x, p = a ++ x.
Proof.
  induction a as [|y a IH]; intros p H.
  - exists p. reflexivity.
  - destruct p as [|z p]; [discriminate|]. simpl in H. apply andb_true_iff in H. destruct H as [E H].
    apply str_eqb_eq in E. subst. destruct (IH p H) as [x Hx]. exists x. simpl. f_equal. exact Hx.
Qed.

Lemma In_prefixes : forall p q, In q (prefixes p) <-> (q <> [] /\ under q p = true).
Proof.
  induction p as [|x p IH]; intro q; simpl.
  - split; [intros [] | intros [Hn Hu]]. destruct q; [congruence | discriminate].
  - split.
    + intros [H|H].
      * subst. split; [discriminate|]. simpl. rewrite str_eqb_refl. reflexivity.
      * apply in_map_iff in H. destruct H as [q' [Hq Hin]]. subst. split; [discriminate|].
        simpl. rewrite str_eqb_refl. simpl. apply IH in Hin. destruct q'; [reflexivity | apply Hin].
    + intros [Hn Hu]. destruct q as [|y q]; [congruence|]. simpl in Hu.
      apply andb_true_iff in Hu. destruct Hu as [E Hu]. apply str_eqb_eq in E. subst y.
      destruct q as [|z q]; [left; reflexivity|]. right. apply in_map_iff. exists (z :: q). split; [reflexivity|].
      apply IH. split; [discriminate | exact Hu].
Qed.

Lemma under_removelast : forall p, under (removelast p) p = true.
Proof.
  induction p as [|x p IH]; [reflexivity|]. destruct p as [|y p]; [reflexivity|].
  change (removelast (x :: y :: p)) with (x :: removelast (y :: p)).
  simpl under. rewrite str_eqb_refl. exact IH.
Qed.

(* ---------- operations that stay outside a directory r leave its content alone ---------- *)
Definition op_outside (r : path) (op : fs_op) : Prop :=
  match op with
  | Write p _ | WriteIfAbsent p _ | Remove p | Mkdirs p => under r p = false
  | Rmtree p => under r p = false /\ under p r = false
  end.

Definition inr (r : path) (kv : path * entry) : bool := under r (fst kv).

Lemma filter_set_outside : forall r s p e, under r p = false -> filter (inr r) (set s p e) = filter (inr r) s.
Proof.
  intros r s p e Hp. induction s as [|[q e'] s IH]; simpl.
  - unfold inr. simpl. rewrite Hp. reflexivity.
  - destruct (path_eqb p q) eqn:E; simpl.
    + apply list_eqb_str_eq in E. subst q. unfold inr. simpl. rewrite Hp. reflexivity.
    + rewrite IH. reflexivity.
Qed.

Lemma filter_filter_absorb : forall {A} (f g : A -> bool) l,
  (forall x, f x = true -> g x = true) -> filter f (filter g l) = filter f l.
Proof.
  intros A f g l H. induction l as [|x l IH]; simpl; [reflexivity|].
  destruct (g x) eqn:Eg; simpl.
  - rewrite IH. reflexivity.
  - destruct (f x) eqn:Ef; [apply H in Ef; congruence | exact IH].
Qed.

Lemma under_false_prefix : forall r q p, under r p = false -> under q p = true -> under r q = false.
Proof.
  intros r q p Hp Hq. destruct (under r q) eqn:E; [|reflexivity].
  rewrite (under_trans r q p E Hq) in Hp. discriminate.
Qed.

Lemma mkdirs_outside : forall r l s, (forall q, In q l -> under r q = false) ->
  filter (inr r) (fold_left mkdir1 l s) = filter (inr r) s.
Proof.
  intros r l. induction l as [|q l IH]; intros s H; simpl; [reflexivity|].
  rewrite IH by (intros q' Hq'; apply H; right; exact Hq').
  unfold mkdir1. destruct (exists_b s q); [reflexivity|].
  rewrite filter_app. simpl. unfold inr at 2. simpl. rewrite (H q (or_introl eq_refl)). apply app_nil_r.
Qed.

Lemma apply_outside : forall r s op, op_outside r op -> filter (inr r) (apply_op s op) = filter (inr r) s.
Proof.
  intros r s op H. destruct op as [p t|p t|p|p|p]; simpl in *.
  - apply filter_set_outside. exact H.
  - destruct (exists_b s p); [reflexivity | apply filter_set_outside; exact H].
  - apply filter_filter_absorb. intros [q e] Hq. unfold inr in Hq. simpl in *.
    destruct (path_eqb q p) eqn:E; [|reflexivity]. apply list_eqb_str_eq in E. subst. congruence.
  - apply mkdirs_outside. intros q Hq. apply In_prefixes in Hq. destruct Hq as [_ Hq].
    eapply under_false_prefix; eauto.
  - destruct H as [H1 H2]. apply filter_filter_absorb. intros [q e] Hq. unfold inr in Hq. simpl in *.
    destruct (under p q) eqn:E; [|reflexivity].
    destruct (under_comparable r p q Hq E) as [C|C]; congruence.
Qed.

Lemma touched_outside : forall r s op p, op_outside r op -> In p (op_touched s op) -> under r p = false.
Proof.
  intros r s op p H Hin. destruct op as [q t|q t|q|q|q]; simpl in *.
  - destruct Hin as [Hin|[]]. subst. exact H.
  - destruct (exists_b s q); [contradiction|]. destruct Hin as [Hin|[]]. subst. exact H.
  - destruct Hin as [Hin|[]]. subst. exact H.
  - apply filter_In in Hin. destruct Hin as [Hin _]. apply In_prefixes in Hin. destruct Hin as [_ Hin].
    eapply under_false_prefix; eauto.
  - destruct H as [H1 H2]. apply in_map_iff in Hin. destruct Hin as [[p' e] [Hp Hin]]. simpl in Hp. subst p'.
    apply filter_In in Hin. destruct Hin as [_ Hu]. simpl in Hu.
    destruct (under r p) eqn:E; [|reflexivity].
    destruct (under_comparable r q p E Hu) as [C|C]; congruence.
Qed.

Lemma exec_outside : forall r pl s, Forall (fun so => op_outside r (snd so)) pl ->
  filter (inr r) (exec s pl) = filter (inr r) s.
Proof.
  intros r pl. unfold exec. induction pl as [|[st op] pl IH]; intros s H; simpl; [reflexivity|].
  inversion H as [|? ? H1 H2]; subst. rewrite IH by exact H2. apply apply_outside. exact H1.
Qed.

Lemma touched_all_outside : forall r pl s p, Forall (fun so => op_outside r (snd so)) pl ->
  In p (touched s pl) -> under r p = false.
Proof.
  intros r pl. induction pl as [|[st op] pl IH]; intros s p H Hin; simpl in *; [contradiction|].
  inversion H as [|? ? H1 H2]; subst. apply in_app_or in Hin. destruct Hin as [Hin|Hin].
  - eapply touched_outside; eauto.
  - eapply IH; eauto.
Qed.

(* ---------- in the diff path every operation is outside the project root ---------- *)
Lemma disjoint_app : forall r t x, under r t = false -> under t r = false -> under r (t ++ x) = false.
Proof.
  intros r t x H1 H2. destruct (under r (t ++ x)) eqn:E; [|reflexivity].
  destruct (under_comparable r t (t ++ x) E (under_app t x)) as [C|C]; congruence.
Qed.

Lemma rebase_outside : forall r t op, under r t = false -> under t r = false -> op_outside r (rebase t op).
Proof.
  intros r t op H1 H2. destruct op as [p n|p n|p|p|p]; simpl; try (apply disjoint_app; assumption).
  split; [apply disjoint_app; assumption|].
  destruct (under (t ++ p) r) eqn:E; [|reflexivity].
  rewrite (under_trans t (t ++ p) r (under_app t p) E) in H2. discriminate.
Qed.

Lemma before_incl : forall k l st, In st (before k l) -> In st l.
Proof.
  intros k l. induction l as [|x l IH]; intros st H; simpl in *; [contradiction|].
  destruct k as [f|].
  - destruct (stage_eqb f x); [contradiction|]. destruct H as [H|H]; auto.
  - destruct H as [H|H]; auto.
Qed.

Lemma Post_in_stages : forall d p, In Post (stages d p) -> p = true.
Proof.
  intros d p H. destruct p; [reflexivity|]. destruct d; simpl in H;
    repeat (destruct H as [H|H]; [discriminate|]); contradiction.
Qed.

Lemma wf_tmp_split : forall c, wf_tmp c = true -> under (root c) (tmp c) = false /\ under (tmp c) (root c) = false.
Proof.
  intros c H. unfold wf_tmp in H. apply andb_true_iff in H. destruct H as [H1 H2].
  apply negb_true_iff in H1. apply negb_true_iff in H2. auto.
Qed.

Lemma guard_F10b_post : forall c, guard_F10b c = true -> post c = true ->
  under (root c) (cwd c ++ [s_ruff_cache]) = false.
Proof.
  intros c H Hp. unfold guard_F10b in H. rewrite Hp in H. simpl in H. apply negb_true_iff in H. exact H.
Qed.

Lemma effects_diff_outside : forall c st, wf_tmp c = true -> guard_F10b c = true ->
  In st (stages true (post c)) ->
  Forall (fun op => op_outside (root c) op) (effects c true st).
Proof.
  intros c st Hw Hg Hin. destruct (wf_tmp_split c Hw) as [H1 H2].
  assert (Hgen : Forall (fun op => op_outside (root c) op) (map (rebase (tmp c)) (rel_effects c true st))).
  { apply Forall_forall. intros op Hop. apply in_map_iff in Hop. destruct Hop as [op' [E _]]. subst.
    apply rebase_outside; assumption. }
  destruct st; try exact Hgen.
  (* Post *)
  simpl. constructor; [|constructor]. simpl. apply guard_F10b_post; [exact Hg|].
  eapply Post_in_stages. exact Hin.
Qed.

Lemma plan_diff_outside : forall c k, wf_tmp c = true -> guard_F10b c = true ->
  Forall (fun so => op_outside (root c) (snd so)) (plan_main c true k ++ plan_final c true k).
Proof.
  intros c k Hw Hg. apply Forall_app. split.
  - unfold plan_main. apply Forall_forall. intros [st op] Hin. apply in_flat_map in Hin.
    destruct Hin as [st' [Hst Hin]]. apply in_map_iff in Hin. destruct Hin as [op' [E Hop]].
    inversion E; subst. simpl.
    pose proof (effects_diff_outside c st Hw Hg (before_incl _ _ _ Hst)) as HF.
    rewrite Forall_forall in HF. apply HF. exact Hop.
  - unfold plan_final. destruct (true && existsb (stage_eqb Setup) (before k (stages true (post c)))); [|constructor].
    constructor; [|constructor]. simpl. destruct (wf_tmp_split c Hw) as [H1 H2]. split; assumption.
Qed.

(* C10_noforce *)
Theorem noforce_untouched : forall c k s,
  wf_tmp c = true -> guard_F10b c = true ->
  force c = false -> exists_b s (out_dir c) = true ->
  restrict_root c (fst (generate c k s)) = restrict_root c s.
Proof.
  intros c k s Hw Hg Hf He. unfold generate. cbn [fst].
  assert (Hd : diff_mode c s = true) by (unfold diff_mode; rewrite Hf, He; reflexivity).
  rewrite Hd. unfold restrict_root.
  change (fun kv : path * entry => under (root c) (fst kv)) with (inr (root c)).
  pose proof (plan_diff_outside c k Hw Hg) as HF. apply Forall_app in HF. destruct HF as [HF1 HF2].
  rewrite (exec_outside _ _ _ HF2). apply exec_outside. exact HF1.
Qed.
