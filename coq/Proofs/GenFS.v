(* C10 — proofs about Model/GenFS.v *)
From PG Require Import Lib.Strs Model.GenFS.

(* ---------- witnesses ---------- *)
Definition pR : path := [[82]].            (* project root "R" *)
Definition pT : path := [[84]].            (* temporary directory "T" *)
Definition pB : path := [[66]; [99; 119; 100]].   (* "B/cwd" *)
Definition s_sentinel : str := [83; 69; 78; 84; 73; 78; 69; 76].
Definition s_pets : str := [112; 101; 116; 115].
Definition s_pet : str := [112; 101; 116].
Definition s_a : str := [97].
Definition s_client : str := [99; 108; 105; 101; 110; 116].

Definition fs0 : fs := [(pR, Dir); (pR ++ [s_sentinel], File 1)].

(* F10a: output_package "." (split on dots: two empty components), force *)
Definition cfg_F10a : config :=
  {| root := pR; tmp := pT; cwd := pB; out_pkg := [[]; []]; core_pkg := None; force := true; post := false;
     tags := [s_pets]; models := [s_pet] |}.

(* F10b: non-force over an existing package, post-processing on, started from the project root *)
Definition cfg_F10b : config :=
  {| root := pR; tmp := pT; cwd := pR; out_pkg := [s_a; s_client]; core_pkg := None; force := false; post := true;
     tags := [s_pets]; models := [s_pet] |}.
Definition fs1 : fs :=
  fs0 ++ [(pR ++ [s_a], Dir); (pR ++ [s_a; s_init], File 0); (pR ++ [s_a; s_client], Dir);
          (pR ++ [s_a; s_client; s_client_py], File 1)].
