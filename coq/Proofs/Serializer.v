(* C16 — proofs about Model/Serializer.v *)
From PG Require Import Lib.Strs Model.Converter Model.Serializer.

(* F16a: a two-dataclass reference cycle.  cattrs never stops: the walk fails for EVERY fuel. *)
Definition h_F16a : heap := [SData [([98], 1%nat)]; SData [([97], 0%nat)]].

Lemma walk_F16a : forall fuel r, (r = 0 \/ r = 1)%nat -> cattrs_walk fuel h_F16a r = Err.
Proof.
  induction fuel as [|f IH]; intros r Hr; [reflexivity|].
  destruct Hr as [-> | ->]; cbn [cattrs_walk deref nth h_F16a map_result snd bind].
  - rewrite (IH 1%nat) by (right; reflexivity). reflexivity.
  - rewrite (IH 0%nat) by (left; reflexivity). reflexivity.
Qed.

Lemma refuted_F16a :
  guard_F16a h_F16a 0 = false /\ forall fuel, ~ serializer_ok (serialize fuel h_F16a [] 0).
Proof.
  split; [vm_compute; reflexivity|].
  intros fuel [j [H _]]. destruct fuel as [|f]; [discriminate|].
  cbn [serialize deref nth h_F16a existsb] in H.
  rewrite walk_F16a in H by (left; reflexivity). discriminate.
Qed.
