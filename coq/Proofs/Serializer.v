(* C16 — proofs about Model/Serializer.v *)
From PG Require Import Lib.Strs Model.Converter Model.Serializer.

(* F16a: a two-dataclass reference cycle.  cattrs never stops: the walk fails for EVERY fuel. *)
Definition h_F16a : heap := [SData [([98], 1%nat)]; SData [([97], 0%nat)]].

Lemma walk_F16a : forall fuel r, (r = 0 \/ r = 1)%nat -> cattrs_walk fuel h_F16a r = Err.
Proof.
  induction fuel as [|f IH]; intros r Hr; [reflexivity|].
  destruct Hr as [-> | ->]; cbn [cattrs_walk deref nth h_F16a map_result snd bind].
  - rewrite (IH 1%nat) by (right; reflexivity). reflexivity.
  - rewrite (IH 0%nat) by (left; reflexivity). reflexivity.
Qed.

Lemma refuted_F16a :
  guard_F16a h_F16a 0 = false /\ forall fuel, ~ serializer_ok (serialize fuel h_F16a [] 0).
Proof.
  split; [vm_compute; reflexivity|].
  intros fuel [j [H _]]. destruct fuel as [|f]; [discriminate|].
  cbn [serialize deref nth h_F16a existsb] in H.
  rewrite walk_F16a in H by (left; reflexivity). discriminate.
Qed.

(* ======================================================================================
   Under the guard: on a topologically ordered heap (every stored reference points to a smaller
   index — hence acyclic) whose scalar cells hold scalars, serialize terminates with JSON that has
   no null-valued key, from every root and every visited set.
   ====================================================================================== *)
From Coq Require Import Lia.
From PG Require Import Proofs.Converter.

Definition scalar_json (j : json) : bool :=
  match j with JBool _ | JInt _ | JFloat _ | JStr _ => true | _ => false end.
Definition scalars_ok (h : heap) : bool :=
  forallb (fun o => match o with SScalar j => scalar_json j | _ => true end) h.

Lemma ranked_from_refs : forall h i r x,
  ranked_from i h = true -> (r < length h)%nat -> In x (refs (nth r h SNone)) -> (x < i + r)%nat.
Proof.
  induction h as [|o h IH]; intros i r x Hr Hlt Hin; [cbn in Hlt; lia|].
  cbn [ranked_from] in Hr. apply andb_true_iff in Hr as [Ho Hr].
  destruct r as [|r]; cbn [nth] in Hin.
  - rewrite forallb_forall in Ho. specialize (Ho x Hin). apply Nat.ltb_lt in Ho. lia.
  - cbn [length] in Hlt. specialize (IH (S i) r x Hr ltac:(lia) Hin). lia.
Qed.

Lemma ranked_refs : forall h r x, ranked h = true -> In x (refs (deref h r)) -> (x < r)%nat.
Proof.
  intros h r x Hr Hin. unfold deref in Hin.
  destruct (Nat.lt_ge_cases r (length h)) as [Hlt|Hge].
  - apply (ranked_from_refs h 0 r x Hr Hlt Hin).
  - rewrite nth_overflow in Hin by lia. destruct Hin.
Qed.

Lemma map_result_exists : forall {A B} (f : A -> result B) (P : B -> Prop) l,
  (forall x, In x l -> exists y, f x = Ok y /\ P y) -> exists l', map_result f l = Ok l' /\ Forall P l'.
Proof.
  intros A B f P. induction l as [|x l IH]; intro H.
  - exists []. split; [reflexivity | constructor].
  - destruct (H x (or_introl eq_refl)) as [y [Hy Py]].
    destruct IH as [l' [Hl Pl]]; [intros z Hz; apply H; right; exact Hz|].
    exists (y :: l'). rewrite map_result_cons, Hy, Hl. split; [reflexivity | constructor; assumption].
Qed.

Lemma walk_total : forall h, ranked h = true ->
  forall r fuel, (r < fuel)%nat -> exists j, cattrs_walk fuel h r = Ok j.
Proof.
  intros h Hr. induction r as [r IH] using lt_wf_ind. intros fuel Hf.
  destruct fuel as [|f]; [lia|]. cbn [cattrs_walk].
  destruct (deref h r) as [| j | items | kvs | kvs] eqn:Ed; try (eexists; reflexivity).
  - destruct (map_result_exists (cattrs_walk f h) (fun _ => True) items) as [l [Hl _]].
    + intros x Hx. assert (Hlt : (x < r)%nat) by (apply (ranked_refs h r x Hr); rewrite Ed; exact Hx).
      destruct (IH x Hlt f ltac:(lia)) as [j Hj]. exists j. split; [exact Hj | exact I].
    + rewrite Hl. eexists. reflexivity.
  - destruct (map_result_exists (fun kv : str * nat => bind (cattrs_walk f h (snd kv)) (fun j => Ok (fst kv, j)))
                (fun _ => True) kvs) as [l [Hl _]].
    + intros [k x] Hx. cbn [fst snd].
      assert (Hlt : (x < r)%nat).
      { apply (ranked_refs h r x Hr). rewrite Ed. cbn [refs]. apply in_map_iff. exists (k, x). auto. }
      destruct (IH x Hlt f ltac:(lia)) as [j Hj]. rewrite Hj. eexists. split; [reflexivity | exact I].
    + rewrite Hl. eexists. reflexivity.
  - destruct (map_result_exists (fun kv : str * nat => bind (cattrs_walk f h (snd kv)) (fun j => Ok (fst kv, j)))
                (fun _ => True) kvs) as [l [Hl _]].
    + intros [k x] Hx. cbn [fst snd].
      assert (Hlt : (x < r)%nat).
      { apply (ranked_refs h r x Hr). rewrite Ed. cbn [refs]. apply in_map_iff. exists (k, x). auto. }
      destruct (IH x Hlt f ltac:(lia)) as [j Hj]. rewrite Hj. eexists. split; [reflexivity | exact I].
    + rewrite Hl. eexists. reflexivity.
Qed.

Lemma remove_none_not_null : forall j, is_null j = false -> is_null (remove_none_values j) = false.
Proof. destruct j; cbn; auto. Qed.

Lemma remove_none_clean : forall j, no_null_keys (remove_none_values j) = true.
Proof.
  induction j using json_ind'; try reflexivity.
  - cbn [remove_none_values no_null_keys]. rewrite forallb_forall. intros x Hx.
    apply in_map_iff in Hx as [y [<- Hy]]. rewrite Forall_forall in H. apply H. exact Hy.
  - cbn [remove_none_values no_null_keys].
    induction H as [|[k v] r Hv _ IH]; [reflexivity|]. cbn [snd] in Hv.
    destruct (is_null v) eqn:En; [exact IH|].
    rewrite (remove_none_not_null v En), Hv. cbn [negb andb]. exact IH.
Qed.

Theorem serializer_partial : forall h, ranked h = true -> scalars_ok h = true ->
  forall r fuel visited, (S r < fuel)%nat -> serializer_ok (serialize fuel h visited r).
Proof.
  intros h Hr Hs. induction r as [r IH] using lt_wf_ind. intros fuel visited Hf.
  destruct fuel as [|f]; [lia|]. unfold serializer_ok. cbn [serialize].
  destruct (deref h r) as [| j | items | kvs | kvs] eqn:Ed.
  - exists JNull. split; reflexivity.
  - exists j. split; [reflexivity|].
    assert (Hj : scalar_json j = true).
    { unfold scalars_ok in Hs. rewrite forallb_forall in Hs. unfold deref in Ed.
      destruct (Nat.lt_ge_cases r (length h)) as [Hlt|Hge].
      - specialize (Hs (nth r h SNone) (nth_In h SNone Hlt)). rewrite Ed in Hs. exact Hs.
      - rewrite nth_overflow in Ed by lia. discriminate. }
    destruct j; try discriminate Hj; reflexivity.
  - destruct (existsb (Nat.eqb r) visited); [exists JNull; split; reflexivity|].
    destruct (map_result_exists (serialize f h (r :: visited)) (fun j => no_null_keys j = true) items) as [l [Hl Pl]].
    + intros x Hx. assert (Hlt : (x < r)%nat) by (apply (ranked_refs h r x Hr); rewrite Ed; exact Hx).
      destruct (IH x Hlt f (r :: visited) ltac:(lia)) as [j [Hj Pj]]. exists j. split; assumption.
    + rewrite Hl. cbn [bind]. eexists. split; [reflexivity|].
      cbn [no_null_keys]. rewrite forallb_forall. rewrite Forall_forall in Pl. exact Pl.
  - destruct (existsb (Nat.eqb r) visited); [exists JNull; split; reflexivity|].
    destruct (walk_total h Hr r f ltac:(lia)) as [j Hj]. rewrite Hj. cbn [bind].
    eexists. split; [reflexivity | apply remove_none_clean].
  - destruct (existsb (Nat.eqb r) visited); [exists JNull; split; reflexivity|].
    destruct (walk_total h Hr r f ltac:(lia)) as [j Hj]. rewrite Hj. cbn [bind].
    eexists. split; [reflexivity | apply remove_none_clean].
Qed.

Corollary serializer_top_partial : forall h, ranked h = true -> scalars_ok h = true ->
  forall r, (r < length h)%nat -> serializer_ok (serialize_top h r).
Proof.
  intros h Hr Hs r Hlt. unfold serialize_top, fuel_for. apply serializer_partial; try assumption. lia.
Qed.

(* non-vacuity: a dataclass holding a list, a dict with a None value and a nested dataclass *)
Definition h_demo : heap :=
  [SNone; SScalar (JInt 3); SList [1; 0]%nat; SDict [([107], 0%nat); ([108], 2%nat)];
   SData [([97], 3%nat); ([98], 1%nat); ([99], 0%nat)]].
Lemma h_demo_ok : ranked h_demo = true /\ scalars_ok h_demo = true /\
  serialize_top h_demo 4 = Ok (JObj [([97], JObj [([108], JArr [JInt 3; JNull])]); ([98], JInt 3)]).
Proof. vm_compute. repeat split. Qed.
