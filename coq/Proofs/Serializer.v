(* C16 — proofs about Model/Serializer.v *)
From PG Require Import Lib.Strs Model.Converter Model.Serializer Proofs.Converter.
From Coq Require Import Lia.

(* ---------- F16a: a two-dataclass reference cycle (attributes followed by cattrs) ---------- *)
Definition h_F16a : heap := [SData [([98], 1%nat)]; SData [([97], 0%nat)]].

Lemma walk_F16a : forall fuel r, (r = 0 \/ r = 1)%nat -> cattrs_walk fuel h_F16a r = SFuel.
Proof.
  induction fuel as [|f IH]; intros r Hr; [reflexivity|].
  destruct Hr as [-> | ->]; cbn [cattrs_walk deref nth h_F16a smap snd sbind].
  - rewrite (IH 1%nat) by (right; reflexivity). reflexivity.
  - rewrite (IH 0%nat) by (left; reflexivity). reflexivity.
Qed.

Lemma refuted_F16a :
  guard_F16a h_F16a 0 = false /\ forall fuel, ~ serializer_ok (ser fuel h_F16a true [] 0).
Proof.
  split; [vm_compute; reflexivity|].
  intros fuel [j [H _]]. destruct fuel as [|f]; [discriminate|].
  cbn [ser deref nth h_F16a existsb] in H.
  rewrite walk_F16a in H by (left; reflexivity). discriminate.
Qed.

(* ---------- F16d (fixed): a dict whose value is a forward-reference dataclass holding another
   instance — the dict branch now runs _ensure_all_dicts too, the old witness meets the spec ---------- *)
Definition h_F16d : heap := [SFwd []; SFwd [([112], 0%nat)]; SDict [([107], 1%nat)]].

Lemma regression_F16d :
  serialize_top h_F16d 2 = SOk (JObj [([107], JObj [([112], JObj [])])]) /\ serializer_ok (serialize_top h_F16d 2).
Proof. split; [vm_compute; reflexivity | eexists; split; vm_compute; reflexivity]. Qed.

(* ---------- the positive part ---------- *)
Section MixedInd.
  Variable P : mixed -> Prop.
  Hypothesis HNull : P MNull.
  Hypothesis HScalar : forall j, P (MScalar j).
  Hypothesis HArr : forall l, Forall P l -> P (MArr l).
  Hypothesis HObj : forall kvs, Forall (fun kv => P (snd kv)) kvs -> P (MObj kvs).
  Hypothesis HRaw : forall r, P (MRaw r).
  Fixpoint mixed_ind' (m : mixed) : P m :=
    match m with
    | MNull => HNull | MScalar j => HScalar j | MRaw r => HRaw r
    | MArr l => HArr l ((fix go (l : list mixed) : Forall P l :=
                           match l with [] => Forall_nil _ | x :: r => Forall_cons _ (mixed_ind' x) (go r) end) l)
    | MObj kvs => HObj kvs ((fix go (l : list (str * mixed)) : Forall (fun kv => P (snd kv)) l :=
                           match l with [] => Forall_nil _ | x :: r => Forall_cons _ (mixed_ind' (snd x)) (go r) end) kvs)
    end.
End MixedInd.

Fixpoint raw_free (m : mixed) : bool :=
  match m with
  | MRaw _ => false
  | MArr l => forallb raw_free l
  | MObj kvs => forallb (fun kv => raw_free (snd kv)) kvs
  | _ => true
  end.

Lemma smap_cons : forall {A B} (f : A -> sres B) x l,
  smap f (x :: l) = sbind (f x) (fun y => sbind (smap f l) (fun ys => SOk (y :: ys))).
Proof. reflexivity. Qed.

Lemma smap_exists : forall {A B} (f : A -> sres B) (P : B -> Prop) l,
  (forall x, In x l -> exists y, f x = SOk y /\ P y) -> exists l', smap f l = SOk l' /\ Forall P l'.
Proof.
  intros A B f P. induction l as [|x l IH]; intro H.
  - exists []. split; [reflexivity | constructor].
  - destruct (H x (or_introl eq_refl)) as [y [Hy Py]].
    destruct IH as [l' [Hl Pl]]; [intros z Hz; apply H; right; exact Hz|].
    exists (y :: l'). rewrite smap_cons, Hy. cbn [sbind]. rewrite Hl. split; [reflexivity | constructor; assumption].
Qed.

Lemma dict_loop_exists : forall {A} (ens : A -> sres json) kvs,
  (forall kv, In kv kvs -> exists p, ens (snd kv) = SOk p) -> exists l, dict_loop ens kvs = SOk l.
Proof.
  intros A ens. induction kvs as [|[k v] kvs IH]; intro H; [exists []; reflexivity|].
  destruct (H (k, v) (or_introl eq_refl)) as [p Hp]. cbn [snd] in Hp.
  destruct IH as [l Hl]; [intros kv Hkv; apply H; right; exact Hkv|].
  cbn [dict_loop]. rewrite Hp. cbn [sbind]. fold (dict_loop ens kvs). rewrite Hl. cbn [sbind]. eexists. reflexivity.
Qed.

Lemma ens_mixed_total : forall raw m, raw_free m = true -> exists j, ens_mixed raw m = SOk j.
Proof.
  intros raw. induction m using mixed_ind'; cbn [raw_free ens_mixed]; intro Hf;
    try (eexists; reflexivity); try discriminate.
  - destruct (smap_exists (ens_mixed raw) (fun _ => True) l) as [l' [Hl _]].
    + intros x Hx. rewrite Forall_forall in H. rewrite forallb_forall in Hf.
      destruct (H x Hx (Hf x Hx)) as [j Hj]. exists j. split; [exact Hj | exact I].
    + rewrite Hl. eexists. reflexivity.
  - destruct (dict_loop_exists (ens_mixed raw) kvs) as [l Hl].
    + intros kv Hkv. rewrite Forall_forall in H. rewrite forallb_forall in Hf. apply (H kv Hkv (Hf kv Hkv)).
    + rewrite Hl. eexists. reflexivity.
Qed.

Lemma ranked_from_refs : forall h i r x,
  ranked_from i h = true -> (r < length h)%nat -> In x (refs (nth r h SNone)) -> (x < i + r)%nat.
Proof.
  induction h as [|o h IH]; intros i r x Hr Hlt Hin; [cbn in Hlt; lia|].
  cbn [ranked_from] in Hr. apply andb_true_iff in Hr as [Ho Hr].
  destruct r as [|r]; cbn [nth] in Hin.
  - rewrite forallb_forall in Ho. specialize (Ho x Hin). apply Nat.ltb_lt in Ho. lia.
  - cbn [length] in Hlt. specialize (IH (S i) r x Hr ltac:(lia) Hin). lia.
Qed.

Lemma ranked_refs : forall h r x, ranked h = true -> In x (refs (deref h r)) -> (x < r)%nat.
Proof.
  intros h r x Hr Hin. unfold deref in Hin.
  destruct (Nat.lt_ge_cases r (length h)) as [Hlt|Hge].
  - apply (ranked_from_refs h 0 r x Hr Hlt Hin).
  - rewrite nth_overflow in Hin by lia. destruct Hin.
Qed.

Lemma deref_in : forall h r o, deref h r = o -> o <> SNone -> In o h.
Proof.
  intros h r o Hd Hn. unfold deref in Hd.
  destruct (Nat.lt_ge_cases r (length h)) as [Hlt|Hge].
  - rewrite <- Hd. apply nth_In. exact Hlt.
  - rewrite nth_overflow in Hd by lia. congruence.
Qed.

Lemma no_fwd : forall h r fs, fwd_free h = true -> deref h r = SFwd fs -> False.
Proof.
  intros h r fs Hf Hd. unfold fwd_free in Hf. rewrite forallb_forall in Hf.
  specialize (Hf (SFwd fs) (deref_in h r _ Hd ltac:(discriminate))). discriminate.
Qed.

Lemma walk_total : forall h, ranked h = true -> fwd_free h = true ->
  forall r fuel, (r < fuel)%nat -> exists m, cattrs_walk fuel h r = SOk m /\ raw_free m = true.
Proof.
  intros h Hr Hff. induction r as [r IH] using lt_wf_ind. intros fuel Hf.
  destruct fuel as [|f]; [lia|]. cbn [cattrs_walk].
  destruct (deref h r) as [| j | items | kvs | kvs | kvs] eqn:Ed;
    try (eexists; split; reflexivity).
  - destruct (smap_exists (cattrs_walk f h) (fun m => raw_free m = true) items) as [l [Hl Pl]].
    + intros x Hx. assert (Hlt : (x < r)%nat) by (apply (ranked_refs h r x Hr); rewrite Ed; exact Hx).
      apply (IH x Hlt f). lia.
    + rewrite Hl. eexists. split; [reflexivity|]. cbn [raw_free]. rewrite forallb_forall.
      rewrite Forall_forall in Pl. exact Pl.
  - destruct (smap_exists (fun kv : str * nat => sbind (cattrs_walk f h (snd kv)) (fun m => SOk (fst kv, m)))
                (fun kv => raw_free (snd kv) = true) kvs) as [l [Hl Pl]].
    + intros [k x] Hx. cbn [fst snd].
      assert (Hlt : (x < r)%nat).
      { apply (ranked_refs h r x Hr). rewrite Ed. cbn [refs]. apply in_map_iff. exists (k, x). auto. }
      destruct (IH x Hlt f ltac:(lia)) as [m [Hm Pm]]. rewrite Hm. eexists. split; [reflexivity | exact Pm].
    + rewrite Hl. eexists. split; [reflexivity|]. cbn [raw_free]. rewrite forallb_forall.
      rewrite Forall_forall in Pl. exact Pl.
  - destruct (smap_exists (fun kv : str * nat => sbind (cattrs_walk f h (snd kv)) (fun m => SOk (fst kv, m)))
                (fun kv => raw_free (snd kv) = true) kvs) as [l [Hl Pl]].
    + intros [k x] Hx. cbn [fst snd].
      assert (Hlt : (x < r)%nat).
      { apply (ranked_refs h r x Hr). rewrite Ed. cbn [refs]. apply in_map_iff. exists (k, x). auto. }
      destruct (IH x Hlt f ltac:(lia)) as [m [Hm Pm]]. rewrite Hm. eexists. split; [reflexivity | exact Pm].
    + rewrite Hl. eexists. split; [reflexivity|]. cbn [raw_free]. rewrite forallb_forall.
      rewrite Forall_forall in Pl. exact Pl.
  - exfalso. exact (no_fwd h r kvs Hff Ed).
Qed.

Lemma remove_none_not_null : forall j, is_null j = false -> is_null (remove_none_values j) = false.
Proof. destruct j; cbn; auto. Qed.

Lemma remove_none_clean : forall j, no_null_keys (remove_none_values j) = true.
Proof.
  induction j using json_ind'; try reflexivity.
  - cbn [remove_none_values no_null_keys]. rewrite forallb_forall. intros x Hx.
    apply in_map_iff in Hx as [y [<- Hy]]. rewrite Forall_forall in H. apply H. exact Hy.
  - cbn [remove_none_values no_null_keys].
    induction H as [|[k v] r Hv _ IH]; [reflexivity|]. cbn [snd] in Hv.
    destruct (is_null v) eqn:En; [exact IH|].
    rewrite (remove_none_not_null v En), Hv. cbn [negb andb]. exact IH.
Qed.

Theorem serializer_partial : forall h, ranked h = true -> fwd_free h = true -> scalars_ok h = true ->
  forall r fuel visited, (S r < fuel)%nat -> serializer_ok (ser fuel h true visited r).
Proof.
  intros h Hr Hff Hs. induction r as [r IH] using lt_wf_ind. intros fuel visited Hf.
  destruct fuel as [|f]; [lia|]. unfold serializer_ok. cbn [ser].
  destruct (deref h r) as [| j | items | kvs | kvs | kvs] eqn:Ed.
  - exists JNull. split; reflexivity.
  - exists j. split; [reflexivity|].
    assert (Hj : scalar_json j = true).
    { unfold scalars_ok in Hs. rewrite forallb_forall in Hs.
      specialize (Hs (SScalar j) (deref_in h r _ Ed ltac:(discriminate))). exact Hs. }
    destruct j; try discriminate Hj; reflexivity.
  - destruct (existsb (Nat.eqb r) visited); [exists JNull; split; reflexivity|].
    destruct (smap_exists (ser f h true (r :: visited)) (fun j => no_null_keys j = true) items) as [l [Hl Pl]].
    + intros x Hx. assert (Hlt : (x < r)%nat) by (apply (ranked_refs h r x Hr); rewrite Ed; exact Hx).
      apply (IH x Hlt f (r :: visited)). lia.
    + rewrite Hl. cbn [sbind]. eexists. split; [reflexivity|].
      cbn [no_null_keys]. rewrite forallb_forall. rewrite Forall_forall in Pl. exact Pl.
  - destruct (existsb (Nat.eqb r) visited); [exists JNull; split; reflexivity|].
    destruct (walk_total h Hr Hff r f ltac:(lia)) as [m [Hm Pm]]. rewrite Hm. cbn [sbind].
    destruct (ens_mixed_total (ser f h false visited) m Pm) as [j Hj]. rewrite Hj. cbn [sbind].
    eexists. split; [reflexivity | apply remove_none_clean].
  - destruct (existsb (Nat.eqb r) visited); [exists JNull; split; reflexivity|].
    destruct (walk_total h Hr Hff r f ltac:(lia)) as [m [Hm Pm]]. rewrite Hm. cbn [sbind].
    destruct (ens_mixed_total (ser f h false (r :: visited)) m Pm) as [j Hj]. rewrite Hj. cbn [sbind].
    eexists. split; [reflexivity | apply remove_none_clean].
  - exfalso. exact (no_fwd h r kvs Hff Ed).
Qed.

Corollary serializer_top_partial : forall h, ranked h = true -> fwd_free h = true -> scalars_ok h = true ->
  forall r, (r < length h)%nat -> serializer_ok (serialize_top h r).
Proof.
  intros h Hr Hff Hs r Hlt. unfold serialize_top, fuel_for. apply serializer_partial; try assumption. nia.
Qed.

(* non-vacuity: a dataclass holding a list, a dict with a None value and a nested dataclass *)
Definition h_demo : heap :=
  [SNone; SScalar (JInt 3); SList [1; 0]%nat; SDict [([107], 0%nat); ([108], 2%nat)];
   SData [([97], 3%nat); ([98], 1%nat); ([99], 0%nat)]].
Lemma h_demo_ok : ranked h_demo = true /\ fwd_free h_demo = true /\ scalars_ok h_demo = true /\
  serialize_top h_demo 4 = SOk (JObj [([97], JObj [([108], JArr [JInt 3; JNull])]); ([98], JInt 3)]).
Proof. vm_compute. repeat split. Qed.

(* the shapes that DO work although they are cyclic: forward-reference dataclasses (pair cycle, back
   pointer through a dict-typed attribute, child.parent inside a list) — evaluated, not generalised *)
Definition h_cyc : heap :=
  [SFwd [([112], 1%nat); ([105], 2%nat); ([107], 3%nat)];      (* 0: p -> 1, idx -> dict 2, kids -> list 3 *)
   SFwd [([112], 0%nat)];                                          (* 1: p -> 0 (pair cycle) *)
   SDict [([109], 0%nat); ([110], 5%nat)];                         (* 2: {"m": obj 0 (back edge), "n": None} *)
   SList [4%nat];                                                   (* 3: [child] *)
   SFwd [([112], 0%nat); ([118], 6%nat)];                          (* 4: child.p -> 0 (back pointer), v -> scalar *)
   SNone; SScalar (JInt 1)].
Lemma h_cyc_ok : serializer_ok (serialize_top h_cyc 0) /\ ranked h_cyc = false.
Proof. split; [eexists; split; vm_compute; reflexivity | vm_compute; reflexivity]. Qed.
