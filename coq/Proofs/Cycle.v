(* C08 — proofs about Model/Cycle.v *)
From PG Require Import Lib.Strs Model.Cycle.

Lemma stub_true : True. Proof. exact I. Qed.
