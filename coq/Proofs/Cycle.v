(* C08 — proofs about Model/Cycle.v *)
From PG Require Import Lib.Strs Model.Cycle.
From Coq Require Import Lia.

(* ---------- induction principle for the nested inductive [call] ---------- *)
Section CallInd.
  Variable P : call -> Prop.
  Hypothesis HReg : forall k, P (Reg k).
  Hypothesis HUnreg : forall k, P (Unreg k).
  Hypothesis HCall : forall name allow body, Forall P body -> P (Call name allow body).
  Fixpoint call_ind2 (t : call) : P t :=
    match t with
    | Reg k => HReg k
    | Unreg k => HUnreg k
    | Call name allow body =>
        HCall name allow body
          ((fix go (l : list call) : Forall P l :=
              match l with
              | [] => Forall_nil P
              | x :: r => Forall_cons x (call_ind2 x) (go r)
              end) body)
    end.
End CallInd.

(* ---------- unfolding equation of [run] in terms of [run_list] ---------- *)
Definition call_step (name : option str) (allow : bool) (body : list call) (c : ctx) : ctx :=
  let c0 := set_allow (frame_in c name) allow in
  let (c1, a) := enter name c0 in
  frame_out (
  match a with
  | AExisting =>
      let c2 := exit name c1 in
      match name with
      | Some n =>
          if truthy name then
            if registered c2 n then c2
            else exit name (run_list (add_fell (set_state c2 n NotStarted) n) body)
          else exit name (run_list c2 body)
      | None => exit name (run_list c2 body)
      end
  | APlaceholder => exit name c1
  | ACreate => exit name c1
  | AContinue => exit name (run_list c1 body)
  end).

Lemma run_body_run_list : forall l c,
  (fix run_body (c : ctx) (l : list call) {struct l} : ctx :=
     match l with [] => c | t :: r => run_body (run c t) r end) c l = run_list c l.
Proof. induction l as [|t r IH]; intro c; [reflexivity | apply IH]. Qed.

Lemma run_Call : forall c name allow body, run c (Call name allow body) = call_step name allow body c.
Proof.
  intros c name allow body. unfold call_step. cbn [run].
  destruct (enter name (set_allow (frame_in c name) allow)) as [c1 a].
  rewrite !run_body_run_list. reflexivity.
Qed.

(* ---------- what the primitives do to stack and depth ---------- *)
Ltac break_ifs :=
  repeat match goal with
         | |- context [if ?b then _ else _] => destruct b
         | |- context [match ?x with _ => _ end] => is_var x; destruct x
         end.

Lemma depth_placeholder_same : forall n c,
  stack (depth_placeholder n c) = stack c /\ depth (depth_placeholder n c) = depth c
  /\ g_fell (depth_placeholder n c) = g_fell c /\ states (depth_placeholder n c) = aset (states c) n PhDepth.
Proof. intros n c. repeat split; reflexivity. Qed.

Lemma cycle_placeholder_same : forall n c,
  stack (cycle_placeholder n c) = stack c /\ depth (cycle_placeholder n c) = depth c
  /\ g_fell (cycle_placeholder n c) = g_fell c
  /\ (states (cycle_placeholder n c) = states c \/ states (cycle_placeholder n c) = aset (states c) n PhCycle
      \/ states (cycle_placeholder n c) = aset (states c) n PhSelf).
Proof.
  intros n c. unfold cycle_placeholder. cbv zeta.
  destruct (should_store n (cycle_path n (stack c)));
    destruct (allow_self c && is_direct (cycle_path n (stack c))); repeat split; auto.
Qed.

Lemma check_stack_depth : forall name c,
  stack (fst (check name c)) = stack c /\ depth (fst (check name c)) = depth c.
Proof.
  intros name c. unfold check.
  destruct name as [n|]; [|split; reflexivity].
  pose proof (depth_placeholder_same n c) as (D1 & D2 & _).
  pose proof (cycle_placeholder_same n c) as (C1 & C2 & _).
  destruct (state_of c n); try (split; reflexivity);
    (destruct (max_depth c <? depth c); [split; assumption|]);
    (destruct (mem_str n (stack c)); split; try assumption; reflexivity).
Qed.

Lemma check_continue : forall n c c',
  check (Some n) c = (c', AContinue) ->
  mem_str n (stack c) = false /\ c' = set_state c n InProgress /\ depth c <= max_depth c
  /\ (state_of c n = NotStarted \/ state_of c n = InProgress).
Proof.
  intros n c c' H. unfold check in H.
  destruct (state_of c n) eqn:Es; try discriminate;
    (destruct (max_depth c <? depth c) eqn:Ed; [discriminate|]);
    (destruct (mem_str n (stack c)) eqn:Em; [discriminate|]);
    inversion H; subst; apply N.ltb_ge in Ed; repeat split; auto.
Qed.

Lemma enter_spec : forall name c c' a,
  enter name c = (c', a) ->
  depth c' = depth c + 1 /\
  (stack c' = stack c \/
   exists n, name = Some n /\ truthy name = true /\ a = AContinue /\ mem_str n (stack c) = false
             /\ stack c' = stack c ++ [n]).
Proof.
  intros name c c' a H. unfold enter in H.
  destruct (check name (set_depth c (depth c + 1))) as [c2 a2] eqn:E.
  pose proof (check_stack_depth name (set_depth c (depth c + 1))) as [Hs Hd].
  rewrite E in Hs, Hd. cbn [fst stack depth set_depth] in Hs, Hd.
  destruct a2; destruct name as [n|]; try (inversion H; subst; split; [exact Hd | left; exact Hs]).
  destruct (truthy (Some n)) eqn:Et; inversion H; subst.
  - split; [exact Hd|]. right. exists n.
    apply check_continue in E. destruct E as (Em & _ & _ & _).
    cbn [stack set_depth] in Em. cbn [stack set_stack]. rewrite Hs. repeat split; auto.
  - split; [exact Hd | left; exact Hs].
Qed.

(* ---------- list.remove on a duplicate-free list ---------- *)
Lemma In_remove1 : forall n l x, In x (remove1 n l) -> In x l.
Proof.
  induction l as [|y l IH]; intros x H; simpl in *; [exact H|].
  destruct (str_eqb n y); [right; exact H|].
  destruct H as [H|H]; [left; exact H | right; apply IH; exact H].
Qed.

Lemma In_remove1_other : forall n l x, x <> n -> In x l -> In x (remove1 n l).
Proof.
  induction l as [|y l IH]; intros x Hne H; simpl in *; [exact H|].
  destruct (str_eqb n y) eqn:E.
  - apply str_eqb_eq in E. subst y. destruct H as [H|H]; [congruence | exact H].
  - destruct H as [H|H]; [left; exact H | right; apply IH; assumption].
Qed.

Lemma NoDup_remove1 : forall n l, NoDup l -> NoDup (remove1 n l).
Proof.
  induction l as [|y l IH]; intro H; simpl; [exact H|].
  inversion H as [|? ? Hn Hd]; subst.
  destruct (str_eqb n y); [exact Hd|].
  constructor; [intro Hin; apply Hn; eapply In_remove1; exact Hin | apply IH; exact Hd].
Qed.

Lemma notin_remove1 : forall n l, NoDup l -> ~ In n (remove1 n l).
Proof.
  induction l as [|y l IH]; intro H; simpl; [tauto|].
  inversion H as [|? ? Hn Hd]; subst.
  destruct (str_eqb n y) eqn:E.
  - apply str_eqb_eq in E. subst y. exact Hn.
  - intros [Hy|Hin]; [subst y; rewrite str_eqb_refl in E; discriminate | exact (IH Hd Hin)].
Qed.

Lemma NoDup_app_intro_single : forall (l : list str) n, NoDup l -> ~ In n l -> NoDup (l ++ [n]).
Proof.
  induction l as [|y l IH]; intros n H Hn; simpl.
  - constructor; [tauto | constructor].
  - inversion H as [|? ? Hy Hd]; subst. constructor.
    + intro Hin. apply in_app_or in Hin. destruct Hin as [Hin|[Hin|[]]]; [tauto|].
      subst. apply Hn. left. reflexivity.
    + apply IH; [exact Hd | intro; apply Hn; right; assumption].
Qed.

Lemma mem_str_false : forall n l, mem_str n l = false <-> ~ In n l.
Proof.
  intros n l. rewrite <- mem_str_In. destruct (mem_str n l); split; intro H; try reflexivity; try discriminate.
  exfalso. apply H. reflexivity.
Qed.

(* ---------- unified_exit_schema ---------- *)
Definition exit_stack_of (name : option str) (st : list str) : list str :=
  match name with
  | Some n => if truthy name then (if mem_str n st then remove1 n st else st) else st
  | None => st
  end.

Lemma exit_stack : forall name c, stack (exit name c) = exit_stack_of name (stack c).
Proof.
  intros name c. unfold exit, exit_stack_of.
  assert (Hs : stack (if 0 <? depth c then set_depth c (depth c - 1) else c) = stack c)
    by (destruct (0 <? depth c); reflexivity).
  destruct name as [n|]; [|exact Hs].
  destruct (truthy (Some n)); [|exact Hs].
  rewrite Hs.
  destruct (mem_str n (stack c)); cbv zeta;
    match goal with |- context [alookup ?k ?d] => destruct (alookup k d) as [[]|] end;
    cbn [stack set_state set_states set_stack]; try rewrite Hs; reflexivity.
Qed.

Lemma exit_depth : forall name c,
  depth (exit name c) = if 0 <? depth c then depth c - 1 else depth c.
Proof.
  intros name c. unfold exit.
  assert (Hd : depth (if 0 <? depth c then set_depth c (depth c - 1) else c)
               = if 0 <? depth c then depth c - 1 else depth c)
    by (destruct (0 <? depth c); reflexivity).
  destruct name as [n|]; [|exact Hd].
  destruct (truthy (Some n)); [|exact Hd].
  cbv zeta.
  destruct (mem_str n (stack (if 0 <? depth c then set_depth c (depth c - 1) else c)));
    match goal with |- context [alookup ?k ?d] => destruct (alookup k d) as [[]|] end;
    cbn [depth set_state set_states set_stack]; exact Hd.
Qed.

Lemma exit_stack_incl : forall name st, incl (exit_stack_of name st) st.
Proof.
  intros name st x Hx. unfold exit_stack_of in Hx.
  destruct name as [n|]; [|exact Hx].
  destruct (truthy (Some n)); [|exact Hx].
  destruct (mem_str n st); [eapply In_remove1; exact Hx | exact Hx].
Qed.

Lemma exit_stack_nodup : forall name st, NoDup st -> NoDup (exit_stack_of name st).
Proof.
  intros name st H. unfold exit_stack_of.
  destruct name as [n|]; [|exact H].
  destruct (truthy (Some n)); [|exact H].
  destruct (mem_str n st); [apply NoDup_remove1; exact H | exact H].
Qed.

Lemma exit_stack_notin : forall n st,
  truthy (Some n) = true -> NoDup st -> ~ In n (exit_stack_of (Some n) st).
Proof.
  intros n st Ht H. unfold exit_stack_of. rewrite Ht.
  destruct (mem_str n st) eqn:E; [apply notin_remove1; exact H | apply mem_str_false; exact E].
Qed.

(* ---------- the order "c' is below c": what every step after the enter preserves ---------- *)
Definition below (c' c : ctx) : Prop :=
  NoDup (stack c) -> NoDup (stack c') /\ incl (stack c') (stack c) /\ depth c' <= depth c.

Lemma below_refl : forall c, below c c.
Proof. intros c H. repeat split; [exact H | apply incl_refl | lia]. Qed.

Lemma below_trans : forall a b c, below a b -> below b c -> below a c.
Proof.
  intros a b c H1 H2 Hc. destruct (H2 Hc) as (N2 & I2 & D2). destruct (H1 N2) as (N1 & I1 & D1).
  repeat split; [exact N1 | eapply incl_tran; eassumption | lia].
Qed.

Lemma below_exit : forall name c, below (exit name c) c.
Proof.
  intros name c H. rewrite exit_stack, exit_depth. repeat split.
  - apply exit_stack_nodup. exact H.
  - apply exit_stack_incl.
  - destruct (0 <? depth c); lia.
Qed.

Lemma below_same : forall c' c, stack c' = stack c -> depth c' = depth c -> below c' c.
Proof. intros c' c Hs Hd H. rewrite Hs, Hd. repeat split; [exact H | apply incl_refl | lia]. Qed.

Lemma run_list_below : forall l,
  Forall (fun t => forall c, below (run c t) c) l -> forall c, below (run_list c l) c.
Proof.
  induction 1 as [|t r Ht _ IH]; intro c; cbn [run_list]; [apply below_refl|].
  eapply below_trans; [apply IH | apply Ht].
Qed.

(* after the enter, whatever happens below c1 and ends with [exit name] is below the state before the call *)
Lemma call_tail : forall name a c c1 Y,
  NoDup (stack c) ->
  depth c1 = depth c + 1 ->
  (stack c1 = stack c \/
   exists n, name = Some n /\ truthy name = true /\ a = AContinue /\ mem_str n (stack c) = false
             /\ stack c1 = stack c ++ [n]) ->
  below Y c1 ->
  NoDup (stack (exit name Y)) /\ incl (stack (exit name Y)) (stack c) /\ depth (exit name Y) <= depth c.
Proof.
  intros name a c c1 Y Hc Hd Hs HY.
  assert (N1 : NoDup (stack c1)).
  { destruct Hs as [Hs|(n & _ & _ & _ & Hm & Hs)]; rewrite Hs; [exact Hc|].
    apply NoDup_app_intro_single; [exact Hc | apply mem_str_false; exact Hm]. }
  destruct (HY N1) as (NY & IY & DY).
  destruct (below_exit name Y NY) as (NX & IX & DX).
  split; [exact NX|]. split.
  - intros x Hx. pose proof (IY x (IX x Hx)) as H1.
    destruct Hs as [Hs|(n & Hn & Ht & _ & _ & Hs)]; rewrite Hs in H1; [exact H1|].
    apply in_app_or in H1. destruct H1 as [H1|[H1|[]]]; [exact H1|]. subst x name.
    exfalso. rewrite exit_stack in Hx. exact (exit_stack_notin n (stack Y) Ht NY Hx).
  - rewrite exit_depth. rewrite exit_depth in DX. destruct (0 <? depth Y) eqn:E; [lia|].
    apply N.ltb_ge in E. lia.
Qed.

Lemma same_below : forall c' c, stack c' = stack c -> depth c' = depth c -> below c' c.
Proof. exact below_same. Qed.

Theorem run_below : forall t c, below (run c t) c.
Proof.
  induction t as [k|k|name allow body IH] using call_ind2; intro c.
  - apply below_same; reflexivity.
  - apply below_same; reflexivity.
  - rewrite run_Call. unfold call_step. intro Hc.
    destruct (enter name (set_allow (frame_in c name) allow)) as [c1 a] eqn:E.
    apply enter_spec in E. destruct E as [Hd Hs]. cbn [depth stack set_allow frame_in set_nest note_entered] in Hd, Hs.
    pose proof (run_list_below body IH) as HL.
    assert (Hout : forall X, stack (frame_out X) = stack X /\ depth (frame_out X) = depth X) by (intro; split; reflexivity).
    cut (forall Y, below Y c1 ->
           NoDup (stack (frame_out (exit name Y))) /\ incl (stack (frame_out (exit name Y))) (stack c)
           /\ depth (frame_out (exit name Y)) <= depth c).
    { intro K. destruct a.
      - apply K. apply HL.
      - apply K. apply below_refl.
      - apply K. apply below_refl.
      - destruct name as [n|].
        + destruct (truthy (Some n)).
          * destruct (registered (exit (Some n) c1) n).
            -- apply K. apply below_refl.
            -- apply K. eapply below_trans; [apply HL|].
               eapply below_trans; [|apply below_exit]. apply below_same; reflexivity.
          * apply K. eapply below_trans; [apply HL | apply below_exit].
        + apply K. eapply below_trans; [apply HL | apply below_exit]. }
    intros Y HY. destruct (Hout (exit name Y)) as [e1 e2]. rewrite e1, e2.
    eapply call_tail; eauto.
Qed.

Theorem run_list_below_all : forall l c, below (run_list c l) c.
Proof. intros l c. apply run_list_below. apply Forall_forall. intros t _. apply run_below. Qed.

(* ---------- C08, balance: the rest state is restored by EVERY call tree ---------- *)
Lemma rest_of_below : forall c' c, below c' c -> rest c -> rest c'.
Proof.
  intros c' c H [Hs Hd]. destruct H as (_ & I & D); [rewrite Hs; constructor|].
  rewrite Hs in I. rewrite Hd in D. split.
  - destruct (stack c') as [|x l]; [reflexivity|]. exfalso. apply (I x). left. reflexivity.
  - lia.
Qed.

Theorem balanced : forall t c, rest c -> rest (run c t).
Proof. intros t c. apply rest_of_below. apply run_below. Qed.

Theorem balanced_list : forall l c, rest c -> rest (run_list c l).
Proof. intros l c. apply rest_of_below. apply run_list_below_all. Qed.

(* the stronger reading is false: the stack after a call is NOT always the stack before it *)
Example not_lifo :
  exists c t, NoDup (stack c) /\ stack (run c t) <> stack c.
Proof.
  exists (set_state (set_stack (init 150) [[65]]) [65] InProgress), (Call (Some [65]) false []).
  split; [constructor; [intros []|constructor] | vm_compute; discriminate].
Qed.

(* ---------- states: what the primitives do to schema_states ---------- *)
Lemma state_of_set_state : forall c n s m,
  state_of (set_state c n s) m = if str_eqb m n then s else state_of c m.
Proof.
  intros c n s m. unfold state_of, set_state. cbn [states set_states].
  destruct (str_eqb m n) eqn:E.
  - apply str_eqb_eq in E. subst m. rewrite alookup_aset_same. reflexivity.
  - apply str_eqb_neq in E. rewrite alookup_aset_other by exact E. reflexivity.
Qed.

Definition same_core (c' c : ctx) : Prop :=
  stack c' = stack c /\ states c' = states c /\ g_fell c' = g_fell c.

Lemma same_core_state : forall c' c m, same_core c' c -> state_of c' m = state_of c m.
Proof. intros c' c m (_ & H & _). unfold state_of. rewrite H. reflexivity. Qed.

(* effect of unified_cycle_check on the state of an arbitrary name m *)
Lemma state_of_aset : forall c c' n s m,
  states c' = aset (states c) n s -> state_of c' m = if str_eqb m n then s else state_of c m.
Proof.
  intros c c' n s m H. unfold state_of. rewrite H.
  destruct (str_eqb m n) eqn:E.
  - apply str_eqb_eq in E. subst m. rewrite alookup_aset_same. reflexivity.
  - apply str_eqb_neq in E. rewrite alookup_aset_other by exact E. reflexivity.
Qed.

Lemma check_states : forall name c m,
  g_fell (fst (check name c)) = g_fell c /\
  (state_of (fst (check name c)) m = state_of c m \/
   (name = Some m /\
    (state_of (fst (check name c)) m = PhDepth \/ state_of (fst (check name c)) m = PhCycle \/
     state_of (fst (check name c)) m = PhSelf \/
     (state_of (fst (check name c)) m = InProgress /\ snd (check name c) = AContinue)))).
Proof.
  intros name c m. unfold check.
  destruct name as [n|]; [|split; [reflexivity | left; reflexivity]].
  assert (K : forall c' s, states c' = aset (states c) n s ->
              state_of c' m = state_of c m \/ (Some n = Some m /\ state_of c' m = s)).
  { intros c' s H0. rewrite (state_of_aset c c' n s m H0). destruct (str_eqb m n) eqn:E.
    - apply str_eqb_eq in E. subst m. right. split; reflexivity.
    - left. reflexivity. }
  pose proof (depth_placeholder_same n c) as (_ & _ & D3 & D4).
  pose proof (cycle_placeholder_same n c) as (_ & _ & C3 & C4).
  destruct (state_of c n) eqn:Es; try (split; [reflexivity | left; reflexivity]);
    (destruct (max_depth c <? depth c);
     [ cbn [fst snd]; split; [exact D3|];
       destruct (K _ _ D4) as [H|[H1 H2]]; [left; exact H | right; split; [exact H1 | left; exact H2]]
     | ]);
    (destruct (mem_str n (stack c)); cbn [fst snd];
     [ split; [exact C3|];
       destruct C4 as [C4|[C4|C4]];
       [ left; unfold state_of; rewrite C4; reflexivity
       | destruct (K _ _ C4) as [H|[H1 H2]]; [left; exact H | right; split; [exact H1 | right; left; exact H2]]
       | destruct (K _ _ C4) as [H|[H1 H2]]; [left; exact H | right; split; [exact H1 | right; right; left; exact H2]] ]
     | split; [reflexivity|];
       destruct (K (set_state c n InProgress) InProgress eq_refl) as [H|[H1 H2]];
       [left; exact H | right; split; [exact H1 | right; right; right; split; [exact H2 | reflexivity]]] ]).
Qed.

(* [enter] = depth bump, [check], conditional push *)
Lemma enter_unfold : forall name c c' a,
  enter name c = (c', a) ->
  exists c2, check name (set_depth c (depth c + 1)) = (c2, a)
             /\ states c' = states c2 /\ g_fell c' = g_fell c2
             /\ (stack c' = stack c2 \/
                 exists n, name = Some n /\ truthy name = true /\ a = AContinue /\ stack c' = stack c2 ++ [n])
             /\ (a = AContinue -> forall n, name = Some n -> truthy name = true -> stack c' = stack c2 ++ [n]).
Proof.
  intros name c c' a H. unfold enter in H.
  destruct (check name (set_depth c (depth c + 1))) as [c2 a2]. exists c2.
  destruct a2; destruct name as [n|]; try (inversion H; subst; repeat split; auto; intros; discriminate).
  - destruct (truthy (Some n)) eqn:Et; inversion H; subst; repeat split; auto.
    + right. exists n. repeat split; auto.
    + intros _ n0 Hn _. inversion Hn; subst. reflexivity.
    + intros _ n0 _ Hn. discriminate.
Qed.

(* effect of unified_exit_schema on the state of an arbitrary name m *)
Lemma exit_states : forall name c m,
  g_fell (exit name c) = g_fell c /\
  (state_of (exit name c) m = state_of c m \/
   (name = Some m /\ truthy name = true /\ state_of c m = InProgress /\ state_of (exit name c) m = Completed))
  /\ (name = Some m -> truthy name = true -> state_of (exit name c) m <> InProgress).
Proof.
  intros name c m. unfold exit.
  set (c1 := if 0 <? depth c then set_depth c (depth c - 1) else c).
  assert (H1 : states c1 = states c /\ g_fell c1 = g_fell c) by (unfold c1; destruct (0 <? depth c); split; reflexivity).
  destruct H1 as [H1 H1'].
  assert (S1 : forall x, state_of c1 x = state_of c x) by (intro x; unfold state_of; rewrite H1; reflexivity).
  destruct name as [n|]; [|repeat split; [exact H1' | left; apply S1 | intros; discriminate]].
  destruct (truthy (Some n)) eqn:Et; [|repeat split; [exact H1' | left; apply S1 | intros; discriminate]].
  cbv zeta.
  set (c2 := if mem_str n (stack c1) then set_stack c1 (remove1 n (stack c1)) else c1).
  assert (H2 : states c2 = states c /\ g_fell c2 = g_fell c)
    by (unfold c2; destruct (mem_str n (stack c1)); split; assumption).
  destruct H2 as [H2 H2'].
  assert (S2 : forall x, state_of c2 x = state_of c x) by (intro x; unfold state_of; rewrite H2; reflexivity).
  assert (L : alookup n (states c2) = Some InProgress <-> state_of c n = InProgress).
  { rewrite <- S2. unfold state_of. destruct (alookup n (states c2)) as [s|]; split; intro H; try congruence; discriminate. }
  destruct (alookup n (states c2)) as [[]|] eqn:El;
    try (repeat split; [exact H2' | left; apply S2 |
         intros Hn _; inversion Hn; subst m; rewrite S2; unfold state_of; rewrite <- H2, El; discriminate]).
  repeat split.
  - exact H2'.
  - rewrite state_of_set_state. destruct (str_eqb m n) eqn:E.
    + apply str_eqb_eq in E. subst m. right. repeat split; auto. apply L. reflexivity.
    + left. apply S2.
  - intros Hn _. inversion Hn; subst m. rewrite state_of_set_state, str_eqb_refl. discriminate.
Qed.

(* ---------- the tracker invariant ---------- *)
Definition Inv (c : ctx) : Prop :=
  NoDup (stack c)
  /\ (forall n, n <> [] -> state_of c n = InProgress -> In n (stack c))
  /\ (forall n, In n (stack c) -> state_of c n <> NotStarted /\ state_of c n <> Completed).

Lemma Inv_init : forall md, Inv (init md).
Proof.
  intro md. repeat split; cbn; try constructor; try discriminate; try tauto.
Qed.

Lemma Inv_same_core : forall c' c, same_core c' c -> Inv c -> Inv c'.
Proof.
  intros c' c Hc (N & I1 & I3). pose proof Hc as (Hs & Hst & _).
  unfold Inv. rewrite Hs. split; [exact N|]. split.
  - intros n Hn H. rewrite (same_core_state c' c n Hc) in H. auto.
  - intros n Hn. rewrite (same_core_state c' c n Hc). apply I3. exact Hn.
Qed.

Lemma truthy_nonempty : forall n, n <> [] -> truthy (Some n) = true.
Proof. intros [|x l] H; [congruence | reflexivity]. Qed.

Lemma enter_Inv : forall name c c' a, Inv c -> enter name c = (c', a) -> Inv c'.
Proof.
  intros name c c' a HI H.
  set (cd := set_depth c (depth c + 1)).
  assert (HId : Inv cd) by (apply (Inv_same_core cd c); [repeat split | exact HI]).
  destruct HId as (N & I1 & I3).
  apply enter_unfold in H. destruct H as (c2 & Hc & Hst & _ & Hstk & Hpush). fold cd in Hc.
  pose proof (check_stack_depth name cd) as [Hs2 _]. rewrite Hc in Hs2. cbn [fst] in Hs2.
  assert (S : forall m, state_of c' m = state_of c2 m) by (intro m; unfold state_of; rewrite Hst; reflexivity).
  assert (CS : forall m, state_of c2 m = state_of cd m \/
                 (name = Some m /\ (state_of c2 m = PhDepth \/ state_of c2 m = PhCycle \/ state_of c2 m = PhSelf
                                    \/ (state_of c2 m = InProgress /\ a = AContinue)))).
  { intro m. pose proof (check_states name cd m) as [_ K]. rewrite Hc in K. exact K. }
  assert (Sub : incl (stack cd) (stack c')).
  { rewrite <- Hs2. destruct Hstk as [E|(n & _ & _ & _ & E)]; rewrite E; [apply incl_refl | apply incl_appl, incl_refl]. }
  split; [|split].
  - destruct Hstk as [E|(n & Hn & Ht & Ha & E)]; rewrite E, Hs2; [exact N|].
    subst name a. apply check_continue in Hc. destruct Hc as (Hm & _).
    apply NoDup_app_intro_single; [exact N | apply mem_str_false; exact Hm].
  - intros m Hm Hp. rewrite S in Hp. destruct (CS m) as [E|(Hn & [E|[E|[E|[E Ha]]]])]; try congruence.
    + apply Sub. apply I1; [exact Hm | congruence].
    + rewrite (Hpush Ha m Hn); [apply in_or_app; right; left; reflexivity|].
      subst name. apply truthy_nonempty. exact Hm.
  - intros m Hin. rewrite S.
    assert (Old : In m (stack cd) -> state_of c2 m <> NotStarted /\ state_of c2 m <> Completed).
    { intro Ho. destruct (CS m) as [E'|(_ & [E'|[E'|[E'|[E' _]]]])]; rewrite E'; try (split; discriminate).
      apply I3. exact Ho. }
    destruct Hstk as [E|(n & Hn & Ht & Ha & E)]; rewrite E, Hs2 in Hin; [exact (Old Hin)|].
    apply in_app_or in Hin. destruct Hin as [Hin|[Hin|[]]]; [exact (Old Hin)|].
    subst m name a. apply check_continue in Hc. destruct Hc as (_ & Hc & _). subst c2.
    rewrite state_of_set_state, str_eqb_refl. split; discriminate.
Qed.

Lemma exit_Inv : forall name c, Inv c -> Inv (exit name c).
Proof.
  intros name c (N & I1 & I3). unfold Inv. rewrite exit_stack.
  split; [apply exit_stack_nodup; exact N|]. split.
  - intros m Hm Hp. pose proof (exit_states name c m) as (_ & [E|(_ & _ & _ & E)] & Hni); [|congruence].
    rewrite E in Hp. pose proof (I1 m Hm Hp) as Hin.
    unfold exit_stack_of. destruct name as [n|]; [|exact Hin].
    destruct (truthy (Some n)) eqn:Et; [|exact Hin].
    destruct (str_eq_dec m n) as [->|Hne]; [exfalso; apply (Hni eq_refl eq_refl); congruence|].
    destruct (mem_str n (stack c)); [apply In_remove1_other; assumption | exact Hin].
  - intros m Hin. pose proof (exit_stack_incl name (stack c) m Hin) as Hin0.
    pose proof (exit_states name c m) as (_ & [E|(Hn & Ht & _ & _)] & _).
    + rewrite E. apply I3. exact Hin0.
    + exfalso. subst name. exact (exit_stack_notin m (stack c) Ht N Hin).
Qed.

(* the RETURN_EXISTING fall-through: reset to NOT_STARTED right after the balancing exit *)
Lemma reset_Inv : forall n c,
  Inv c -> ~ In n (stack c) -> Inv (add_fell (set_state c n NotStarted) n).
Proof.
  intros n c (N & I1 & I3) Hn. unfold Inv. cbn [stack add_fell set_state set_states].
  assert (S : forall m, state_of (add_fell (set_state c n NotStarted) n) m = if str_eqb m n then NotStarted else state_of c m)
    by (intro m; apply (state_of_aset c); reflexivity).
  split; [exact N|]. split.
  - intros m Hm Hp. rewrite S in Hp. destruct (str_eqb m n); [discriminate | auto].
  - intros m Hin. rewrite S. destruct (str_eqb m n) eqn:E; [|apply I3; exact Hin].
    apply str_eqb_eq in E. subst m. contradiction.
Qed.

Lemma run_list_Inv : forall l,
  Forall (fun t => forall c, Inv c -> Inv (run c t)) l -> forall c, Inv c -> Inv (run_list c l).
Proof. induction 1 as [|t r Ht _ IH]; intros c Hc; cbn [run_list]; auto. Qed.

Theorem run_Inv : forall t c, Inv c -> Inv (run c t).
Proof.
  induction t as [k|k|name allow body IH] using call_ind2; intros c Hc.
  - apply (Inv_same_core _ c); [repeat split | exact Hc].
  - apply (Inv_same_core _ c); [repeat split | exact Hc].
  - rewrite run_Call. unfold call_step.
    pose proof (run_list_Inv body IH) as HL.
    assert (H0 : Inv (set_allow (frame_in c name) allow)) by (apply (Inv_same_core _ c); [repeat split | exact Hc]).
    destruct (enter name (set_allow (frame_in c name) allow)) as [c1 a] eqn:E.
    pose proof (enter_Inv _ _ _ _ H0 E) as H1.
    assert (Out : forall X, Inv X -> Inv (frame_out X)) by (intros X HX; apply (Inv_same_core _ X); [repeat split | exact HX]).
    apply Out. destruct a.
    + apply exit_Inv, HL, H1.
    + apply exit_Inv, H1.
    + apply exit_Inv, H1.
    + pose proof (exit_Inv name c1 H1) as H2. destruct name as [n|].
      * destruct (truthy (Some n)) eqn:Et.
        -- destruct (registered (exit (Some n) c1) n); [exact H2|].
           apply exit_Inv, HL, reset_Inv; [exact H2|].
           rewrite exit_stack. apply exit_stack_notin; [exact Et | apply H1].
        -- apply exit_Inv, HL, H2.
      * apply exit_Inv, HL, H2.
Qed.

Theorem run_list_Inv_all : forall l c, Inv c -> Inv (run_list c l).
Proof. intros l. apply run_list_Inv. apply Forall_forall. intros t _. apply run_Inv. Qed.

(* ---------- every entered schema is touched: its state left NOT_STARTED for good, unless it fell through ---------- *)
Definition touched (n : str) (c : ctx) : Prop := state_of c n <> NotStarted \/ In n (g_fell c).
Definition all_touched (c : ctx) : Prop := forall n, In n (g_entered c) -> touched n c.

Lemma check_entered : forall name c, g_entered (fst (check name c)) = g_entered c.
Proof.
  intros name c. unfold check. destruct name as [n|]; [|reflexivity].
  assert (C : g_entered (cycle_placeholder n c) = g_entered c).
  { unfold cycle_placeholder. cbv zeta. destruct (should_store n (cycle_path n (stack c)));
      destruct (allow_self c && is_direct (cycle_path n (stack c))); reflexivity. }
  destruct (state_of c n); try reflexivity;
    (destruct (max_depth c <? depth c); [reflexivity|]);
    (destruct (mem_str n (stack c)); [exact C | reflexivity]).
Qed.

Lemma enter_entered : forall name c c' a, enter name c = (c', a) -> g_entered c' = g_entered c.
Proof.
  intros name c c' a H. unfold enter in H.
  pose proof (check_entered name (set_depth c (depth c + 1))) as K.
  destruct (check name (set_depth c (depth c + 1))) as [c2 a2]. cbn [fst] in K.
  destruct a2; destruct name as [n|]; try (inversion H; subst; exact K).
  destruct (truthy (Some n)); inversion H; subst; exact K.
Qed.

Lemma exit_entered : forall name c, g_entered (exit name c) = g_entered c.
Proof.
  intros name c. unfold exit.
  assert (H1 : g_entered (if 0 <? depth c then set_depth c (depth c - 1) else c) = g_entered c)
    by (destruct (0 <? depth c); reflexivity).
  destruct name as [n|]; [|exact H1].
  destruct (truthy (Some n)); [|exact H1]. cbv zeta.
  destruct (mem_str n (stack (if 0 <? depth c then set_depth c (depth c - 1) else c)));
    match goal with |- context [alookup ?k ?d] => destruct (alookup k d) as [[]|] end; exact H1.
Qed.

Lemma check_touches : forall n c, Inv c -> state_of (fst (check (Some n) c)) n <> NotStarted.
Proof.
  intros n c (_ & _ & I3). unfold check.
  pose proof (depth_placeholder_same n c) as (_ & _ & _ & D4).
  pose proof (cycle_placeholder_same n c) as (_ & _ & _ & C4).
  assert (A : forall c' s, states c' = aset (states c) n s -> state_of c' n = s)
    by (intros c' s H; rewrite (state_of_aset c c' n s n H), str_eqb_refl; reflexivity).
  destruct (state_of c n) eqn:Es; cbn [fst]; try (rewrite Es; discriminate);
    (destruct (max_depth c <? depth c); [cbn [fst]; rewrite (A _ _ D4); discriminate|]);
    (destruct (mem_str n (stack c)) eqn:Em; cbn [fst];
     [ destruct C4 as [C4|[C4|C4]];
       [ unfold state_of; rewrite C4; apply mem_str_In in Em; apply (I3 n Em)
       | rewrite (A _ _ C4); discriminate | rewrite (A _ _ C4); discriminate ]
     | rewrite state_of_set_state, str_eqb_refl; discriminate ]).
Qed.

Lemma touched_enter : forall m name c c' a, enter name c = (c', a) -> touched m c -> touched m c'.
Proof.
  intros m name c c' a H [T|T].
  - apply enter_unfold in H. destruct H as (c2 & Hc & Hst & _).
    left. unfold state_of. rewrite Hst. fold (state_of c2 m).
    pose proof (check_states name (set_depth c (depth c + 1)) m) as [_ K]. rewrite Hc in K. cbn [fst snd] in K.
    destruct K as [E|(_ & [E|[E|[E|[E _]]]])]; rewrite E; try discriminate. exact T.
  - right. apply enter_unfold in H. destruct H as (c2 & Hc & _ & Hf & _). rewrite Hf.
    pose proof (check_states name (set_depth c (depth c + 1)) m) as [K _]. rewrite Hc in K. cbn [fst] in K.
    rewrite K. exact T.
Qed.

Lemma touched_exit : forall m name c, touched m c -> touched m (exit name c).
Proof.
  intros m name c [T|T]; pose proof (exit_states name c m) as (Hf & [E|(_ & _ & _ & E)] & _).
  - left. rewrite E. exact T.
  - left. rewrite E. discriminate.
  - right. rewrite Hf. exact T.
  - right. rewrite Hf. exact T.
Qed.

Lemma touched_reset : forall m n c, touched m c -> touched m (add_fell (set_state c n NotStarted) n).
Proof.
  intros m n c T. unfold touched. cbn [g_fell add_fell set_state set_states].
  destruct (str_eq_dec m n) as [->|Hne]; [right; apply in_or_app; right; left; reflexivity|].
  destruct T as [T|T]; [left | right; apply in_or_app; left; exact T].
  rewrite (state_of_aset c (add_fell (set_state c n NotStarted) n) n NotStarted m) by reflexivity.
  apply str_eqb_neq in Hne. rewrite Hne. exact T.
Qed.

Lemma touched_same_core : forall m c' c, same_core c' c -> touched m c -> touched m c'.
Proof.
  intros m c' c Hc T. pose proof Hc as (_ & _ & Hf). unfold touched.
  rewrite (same_core_state c' c m Hc), Hf. exact T.
Qed.

Definition good (c : ctx) : Prop := Inv c /\ all_touched c.

Lemma good_same_core : forall c' c, same_core c' c -> g_entered c' = g_entered c -> good c -> good c'.
Proof.
  intros c' c Hc He [HI HT]. split; [eapply Inv_same_core; eassumption|].
  intros n Hn. rewrite He in Hn. eapply touched_same_core; [exact Hc | apply HT; exact Hn].
Qed.

Lemma good_exit : forall name c, good c -> good (exit name c).
Proof.
  intros name c [HI HT]. split; [apply exit_Inv; exact HI|].
  intros n Hn. rewrite exit_entered in Hn. apply touched_exit, HT, Hn.
Qed.

Lemma good_run_list : forall l,
  Forall (fun t => forall c, good c -> good (run c t)) l -> forall c, good c -> good (run_list c l).
Proof. induction 1 as [|t r Ht _ IH]; intros c Hc; cbn [run_list]; auto. Qed.

Theorem run_good : forall t c, good c -> good (run c t).
Proof.
  induction t as [k|k|name allow body IH] using call_ind2; intros c Hc.
  - apply (good_same_core _ c); [repeat split | reflexivity | exact Hc].
  - apply (good_same_core _ c); [repeat split | reflexivity | exact Hc].
  - rewrite run_Call. unfold call_step.
    pose proof (good_run_list body IH) as HL.
    set (c0 := set_allow (frame_in c name) allow).
    assert (Hcore : same_core c0 c) by (repeat split).
    assert (H0 : Inv c0) by (apply (Inv_same_core _ c); [exact Hcore | apply Hc]).
    destruct (enter name c0) as [c1 a] eqn:E.
    assert (H1 : good c1).
    { split; [exact (enter_Inv _ _ _ _ H0 E)|].
      intros m Hm. rewrite (enter_entered _ _ _ _ E) in Hm.
      assert (Hm' : In m (g_entered c) \/ name = Some m).
      { unfold c0 in Hm. cbn [g_entered set_allow frame_in note_entered set_nest] in Hm.
        destruct name as [n|]; [|left; exact Hm].
        apply in_app_or in Hm. destruct Hm as [Hm|[Hm|[]]]; [left; exact Hm | right; congruence]. }
      destruct Hm' as [Hm'|Hm'].
      - eapply touched_enter; [exact E|]. eapply touched_same_core; [exact Hcore|]. apply Hc. exact Hm'.
      - subst name. left. pose proof E as E'. apply enter_unfold in E'. destruct E' as (c2 & Hck & Hst & _).
        unfold state_of. rewrite Hst. fold (state_of c2 m).
        assert (Hd : Inv (set_depth c0 (depth c0 + 1))) by (apply (Inv_same_core _ c0); [repeat split | exact H0]).
        pose proof (check_touches m _ Hd) as K. rewrite Hck in K. exact K. }
    assert (Out : forall X, good X -> good (frame_out X))
      by (intros X HX; apply (good_same_core _ X); [repeat split | reflexivity | exact HX]).
    apply Out. destruct a.
    + apply good_exit, HL, H1.
    + apply good_exit, H1.
    + apply good_exit, H1.
    + pose proof (good_exit name c1 H1) as H2. destruct name as [n|].
      * destruct (truthy (Some n)) eqn:Et.
        -- destruct (registered (exit (Some n) c1) n); [exact H2|].
           apply good_exit, HL. split.
           ++ apply reset_Inv; [apply H2|]. rewrite exit_stack. apply exit_stack_notin; [exact Et | apply H1].
           ++ intros m Hm. apply touched_reset. apply H2. exact Hm.
        -- apply good_exit, HL, H2.
      * apply good_exit, HL, H2.
Qed.

Theorem run_list_good : forall l c, good c -> good (run_list c l).
Proof. intros l. apply good_run_list. apply Forall_forall. intros t _. apply run_good. Qed.

Lemma good_init : forall md, good (init md).
Proof. intro md. split; [apply Inv_init | intros n []]. Qed.

(* ---------- C08, terminal states ---------- *)
(* At rest, a schema that was entered is in a terminal state unless it took the fall-through (F08b)
   or is the empty name (F08d). *)
Theorem terminal_or_fell : forall c n,
  good c -> rest c -> In n (g_entered c) -> n <> [] ->
  terminal (state_of c n) = true \/ In n (g_fell c).
Proof.
  intros c n [(_ & I1 & _) HT] [Hs _] Hn Hne.
  destruct (HT n Hn) as [T|T]; [|right; exact T].
  left. destruct (state_of c n) eqn:E; try reflexivity; [congruence|].
  exfalso. pose proof (I1 n Hne E) as Hin. rewrite Hs in Hin. exact Hin.
Qed.

(* ---------- the logging execution computes the same context as [run] ---------- *)
Lemma run_body_acc_eq : forall l c acc,
  (fix run_body (c : ctx) (acc : list event) (l : list call) {struct l} : ctx * list event :=
     match l with
     | [] => (c, acc)
     | t :: r => let (c', acc') := run_acc c acc t in run_body c' acc' r
     end) c acc l = run_list_acc c acc l.
Proof. induction l as [|t r IH]; intros c acc; [reflexivity|]. cbn [run_list_acc]. destruct (run_acc c acc t). apply IH. Qed.

Lemma run_list_acc_fst : forall l,
  Forall (fun t => forall c acc, fst (run_acc c acc t) = run c t) l ->
  forall c acc, fst (run_list_acc c acc l) = run_list c l.
Proof.
  induction 1 as [|t r Ht _ IH]; intros c acc; [reflexivity|].
  cbn [run_list_acc run_list]. specialize (Ht c acc). destruct (run_acc c acc t) as [c' acc'].
  cbn [fst] in Ht. subst c'. apply IH.
Qed.

Theorem run_acc_fst : forall t c acc, fst (run_acc c acc t) = run c t.
Proof.
  induction t as [k|k|name allow body IH] using call_ind2; intros c acc; try reflexivity.
  pose proof (run_list_acc_fst body IH) as HL.
  rewrite run_Call. unfold call_step. cbn [run_acc].
  destruct (enter name (set_allow (frame_in c name) allow)) as [c1 a].
  assert (K : forall x y,
    fst (let (c3, acc3) := run_list_acc x y body in (frame_out (exit name c3), log_exit (exit name c3) acc3))
    = frame_out (exit name (run_list x body))).
  { intros x y. specialize (HL x y). destruct (run_list_acc x y body) as [c3 acc3]. cbn [fst] in *. subst c3. reflexivity. }
  destruct a.
  - cbv beta iota zeta. rewrite run_body_acc_eq. apply K.
  - reflexivity.
  - reflexivity.
  - destruct name as [n|].
    + destruct (truthy (Some n)).
      * destruct (registered (exit (Some n) c1) n); [reflexivity|].
        cbv beta iota zeta. rewrite run_body_acc_eq. apply K.
      * cbv beta iota zeta. rewrite run_body_acc_eq. apply K.
    + cbv beta iota zeta. rewrite run_body_acc_eq. apply K.
Qed.

(* ---------- counted depth ---------- *)
Lemma check_peak : forall name c,
  g_peak (fst (check name c)) = g_peak c /\ max_depth (fst (check name c)) = max_depth c.
Proof.
  intros name c. unfold check. destruct name as [n|]; [|split; reflexivity].
  assert (C : g_peak (cycle_placeholder n c) = g_peak c /\ max_depth (cycle_placeholder n c) = max_depth c).
  { unfold cycle_placeholder. cbv zeta. destruct (should_store n (cycle_path n (stack c)));
      destruct (allow_self c && is_direct (cycle_path n (stack c))); split; reflexivity. }
  destruct (state_of c n); try (split; reflexivity);
    (destruct (max_depth c <? depth c); [split; reflexivity|]);
    (destruct (mem_str n (stack c)); [exact C | split; reflexivity]).
Qed.

Lemma enter_peak : forall name c c' a,
  enter name c = (c', a) -> g_peak c' = N.max (g_peak c) (depth c + 1) /\ max_depth c' = max_depth c.
Proof.
  intros name c c' a H. unfold enter in H.
  pose proof (check_peak name (set_depth c (depth c + 1))) as K.
  destruct (check name (set_depth c (depth c + 1))) as [c2 a2]. cbn [fst g_peak max_depth set_depth] in K.
  destruct a2; destruct name as [n|]; try (inversion H; subst; exact K).
  destruct (truthy (Some n)); inversion H; subst; exact K.
Qed.

Lemma exit_peak : forall name c,
  g_peak (exit name c) <= N.max (g_peak c) (depth c) /\ max_depth (exit name c) = max_depth c.
Proof.
  intros name c. unfold exit.
  set (c1 := if 0 <? depth c then set_depth c (depth c - 1) else c).
  assert (H1 : g_peak c1 <= N.max (g_peak c) (depth c) /\ max_depth c1 = max_depth c).
  { unfold c1. destruct (0 <? depth c); cbn [g_peak max_depth set_depth]; split; try reflexivity; lia. }
  destruct name as [n|]; [|exact H1].
  destruct (truthy (Some n)); [|exact H1]. cbv zeta.
  destruct (mem_str n (stack c1));
    match goal with |- context [alookup ?k ?d] => destruct (alookup k d) as [[]|] end; exact H1.
Qed.

Definition depth_ok (t : call) : Prop :=
  forall c, NoDup (stack c) -> depth c <= max_depth c ->
            g_peak (run c t) <= N.max (g_peak c) (max_depth c + 1) /\ max_depth (run c t) = max_depth c.

Lemma depth_ok_list : forall l, Forall depth_ok l ->
  forall c, NoDup (stack c) -> depth c <= max_depth c ->
            g_peak (run_list c l) <= N.max (g_peak c) (max_depth c + 1) /\ max_depth (run_list c l) = max_depth c.
Proof.
  induction 1 as [|t r Ht _ IH]; intros c Hn Hd; cbn [run_list]; [split; [lia | reflexivity]|].
  destruct (Ht c Hn Hd) as [P1 M1]. destruct (run_below t c Hn) as (N1 & _ & D1).
  destruct (IH (run c t) N1) as [P2 M2]; [lia|]. split; [lia | congruence].
Qed.

Lemma all_named_Call : forall name allow body,
  all_named (Call name allow body) = true -> truthy name = true /\ Forall (fun t => all_named t = true) body.
Proof.
  intros name allow body H. cbn [all_named] in H. apply andb_true_iff in H. destruct H as [H1 H2].
  split; [exact H1|]. induction body as [|x r IH]; constructor; apply andb_true_iff in H2; destruct H2; auto.
Qed.

(* In a tree of NAMED frames, started at counted depth <= limit, the counted depth never exceeds limit + 1
   (the frame at limit + 1 is the one that receives the depth placeholder). *)
Theorem depth_named : forall t, all_named t = true -> depth_ok t.
Proof.
  induction t as [k|k|name allow body IH] using call_ind2; intro Hnamed.
  - intros c _ _. cbn. split; [lia | reflexivity].
  - intros c _ _. cbn. split; [lia | reflexivity].
  - apply all_named_Call in Hnamed. destruct Hnamed as [Ht Hb].
    assert (IH' : Forall depth_ok body).
    { apply Forall_forall. intros x Hx. rewrite Forall_forall in IH, Hb. apply IH; auto. }
    pose proof (depth_ok_list body IH') as HL. clear IH IH' Hb.
    intros c Hn Hd. rewrite run_Call. unfold call_step.
    set (c0 := set_allow (frame_in c name) allow).
    destruct (enter name c0) as [c1 a] eqn:E.
    pose proof (enter_peak _ _ _ _ E) as [P1 M1].
    pose proof (enter_spec _ _ _ _ E) as [D1 S1].
    assert (N1 : NoDup (stack c1)).
    { destruct S1 as [S1|(n & _ & _ & _ & Hm & S1)]; rewrite S1; [exact Hn|].
      apply NoDup_app_intro_single; [exact Hn | apply mem_str_false; exact Hm]. }
    change (g_peak c0) with (g_peak c) in P1. change (depth c0) with (depth c) in P1, D1.
    change (max_depth c0) with (max_depth c) in M1.
    assert (Fin : forall Y, NoDup (stack Y) -> depth Y <= depth c + 1 ->
                  g_peak Y <= N.max (g_peak c) (max_depth c + 1) -> max_depth Y = max_depth c ->
                  g_peak (frame_out (exit name Y)) <= N.max (g_peak c) (max_depth c + 1)
                  /\ max_depth (frame_out (exit name Y)) = max_depth c).
    { intros Y _ DY PY MY. pose proof (exit_peak name Y) as [PE ME].
      change (g_peak (frame_out (exit name Y))) with (g_peak (exit name Y)).
      change (max_depth (frame_out (exit name Y))) with (max_depth (exit name Y)). split; [lia | congruence]. }
    assert (Body : forall X, NoDup (stack X) -> depth X <= max_depth c -> depth X <= depth c + 1 ->
                   g_peak X <= N.max (g_peak c) (max_depth c + 1) -> max_depth X = max_depth c ->
                   g_peak (frame_out (exit name (run_list X body))) <= N.max (g_peak c) (max_depth c + 1)
                   /\ max_depth (frame_out (exit name (run_list X body))) = max_depth c).
    { intros X NX DX DX' PX MX.
      destruct (HL X NX) as [P2 M2]; [lia|].
      destruct (run_list_below_all body X NX) as (N2 & _ & D2).
      apply Fin; [exact N2 | lia | rewrite MX in P2; lia | congruence]. }
    destruct a.
    + (* CONTINUE: the depth check passed *)
      destruct name as [n|]; [|discriminate].
      unfold enter in E. destruct (check (Some n) (set_depth c0 (depth c0 + 1))) as [c2 a2] eqn:Ec.
      assert (a2 = AContinue) by (destruct a2; try (inversion E; reflexivity); destruct (truthy (Some n)); inversion E; reflexivity).
      subst a2. apply check_continue in Ec. destruct Ec as (_ & _ & Dchk & _).
      cbn [depth max_depth set_depth] in Dchk. change (depth c0) with (depth c) in Dchk.
      change (max_depth c0) with (max_depth c) in Dchk.
      apply Body; [exact N1 | lia | lia | lia | exact M1].
    + apply Fin; [exact N1 | lia | lia | exact M1].
    + apply Fin; [exact N1 | lia | lia | exact M1].
    + destruct name as [n|]; [|discriminate]. rewrite Ht.
      pose proof (below_exit (Some n) c1 N1) as (N2 & _ & _).
      pose proof (exit_depth (Some n) c1) as D2. pose proof (exit_peak (Some n) c1) as [P2 M2].
      assert (E0 : (0 <? depth c1) = true) by (apply N.ltb_lt; lia). rewrite E0 in D2.
      destruct (registered (exit (Some n) c1) n).
      * change (g_peak (frame_out (exit (Some n) c1))) with (g_peak (exit (Some n) c1)).
        change (max_depth (frame_out (exit (Some n) c1))) with (max_depth (exit (Some n) c1)).
        split; [lia | congruence].
      * apply Body; cbn [stack depth g_peak max_depth add_fell set_state set_states]; try lia; try congruence.
Qed.

(* ---------- F08a: anonymous nesting is not limited by any check ---------- *)
Lemma enter_None : forall c, enter None c = (set_depth c (depth c + 1), AContinue).
Proof. reflexivity. Qed.

Lemma anon_chain_run : forall k c,
  let r := run c (anon_chain k) in
  g_peak_nest r = N.max (g_peak_nest c) (g_nest c + N.of_nat k + 1) /\ g_nest r = g_nest c
  /\ g_peak r = N.max (g_peak c) (depth c + N.of_nat k + 1) /\ depth r = depth c
  /\ exceeded r = exceeded c /\ states r = states c /\ stack r = stack c /\ parsed r = parsed c.
Proof.
  induction k as [|k IH]; intro c.
  - cbn [anon_chain]. rewrite run_Call. unfold call_step. rewrite enter_None. cbn [run_list].
    cbn -[N.max N.add N.sub N.ltb]. 
    assert (E : (0 <? depth c + 1) = true) by (apply N.ltb_lt; lia). rewrite E.
    cbn -[N.max N.add N.sub N.ltb]. repeat split; lia.
  - cbn [anon_chain]. rewrite run_Call. unfold call_step. rewrite enter_None. cbn [run_list].
    set (c1 := set_depth (set_allow (frame_in c None) false) (depth (set_allow (frame_in c None) false) + 1)).
    destruct (IH c1) as (H1 & H2 & H3 & H4 & H5 & H6 & H7 & H8).
    set (r := run c1 (anon_chain k)) in *.
    assert (D : depth r = depth c + 1) by (rewrite H4; reflexivity).
    assert (E : (0 <? depth r) = true) by (apply N.ltb_lt; lia).
    unfold exit. rewrite E.
    cbn -[N.max N.add N.sub N.ltb N.of_nat] in *.
    rewrite H1, H2, H3, H4, H5, H6, H7, H8. repeat split; lia.
Qed.

(* ---------- witnesses rebuilt from the implementation's traces (corpus/C08) ---------- *)
(* F08b: A{p0:[$ref C]}, C{p0:[$ref A], p1: oneOf[$ref A, string]}, B: string, declared in the order C, A, B *)
Definition tops_F08b : list call := [(Call (Some [67]) true [(Call None true [(Call None true [(Call (Some [65]) true [(Call None true [(Call None true [(Call (Some [67]) true [])]); (Call None true [(Call (Some [67]) true [(Call None true [(Call None true [(Call (Some [65]) true [])]); (Call None true [])]); (Call (Some [67;80;49]) true [(Call None true []); (Call None true []); (Reg [67;112;49])]); (Reg [67])])])])])]); (Call None true [])]); (Call (Some [67;80;49]) true [(Call None true []); (Call None true []); (Reg [67;80;49])])]); (Call (Some [66]) true [(Reg [66])])].

(* F08c (fixed): Alias: {$ref: Target}; Target: object — the call tree of the fixed implementation registers the
   declared alias under its own name (regression witness, corpus/C08/F08c.json) *)
Definition tops_F08c : list call := [(Call (Some [65;108;105;97;115]) true [(Call (Some [84;97;114;103;101;116]) true [(Call None true []); (Reg [84;97;114;103;101;116])]); (Reg [65;108;105;97;115])])].
Definition declared_F08c : list str := [[65;108;105;97;115]; [84;97;114;103;101;116]].

(* F08d (fixed in the loader: build_schemas rejects a schema keyed by the empty string, so the tracker never sees
   it; corpus/C08/F08d.json now yields an empty trace).  The tracker itself still tests `is None` in check but
   truthiness in enter/exit; this is why the theorems about names carry the hypothesis n <> []: *)
Definition tops_empty_name : list call := [(Call (Some []) true [(Call None true [])])].

(* non-vacuity: a three-schema ring A -> B -(map)-> C -> A with C also referring to itself through oneOf:
   two structural cycles are cut by placeholders, no fall-through happens, five names are entered *)
Definition tops_ring : list call := [(Call (Some [65]) true [(Call (Some [66]) true [(Call (Some [66;80;48]) true [(Call None true [(Call (Some [67]) true [(Call (Some [65]) true []); (Call (Some [67;80;49]) true [(Call None true [(Call (Some [67]) true [])]); (Call None true []); (Reg [67;112;49])])])]); (Reg [66;112;48])]); (Reg [66])]); (Reg [65])])].

(* ---------- true nesting = counted depth as long as no fall-through happens ---------- *)
Lemma check_nest : forall name c,
  g_nest (fst (check name c)) = g_nest c /\ g_peak_nest (fst (check name c)) = g_peak_nest c.
Proof.
  intros name c. unfold check. destruct name as [n|]; [|split; reflexivity].
  assert (C : g_nest (cycle_placeholder n c) = g_nest c /\ g_peak_nest (cycle_placeholder n c) = g_peak_nest c).
  { unfold cycle_placeholder. cbv zeta. destruct (should_store n (cycle_path n (stack c)));
      destruct (allow_self c && is_direct (cycle_path n (stack c))); split; reflexivity. }
  destruct (state_of c n); try (split; reflexivity);
    (destruct (max_depth c <? depth c); [split; reflexivity|]);
    (destruct (mem_str n (stack c)); [exact C | split; reflexivity]).
Qed.

Lemma enter_nest : forall name c c' a,
  enter name c = (c', a) -> g_nest c' = g_nest c /\ g_peak_nest c' = g_peak_nest c.
Proof.
  intros name c c' a H. unfold enter in H.
  pose proof (check_nest name (set_depth c (depth c + 1))) as K.
  destruct (check name (set_depth c (depth c + 1))) as [c2 a2]. cbn [fst g_nest g_peak_nest set_depth] in K.
  destruct a2; destruct name as [n|]; try (inversion H; subst; exact K).
  destruct (truthy (Some n)); inversion H; subst; exact K.
Qed.

Lemma exit_ghost : forall name c,
  g_nest (exit name c) = g_nest c /\ g_peak_nest (exit name c) = g_peak_nest c
  /\ g_peak (exit name c) = (if 0 <? depth c then N.max (g_peak c) (depth c - 1) else g_peak c).
Proof.
  intros name c. unfold exit.
  set (c1 := if 0 <? depth c then set_depth c (depth c - 1) else c).
  assert (H1 : g_nest c1 = g_nest c /\ g_peak_nest c1 = g_peak_nest c
               /\ g_peak c1 = (if 0 <? depth c then N.max (g_peak c) (depth c - 1) else g_peak c)).
  { unfold c1. destruct (0 <? depth c); repeat split; reflexivity. }
  destruct name as [n|]; [|exact H1].
  destruct (truthy (Some n)); [|exact H1]. cbv zeta.
  destruct (mem_str n (stack c1));
    match goal with |- context [alookup ?k ?d] => destruct (alookup k d) as [[]|] end; exact H1.
Qed.

Definition fell_ext (c' c : ctx) : Prop := exists l, g_fell c' = g_fell c ++ l.

Lemma fell_ext_refl : forall c, fell_ext c c.
Proof. intro c. exists []. rewrite app_nil_r. reflexivity. Qed.

Lemma fell_ext_trans : forall a b c, fell_ext a b -> fell_ext b c -> fell_ext a c.
Proof. intros a b c [l1 H1] [l2 H2]. exists (l2 ++ l1). rewrite H1, H2, app_assoc. reflexivity. Qed.

Lemma fell_ext_eq : forall c' c, g_fell c' = g_fell c -> fell_ext c' c.
Proof. intros c' c H. exists []. rewrite app_nil_r. exact H. Qed.

Lemma fell_ext_nil : forall c' c, fell_ext c' c -> g_fell c' = [] -> g_fell c = [].
Proof. intros c' c [l H] E. rewrite H in E. apply app_eq_nil in E. tauto. Qed.

Lemma enter_fell : forall name c c' a, enter name c = (c', a) -> g_fell c' = g_fell c.
Proof.
  intros name c c' a H. apply enter_unfold in H. destruct H as (c2 & Hc & _ & Hf & _).
  pose proof (check_states name (set_depth c (depth c + 1)) []) as [K _]. rewrite Hc in K. cbn [fst] in K.
  rewrite Hf, K. reflexivity.
Qed.

Lemma exit_fell : forall name c, g_fell (exit name c) = g_fell c.
Proof. intros name c. pose proof (exit_states name c []) as [K _]. exact K. Qed.

Lemma run_list_fell_ext : forall l,
  Forall (fun t => forall c, fell_ext (run c t) c) l -> forall c, fell_ext (run_list c l) c.
Proof.
  induction 1 as [|t r Ht _ IH]; intro c; cbn [run_list]; [apply fell_ext_refl|].
  eapply fell_ext_trans; [apply IH | apply Ht].
Qed.

Theorem run_fell_ext : forall t c, fell_ext (run c t) c.
Proof.
  induction t as [k|k|name allow body IH] using call_ind2; intro c;
    [apply fell_ext_eq; reflexivity | apply fell_ext_eq; reflexivity |].
  rewrite run_Call. unfold call_step.
  pose proof (run_list_fell_ext body IH) as HL.
  destruct (enter name (set_allow (frame_in c name) allow)) as [c1 a] eqn:E.
  apply enter_fell in E. cbn [g_fell set_allow frame_in note_entered set_nest] in E.
  assert (F1 : fell_ext c1 c) by (apply fell_ext_eq; exact E).
  assert (Ex : forall Y, fell_ext Y c -> fell_ext (frame_out (exit name Y)) c).
  { intros Y HY. eapply fell_ext_trans; [|exact HY]. apply fell_ext_eq.
    change (g_fell (frame_out (exit name Y))) with (g_fell (exit name Y)). apply exit_fell. }
  destruct a.
  - apply Ex. eapply fell_ext_trans; [apply HL | exact F1].
  - apply Ex. exact F1.
  - apply Ex. exact F1.
  - assert (F2 : fell_ext (exit name c1) c).
    { eapply fell_ext_trans; [|exact F1]. apply fell_ext_eq. apply exit_fell. }
    destruct name as [n|].
    + destruct (truthy (Some n)).
      * destruct (registered (exit (Some n) c1) n).
        -- eapply fell_ext_trans; [|exact F2]. apply fell_ext_eq. reflexivity.
        -- apply Ex. eapply fell_ext_trans; [apply HL|].
           eapply fell_ext_trans; [|exact F2]. exists [n]. reflexivity.
      * apply Ex. eapply fell_ext_trans; [apply HL | exact F2].
    + apply Ex. eapply fell_ext_trans; [apply HL | exact F2].
Qed.

Theorem run_list_fell_ext_all : forall l c, fell_ext (run_list c l) c.
Proof. intros l. apply run_list_fell_ext. apply Forall_forall. intros t _. apply run_fell_ext. Qed.

(* the nesting counter is restored by every call *)
Lemma run_list_nest : forall l,
  Forall (fun t => forall c, g_nest (run c t) = g_nest c) l -> forall c, g_nest (run_list c l) = g_nest c.
Proof.
  induction 1 as [|t r Ht _ IH]; intro c; cbn [run_list]; [reflexivity|]. rewrite IH. apply Ht.
Qed.

Theorem run_nest : forall t c, g_nest (run c t) = g_nest c.
Proof.
  induction t as [k|k|name allow body IH] using call_ind2; intro c; try reflexivity.
  rewrite run_Call. unfold call_step.
  pose proof (run_list_nest body IH) as HL.
  destruct (enter name (set_allow (frame_in c name) allow)) as [c1 a] eqn:E.
  apply enter_nest in E. destruct E as [E _].
  change (g_nest (set_allow (frame_in c name) allow)) with (g_nest c + 1) in E.
  assert (Ex : forall Y, g_nest Y = g_nest c + 1 -> g_nest (frame_out (exit name Y)) = g_nest c).
  { intros Y HY. change (g_nest (frame_out (exit name Y))) with (g_nest (exit name Y) - 1).
    pose proof (exit_ghost name Y) as (G & _). lia. }
  assert (E2 : g_nest (exit name c1) = g_nest c + 1) by (pose proof (exit_ghost name c1) as (G & _); lia).
  destruct a.
  - apply Ex. rewrite HL. exact E.
  - apply Ex. exact E.
  - apply Ex. exact E.
  - destruct name as [n|].
    + destruct (truthy (Some n)).
      * destruct (registered (exit (Some n) c1) n).
        -- change (g_nest (frame_out (exit (Some n) c1))) with (g_nest (exit (Some n) c1) - 1). lia.
        -- apply Ex. rewrite HL. exact E2.
      * apply Ex. rewrite HL. exact E2.
    + apply Ex. rewrite HL. exact E2.
Qed.

Theorem run_list_nest_all : forall l c, g_nest (run_list c l) = g_nest c.
Proof. intros l. apply run_list_nest. apply Forall_forall. intros t _. apply run_nest. Qed.

Definition synced (c : ctx) : Prop :=
  depth c = g_nest c /\ g_peak c = g_peak_nest c /\ depth c <= g_peak c.

Definition sync_ok (t : call) : Prop :=
  names_truthy t = true -> forall c, synced c -> g_fell (run c t) = [] -> synced (run c t).

Lemma sync_ok_list : forall l, Forall sync_ok l -> Forall (fun t => names_truthy t = true) l ->
  forall c, synced c -> g_fell (run_list c l) = [] -> synced (run_list c l).
Proof.
  induction 1 as [|t r Ht _ IH]; intros Hn c Hs Hf; cbn [run_list] in *; [exact Hs|].
  inversion Hn as [|? ? Hn1 Hn2]; subst.
  apply IH; [exact Hn2| |exact Hf]. apply Ht; [exact Hn1 | exact Hs|].
  eapply fell_ext_nil; [apply run_list_fell_ext_all | exact Hf].
Qed.

Lemma names_truthy_Call : forall name allow body,
  names_truthy (Call name allow body) = true ->
  name <> Some [] /\ Forall (fun t => names_truthy t = true) body.
Proof.
  intros name allow body H. cbn [names_truthy] in H. apply andb_true_iff in H. destruct H as [H1 H2].
  split; [intro; subst; discriminate|].
  induction body as [|x r IH]; constructor; apply andb_true_iff in H2; destruct H2; auto.
Qed.

(* without a fall-through (and without the empty name), the counted depth IS the true nesting of
   _parse_schema frames, at every moment *)
Theorem run_synced : forall t, sync_ok t.
Proof.
  induction t as [k|k|name allow body IH] using call_ind2; try (intros _ c Hs _; exact Hs).
  intro Hnt. apply names_truthy_Call in Hnt. destruct Hnt as [Hne Hnb].
  pose proof (sync_ok_list body IH Hnb) as HL. clear IH.
  intros c (S1 & S2 & S3). rewrite run_Call. unfold call_step.
  set (c0 := set_allow (frame_in c name) allow).
  destruct (enter name c0) as [c1 a] eqn:E.
  pose proof (enter_nest _ _ _ _ E) as [N1 N2]. pose proof (enter_peak _ _ _ _ E) as [P1 _].
  pose proof (enter_spec _ _ _ _ E) as [D1 _].
  change (g_nest c0) with (g_nest c + 1) in N1.
  change (g_peak_nest c0) with (N.max (g_peak_nest c) (g_nest c + 1)) in N2.
  change (g_peak c0) with (g_peak c) in P1. change (depth c0) with (depth c) in P1, D1.
  assert (Sy1 : synced c1) by (unfold synced; lia).
  assert (Fin : forall Y, synced Y -> g_nest Y = g_nest c + 1 -> synced (frame_out (exit name Y))).
  { intros Y (Y1 & Y2 & Y3) Y4. pose proof (exit_ghost name Y) as (G1 & G2 & G3).
    pose proof (exit_depth name Y) as G4.
    assert (E0 : (0 <? depth Y) = true) by (apply N.ltb_lt; lia). rewrite E0 in G3, G4.
    unfold synced.
    change (depth (frame_out (exit name Y))) with (depth (exit name Y)).
    change (g_peak (frame_out (exit name Y))) with (g_peak (exit name Y)).
    change (g_nest (frame_out (exit name Y))) with (g_nest (exit name Y) - 1).
    change (g_peak_nest (frame_out (exit name Y))) with (N.max (g_peak_nest (exit name Y)) (g_nest (exit name Y) - 1)).
    lia. }
  assert (Ff : forall Y, g_fell (frame_out (exit name Y)) = g_fell Y).
  { intro Y. change (g_fell (frame_out (exit name Y))) with (g_fell (exit name Y)). apply exit_fell. }
  destruct a.
  - intro Hf. rewrite Ff in Hf. apply Fin; [apply HL; assumption | rewrite run_list_nest_all; exact N1].
  - intros _. apply Fin; [exact Sy1 | exact N1].
  - intros _. apply Fin; [exact Sy1 | exact N1].
  - destruct name as [n|]; [|rewrite enter_None in E; discriminate].
    destruct n as [|x n]; [exfalso; apply Hne; reflexivity|]. cbn [truthy].
    match goal with |- context [registered ?a ?b] => destruct (registered a b) end.
    + intros _. apply Fin; [exact Sy1 | exact N1].
    + intro Hf. exfalso. rewrite Ff in Hf.
      match type of Hf with g_fell (run_list ?X body) = [] => pose proof (run_list_fell_ext_all body X) as [l Hl] end.
      rewrite Hl in Hf. cbn [g_fell add_fell] in Hf.
      apply app_eq_nil in Hf. destruct Hf as [Hf _]. apply app_eq_nil in Hf. destruct Hf as [_ Hf]. discriminate.
Qed.

(* ====================================================================================================== *)
(* build_schemas' top-level loop: [Plain] invocations and [Fresh] re-parses (state popped, then parsed)     *)
(* ====================================================================================================== *)
Lemma alookup_filter_key : forall {V} (d : list (str * V)) k m,
  alookup m (filter (fun kv => negb (str_eqb k (fst kv))) d) = if str_eqb m k then None else alookup m d.
Proof.
  induction d as [|[k' v] d IH]; intros k m; simpl.
  - destruct (str_eqb m k); reflexivity.
  - destruct (str_eqb k k') eqn:E1; simpl.
    + apply str_eqb_eq in E1. subst k'. rewrite IH. destruct (str_eqb m k); reflexivity.
    + rewrite IH. destruct (str_eqb m k') eqn:E2; [|reflexivity].
      apply str_eqb_eq in E2. subst k'. destruct (str_eqb m k) eqn:E3; [|reflexivity].
      apply str_eqb_eq in E3. subst m. rewrite str_eqb_refl in E1. discriminate.
Qed.

Lemma state_of_pop : forall c k m,
  state_of (pop_state c k) m = if str_eqb m k then NotStarted else state_of c m.
Proof.
  intros c k m. unfold state_of, pop_state. cbn [states set_states]. rewrite alookup_filter_key.
  destruct (str_eqb m k); reflexivity.
Qed.

Lemma below_pop : forall c k, below (pop_state c k) c.
Proof. intros c k. apply below_same; reflexivity. Qed.

Theorem run_top_below : forall x c, below (run_top c x) c.
Proof.
  intros [t|k t] c; cbn [run_top]; [apply run_below|].
  eapply below_trans; [apply run_below | apply below_pop].
Qed.

Theorem run_tops_below : forall l c, below (run_tops c l) c.
Proof.
  induction l as [|x r IH]; intro c; cbn [run_tops]; [apply below_refl|].
  eapply below_trans; [apply IH | apply run_top_below].
Qed.

(* C08, balance, for the whole loop of build_schemas (any number of passes, any re-parses) *)
Theorem balanced_tops : forall l c, rest c -> rest (run_tops c l).
Proof. intros l c. apply rest_of_below. apply run_tops_below. Qed.

(* an invocation whose own name may have lost its state just before (the re-parse of build_schemas) *)
Lemma call_good : forall name allow body c,
  Inv c -> (forall m, In m (g_entered c) -> touched m c \/ name = Some m) ->
  good (run c (Call name allow body)).
Proof.
  intros name allow body c HI HT.
  rewrite run_Call. unfold call_step.
  assert (HL : forall c, good c -> good (run_list c body)) by (intros; apply run_list_good; assumption).
  set (c0 := set_allow (frame_in c name) allow).
  assert (Hcore : same_core c0 c) by (repeat split).
  assert (H0 : Inv c0) by (apply (Inv_same_core _ c); [exact Hcore | exact HI]).
  destruct (enter name c0) as [c1 a] eqn:E.
  assert (H1 : good c1).
  { split; [exact (enter_Inv _ _ _ _ H0 E)|].
    intros m Hm. rewrite (enter_entered _ _ _ _ E) in Hm.
    assert (Hm' : touched m c \/ name = Some m).
    { unfold c0 in Hm. cbn [g_entered set_allow frame_in note_entered set_nest] in Hm.
      destruct name as [n|]; [|apply HT; exact Hm].
      apply in_app_or in Hm. destruct Hm as [Hm|[Hm|[]]]; [apply HT; exact Hm | right; congruence]. }
    destruct Hm' as [Hm'|Hm'].
    - eapply touched_enter; [exact E|]. eapply touched_same_core; [exact Hcore|]. exact Hm'.
    - subst name. left. pose proof E as E'. apply enter_unfold in E'. destruct E' as (c2 & Hck & Hst & _).
      unfold state_of. rewrite Hst. fold (state_of c2 m).
      assert (Hd : Inv (set_depth c0 (depth c0 + 1))) by (apply (Inv_same_core _ c0); [repeat split | exact H0]).
      pose proof (check_touches m _ Hd) as K. rewrite Hck in K. exact K. }
  assert (Out : forall X, good X -> good (frame_out X))
    by (intros X HX; apply (good_same_core _ X); [repeat split | reflexivity | exact HX]).
  apply Out. destruct a.
  - apply good_exit, HL, H1.
  - apply good_exit, H1.
  - apply good_exit, H1.
  - pose proof (good_exit name c1 H1) as H2. destruct name as [n|].
    + destruct (truthy (Some n)) eqn:Et.
      * destruct (registered (exit (Some n) c1) n); [exact H2|].
        apply good_exit, HL. split.
        -- apply reset_Inv; [apply H2|]. rewrite exit_stack. apply exit_stack_notin; [exact Et | apply H1].
        -- intros m Hm. apply touched_reset. apply H2. exact Hm.
      * apply good_exit, HL, H2.
    + apply good_exit, HL, H2.
Qed.

Lemma fresh_good : forall k t c,
  fresh_ok (Fresh k t) = true -> good c -> stack c = [] -> good (run (pop_state c k) t).
Proof.
  intros k t c Hok [(N & I1 & I3) HT] Hs.
  destruct t as [name allow body| |]; try discriminate. destruct name as [n|]; [|discriminate].
  cbn [fresh_ok] in Hok. apply str_eqb_eq in Hok. subst n.
  apply call_good.
  - unfold Inv. change (stack (pop_state c k)) with (stack c). rewrite Hs. split; [constructor|]. split.
    + intros m Hm Hp. rewrite state_of_pop in Hp. destruct (str_eqb m k); [discriminate|].
      rewrite <- Hs. apply I1; assumption.
    + intros m [].
  - intros m Hm. change (g_entered (pop_state c k)) with (g_entered c) in Hm.
    destruct (str_eq_dec m k) as [->|Hne]; [right; reflexivity|]. left.
    destruct (HT m Hm) as [T|T]; [left | right; exact T].
    rewrite state_of_pop. apply str_eqb_neq in Hne. rewrite Hne. exact T.
Qed.

Theorem good_tops : forall l c,
  forallb fresh_ok l = true -> good c -> rest c -> good (run_tops c l) /\ rest (run_tops c l).
Proof.
  induction l as [|x r IH]; intros c Hok Hg Hr; cbn [run_tops]; [split; assumption|].
  cbn [forallb] in Hok. apply andb_true_iff in Hok. destruct Hok as [Hx Hok].
  apply IH; [exact Hok| |].
  - destruct x as [t|k t]; cbn [run_top]; [apply run_good; exact Hg|].
    apply fresh_good; [exact Hx | exact Hg | apply Hr].
  - apply (rest_of_below _ c); [apply run_top_below | exact Hr].
Qed.

(* the logged execution of the loop computes the same final context *)
Theorem trace_final : forall tops c acc, fst (run_tops_acc c acc tops) = run_tops c tops.
Proof.
  induction tops as [|x r IH]; intros c acc; [reflexivity|]. cbn [run_tops_acc run_tops].
  assert (E : fst (run_top_acc c acc x) = run_top c x) by (destruct x; cbn [run_top_acc run_top]; apply run_acc_fst).
  destruct (run_top_acc c acc x) as [c' acc']. cbn [fst] in E. subst c'. apply IH.
Qed.

Theorem run_tops_fell_ext : forall l c, fell_ext (run_tops c l) c.
Proof.
  induction l as [|x r IH]; intro c; cbn [run_tops]; [apply fell_ext_refl|].
  eapply fell_ext_trans; [apply IH|]. destruct x as [t|k t]; cbn [run_top]; [apply run_fell_ext|].
  eapply fell_ext_trans; [apply run_fell_ext | apply fell_ext_eq; reflexivity].
Qed.

Lemma guard_F08b_nil : forall md tops, guard_F08b md tops = true -> g_fell (run_tops (init md) tops) = [].
Proof. intros md tops G. unfold guard_F08b in G. destruct (g_fell (run_tops (init md) tops)); [reflexivity | discriminate]. Qed.

(* ---------- C08 under the guard, for the real loop ---------- *)
Theorem partial : forall md tops,
  guard_F08b md tops = true -> forallb fresh_ok tops = true ->
  let c := run_tops (init md) tops in
  rest c /\ forall n, In n (g_entered c) -> n <> [] -> terminal (state_of c n) = true.
Proof.
  intros md tops G Hok c.
  destruct (good_tops tops (init md) Hok (good_init md)) as [Hg R]; [split; reflexivity|]. fold c in Hg, R.
  split; [exact R|]. intros n Hn Hne.
  destruct (terminal_or_fell c n Hg R Hn Hne) as [T|T]; [exact T|].
  apply guard_F08b_nil in G. fold c in G. rewrite G in T. destruct T.
Qed.

Lemma sync_tops : forall l,
  forallb (fun x => names_truthy (top_call x)) l = true ->
  forall c, synced c -> g_fell (run_tops c l) = [] -> synced (run_tops c l).
Proof.
  induction l as [|x r IH]; intros Hn c Hs Hf; cbn [run_tops] in *; [exact Hs|].
  cbn [forallb] in Hn. apply andb_true_iff in Hn. destruct Hn as [Hx Hn].
  apply IH; [exact Hn| |exact Hf].
  pose proof (fell_ext_nil _ _ (run_tops_fell_ext r (run_top c x)) Hf) as Hf1.
  destruct x as [t|k t]; cbn [run_top top_call] in *; apply run_synced; auto.
Qed.

Theorem nesting_is_depth : forall md tops,
  guard_F08b md tops = true -> forallb (fun x => names_truthy (top_call x)) tops = true ->
  let c := run_tops (init md) tops in g_peak_nest c = g_peak c.
Proof.
  intros md tops G Hn c.
  assert (S : synced c).
  { apply sync_tops; [exact Hn | unfold synced; cbn; lia | apply guard_F08b_nil; exact G]. }
  destruct S as (_ & S & _). symmetry. exact S.
Qed.

Lemma all_named_truthy : forall t, all_named t = true -> names_truthy t = true.
Proof.
  induction t as [k|k|name allow body IH] using call_ind2; intro H; try reflexivity.
  apply all_named_Call in H. destruct H as [H1 H2]. cbn [names_truthy]. apply andb_true_iff. split.
  - destruct name as [[|x n]|]; try discriminate; reflexivity.
  - induction body as [|y r IHr]; [reflexivity|].
    inversion IH as [|? ? I1 I2]; inversion H2 as [|? ? J1 J2]; subst.
    apply andb_true_iff. split; [apply I1; exact J1 | apply IHr; assumption].
Qed.

Lemma depth_tops : forall l,
  forallb (fun x => all_named (top_call x)) l = true ->
  forall c, NoDup (stack c) -> depth c <= max_depth c ->
            g_peak (run_tops c l) <= N.max (g_peak c) (max_depth c + 1) /\ max_depth (run_tops c l) = max_depth c.
Proof.
  induction l as [|x r IH]; intros Hn c Hnd Hd; cbn [run_tops]; [split; [lia | reflexivity]|].
  cbn [forallb] in Hn. apply andb_true_iff in Hn. destruct Hn as [Hx Hn].
  assert (K : g_peak (run_top c x) <= N.max (g_peak c) (max_depth c + 1) /\ max_depth (run_top c x) = max_depth c
              /\ NoDup (stack (run_top c x)) /\ depth (run_top c x) <= depth c).
  { destruct x as [t|k t]; cbn [run_top top_call] in *.
    - destruct (depth_named t Hx c Hnd Hd) as [P M]. destruct (run_below t c Hnd) as (N1 & _ & D1). auto.
    - destruct (depth_named t Hx (pop_state c k) Hnd Hd) as [P M].
      destruct (run_below t (pop_state c k) Hnd) as (N1 & _ & D1). auto. }
  destruct K as (P1 & M1 & N1 & D1).
  destruct (IH Hn (run_top c x) N1) as [P2 M2]; [lia|]. split; [lia | congruence].
Qed.

Theorem nesting_named_bounded : forall md tops,
  guard_F08b md tops = true -> forallb (fun x => all_named (top_call x)) tops = true ->
  g_peak_nest (run_tops (init md) tops) <= md + 1.
Proof.
  intros md tops G Hn.
  assert (Hnt : forallb (fun x => names_truthy (top_call x)) tops = true).
  { apply forallb_forall. intros x Hx. rewrite forallb_forall in Hn. apply all_named_truthy, Hn, Hx. }
  rewrite (nesting_is_depth md tops G Hnt).
  destruct (depth_tops tops Hn (init md)) as [D _]; [constructor | cbn; lia|]. cbn in D. lia.
Qed.

(* ---------- F08a ---------- *)
(* for every configured limit and every k: a tree of k+1 nested anonymous frames reaches true nesting k+1 and
   counted depth k+1 without a single depth placeholder *)
Theorem anon_unbounded : forall md k,
  let c := run_tops (init md) [Plain (anon_chain k)] in
  g_peak_nest c = N.of_nat k + 1 /\ g_peak c = N.of_nat k + 1 /\ exceeded c = [] /\ states c = [] /\ rest c.
Proof.
  intros md k. cbn [run_tops run_top].
  destruct (anon_chain_run k (init md)) as (H1 & _ & H3 & H4 & H5 & H6 & H7 & _).
  cbn -[N.max N.add N.of_nat] in *. repeat split; try assumption; lia.
Qed.

Theorem refuted_F08a : forall md, exists t,
  guard_F08a md [Plain t] = false /\ exceeded (run_tops (init md) [Plain t]) = [].
Proof.
  intro md. exists (anon_chain (N.to_nat (md + 1))).
  destruct (anon_unbounded md (N.to_nat (md + 1))) as (H1 & _ & H3 & _).
  split; [|exact H3]. unfold guard_F08a. apply N.leb_gt. rewrite H1. lia.
Qed.

(* ---------- witnesses ---------- *)
Definition plain (l : list call) : list top := map Plain l.

Theorem refuted_F08b :
  let c := run_tops (init default_max_depth) (plain tops_F08b) in
  rest c /\ guard_F08b default_max_depth (plain tops_F08b) = false /\ forallb names_truthy tops_F08b = true
  /\ In [67] (g_entered c) /\ terminal (state_of c [67]) = false.
Proof. vm_compute. repeat split; auto. Qed.

Example regress_F08c :
  let c := run_tops (init default_max_depth) (plain tops_F08c) in
  rest c /\ guard_F08b default_max_depth (plain tops_F08c) = true
  /\ forallb (fun n => terminal (state_of c n)) declared_F08c = true
  /\ all_present declared_F08c c = true.
Proof. vm_compute. repeat split; auto. Qed.

Example tracker_empty_name :
  let c := run_tops (init default_max_depth) (plain tops_empty_name) in
  rest c /\ forallb names_truthy tops_empty_name = false
  /\ In [] (g_entered c) /\ state_of c [] = InProgress.
Proof. vm_compute. repeat split; auto. Qed.

Example regress_F08d :
  rest (run_tops (init default_max_depth) []) /\ g_entered (run_tops (init default_max_depth) []) = [].
Proof. vm_compute. repeat split. Qed.

Example guard_nonvacuous :
  guard_F08b default_max_depth (plain tops_ring) = true /\ forallb names_truthy tops_ring = true
  /\ length (cycles (run_tops (init default_max_depth) (plain tops_ring))) = 2%nat
  /\ length (g_entered (run_tops (init default_max_depth) (plain tops_ring))) = 7%nat.
Proof. vm_compute. repeat split. Qed.

(* the re-parse loop on the implementation's own trace (S0 -> S1 -> S2 -[array]-> S3, PYOPENAPI_MAX_DEPTH=1):
   S1, S2, S3 are first answered with depth placeholders and then parsed again from depth 0 *)
Definition tops_fresh : list top := [(Plain (Call (Some [83;48]) true [(Call (Some [83;49]) true []); (Reg [83;48])])); (Fresh [83;49] (Call (Some [83;49]) true [(Call (Some [83;50]) true [])])); (Fresh [83;50] (Call (Some [83;50]) true [(Call None true [(Call None true [(Call (Some [83;51]) true [])]); (Call None true [(Call (Some [83;51]) true [])])])])); (Fresh [83;51] (Call (Some [83;51]) true [(Call None true [])]))].

Example fresh_nonvacuous :
  let c := run_tops (init 1) tops_fresh in
  guard_F08b 1 tops_fresh = true /\ forallb fresh_ok tops_fresh = true
  /\ length (exceeded c) = 3%nat
  /\ forallb (fun n => terminal (state_of c n)) [[83;48]; [83;49]; [83;50]; [83;51]] = true
  /\ map (state_of c) [[83;49]; [83;50]; [83;51]] = [Completed; Completed; Completed].
Proof. vm_compute. repeat split. Qed.

(* ====================================================================================================== *)
(* "every declared schema name is present in the result"                                                    *)
(* ====================================================================================================== *)
Definition parsed_ext (c' c : ctx) : Prop := incl (parsed c) (parsed c').

Lemma parsed_ext_refl : forall c, parsed_ext c c. Proof. intro; apply incl_refl. Qed.
Lemma parsed_ext_trans : forall a b c, parsed_ext a b -> parsed_ext b c -> parsed_ext a c.
Proof. intros a b c H1 H2. unfold parsed_ext in *. eapply incl_tran; eassumption. Qed.
Lemma parsed_ext_eq : forall c' c, parsed c' = parsed c -> parsed_ext c' c.
Proof. intros c' c H. unfold parsed_ext. rewrite H. apply incl_refl. Qed.

Lemma incl_add_key : forall k l, incl l (add_key k l).
Proof. intros k l. unfold add_key. destruct (mem_str k l); [apply incl_refl | apply incl_appl, incl_refl]. Qed.

Lemma In_add_key : forall k l, In k (add_key k l).
Proof.
  intros k l. unfold add_key. destruct (mem_str k l) eqn:E; [apply mem_str_In; exact E|].
  apply in_or_app. right. left. reflexivity.
Qed.

Lemma registered_ext : forall c' c k, parsed_ext c' c -> registered c k = true -> registered c' k = true.
Proof. intros c' c k H R. unfold registered in *. apply mem_str_In. apply H. apply mem_str_In. exact R. Qed.

Lemma check_parsed : forall name c, parsed_ext (fst (check name c)) c.
Proof.
  intros name c. unfold check. destruct name as [n|]; [|apply parsed_ext_refl].
  assert (D : parsed_ext (depth_placeholder n c) c) by (unfold parsed_ext; cbn; apply incl_add_key).
  assert (C : parsed_ext (cycle_placeholder n c) c).
  { unfold cycle_placeholder, parsed_ext. cbv zeta. destruct (should_store n (cycle_path n (stack c)));
      destruct (allow_self c && is_direct (cycle_path n (stack c))); cbn; try apply incl_add_key; apply incl_refl. }
  destruct (state_of c n); try apply parsed_ext_refl;
    (destruct (max_depth c <? depth c); [exact D|]);
    (destruct (mem_str n (stack c)); [exact C | apply parsed_ext_eq; reflexivity]).
Qed.

Lemma enter_parsed : forall name c c' a, enter name c = (c', a) -> parsed_ext c' c.
Proof.
  intros name c c' a H. unfold enter in H.
  pose proof (check_parsed name (set_depth c (depth c + 1))) as K.
  destruct (check name (set_depth c (depth c + 1))) as [c2 a2]. cbn [fst] in K.
  assert (K' : parsed_ext c2 c) by exact K.
  destruct a2; destruct name as [n|]; try (inversion H; subst; exact K').
  destruct (truthy (Some n)); inversion H; subst; exact K'.
Qed.

Lemma exit_parsed : forall name c, parsed (exit name c) = parsed c.
Proof.
  intros name c. unfold exit.
  assert (H1 : parsed (if 0 <? depth c then set_depth c (depth c - 1) else c) = parsed c)
    by (destruct (0 <? depth c); reflexivity).
  destruct name as [n|]; [|exact H1].
  destruct (truthy (Some n)); [|exact H1]. cbv zeta.
  destruct (mem_str n (stack (if 0 <? depth c then set_depth c (depth c - 1) else c)));
    match goal with |- context [alookup ?k ?d] => destruct (alookup k d) as [[]|] end; exact H1.
Qed.

Lemma no_unreg_Call : forall name allow body,
  no_unreg (Call name allow body) = true -> Forall (fun t => no_unreg t = true) body.
Proof.
  intros name allow body H. cbn [no_unreg] in H.
  induction body as [|x r IH]; constructor; apply andb_true_iff in H; destruct H; auto.
Qed.

Lemma run_list_parsed : forall l,
  Forall (fun t => no_unreg t = true -> forall c, parsed_ext (run c t) c) l ->
  Forall (fun t => no_unreg t = true) l -> forall c, parsed_ext (run_list c l) c.
Proof.
  induction 1 as [|t r Ht _ IH]; intros Hn c; cbn [run_list]; [apply parsed_ext_refl|].
  inversion Hn; subst. eapply parsed_ext_trans; [apply IH; assumption | apply Ht; assumption].
Qed.

(* registrations are never undone (as long as the body executes no `del parsed_schemas[...]`) *)
Theorem run_parsed : forall t, no_unreg t = true -> forall c, parsed_ext (run c t) c.
Proof.
  induction t as [k|k|name allow body IH] using call_ind2; intros Hn c.
  - unfold parsed_ext. cbn. apply incl_add_key.
  - discriminate.
  - rewrite run_Call. unfold call_step.
    pose proof (run_list_parsed body IH (no_unreg_Call _ _ _ Hn)) as HL.
    destruct (enter name (set_allow (frame_in c name) allow)) as [c1 a] eqn:E.
    apply enter_parsed in E.
    assert (P1 : parsed_ext c1 c) by exact E.
    assert (Ex : forall Y, parsed_ext Y c -> parsed_ext (frame_out (exit name Y)) c).
    { intros Y HY. eapply parsed_ext_trans; [|exact HY]. apply parsed_ext_eq.
      change (parsed (frame_out (exit name Y))) with (parsed (exit name Y)). apply exit_parsed. }
    assert (P2 : parsed_ext (exit name c1) c).
    { eapply parsed_ext_trans; [|exact P1]. apply parsed_ext_eq, exit_parsed. }
    destruct a.
    + apply Ex. eapply parsed_ext_trans; [apply HL | exact P1].
    + apply Ex. exact P1.
    + apply Ex. exact P1.
    + destruct name as [n|].
      * destruct (truthy (Some n)).
        -- destruct (registered (exit (Some n) c1) n).
           ++ eapply parsed_ext_trans; [|exact P2]. apply parsed_ext_eq. reflexivity.
           ++ apply Ex. eapply parsed_ext_trans; [apply HL|].
              eapply parsed_ext_trans; [|exact P2]. apply parsed_ext_eq. reflexivity.
        -- apply Ex. eapply parsed_ext_trans; [apply HL | exact P2].
      * apply Ex. eapply parsed_ext_trans; [apply HL | exact P2].
Qed.

Lemma run_top_parsed : forall x c, no_unreg (top_call x) = true -> parsed_ext (run_top c x) c.
Proof.
  intros [t|k t] c H; cbn [run_top top_call] in *; [apply run_parsed; exact H|].
  eapply parsed_ext_trans; [apply run_parsed; exact H | apply parsed_ext_eq; reflexivity].
Qed.

(* What the tracker itself guarantees for a top-level (re-)parse of a name that has no tracker state, started at
   rest: it is never answered RETURN_EXISTING / RETURN_PLACEHOLDER / cycle placeholder; either the body runs
   (CONTINUE) or the depth limit is already exceeded and the TRACKER registers the depth placeholder. *)
Lemma top_enter_action : forall n c c1 a,
  stack c = [] -> state_of c n = NotStarted -> enter (Some n) c = (c1, a) ->
  a = AContinue \/ (a = ACreate /\ registered c1 n = true).
Proof.
  intros n c c1 a Hs Hst H. unfold enter in H.
  set (cd := set_depth c (depth c + 1)) in *.
  assert (Hst' : state_of cd n = NotStarted) by exact Hst.
  assert (Hs' : stack cd = []) by exact Hs.
  destruct (check (Some n) cd) as [c2 a2] eqn:E.
  assert (K : a2 = AContinue \/ (a2 = ACreate /\ registered c2 n = true)).
  { unfold check in E. rewrite Hst', Hs' in E. cbn [mem_str] in E.
    destruct (max_depth cd <? depth cd); inversion E; subst; [right | left; reflexivity].
    split; [reflexivity|]. unfold registered. apply mem_str_In. cbn. apply In_add_key. }
  destruct K as [->|[-> R]].
  - left. destruct (truthy (Some n)); inversion H; reflexivity.
  - right. inversion H; subst. split; [reflexivity | exact R].
Qed.

Lemma visits_presents : forall alt c x n,
  stack c = [] -> visits c x = Some n -> top_contract alt c x = true -> present alt (run_top c x) n = true.
Proof.
  intros alt c x n Hs Hv Hc. unfold top_contract in Hc. rewrite Hv in Hc. unfold visits in Hv.
  assert (R : run_top c x = run (before_top c x) (top_call x)) by (destruct x; reflexivity).
  rewrite R. clear R.
  destruct (top_call x) as [name allow body| |]; try discriminate.
  destruct name as [m|]; [|discriminate].
  destruct (state_of (before_top c x) m) eqn:Est; try discriminate. inversion Hv; subst m.
  rewrite run_Call. unfold call_step.
  set (c0 := set_allow (frame_in (before_top c x) (Some n)) allow) in *.
  assert (Hs0 : stack c0 = []) by (destruct x; exact Hs).
  assert (Hst0 : state_of c0 n = NotStarted) by exact Est.
  destruct (enter (Some n) c0) as [c1 a] eqn:E.
  destruct (top_enter_action n c0 c1 a Hs0 Hst0 E) as [->|[-> Rg]].
  - (* body ran: the contract *)
    unfold present in *. unfold registered in *.
    change (parsed (frame_out (exit (Some n) (run_list c1 body)))) with (parsed (exit (Some n) (run_list c1 body))).
    rewrite exit_parsed. exact Hc.
  - unfold present, registered in *.
    change (parsed (frame_out (exit (Some n) c1))) with (parsed (exit (Some n) c1)).
    rewrite exit_parsed, Rg. reflexivity.
Qed.

(* C08, presence: if the parser body honours the contract and never deletes a registration, every name visited by a
   top-level (re-)parse is present at the end of the whole loop *)
Theorem all_present_tops : forall alt l c,
  rest c -> contract alt c l = true -> forallb (fun x => no_unreg (top_call x)) l = true ->
  forall n, In n (visited c l) -> present alt (run_tops c l) n = true.
Proof.
  intros alt. induction l as [|x r IH]; intros c Hr Hc Hn n Hin; [destruct Hin|].
  cbn [contract] in Hc. apply andb_true_iff in Hc. destruct Hc as [Hc1 Hc2].
  cbn [forallb] in Hn. apply andb_true_iff in Hn. destruct Hn as [Hn1 Hn2].
  cbn [visited] in Hin. cbn [run_tops].
  assert (Hr' : rest (run_top c x)) by (apply (rest_of_below _ c); [apply run_top_below | exact Hr]).
  apply in_app_or in Hin. destruct Hin as [Hin|Hin]; [|apply IH; assumption].
  destruct (visits c x) as [m|] eqn:Hv; [|destruct Hin]. destruct Hin as [->|[]].
  pose proof (visits_presents alt c x n (proj1 Hr) Hv Hc1) as P.
  assert (E : parsed_ext (run_tops (run_top c x) r) (run_top c x)).
  { clear -Hn2. revert Hn2. generalize (run_top c x). induction r as [|y r IHr]; intros c0 H; cbn [run_tops]; [apply parsed_ext_refl|].
    cbn [forallb] in H. apply andb_true_iff in H. destruct H as [H1 H2].
    eapply parsed_ext_trans; [apply IHr; exact H2 | apply run_top_parsed; exact H1]. }
  unfold present in *. apply orb_true_iff in P. apply orb_true_iff.
  destruct P as [P|P]; [left | right]; eapply registered_ext; eassumption.
Qed.

(* F08e: `X: null` in components.schemas (corpus/C08/F08e.json): the body returns an empty IRSchema for a null node
   WITHOUT registering it; the contract fails, X is visited twice (second pass of build_schemas) and stays absent *)
Definition tops_F08e : list top := [(Plain (Call (Some [88]) true [])); (Plain (Call (Some [89]) true [(Reg [89])])); (Fresh [88] (Call (Some [88]) true []))].

Theorem refuted_F08e :
  let c := run_tops (init default_max_depth) tops_F08e in
  contract (fun n => n) (init default_max_depth) tops_F08e = false
  /\ visited (init default_max_depth) tops_F08e = [[88]; [89]; [88]]
  /\ present (fun n => n) c [88] = false /\ present (fun n => n) c [89] = true
  /\ rest c /\ guard_F08b default_max_depth tops_F08e = true.
Proof. vm_compute. repeat split; auto. Qed.

Example contract_nonvacuous :
  contract (fun n => n) (init 1) tops_fresh = true
  /\ visited (init 1) tops_fresh = [[83;48]; [83;49]; [83;50]; [83;51]]
  /\ forallb (fun x => no_unreg (top_call x)) tops_fresh = true.
Proof. vm_compute. repeat split. Qed.
