(* C08 — proofs about Model/Cycle.v *)
From PG Require Import Lib.Strs Model.Cycle.
From Coq Require Import Lia.

(* ---------- induction principle for the nested inductive [call] ---------- *)
Section CallInd.
  Variable P : call -> Prop.
  Hypothesis HReg : forall k, P (Reg k).
  Hypothesis HUnreg : forall k, P (Unreg k).
  Hypothesis HCall : forall name allow body, Forall P body -> P (Call name allow body).
  Fixpoint call_ind2 (t : call) : P t :=
    match t with
    | Reg k => HReg k
    | Unreg k => HUnreg k
    | Call name allow body =>
        HCall name allow body
          ((fix go (l : list call) : Forall P l :=
              match l with
              | [] => Forall_nil P
              | x :: r => Forall_cons x (call_ind2 x) (go r)
              end) body)
    end.
End CallInd.

(* ---------- unfolding equation of [run] in terms of [run_list] ---------- *)
Definition call_step (name : option str) (allow : bool) (body : list call) (c : ctx) : ctx :=
  let c0 := set_allow (frame_in c) allow in
  let (c1, a) := enter name c0 in
  frame_out (
  match a with
  | AExisting =>
      let c2 := exit name c1 in
      match name with
      | Some n =>
          if truthy name then
            if registered c2 n then c2
            else exit name (run_list (add_fell (set_state c2 n NotStarted) n) body)
          else exit name (run_list c2 body)
      | None => exit name (run_list c2 body)
      end
  | APlaceholder => exit name c1
  | ACreate => exit name c1
  | AContinue => exit name (run_list c1 body)
  end).

Lemma run_body_run_list : forall l c,
  (fix run_body (c : ctx) (l : list call) {struct l} : ctx :=
     match l with [] => c | t :: r => run_body (run c t) r end) c l = run_list c l.
Proof. induction l as [|t r IH]; intro c; [reflexivity | apply IH]. Qed.

Lemma run_Call : forall c name allow body, run c (Call name allow body) = call_step name allow body c.
Proof.
  intros c name allow body. unfold call_step. cbn [run].
  destruct (enter name (set_allow (frame_in c) allow)) as [c1 a].
  rewrite !run_body_run_list. reflexivity.
Qed.

(* ---------- what the primitives do to stack and depth ---------- *)
Ltac break_ifs :=
  repeat match goal with
         | |- context [if ?b then _ else _] => destruct b
         | |- context [match ?x with _ => _ end] => is_var x; destruct x
         end.

Lemma check_stack_depth : forall name c,
  stack (fst (check name c)) = stack c /\ depth (fst (check name c)) = depth c.
Proof.
  intros name c. unfold check.
  destruct name as [n|]; [|split; reflexivity].
  destruct (state_of c n); try (split; reflexivity);
    (destruct (max_depth c <? depth c); [split; reflexivity|]);
    (destruct (mem_str n (stack c)); [|split; reflexivity]);
    cbv zeta; break_ifs; split; reflexivity.
Qed.

Lemma check_continue : forall n c c',
  check (Some n) c = (c', AContinue) ->
  mem_str n (stack c) = false /\ c' = set_state c n InProgress /\ depth c <= max_depth c
  /\ (state_of c n = NotStarted \/ state_of c n = InProgress).
Proof.
  intros n c c' H. unfold check in H.
  destruct (state_of c n) eqn:Es; try discriminate;
    (destruct (max_depth c <? depth c) eqn:Ed; [discriminate|]);
    (destruct (mem_str n (stack c)) eqn:Em; [cbv zeta in H; revert H; break_ifs; discriminate|]);
    inversion H; subst; apply N.ltb_ge in Ed; repeat split; auto.
Qed.

Lemma enter_spec : forall name c c' a,
  enter name c = (c', a) ->
  depth c' = depth c + 1 /\
  (stack c' = stack c \/
   exists n, name = Some n /\ truthy name = true /\ a = AContinue /\ mem_str n (stack c) = false
             /\ stack c' = stack c ++ [n]).
Proof.
  intros name c c' a H. unfold enter in H.
  destruct (check name (set_depth c (depth c + 1))) as [c2 a2] eqn:E.
  pose proof (check_stack_depth name (set_depth c (depth c + 1))) as [Hs Hd].
  rewrite E in Hs, Hd. cbn [fst stack depth set_depth] in Hs, Hd.
  destruct a2; destruct name as [n|]; try (inversion H; subst; split; [exact Hd | left; exact Hs]).
  destruct (truthy (Some n)) eqn:Et; inversion H; subst.
  - split; [exact Hd|]. right. exists n.
    apply check_continue in E. destruct E as (Em & _ & _ & _).
    cbn [stack set_depth] in Em. cbn [stack set_stack]. rewrite Hs. repeat split; auto.
  - split; [exact Hd | left; exact Hs].
Qed.

(* ---------- list.remove on a duplicate-free list ---------- *)
Lemma In_remove1 : forall n l x, In x (remove1 n l) -> In x l.
Proof.
  induction l as [|y l IH]; intros x H; simpl in *; [exact H|].
  destruct (str_eqb n y); [right; exact H|].
  destruct H as [H|H]; [left; exact H | right; apply IH; exact H].
Qed.

Lemma In_remove1_other : forall n l x, x <> n -> In x l -> In x (remove1 n l).
Proof.
  induction l as [|y l IH]; intros x Hne H; simpl in *; [exact H|].
  destruct (str_eqb n y) eqn:E.
  - apply str_eqb_eq in E. subst y. destruct H as [H|H]; [congruence | exact H].
  - destruct H as [H|H]; [left; exact H | right; apply IH; assumption].
Qed.

Lemma NoDup_remove1 : forall n l, NoDup l -> NoDup (remove1 n l).
Proof.
  induction l as [|y l IH]; intro H; simpl; [exact H|].
  inversion H as [|? ? Hn Hd]; subst.
  destruct (str_eqb n y); [exact Hd|].
  constructor; [intro Hin; apply Hn; eapply In_remove1; exact Hin | apply IH; exact Hd].
Qed.

Lemma notin_remove1 : forall n l, NoDup l -> ~ In n (remove1 n l).
Proof.
  induction l as [|y l IH]; intro H; simpl; [tauto|].
  inversion H as [|? ? Hn Hd]; subst.
  destruct (str_eqb n y) eqn:E.
  - apply str_eqb_eq in E. subst y. exact Hn.
  - intros [Hy|Hin]; [subst y; rewrite str_eqb_refl in E; discriminate | exact (IH Hd Hin)].
Qed.

Lemma NoDup_app_intro_single : forall (l : list str) n, NoDup l -> ~ In n l -> NoDup (l ++ [n]).
Proof.
  induction l as [|y l IH]; intros n H Hn; simpl.
  - constructor; [tauto | constructor].
  - inversion H as [|? ? Hy Hd]; subst. constructor.
    + intro Hin. apply in_app_or in Hin. destruct Hin as [Hin|[Hin|[]]]; [tauto|].
      subst. apply Hn. left. reflexivity.
    + apply IH; [exact Hd | intro; apply Hn; right; assumption].
Qed.

Lemma mem_str_false : forall n l, mem_str n l = false <-> ~ In n l.
Proof.
  intros n l. rewrite <- mem_str_In. destruct (mem_str n l); split; intro H; try reflexivity; try discriminate.
  exfalso. apply H. reflexivity.
Qed.

(* ---------- unified_exit_schema ---------- *)
Definition exit_stack_of (name : option str) (st : list str) : list str :=
  match name with
  | Some n => if truthy name then (if mem_str n st then remove1 n st else st) else st
  | None => st
  end.

Lemma exit_stack : forall name c, stack (exit name c) = exit_stack_of name (stack c).
Proof.
  intros name c. unfold exit, exit_stack_of.
  assert (Hs : stack (if 0 <? depth c then set_depth c (depth c - 1) else c) = stack c)
    by (destruct (0 <? depth c); reflexivity).
  destruct name as [n|]; [|exact Hs].
  destruct (truthy (Some n)); [|exact Hs].
  rewrite Hs.
  destruct (mem_str n (stack c)); cbv zeta;
    match goal with |- context [alookup ?k ?d] => destruct (alookup k d) as [[]|] end;
    cbn [stack set_state set_states set_stack]; try rewrite Hs; reflexivity.
Qed.

Lemma exit_depth : forall name c,
  depth (exit name c) = if 0 <? depth c then depth c - 1 else depth c.
Proof.
  intros name c. unfold exit.
  assert (Hd : depth (if 0 <? depth c then set_depth c (depth c - 1) else c)
               = if 0 <? depth c then depth c - 1 else depth c)
    by (destruct (0 <? depth c); reflexivity).
  destruct name as [n|]; [|exact Hd].
  destruct (truthy (Some n)); [|exact Hd].
  cbv zeta.
  destruct (mem_str n (stack (if 0 <? depth c then set_depth c (depth c - 1) else c)));
    match goal with |- context [alookup ?k ?d] => destruct (alookup k d) as [[]|] end;
    cbn [depth set_state set_states set_stack]; exact Hd.
Qed.

Lemma exit_stack_incl : forall name st, incl (exit_stack_of name st) st.
Proof.
  intros name st x Hx. unfold exit_stack_of in Hx.
  destruct name as [n|]; [|exact Hx].
  destruct (truthy (Some n)); [|exact Hx].
  destruct (mem_str n st); [eapply In_remove1; exact Hx | exact Hx].
Qed.

Lemma exit_stack_nodup : forall name st, NoDup st -> NoDup (exit_stack_of name st).
Proof.
  intros name st H. unfold exit_stack_of.
  destruct name as [n|]; [|exact H].
  destruct (truthy (Some n)); [|exact H].
  destruct (mem_str n st); [apply NoDup_remove1; exact H | exact H].
Qed.

Lemma exit_stack_notin : forall n st,
  truthy (Some n) = true -> NoDup st -> ~ In n (exit_stack_of (Some n) st).
Proof.
  intros n st Ht H. unfold exit_stack_of. rewrite Ht.
  destruct (mem_str n st) eqn:E; [apply notin_remove1; exact H | apply mem_str_false; exact E].
Qed.

(* ---------- the order "c' is below c": what every step after the enter preserves ---------- *)
Definition below (c' c : ctx) : Prop :=
  NoDup (stack c) -> NoDup (stack c') /\ incl (stack c') (stack c) /\ depth c' <= depth c.

Lemma below_refl : forall c, below c c.
Proof. intros c H. repeat split; [exact H | apply incl_refl | lia]. Qed.

Lemma below_trans : forall a b c, below a b -> below b c -> below a c.
Proof.
  intros a b c H1 H2 Hc. destruct (H2 Hc) as (N2 & I2 & D2). destruct (H1 N2) as (N1 & I1 & D1).
  repeat split; [exact N1 | eapply incl_tran; eassumption | lia].
Qed.

Lemma below_exit : forall name c, below (exit name c) c.
Proof.
  intros name c H. rewrite exit_stack, exit_depth. repeat split.
  - apply exit_stack_nodup. exact H.
  - apply exit_stack_incl.
  - destruct (0 <? depth c); lia.
Qed.

Lemma below_same : forall c' c, stack c' = stack c -> depth c' = depth c -> below c' c.
Proof. intros c' c Hs Hd H. rewrite Hs, Hd. repeat split; [exact H | apply incl_refl | lia]. Qed.

Lemma run_list_below : forall l,
  Forall (fun t => forall c, below (run c t) c) l -> forall c, below (run_list c l) c.
Proof.
  induction 1 as [|t r Ht _ IH]; intro c; cbn [run_list]; [apply below_refl|].
  eapply below_trans; [apply IH | apply Ht].
Qed.

(* after the enter, whatever happens below c1 and ends with [exit name] is below the state before the call *)
Lemma call_tail : forall name a c c1 Y,
  NoDup (stack c) ->
  depth c1 = depth c + 1 ->
  (stack c1 = stack c \/
   exists n, name = Some n /\ truthy name = true /\ a = AContinue /\ mem_str n (stack c) = false
             /\ stack c1 = stack c ++ [n]) ->
  below Y c1 ->
  NoDup (stack (exit name Y)) /\ incl (stack (exit name Y)) (stack c) /\ depth (exit name Y) <= depth c.
Proof.
  intros name a c c1 Y Hc Hd Hs HY.
  assert (N1 : NoDup (stack c1)).
  { destruct Hs as [Hs|(n & _ & _ & _ & Hm & Hs)]; rewrite Hs; [exact Hc|].
    apply NoDup_app_intro_single; [exact Hc | apply mem_str_false; exact Hm]. }
  destruct (HY N1) as (NY & IY & DY).
  destruct (below_exit name Y NY) as (NX & IX & DX).
  split; [exact NX|]. split.
  - intros x Hx. pose proof (IY x (IX x Hx)) as H1.
    destruct Hs as [Hs|(n & Hn & Ht & _ & _ & Hs)]; rewrite Hs in H1; [exact H1|].
    apply in_app_or in H1. destruct H1 as [H1|[H1|[]]]; [exact H1|]. subst x name.
    exfalso. rewrite exit_stack in Hx. exact (exit_stack_notin n (stack Y) Ht NY Hx).
  - rewrite exit_depth. rewrite exit_depth in DX. destruct (0 <? depth Y) eqn:E; [lia|].
    apply N.ltb_ge in E. lia.
Qed.

Lemma same_below : forall c' c, stack c' = stack c -> depth c' = depth c -> below c' c.
Proof. exact below_same. Qed.

Theorem run_below : forall t c, below (run c t) c.
Proof.
  induction t as [k|k|name allow body IH] using call_ind2; intro c.
  - apply below_same; reflexivity.
  - apply below_same; reflexivity.
  - rewrite run_Call. unfold call_step. intro Hc.
    destruct (enter name (set_allow (frame_in c) allow)) as [c1 a] eqn:E.
    apply enter_spec in E. destruct E as [Hd Hs]. cbn [depth stack set_allow frame_in set_nest] in Hd, Hs.
    pose proof (run_list_below body IH) as HL.
    assert (Hout : forall X, stack (frame_out X) = stack X /\ depth (frame_out X) = depth X) by (intro; split; reflexivity).
    cut (forall Y, below Y c1 ->
           NoDup (stack (frame_out (exit name Y))) /\ incl (stack (frame_out (exit name Y))) (stack c)
           /\ depth (frame_out (exit name Y)) <= depth c).
    { intro K. destruct a.
      - apply K. apply HL.
      - apply K. apply below_refl.
      - apply K. apply below_refl.
      - destruct name as [n|].
        + destruct (truthy (Some n)).
          * destruct (registered (exit (Some n) c1) n).
            -- apply K. apply below_refl.
            -- apply K. eapply below_trans; [apply HL|].
               eapply below_trans; [|apply below_exit]. apply below_same; reflexivity.
          * apply K. eapply below_trans; [apply HL | apply below_exit].
        + apply K. eapply below_trans; [apply HL | apply below_exit]. }
    intros Y HY. destruct (Hout (exit name Y)) as [e1 e2]. rewrite e1, e2.
    eapply call_tail; eauto.
Qed.

Theorem run_list_below_all : forall l c, below (run_list c l) c.
Proof. intros l c. apply run_list_below. apply Forall_forall. intros t _. apply run_below. Qed.

(* ---------- C08, balance: the rest state is restored by EVERY call tree ---------- *)
Lemma rest_of_below : forall c' c, below c' c -> rest c -> rest c'.
Proof.
  intros c' c H [Hs Hd]. destruct H as (_ & I & D); [rewrite Hs; constructor|].
  rewrite Hs in I. rewrite Hd in D. split.
  - destruct (stack c') as [|x l]; [reflexivity|]. exfalso. apply (I x). left. reflexivity.
  - lia.
Qed.

Theorem balanced : forall t c, rest c -> rest (run c t).
Proof. intros t c. apply rest_of_below. apply run_below. Qed.

Theorem balanced_list : forall l c, rest c -> rest (run_list c l).
Proof. intros l c. apply rest_of_below. apply run_list_below_all. Qed.

(* the stronger reading is false: the stack after a call is NOT always the stack before it *)
