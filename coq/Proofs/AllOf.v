(* Proofs about the allOf merge (Model/AllOf.v): for ALL lists of members and ALL property lists the merge is the
   declared semantics: the value of a key is the one of the first member defining it, keys appear once, in order of
   first appearance, and `required` is the union. *)
From PG Require Import Lib.Strs Model.AllOf.

Section MergeProofs.
  Context {V : Type}.
  Notation member := (@member V).

  Lemma alookup_app : forall (a b : list (str * V)) k,
    alookup k (a ++ b) = match alookup k a with Some v => Some v | None => alookup k b end.
  Proof.
    induction a as [|[k' v'] a IH]; intros b k; simpl; [reflexivity|].
    destruct (str_eqb k k'); [reflexivity | apply IH].
  Qed.

  Lemma alookup_none_mem : forall (a : list (str * V)) k,
    alookup k a = None <-> mem_str k (map fst a) = false.
  Proof.
    induction a as [|[k' v'] a IH]; intros k; simpl; [tauto|].
    destruct (str_eqb k k') eqn:E; simpl; [split; discriminate | apply IH].
  Qed.

  Lemma merge_into_lookup : forall (ps acc : list (str * V)) k,
    alookup k (merge_into acc ps) = match alookup k acc with Some v => Some v | None => alookup k ps end.
  Proof.
    induction ps as [|[k' v'] ps IH]; intros acc k; unfold merge_into in *; simpl.
    - destruct (alookup k acc); reflexivity.
    - rewrite IH. unfold add_first; simpl.
      destruct (alookup k' acc) eqn:E.
      + destruct (alookup k acc) eqn:E2; [reflexivity|].
        destruct (str_eqb k k') eqn:E3; [|reflexivity].
        apply str_eqb_eq in E3; subst. congruence.
      + rewrite alookup_app; simpl.
        destruct (alookup k acc); [reflexivity|].
        destruct (str_eqb k k'); reflexivity.
  Qed.

  Lemma merge_fold_lookup : forall (ms : list member) acc k,
    alookup k (fold_left (fun acc m => merge_into acc (fst m)) ms acc)
    = match alookup k acc with Some v => Some v | None => first_def k ms end.
  Proof.
    induction ms as [|m ms IH]; intros acc k; simpl.
    - destruct (alookup k acc); reflexivity.
    - rewrite IH, merge_into_lookup. destruct (alookup k acc); [reflexivity|].
      destruct (alookup k (fst m)); reflexivity.
  Qed.

  (* value: first definition wins *)
  Lemma merge_lookup : forall (ms : list member) k, alookup k (merge_props ms) = first_def k ms.
  Proof. intros. unfold merge_props. rewrite merge_fold_lookup. reflexivity. Qed.

  (* ---- keys: once each, in order of first appearance ---- *)
  Lemma first_keys_ext : forall ks s1 s2,
    (forall x, mem_str x s1 = mem_str x s2) -> first_keys s1 ks = first_keys s2 ks.
  Proof.
    induction ks as [|k ks IH]; intros s1 s2 H; simpl; [reflexivity|].
    rewrite <- (H k). destruct (mem_str k s1) eqn:E.
    - apply IH, H.
    - f_equal. apply IH. intros x; simpl. rewrite H. reflexivity.
  Qed.

  Lemma mem_str_app : forall x a b, mem_str x (a ++ b) = mem_str x a || mem_str x b.
  Proof. induction a as [|y a IH]; intros; simpl; [reflexivity|]. rewrite IH, orb_assoc. reflexivity. Qed.

  Lemma merge_into_keys : forall (ps acc : list (str * V)),
    map fst (merge_into acc ps) = map fst acc ++ first_keys (map fst acc) (map fst ps).
  Proof.
    induction ps as [|[k' v'] ps IH]; intros acc; unfold merge_into in *; simpl.
    - rewrite app_nil_r. reflexivity.
    - rewrite IH. unfold add_first; simpl.
      destruct (alookup k' acc) eqn:E.
      + assert (M : mem_str k' (map fst acc) = true).
        { destruct (mem_str k' (map fst acc)) eqn:M; [reflexivity|].
          apply alookup_none_mem in M. congruence. }
        rewrite M. reflexivity.
      + apply alookup_none_mem in E. rewrite E.
        rewrite map_app, <- app_assoc. simpl. f_equal. f_equal.
        apply first_keys_ext. intros x. rewrite mem_str_app. simpl.
        rewrite orb_false_r, orb_comm. reflexivity.
  Qed.

  Lemma first_keys_app : forall a b seen,
    first_keys seen (a ++ b) = first_keys seen a ++ first_keys (rev (first_keys seen a) ++ seen) b.
  Proof.
    induction a as [|k a IH]; intros b seen; simpl; [reflexivity|].
    destruct (mem_str k seen) eqn:E.
    - apply IH.
    - simpl. f_equal. rewrite IH. f_equal. apply first_keys_ext. intros x.
      rewrite <- app_assoc. reflexivity.
  Qed.

  Lemma merge_fold_keys : forall (ms : list member) acc,
    map fst (fold_left (fun acc m => merge_into acc (fst m)) ms acc)
    = map fst acc ++ first_keys (map fst acc) (concat (map (fun m => map fst (fst m)) ms)).
  Proof.
    induction ms as [|m ms IH]; intros acc; simpl.
    - rewrite app_nil_r. reflexivity.
    - rewrite IH, merge_into_keys, first_keys_app, <- app_assoc. f_equal. f_equal.
      apply first_keys_ext. intros x. rewrite !mem_str_app.
      assert (R : forall l, mem_str x (rev l) = mem_str x l).
      { induction l as [|y l IHl]; simpl; [reflexivity|]. rewrite mem_str_app, IHl. simpl.
        rewrite orb_false_r. apply orb_comm. }
      rewrite R. apply orb_comm.
  Qed.

  Lemma merge_keys : forall ms : list member, map fst (merge_props ms) = declared_keys ms.
  Proof. intros. unfold merge_props, declared_keys. rewrite merge_fold_keys. reflexivity. Qed.

  Lemma first_keys_fresh : forall ks seen x, In x (first_keys seen ks) -> mem_str x seen = false.
  Proof.
    induction ks as [|k ks IH]; intros seen x H; simpl in H; [contradiction|].
    destruct (mem_str k seen) eqn:E.
    - apply IH, H.
    - destruct H as [H|H]; [subst; exact E|].
      apply IH in H. simpl in H. apply orb_false_iff in H. apply H.
  Qed.

  Lemma first_keys_nodup : forall ks seen, NoDup (first_keys seen ks).
  Proof.
    induction ks as [|k ks IH]; intros seen; simpl; [constructor|].
    destruct (mem_str k seen) eqn:E; [apply IH|].
    constructor; [|apply IH].
    intro H. apply first_keys_fresh in H. simpl in H. rewrite str_eqb_refl in H. discriminate.
  Qed.

  Lemma merge_nodup : forall ms : list member, NoDup (map fst (merge_props ms)).
  Proof. intros. rewrite merge_keys. apply first_keys_nodup. Qed.

  (* required: union *)
  Lemma merge_req_spec : forall own (ms : list member) k,
    In k (merge_req own ms) <-> In k own \/ exists m, In m ms /\ In k (snd m).
  Proof.
    intros own ms k. unfold merge_req. rewrite in_app_iff, in_concat.
    split; intros [H|H]; auto; right.
    - destruct H as [l [Hl Hk]]. apply in_map_iff in Hl. destruct Hl as [m [Hm Hin]]. subst. eauto.
    - destruct H as [m [Hm Hk]]. exists (snd m). split; [apply in_map; exact Hm | exact Hk].
  Qed.

  (* the merge is exactly the declared semantics of allOf over flat parents *)
  Theorem allof_merge_exact : forall (ms : list member),
    (forall k, alookup k (merge_props ms) = first_def k ms)
    /\ map fst (merge_props ms) = declared_keys ms
    /\ NoDup (map fst (merge_props ms))
    /\ (forall own k, In k (merge_req own ms) <-> In k own \/ exists m, In m ms /\ In k (snd m)).
  Proof.
    intros ms. split; [intro; apply merge_lookup|]. split; [apply merge_keys|].
    split; [apply merge_nodup|]. intros; apply merge_req_spec.
  Qed.
End MergeProofs.

(* non-vacuity: a later parent does not override, a key defined only later is still inherited *)
Example merge_example :
  merge_props (V := N) [([([97], 1); ([98], 2)], [[97]]); ([([98], 3); ([99], 4)], [[99]])]
  = [([97], 1); ([98], 2); ([99], 4)].
Proof. reflexivity. Qed.

(* non-vacuity for members WITHOUT properties (the tightening idiom allOf:[{$ref: Base}, {required:[b]}]): the theorem
   quantifies over them like over any other member, and their `required` list is part of the union *)
Example merge_required_only_member :
  let ms : list (@member N) := [([([97], 1); ([98], 2)], [[97]]); ([], [[98]])] in
  merge_props ms = [([97], 1); ([98], 2)] /\ merge_req [] ms = [[97]; [98]]
  /\ (In [98] (merge_req [] ms) <-> In [98] [] \/ exists m, In m ms /\ In [98] (snd m)).
Proof. split; [reflexivity|]. split; [reflexivity|]. apply merge_req_spec. Qed.
