(* The visitor's kind decision on the schemas C02_partial speaks about: a declared object / allOf schema is rendered
   as a dataclass (never as an alias: it is object-typed and carries no oneOf/anyOf of its own). *)
From PG Require Import Lib.Strs Model.AllOf Model.Parser Model.ModelKind Proofs.AllOf Proofs.Parser.

Lemma object_kind_dataclass : forall nd e n,
  (exists ps rq, nd = Obj ps rq) \/ (exists l, nd = AllOf l) ->
  kind_ok nd e -> i_name e = Some n -> nonempty n = true -> model_kind e = KDataclass.
Proof.
  intros nd e n Hnd Hk Hn Hne.
  assert (K : i_ty e = Some TyObject /\ i_anyof e = None /\ i_oneof e = None /\ i_enum e = false).
  { destruct Hnd as [(ps & rq & ->)|(l & ->)]; exact Hk. }
  destruct K as (K1 & K2 & K3 & K4).
  unfold model_kind, truthy_name. rewrite Hn, Hne, K1, K2, K3, K4. simpl.
  destruct (i_props e); reflexivity.
Qed.

Theorem acyclic_objects_are_dataclasses : forall md S rk,
  core_spec S = true -> ranked_b rk S = true -> depth_ok rk S md = true ->
  forall n nd, alookup n S = Some nd ->
  (exists ps rq, nd = Obj ps rq) \/ (exists l, nd = AllOf l) ->
  exists e, alookup n (parsed (parse_doc md S)) = Some e /\ model_kind e = KDataclass
            /\ faithful S (parse_doc md S) n.
Proof.
  intros md S rk HS HR HD n nd Hl Hnd.
  destruct (C02_acyclic_kind md S rk HS HR HD n nd Hl) as (e & He & Hk).
  pose proof (C02_acyclic md S rk HS HR HD n) as Hf.
  assert (Hin : In n (map fst S)) by (apply alookup_In in Hl; apply (in_map fst) in Hl; exact Hl).
  specialize (Hf Hin). exists e. split; [exact He|]. split; [|exact Hf].
  destruct (acyclic_clean md S rk HS HR HD) as (Ev & Oo & _).
  assert (HSI0 : inl_spec S = true) by (apply (HSI S rk HS HR)).
  assert (HI : Inv S (parse_doc md S)).
  { unfold parse_doc. apply build_ok; [exact HSI0 | apply core_nodup; exact HS | apply Inv_st0 | exact Ev | exact Oo]. }
  destruct HI as [HI _]. destruct (HI _ _ (alookup_In _ _ _ He)) as [(nd' & _ & Hname & _) _].
  destruct (spec_facts S HSI0 _ _ Hl) as (_ & _ & Hne & _).
  eapply object_kind_dataclass; eauto.
Qed.
