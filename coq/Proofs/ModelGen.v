(* C03 — proofs about Model/ModelGen.v *)
From PG Require Import Lib.Strs Model.Converter Model.ModelGen.
From Coq Require Import Lia.

Definition s_uuid : str := [117;117;105;100].

(* every entry of the (regenerated) table, and the default for a format that is not in it, resolves to a
   type the converter has hooks for and the C16 round-trip theorem covers *)
Lemma formats_supported : forall fmt, ty_ok (resolve_format fmt) = true.
Proof.
  intro fmt. unfold resolve_format.
  destruct (alookup fmt format_map) as [t|] eqn:E.
  - assert (Ht : In t (map snd format_map)).
    { revert E. generalize format_map. induction l as [|[k v] l IH]; cbn [alookup]; [discriminate|].
      destruct (str_eqb fmt k); intro H; [inversion H; left; reflexivity | right; apply IH; exact H]. }
    assert (Hall : forallb (fun t => ty_ok (py_type_ty t)) (map snd format_map) = true)
      by (vm_compute; reflexivity).
    rewrite forallb_forall in Hall. exact (Hall t Ht).
  - vm_compute. reflexivity.
Qed.

(* F03a (fixed): "uuid" and "time" still resolve to UUID / time, which now are supported leaf types *)
Lemma regression_F03a :
  resolve_format s_uuid = TUuid /\ resolve_format [116;105;109;101] = TTime /\
  ty_ok (resolve_format s_uuid) = true /\ ty_ok (resolve_format [116;105;109;101]) = true.
Proof. vm_compute. repeat split. Qed.

(* F03c (fixed): a self reference through an array is an ordinary list of the class for the converter *)
Lemma regression_F03c : forall c,
  resolve (PArr (PSelf c)) = TList (TData c) /\ ty_ok (resolve (PArr (PSelf c))) = true.
Proof. intro c. split; reflexivity. Qed.

(* ======================================================================================
   Meta maps of a generated class are mutually inverse bijections
   ====================================================================================== *)
From Coq Require Import Permutation.
From PG Require Import Proofs.Converter.

Lemma insert_perm : forall {A} (leb : A -> A -> bool) x l, Permutation (insert leb x l) (x :: l).
Proof.
  intros A leb x. induction l as [|y l IH]; cbn [insert]; [apply Permutation_refl|].
  destruct (leb x y); [apply Permutation_refl|].
  eapply Permutation_trans; [apply perm_skip; exact IH | apply perm_swap].
Qed.

Lemma isort_perm : forall {A} (leb : A -> A -> bool) l, Permutation (isort leb l) l.
Proof.
  intros A leb. induction l as [|x l IH]; cbn [isort]; [apply Permutation_refl|].
  eapply Permutation_trans; [apply insert_perm | apply perm_skip; exact IH].
Qed.

Section MapsBijective.
  Variable sanitize : str -> str.

  Lemma name_fields_fst : forall ps seen, map fst (name_fields sanitize seen ps) = map p_name ps.
  Proof.
    induction ps as [|p ps IH]; intro seen; cbn [name_fields map fst]; [reflexivity|].
    rewrite IH. reflexivity.
  Qed.

  Lemma name_fields_length : forall ps seen, length (name_fields sanitize seen ps) = length ps.
  Proof. intros. rewrite <- (map_length fst), name_fields_fst, map_length. reflexivity. Qed.

  Lemma map_combine_snd : forall {A B C} (g : B -> C) (l : list A) (m : list B),
    length l = length m -> map (fun p => g (snd p)) (combine l m) = map g m.
  Proof.
    intros A B C g. induction l as [|x l IH]; intros [|y m] H; try discriminate; [reflexivity|].
    cbn [combine map snd]. rewrite IH; [reflexivity | inversion H; reflexivity].
  Qed.

  Lemma find_unique : forall (l : list (str * str)) w fn,
    NoDup (map snd l) -> In (w, fn) l -> find (fun p => str_eqb (snd p) fn) l = Some (w, fn).
  Proof.
    induction l as [|[w' fn'] l IH]; intros w fn Hnd Hin; [destruct Hin|].
    cbn [find snd]. cbn [map snd] in Hnd. inversion Hnd as [|? ? Hni Hnd']; subst.
    destruct Hin as [Heq | Hin].
    - inversion Heq; subst. rewrite str_eqb_refl. reflexivity.
    - destruct (str_eqb fn' fn) eqn:E.
      + apply str_eqb_eq in E. subst fn'. exfalso. apply Hni. apply in_map_iff. exists (w, fn). auto.
      + apply IH; assumption.
  Qed.

  Definition names_of (s : oschema) : list (str * str) :=
    name_fields sanitize [] (isort prop_leb (s_props s)).

  (* executable guard: the field names chosen by the collision loop are pairwise distinct *)
  Fixpoint nodupb (l : list str) : bool :=
    match l with [] => true | x :: r => negb (mem_str x r) && nodupb r end.
  Lemma nodupb_NoDup : forall l, nodupb l = true -> NoDup l.
  Proof.
    induction l as [|x l IH]; cbn [nodupb]; intro H; [constructor|].
    apply andb_true_iff in H as [H1 H2]. constructor; [|apply IH; exact H2].
    intro Hin. apply mem_str_In in Hin. rewrite Hin in H1. discriminate.
  Qed.

  Lemma c_load_gen : forall s, names_of s <> [] ->
    c_load (gen_class sanitize s) = Some (isort (fun a b : str * str => str_leb (fst a) (fst b)) (names_of s)).
  Proof.
    intros s H. unfold gen_class, names_of in *. cbn [c_load].
    destruct (name_fields sanitize [] (isort prop_leb (s_props s))); [contradiction | reflexivity].
  Qed.
  Lemma c_dump_gen : forall s, names_of s <> [] ->
    c_dump (gen_class sanitize s) =
    Some (isort (fun a b : str * str => str_leb (fst a) (fst b)) (map (fun wn => (snd wn, fst wn)) (names_of s))).
  Proof.
    intros s H. unfold gen_class, names_of in *. cbn [c_dump].
    destruct (name_fields sanitize [] (isort prop_leb (s_props s))); [contradiction | reflexivity].
  Qed.

  Theorem maps_bijective_partial : forall s,
    NoDup (map p_name (s_props s)) ->
    nodupb (map snd (names_of s)) = true ->
    maps_bijective (gen_class sanitize s).
  Proof.
    intros s Hprops Hg. apply nodupb_NoDup in Hg.
    unfold names_of in Hg. set (ps := isort prop_leb (s_props s)) in *.
    set (names := name_fields sanitize [] ps) in *.
    assert (Hlen : length ps = length names) by (unfold names; rewrite name_fields_length; reflexivity).
    assert (Hfn : map f_name (c_fields (gen_class sanitize s)) = map snd names).
    { unfold gen_class. fold ps. fold names. cbn [c_fields]. rewrite map_map. cbn [f_name field_of].
      apply (map_combine_snd snd ps names Hlen). }
    assert (Hw_nd : NoDup (map fst names)).
    { unfold names. rewrite name_fields_fst.
      eapply Permutation_NoDup; [|exact Hprops]. apply Permutation_map. apply Permutation_sym. apply isort_perm. }
    (* the two Meta dicts *)
    pose (lm := isort (fun a b : str * str => str_leb (fst a) (fst b)) names).
    pose (dm := isort (fun a b : str * str => str_leb (fst a) (fst b)) (map (fun wn => (snd wn, fst wn)) names)).
    assert (Hlm : Permutation lm names) by apply isort_perm.
    assert (Hdm : Permutation dm (map (fun wn => (snd wn, fst wn)) names)) by apply isort_perm.
    assert (Hwire : forall f, In f (c_fields (gen_class sanitize s)) ->
              exists w, In (w, f_name f) names /\ wire (gen_class sanitize s) f = w /\
                        dump_key (gen_class sanitize s) true (f_name f) = w).
    { intros f Hf.
      assert (Hin : In (f_name f) (map snd names)) by (rewrite <- Hfn; apply in_map; exact Hf).
      apply in_map_iff in Hin as [[w fn] [Hsnd Hin]]. cbn [snd] in Hsnd. subst fn.
      exists w. split; [exact Hin|].
      assert (Hne : names_of s <> []).
      { unfold names_of. fold ps. fold names. intro E. rewrite E in Hin. destruct Hin. }
      unfold wire, load_key, dump_key. rewrite (c_load_gen s Hne), (c_dump_gen s Hne).
      unfold names_of. fold ps. fold names. fold lm. fold dm. split.
      - rewrite (find_unique lm w (f_name f)); [reflexivity | |].
        + eapply Permutation_NoDup; [apply Permutation_map; apply Permutation_sym; exact Hlm | exact Hg].
        + eapply Permutation_in; [apply Permutation_sym; exact Hlm | exact Hin].
      - rewrite (alookup_In_NoDup dm (f_name f) w); [reflexivity | |].
        + eapply Permutation_NoDup; [apply Permutation_map; apply Permutation_sym; exact Hdm|].
          rewrite map_map. cbn [fst]. exact Hg.
        + eapply Permutation_in; [apply Permutation_sym; exact Hdm|].
          apply in_map_iff. exists (w, f_name f). split; [reflexivity | exact Hin]. }
    split; [rewrite Hfn; exact Hg|]. split.
    - (* wire keys = the original property names, in field order *)
      assert (Hmw : map (wire (gen_class sanitize s)) (c_fields (gen_class sanitize s)) = map fst names).
      { (* position-wise: field i is built from names[i] *)
        unfold gen_class at 2. fold ps. fold names. cbn [c_fields]. rewrite map_map.
        transitivity (map (fun pn : prop * (str * str) => fst (snd pn)) (combine ps names));
          [|apply (map_combine_snd fst ps names Hlen)].
        apply map_ext_in. intros [p [w fn]] Hin. cbn [fst snd].
        assert (Hf : In (field_of p fn) (c_fields (gen_class sanitize s))).
        { unfold gen_class. fold ps. fold names. cbn [c_fields]. apply in_map_iff.
          exists (p, (w, fn)). split; [reflexivity | exact Hin]. }
        destruct (Hwire _ Hf) as [w' [Hin' [Hw _]]]. rewrite Hw. cbn [f_name field_of] in Hin'.
        (* (w', fn) and (w, fn) are both in names and second components are unique *)
        apply in_combine_r in Hin.
        assert (E : find (fun p => str_eqb (snd p) fn) names = Some (w, fn)) by (apply find_unique; assumption).
        rewrite (find_unique names w' fn Hg Hin') in E. inversion E. reflexivity. }
      rewrite Hmw. exact Hw_nd.
    - intros f Hf. destruct (Hwire f Hf) as [w [_ [Hw Hd]]]. rewrite Hw, Hd. reflexivity.
  Qed.
End MapsBijective.

(* ======================================================================================
   Freshness of the collision loop: the names it picks are pairwise distinct, for any sanitizer —
   so the distinctness guard of maps_bijective_partial always holds
   ====================================================================================== *)
From Coq Require Import DecimalN.

Lemma uint_codes_inj : forall u v, uint_codes u = uint_codes v -> u = v.
Proof.
  induction u; destruct v; cbn [uint_codes]; intro H; try reflexivity; try discriminate;
    inversion H as [H']; f_equal; apply IHu; exact H'.
Qed.

Lemma digits_inj : forall a b, digits a = digits b -> a = b.
Proof.
  intros a b H. unfold digits in H. apply uint_codes_inj in H.
  rewrite <- (DecimalN.Unsigned.of_to a), <- (DecimalN.Unsigned.of_to b), H. reflexivity.
Qed.

Definition cand (base : str) (k : N) : str := base ++ [95] ++ digits k.

Lemma cand_inj : forall base a b, cand base a = cand base b -> a = b.
Proof.
  intros base a b H. unfold cand in H. apply app_inv_head in H. apply app_inv_head in H.
  apply digits_inj. exact H.
Qed.

Lemma fresh_name_bad : forall f base s seen,
  mem_str (fresh_name f base s seen) seen = true ->
  forall i, (i <= f)%nat -> mem_str (cand base (s + N.of_nat i)) seen = true.
Proof.
  induction f as [|f IH]; intros base s seen H i Hi.
  - assert (i = 0%nat) by lia. subst i. cbn [fresh_name] in H. rewrite N.add_0_r. exact H.
  - cbn [fresh_name] in H. fold (cand base s) in H.
    destruct (mem_str (cand base s) seen) eqn:E.
    + destruct i as [|i]; [rewrite N.add_0_r; exact E|].
      replace (s + N.of_nat (S i)) with ((s + 1) + N.of_nat i) by lia.
      apply (IH base (s + 1) seen H i). lia.
    + rewrite E in H. discriminate.
Qed.

Lemma NoDup_map_inj : forall {A B} (f : A -> B) l,
  (forall x y, f x = f y -> x = y) -> NoDup l -> NoDup (map f l).
Proof.
  intros A B f l Hinj H. induction H as [|x l Hni _ IH]; cbn [map]; constructor; [|exact IH].
  intro Hin. apply in_map_iff in Hin as [y [Hy Hin]]. apply Hinj in Hy. subst y. contradiction.
Qed.

Lemma fresh_name_fresh : forall base s seen,
  mem_str (fresh_name (length seen) base s seen) seen = false.
Proof.
  intros base s seen. destruct (mem_str _ seen) eqn:E; [|reflexivity]. exfalso.
  pose proof (fresh_name_bad (length seen) base s seen E) as Hall.
  pose (L := map (fun i => cand base (s + N.of_nat i)) (seq 0 (S (length seen)))).
  assert (Hnd : NoDup L).
  { apply NoDup_map_inj; [|apply seq_NoDup]. intros x y Hxy. apply cand_inj in Hxy. lia. }
  assert (Hincl : incl L seen).
  { intros c Hc. apply in_map_iff in Hc as [i [<- Hi]]. apply in_seq in Hi.
    apply mem_str_In. apply Hall. lia. }
  pose proof (NoDup_incl_length Hnd Hincl) as Hlen.
  unfold L in Hlen. rewrite map_length, seq_length in Hlen. lia.
Qed.

Section Fresh.
  Variable sanitize : str -> str.

  Lemma field_name_for_fresh : forall seen p, ~ In (field_name_for sanitize seen p) seen.
  Proof.
    intros seen p Hin. apply mem_str_In in Hin. unfold field_name_for in Hin.
    destruct (mem_str (sanitize p) seen) eqn:E.
    - rewrite fresh_name_fresh in Hin. discriminate.
    - rewrite E in Hin. discriminate.
  Qed.

  Lemma name_fields_fresh : forall ps seen,
    NoDup (map snd (name_fields sanitize seen ps)) /\
    forall fn, In fn (map snd (name_fields sanitize seen ps)) -> ~ In fn seen.
  Proof.
    induction ps as [|p ps IH]; intro seen; cbn [name_fields map snd].
    - split; [constructor | intros fn []].
    - destruct (IH (field_name_for sanitize seen (p_name p) :: seen)) as [Hnd Hout]. split.
      + constructor; [|exact Hnd]. intro Hin. apply (Hout _ Hin). left. reflexivity.
      + intros fn [<- | Hin]; [apply field_name_for_fresh|].
        intro Hs. apply (Hout _ Hin). right. exact Hs.
  Qed.

  Lemma NoDup_nodupb : forall l, NoDup l -> nodupb l = true.
  Proof.
    induction 1 as [|x l Hni _ IH]; [reflexivity|]. cbn [nodupb]. rewrite IH, andb_true_r.
    destruct (mem_str x l) eqn:E; [apply mem_str_In in E; contradiction | reflexivity].
  Qed.

  (* full: no guard left *)
  Theorem maps_bijective_full : forall s,
    NoDup (map p_name (s_props s)) -> maps_bijective (gen_class sanitize s).
  Proof.
    intros s Hp. apply maps_bijective_partial; [exact Hp|].
    apply NoDup_nodupb. unfold names_of. apply name_fields_fresh.
  Qed.
End Fresh.

(* ======================================================================================
   C03_roundtrip: the class table generated from a document's object schemas meets every hypothesis
   of C16_decode_encode, hence every schema-conforming document round-trips
   ====================================================================================== *)
Definition opt_arg_shape (T : ty) : bool := match T with TOpt _ | TDict TAny | TAny => false | _ => true end.

Lemma py_type_ty_facts : forall n,
  opt_arg_shape (py_type_ty n) = true /\ ty_classes (py_type_ty n) = [].
Proof.
  intro n. unfold py_type_ty.
  repeat match goal with |- context [if ?b then _ else _] => destruct b end; split; reflexivity.
Qed.

Lemma resolve_string_facts : forall fmt,
  ty_ok (resolve_string fmt) = true /\ opt_arg_shape (resolve_string fmt) = true /\ ty_classes (resolve_string fmt) = [].
Proof.
  intros [[|c f]|]; cbn [resolve_string]; try (repeat split; reflexivity).
  split; [apply formats_supported|]. unfold resolve_format. apply py_type_ty_facts.
Qed.

Lemma resolve_facts : forall ids p, pschema_ok ids p = true ->
  ty_ok (resolve p) = true /\ opt_arg_shape (resolve p) = true /\
  forall c, In c (ty_classes (resolve p)) -> mem_N c ids = true.
Proof.
  intros ids. induction p; cbn [pschema_ok]; intro H; try discriminate.
  - destruct (resolve_string_facts fmt) as [H1 [H2 H3]]. cbn [resolve]. rewrite H3.
    split; [exact H1|]. split; [exact H2 | intros c []].
  - repeat split; intros c [].
  - repeat split; intros c [].
  - repeat split; intros c [].
  - repeat split; intros c [].
  - destruct (IHp H) as [H1 [_ H3]].
    destruct p; cbn [resolve] in *; (split; [|split; [reflexivity|]]); try exact H1; try exact H3;
      try reflexivity; intros c [].
  - cbn [resolve ty_ok ty_classes]. repeat split. intros c' [<- | []]. exact H.
  - cbn [resolve ty_ok ty_classes]. repeat split. intros c' [<- | []]. exact H.
Qed.

Section RoundTripGen.
  Variable sanitize : str -> str.
  Variable ss : list oschema.
  Let ids := map s_id ss.
  Let ct := map (gen_class sanitize) ss.
  Hypothesis Hss : forall s, In s ss -> schema_ok ids s.

  Lemma gen_field_in : forall s f, In f (c_fields (gen_class sanitize s)) ->
    exists p fn, In p (s_props s) /\ f = field_of p fn.
  Proof.
    intros s f Hf. unfold gen_class in Hf. cbn [c_fields] in Hf.
    apply in_map_iff in Hf as [[p [w fn]] [<- Hin]]. cbn [fst snd].
    exists p, fn. split; [|reflexivity]. apply in_combine_l in Hin.
    eapply Permutation_in; [apply isort_perm | exact Hin].
  Qed.

  Lemma lookup_gen : forall c k, lookup_cls ct c = Some k ->
    exists s, In s ss /\ k = gen_class sanitize s /\ s_id s = c.
  Proof.
    intros c k H. unfold lookup_cls in H. apply find_some in H as [Hin He].
    apply N.eqb_eq in He. unfold ct in Hin. apply in_map_iff in Hin as [s [<- Hs]].
    exists s. split; [exact Hs|]. split; [reflexivity | exact He].
  Qed.

  Lemma lookup_exists : forall c, mem_N c ids = true -> lookup_cls ct c <> None.
  Proof.
    intros c H. unfold mem_N in H. apply existsb_exists in H as [c' [Hin He]].
    apply N.eqb_eq in He. subst c'. unfold ids in Hin. apply in_map_iff in Hin as [s [Hid Hs]].
    unfold lookup_cls. intro Hn.
    assert (Hf := find_none _ _ Hn (gen_class sanitize s)).
    cbn [gen_class c_id] in Hf. rewrite Hid, N.eqb_refl in Hf.
    assert (true = false) by (apply Hf; unfold ct; apply in_map; exact Hs). discriminate.
  Qed.

  Lemma field_of_ty : forall p fn,
    f_ty (field_of p fn) = resolve (p_schema p) \/ f_ty (field_of p fn) = TOpt (resolve (p_schema p)).
  Proof. intros p fn. cbn [field_of f_ty]. destruct (p_required p && negb (p_nullable p)); auto. Qed.

  Lemma gen_ct_ok : ct_ok ct.
  Proof.
    intros c k Hk. destruct (lookup_gen c k Hk) as [s [Hs [-> Hid]]].
    split; [exact Hid|]. destruct (Hss s Hs) as [Hnd Hps].
    split; [apply maps_bijective_full; exact Hnd|]. split.
    - intros f Hf. destruct (gen_field_in s f Hf) as [p [fn [Hp ->]]].
      destruct (resolve_facts ids (p_schema p) (Hps p Hp)) as [H1 [H2 _]].
      destruct (field_of_ty p fn) as [-> | ->]; [exact H1|].
      cbn [ty_ok]. rewrite H1. unfold opt_arg_shape in H2. exact H2.
    - intros f c' Hf Hc. destruct (gen_field_in s f Hf) as [p [fn [Hp ->]]].
      destruct (resolve_facts ids (p_schema p) (Hps p Hp)) as [_ [_ H3]].
      apply lookup_exists. apply H3.
      destruct (field_of_ty p fn) as [E | E]; rewrite E in Hc; exact Hc.
  Qed.

  Lemma gen_defaults_ok : defaults_ok ct.
  Proof.
    intros c k f d Hk Hf Hd. destruct (lookup_gen c k Hk) as [s [Hs [-> _]]].
    destruct (gen_field_in s f Hf) as [p [fn [Hp ->]]].
    cbn [field_of f_default f_ty] in *.
    destruct (p_required p) eqn:Er; [discriminate|]. cbn [andb].
    destruct (p_schema p) as [fmt| | | |vals|items|c1|c1|v0] eqn:Ep; inversion Hd; subst d;
      try (left; split; [reflexivity | eexists; reflexivity]).
    right. left. split; [reflexivity|]. cbn [resolve].
    destruct items; eexists; right; reflexivity.
  Qed.

  (* every document conforming to a generated model round-trips through the bundled converter *)
  Theorem roundtrip_gen :
    forall b64dec b64enc dt_parse date_parse uuid_parse time_parse int_of_str float_of_str str_of_json sreg ureg,
      (forall b, b64dec (b64enc b) = Some b) -> all_hooked ct sreg -> all_hooked ct ureg ->
      forall c j, conforms b64enc dt_parse date_parse uuid_parse time_parse ct (TData c) j ->
      exists v j',
        structure b64dec dt_parse date_parse uuid_parse time_parse int_of_str float_of_str str_of_json ct sreg j (TData c) = Ok v /\
        unstructure b64enc ct ureg v (TData c) = Ok j' /\ rt_rel ct (TData c) j j'.
  Proof.
    intros until ureg. intros Hb Hs Hu c j Hc.
    destruct (decode_encode_all b64dec b64enc dt_parse date_parse uuid_parse time_parse int_of_str float_of_str
                str_of_json ct sreg ureg Hb gen_ct_ok Hs Hu gen_defaults_ok j (TData c) eq_refl Hc)
      as [v [j' [H1 [H2 [H3 _]]]]].
    exists v, j'. repeat split; assumption.
  Qed.
End RoundTripGen.

(* non-vacuity: three properties that sanitize to the same name get distinct fields and inverse maps *)
Definition san_demo (s : str) : str := [117;115;101;114;95;105;100].     (* every name -> "user_id" *)
Definition s_demo : oschema :=
  {| s_id := 0; s_props := [ {| p_name := [117;115;101;114;73;100]; p_required := true; p_nullable := false; p_schema := PInt |};
                             {| p_name := [117;115;101;114;95;105;100]; p_required := false; p_nullable := false; p_schema := PStr None |};
                             {| p_name := [117;115;101;114;45;105;100]; p_required := false; p_nullable := false; p_schema := PArr PInt |} ] |}.
Lemma maps_demo : NoDup (map p_name (s_props s_demo)) /\ nodupb (map snd (names_of san_demo s_demo)) = true /\
                  map snd (names_of san_demo s_demo) =
                  [[117;115;101;114;95;105;100]; [117;115;101;114;95;105;100;95;50]; [117;115;101;114;95;105;100;95;51]].
Proof.
  split; [|split; vm_compute; reflexivity].
  cbn. repeat constructor; cbn; intuition discriminate.
Qed.

(* non-vacuity of C03_roundtrip: the demo schema is in the fragment and {"userId": 5} conforms to its model *)
Lemma s_demo_ok : schema_ok [0] s_demo.
Proof.
  split; [apply maps_demo|]. intros p Hp. cbn in Hp. destruct Hp as [<-|[<-|[<-|[]]]]; reflexivity.
Qed.

Definition ct_gen_demo : list cls := [gen_class san_demo s_demo].
Definition j_gen_demo : json := JObj [([117;115;101;114;73;100], JInt 5)].

Lemma j_gen_demo_conforms : forall b64enc dt_parse date_parse uuid_parse time_parse,
  conforms b64enc dt_parse date_parse uuid_parse time_parse ct_gen_demo (TData 0) j_gen_demo.
Proof.
  intros. apply (C_data _ _ _ _ _ _ 0 (gen_class san_demo s_demo)); [reflexivity | | |].
  - cbn. repeat constructor. intros [].
  - intros key v [H | []]. inversion H; subst.
    exists (field_of {| p_name := [117;115;101;114;73;100]; p_required := true; p_nullable := false; p_schema := PInt |}
                     [117;115;101;114;95;105;100]).
    split; [vm_compute; left; reflexivity|]. split; [vm_compute; reflexivity | apply C_int].
  - intros f Hf Hd. vm_compute in Hf. destruct Hf as [<-|[<-|[<-|[]]]]; vm_compute in Hd; try discriminate.
    vm_compute. left. reflexivity.
Qed.
