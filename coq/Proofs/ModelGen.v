(* C03 — proofs about Model/ModelGen.v *)
From PG Require Import Lib.Strs Model.Converter Model.ModelGen.

Definition s_uuid : str := [117;117;105;100].

(* F03a: the format table sends "uuid" (and "time") to a type the converter has no hook for *)
Lemma refuted_F03a :
  In s_uuid (map fst format_map) /\ ty_has_unhooked (resolve_format s_uuid) = true /\
  ty_ok (resolve_format s_uuid) = false.
Proof. vm_compute. repeat split; auto 12. Qed.

(* every other entry of the (regenerated) table resolves to a supported type *)
Lemma formats_supported_table :
  forallb (fun f => ty_has_unhooked (resolve_format f) || ty_ok (resolve_format f)) (map fst format_map) = true.
Proof. vm_compute. reflexivity. Qed.

Lemma formats_supported : forall fmt,
  ty_has_unhooked (resolve_format fmt) = false -> ty_ok (resolve_format fmt) = true.
Proof.
  intros fmt Hg. unfold resolve_format in *.
  destruct (alookup fmt format_map) as [t|] eqn:E.
  - (* in the table: the python type names that occur are finitely many *)
    assert (Ht : In t (map snd format_map)).
    { clear Hg. revert E. generalize format_map. induction l as [|[k v] l IH]; cbn [alookup]; [discriminate|].
      destruct (str_eqb fmt k); intro H; [inversion H; left; reflexivity | right; apply IH; exact H]. }
    assert (Hall : forallb (fun t => ty_has_unhooked (py_type_ty t) || ty_ok (py_type_ty t)) (map snd format_map) = true)
      by (vm_compute; reflexivity).
    rewrite forallb_forall in Hall. specialize (Hall t Ht). rewrite Hg in Hall. exact Hall.
  - vm_compute. reflexivity.
Qed.

Lemma formats_nonvacuous : exists fmt, In fmt (map fst format_map) /\ ty_has_unhooked (resolve_format fmt) = false
                                       /\ resolve_format fmt = TDatetime.
Proof. exists [100;97;116;101;45;116;105;109;101]. vm_compute. repeat split; auto 12. Qed.
