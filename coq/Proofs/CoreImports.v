(* C12 — proofs about Model/CoreImports.v and the regenerated tables Gen/T_C12.v *)
From PG Require Import Lib.Strs Model.CoreImports Gen.T_C12.
From Coq Require Import Arith.PeanoNat Lia.

Local Open Scope nat_scope.

(* ------------------------------------------------------------------ list-of-strings equality *)
Lemma modpath_eqb_eq : forall a b, modpath_eqb a b = true <-> a = b.
Proof.
  unfold modpath_eqb.
  induction a as [|x a IH]; destruct b as [|y b]; simpl; split; intro H;
    try reflexivity; try discriminate.
  - apply andb_true_iff in H. destruct H as [H1 H2].
    apply str_eqb_eq in H1. apply IH in H2. subst. reflexivity.
  - inversion H; subst. apply andb_true_iff. split; [apply str_eqb_refl | apply IH; reflexivity].
Qed.

Lemma modpath_eqb_refl : forall a, modpath_eqb a a = true.
Proof. intro a. apply modpath_eqb_eq. reflexivity. Qed.

Lemma prefix_parts_app : forall p t, prefix_parts p (p ++ t) = true.
Proof.
  induction p as [|x p IH]; intro t; simpl; [reflexivity|].
  rewrite str_eqb_refl. simpl. apply IH.
Qed.

Lemma prefix_parts_spec : forall p m, prefix_parts p m = true <-> exists t, m = p ++ t.
Proof.
  induction p as [|x p IH]; intro m; simpl.
  - split; [intros _; exists m; reflexivity | reflexivity].
  - destruct m as [|y m].
    + split; [discriminate | intros [t Ht]; discriminate].
    + rewrite andb_true_iff, str_eqb_eq, IH. split.
      * intros [-> [t ->]]. exists t. reflexivity.
      * intros [t Ht]. inversion Ht; subst. split; [reflexivity | exists t; reflexivity].
Qed.

Lemma under_app : forall p t, p <> [] -> under p (p ++ t) = true.
Proof.
  intros p t Hp. unfold under. destruct p as [|x p]; [contradiction|]. apply prefix_parts_app.
Qed.

(* ------------------------------------------------------------------ common prefix *)
Lemma cpl_le_l : forall a b, common_prefix_len a b <= length a.
Proof.
  induction a as [|x a IH]; intros [|y b]; simpl; try lia.
  destruct (str_eqb x y); [specialize (IH b)|]; lia.
Qed.

Lemma cpl_le_r : forall a b, common_prefix_len a b <= length b.
Proof.
  induction a as [|x a IH]; intros [|y b]; simpl; try lia.
  destruct (str_eqb x y); [specialize (IH b)|]; lia.
Qed.

Lemma firstn_cpl : forall a b,
  firstn (common_prefix_len a b) a = firstn (common_prefix_len a b) b.
Proof.
  induction a as [|x a IH]; intros [|y b]; simpl; try reflexivity.
  destruct (str_eqb x y) eqn:E; simpl; [|reflexivity].
  apply str_eqb_eq in E. subst y. f_equal. apply IH.
Qed.

(* the common prefix is maximal: the next components differ *)
Lemma cpl_maximal : forall a b x y ra rb,
  skipn (common_prefix_len a b) a = x :: ra ->
  skipn (common_prefix_len a b) b = y :: rb -> x <> y.
Proof.
  induction a as [|x0 a IH]; intros [|y0 b] x y ra rb Ha Hb; simpl in *; try discriminate.
  destruct (str_eqb x0 y0) eqn:E; simpl in *.
  - eapply IH; eassumption.
  - inversion Ha; inversion Hb; subst. apply str_eqb_neq. exact E.
Qed.

Lemma cpl_full_prefix : forall a b, common_prefix_len a b = length a -> prefix_parts a b = true.
Proof.
  induction a as [|x a IH]; intros [|y b] H; simpl in *; try reflexivity; try discriminate.
  destruct (str_eqb x y) eqn:E; [|discriminate].
  simpl. apply IH. lia.
Qed.

Lemma prefix_cpl : forall a b, prefix_parts a b = true -> common_prefix_len a b = length a.
Proof.
  induction a as [|x a IH]; intros [|y b] H; simpl in *; try reflexivity; try discriminate.
  apply andb_true_iff in H. destruct H as [H1 H2]. rewrite H1. f_equal. apply IH. exact H2.
Qed.

(* ------------------------------------------------------------------ render_context.calculate_relative_path_for_internal_module *)
(* For EVERY file position below the package root and EVERY target: the relative import the generator
   writes, resolved by CPython's rule in the file's own package, is exactly the intended module.
   [root] is the (non-empty) dotted name of the output package, [removelast cur_file] the directory of the
   current file below it (both for plain modules and for __init__.py, whose __package__ is that directory). *)
Lemma firstn_removelast : forall (l : modpath) n, n <= length (removelast l) -> firstn n (removelast l) = firstn n l.
Proof.
  induction l as [|x l IH]; intros n Hn; [reflexivity|].
  destruct l as [|y l].
  - simpl in Hn. assert (n = 0) by lia. subst. reflexivity.
  - destruct n as [|n]; [reflexivity|].
    change (removelast (x :: y :: l)) with (x :: removelast (y :: l)) in *.
    simpl in Hn. simpl firstn at 1. simpl firstn at 2. f_equal. apply IH. simpl. lia.
Qed.

Theorem calc_relative_roundtrip : forall root cur_file tgt tdir i,
  root <> [] ->
  calc_relative cur_file tgt tdir = Some i ->
  resolve_name (root ++ removelast cur_file) (i_level i) (i_parts i) = Some (root ++ tgt).
Proof.
  intros root cur_file tgt tdir i Hroot H.
  unfold calc_relative in H.
  destruct (negb tdir && modpath_eqb cur_file tgt); [discriminate|].
  inversion H; subst i; clear H. simpl.
  set (d := removelast cur_file).
  set (t' := if tdir then tgt else removelast tgt).
  pose proof (cpl_le_l d t') as Hl.
  pose proof (cpl_le_r d t') as Hr.
  assert (Hpre : firstn (common_prefix_len d t') d = firstn (common_prefix_len d t') tgt).
  { rewrite firstn_cpl. unfold t' in *. destruct tdir; [reflexivity|]. apply firstn_removelast. exact Hr. }
  set (L := common_prefix_len d t') in *.
  assert (Hlen : length root > 0) by (destruct root; [contradiction | simpl; lia]).
  rewrite app_length.
  destruct (length root + length d <? S (length d - L)) eqn:E.
  - apply Nat.ltb_lt in E. lia.
  - f_equal.
    replace (length root + length d - (length d - L)) with (length root + L) by lia.
    rewrite firstn_app.
    replace (length root + L - length root) with L by lia.
    rewrite firstn_all2 by lia.
    rewrite <- app_assoc. f_equal.
    rewrite Hpre. apply firstn_skipn.
Qed.

(* the computed import never climbs above the package root *)
Theorem calc_relative_stays_inside : forall cur_file tgt tdir i,
  calc_relative cur_file tgt tdir = Some i ->
  i_level i <= S (length (removelast cur_file)) /\ i_level i >= 1.
Proof.
  intros cur_file tgt tdir i H. unfold calc_relative in H.
  destruct (negb tdir && modpath_eqb cur_file tgt); [discriminate|].
  inversion H; subst; simpl. lia.
Qed.

(* None is returned only for the file itself *)
Theorem calc_relative_none : forall cur_file tgt tdir,
  calc_relative cur_file tgt tdir = None -> tdir = false /\ cur_file = tgt.
Proof.
  intros cur_file tgt tdir H. unfold calc_relative in H.
  destruct (negb tdir && modpath_eqb cur_file tgt) eqn:E; [|discriminate].
  apply andb_true_iff in E. destruct E as [E1 E2].
  apply modpath_eqb_eq in E2. destruct tdir; [discriminate|]. auto.
Qed.

(* ------------------------------------------------------------------ import_collector.make_relative_import *)
(* wf for a plain module [cur] (not a package): it lives in some package (length >= 2), the target shares
   at least the top-level package with it, and the target is not "below" cur (a plain module has no submodules). *)
Definition wf_rel (cur tgt : modpath) : Prop :=
  common_prefix_len (removelast cur) tgt >= 1 /\
  ((length cur <? length tgt) && prefix_parts cur tgt = false).

Theorem make_relative_roundtrip : forall cur tgt,
  wf_rel cur tgt ->
  resolve_relative cur false (make_relative_import cur tgt) = Some tgt.
Proof.
  intros cur tgt [HL Hnd].
  unfold resolve_relative, package_of, make_relative_import.
  set (d := removelast cur) in *.
  pose proof (cpl_le_l d tgt) as Hl.
  set (L := common_prefix_len d tgt) in *.
  destruct (length d - L) as [|u] eqn:Eu.
  - rewrite Hnd. simpl.
    destruct (length d <? 1) eqn:E; [apply Nat.ltb_lt in E; lia|].
    f_equal. rewrite Nat.sub_0_r.
    assert (HLd : L = length d) by lia.
    rewrite firstn_all.
    transitivity (firstn L tgt ++ skipn L tgt); [|apply firstn_skipn].
    f_equal. unfold L. rewrite <- firstn_cpl. fold L. rewrite HLd. symmetry. apply firstn_all.
  - simpl.
    destruct (length d <? S (S u)) eqn:E; [apply Nat.ltb_lt in E; lia|].
    f_equal.
    replace (length d - S u) with L by lia.
    unfold L. rewrite firstn_cpl. apply firstn_skipn.
Qed.

(* from a package's __init__ (cur is the package's own dotted name) the function is right for targets below it *)
Theorem make_relative_roundtrip_pkg_child : forall cur t,
  cur <> [] -> t <> [] ->
  resolve_relative cur true (make_relative_import cur (cur ++ t)) = Some (cur ++ t).
Proof.
  intros cur t Hc Ht.
  unfold resolve_relative, package_of, make_relative_import.
  set (d := removelast cur).
  assert (Hd : cur = d ++ [last cur []]) by (apply app_removelast_last; exact Hc).
  assert (Hp : prefix_parts d (cur ++ t) = true).
  { apply prefix_parts_spec. exists ([last cur []] ++ t). rewrite app_assoc. rewrite <- Hd. reflexivity. }
  rewrite (prefix_cpl _ _ Hp). rewrite Nat.sub_diag.
  rewrite prefix_parts_app, app_length.
  assert (Hlt : length t > 0) by (destruct t; [contradiction | simpl; lia]).
  replace (length cur <? length cur + length t) with true by (symmetry; apply Nat.ltb_lt; lia).
  simpl.
  assert (Hlc : length cur > 0) by (destruct cur; [contradiction | simpl; lia]).
  destruct (length cur <? 1) eqn:E; [apply Nat.ltb_lt in E; lia|].
  rewrite Nat.sub_0_r, firstn_all. f_equal. f_equal.
  rewrite skipn_app, skipn_all, Nat.sub_diag. reflexivity.
Qed.

(* … and wrong for everything else: from pkg/sub/__init__.py the sibling pkg.x is rendered ".x",
   which CPython resolves to pkg.sub.x.  (make_relative_import is not on the path of generate_client — only
   the unused emit/models_emitter.py calls ImportCollector.get_import_statements — so this is recorded as an
   observation about the helper, not as a finding about emitted clients.) *)
Definition w_pkg : str := [112;107;103]%N.
Definition w_sub : str := [115;117;98]%N.
Definition w_x : str := [120]%N.
Theorem make_relative_import_init_sibling_wrong :
  resolve_relative [w_pkg; w_sub] true (make_relative_import [w_pkg; w_sub] [w_pkg; w_x])
  = Some [w_pkg; w_sub; w_x].
Proof. vm_compute. reflexivity. Qed.

Example wf_rel_nonvacuous :
  wf_rel [w_pkg; w_sub; w_x] [w_pkg; w_x] /\
  make_relative_import [w_pkg; w_sub; w_x] [w_pkg; w_x] = mkImp 2 [w_x].
Proof. split; [split; vm_compute; [lia | reflexivity] | vm_compute; reflexivity]. Qed.

(* ------------------------------------------------------------------ sites *)
(* the repaired path is always below the output package (which is why the repair can produce names of modules
   that do not exist — finding F01f of C01 — but never a foreign import) *)
Lemma repair_under : forall stdlib pkg core m,
  repairs stdlib pkg core m = true -> under pkg (repair stdlib pkg core m) = true.
Proof.
  intros stdlib pkg core m H. unfold repair. rewrite H.
  unfold repairs in H. repeat (apply andb_true_iff in H; destruct H as [H _]).
  unfold repairs0 in H. destruct pkg as [|x [|y sfx]]; try discriminate.
  simpl tl in H. apply andb_true_iff in H. destruct H as [H _].
  apply prefix_parts_spec in H. destruct H as [t ->].
  change (x :: (y :: sfx) ++ t) with ((x :: y :: sfx) ++ t).
  apply under_app. discriminate.
Qed.

Lemma registered_allowed : forall stdlib pkg core i,
  allowed stdlib pkg core i = true -> allowed stdlib pkg core (registered stdlib pkg core i) = true.
Proof.
  intros stdlib pkg core [l p] H. unfold registered. simpl.
  destruct l as [|l]; [|exact H].
  unfold allowed, abs_allowed in *. simpl in *.
  destruct (repairs stdlib pkg core p) eqn:E.
  - rewrite (repair_under stdlib pkg core p E). rewrite orb_true_r. reflexivity.
  - unfold repair. rewrite E. exact H.
Qed.

Lemma static_ok_allowed : forall stdlib a pkg core tail k,
  pkg <> [] -> core <> [] ->
  static_ok stdlib a = true ->
  site_allowed stdlib pkg core tail k (mkSite [] 0%N a) = true.
Proof.
  intros stdlib a pkg core tail k Hp Hc H.
  unfold site_allowed. simpl.
  assert (Hi : forall i, instantiate a pkg core tail k = Some i -> allowed stdlib pkg core i = true).
  { intros i Hi. destruct a as [l p|sfx| | | | | | | |au| ]; simpl in *; try discriminate; inversion Hi; subst i.
    - destruct l; simpl; [|reflexivity]. unfold allowed, abs_allowed. simpl. rewrite H. reflexivity.
    - unfold allowed, abs_allowed. simpl. rewrite (under_app core sfx Hc). rewrite orb_true_r. reflexivity.
    - unfold allowed, abs_allowed. simpl. rewrite (under_app pkg tail Hp). rewrite orb_true_r. reflexivity.
    - reflexivity. }
  assert (Hcl : classified a = true) by (destruct a as [ | | | | | | | | |[|]| ]; simpl in *; auto).
  rewrite Hcl. simpl.
  destruct (instantiate a pkg core tail k) as [i|] eqn:E; [|reflexivity].
  rewrite (Hi i eq_refl). simpl. apply registered_allowed. apply Hi. reflexivity.
Qed.

Lemma site_allowed_irrel : forall stdlib pkg core tail k f l a,
  site_allowed stdlib pkg core tail k (mkSite f l a) = site_allowed stdlib pkg core tail k (mkSite [] 0%N a).
Proof. reflexivity. Qed.

Definition sites_static_ok (l : list site) : bool :=
  forallb (fun s => static_ok stdlib_names (s_arg s)) l.

Lemma sites_lift : forall l, sites_static_ok l = true ->
  forall pkg core tail k s, pkg <> [] -> core <> [] -> In s l ->
  site_allowed stdlib_names pkg core tail k s = true.
Proof.
  intros l H pkg core tail k s Hp Hc Hin.
  unfold sites_static_ok in H. rewrite forallb_forall in H. specialize (H s Hin).
  destruct s as [f ln a]. rewrite site_allowed_irrel. apply static_ok_allowed; assumption.
Qed.

(* finite, regenerated tables: bound = number of rows of Gen/T_C12.v at this run *)
Lemma import_sites_static : sites_static_ok import_sites = true.
Proof. vm_compute. reflexivity. Qed.

Lemma template_imports_static : sites_static_ok template_imports = true.
Proof. vm_compute. reflexivity. Qed.

Theorem sites_allowed : forall pkg core tail k s,
  pkg <> [] -> core <> [] -> In s import_sites ->
  site_allowed stdlib_names pkg core tail k s = true.
Proof. exact (sites_lift import_sites import_sites_static). Qed.

Theorem templates_allowed : forall pkg core tail k s,
  pkg <> [] -> core <> [] -> In s template_imports ->
  site_allowed stdlib_names pkg core tail k s = true.
Proof. exact (sites_lift template_imports template_imports_static). Qed.

(* ------------------------------------------------------------------ runtime files *)
Definition core_modules : list modpath :=
  generated_core_modules ++ map (fun f => snd f) runtime_files.

Lemma runtime_table :
  forallb (fun r => implb (guard_F12a r) (allowed_runtime stdlib_names core_modules r)) runtime_imports = true.
Proof. vm_compute. reflexivity. Qed.

Lemma resolve_within_abs : forall core dir level parts m,
  core <> [] ->
  resolve_within dir level parts = Some m ->
  resolve_name (core ++ dir) level parts = Some (core ++ m).
Proof.
  intros core dir level parts m Hc H.
  destruct level as [|k]; simpl in *; [discriminate|].
  destruct (k <=? length dir) eqn:E; [|discriminate].
  apply Nat.leb_le in E. inversion H; subst m; clear H.
  assert (Hlen : length core > 0) by (destruct core; [contradiction | simpl; lia]).
  rewrite app_length.
  destruct (length core + length dir <? S k) eqn:E2; [apply Nat.ltb_lt in E2; lia|].
  f_equal.
  replace (length core + length dir - k) with (length core + (length dir - k)) by lia.
  rewrite firstn_app.
  replace (length core + (length dir - k) - length core) with (length dir - k) by lia.
  rewrite firstn_all2 by lia.
  rewrite app_assoc. reflexivity.
Qed.

(* every import statement of every shipped runtime file, wherever the core package is placed:
   absolute -> stdlib / httpx / cattrs;  relative -> resolves (CPython rule) to a module of that same core package *)
Definition runtime_import_ok (core : modpath) (r : rt_import) : Prop :=
  match ri_level r with
  | O => top_ok stdlib_names (ri_parts r) = true
  | S _ => exists m, resolve_name (core ++ removelast (ri_file r)) (ri_level r) (ri_parts r) = Some (core ++ m)
                     /\ In m core_modules
  end.

Lemma mem_path_In : forall m l, mem_path m l = true -> In m l.
Proof.
  intros m l H. unfold mem_path in H. apply existsb_exists in H.
  destruct H as [x [Hin He]]. apply modpath_eqb_eq in He. subst. exact Hin.
Qed.

Theorem runtime_allowed : forall core r,
  core <> [] -> In r runtime_imports -> guard_F12a r = true -> runtime_import_ok core r.
Proof.
  intros core r Hc Hin Hg.
  pose proof runtime_table as H. rewrite forallb_forall in H. specialize (H r Hin).
  rewrite Hg in H. simpl in H.
  unfold allowed_runtime in H. unfold runtime_import_ok.
  destruct (ri_level r) as [|k] eqn:El; [exact H|].
  destruct (resolve_within (removelast (ri_file r)) (S k) (ri_parts r)) as [m|] eqn:Er; [|discriminate].
  exists m. split; [apply resolve_within_abs; assumption | apply mem_path_In; exact H].
Qed.

(* F12a: the full statement (without the guard) is false on the shipped files *)
Theorem runtime_refuted_F12a : exists r,
  In r runtime_imports /\ guard_F12a r = false /\ allowed_runtime stdlib_names core_modules r = false.
Proof.
  assert (H : existsb (fun r => negb (guard_F12a r) && negb (allowed_runtime stdlib_names core_modules r))
                      runtime_imports = true) by (vm_compute; reflexivity).
  apply existsb_exists in H. destruct H as [r [Hin H]].
  apply andb_true_iff in H. destruct H as [H1 H2].
  apply negb_true_iff in H1. apply negb_true_iff in H2. exists r. auto.
Qed.

Lemma runtime_guard_nonvacuous :
  (20 <= length (filter guard_F12a runtime_imports))%nat /\
  existsb (fun r => guard_F12a r && (0 <? ri_level r)%nat) runtime_imports = true.
Proof. vm_compute. split; [repeat constructor | reflexivity]. Qed.

(* no runtime file and no literal site names the generator *)
Lemma generator_not_allowed : top_ok stdlib_names [s_pyopenapi_gen] = false.
Proof. vm_compute. reflexivity. Qed.

Example allowed_rejects_generator :
  allowed stdlib_names [w_pkg] [w_pkg; w_sub] (mkImp 0 [s_pyopenapi_gen; w_x]) = false /\
  allowed stdlib_names [w_pkg] [w_pkg; w_sub] (mkImp 0 [s_httpx]) = true /\
  allowed stdlib_names [w_pkg] [w_pkg; w_sub] (mkImp 0 [w_pkg; w_sub; w_x]) = true.
Proof. vm_compute. auto. Qed.

(* ------------------------------------------------------------------ verbatim copy *)
Lemma lookup_emit_core : forall B (src : list str * str -> B) files m stem dst,
  nodup_paths (map (fun f => snd f) files) = true ->
  In (m, stem, dst) files ->
  lookup_path dst (emit_core files src) = Some (src (m, stem)).
Proof.
  intros B src files. induction files as [|[[m0 s0] d0] files IH]; intros m stem dst Hnd Hin; [contradiction|].
  simpl in Hnd. apply andb_true_iff in Hnd. destruct Hnd as [Hn1 Hn2].
  simpl. destruct Hin as [Heq|Hin].
  - inversion Heq; subst. rewrite modpath_eqb_refl. reflexivity.
  - destruct (modpath_eqb dst d0) eqn:E.
    + apply modpath_eqb_eq in E. subst d0.
      exfalso. apply negb_true_iff in Hn1.
      assert (mem_path dst (map (fun f => snd f) files) = true).
      { unfold mem_path. apply existsb_exists. exists dst. split; [|apply modpath_eqb_refl].
        apply in_map_iff. exists (m, stem, dst). split; [reflexivity | exact Hin]. }
      congruence.
    + apply IH; assumption.
Qed.

Lemma runtime_dsts_nodup : nodup_paths (map (fun f => snd f) runtime_files) = true.
Proof. vm_compute. reflexivity. Qed.

(* whatever the shipped bytes are (src is arbitrary), the core package receives exactly them, one file per entry *)
Theorem core_verbatim : forall B (src : list str * str -> B) m stem dst,
  In (m, stem, dst) runtime_files ->
  lookup_path dst (emit_core runtime_files src) = Some (src (m, stem)).
Proof. intros. apply lookup_emit_core; [exact runtime_dsts_nodup | assumption]. Qed.

Lemma tables_nonempty :
  (8 <= length runtime_files /\ 20 <= length runtime_imports /\ 100 <= length import_sites
   /\ 20 <= length template_imports /\ 200 <= length stdlib_names)%nat.
Proof. vm_compute. repeat split; repeat constructor. Qed.

(* histories: whatever the core directory held before (fs arbitrary: stale, edited, truncated or missing files),
   after emit_core wrote its files on top of it every runtime destination holds the shipped bytes *)
Lemma lookup_path_app : forall B (a b : list (modpath * B)) k,
  lookup_path k (a ++ b) = match lookup_path k a with Some v => Some v | None => lookup_path k b end.
Proof.
  intros B a b k. induction a as [|[k' v] a IH]; simpl; [reflexivity|].
  destruct (modpath_eqb k k'); [reflexivity | exact IH].
Qed.

Theorem core_verbatim_history : forall B (src : list str * str -> B) (fs : list (modpath * B)) m stem dst,
  In (m, stem, dst) runtime_files ->
  lookup_path dst (emit_core runtime_files src ++ fs) = Some (src (m, stem)).
Proof.
  intros B src fs m stem dst H. rewrite lookup_path_app, (core_verbatim B src m stem dst H). reflexivity.
Qed.
