(* C20 — proofs about the de-duplication loops (Model/Dedup.v). *)
From PG Require Import Lib.Strs Gen.Tables Gen.T_C20 Model.Names Model.Dedup Proofs.Names.
