(* C20 — proofs about the de-duplication loops (Model/Dedup.v). *)
From Coq Require Import Arith Lia ZifyBool DecimalN Permutation.
From PG Require Import Lib.Strs Gen.Tables Gen.T_C20 Model.Names Model.Dedup Proofs.Names.

(* ================================================================= decimal rendering is injective *)
Lemma uint_chars_inj : forall u v, uint_chars u = uint_chars v -> u = v.
Proof.
  induction u as [|u IH|u IH|u IH|u IH|u IH|u IH|u IH|u IH|u IH|u IH];
    destruct v; simpl; intro H; try discriminate; try reflexivity;
    inversion H; f_equal; apply IH; assumption.
Qed.

Lemma dec_inj : forall n m, dec n = dec m -> n = m.
Proof.
  intros n m H. apply uint_chars_inj in H.
  rewrite <- (DecimalN.Unsigned.of_to n), <- (DecimalN.Unsigned.of_to m), H. reflexivity.
Qed.

Lemma uint_chars_digits : forall u, forallb is_digit (uint_chars u) = true.
Proof. induction u; simpl; try reflexivity; exact IHu. Qed.

Lemma dec_digits : forall n, forallb is_digit (dec n) = true.
Proof. intro n. apply uint_chars_digits. Qed.

Lemma dec_nonempty : forall n, dec n <> [].
Proof.
  intro n. unfold dec. destruct n as [|p]; [discriminate|].
  simpl N.to_uint. intro H.
  assert (E : Pos.to_uint p = Decimal.Nil) by (destruct (Pos.to_uint p); simpl in H; try discriminate; reflexivity).
  pose proof (DecimalPos.Unsigned.to_uint_nonnil p). congruence.
Qed.

(* ================================================================= first-fit choice *)
Definition injective (cand : nat -> str) : Prop := forall i j, cand i = cand j -> i = j.

Lemma pick_fresh_is_cand : forall fuel cand i seen, exists j, pick_fresh fuel cand i seen = cand j /\ (i <= j)%nat.
Proof.
  induction fuel as [|f IH]; intros cand i seen; simpl.
  - exists i. split; [reflexivity | lia].
  - destruct (mem_str (cand i) seen).
    + destruct (IH cand (S i) seen) as [j [E Hj]]. exists j. split; [exact E | lia].
    + exists i. split; [reflexivity | lia].
Qed.

(* if the loop runs out of fuel, fuel+1 consecutive candidates are all in [seen] *)
Lemma pick_fresh_exhausted : forall fuel cand i seen,
  In (pick_fresh fuel cand i seen) seen -> forall k, (k <= fuel)%nat -> In (cand (i + k)%nat) seen.
Proof.
  induction fuel as [|f IH]; intros cand i seen H k Hk; simpl in H.
  - assert (k = 0)%nat by lia. subst. rewrite Nat.add_0_r. exact H.
  - destruct (mem_str (cand i) seen) eqn:E.
    + destruct k as [|k]; [rewrite Nat.add_0_r; apply mem_str_In; exact E|].
      replace (i + S k)%nat with (S i + k)%nat by lia. apply IH; [exact H | lia].
    + apply mem_str_In in H. congruence.
Qed.

(* pigeon-hole: |seen|+1 steps always find a fresh candidate, so the bounded loop IS Python's unbounded one *)
Lemma pick_fresh_not_in : forall cand seen, injective cand ->
  ~ In (pick_fresh (S (length seen)) cand 0 seen) seen.
Proof.
  intros cand seen Hinj H.
  pose proof (pick_fresh_exhausted _ _ _ _ H) as Hall.
  set (cs := map cand (seq 0 (S (length seen)))).
  assert (Hnd : NoDup cs).
  { subst cs. apply FinFun.Injective_map_NoDup; [exact Hinj | apply seq_NoDup]. }
  assert (Hincl : incl cs seen).
  { intros x Hx. subst cs. apply in_map_iff in Hx. destruct Hx as [k [<- Hk]].
    apply in_seq in Hk. apply (Hall k). lia. }
  pose proof (NoDup_incl_length Hnd Hincl) as Hlen.
  subst cs. rewrite map_length, seq_length in Hlen. lia.
Qed.

(* ================================================================= assign: results are pairwise distinct *)
Lemma assign_length : forall cand bases seen, length (assign cand seen bases) = length bases.
Proof. induction bases as [|b r IH]; intro seen; simpl; [reflexivity | rewrite IH; reflexivity]. Qed.

Lemma assign_fresh : forall cand bases seen, (forall b, injective (cand b)) ->
  NoDup (assign cand seen bases) /\ forall x, In x (assign cand seen bases) -> ~ In x seen.
Proof.
  induction bases as [|b r IH]; intros seen Hinj; simpl.
  - split; [constructor | intros x []].
  - set (x := pick_fresh (S (length seen)) (cand b) 0 seen).
    destruct (IH (x :: seen) Hinj) as [Hnd Hfresh].
    assert (Hx : ~ In x seen) by (apply pick_fresh_not_in, Hinj).
    split.
    + constructor; [|exact Hnd]. intro Hin. apply (Hfresh x Hin). left. reflexivity.
    + intros y [<-|Hy]; [exact Hx|]. intro Hs. apply (Hfresh y Hy). right. exact Hs.
Qed.

Theorem assign_nodup : forall cand bases, (forall b, injective (cand b)) -> NoDup (assign cand [] bases).
Proof. intros cand bases H. apply (assign_fresh cand bases [] H). Qed.

(* every result is a candidate of its own base, in order *)
Lemma assign_shape : forall cand bases seen,
  Forall2 (fun b x => exists i, x = cand b i) bases (assign cand seen bases).
Proof.
  induction bases as [|b r IH]; intro seen; simpl; [constructor|].
  constructor; [|apply IH].
  destruct (pick_fresh_is_cand (S (length seen)) (cand b) 0 seen) as [j [E _]]. exists j. exact E.
Qed.

(* a base that has not been handed out yet is kept unchanged (first come, first served) *)
Lemma assign_head_kept : forall cand b r, cand b 0%nat = b -> assign cand [] (b :: r) = b :: assign cand [b] r.
Proof. intros cand b r H. simpl. rewrite H. reflexivity. Qed.

(* ================================================================= the candidate streams are injective *)
Lemma app_inv_us_digits : forall a b d1 d2,
  forallb is_digit d1 = true -> forallb is_digit d2 = true ->
  a ++ 95 :: d1 = b ++ 95 :: d2 -> a = b /\ d1 = d2.
Proof.
  intros a b d1 d2 H1 H2 E.
  assert (R : rev d1 ++ 95 :: rev a = rev d2 ++ 95 :: rev b).
  { apply (f_equal (@rev N)) in E. rewrite !rev_app_distr in E. simpl in E. rewrite <- !app_assoc in E. exact E. }
  assert (G : forall x y p q, forallb is_digit x = true -> forallb is_digit y = true ->
              x ++ 95 :: p = y ++ 95 :: q -> x = y /\ p = q).
  { induction x as [|c x IHx]; intros [|e y] p q Hx Hy Ex; simpl in *.
    - inversion Ex. split; reflexivity.
    - inversion Ex; subst. apply andb_true_iff in Hy. destruct Hy as [Hy _]. discriminate Hy.
    - inversion Ex; subst. apply andb_true_iff in Hx. destruct Hx as [Hx _]. discriminate Hx.
    - inversion Ex; subst. apply andb_true_iff in Hx, Hy.
      destruct (IHx y p q (proj2 Hx) (proj2 Hy) H3) as [-> ->]. split; reflexivity. }
  destruct (G (rev d1) (rev d2) (rev a) (rev b)) as [Ed Ea]; try exact R.
  - rewrite forallb_forall in *. intros x Hx. apply H1, in_rev, Hx.
  - rewrite forallb_forall in *. intros x Hx. apply H2, in_rev, Hx.
  - split; [apply (f_equal (@rev N)) in Ea | apply (f_equal (@rev N)) in Ed]; rewrite !rev_involutive in *; assumption.
Qed.

Lemma cand_us2_inj : forall b, injective (cand_us2 b).
Proof.
  intros b [|i] [|j] H; simpl in H; try reflexivity.
  - apply (f_equal (@length N)) in H. rewrite app_length in H. simpl in H. lia.
  - apply (f_equal (@length N)) in H. rewrite app_length in H. simpl in H. lia.
  - apply app_inv_head in H. inversion H as [H']. apply dec_inj in H'. lia.
Qed.

Lemma cand_us1_inj : forall b, injective (cand_us1 b).
Proof.
  intros b [|i] [|j] H; simpl in H; try reflexivity.
  - apply (f_equal (@length N)) in H. rewrite app_length in H. simpl in H. lia.
  - apply (f_equal (@length N)) in H. rewrite app_length in H. simpl in H. lia.
  - apply app_inv_head in H. inversion H as [H']. apply dec_inj in H'. lia.
Qed.

Lemma last_digit_of_app_dec : forall a n, ends_digit (a ++ dec n) = true.
Proof.
  intros a n. unfold ends_digit. rewrite rev_app_distr.
  pose proof (dec_nonempty n) as Hne. pose proof (dec_digits n) as Hd.
  destruct (rev (dec n)) as [|c r] eqn:E.
  - apply (f_equal (@rev N)) in E. rewrite rev_involutive in E. simpl in E. congruence.
  - simpl. rewrite forallb_forall in Hd. apply Hd. apply in_rev. rewrite E. left. reflexivity.
Qed.

Lemma class_stem_spec : forall b, (b = class_stem b ++ [95]) \/ (class_stem b = b /\ ends_us b = false).
Proof.
  intro b. unfold class_stem, ends_us. destruct (rev b) as [|c r] eqn:E.
  - right. split; reflexivity.
  - destruct (c =? 95) eqn:Ec.
    + left. apply N.eqb_eq in Ec. subst c.
      apply (f_equal (@rev N)) in E. rewrite rev_involutive in E. simpl in E. exact E.
    + right. split; [reflexivity|]. apply N.eqb_neq in Ec.
      destruct c as [|p]; [reflexivity|].
      do 7 (destruct p as [p|p|]; try reflexivity). exfalso. apply Ec. reflexivity.
Qed.

Lemma ends_us_ends_digit_excl : forall s, ends_us s = true -> ends_digit s = true -> False.
Proof.
  intros s. unfold ends_us, ends_digit. destruct (rev s) as [|c r]; [discriminate|].
  intros H1 H2. assert (c = 95) by (destruct (N.eq_dec c 95) as [->|Hc]; [reflexivity|];
    destruct c as [|p]; [discriminate|]; do 7 (destruct p as [p|p|]; try discriminate); reflexivity).
  subst c. discriminate H2.
Qed.

Lemma app_dec_longer : forall b n, b = b ++ dec n -> False.
Proof.
  intros b n H. apply (f_equal (@length N)) in H. rewrite app_length in H.
  pose proof (dec_nonempty n) as Hd. destruct (dec n); [congruence|]. simpl in H. lia.
Qed.

Lemma cand_class_inj : forall b, injective (cand_class b).
Proof.
  intros b [|i] [|j] H; cbn [cand_class] in H; try reflexivity.
  - exfalso. destruct (class_stem_spec b) as [Hb|[Hb Hne]].
    + apply (ends_us_ends_digit_excl b).
      * rewrite Hb. apply ends_us_snoc.
      * rewrite H. apply last_digit_of_app_dec.
    + rewrite Hb in H. exact (app_dec_longer _ _ H).
  - exfalso. destruct (class_stem_spec b) as [Hb|[Hb Hne]].
    + apply (ends_us_ends_digit_excl b).
      * rewrite Hb. apply ends_us_snoc.
      * rewrite <- H. apply last_digit_of_app_dec.
    + rewrite Hb in H. symmetry in H. exact (app_dec_longer _ _ H).
  - apply app_inv_head in H. apply dec_inj in H. lia.
Qed.

(* ================================================================= candidates of a valid base are valid *)
Lemma not_kw_ends_digit : forall s, ends_digit s = true -> is_kw s = false.
Proof. intros s H. apply (not_kw_of_table ends_digit); [exact kw_table_no_trailing_digit | exact H]. Qed.

Lemma is_ident_app : forall a b, is_ident a = true -> forallb is_ident_char b = true -> is_ident (a ++ b) = true.
Proof.
  intros [|c a] b Ha Hb; [discriminate|]. simpl in *. apply andb_true_iff in Ha. destruct Ha as [H1 H2].
  rewrite H1. simpl. apply forallb_app_iff. split; assumption.
Qed.

Lemma digits_ident_chars : forall d, forallb is_digit d = true -> forallb is_ident_char d = true.
Proof. intros d H. eapply forallb_imp; [|exact H]. intros x Hx. apply is_alnum_ident_char, digit_alnum, Hx. Qed.

Lemma suffixed_valid : forall b n, is_ident b = true -> valid_name (b ++ [95] ++ dec n) = true.
Proof.
  intros b n Hb. unfold valid_name. rewrite is_ident_app.
  - rewrite not_kw_ends_digit; [reflexivity|].
    replace (b ++ [95] ++ dec n) with ((b ++ [95]) ++ dec n) by (rewrite <- app_assoc; reflexivity).
    apply last_digit_of_app_dec.
  - exact Hb.
  - simpl. apply digits_ident_chars, dec_digits.
Qed.

Lemma cand_us2_valid : forall b i, valid_name b = true -> valid_name (cand_us2 b i) = true.
Proof.
  intros b [|i] H; [exact H|]. apply suffixed_valid. unfold valid_name in H. apply andb_true_iff in H. tauto.
Qed.
Lemma cand_us1_valid : forall b i, valid_name b = true -> valid_name (cand_us1 b i) = true.
Proof.
  intros b [|i] H; [exact H|]. apply suffixed_valid. unfold valid_name in H. apply andb_true_iff in H. tauto.
Qed.


(* ================================================================= list plumbing *)
Lemma map_fst_combine : forall {A B} (l1 : list A) (l2 : list B),
  length l1 = length l2 -> map fst (combine l1 l2) = l1.
Proof.
  induction l1 as [|a l1 IH]; intros [|b l2] H; simpl in *; try reflexivity; try discriminate.
  f_equal. apply IH. lia.
Qed.
Lemma map_snd_combine : forall {A B} (l1 : list A) (l2 : list B),
  length l1 = length l2 -> map snd (combine l1 l2) = l2.
Proof.
  induction l1 as [|a l1 IH]; intros [|b l2] H; simpl in *; try reflexivity; try discriminate.
  f_equal. apply IH. lia.
Qed.

Lemma insert_perm : forall {A} (leb : A -> A -> bool) x l, Permutation (insert leb x l) (x :: l).
Proof.
  induction l as [|y l IH]; simpl; [reflexivity|].
  destruct (leb x y); [reflexivity|]. rewrite IH. apply perm_swap.
Qed.
Lemma isort_perm : forall {A} (leb : A -> A -> bool) l, Permutation (isort leb l) l.
Proof.
  induction l as [|x l IH]; simpl; [reflexivity|]. unfold isort in *. simpl.
  rewrite insert_perm. constructor. exact IH.
Qed.
Lemma isort_length : forall {A} (leb : A -> A -> bool) l, length (isort leb l) = length l.
Proof. intros. apply Permutation_length, isort_perm. Qed.

Lemma Forall2_Forall_r : forall {A B} (R : A -> B -> Prop) (P : A -> Prop) (Q : B -> Prop) l1 l2,
  (forall a b, P a -> R a b -> Q b) -> Forall P l1 -> Forall2 R l1 l2 -> Forall Q l2.
Proof.
  intros A B R P Q l1 l2 H HP HR. induction HR as [|a b l1 l2 Hab _ IH]; [constructor|].
  inversion HP; subst. constructor; [eapply H; eauto | apply IH; assumption].
Qed.

(* ================================================================= dataclass fields *)
(* For EVERY list of properties: the field names are pairwise distinct, none is dropped, and the wire keys are
   exactly the schema's property names (in the generator's sorted order). *)
Theorem dedup_fields_nodup : forall props,
  NoDup (map snd (dedup_fields props))
  /\ length (dedup_fields props) = length props
  /\ Permutation (map fst (dedup_fields props)) (map fst props).
Proof.
  intro props. unfold dedup_fields. cbv zeta.
  set (keys := map fst (isort prop_leb props)).
  assert (Hlen : length keys = length (assign cand_us2 [] (map method_name keys)))
    by (rewrite assign_length, map_length; reflexivity).
  split; [|split].
  - rewrite map_snd_combine by exact Hlen. apply assign_nodup. exact cand_us2_inj.
  - rewrite combine_length, <- Hlen, Nat.min_id. subst keys. rewrite map_length. apply isort_length.
  - rewrite map_fst_combine by exact Hlen. subst keys. apply Permutation_map, isort_perm.
Qed.

(* ... and every field name is a valid identifier (F20b fixed: no guard) *)
Theorem dedup_fields_valid : forall props,
  Forall (fun n => valid_name n = true) (map snd (dedup_fields props)).
Proof.
  intros props. unfold dedup_fields. cbv zeta.
  set (keys := map fst (isort prop_leb props)).
  rewrite map_snd_combine by (rewrite assign_length, map_length; reflexivity).
  eapply (Forall2_Forall_r _ (fun b => valid_name b = true)); [| |apply assign_shape].
  - intros b x Hb [i ->]. apply cand_us2_valid, Hb.
  - apply Forall_forall. intros b Hb. apply in_map_iff in Hb. destruct Hb as [k [<- Hk]].
    apply method_name_valid.
Qed.

(* ================================================================= enum members *)
Lemma all_some_spec : forall {A} (l : list (option A)) xs, all_some l = Some xs -> l = map Some xs.
Proof.
  induction l as [|o l IH]; intros xs H; simpl in H.
  - inversion H. reflexivity.
  - destruct o as [x|]; [|discriminate]. destruct (all_some l) as [ys|]; [|discriminate].
    inversion H; subst. simpl. f_equal. apply IH. reflexivity.
Qed.

Lemma all_some_total : forall {A B} (f : A -> option B) l,
  (forall a, exists b, f a = Some b) -> exists ys, all_some (map f l) = Some ys /\ length ys = length l.
Proof.
  intros A B f l Hf. induction l as [|a l [ys [E Hl]]]; simpl; [exists []; split; reflexivity|].
  destruct (Hf a) as [b Eb]. rewrite Eb, E. exists (b :: ys). split; [reflexivity | simpl; lia].
Qed.

Section EnumDedup.
  Variable u_upper : N -> str.
  (* total (never raises), names pairwise distinct, one per value, all valid — for ALL value lists *)
  Theorem dedup_enum_ok : forall vals,
    exists ns, dedup_enum (enum_member_str u_upper) vals = Some ns
      /\ NoDup ns /\ length ns = length vals /\ Forall (fun n => valid_name n = true) ns.
  Proof.
    intro vals. unfold dedup_enum.
    destruct (all_some_total (enum_member_str u_upper) vals) as [ys [E Hl]].
    { intro v. destruct (enum_member_str_valid u_upper v) as [n [En _]]. eauto. }
    rewrite E. eexists. split; [reflexivity|]. split; [|split].
    - apply assign_nodup, cand_us1_inj.
    - rewrite assign_length. exact Hl.
    - eapply (Forall2_Forall_r _ (fun b => valid_name b = true)); [| |apply assign_shape].
      + intros b x Hb [i ->]. apply cand_us1_valid, Hb.
      + apply Forall_forall. intros b Hb.
        apply all_some_spec in E.
        assert (Hin : In (Some b) (map (enum_member_str u_upper) vals)) by (rewrite E; apply in_map; exact Hb).
        apply in_map_iff in Hin. destruct Hin as [v [Ev _]].
        destruct (enum_member_str_valid u_upper v) as [n [En Hv]]. congruence.
  Qed.
End EnumDedup.

(* ================================================================= class names and module stems *)
Theorem dedup_models_nodup : forall raw,
  let out := dedup_models raw in
  NoDup (map (fun x => fst (snd x)) out) /\ NoDup (map (fun x => snd (snd x)) out)
  /\ length out = length raw /\ Permutation (map fst out) (seq 0 (length raw)).
Proof.
  intro raw. unfold dedup_models. cbv zeta.
  set (names := map ir_name raw).
  set (sorted := isort name_leb (combine names (seq 0 (length names)))).
  set (ns := map fst sorted).
  set (cls := assign cand_class [] (map class_name ns)).
  set (stems := assign cand_us2 [] (map module_name_tok ns)).
  assert (Lc : length cls = length ns) by (subst cls; rewrite assign_length, map_length; reflexivity).
  assert (Ls : length stems = length ns) by (subst stems; rewrite assign_length, map_length; reflexivity).
  assert (Ln : length ns = length raw).
  { subst ns sorted. rewrite map_length, isort_length, combine_length, seq_length, Nat.min_id.
    subst names. apply map_length. }
  assert (Lcs : length (combine cls stems) = length ns) by (rewrite combine_length; lia).
  assert (Lidx : length (map snd sorted) = length ns) by (subst ns; rewrite !map_length; reflexivity).
  split; [|split; [|split]].
  - rewrite <- (map_map snd fst). rewrite map_snd_combine by lia.
    rewrite map_fst_combine by lia. subst cls. apply assign_nodup, cand_class_inj.
  - rewrite <- (map_map snd snd). rewrite map_snd_combine by lia.
    rewrite map_snd_combine by lia. subst stems. apply assign_nodup, cand_us2_inj.
  - rewrite combine_length. lia.
  - rewrite map_fst_combine by lia. subst sorted.
    rewrite (Permutation_map snd (isort_perm name_leb _)).
    rewrite map_snd_combine by (rewrite seq_length; reflexivity).
    subst names. rewrite map_length. reflexivity.
Qed.

(* ================================================================= endpoint parameters *)
Lemma nodupb_NoDup : forall l, nodupb l = true <-> NoDup l.
Proof.
  induction l as [|x l IH]; simpl; [split; [constructor | reflexivity]|].
  rewrite andb_true_iff, negb_true_iff, IH. split.
  - intros [H1 H2]. constructor; [|exact H2]. intro Hin. apply mem_str_In in Hin. congruence.
  - intro H. inversion H; subst. split; [|assumption].
    destruct (mem_str x l) eqn:E; [apply mem_str_In in E; contradiction | reflexivity].
Qed.

Lemma add_missing_nodup : forall vars acc, NoDup acc -> NoDup (add_missing vars acc) /\ incl acc (add_missing vars acc).
Proof.
  induction vars as [|v r IH]; intros acc H; simpl; [split; [exact H | apply incl_refl]|].
  destruct (mem_str (method_name v) acc) eqn:E; [apply IH, H|].
  assert (Hn : NoDup (acc ++ [method_name v])).
  { apply Permutation_NoDup with (l := method_name v :: acc).
    - apply Permutation_cons_append.
    - constructor; [|exact H]. intro Hin. apply mem_str_In in Hin. congruence. }
  destruct (IH _ Hn) as [H1 H2]. split; [exact H1|].
  intros x Hx. apply H2. apply in_or_app. left. exact Hx.
Qed.

(* outside F04c / F04d: the signature has pairwise distinct names and contains every declared parameter and the body *)
Theorem params_partial : forall names body vars,
  guard_F04c names = true -> guard_F04d names body = true ->
  NoDup (params names body vars)
  /\ incl (map method_name names) (params names body vars)
  /\ (forall b, body = Some b -> In b (params names body vars)).
Proof.
  intros names body vars G1 G2. unfold params. cbv zeta.
  apply nodupb_NoDup in G1.
  set (ps := map method_name names) in *.
  assert (H1 : NoDup (match body with Some b => if mem_str b ps then ps else ps ++ [b] | None => ps end)
               /\ incl ps (match body with Some b => if mem_str b ps then ps else ps ++ [b] | None => ps end)
               /\ forall b, body = Some b -> In b (match body with Some b => if mem_str b ps then ps else ps ++ [b] | None => ps end)).
  { destruct body as [b|]; [|split; [exact G1 | split; [apply incl_refl | discriminate]]].
    unfold guard_F04d in G2. fold ps in G2. apply negb_true_iff in G2. rewrite G2.
    split; [|split].
    - apply Permutation_NoDup with (l := b :: ps); [apply Permutation_cons_append|].
      constructor; [|exact G1]. intro Hin. apply mem_str_In in Hin. congruence.
    - apply incl_appl, incl_refl.
    - intros b' E. inversion E; subst. apply in_or_app. right. left. reflexivity. }
  destruct H1 as [Hn [Hi Hb]]. destruct (add_missing_nodup vars _ Hn) as [H2 H3].
  split; [exact H2 | split].
  - intros x Hx. apply H3, Hi, Hx.
  - intros b E. apply H3, Hb, E.
Qed.

Definition w_F04c : list str := [[117;115;101;114;45;105;100]; [117;115;101;114;95;105;100]].  (* user-id, user_id *)
Definition s_body : str := [98;111;100;121].
Lemma refuted_F04c : guard_F04c w_F04c = false /\ nodupb (params w_F04c None []) = false.
Proof. split; vm_compute; reflexivity. Qed.
Lemma refuted_F04d : guard_F04c [s_body] = true /\ guard_F04d [s_body] (Some s_body) = false
  /\ length (params [s_body] (Some s_body) []) = 1%nat.
Proof. repeat split; vm_compute; reflexivity. Qed.

(* ================================================================= validity of de-collided class names / module stems *)
Lemma class_stem_of_class_name : forall n, is_ident (class_stem (class_name n)) = true.
Proof.
  intro n. destruct (class_name_cases n) as [E|E]; rewrite E.
  - destruct (class_stem_spec (class_pre n)) as [H|[H _]].
    + pose proof (class_pre_not_ends_us n) as Hn. rewrite H in Hn at 1. rewrite ends_us_snoc in Hn. discriminate.
    + rewrite H. apply class_pre_ident.
  - unfold class_stem. rewrite rev_app_distr. simpl. rewrite rev_involutive. apply class_pre_ident.
Qed.

Lemma cand_class_valid : forall n i, valid_name (cand_class (class_name n) i) = true.
Proof.
  intros n [|i]; cbn [cand_class]; [apply class_name_valid|].
  unfold valid_name. rewrite is_ident_app.
  - rewrite not_kw_ends_digit; [reflexivity | apply last_digit_of_app_dec].
  - apply class_stem_of_class_name.
  - apply digits_ident_chars, dec_digits.
Qed.

(* F20a fixed: every class name and every module stem handed out is a valid name — no guard *)
Theorem dedup_models_valid : forall raw,
  Forall (fun x => valid_name (fst (snd x)) = true /\ valid_name (snd (snd x)) = true) (dedup_models raw).
Proof.
  intros raw. unfold dedup_models. cbv zeta.
  set (names := map ir_name raw) in *.
  set (sorted := isort name_leb (combine names (seq 0 (length names)))).
  set (ns := map fst sorted).
  set (cls := assign cand_class [] (map class_name ns)).
  set (stems := assign cand_us2 [] (map module_name_tok ns)).
  assert (Hns : forall n, In n ns -> In n names).
  { intros n Hn. subst ns. apply in_map_iff in Hn. destruct Hn as [[n' i] [<- Hp]].
    subst sorted. apply (Permutation_in _ (isort_perm name_leb _)) in Hp. apply in_combine_l in Hp. exact Hp. }
  assert (Hc : Forall (fun c => valid_name c = true) cls).
  { subst cls. rewrite Forall_forall. intros c Hc.
    pose proof (assign_shape cand_class (map class_name ns) []) as Hs.
    assert (Hex : exists b i, In b (map class_name ns) /\ c = cand_class b i).
    { clear -Hs Hc. induction Hs as [|b x bs xs [i Hi] _ IH]; [destruct Hc|].
      destruct Hc as [<-|Hc]; [exists b, i; split; [left; reflexivity | exact Hi]|].
      destruct (IH Hc) as [b' [i' [Hb' Hc']]]. exists b', i'. split; [right; exact Hb' | exact Hc']. }
    destruct Hex as [b [i [Hb ->]]]. apply in_map_iff in Hb. destruct Hb as [n [<- Hn]].
    apply cand_class_valid. }
  assert (Hm : Forall (fun c => valid_name c = true) stems).
  { subst stems.
    eapply (Forall2_Forall_r _ (fun b => valid_name b = true)); [| |apply assign_shape].
    - intros b x Hb [i ->]. apply cand_us2_valid, Hb.
    - apply Forall_forall. intros b Hb. apply in_map_iff in Hb. destruct Hb as [n [<- Hn]].
      apply Hns in Hn. subst names. apply in_map_iff in Hn. destruct Hn as [x [<- _]].
      unfold module_name_tok. apply module_of_tokens_valid, tokens_good. }
  assert (Lc : length cls = length ns) by (subst cls; rewrite assign_length, map_length; reflexivity).
  assert (Ls : length stems = length ns) by (subst stems; rewrite assign_length, map_length; reflexivity).
  rewrite Forall_forall. intros [i [c m]] Hin. simpl.
  apply in_combine_r in Hin. pose proof (in_combine_l _ _ _ _ Hin) as H1. pose proof (in_combine_r _ _ _ _ Hin) as H2.
  rewrite Forall_forall in Hc, Hm. split; [apply Hc, H1 | apply Hm, H2].
Qed.

(* ================================================================= operation ids: distinct method names outside F07a *)
Lemma span_digits_app : forall d c r, forallb is_digit d = true -> is_digit c = false ->
  span is_digit (d ++ c :: r) = (d, c :: r).
Proof.
  induction d as [|x d IH]; intros c r Hd Hc; simpl.
  - rewrite Hc. reflexivity.
  - simpl in Hd. apply andb_true_iff in Hd. destruct Hd as [Hx Hd]. rewrite Hx, IH by assumption. reflexivity.
Qed.

Lemma ends_us_digits_app : forall p d, forallb is_digit d = true -> d <> [] -> ends_us_digits (p ++ 95 :: d) = true.
Proof.
  intros p d Hd Hne. unfold ends_us_digits. rewrite rev_app_distr. simpl rev. rewrite <- app_assoc. simpl app.
  rewrite span_digits_app; [| |reflexivity].
  - destruct (rev d) eqn:E; [|reflexivity].
    apply (f_equal (@rev N)) in E. rewrite rev_involutive in E. simpl in E. congruence.
  - rewrite forallb_forall in *. intros x Hx. apply Hd, in_rev, Hx.
Qed.

Lemma tables_no_us_digits :
  forallb (fun k => negb (ends_us_digits k)) keywords = true /\ forallb (fun k => negb (ends_us_digits k)) reserved_names = true.
Proof. split; vm_compute; reflexivity. Qed.

Lemma not_kw_res_us_digits : forall s, ends_us_digits s = true -> is_kw s || is_reserved s = false.
Proof.
  intros s H. apply orb_false_iff. split.
  - apply (not_kw_of_table ends_us_digits); [apply tables_no_us_digits | exact H].
  - destruct (is_reserved s) eqn:E; [|reflexivity]. apply mem_str_In in E.
    destruct tables_no_us_digits as [_ Ht]. rewrite forallb_forall in Ht. specialize (Ht s E). rewrite H in Ht. discriminate.
Qed.

(* the method name of a renamed id: digit-prefixed core of the old id, "_", the counter *)
Lemma method_name_app : forall id d, forallb is_digit d = true -> d <> [] ->
  method_name (id ++ 95 :: d) = digit_pre (method_core id) ++ 95 :: d.
Proof.
  intros id d Hd Hne. unfold method_name.
  assert (Hb : or_unnamed (method_core (id ++ 95 :: d)) = method_core (id ++ 95 :: d)).
  { rewrite method_core_app by assumption. destruct (method_core id) as [|c m].
    - destruct (has_core id); [reflexivity|]. destruct d; [congruence | reflexivity].
    - reflexivity. }
  rewrite Hb. unfold finish_snake. rewrite method_core_app by assumption.
  assert (Hm1 : (if starts_digit (method_core id ++ (if has_core id then 95 :: d else d))
                 then 95 :: method_core id ++ (if has_core id then 95 :: d else d)
                 else method_core id ++ (if has_core id then 95 :: d else d))
                = digit_pre (method_core id) ++ 95 :: d).
  { destruct (has_core id) eqn:Eh.
    - pose proof (method_core_has_core id Eh) as Hc. unfold digit_pre.
      destruct (method_core id) as [|c m]; [congruence|]. simpl. destruct (is_digit c); reflexivity.
    - rewrite (method_core_no_core id Eh). simpl app. unfold digit_pre. simpl.
      destruct d as [|c d]; [congruence|]. simpl in Hd. apply andb_true_iff in Hd. destruct Hd as [Hc _].
      simpl. rewrite Hc. reflexivity. }
  rewrite Hm1. rewrite not_kw_res_us_digits by (apply ends_us_digits_app; assumption). reflexivity.
Qed.

(* ---- the suffixed candidates of one id have pairwise distinct method names ---- *)
Lemma op_cand_inj : forall id, injective (fun j => method_name (op_suffixed id j)).
Proof.
  intros id i j H. unfold op_suffixed in H. cbn [app] in H.
  rewrite !method_name_app in H by (apply dec_digits || apply dec_nonempty).
  apply app_inv_head in H. inversion H as [H']. apply dec_inj in H'. lia.
Qed.

Lemma pick_idx_fresh : forall fuel cand i seen, pick_fresh fuel cand i seen = cand (pick_idx fuel cand i seen).
Proof.
  induction fuel as [|f IH]; intros cand i seen; simpl; [reflexivity|].
  destruct (mem_str (cand i) seen); [apply IH | reflexivity].
Qed.

Lemma mem_str_false : forall x l, mem_str x l = false -> ~ In x l.
Proof. intros x l H Hin. apply mem_str_In in Hin. congruence. Qed.

Lemma dedup_ops_go_length : forall ids used, length (dedup_ops_go used ids) = length ids.
Proof.
  induction ids as [|id r IH]; intro used; simpl; [reflexivity|].
  destruct (mem_str (method_name id) used); simpl; rewrite IH; reflexivity.
Qed.

(* none dropped, order kept, every new id extends the old one *)
Theorem dedup_ops_prefix : forall ids,
  Forall2 (fun old new => prefixb old new = true) ids (dedup_ops ids).
Proof.
  intro ids. unfold dedup_ops. generalize (@nil str).
  assert (P : forall a b, prefixb a (a ++ b) = true).
  { induction a as [|x a IH]; intro b; simpl; [reflexivity|]. rewrite N.eqb_refl. apply IH. }
  induction ids as [|id r IH]; intro used; simpl; [constructor|].
  destruct (mem_str (method_name id) used); constructor; try apply IH.
  - apply P.
  - rewrite <- (app_nil_r id) at 2. apply P.
Qed.

(* invariant: the method names produced are pairwise distinct and none of them was used before *)
Lemma dedup_ops_go_inv : forall ids used,
  NoDup (map method_name (dedup_ops_go used ids))
  /\ forall n, In n (map method_name (dedup_ops_go used ids)) -> ~ In n used.
Proof.
  induction ids as [|id r IH]; intro used; [split; [constructor | intros n []]|].
  cbn [dedup_ops_go]. destruct (mem_str (method_name id) used) eqn:E.
  - set (cand := fun j => method_name (op_suffixed id j)).
    set (k := pick_idx (S (length used)) cand 0 used).
    assert (Hfresh : ~ In (cand k) used).
    { subst k. rewrite <- pick_idx_fresh. apply pick_fresh_not_in. apply op_cand_inj. }
    destruct (IH (cand k :: used)) as [Hnd Hout]. cbn [map]. fold (cand k). split.
    + constructor; [|exact Hnd]. intro Hin. apply (Hout _ Hin). left. reflexivity.
    + intros n [<-|Hn]; [exact Hfresh|]. intro Hu. apply (Hout n Hn). right. exact Hu.
  - apply mem_str_false in E. destruct (IH (method_name id :: used)) as [Hnd Hout]. cbn [map]. split.
    + constructor; [|exact Hnd]. intro Hin. apply (Hout _ Hin). left. reflexivity.
    + intros n [<-|Hn]; [exact E|]. intro Hu. apply (Hout n Hn). right. exact Hu.
Qed.

(* F07a fixed: FULL — for ANY list of operation ids the method names of the client are pairwise distinct *)
Theorem dedup_ops_nodup : forall ids, NoDup (map method_name (dedup_ops ids)).
Proof. intro ids. apply (dedup_ops_go_inv ids []). Qed.

(* when the derived method names are already distinct (and unused) the loop changes nothing *)
Lemma dedup_ops_go_id : forall ids used,
  NoDup (map method_name ids) -> (forall id, In id ids -> ~ In (method_name id) used) ->
  dedup_ops_go used ids = ids.
Proof.
  induction ids as [|id r IH]; intros used Hnd Hfresh; [reflexivity|]. cbn [dedup_ops_go].
  assert (E : mem_str (method_name id) used = false).
  { destruct (mem_str (method_name id) used) eqn:E; [|reflexivity]. apply mem_str_In in E.
    exfalso. exact (Hfresh id (or_introl eq_refl) E). }
  rewrite E. inversion Hnd as [|? ? Hnotin Hnd']; subst. f_equal. apply IH; [exact Hnd'|].
  intros id' Hin [H|H].
  - apply Hnotin. rewrite H. apply in_map. exact Hin.
  - exact (Hfresh id' (or_intror Hin) H).
Qed.

(* ... hence idempotent: the second pass that `emit` runs under --force renames nothing *)
Theorem dedup_ops_idempotent : forall ids, dedup_ops (dedup_ops ids) = dedup_ops ids.
Proof. intro ids. apply dedup_ops_go_id; [apply dedup_ops_nodup | intros id _ []]. Qed.

Definition w_F07a : list str := [[102;111;111]; [102;111;111]; [102;111;111;95;50]].   (* foo, foo, foo_2 *)
Lemma fixed_F07a :
  dedup_ops w_F07a = [[102;111;111]; [102;111;111;95;50]; [102;111;111;95;50;95;50]]       (* foo, foo_2, foo_2_2 *)
  /\ nodupb (map method_name (dedup_ops w_F07a)) = true
  /\ dedup_ops (dedup_ops w_F07a) = dedup_ops w_F07a.
Proof. repeat split; vm_compute; reflexivity. Qed.

(* ================================================================= component schemas in the loader *)
Lemma build_keys_go_spec : forall raw keys i,
  (forall n, In n raw -> ir_name (class_name n) = class_name n) ->
  NoDup (map class_name raw) ->
  (forall a b, In a raw -> In b raw -> b = class_name a -> class_name b = class_name a) ->
  (forall n, In n raw -> ~ In n (map fst keys) /\ ~ In (class_name n) (map fst keys)) ->
  build_keys_go keys i raw = keys ++ combine (map class_name raw) (seq i (length raw)).
Proof.
  induction raw as [|n r IH]; intros keys i Hid Hnd Hx Hfresh; [simpl; rewrite app_nil_r; reflexivity|].
  cbn [build_keys_go]. destruct (Hfresh n (or_introl eq_refl)) as [H1 H2].
  assert (E1 : mem_str n (map fst keys) = false) by (destruct (mem_str n (map fst keys)) eqn:E; [apply mem_str_In in E; contradiction | reflexivity]).
  assert (E2 : mem_str (class_name n) (map fst keys) = false)
    by (destruct (mem_str (class_name n) (map fst keys)) eqn:E; [apply mem_str_In in E; contradiction | reflexivity]).
  rewrite E1, E2. cbn [orb]. rewrite (Hid n (or_introl eq_refl)), E2.
  inversion Hnd as [|? ? Hnotin Hnd']; subst.
  rewrite IH.
  - rewrite <- app_assoc. reflexivity.
  - intros n' Hn'. apply Hid. right. exact Hn'.
  - exact Hnd'.
  - intros a b Ha Hb. apply Hx; right; assumption.
  - intros n' Hn'. rewrite map_app. simpl map. destruct (Hfresh n' (or_intror Hn')) as [F1 F2].
    split; intro Hin; apply in_app_or in Hin; destruct Hin as [Hin|[Hin|[]]]; try contradiction.
    + apply Hnotin. rewrite <- (Hx n n' (or_introl eq_refl) (or_intror Hn') (eq_sym Hin)). apply in_map. exact Hn'.
    + apply Hnotin. rewrite Hin. apply in_map. exact Hn'.
Qed.

(* F20k / F20m excluded: every component schema is registered exactly once, under its class name, holding its own content *)
Theorem build_keys_partial : forall raw, guard_F20k raw = true -> guard_F20m raw = true ->
  build_keys raw = Some (combine (map class_name raw) (seq 0 (length raw))).
Proof.
  intros raw Gk Gm. unfold build_keys. cbv zeta.
  assert (Hid : forall n, In n raw -> ir_name (class_name n) = class_name n).
  { intros n Hn. unfold guard_F20k in Gk. rewrite forallb_forall in Gk. apply str_eqb_eq, Gk, Hn. }
  unfold guard_F20m in Gm. apply andb_true_iff in Gm. destruct Gm as [Gm Gs].
  apply nodupb_NoDup in Gm.
  assert (Hx : forall a b, In a raw -> In b raw -> b = class_name a -> class_name b = class_name a).
  { intros a b Ha Hb E. rewrite forallb_forall in Gs. specialize (Gs b Hb). apply orb_true_iff in Gs.
    destruct Gs as [Gs|Gs].
    - apply negb_true_iff in Gs. exfalso. apply (mem_str_false _ _ Gs). rewrite E. apply in_map. exact Ha.
    - apply str_eqb_eq in Gs. rewrite <- Gs. exact E. }
  assert (Hk : map fst (combine (map class_name raw) (seq 0 (length raw))) = map class_name raw)
    by (apply map_fst_combine; rewrite map_length, seq_length; reflexivity).
  assert (Hp : build_keys_go [] 0 raw = combine (map class_name raw) (seq 0 (length raw))).
  { rewrite (build_keys_go_spec raw [] 0 Hid Gm Hx) by (intros n _; split; intros []). reflexivity. }
  rewrite Hp, Hk.
  replace (forallb _ raw) with true; [reflexivity|]. symmetry. apply forallb_forall. intros n Hn.
  apply orb_true_iff. right. apply mem_str_In. apply in_map. exact Hn.
Qed.

Definition w_a_b : str := [97;95;98].                                   (* a_b *)
Definition w_n_o_n_e : str := [110;95;111;95;110;95;101].               (* n_o_n_e *)
Definition w_foo_bar : str := [102;111;111;95;98;97;114].               (* foo_bar *)
Definition w_FooBar : str := [70;111;111;66;97;114].                    (* FooBar *)
Definition w_Pet : str := [80;101;116].
(* F20k: before the fix of IRSchema.__post_init__ the witness is a_b (AB -> Ab); with it the stored name of an
   already sanitised name only differs when the second sanitisation does more than re-casing, which is left for
   names that spell none/true/false in one-letter words (n_o_n_e -> NONE -> None_).  Which of the two holds is
   decided by the flag the translator reads from ir.py. *)
Lemma refuted_F20k :
  (guard_F20k [w_a_b] = false /\ guard_F20m [w_a_b] = true /\ build_keys [w_a_b] = None)
  \/ (post_init_keeps_output = true /\ build_keys [w_a_b] = Some [([65;66], 0%nat)]
      /\ guard_F20k [w_n_o_n_e] = false /\ guard_F20m [w_n_o_n_e] = true /\ build_keys [w_n_o_n_e] = None).
Proof.
  first [ left; repeat split; vm_compute; reflexivity | right; repeat split; vm_compute; reflexivity ].
Qed.
Lemma refuted_F20m : guard_F20k [w_foo_bar; w_FooBar] = true /\ guard_F20m [w_foo_bar; w_FooBar] = false
  /\ build_keys [w_foo_bar; w_FooBar] = Some [(w_FooBar, 0%nat)].
Proof. repeat split; vm_compute; reflexivity. Qed.
(* a document with a second schema: before the __post_init__ fix it fails like a_b alone (ae5b020: absent names are
   never re-parsed), with the fix a_b is registered once under AB *)
Lemma F20k_second_schema :
  build_keys [w_a_b; w_Pet] = None
  \/ build_keys [w_a_b; w_Pet] = Some [([65;66], 0%nat); (w_Pet, 1%nat)].
Proof. first [ left; vm_compute; reflexivity | right; vm_compute; reflexivity ]. Qed.
Lemma schemas_guard_nonvacuous : guard_F20k [w_foo_bar; w_none; w_1st] = true /\ guard_F20m [w_foo_bar; w_none; w_1st] = true.
Proof. split; vm_compute; reflexivity. Qed.

(* ================================================================= whole pipeline for referenced component schemas *)
Lemma refs_go_extends : forall refs keys i, exists ext, refs_go keys i refs = keys ++ ext.
Proof.
  induction refs as [|r rest IH]; intros keys i; [exists []; simpl; rewrite app_nil_r; reflexivity|].
  cbn [refs_go]. destruct (mem_str r (map fst keys)).
  - apply IH.
  - destruct (IH (keys ++ [(if mem_str (ir_name (class_name r)) (map fst keys) then r else ir_name (class_name r), i)]) (S i))
      as [ext E]. rewrite E. rewrite <- app_assoc. eexists. reflexivity.
Qed.

(* whenever generation succeeds the model classes and the module stems written are pairwise distinct *)
Theorem pipeline_models_nodup : forall raw out, pipeline_models raw = Some out ->
  NoDup (map (fun x => snd (fst x)) out) /\ NoDup (map (fun x => fst (fst x)) out).
Proof.
  intros raw out H. unfold pipeline_models in H. destruct (build_keys raw) as [keys|]; [|discriminate].
  inversion H; subst out; clear H. rewrite !map_map. cbn [fst snd].
  set (stored := map _ (refs_go keys 0 raw)).
  destruct (dedup_models_nodup stored) as [H1 [H2 _]]. split; assumption.
Qed.

(* F20k / F20m excluded: generation succeeds and every component schema's content is in some generated model *)
Theorem pipeline_models_none_dropped : forall raw, guard_F20k raw = true -> guard_F20m raw = true ->
  exists out, pipeline_models raw = Some out /\ forall i, (i < length raw)%nat -> In i (map snd out).
Proof.
  intros raw Gk Gm. unfold pipeline_models. rewrite (build_keys_partial raw Gk Gm).
  set (keys := combine (map class_name raw) (seq 0 (length raw))).
  destruct (refs_go_extends raw keys 0) as [ext E]. rewrite E.
  set (keys' := keys ++ ext).
  set (stored := map (fun ki => class_name (nth (snd ki) raw [])) keys').
  eexists. split; [reflexivity|]. intros i Hi.
  destruct (dedup_models_nodup stored) as [_ [_ [_ Hperm]]].
  assert (Hlen : length stored = length keys') by (subst stored; apply map_length).
  assert (Hk : length keys = length raw) by (subst keys; rewrite combine_length, map_length, seq_length; apply Nat.min_id).
  assert (Hpos : (i < length keys')%nat) by (subst keys'; rewrite app_length; lia).
  assert (Hin : In i (map fst (dedup_models stored))).
  { apply (Permutation_in _ (Permutation_sym Hperm)). apply in_seq. lia. }
  apply in_map_iff in Hin. destruct Hin as [x [Hx Hxin]].
  rewrite map_map. apply in_map_iff. exists x. split; [|exact Hxin]. cbn [snd]. rewrite Hx.
  subst keys'. rewrite app_nth1 by lia. subst keys.
  rewrite combine_nth by (rewrite map_length, seq_length; reflexivity). cbn [snd].
  rewrite seq_nth by exact Hi. reflexivity.
Qed.
