(* C20 — proofs about the de-duplication loops (Model/Dedup.v). *)
From Coq Require Import Arith Lia ZifyBool DecimalN Permutation.
From PG Require Import Lib.Strs Gen.Tables Gen.T_C20 Model.Names Model.Dedup Proofs.Names.

(* ================================================================= decimal rendering is injective *)
Lemma uint_chars_inj : forall u v, uint_chars u = uint_chars v -> u = v.
Proof.
  induction u as [|u IH|u IH|u IH|u IH|u IH|u IH|u IH|u IH|u IH|u IH];
    destruct v; simpl; intro H; try discriminate; try reflexivity;
    inversion H; f_equal; apply IH; assumption.
Qed.

Lemma dec_inj : forall n m, dec n = dec m -> n = m.
Proof.
  intros n m H. apply uint_chars_inj in H.
  rewrite <- (DecimalN.Unsigned.of_to n), <- (DecimalN.Unsigned.of_to m), H. reflexivity.
Qed.

Lemma uint_chars_digits : forall u, forallb is_digit (uint_chars u) = true.
Proof. induction u; simpl; try reflexivity; exact IHu. Qed.

Lemma dec_digits : forall n, forallb is_digit (dec n) = true.
Proof. intro n. apply uint_chars_digits. Qed.

Lemma dec_nonempty : forall n, dec n <> [].
Proof.
  intro n. unfold dec. destruct n as [|p]; [discriminate|].
  simpl N.to_uint. intro H.
  assert (E : Pos.to_uint p = Decimal.Nil) by (destruct (Pos.to_uint p); simpl in H; try discriminate; reflexivity).
  pose proof (DecimalPos.Unsigned.to_uint_nonnil p). congruence.
Qed.

(* ================================================================= first-fit choice *)
Definition injective (cand : nat -> str) : Prop := forall i j, cand i = cand j -> i = j.

Lemma pick_fresh_is_cand : forall fuel cand i seen, exists j, pick_fresh fuel cand i seen = cand j /\ (i <= j)%nat.
Proof.
  induction fuel as [|f IH]; intros cand i seen; simpl.
  - exists i. split; [reflexivity | lia].
  - destruct (mem_str (cand i) seen).
    + destruct (IH cand (S i) seen) as [j [E Hj]]. exists j. split; [exact E | lia].
    + exists i. split; [reflexivity | lia].
Qed.

(* if the loop runs out of fuel, fuel+1 consecutive candidates are all in [seen] *)
Lemma pick_fresh_exhausted : forall fuel cand i seen,
  In (pick_fresh fuel cand i seen) seen -> forall k, (k <= fuel)%nat -> In (cand (i + k)%nat) seen.
Proof.
  induction fuel as [|f IH]; intros cand i seen H k Hk; simpl in H.
  - assert (k = 0)%nat by lia. subst. rewrite Nat.add_0_r. exact H.
  - destruct (mem_str (cand i) seen) eqn:E.
    + destruct k as [|k]; [rewrite Nat.add_0_r; apply mem_str_In; exact E|].
      replace (i + S k)%nat with (S i + k)%nat by lia. apply IH; [exact H | lia].
    + apply mem_str_In in H. congruence.
Qed.

(* pigeon-hole: |seen|+1 steps always find a fresh candidate, so the bounded loop IS Python's unbounded one *)
Lemma pick_fresh_not_in : forall cand seen, injective cand ->
  ~ In (pick_fresh (S (length seen)) cand 0 seen) seen.
Proof.
  intros cand seen Hinj H.
  pose proof (pick_fresh_exhausted _ _ _ _ H) as Hall.
  set (cs := map cand (seq 0 (S (length seen)))).
  assert (Hnd : NoDup cs).
  { subst cs. apply FinFun.Injective_map_NoDup; [exact Hinj | apply seq_NoDup]. }
  assert (Hincl : incl cs seen).
  { intros x Hx. subst cs. apply in_map_iff in Hx. destruct Hx as [k [<- Hk]].
    apply in_seq in Hk. apply (Hall k). lia. }
  pose proof (NoDup_incl_length Hnd Hincl) as Hlen.
  subst cs. rewrite map_length, seq_length in Hlen. lia.
Qed.

(* ================================================================= assign: results are pairwise distinct *)
Lemma assign_length : forall cand bases seen, length (assign cand seen bases) = length bases.
Proof. induction bases as [|b r IH]; intro seen; simpl; [reflexivity | rewrite IH; reflexivity]. Qed.

Lemma assign_fresh : forall cand bases seen, (forall b, injective (cand b)) ->
  NoDup (assign cand seen bases) /\ forall x, In x (assign cand seen bases) -> ~ In x seen.
Proof.
  induction bases as [|b r IH]; intros seen Hinj; simpl.
  - split; [constructor | intros x []].
  - set (x := pick_fresh (S (length seen)) (cand b) 0 seen).
    destruct (IH (x :: seen) Hinj) as [Hnd Hfresh].
    assert (Hx : ~ In x seen) by (apply pick_fresh_not_in, Hinj).
    split.
    + constructor; [|exact Hnd]. intro Hin. apply (Hfresh x Hin). left. reflexivity.
    + intros y [<-|Hy]; [exact Hx|]. intro Hs. apply (Hfresh y Hy). right. exact Hs.
Qed.

Theorem assign_nodup : forall cand bases, (forall b, injective (cand b)) -> NoDup (assign cand [] bases).
Proof. intros cand bases H. apply (assign_fresh cand bases [] H). Qed.

(* every result is a candidate of its own base, in order *)
Lemma assign_shape : forall cand bases seen,
  Forall2 (fun b x => exists i, x = cand b i) bases (assign cand seen bases).
Proof.
  induction bases as [|b r IH]; intro seen; simpl; [constructor|].
  constructor; [|apply IH].
  destruct (pick_fresh_is_cand (S (length seen)) (cand b) 0 seen) as [j [E _]]. exists j. exact E.
Qed.

(* a base that has not been handed out yet is kept unchanged (first come, first served) *)
Lemma assign_head_kept : forall cand b r, cand b 0%nat = b -> assign cand [] (b :: r) = b :: assign cand [b] r.
Proof. intros cand b r H. simpl. rewrite H. reflexivity. Qed.

(* ================================================================= the candidate streams are injective *)
Lemma app_inv_us_digits : forall a b d1 d2,
  forallb is_digit d1 = true -> forallb is_digit d2 = true ->
  a ++ 95 :: d1 = b ++ 95 :: d2 -> a = b /\ d1 = d2.
Proof.
  intros a b d1 d2 H1 H2 E.
  assert (R : rev d1 ++ 95 :: rev a = rev d2 ++ 95 :: rev b).
  { apply (f_equal (@rev N)) in E. rewrite !rev_app_distr in E. simpl in E. rewrite <- !app_assoc in E. exact E. }
  assert (G : forall x y p q, forallb is_digit x = true -> forallb is_digit y = true ->
              x ++ 95 :: p = y ++ 95 :: q -> x = y /\ p = q).
  { induction x as [|c x IHx]; intros [|e y] p q Hx Hy Ex; simpl in *.
    - inversion Ex. split; reflexivity.
    - inversion Ex; subst. apply andb_true_iff in Hy. destruct Hy as [Hy _]. discriminate Hy.
    - inversion Ex; subst. apply andb_true_iff in Hx. destruct Hx as [Hx _]. discriminate Hx.
    - inversion Ex; subst. apply andb_true_iff in Hx, Hy.
      destruct (IHx y p q (proj2 Hx) (proj2 Hy) H3) as [-> ->]. split; reflexivity. }
  destruct (G (rev d1) (rev d2) (rev a) (rev b)) as [Ed Ea]; try exact R.
  - rewrite forallb_forall in *. intros x Hx. apply H1, in_rev, Hx.
  - rewrite forallb_forall in *. intros x Hx. apply H2, in_rev, Hx.
  - split; [apply (f_equal (@rev N)) in Ea | apply (f_equal (@rev N)) in Ed]; rewrite !rev_involutive in *; assumption.
Qed.

Lemma cand_us2_inj : forall b, injective (cand_us2 b).
Proof.
  intros b [|i] [|j] H; simpl in H; try reflexivity.
  - apply (f_equal (@length N)) in H. rewrite app_length in H. simpl in H. lia.
  - apply (f_equal (@length N)) in H. rewrite app_length in H. simpl in H. lia.
  - apply app_inv_head in H. inversion H as [H']. apply dec_inj in H'. lia.
Qed.

Lemma cand_us1_inj : forall b, injective (cand_us1 b).
Proof.
  intros b [|i] [|j] H; simpl in H; try reflexivity.
  - apply (f_equal (@length N)) in H. rewrite app_length in H. simpl in H. lia.
  - apply (f_equal (@length N)) in H. rewrite app_length in H. simpl in H. lia.
  - apply app_inv_head in H. inversion H as [H']. apply dec_inj in H'. lia.
Qed.

Lemma last_digit_of_app_dec : forall a n, ends_digit (a ++ dec n) = true.
Proof.
  intros a n. unfold ends_digit. rewrite rev_app_distr.
  pose proof (dec_nonempty n) as Hne. pose proof (dec_digits n) as Hd.
  destruct (rev (dec n)) as [|c r] eqn:E.
  - apply (f_equal (@rev N)) in E. rewrite rev_involutive in E. simpl in E. congruence.
  - simpl. rewrite forallb_forall in Hd. apply Hd. apply in_rev. rewrite E. left. reflexivity.
Qed.

Lemma class_stem_spec : forall b, (b = class_stem b ++ [95]) \/ (class_stem b = b /\ ends_us b = false).
Proof.
  intro b. unfold class_stem, ends_us. destruct (rev b) as [|c r] eqn:E.
  - right. split; reflexivity.
  - destruct (c =? 95) eqn:Ec.
    + left. apply N.eqb_eq in Ec. subst c.
      apply (f_equal (@rev N)) in E. rewrite rev_involutive in E. simpl in E. exact E.
    + right. split; [reflexivity|]. apply N.eqb_neq in Ec.
      destruct c as [|p]; [reflexivity|].
      do 7 (destruct p as [p|p|]; try reflexivity). exfalso. apply Ec. reflexivity.
Qed.

Lemma ends_us_ends_digit_excl : forall s, ends_us s = true -> ends_digit s = true -> False.
Proof.
  intros s. unfold ends_us, ends_digit. destruct (rev s) as [|c r]; [discriminate|].
  intros H1 H2. assert (c = 95) by (destruct (N.eq_dec c 95) as [->|Hc]; [reflexivity|];
    destruct c as [|p]; [discriminate|]; do 7 (destruct p as [p|p|]; try discriminate); reflexivity).
  subst c. discriminate H2.
Qed.

Lemma app_dec_longer : forall b n, b = b ++ dec n -> False.
Proof.
  intros b n H. apply (f_equal (@length N)) in H. rewrite app_length in H.
  pose proof (dec_nonempty n) as Hd. destruct (dec n); [congruence|]. simpl in H. lia.
Qed.

Lemma cand_class_inj : forall b, injective (cand_class b).
Proof.
  intros b [|i] [|j] H; cbn [cand_class] in H; try reflexivity.
  - exfalso. destruct (class_stem_spec b) as [Hb|[Hb Hne]].
    + apply (ends_us_ends_digit_excl b).
      * rewrite Hb. apply ends_us_snoc.
      * rewrite H. apply last_digit_of_app_dec.
    + rewrite Hb in H. exact (app_dec_longer _ _ H).
  - exfalso. destruct (class_stem_spec b) as [Hb|[Hb Hne]].
    + apply (ends_us_ends_digit_excl b).
      * rewrite Hb. apply ends_us_snoc.
      * rewrite <- H. apply last_digit_of_app_dec.
    + rewrite Hb in H. symmetry in H. exact (app_dec_longer _ _ H).
  - apply app_inv_head in H. apply dec_inj in H. lia.
Qed.

(* ================================================================= candidates of a valid base are valid *)
Lemma not_kw_ends_digit : forall s, ends_digit s = true -> is_kw s = false.
Proof. intros s H. apply (not_kw_of_table ends_digit); [exact kw_table_no_trailing_digit | exact H]. Qed.

Lemma is_ident_app : forall a b, is_ident a = true -> forallb is_ident_char b = true -> is_ident (a ++ b) = true.
Proof.
  intros [|c a] b Ha Hb; [discriminate|]. simpl in *. apply andb_true_iff in Ha. destruct Ha as [H1 H2].
  rewrite H1. simpl. apply forallb_app_iff. split; assumption.
Qed.

Lemma digits_ident_chars : forall d, forallb is_digit d = true -> forallb is_ident_char d = true.
Proof. intros d H. eapply forallb_imp; [|exact H]. intros x Hx. apply is_alnum_ident_char, digit_alnum, Hx. Qed.

Lemma suffixed_valid : forall b n, is_ident b = true -> valid_name (b ++ [95] ++ dec n) = true.
Proof.
  intros b n Hb. unfold valid_name. rewrite is_ident_app.
  - rewrite not_kw_ends_digit; [reflexivity|].
    replace (b ++ [95] ++ dec n) with ((b ++ [95]) ++ dec n) by (rewrite <- app_assoc; reflexivity).
    apply last_digit_of_app_dec.
  - exact Hb.
  - simpl. apply digits_ident_chars, dec_digits.
Qed.

Lemma cand_us2_valid : forall b i, valid_name b = true -> valid_name (cand_us2 b i) = true.
Proof.
  intros b [|i] H; [exact H|]. apply suffixed_valid. unfold valid_name in H. apply andb_true_iff in H. tauto.
Qed.
Lemma cand_us1_valid : forall b i, valid_name b = true -> valid_name (cand_us1 b i) = true.
Proof.
  intros b [|i] H; [exact H|]. apply suffixed_valid. unfold valid_name in H. apply andb_true_iff in H. tauto.
Qed.

