(* C18 — proofs about Model/Streaming.v *)
From PG Require Import Lib.Strs Model.Streaming.
From Coq Require Import Lia ZifyBool Zify.

(* ====================== A. the splitlines scanner ====================== *)
Lemma is_nl_13 : is_nl 13 = true. Proof. reflexivity. Qed.
Lemma is_nl_10 : is_nl 10 = true. Proof. reflexivity. Qed.

Lemma sl_run_app : forall a b st,
  sl_run st (a ++ b) =
  let '(st1, o1) := sl_run st a in let '(st2, o2) := sl_run st1 b in (st2, o1 ++ o2).
Proof.
  induction a as [|c a IH]; intros b st; cbn [sl_run app].
  - destruct (sl_run st b) as [st2 o2]. reflexivity.
  - destruct (sl_step st c) as [st1 o1]. rewrite IH.
    destruct (sl_run st1 a) as [st1' o1']. destruct (sl_run st1' b) as [st2 o2].
    rewrite app_assoc. reflexivity.
Qed.

(* prefixing the current line with [p] only changes the first line that comes out (or the state, if none does) *)
Definition glue (p : str) (r : slstate * list str) : slstate * list str :=
  match snd r with
  | [] => ((p ++ fst (fst r), snd (fst r)), [])
  | l :: ls => (fst r, (p ++ l) :: ls)
  end.

Lemma sl_step_glue : forall p cur cr c, sl_step (p ++ cur, cr) c = glue p (sl_step (cur, cr) c).
Proof.
  intros p cur cr c. unfold sl_step, glue.
  destruct cr; destruct (c =? 10); destruct (c =? 13); destruct (is_nl c); cbn; rewrite ?app_assoc; reflexivity.
Qed.

Lemma sl_run_glue : forall s p cur cr, sl_run (p ++ cur, cr) s = glue p (sl_run (cur, cr) s).
Proof.
  induction s as [|c s IH]; intros p cur cr; cbn [sl_run].
  - reflexivity.
  - rewrite sl_step_glue. unfold str, slstate in *. destruct (sl_step (cur, cr) c) as [[cur1 cr1] o1] eqn:E1.
    unfold glue at 1; cbn [fst snd]. destruct o1 as [|l ls].
    + rewrite IH. cbn [app]. unfold str, slstate in *. destruct (sl_run (cur1, cr1) s) as [[cur2 cr2] o2].
      unfold glue; cbn [fst snd app]. destruct o2; reflexivity.
    + destruct (sl_run (cur1, cr1) s) as [[cur2 cr2] o2]. reflexivity.
Qed.

Lemma sl_run_snoc : forall s c st,
  sl_run st (s ++ [c]) =
  let '(st1, o1) := sl_run st s in let '(st2, o2) := sl_step st1 c in (st2, o1 ++ o2).
Proof.
  intros s c st. rewrite sl_run_app. destruct (sl_run st s) as [st1 o1]. cbn [sl_run].
  destruct (sl_step st1 c) as [st2 o2]. rewrite app_nil_r. reflexivity.
Qed.

(* the state after a non-empty string, by its last character *)
Lemma sl_run_last : forall s c,
  let '(st, o) := sl_run ([], false) (s ++ [c]) in
  (c = 13 -> exists y, st = (y, true)) /\
  (c <> 13 -> is_nl c = true -> st = ([], false) /\ o <> []) /\
  (is_nl c = false -> exists y, y <> [] /\ st = (y, false)).
Proof.
  intros s c. rewrite sl_run_snoc. destruct (sl_run ([], false) s) as [[x cr1] o1].
  unfold sl_step. destruct (c =? 13) eqn:E13.
  - apply N.eqb_eq in E13. subst c. change (13 =? 10) with false. rewrite is_nl_13.
    destruct cr1; (split; [intros _; eexists; reflexivity | split; [congruence | discriminate]]).
  - apply N.eqb_neq in E13. destruct (is_nl c) eqn:Enl.
    + destruct cr1; destruct (c =? 10);
        (split; [congruence | split; [intros _ _; split; [reflexivity | destruct o1; discriminate] | discriminate]]).
    + assert (E10 : (c =? 10) = false).
      { destruct (c =? 10) eqn:E; [apply N.eqb_eq in E; subst c; rewrite is_nl_10 in Enl; discriminate | reflexivity]. }
      rewrite E10.
      destruct cr1; (split; [congruence | split; [discriminate | intros _; eexists; split; [|reflexivity]]]).
      * discriminate.
      * destruct x; discriminate.
Qed.

Lemma sl_run_glue0 : forall s p cr, sl_run (p, cr) s = glue p (sl_run ([], cr) s).
Proof. intros s p cr. rewrite <- (app_nil_r p) at 1. apply sl_run_glue. Qed.

(* ====================== B. LineDecoder simulates the scanner ====================== *)
Definition nonempty_all (buf : list str) : Prop := Forall (fun b => b <> []) buf.
Definition ld_abs (st : ldstate) : slstate := (concat (fst st), snd st).

Lemma match_cons : forall {A B} (l : list A) (x y : B),
  l <> [] -> match l with [] => x | _ :: _ => y end = y.
Proof. intros A B l x y H. destruct l; [contradiction | reflexivity]. Qed.

Lemma strip_cr_spec : forall text1 : str,
  let tcr2 := nonemptyb text1 && (last text1 0 =? 13) in
  let text2 := if tcr2 then removelast text1 else text1 in
  text1 = text2 ++ (if tcr2 then [13] else []) /\
  (tcr2 = false -> forall s c, text2 = s ++ [c] -> c <> 13).
Proof.
  intros text1. destruct text1 as [|c init _] using rev_ind.
  - cbn. split; [reflexivity|]. intros _ s c H. destruct s; discriminate.
  - cbv zeta. rewrite last_last.
    assert (Hn : nonemptyb (init ++ [c]) = true) by (destruct init; reflexivity).
    rewrite Hn. cbn [andb]. destruct (c =? 13) eqn:E.
    + apply N.eqb_eq in E; subst. rewrite removelast_last. split; [reflexivity | discriminate].
    + split; [rewrite app_nil_r; reflexivity|].
      intros _ s c' Hs. apply app_inj_tail in Hs. destruct Hs; subst. apply N.eqb_neq; assumption.
Qed.

Lemma ld_decode_sim : forall buf tcr text st' out,
  nonempty_all buf ->
  ld_decode (buf, tcr) text = (st', out) ->
  sl_run (concat buf, tcr) text = (ld_abs st', out) /\ nonempty_all (fst st').
Proof.
  intros buf tcr text st' out Hinv H.
  unfold ld_decode in H. cbv zeta in H.
  assert (H1 : sl_run (concat buf, tcr) text = sl_run (concat buf, false) (if tcr then 13 :: text else text)).
  { destruct tcr; [|reflexivity]. cbn [sl_run].
    change (sl_step (concat buf, false) 13) with ((concat buf, true), @nil str).
    unfold str, slstate in *. destruct (sl_run (concat buf, true) text). reflexivity. }
  rewrite H1. clear H1.
  destruct (strip_cr_spec (if tcr then 13 :: text else text)) as [Ht1 Hlast]. cbv zeta in Ht1, Hlast.
  unfold str, slstate, ldstate in *.
  remember (if tcr then 13 :: text else text) as text1 eqn:Etext1. clear Etext1.
  remember (nonemptyb text1 && (last text1 0 =? 13)) as tcr2 eqn:Etcr2. clear Etcr2.
  remember (if tcr2 then removelast text1 else text1) as text2 eqn:Etext2. clear Etext2.
  subst text1.
  destruct text2 as [|c init _] using rev_ind.
  - inversion H; subst st' out. cbn [app fst]. destruct tcr2; (split; [reflexivity | exact Hinv]).
  - rewrite match_cons in H by (destruct init; discriminate).
    rewrite last_last in H. unfold splitlines in H.
    rewrite sl_run_app, sl_run_glue0.
    pose proof (sl_run_last init c) as HL.
    unfold str, slstate, ldstate in *.
    destruct (sl_run ([], false) (init ++ [c])) as [[y cr2] o2].
    destruct HL as [HL13 [HLnl HLno]].
    assert (Hstep13 : forall cur, sl_run (cur, false) (if tcr2 then [13] else []) = ((cur, tcr2), @nil (list N))).
    { intros cur. destruct tcr2; reflexivity. }
    assert (Hglue : match buf with
                    | [] => o2 ++ sl_fin (y, cr2)
                    | _ :: _ => (concat buf ++ hd [] (o2 ++ sl_fin (y, cr2))) :: tl (o2 ++ sl_fin (y, cr2))
                    end = match o2 ++ sl_fin (y, cr2) with
                          | [] => []
                          | l :: ls => (concat buf ++ l) :: ls
                          end \/ o2 ++ sl_fin (y, cr2) = []).
    { destruct buf; [|destruct (o2 ++ sl_fin (y, cr2)); [right; reflexivity | left; reflexivity]].
      left. destruct (o2 ++ sl_fin (y, cr2)); reflexivity. }
    unfold str, slstate, ldstate in *.
    destruct (N.eq_dec c 13) as [E13|E13].
    + (* the text ended with "\r\r": the first of them is still in text2 *)
      destruct (HL13 E13) as [y0 Ey]. inversion Ey; subst y0 cr2 c. clear HL13 HLnl HLno Ey.
      rewrite is_nl_13 in H. cbn [negb andb sl_fin] in H. rewrite andb_false_r in H.
      destruct tcr2; [|exfalso; eapply Hlast; [reflexivity | reflexivity | reflexivity]].
      destruct Hglue as [Hglue|Hnil]; [|destruct o2; discriminate].
      cbn [sl_fin] in Hglue. rewrite Hglue in H. clear Hglue.
      inversion H; subst st' out. unfold ld_abs, glue; cbn [fst snd concat].
      destruct o2 as [|l ls]; cbn [app fst snd]; (split; [reflexivity | constructor]).
    + destruct (is_nl c) eqn:Enl.
      * destruct (HLnl E13 eq_refl) as [Ey Ho2]. inversion Ey; subst y cr2. clear HL13 HLnl HLno Ey.
        cbn [negb andb sl_fin] in H. rewrite andb_false_r in H. rewrite app_nil_r in *.
        destruct Hglue as [Hglue|Hnil]; [|contradiction].
        rewrite Hglue in H. clear Hglue. inversion H; subst st' out.
        destruct o2 as [|l ls]; [contradiction|].
        unfold ld_abs, glue; cbn [fst snd concat]. rewrite Hstep13. cbn [fst snd concat]. rewrite app_nil_r.
        split; [reflexivity | constructor].
      * destruct (HLno eq_refl) as [y0 [Hy0 Ey]]. inversion Ey; subst y0 cr2. clear HL13 HLnl HLno Ey.
        assert (Hfin : sl_fin (y, false) = [y]) by (destruct y; [contradiction | reflexivity]).
        rewrite Hfin in *. cbn [negb] in H. rewrite andb_true_r in H.
        destruct o2 as [|l ls].
        -- cbn [app length hd] in H. cbn [Nat.eqb] in H. inversion H; subst st' out.
          unfold ld_abs, glue; cbn [fst snd]. rewrite Hstep13. cbn [fst snd]. rewrite concat_app. cbn [concat].
          rewrite !app_nil_r. split; [reflexivity|].
          apply Forall_app. split; [exact Hinv | constructor; [exact Hy0 | constructor]].
        -- destruct Hglue as [Hglue|Hnil]; [|discriminate].
          rewrite Hglue in H. clear Hglue.
          assert (Hlen : (length ((l :: ls) ++ [y]) =? 1)%nat = false).
          { rewrite app_length. cbn [length]. destruct (length ls); cbn; reflexivity. }
          rewrite Hlen in H. cbn [app] in H.
          change ((concat buf ++ l) :: ls ++ [y]) with (((concat buf ++ l) :: ls) ++ [y]) in H.
          rewrite last_last, removelast_last in H. inversion H; subst st' out.
          unfold ld_abs, glue; cbn [fst snd]. rewrite Hstep13. cbn [fst snd concat]. rewrite !app_nil_r.
          split; [reflexivity | constructor; [exact Hy0 | constructor]].
Qed.

Lemma ld_fold_sim : forall ts buf tcr st' out,
  nonempty_all buf ->
  ld_fold (buf, tcr) ts = (st', out) ->
  sl_run (concat buf, tcr) (concat ts) = (ld_abs st', out) /\ nonempty_all (fst st').
Proof.
  induction ts as [|t ts IH]; intros buf tcr st' out Hinv H; cbn [ld_fold concat] in *.
  - inversion H; subst. split; [reflexivity | exact Hinv].
  - destruct (ld_decode (buf, tcr) t) as [[buf1 tcr1] o1] eqn:E1.
    destruct (ld_fold (buf1, tcr1) ts) as [st2 o2] eqn:E2.
    inversion H; subst st' out. clear H.
    destruct (ld_decode_sim _ _ _ _ _ Hinv E1) as [S1 I1]. cbn [fst] in I1.
    destruct (IH _ _ _ _ I1 E2) as [S2 I2].
    rewrite sl_run_app. unfold str, slstate, ldstate in *. rewrite S1. unfold ld_abs at 1. cbn [fst snd].
    rewrite S2. split; [reflexivity | exact I2].
Qed.

Lemma ld_flush_fin : forall st, nonempty_all (fst st) -> ld_flush st = sl_fin (ld_abs st).
Proof.
  intros [buf tcr] Hinv. unfold ld_flush, sl_fin, ld_abs. cbn [fst snd] in *.
  destruct tcr; [rewrite andb_false_r; reflexivity|]. rewrite andb_true_r.
  destruct buf as [|b bs]; [reflexivity|]. cbn [nonemptyb negb].
  inversion Hinv as [|? ? Hb _]; subst. destruct b; [contradiction | reflexivity].
Qed.

(* Theorem 1: the LineDecoder fed any sequence of text chunks (empty ones included) yields exactly
   str.splitlines of their concatenation *)
Theorem ld_chunk_independent : forall ts, ld_run ts = splitlines (concat ts).
Proof.
  intros ts. unfold ld_run, splitlines.
  destruct (ld_fold ([], false) ts) as [st' out] eqn:E.
  destruct (ld_fold_sim ts [] false st' out (Forall_nil _) E) as [S I].
  cbn [concat] in S. unfold str, slstate, ldstate in *. rewrite S. rewrite ld_flush_fin by exact I. reflexivity.
Qed.

(* ====================== C. UTF-8 (errors="replace": total) ====================== *)
Lemma u_run_app : forall a b p,
  u_run p (a ++ b) = let '(p1, s1) := u_run p a in let '(p2, s2) := u_run p1 b in (p2, s1 ++ s2).
Proof.
  induction a as [|x a IH]; intros b p; cbn [u_run app].
  - destruct (u_run p b) as [p2 s2]. reflexivity.
  - destruct (u_step p x) as [p1 s1]. rewrite IH.
    destruct (u_run p1 a) as [p1' s1']. destruct (u_run p1' b) as [p2 s2]. rewrite app_assoc. reflexivity.
Qed.

Definition utf8_from (p : bytes) (bs : bytes) : str := let '(p', s) := u_run p bs in s ++ u_flush p'.

Lemma text_chunker_concat : forall t, concat (text_chunker t) = t.
Proof. destruct t; [reflexivity | cbn; rewrite app_nil_r; reflexivity]. Qed.

Lemma text_run_concat : forall cs p, concat (text_run p cs) = utf8_from p (concat cs).
Proof.
  induction cs as [|c cs IH]; intros p; cbn [text_run concat].
  - unfold utf8_from. cbn [u_run app]. apply text_chunker_concat.
  - unfold utf8_from. rewrite u_run_app. destruct (u_run p c) as [p1 t].
    rewrite concat_app, text_chunker_concat, IH. unfold utf8_from.
    destruct (u_run p1 (concat cs)) as [p2 s2]. rewrite app_assoc. reflexivity.
Qed.

Theorem iter_bytes_concat : forall cs, concat (iter_bytes cs) = concat cs.
Proof.
  induction cs as [|c cs IH]; [reflexivity|]. unfold iter_bytes in *. cbn [filter].
  destruct c; cbn [nonemptyb concat app]; [exact IH | rewrite IH; reflexivity].
Qed.

(* Theorem 2: the text chunks produced for ANY byte stream (ill-formed UTF-8 included: the placement of U+FFFD) and
   any chunking concatenate to the decoding of the whole stream *)
Theorem utf8_chunk_independent : forall cs, concat (aiter_text cs) = utf8_decode (concat cs).
Proof. intros cs. unfold aiter_text. rewrite text_run_concat, iter_bytes_concat. reflexivity. Qed.

(* ====================== D. the iterators depend on the stream only ====================== *)
Theorem aiter_lines_stream : forall cs, aiter_lines cs = splitlines (utf8_decode (concat cs)).
Proof. intros cs. unfold aiter_lines. rewrite ld_chunk_independent, utf8_chunk_independent. reflexivity. Qed.

Lemma read_all_concat : forall cs, concat (read_all cs) = concat cs.
Proof.
  intros cs. unfold read_all. rewrite iter_bytes_concat.
  destruct (concat cs); [reflexivity | cbn [concat]; rewrite app_nil_r; reflexivity].
Qed.

Section Indep.
  Variable py_int : str -> option Z.
  Variable J : Type.
  Variable json_loads : str -> option J.

  Theorem lines_indep : forall cs1 cs2, concat cs1 = concat cs2 -> aiter_lines cs1 = aiter_lines cs2.
  Proof. intros cs1 cs2 H. rewrite !aiter_lines_stream, H. reflexivity. Qed.

  Theorem sse_indep : forall cs1 cs2, concat cs1 = concat cs2 -> iter_sse py_int cs1 = iter_sse py_int cs2.
  Proof. intros cs1 cs2 H. unfold iter_sse. rewrite (lines_indep _ _ H). reflexivity. Qed.

  Theorem sse_text_indep : forall cs1 cs2, concat cs1 = concat cs2 ->
    iter_sse_events_text py_int cs1 = iter_sse_events_text py_int cs2.
  Proof. intros cs1 cs2 H. unfold iter_sse_events_text. rewrite (sse_indep _ _ H). reflexivity. Qed.

  Theorem ndjson_indep : forall cs1 cs2, concat cs1 = concat cs2 ->
    iter_ndjson J json_loads cs1 = iter_ndjson J json_loads cs2.
  Proof. intros cs1 cs2 H. unfold iter_ndjson. rewrite (lines_indep _ _ H). reflexivity. Qed.

  (* in terms of the unsplit stream: what comes out for any chunking is what comes out for [whole] *)
  Theorem sse_whole : forall cs, iter_sse py_int cs = iter_sse py_int [concat cs].
  Proof. intros cs. apply sse_indep. cbn [concat]. rewrite app_nil_r. reflexivity. Qed.

  (* ---- the generated client: the body is read completely first, so the helper sees one chunk ---- *)
  Theorem e2e_events_stream : forall cs,
    e2e_events py_int J json_loads cs = loads_all J json_loads (iter_sse_events_text py_int cs).
  Proof. intros cs. unfold e2e_events. rewrite (sse_text_indep _ _ (read_all_concat cs)). reflexivity. Qed.

  Theorem e2e_events_indep : forall cs1 cs2, concat cs1 = concat cs2 ->
    e2e_events py_int J json_loads cs1 = e2e_events py_int J json_loads cs2.
  Proof. intros cs1 cs2 H. rewrite !e2e_events_stream, (sse_text_indep _ _ H). reflexivity. Qed.

  Theorem e2e_ndjson_stream : forall cs, e2e_ndjson J json_loads cs = iter_ndjson J json_loads cs.
  Proof. intros cs. unfold e2e_ndjson. apply ndjson_indep. apply read_all_concat. Qed.

  Theorem e2e_items_indep : forall h cs1 cs2, concat cs1 = concat cs2 ->
    e2e_items py_int J json_loads h cs1 = e2e_items py_int J json_loads h cs2.
  Proof.
    intros h cs1 cs2 H. destruct h; cbn [e2e_items].
    - apply e2e_events_indep. exact H.
    - rewrite !e2e_ndjson_stream. apply ndjson_indep. exact H.
  Qed.
End Indep.

(* on that path even the ITEMS of the byte iterator are independent of the chunking: the whole body, once *)
Theorem e2e_bytes_whole : forall cs, e2e_bytes cs = match concat cs with [] => [] | b => [b] end.
Proof.
  intros cs. unfold e2e_bytes, read_all. rewrite iter_bytes_concat.
  destruct (concat cs); reflexivity.
Qed.

(* ====================== E. what a sender writes comes back ====================== *)
Definition clean (l : str) : Prop := forall c, In c l -> is_nl c = false.

Lemma clean_cons : forall c l, clean (c :: l) -> is_nl c = false /\ clean l.
Proof. intros c l H. split; [apply H; left; reflexivity | intros x Hx; apply H; right; exact Hx]. Qed.

Lemma not_nl_ne : forall c, is_nl c = false -> (c =? 13) = false /\ (c =? 10) = false.
Proof.
  intros c H. split.
  - destruct (c =? 13) eqn:E; [apply N.eqb_eq in E; subst; rewrite is_nl_13 in H; discriminate | reflexivity].
  - destruct (c =? 10) eqn:E; [apply N.eqb_eq in E; subst; rewrite is_nl_10 in H; discriminate | reflexivity].
Qed.

Lemma sl_run_clean : forall (l cur : str), clean l -> sl_run (cur, false) l = ((cur ++ l, false), []).
Proof.
  induction l as [|c l IH]; intros cur H; cbn [sl_run].
  - rewrite app_nil_r. reflexivity.
  - apply clean_cons in H. destruct H as [Hc Hl]. destruct (not_nl_ne c Hc) as [E13 E10].
    unfold sl_step. rewrite E13, Hc. rewrite (IH _ Hl). rewrite <- app_assoc. reflexivity.
Qed.

Definition sl_all (st : slstate) (s : str) : list str := let '(st', o) := sl_run st s in o ++ sl_fin st'.

Lemma splitlines_all : forall s, splitlines s = sl_all ([], false) s.
Proof. reflexivity. Qed.

Lemma sl_all_app : forall a b st, sl_all st (a ++ b) = let '(st1, o1) := sl_run st a in o1 ++ sl_all st1 b.
Proof.
  intros a b st. unfold sl_all. rewrite sl_run_app. unfold str, slstate in *.
  destruct (sl_run st a) as [st1 o1]. destruct (sl_run st1 b) as [st2 o2]. rewrite app_assoc. reflexivity.
Qed.

(* a pending "\r" followed by anything but "\n" *)
Lemma cr_pending : forall (r x : str), hd 0 r <> 10 -> sl_all (x, true) r = x :: sl_all ([], false) r.
Proof.
  intros r x H. destruct r as [|c r]; [reflexivity|]. cbn [hd] in H.
  unfold sl_all. cbn [sl_run]. unfold sl_step.
  assert (E10 : (c =? 10) = false) by (apply N.eqb_neq; exact H). rewrite E10.
  destruct (c =? 13); [|destruct (is_nl c)]; unfold str, slstate in *; cbn [app];
    match goal with |- context [sl_run ?st r] => destruct (sl_run st r) as [st2 o2] end; reflexivity.
Qed.

Definition term_ok (t : term) (r : str) : Prop := t = CRonly -> hd 0 r <> 10.

(* the three equations that define str.splitlines *)
Lemma splitlines_nil : splitlines [] = [].
Proof. reflexivity. Qed.

Lemma splitlines_one : forall l, clean l -> l <> [] -> splitlines l = [l].
Proof.
  intros l H Hne. unfold splitlines. pose proof (sl_run_clean l [] H) as E. unfold str, slstate in *. rewrite E. cbn [app sl_fin].
  destruct l; [contradiction | reflexivity].
Qed.

Lemma sl_all_line : forall t (l r : str), clean l -> term_ok t r ->
  sl_all ([], false) (l ++ term_s t ++ r) = l :: sl_all ([], false) r.
Proof.
  intros t l r H Hok. rewrite sl_all_app.
  pose proof (sl_run_clean l [] H) as E. unfold str, slstate in *. rewrite E. clear E. cbn [app].
  destruct t; cbn [term_s app].
  - unfold sl_all. cbn [sl_run]. unfold sl_step. change (10 =? 13) with false. rewrite is_nl_10.
    unfold str, slstate in *. destruct (sl_run ([], false) r) as [st2 o2]. reflexivity.
  - unfold sl_all. cbn [sl_run]. unfold sl_step. change (13 =? 13) with true. change (10 =? 10) with true.
    unfold str, slstate in *. destruct (sl_run ([], false) r) as [st2 o2]. reflexivity.
  - pose proof (cr_pending r l (Hok eq_refl)) as E. unfold str, slstate in *. rewrite <- E. clear E. unfold sl_all. cbn [sl_run]. unfold sl_step.
    change (13 =? 13) with true. unfold str, slstate in *. destruct (sl_run (l, true) r) as [st2 o2]. reflexivity.
Qed.

Lemma splitlines_line : forall t (l r : str), clean l -> term_ok t r ->
  splitlines (l ++ term_s t ++ r) = l :: splitlines r.
Proof. exact sl_all_line. Qed.

Definition all_clean (ls : list str) : Prop := forall l, In l ls -> clean l.

Lemma hd_clean_line : forall (l : str) r, clean l -> hd 0 (l ++ term_s CRonly ++ r) <> 10.
Proof.
  intros l r H. destruct l as [|c l]; cbn [app hd].
  - cbn; discriminate.
  - apply clean_cons in H. destruct H as [Hc _]. intro E. subst c. rewrite is_nl_10 in Hc. discriminate.
Qed.

Lemma enc_lines_cons : forall t l ls, enc_lines t (l :: ls) = l ++ term_s t ++ enc_lines t ls.
Proof. intros. unfold enc_lines. cbn [map concat]. rewrite <- app_assoc. reflexivity. Qed.

Lemma term_ok_enc : forall t ls, all_clean ls -> term_ok t (enc_lines t ls).
Proof.
  intros t ls H Ht. subst t. destruct ls as [|l ls]; [cbn; discriminate|].
  rewrite enc_lines_cons. apply hd_clean_line. apply H. left. reflexivity.
Qed.

Lemma splitlines_enc_lines : forall t ls, all_clean ls -> splitlines (enc_lines t ls) = ls.
Proof.
  induction ls as [|l ls IH]; intros H; [reflexivity|].
  assert (Hl : clean l) by (apply H; left; reflexivity).
  assert (Hls : all_clean ls) by (intros x Hx; apply H; right; exact Hx).
  rewrite enc_lines_cons, splitlines_line by (try exact Hl; apply term_ok_enc; exact Hls).
  rewrite IH by exact Hls. reflexivity.
Qed.

Lemma join_cons2 : forall (sep l l2 : str) ls, join sep (l :: l2 :: ls) = l ++ sep ++ join sep (l2 :: ls).
Proof. intros. unfold join. cbn [map concat]. rewrite <- app_assoc. reflexivity. Qed.

(* lines joined by the terminator, none after the last (non-empty) line *)
Lemma splitlines_join : forall t ls, all_clean ls -> last ls [0] <> [] ->
  splitlines (join (term_s t) ls) = ls.
Proof.
  induction ls as [|l ls IH]; intros H Hlast; [reflexivity|].
  assert (Hl : clean l) by (apply H; left; reflexivity).
  assert (Hls : all_clean ls) by (intros x Hx; apply H; right; exact Hx).
  destruct ls as [|l2 ls].
  - cbn [join map concat]. rewrite app_nil_r. apply splitlines_one; assumption.
  - rewrite join_cons2, splitlines_line.
    + rewrite IH; [reflexivity | exact Hls | exact Hlast].
    + exact Hl.
    + intros Ht. subst t. destruct ls as [|l3 ls].
      * cbn [join map concat]. rewrite app_nil_r. destruct l2 as [|c l2]; [contradiction|].
        cbn [hd]. assert (Hc : clean (c :: l2)) by (apply Hls; left; reflexivity).
        apply clean_cons in Hc. destruct Hc as [Hc _]. intro E; subst c. rewrite is_nl_10 in Hc. discriminate.
      * rewrite join_cons2. apply hd_clean_line. apply Hls. left. reflexivity.
Qed.

Section Round.
  Variable py_int : str -> option Z.
  Hypothesis py_int_digits :
    forall ds, ds <> [] -> forallb is_digit ds = true -> py_int ds = Some (digits_val ds).

  Definition acc_item (acc : pacc) (it : item) : pacc :=
    let '(d, e, i, r) := acc in
    match it with
    | IComment _ => acc
    | IData s => (d ++ [s], e, i, r)
    | IEvent s => (d, Some s, i, r)
    | IId s => (d, e, Some s, r)
    | IRetry s => (d, e, i, Some (digits_val s))
    end.

  Definition item_ok (it : item) : Prop := item_dom it = true.

  Lemma pe_step_item : forall acc it, item_ok it -> pe_step py_int acc (item_line it) = acc_item acc it.
  Proof.
    intros [[[d e] i] r] it Hdom. unfold item_ok in Hdom. destruct it as [s|s|s|s|s]; cbn [item_line item_text] in *.
    - unfold pe_step. rewrite N.eqb_refl. reflexivity.
    - unfold pe_step. cbn. reflexivity.
    - unfold pe_step. cbn. reflexivity.
    - unfold pe_step. cbn. reflexivity.
    - unfold pe_step. cbn.
      unfold item_dom in Hdom. cbn [item_text] in Hdom.
      apply andb_true_iff in Hdom. destruct Hdom as [_ Hd]. apply andb_true_iff in Hd. destruct Hd as [Hne Hdig].
      rewrite py_int_digits; [reflexivity | destruct s; [discriminate | discriminate] | exact Hdig].
  Qed.

  Lemma fold_pe_items : forall b acc, (forall it, In it b -> item_ok it) ->
    fold_left (pe_step py_int) (map item_line b) acc = fold_left acc_item b acc.
  Proof.
    induction b as [|it b IH]; intros acc H; [reflexivity|]. cbn [map fold_left].
    rewrite pe_step_item by (apply H; left; reflexivity). apply IH. intros x Hx. apply H. right. exact Hx.
  Qed.

  Definition upd {A} (f : item -> option A) (acc : option A) (it : item) : option A :=
    match f it with Some x => Some x | None => acc end.
  Definition f_ev (it : item) := match it with IEvent s => Some s | _ => None end.
  Definition f_id' (it : item) := match it with IId s => Some s | _ => None end.
  Definition f_rt (it : item) := match it with IRetry s => Some (digits_val s) | _ => None end.
  Definition f_dt (it : item) : list str := match it with IData s => [s] | _ => [] end.

  Lemma fold_acc_items : forall b d e i r,
    fold_left acc_item b (d, e, i, r) =
    (d ++ flat_map f_dt b, fold_left (upd f_ev) b e, fold_left (upd f_id') b i, fold_left (upd f_rt) b r).
  Proof.
    induction b as [|it b IH]; intros d e i r; cbn [fold_left flat_map].
    - rewrite app_nil_r. reflexivity.
    - destruct it as [s|s|s|s|s]; cbn [acc_item]; rewrite IH; cbn [f_dt upd f_ev f_id' f_rt app];
        rewrite <- ?app_assoc; reflexivity.
  Qed.

  Lemma fold_upd_some : forall {A} (f : item -> option A) b acc,
    acc <> None -> fold_left (upd f) b acc <> None.
  Proof.
    induction b as [|x b IH]; intros acc H; [exact H|]. cbn [fold_left]. apply IH.
    unfold upd. destruct (f x); [discriminate | exact H].
  Qed.

  Lemma fold_upd_in : forall {A} (f : item -> option A) b acc it,
    In it b -> f it <> None -> fold_left (upd f) b acc <> None.
  Proof.
    induction b as [|x b IH]; intros acc it Hin Hf; [destruct Hin|]. cbn [fold_left]. destruct Hin as [E|Hin].
    - subst x. apply fold_upd_some. unfold upd. destruct (f it); [discriminate | contradiction].
    - apply (IH _ it Hin Hf).
  Qed.

  Lemma fold_upd_none : forall {A} (f : item -> option A) b,
    (forall it, In it b -> f it = None) -> fold_left (upd f) b None = None.
  Proof.
    induction b as [|x b IH]; intros H; [reflexivity|]. cbn [fold_left]. unfold upd at 2.
    rewrite (H x (or_introl eq_refl)). apply IH. intros it Hit. apply H. right. exact Hit.
  Qed.

  Lemma has_field_false : forall b, has_field b = false -> forall it, In it b -> is_field it = false.
  Proof.
    intros b H it Hit. destruct (is_field it) eqn:E; [|reflexivity].
    assert (has_field b = true) by (apply existsb_exists; exists it; split; assumption). congruence.
  Qed.

  (* _parse_sse_event on the lines of a block: an event iff the block has a field line *)
  Lemma parse_items : forall b, (forall it, In it b -> item_ok it) ->
    parse_event py_int (map item_line b) = if has_field b then Some (expected b) else None.
  Proof.
    intros b H. unfold parse_event. rewrite fold_pe_items by exact H. rewrite fold_acc_items. cbn [app].
    change (expected b) with {| e_data := join [c_join] (flat_map f_dt b); e_event := fold_left (upd f_ev) b None;
                                e_id := fold_left (upd f_id') b None; e_retry := fold_left (upd f_rt) b None |}.
    destruct (has_field b) eqn:HF.
    - apply existsb_exists in HF. destruct HF as [it [Hit Hf]].
      assert (Hany : flat_map f_dt b <> [] \/ fold_left (upd f_ev) b None <> None \/
                     fold_left (upd f_id') b None <> None \/ fold_left (upd f_rt) b None <> None).
      { destruct it as [s|s|s|s|s]; [discriminate| | | |].
        - left. intro E. assert (Hin : In s (flat_map f_dt b)) by (apply in_flat_map; exists (IData s); split; [exact Hit | left; reflexivity]).
          rewrite E in Hin. destruct Hin.
        - right. left. apply (fold_upd_in f_ev b None (IEvent s) Hit). discriminate.
        - right. right. left. apply (fold_upd_in f_id' b None (IId s) Hit). discriminate.
        - right. right. right. apply (fold_upd_in f_rt b None (IRetry s) Hit). discriminate. }
      destruct (flat_map f_dt b), (fold_left (upd f_ev) b None), (fold_left (upd f_id') b None),
        (fold_left (upd f_rt) b None); try reflexivity.
      exfalso. destruct Hany as [E|[E|[E|E]]]; apply E; reflexivity.
    - pose proof (has_field_false b HF) as HC.
      assert (Hd : flat_map f_dt b = []).
      { clear H HF. induction b as [|x b IH]; [reflexivity|]. cbn [flat_map].
        rewrite IH by (intros it Hit; apply HC; right; exact Hit).
        specialize (HC x (or_introl eq_refl)). destruct x; [reflexivity | discriminate ..]. }
      rewrite Hd, !fold_upd_none; [reflexivity | | |];
        intros it Hit; specialize (HC it Hit); destruct it; try reflexivity; discriminate.
  Qed.

  (* ---- the dispatch loop over the lines of whole blocks ---- *)
  Lemma item_line_cons : forall it, exists c l, item_line it = c :: l.
  Proof. destruct it; cbn; eexists; eexists; reflexivity. Qed.

  Lemma sse_loop_items : forall b ev rest,
    sse_loop py_int ev (map item_line b ++ rest) = sse_loop py_int (ev ++ map item_line b) rest.
  Proof.
    induction b as [|it b IH]; intros ev rest; cbn [map app].
    - rewrite app_nil_r. reflexivity.
    - destruct (item_line_cons it) as [c [l E]]. rewrite E. cbn [sse_loop]. rewrite <- E.
      rewrite IH. rewrite <- app_assoc. reflexivity.
  Qed.

  Definition pe (b : block) : option event := parse_event py_int (map item_line b).

  Lemma sse_block : forall b rest, b <> [] ->
    sse_loop py_int [] (block_lines b ++ rest) = olist (pe b) ++ sse_loop py_int [] rest.
  Proof.
    intros b rest Hne. unfold block_lines. rewrite <- app_assoc, sse_loop_items. cbn [app sse_loop].
    destruct b as [|it b]; [contradiction|]. cbn [map]. reflexivity.
  Qed.

  Lemma sse_stream : forall bs rest, (forall b, In b bs -> b <> []) ->
    sse_loop py_int [] (stream_lines bs ++ rest) = flat_map (fun b => olist (pe b)) bs ++ sse_loop py_int [] rest.
  Proof.
    induction bs as [|b bs IH]; intros rest H; [reflexivity|].
    unfold stream_lines in *. cbn [map concat flat_map]. rewrite <- !app_assoc, sse_block by (apply H; left; reflexivity).
    rewrite IH by (intros x Hx; apply H; right; exact Hx). reflexivity.
  Qed.

  Lemma sse_last_block : forall b, b <> [] -> sse_loop py_int [] (map item_line b) = olist (pe b).
  Proof.
    intros b Hne. rewrite <- (app_nil_r (map item_line b)), sse_loop_items. cbn [app sse_loop].
    destruct b; [contradiction | reflexivity].
  Qed.

  (* ---- the guards give what the lemmas above need ---- *)
  Definition good_item (it : item) : bool :=
    item_dom it && forallb (fun c => negb (exotic_nl c)) (item_text it).
  Definition good_block (b : block) : bool := nonemptyb b && forallb good_item b.

  Lemma guard_blocks : forall bs, guard bs = true -> forall b, In b bs -> good_block b = true.
  Proof.
    intros bs H b Hb. unfold guard in H. apply andb_true_iff in H. destruct H as [Hd Ha].
    unfold guard_dom in Hd. unfold guard_F18a in Ha.
    rewrite forallb_forall in Hd, Ha. specialize (Hd b Hb). specialize (Ha b Hb).
    apply andb_true_iff in Hd. destruct Hd as [Hne Hd].
    unfold good_block. rewrite Hne. cbn [andb]. apply forallb_forall. intros it Hit.
    rewrite forallb_forall in Hd, Ha. unfold good_item.
    rewrite (Hd it Hit), (Ha it Hit). reflexivity.
  Qed.

  Lemma good_item_ok : forall it, good_item it = true -> item_ok it.
  Proof.
    intros it H. unfold good_item in H. apply andb_true_iff in H. destruct H as [Hd _]. exact Hd.
  Qed.

  Lemma good_text_clean : forall it, good_item it = true -> clean (item_text it).
  Proof.
    intros it H c Hc. unfold good_item in H. apply andb_true_iff in H. destruct H as [Hd Hx].
    unfold item_dom in Hd. apply andb_true_iff in Hd.
    destruct Hd as [Hcr _]. unfold no_crlf in Hcr. rewrite forallb_forall in Hcr, Hx.
    specialize (Hcr c Hc). specialize (Hx c Hc). unfold exotic_nl in Hx.
    destruct (is_nl c); [|reflexivity]. cbn [andb] in Hx. rewrite Hcr in Hx. discriminate.
  Qed.

  Lemma clean_app : forall a b, clean a -> clean b -> clean (a ++ b).
  Proof. intros a b Ha Hb c Hc. apply in_app_or in Hc. destruct Hc; [apply Ha | apply Hb]; assumption. Qed.

  Lemma cleanb_clean : forall l, forallb (fun c => negb (is_nl c)) l = true -> clean l.
  Proof. intros l H c Hc. rewrite forallb_forall in H. specialize (H c Hc). destruct (is_nl c); [discriminate | reflexivity]. Qed.

  Lemma good_line_clean : forall it, good_item it = true -> clean (item_line it).
  Proof.
    intros it H. pose proof (good_text_clean it H) as Ht.
    destruct it as [s|s|s|s|s]; cbn [item_line item_text] in *.
    - change (c_colon :: s) with ([c_colon] ++ s). apply clean_app; [apply cleanb_clean; reflexivity | exact Ht].
    - change (f_data ++ c_colon :: 32 :: s) with (f_data ++ [c_colon; 32] ++ s). rewrite app_assoc.
      apply clean_app; [apply cleanb_clean; reflexivity | exact Ht].
    - change (f_event ++ c_colon :: 32 :: s) with (f_event ++ [c_colon; 32] ++ s). rewrite app_assoc.
      apply clean_app; [apply cleanb_clean; reflexivity | exact Ht].
    - change (f_id ++ c_colon :: 32 :: s) with (f_id ++ [c_colon; 32] ++ s). rewrite app_assoc.
      apply clean_app; [apply cleanb_clean; reflexivity | exact Ht].
    - change (f_retry ++ c_colon :: 32 :: s) with (f_retry ++ [c_colon; 32] ++ s). rewrite app_assoc.
      apply clean_app; [apply cleanb_clean; reflexivity | exact Ht].
  Qed.

  Lemma clean_nil : clean [].
  Proof. intros c []. Qed.

  Lemma block_lines_clean : forall b, good_block b = true -> all_clean (map item_line b).
  Proof.
    intros b H l Hl. unfold good_block in H. apply andb_true_iff in H. destruct H as [_ H].
    rewrite forallb_forall in H. apply in_map_iff in Hl. destruct Hl as [it [E Hit]]. subst l.
    apply good_line_clean. apply H. exact Hit.
  Qed.

  Lemma all_clean_app : forall a b, all_clean a -> all_clean b -> all_clean (a ++ b).
  Proof. intros a b Ha Hb l Hl. apply in_app_or in Hl. destruct Hl; [apply Ha | apply Hb]; assumption. Qed.

  Lemma stream_lines_clean : forall bs, (forall b, In b bs -> good_block b = true) -> all_clean (stream_lines bs).
  Proof.
    induction bs as [|b bs IH]; intros H; [intros l []|].
    unfold stream_lines in *. cbn [map concat]. apply all_clean_app.
    - unfold block_lines. apply all_clean_app; [apply block_lines_clean; apply H; left; reflexivity|].
      intros l [E|[]]. subst l. exact clean_nil.
    - apply IH. intros x Hx. apply H. right. exact Hx.
  Qed.

  Lemma stream_lines_snoc : forall bs b,
    stream_lines (bs ++ [b]) = (stream_lines bs ++ map item_line b) ++ [[]].
  Proof.
    intros bs b. unfold stream_lines. rewrite map_app, concat_app. cbn [map concat]. rewrite app_nil_r.
    unfold block_lines. rewrite app_assoc. reflexivity.
  Qed.

  Lemma block_items_ok : forall b, good_block b = true -> forall it, In it b -> item_ok it.
  Proof.
    intros b H it Hit. apply good_item_ok. unfold good_block in H.
    apply andb_true_iff in H. destruct H as [_ H]. rewrite forallb_forall in H. apply H. exact Hit.
  Qed.

  Lemma pe_expected : forall bs, (forall b, In b bs -> good_block b = true) ->
    flat_map (fun b => olist (pe b)) bs = spec_events bs.
  Proof.
    induction bs as [|b bs IH]; intros H; [reflexivity|]. cbn [flat_map]. unfold spec_events in *. cbn [filter].
    unfold pe at 1. rewrite parse_items by (apply block_items_ok; apply H; left; reflexivity).
    rewrite IH by (intros x Hx; apply H; right; exact Hx). destruct (has_field b); reflexivity.
  Qed.

  Lemma spec_events_app : forall a b, spec_events (a ++ b) = spec_events a ++ spec_events b.
  Proof. intros a b. unfold spec_events. rewrite filter_app, map_app. reflexivity. Qed.

  Lemma good_nonempty : forall bs, (forall b, In b bs -> good_block b = true) -> forall b, In b bs -> b <> [].
  Proof. intros bs H b Hb E. specialize (H b Hb). subst b. discriminate. Qed.

  (* Functional half of C18 on the text level: whatever the terminator (LF, CRLF, CR) and however the
     stream ends (after the blank line, after the last line's terminator, or right after the last line),
     the events come back: data lines joined by "\n", comments ignored, last event/id/retry win. *)
  Theorem sse_roundtrip_text : forall t k bs, guard bs = true ->
    sse_of_lines py_int (splitlines (encode t k bs)) = spec_events bs.
  Proof.
    intros t k bs G. pose proof (guard_blocks bs G) as HB. unfold sse_of_lines.
    destruct k; cbn [encode].
    - rewrite splitlines_enc_lines by (apply stream_lines_clean; exact HB).
      rewrite <- (app_nil_r (stream_lines bs)), sse_stream by (apply good_nonempty; exact HB).
      cbn [sse_loop]. rewrite app_nil_r. apply pe_expected. exact HB.
    - destruct bs as [|b0 bs0] using rev_ind; [reflexivity|]. clear IHbs0.
      rewrite stream_lines_snoc, removelast_last.
      assert (HB0 : forall b, In b bs0 -> good_block b = true) by (intros x Hx; apply HB; apply in_or_app; left; exact Hx).
      assert (Hb0 : good_block b0 = true) by (apply HB; apply in_or_app; right; left; reflexivity).
      rewrite splitlines_enc_lines
        by (apply all_clean_app; [apply stream_lines_clean; exact HB0 | apply block_lines_clean; exact Hb0]).
      rewrite sse_stream by (apply good_nonempty; exact HB0).
      rewrite sse_last_block by (intro E; subst b0; discriminate).
      rewrite spec_events_app, (pe_expected bs0 HB0). f_equal.
      rewrite <- (pe_expected [b0]) by (intros x [E|[]]; subst x; exact Hb0). cbn [flat_map]. rewrite app_nil_r. reflexivity.
    - destruct bs as [|b0 bs0] using rev_ind; [reflexivity|]. clear IHbs0.
      rewrite stream_lines_snoc, removelast_last.
      assert (HB0 : forall b, In b bs0 -> good_block b = true) by (intros x Hx; apply HB; apply in_or_app; left; exact Hx).
      assert (Hb0 : good_block b0 = true) by (apply HB; apply in_or_app; right; left; reflexivity).
      assert (Hne : b0 <> []) by (intro E; subst b0; discriminate).
      rewrite splitlines_join.
      + rewrite sse_stream by (apply good_nonempty; exact HB0).
        rewrite sse_last_block by exact Hne.
        rewrite spec_events_app, (pe_expected bs0 HB0). f_equal.
        rewrite <- (pe_expected [b0]) by (intros x [E|[]]; subst x; exact Hb0). cbn [flat_map]. rewrite app_nil_r. reflexivity.
      + apply all_clean_app; [apply stream_lines_clean; exact HB0 | apply block_lines_clean; exact Hb0].
      + destruct b0 as [|it b0 _] using rev_ind; [contradiction|].
        rewrite map_app. cbn [map]. rewrite app_assoc, last_last.
        destruct (item_line_cons it) as [c [l E]]. rewrite E. discriminate.
  Qed.
End Round.

#[local] Ltac Zify.zify_post_hook ::= Z.to_euclidean_division_equations.

(* ====================== F. a UTF-8 encoder, and decode (encode s) = s ====================== *)
Definition utf8_enc1 (c : N) : bytes :=
  if c <? 128 then [c]
  else if c <? 2048 then [192 + c / 64; 128 + c mod 64]
  else if c <? 65536 then [224 + c / 4096; 128 + (c / 64) mod 64; 128 + c mod 64]
  else [240 + c / 262144; 128 + (c / 4096) mod 64; 128 + (c / 64) mod 64; 128 + c mod 64].
Definition utf8_encode (s : str) : bytes := flat_map utf8_enc1 s.
(* Unicode scalar values *)
Definition valid_cp (c : N) : bool := (c <? 55296) || ((57343 <? c) && (c <? 1114112)).

Lemma classify1_char : forall b0, b0 < 128 -> classify [b0] = UChar b0.
Proof. intros b0 H. unfold classify. destruct (b0 <? 128) eqn:E; [reflexivity | lia]. Qed.

Lemma classify1_more : forall b0, 194 <= b0 <= 244 -> classify [b0] = UMore.
Proof.
  intros b0 H. unfold classify, in_rng. destruct (b0 <? 128) eqn:E; [lia|].
  destruct ((194 <=? b0) && (b0 <=? 244)) eqn:E2; [reflexivity | lia].
Qed.

Lemma second_ok_true : forall b0 b1,
  128 <= b1 <= 191 ->
  (b0 = 224 -> 160 <= b1) -> (b0 = 237 -> b1 <= 159) -> (b0 = 240 -> 144 <= b1) -> (b0 = 244 -> b1 <= 143) ->
  second_ok b0 b1 = true.
Proof.
  intros b0 b1 H H1 H2 H3 H4. unfold second_ok, is_cont, in_rng.
  destruct (b0 =? 224) eqn:E1; [lia|]. destruct (b0 =? 237) eqn:E2; [lia|].
  destruct (b0 =? 240) eqn:E3; [lia|]. destruct (b0 =? 244) eqn:E4; lia.
Qed.

Lemma classify2_char : forall b0 b1, b0 < 224 -> second_ok b0 b1 = true ->
  classify [b0; b1] = UChar ((b0 - 192) * 64 + (b1 - 128)).
Proof. intros b0 b1 H H2. unfold classify. rewrite H2. destruct (b0 <? 224) eqn:E; [reflexivity | lia]. Qed.

Lemma classify2_more : forall b0 b1, 224 <= b0 -> second_ok b0 b1 = true -> classify [b0; b1] = UMore.
Proof. intros b0 b1 H H2. unfold classify. rewrite H2. destruct (b0 <? 224) eqn:E; [lia | reflexivity]. Qed.

Lemma classify3_char : forall b0 b1 b2, b0 < 240 -> 128 <= b2 <= 191 ->
  classify [b0; b1; b2] = UChar ((b0 - 224) * 4096 + (b1 - 128) * 64 + (b2 - 128)).
Proof.
  intros b0 b1 b2 H H2. unfold classify, is_cont, in_rng.
  destruct ((128 <=? b2) && (b2 <=? 191)) eqn:E; [|lia]. destruct (b0 <? 240) eqn:E2; [reflexivity | lia].
Qed.

Lemma classify3_more : forall b0 b1 b2, 240 <= b0 -> 128 <= b2 <= 191 -> classify [b0; b1; b2] = UMore.
Proof.
  intros b0 b1 b2 H H2. unfold classify, is_cont, in_rng.
  destruct ((128 <=? b2) && (b2 <=? 191)) eqn:E; [|lia]. destruct (b0 <? 240) eqn:E2; [lia | reflexivity].
Qed.

Lemma classify4_char : forall b0 b1 b2 b3, 128 <= b3 <= 191 ->
  classify [b0; b1; b2; b3] = UChar ((b0 - 240) * 262144 + (b1 - 128) * 4096 + (b2 - 128) * 64 + (b3 - 128)).
Proof.
  intros b0 b1 b2 b3 H. unfold classify, is_cont, in_rng.
  destruct ((128 <=? b3) && (b3 <=? 191)) eqn:E; [reflexivity | lia].
Qed.

Lemma u_strict_enc1 : forall c r, valid_cp c = true ->
  u_strict [] (utf8_enc1 c ++ r) = match u_strict [] r with Some (p, s) => Some (p, c :: s) | None => None end.
Proof.
  intros c r V. unfold valid_cp in V. unfold utf8_enc1.
  destruct (c <? 128) eqn:E1; [|destruct (c <? 2048) eqn:E2; [|destruct (c <? 65536) eqn:E3]]; cbn [app u_strict].
  - rewrite classify1_char by lia. reflexivity.
  - rewrite classify1_more by lia. cbn [app u_strict].
    rewrite classify2_char by (try apply second_ok_true; lia).
    replace ((192 + c / 64 - 192) * 64 + (128 + c mod 64 - 128)) with c by lia. reflexivity.
  - rewrite classify1_more by lia. cbn [app u_strict].
    rewrite classify2_more by (try apply second_ok_true; lia). cbn [app u_strict].
    rewrite classify3_char by lia.
    replace ((224 + c / 4096 - 224) * 4096 + (128 + (c / 64) mod 64 - 128) * 64 + (128 + c mod 64 - 128)) with c by lia.
    reflexivity.
  - rewrite classify1_more by lia. cbn [app u_strict].
    rewrite classify2_more by (try apply second_ok_true; lia). cbn [app u_strict].
    rewrite classify3_more by lia. cbn [app u_strict].
    rewrite classify4_char by lia.
    replace ((240 + c / 262144 - 240) * 262144 + (128 + (c / 4096) mod 64 - 128) * 4096
             + (128 + (c / 64) mod 64 - 128) * 64 + (128 + c mod 64 - 128)) with c by lia.
    reflexivity.
Qed.

Lemma u_strict_encode : forall s, forallb valid_cp s = true -> u_strict [] (utf8_encode s) = Some ([], s).
Proof.
  induction s as [|c s IH]; intros H; [reflexivity|]. cbn [forallb] in H. apply andb_true_iff in H.
  destruct H as [Hc Hs]. unfold utf8_encode in *. cbn [flat_map]. rewrite u_strict_enc1 by exact Hc.
  rewrite IH by exact Hs. reflexivity.
Qed.

(* where strict decoding succeeds, the replace decoder does exactly the same *)
Lemma more_not_sur : forall q, classify q = UMore -> sur_prefix q = false.
Proof.
  intros q H. destruct q as [|b0 [|b1 [|b2 q]]]; try reflexivity.
  unfold sur_prefix. unfold classify, second_ok in H. destruct (b0 =? 237) eqn:E; [|reflexivity].
  assert (E224 : (b0 =? 224) = false) by lia. rewrite E224 in H.
  unfold in_rng in *. destruct ((128 <=? b1) && (b1 <=? 159)) eqn:E2; [|discriminate].
  cbn [andb]. lia.
Qed.

Lemma strict_replace : forall bs p r, sur_prefix p = false -> u_strict p bs = Some r -> u_run p bs = r.
Proof.
  induction bs as [|b bs IH]; intros p r Hp H; cbn [u_strict u_run] in *.
  - inversion H. reflexivity.
  - assert (Hstep : forall q, classify (p ++ [b]) = q ->
              u_step p b = match q with
                           | UChar c => ([], [c])
                           | UMore => (p ++ [b], [])
                           | UBad => u_step p b
                           end).
    { intros q Hq. unfold u_step. destruct p as [|b0 p0].
      - unfold u_start. cbn [app] in Hq. rewrite Hq. destruct q; reflexivity.
      - rewrite Hp, Hq. destruct q; reflexivity. }
    destruct (classify (p ++ [b])) as [c| |] eqn:E; [| |discriminate].
    + rewrite (Hstep _ eq_refl).
      destruct (u_strict [] bs) as [[p' s]|] eqn:E2; [|discriminate]. inversion H; subst r.
      rewrite (IH [] (p', s) eq_refl E2). reflexivity.
    + rewrite (Hstep _ eq_refl). rewrite (IH (p ++ [b]) r (more_not_sur _ E) H). destruct r. reflexivity.
Qed.

Lemma u_run_encode : forall s, forallb valid_cp s = true -> u_run [] (utf8_encode s) = ([], s).
Proof. intros s H. apply strict_replace; [reflexivity | apply u_strict_encode; exact H]. Qed.

Theorem utf8_decode_encode : forall s, forallb valid_cp s = true -> utf8_decode (utf8_encode s) = s.
Proof. intros s H. unfold utf8_decode. rewrite u_run_encode by exact H. cbn [u_flush]. apply app_nil_r. Qed.

(* on well-formed streams (strict decoding succeeds) no U+FFFD is invented: replace = strict *)
Theorem utf8_wf_strict : forall bs p s, u_strict [] bs = Some (p, s) -> utf8_decode bs = s ++ u_flush p.
Proof. intros bs p s H. unfold utf8_decode. rewrite (strict_replace bs [] (p, s) eq_refl H). reflexivity. Qed.

(* byte level, any chunking: if the stream is the UTF-8 encoding of what the sender wrote, the events come back *)
Theorem sse_roundtrip : forall (py_int : str -> option Z),
  (forall ds, ds <> [] -> forallb is_digit ds = true -> py_int ds = Some (digits_val ds)) ->
  forall t k bs cs, guard bs = true ->
  utf8_decode (concat cs) = encode t k bs ->
  iter_sse py_int cs = spec_events bs /\
  iter_sse_events_text py_int cs = filter nonemptyb (map e_data (spec_events bs)).
Proof.
  intros py_int Hint t k bs cs G H.
  assert (E : iter_sse py_int cs = spec_events bs).
  { unfold iter_sse. rewrite aiter_lines_stream, H.
    apply (sse_roundtrip_text py_int Hint t k bs G). }
  split; [exact E|]. unfold iter_sse_events_text. rewrite E. unfold events_text. clear E.
  induction (spec_events bs) as [|e es IH]; [reflexivity|]. cbn [filter map].
  destruct (nonemptyb (e_data e)); cbn [map]; rewrite IH; reflexivity.
Qed.


(* with the encoder: for every chunking of the encoded bytes themselves *)
Theorem sse_roundtrip_bytes : forall (py_int : str -> option Z),
  (forall ds, ds <> [] -> forallb is_digit ds = true -> py_int ds = Some (digits_val ds)) ->
  forall t k bs cs, guard bs = true -> forallb valid_cp (encode t k bs) = true ->
  concat cs = utf8_encode (encode t k bs) ->
  iter_sse py_int cs = spec_events bs /\
  iter_sse_events_text py_int cs = filter nonemptyb (map e_data (spec_events bs)).
Proof.
  intros py_int Hint t k bs cs G V H. apply (sse_roundtrip py_int Hint t k bs cs G).
  rewrite H. apply utf8_decode_encode. exact V.
Qed.

(* NDJSON: one record per line, any of the three terminators, records come back in order *)
Theorem ndjson_roundtrip : forall (J : Type) (jl : str -> option J) (recs : list (str * J)) t cs,
  all_clean (map fst recs) ->
  (forall l j, In (l, j) recs -> strip l <> [] /\ jl (strip l) = Some j) ->
  utf8_decode (concat cs) = enc_lines t (map fst recs) ->
  iter_ndjson J jl cs = (map snd recs, false).
Proof.
  intros J jl recs t cs Hc Hj H. unfold iter_ndjson. rewrite aiter_lines_stream, H.
  rewrite splitlines_enc_lines by exact Hc. clear H Hc.
  induction recs as [|[l j] recs IH]; [reflexivity|]. cbn [map fst snd ndjson_of_lines].
  destruct (Hj l j (or_introl eq_refl)) as [Hne Hl].
  destruct (strip l) as [|c s] eqn:E; [contradiction|]. rewrite Hl.
  rewrite IH by (intros l' j' Hin; apply Hj; right; exact Hin). reflexivity.
Qed.

(* ---------- the int() hypothesis of the round-trip theorems is met by the ASCII model of int() ---------- *)
Lemma int_digits_all : forall ds acc prev, forallb is_digit ds = true -> (ds <> [] \/ prev = true) ->
  int_digits acc prev ds = Some (fold_left (fun a c => (10 * a + Z.of_N (c - 48))%Z) ds acc).
Proof.
  induction ds as [|c ds IH]; intros acc prev H Hne; cbn [int_digits fold_left].
  - destruct Hne as [Hne|Hp]; [contradiction | rewrite Hp; reflexivity].
  - cbn [forallb] in H. apply andb_true_iff in H. destruct H as [Hc Hds]. rewrite Hc.
    apply IH; [exact Hds | right; reflexivity].
Qed.

Lemma digit_not_cspace : forall c, is_digit c = true -> is_cspace c = false.
Proof. intros c H. unfold is_digit in H. unfold is_cspace. lia. Qed.

Lemma lstrip_c_digit : forall c s, is_digit c = true -> lstrip_c (c :: s) = c :: s.
Proof. intros c s H. cbn [lstrip_c]. rewrite (digit_not_cspace c H). reflexivity. Qed.

Lemma strip_c_digits : forall ds, forallb is_digit ds = true -> strip_c ds = ds.
Proof.
  intros ds H. unfold strip_c. destruct ds as [|c ds]; [reflexivity|].
  cbn [forallb] in H. apply andb_true_iff in H. destruct H as [Hc Hds].
  rewrite (lstrip_c_digit c ds Hc).
  assert (Hrev : forallb is_digit (rev (c :: ds)) = true).
  { apply forallb_forall. intros x Hx. apply in_rev in Hx. destruct Hx as [E|Hx]; [subst x; exact Hc|].
    rewrite forallb_forall in Hds. apply Hds. exact Hx. }
  destruct (rev (c :: ds)) as [|c' r'] eqn:E.
  - apply (f_equal (@rev N)) in E. rewrite rev_involutive in E. discriminate.
  - cbn [forallb] in Hrev. apply andb_true_iff in Hrev. destruct Hrev as [Hc' _].
    rewrite (lstrip_c_digit c' r' Hc'). rewrite <- E. apply rev_involutive.
Qed.

Theorem py_int_ascii_digits : forall ds, ds <> [] -> forallb is_digit ds = true ->
  py_int_ascii ds = Some (digits_val ds).
Proof.
  intros ds Hne H. unfold py_int_ascii. rewrite (strip_c_digits ds H).
  destruct ds as [|c ds]; [contradiction|].
  assert (Hc : is_digit c = true) by (cbn [forallb] in H; apply andb_true_iff in H; apply H).
  assert (E43 : (c =? 43) = false) by (unfold is_digit in Hc; lia).
  assert (E45 : (c =? 45) = false) by (unfold is_digit in Hc; lia).
  rewrite E43, E45. apply int_digits_all; [exact H | left; discriminate].
Qed.

Example py_int_ascii_examples :
  py_int_ascii [49; 95; 48] = Some 10%Z /\ py_int_ascii [43; 53; 32] = Some 5%Z /\ py_int_ascii [32; 45; 51; 9] = Some (-3)%Z /\
  py_int_ascii [49; 95; 95; 48] = None /\ py_int_ascii [95; 49] = None /\ py_int_ascii [49; 95] = None /\
  py_int_ascii [43; 32; 53] = None /\ py_int_ascii [45; 45; 53] = None /\ py_int_ascii [43] = None /\ py_int_ascii [] = None /\
  py_int_ascii [53; 31] = None /\ py_int_ascii [48; 120; 49; 48] = None /\ py_int_ascii [48; 48; 49; 50] = Some 12%Z.
Proof. repeat split; reflexivity. Qed.

(* ---------- non-vacuity ---------- *)
Definition bs_ok : list block :=
  [[IComment [32; 104; 105]; IEvent [109; 115; 103]; IData [104; 233; 108; 108; 111]; IData []; IData [8364; 58; 32; 120];
    IId [52; 50]; IRetry [51; 48; 48; 48]];
   [IData [128512]]].
Example guard_nonvacuous : guard bs_ok = true /\ length bs_ok = 2%nat.
Proof. split; reflexivity. Qed.

(* "data: e-acute" CRLF CRLF cut inside the two-byte character and between CR and LF *)
Definition cs_ok : list bytes := [[100; 97; 116; 97; 58; 32; 195]; [169; 13]; []; [10; 13]; [10]].
Example roundtrip_nonvacuous :
  guard [[IData [233]]] = true /\ utf8_decode (concat cs_ok) = encode CRLF TFull [[IData [233]]].
Proof. split; reflexivity. Qed.

Example chunking_matters_in_the_model :   (* the layers below really are chunk-sensitive: state is carried *)
  aiter_text cs_ok = [[100; 97; 116; 97; 58; 32]; [233; 13]; [10; 13]; [10]] /\
  fst (ld_fold ([], false) [[100; 97; 116; 97; 58; 32]; [233; 13]; [10; 13]; [10]]) = ([], false).
Proof. split; reflexivity. Qed.

(* ill-formed UTF-8: E2 28 A1 ("\xe2(\xa1") decodes to U+FFFD "(" U+FFFD however it is cut; a UTF-8-encoded surrogate
   ED A0 80 gives three U+FFFD, and CPython's "truncated surrogate" pending state is reproduced *)
Example ill_formed_examples :
  utf8_decode [226; 40; 161] = [65533; 40; 65533] /\
  aiter_text [[226]; [40; 161]] = [[65533; 40; 65533]] /\
  aiter_text [[226; 40]; [161]] = [[65533; 40]; [65533]] /\
  utf8_decode [237; 160; 128] = [65533; 65533; 65533] /\
  aiter_text [[237; 160]; [128]] = [[65533; 65533; 65533]] /\
  aiter_text [[237]; [160; 128]] = [[65533; 65533; 65533]] /\
  aiter_text [[237; 160; 128]] = [[65533; 65533; 65533]] /\
  aiter_text [[97; 237; 160]] = [[97]; [65533; 65533]] /\
  utf8_wf [226; 40; 161] = false /\ utf8_wf [240; 159; 152] = true.
Proof. repeat split; vm_compute; reflexivity. Qed.

(* ---------- refutations of the functional half on the faithful model ---------- *)
Definition bs_F18a : list block := [[IData [97; 8232; 98]]].      (* data: a<U+2028>b *)
Definition bs_F18b : list block := [[IData [32; 120]]].           (* data:  x  (payload " x") *)

Lemma refuted_F18a :
  guard_dom bs_F18a = true /\ guard_F18a bs_F18a = false /\
  forall py_int, sse_of_lines py_int (splitlines (encode LF TFull bs_F18a)) <> spec_events bs_F18a.
Proof. repeat split; try (vm_compute; reflexivity). intros py_int H. vm_compute in H. discriminate H. Qed.

(* F18c is fixed: ": keep-alive" blank "data: x" blank delivers exactly one event; a comment-only stream delivers none *)
Definition bs_F18c : list block := [[IComment [32; 107; 97]]; [IData [120]]].
Lemma regression_F18c : forall py_int,
  guard bs_F18c = true /\
  sse_of_lines py_int (splitlines (encode LF TFull bs_F18c)) = spec_events bs_F18c /\
  length (spec_events bs_F18c) = 1%nat /\
  sse_of_lines py_int (splitlines (encode CRLF TLine [[IComment []]])) = [].
Proof. intros py_int. repeat split; vm_compute; reflexivity. Qed.

(* F18b is fixed: the former witnesses (payload " x" sent as `data:  x`; TAB / NBSP / ideographic-space first) meet the
   guard and come back unchanged, for every int() *)
Definition bs_F18b_more : list block :=
  [[IData [9; 34; 97; 34]; IData [160; 110]; IEvent [32; 32; 101]; IId [12288]; IData [32]]].
Lemma regression_F18b : forall py_int,
  guard bs_F18b = true /\ guard bs_F18b_more = true /\
  sse_of_lines py_int (splitlines (encode LF TFull bs_F18b)) = map expected bs_F18b /\
  sse_of_lines py_int (splitlines (encode CRLF TNone bs_F18b_more)) = map expected bs_F18b_more /\
  e_data (hd (expected []) (map expected bs_F18b)) = [32; 120].
Proof. intros py_int. repeat split; vm_compute; reflexivity. Qed.

(* NDJSON: a record whose JSON text contains a raw U+2028 never reaches json.loads in one piece *)
Definition nd_line_F18a : str := [34; 97; 8232; 98; 34].           (* "a<U+2028>b" with its quotes *)
Definition jl_F18a (s : str) : option N := if str_eqb s nd_line_F18a then Some 1 else None.
Lemma refuted_F18a_ndjson :
  guard_nd_F18a [nd_line_F18a] = false /\ forallb no_crlf [nd_line_F18a] = true /\
  strip nd_line_F18a <> [] /\ jl_F18a (strip nd_line_F18a) = Some 1 /\
  ndjson_of_lines N jl_F18a (splitlines (enc_lines LF [nd_line_F18a])) = ([], true).
Proof. repeat split; try (vm_compute; reflexivity). vm_compute. discriminate. Qed.
