(* C18 — proofs about Model/Streaming.v *)
From PG Require Import Lib.Strs Model.Streaming.
From Coq Require Import Lia.

(* ---------- refutations of the functional half on the faithful model ---------- *)
Definition bs_F18a : list block := [[IData [97; 8232; 98]]].      (* data: a<U+2028>b *)
Definition bs_F18b : list block := [[IData [32; 120]]].           (* data:  x  (payload " x") *)

Lemma refuted_F18a :
  guard_dom bs_F18a = true /\ guard_F18a bs_F18a = false /\ guard_F18b bs_F18a = true /\
  forall py_int, sse_of_lines py_int (splitlines (encode LF TFull bs_F18a)) <> map expected bs_F18a.
Proof. repeat split; try (vm_compute; reflexivity). intros py_int H. vm_compute in H. discriminate H. Qed.

Lemma refuted_F18b :
  guard_dom bs_F18b = true /\ guard_F18a bs_F18b = true /\ guard_F18b bs_F18b = false /\
  forall py_int, sse_of_lines py_int (splitlines (encode LF TFull bs_F18b)) <> map expected bs_F18b.
Proof. repeat split; try (vm_compute; reflexivity). intros py_int H. vm_compute in H. discriminate H. Qed.
