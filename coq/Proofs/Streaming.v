(* C18 — proofs about Model/Streaming.v *)
From PG Require Import Lib.Strs Model.Streaming.
From Coq Require Import Lia.

(* ====================== A. the splitlines scanner ====================== *)
Lemma is_nl_13 : is_nl 13 = true. Proof. reflexivity. Qed.
Lemma is_nl_10 : is_nl 10 = true. Proof. reflexivity. Qed.

Lemma sl_run_app : forall a b st,
  sl_run st (a ++ b) =
  let '(st1, o1) := sl_run st a in let '(st2, o2) := sl_run st1 b in (st2, o1 ++ o2).
Proof.
  induction a as [|c a IH]; intros b st; cbn [sl_run app].
  - destruct (sl_run st b) as [st2 o2]. reflexivity.
  - destruct (sl_step st c) as [st1 o1]. rewrite IH.
    destruct (sl_run st1 a) as [st1' o1']. destruct (sl_run st1' b) as [st2 o2].
    rewrite app_assoc. reflexivity.
Qed.

(* prefixing the current line with [p] only changes the first line that comes out (or the state, if none does) *)
Definition glue (p : str) (r : slstate * list str) : slstate * list str :=
  match snd r with
  | [] => ((p ++ fst (fst r), snd (fst r)), [])
  | l :: ls => (fst r, (p ++ l) :: ls)
  end.

Lemma sl_step_glue : forall p cur cr c, sl_step (p ++ cur, cr) c = glue p (sl_step (cur, cr) c).
Proof.
  intros p cur cr c. unfold sl_step, glue.
  destruct cr; destruct (c =? 10); destruct (c =? 13); destruct (is_nl c); cbn; rewrite ?app_assoc; reflexivity.
Qed.

Lemma sl_run_glue : forall s p cur cr, sl_run (p ++ cur, cr) s = glue p (sl_run (cur, cr) s).
Proof.
  induction s as [|c s IH]; intros p cur cr; cbn [sl_run].
  - reflexivity.
  - rewrite sl_step_glue. unfold str, slstate in *. destruct (sl_step (cur, cr) c) as [[cur1 cr1] o1] eqn:E1.
    unfold glue at 1; cbn [fst snd]. destruct o1 as [|l ls].
    + rewrite IH. cbn [app]. unfold str, slstate in *. destruct (sl_run (cur1, cr1) s) as [[cur2 cr2] o2].
      unfold glue; cbn [fst snd app]. destruct o2; reflexivity.
    + destruct (sl_run (cur1, cr1) s) as [[cur2 cr2] o2]. reflexivity.
Qed.

Lemma sl_run_snoc : forall s c st,
  sl_run st (s ++ [c]) =
  let '(st1, o1) := sl_run st s in let '(st2, o2) := sl_step st1 c in (st2, o1 ++ o2).
Proof.
  intros s c st. rewrite sl_run_app. destruct (sl_run st s) as [st1 o1]. cbn [sl_run].
  destruct (sl_step st1 c) as [st2 o2]. rewrite app_nil_r. reflexivity.
Qed.

(* the state after a non-empty string, by its last character *)
Lemma sl_run_last : forall s c,
  let '(st, o) := sl_run ([], false) (s ++ [c]) in
  (c = 13 -> exists y, st = (y, true)) /\
  (c <> 13 -> is_nl c = true -> st = ([], false) /\ o <> []) /\
  (is_nl c = false -> exists y, y <> [] /\ st = (y, false)).
Proof.
  intros s c. rewrite sl_run_snoc. destruct (sl_run ([], false) s) as [[x cr1] o1].
  unfold sl_step. destruct (c =? 13) eqn:E13.
  - apply N.eqb_eq in E13. subst c. change (13 =? 10) with false. rewrite is_nl_13.
    destruct cr1; (split; [intros _; eexists; reflexivity | split; [congruence | discriminate]]).
  - apply N.eqb_neq in E13. destruct (is_nl c) eqn:Enl.
    + destruct cr1; destruct (c =? 10);
        (split; [congruence | split; [intros _ _; split; [reflexivity | destruct o1; discriminate] | discriminate]]).
    + assert (E10 : (c =? 10) = false).
      { destruct (c =? 10) eqn:E; [apply N.eqb_eq in E; subst c; rewrite is_nl_10 in Enl; discriminate | reflexivity]. }
      rewrite E10.
      destruct cr1; (split; [congruence | split; [discriminate | intros _; eexists; split; [|reflexivity]]]).
      * discriminate.
      * destruct x; discriminate.
Qed.

Lemma sl_run_glue0 : forall s p cr, sl_run (p, cr) s = glue p (sl_run ([], cr) s).
Proof. intros s p cr. rewrite <- (app_nil_r p) at 1. apply sl_run_glue. Qed.

(* ====================== B. LineDecoder simulates the scanner ====================== *)
Definition nonempty_all (buf : list str) : Prop := Forall (fun b => b <> []) buf.
Definition ld_abs (st : ldstate) : slstate := (concat (fst st), snd st).

Lemma match_cons : forall {A B} (l : list A) (x y : B),
  l <> [] -> match l with [] => x | _ :: _ => y end = y.
Proof. intros A B l x y H. destruct l; [contradiction | reflexivity]. Qed.

Lemma strip_cr_spec : forall text1 : str,
  let tcr2 := nonemptyb text1 && (last text1 0 =? 13) in
  let text2 := if tcr2 then removelast text1 else text1 in
  text1 = text2 ++ (if tcr2 then [13] else []) /\
  (tcr2 = false -> forall s c, text2 = s ++ [c] -> c <> 13).
Proof.
  intros text1. destruct text1 as [|c init _] using rev_ind.
  - cbn. split; [reflexivity|]. intros _ s c H. destruct s; discriminate.
  - cbv zeta. rewrite last_last.
    assert (Hn : nonemptyb (init ++ [c]) = true) by (destruct init; reflexivity).
    rewrite Hn. cbn [andb]. destruct (c =? 13) eqn:E.
    + apply N.eqb_eq in E; subst. rewrite removelast_last. split; [reflexivity | discriminate].
    + split; [rewrite app_nil_r; reflexivity|].
      intros _ s c' Hs. apply app_inj_tail in Hs. destruct Hs; subst. apply N.eqb_neq; assumption.
Qed.

Lemma ld_decode_sim : forall buf tcr text st' out,
  nonempty_all buf ->
  ld_decode (buf, tcr) text = (st', out) ->
  sl_run (concat buf, tcr) text = (ld_abs st', out) /\ nonempty_all (fst st').
Proof.
  intros buf tcr text st' out Hinv H.
  unfold ld_decode in H. cbv zeta in H.
  assert (H1 : sl_run (concat buf, tcr) text = sl_run (concat buf, false) (if tcr then 13 :: text else text)).
  { destruct tcr; [|reflexivity]. cbn [sl_run].
    change (sl_step (concat buf, false) 13) with ((concat buf, true), @nil str).
    unfold str, slstate in *. destruct (sl_run (concat buf, true) text). reflexivity. }
  rewrite H1. clear H1.
  destruct (strip_cr_spec (if tcr then 13 :: text else text)) as [Ht1 Hlast]. cbv zeta in Ht1, Hlast.
  unfold str, slstate, ldstate in *.
  remember (if tcr then 13 :: text else text) as text1 eqn:Etext1. clear Etext1.
  remember (nonemptyb text1 && (last text1 0 =? 13)) as tcr2 eqn:Etcr2. clear Etcr2.
  remember (if tcr2 then removelast text1 else text1) as text2 eqn:Etext2. clear Etext2.
  subst text1.
  destruct text2 as [|c init _] using rev_ind.
  - inversion H; subst st' out. cbn [app fst]. destruct tcr2; (split; [reflexivity | exact Hinv]).
  - rewrite match_cons in H by (destruct init; discriminate).
    rewrite last_last in H. unfold splitlines in H.
    rewrite sl_run_app, sl_run_glue0.
    pose proof (sl_run_last init c) as HL.
    unfold str, slstate, ldstate in *.
    destruct (sl_run ([], false) (init ++ [c])) as [[y cr2] o2].
    destruct HL as [HL13 [HLnl HLno]].
    assert (Hstep13 : forall cur, sl_run (cur, false) (if tcr2 then [13] else []) = ((cur, tcr2), @nil (list N))).
    { intros cur. destruct tcr2; reflexivity. }
    assert (Hglue : match buf with
                    | [] => o2 ++ sl_fin (y, cr2)
                    | _ :: _ => (concat buf ++ hd [] (o2 ++ sl_fin (y, cr2))) :: tl (o2 ++ sl_fin (y, cr2))
                    end = match o2 ++ sl_fin (y, cr2) with
                          | [] => []
                          | l :: ls => (concat buf ++ l) :: ls
                          end \/ o2 ++ sl_fin (y, cr2) = []).
    { destruct buf; [|destruct (o2 ++ sl_fin (y, cr2)); [right; reflexivity | left; reflexivity]].
      left. destruct (o2 ++ sl_fin (y, cr2)); reflexivity. }
    unfold str, slstate, ldstate in *.
    destruct (N.eq_dec c 13) as [E13|E13].
    + (* the text ended with "\r\r": the first of them is still in text2 *)
      destruct (HL13 E13) as [y0 Ey]. inversion Ey; subst y0 cr2 c. clear HL13 HLnl HLno Ey.
      rewrite is_nl_13 in H. cbn [negb andb sl_fin] in H. rewrite andb_false_r in H.
      destruct tcr2; [|exfalso; eapply Hlast; [reflexivity | reflexivity | reflexivity]].
      destruct Hglue as [Hglue|Hnil]; [|destruct o2; discriminate].
      cbn [sl_fin] in Hglue. rewrite Hglue in H. clear Hglue.
      inversion H; subst st' out. unfold ld_abs, glue; cbn [fst snd concat].
      destruct o2 as [|l ls]; cbn [app fst snd]; (split; [reflexivity | constructor]).
    + destruct (is_nl c) eqn:Enl.
      * destruct (HLnl E13 eq_refl) as [Ey Ho2]. inversion Ey; subst y cr2. clear HL13 HLnl HLno Ey.
        cbn [negb andb sl_fin] in H. rewrite andb_false_r in H. rewrite app_nil_r in *.
        destruct Hglue as [Hglue|Hnil]; [|contradiction].
        rewrite Hglue in H. clear Hglue. inversion H; subst st' out.
        destruct o2 as [|l ls]; [contradiction|].
        unfold ld_abs, glue; cbn [fst snd concat]. rewrite Hstep13. cbn [fst snd concat]. rewrite app_nil_r.
        split; [reflexivity | constructor].
      * destruct (HLno eq_refl) as [y0 [Hy0 Ey]]. inversion Ey; subst y0 cr2. clear HL13 HLnl HLno Ey.
        assert (Hfin : sl_fin (y, false) = [y]) by (destruct y; [contradiction | reflexivity]).
        rewrite Hfin in *. cbn [negb] in H. rewrite andb_true_r in H.
        destruct o2 as [|l ls].
        -- cbn [app length hd] in H. cbn [Nat.eqb] in H. inversion H; subst st' out.
          unfold ld_abs, glue; cbn [fst snd]. rewrite Hstep13. cbn [fst snd]. rewrite concat_app. cbn [concat].
          rewrite !app_nil_r. split; [reflexivity|].
          apply Forall_app. split; [exact Hinv | constructor; [exact Hy0 | constructor]].
        -- destruct Hglue as [Hglue|Hnil]; [|discriminate].
          rewrite Hglue in H. clear Hglue.
          assert (Hlen : (length ((l :: ls) ++ [y]) =? 1)%nat = false).
          { rewrite app_length. cbn [length]. destruct (length ls); cbn; reflexivity. }
          rewrite Hlen in H. cbn [app] in H.
          change ((concat buf ++ l) :: ls ++ [y]) with (((concat buf ++ l) :: ls) ++ [y]) in H.
          rewrite last_last, removelast_last in H. inversion H; subst st' out.
          unfold ld_abs, glue; cbn [fst snd]. rewrite Hstep13. cbn [fst snd concat]. rewrite !app_nil_r.
          split; [reflexivity | constructor; [exact Hy0 | constructor]].
Qed.

Lemma ld_fold_sim : forall ts buf tcr st' out,
  nonempty_all buf ->
  ld_fold (buf, tcr) ts = (st', out) ->
  sl_run (concat buf, tcr) (concat ts) = (ld_abs st', out) /\ nonempty_all (fst st').
Proof.
  induction ts as [|t ts IH]; intros buf tcr st' out Hinv H; cbn [ld_fold concat] in *.
  - inversion H; subst. split; [reflexivity | exact Hinv].
  - destruct (ld_decode (buf, tcr) t) as [[buf1 tcr1] o1] eqn:E1.
    destruct (ld_fold (buf1, tcr1) ts) as [st2 o2] eqn:E2.
    inversion H; subst st' out. clear H.
    destruct (ld_decode_sim _ _ _ _ _ Hinv E1) as [S1 I1]. cbn [fst] in I1.
    destruct (IH _ _ _ _ I1 E2) as [S2 I2].
    rewrite sl_run_app. unfold str, slstate, ldstate in *. rewrite S1. unfold ld_abs at 1. cbn [fst snd].
    rewrite S2. split; [reflexivity | exact I2].
Qed.

Lemma ld_flush_fin : forall st, nonempty_all (fst st) -> ld_flush st = sl_fin (ld_abs st).
Proof.
  intros [buf tcr] Hinv. unfold ld_flush, sl_fin, ld_abs. cbn [fst snd] in *.
  destruct tcr; [rewrite andb_false_r; reflexivity|]. rewrite andb_true_r.
  destruct buf as [|b bs]; [reflexivity|]. cbn [nonemptyb negb].
  inversion Hinv as [|? ? Hb _]; subst. destruct b; [contradiction | reflexivity].
Qed.

(* Theorem 1: the LineDecoder fed any sequence of text chunks (empty ones included) yields exactly
   str.splitlines of their concatenation *)
Theorem ld_chunk_independent : forall ts, ld_run ts = splitlines (concat ts).
Proof.
  intros ts. unfold ld_run, splitlines.
  destruct (ld_fold ([], false) ts) as [st' out] eqn:E.
  destruct (ld_fold_sim ts [] false st' out (Forall_nil _) E) as [S I].
  cbn [concat] in S. unfold str, slstate, ldstate in *. rewrite S. rewrite ld_flush_fin by exact I. reflexivity.
Qed.

(* ====================== C. UTF-8 ====================== *)
Lemma u_run_app : forall a b p,
  u_run p (a ++ b) =
  match u_run p a with
  | None => None
  | Some (p1, s1) => match u_run p1 b with
                     | None => None
                     | Some (p2, s2) => Some (p2, s1 ++ s2)
                     end
  end.
Proof.
  induction a as [|x a IH]; intros b p; cbn [u_run app].
  - destruct (u_run p b) as [[p2 s2]|]; reflexivity.
  - destruct (classify (p ++ [x])).
    + rewrite IH. destruct (u_run [] a) as [[p1 s1]|]; [|reflexivity].
      destruct (u_run p1 b) as [[p2 s2]|]; reflexivity.
    + apply IH.
    + reflexivity.
Qed.

Definition utf8_from (p : bytes) (bs : bytes) : option str :=
  match u_run p bs with Some (p', s) => Some (s ++ u_flush p') | None => None end.

Lemma text_chunker_concat : forall t, concat (text_chunker t) = t.
Proof. destruct t; [reflexivity | cbn; rewrite app_nil_r; reflexivity]. Qed.

Lemma text_run_concat : forall cs p,
  option_map (@concat N) (text_run p cs) = utf8_from p (concat cs).
Proof.
  induction cs as [|c cs IH]; intros p; cbn [text_run concat].
  - unfold utf8_from. cbn [u_run option_map]. rewrite text_chunker_concat. reflexivity.
  - unfold utf8_from. rewrite u_run_app. destruct (u_run p c) as [[p1 t]|]; [|reflexivity].
    specialize (IH p1). unfold utf8_from in IH.
    destruct (text_run p1 cs) as [ts|]; cbn [option_map] in *.
    + destruct (u_run p1 (concat cs)) as [[p2 s2]|]; [|discriminate].
      inversion IH as [IH']. rewrite concat_app, text_chunker_concat, IH', app_assoc. reflexivity.
    + destruct (u_run p1 (concat cs)) as [[p2 s2]|]; [discriminate | reflexivity].
Qed.

Theorem iter_bytes_concat : forall cs, concat (iter_bytes cs) = concat cs.
Proof.
  induction cs as [|c cs IH]; [reflexivity|]. unfold iter_bytes in *. cbn [filter].
  destruct c; cbn [nonemptyb concat app]; [exact IH | rewrite IH; reflexivity].
Qed.

(* Theorem 2: the text chunks produced for any chunking concatenate to the decoding of the whole stream
   (in particular, well-formedness is a property of the stream, not of the chunking) *)
Theorem utf8_chunk_independent : forall cs,
  option_map (@concat N) (aiter_text cs) = utf8_decode (concat cs).
Proof.
  intros cs. unfold aiter_text. rewrite text_run_concat, iter_bytes_concat. reflexivity.
Qed.

(* ====================== D. the iterators depend on the stream only ====================== *)
Theorem aiter_lines_stream : forall cs,
  aiter_lines cs = option_map splitlines (utf8_decode (concat cs)).
Proof.
  intros cs. unfold aiter_lines. rewrite <- utf8_chunk_independent.
  destruct (aiter_text cs) as [ts|]; cbn [option_map]; [rewrite ld_chunk_independent|]; reflexivity.
Qed.

Section Indep.
  Variable py_int : str -> option Z.
  Variable J : Type.
  Variable json_loads : str -> option J.

  Theorem lines_indep : forall cs1 cs2, concat cs1 = concat cs2 -> aiter_lines cs1 = aiter_lines cs2.
  Proof. intros cs1 cs2 H. rewrite !aiter_lines_stream, H. reflexivity. Qed.

  Theorem sse_indep : forall cs1 cs2, concat cs1 = concat cs2 -> iter_sse py_int cs1 = iter_sse py_int cs2.
  Proof. intros cs1 cs2 H. unfold iter_sse. rewrite (lines_indep _ _ H). reflexivity. Qed.

  Theorem sse_text_indep : forall cs1 cs2, concat cs1 = concat cs2 ->
    iter_sse_events_text py_int cs1 = iter_sse_events_text py_int cs2.
  Proof. intros cs1 cs2 H. unfold iter_sse_events_text. rewrite (sse_indep _ _ H). reflexivity. Qed.

  Theorem ndjson_indep : forall cs1 cs2, concat cs1 = concat cs2 ->
    iter_ndjson J json_loads cs1 = iter_ndjson J json_loads cs2.
  Proof. intros cs1 cs2 H. unfold iter_ndjson. rewrite (lines_indep _ _ H). reflexivity. Qed.

  (* in terms of the unsplit stream: what comes out for any chunking is what comes out for [whole] *)
  Theorem sse_whole : forall cs, iter_sse py_int cs = iter_sse py_int [concat cs].
  Proof. intros cs. apply sse_indep. cbn [concat]. rewrite app_nil_r. reflexivity. Qed.
End Indep.

(* ---------- refutations of the functional half on the faithful model ---------- *)
Definition bs_F18a : list block := [[IData [97; 8232; 98]]].      (* data: a<U+2028>b *)
Definition bs_F18b : list block := [[IData [32; 120]]].           (* data:  x  (payload " x") *)

Lemma refuted_F18a :
  guard_dom bs_F18a = true /\ guard_F18a bs_F18a = false /\ guard_F18b bs_F18a = true /\
  forall py_int, sse_of_lines py_int (splitlines (encode LF TFull bs_F18a)) <> map expected bs_F18a.
Proof. repeat split; try (vm_compute; reflexivity). intros py_int H. vm_compute in H. discriminate H. Qed.

Lemma refuted_F18b :
  guard_dom bs_F18b = true /\ guard_F18a bs_F18b = true /\ guard_F18b bs_F18b = false /\
  forall py_int, sse_of_lines py_int (splitlines (encode LF TFull bs_F18b)) <> map expected bs_F18b.
Proof. repeat split; try (vm_compute; reflexivity). intros py_int H. vm_compute in H. discriminate H. Qed.
