(* C09 — proofs about Model/Diff.v *)
From PG Require Import Lib.Strs Model.Sites Model.Diff Proofs.Sites.
From Coq Require Import Permutation.

(* ---------- reflection of the boolean equalities ---------- *)
Lemma list_eqb_eq : forall {A} (eqb : A -> A -> bool),
  (forall a b, eqb a b = true <-> a = b) -> forall l1 l2, list_eqb eqb l1 l2 = true <-> l1 = l2.
Proof.
  intros A eqb H. induction l1 as [|x l1 IH]; destruct l2 as [|y l2]; simpl; split; intro E;
    try reflexivity; try discriminate.
  - apply andb_true_iff in E. destruct E as [E1 E2]. apply H in E1. apply IH in E2. subst. reflexivity.
  - inversion E; subst. apply andb_true_iff. split; [apply H; reflexivity | apply IH; reflexivity].
Qed.

Lemma path_eqb_eq : forall p q, path_eqb p q = true <-> p = q.
Proof. apply list_eqb_eq. apply str_eqb_eq. Qed.
Lemma path_eqb_refl : forall p, path_eqb p p = true.
Proof. intro p. apply path_eqb_eq. reflexivity. Qed.
Lemma codes_eqb_eq : forall a b, codes_eqb a b = true <-> a = b.
Proof. apply list_eqb_eq. intros a b. apply N.eqb_eq. Qed.

Lemma pair_eqb_eq : forall {A B} (ea : A -> A -> bool) (eb : B -> B -> bool),
  (forall a b, ea a b = true <-> a = b) -> (forall a b, eb a b = true <-> a = b) ->
  forall x y, pair_eqb ea eb x y = true <-> x = y.
Proof.
  intros A B ea eb Ha Hb [a1 b1] [a2 b2]. unfold pair_eqb. simpl. rewrite andb_true_iff, Ha, Hb.
  split; [intros [-> ->]; reflexivity | intro E; inversion E; auto].
Qed.

Lemma registry_eqb_eq : forall a b, registry_eqb a b = true <-> a = b.
Proof. apply list_eqb_eq. apply pair_eqb_eq; [apply str_eqb_eq | apply codes_eqb_eq]. Qed.

Lemma content_eqb_eq : forall a b, content_eqb a b = true <-> a = b.
Proof.
  intros a b. destruct a, b; simpl; try (split; [discriminate | discriminate]); try tauto.
  - rewrite str_eqb_eq. split; [intros ->; reflexivity | intro E; inversion E; reflexivity].
  - rewrite codes_eqb_eq. split; [intros ->; reflexivity | intro E; inversion E; reflexivity].
  - rewrite codes_eqb_eq. split; [intros ->; reflexivity | intro E; inversion E; reflexivity].
  - rewrite registry_eqb_eq. split; [intros ->; reflexivity | intro E; inversion E; reflexivity].
  - rewrite (list_eqb_eq str_eqb str_eqb_eq). split; [intros ->; reflexivity | intro E; inversion E; reflexivity].
  - rewrite (list_eqb_eq str_eqb str_eqb_eq). split; [intros ->; reflexivity | intro E; inversion E; reflexivity].
  - rewrite N.eqb_eq. split; [intros ->; reflexivity | intro E; inversion E; reflexivity].
Qed.
Lemma content_eqb_refl : forall a, content_eqb a a = true.
Proof. intro a. apply content_eqb_eq. reflexivity. Qed.

(* ---------- lookup ---------- *)
Lemma tlookup_In : forall {C} p (t : list (path * C)) c, tlookup p t = Some c -> In (p, c) t.
Proof.
  induction t as [|[q c'] t IH]; simpl; intros c H; [discriminate|].
  destruct (path_eqb p q) eqn:E.
  - apply path_eqb_eq in E. inversion H; subst. left. reflexivity.
  - right. apply IH. exact H.
Qed.

Lemma In_tlookup : forall {C} p (t : list (path * C)) c, In (p, c) t -> exists c', tlookup p t = Some c'.
Proof.
  induction t as [|[q c'] t IH]; simpl; intros c H; [contradiction|].
  destruct (path_eqb p q) eqn:E; [eexists; reflexivity|].
  destruct H as [H|H].
  - inversion H; subst. rewrite path_eqb_refl in E. discriminate.
  - eapply IH. exact H.
Qed.

Lemma mem_path_In : forall p l, mem_path p l = true <-> In p l.
Proof.
  intros p l. unfold mem_path. rewrite existsb_exists. split.
  - intros [q [Hq E]]. apply path_eqb_eq in E. subst. exact Hq.
  - intro H. exists p. split; [exact H | apply path_eqb_refl].
Qed.

Lemma wf_lookup_gen : forall {C} (t : list (path * C)) p c, wf_tree t = true -> In (p, c) t -> tlookup p t = Some c.
Proof.
  intros C. unfold wf_tree, paths_of. induction t as [|[q c'] t IH]; intros p c Hwf Hin; [contradiction|].
  simpl in Hwf. apply andb_true_iff in Hwf. destruct Hwf as [Hn Hw]. simpl.
  destruct Hin as [Hin|Hin].
  - inversion Hin; subst. rewrite path_eqb_refl. reflexivity.
  - destruct (path_eqb p q) eqn:E.
    + apply path_eqb_eq in E. subst q. apply negb_true_iff in Hn.
      assert (X : mem_path p (map fst t) = true) by (apply mem_path_In; apply in_map_iff; exists (p, c); auto).
      congruence.
    + apply IH; assumption.
Qed.

Lemma Permutation_filter' : forall {A} (f : A -> bool) l1 l2, Permutation l1 l2 -> Permutation (filter f l1) (filter f l2).
Proof.
  intros A f l1 l2 H. induction H; simpl.
  - constructor.
  - destruct (f x); [constructor|]; assumption.
  - destruct (f x), (f y); try apply Permutation_refl. apply perm_swap.
  - eapply Permutation_trans; eassumption.
Qed.

Lemma mem_path_lookup : forall {C} p (t : list (path * C)),
  mem_path p (paths_of t) = false <-> tlookup p t = None.
Proof.
  intros C p t. induction t as [|[q c] t IH]; simpl; [tauto|].
  unfold mem_path in *. simpl. destruct (path_eqb p q); simpl; [split; discriminate | exact IH].
Qed.

Lemma differing_nil : forall {C} (same : C -> C -> bool) old new,
  show_diffs_g same old new = false ->
  filter (file_differs same old) new = [] /\ old_only old new = [].
Proof.
  intros C same old new H. unfold show_diffs_g, differing_g in H.
  destruct (map fst (filter (file_differs same old) new) ++ map fst (old_only old new)) eqn:E; [|discriminate].
  apply app_eq_nil in E. destruct E as [E1 E2]. apply map_eq_nil in E1. apply map_eq_nil in E2. auto.
Qed.

Lemma filter_nil_In : forall {A} (f : A -> bool) l, filter f l = [] -> forall x, In x l -> f x = false.
Proof.
  intros A f l H x Hx. destruct (f x) eqn:E; [|reflexivity].
  assert (X : In x (filter f l)) by (apply filter_In; auto). rewrite H in X. contradiction.
Qed.

(* FULL (no guard since the fix of F09b/F09f): no differences reported => the *.py files of the existing
   tree are exactly the *.py files that would be generated now, byte for byte *)
Theorem diff_sound_py : forall old new,
  show_diffs old new = false -> forall p, is_py p = true -> tlookup p old = tlookup p new.
Proof.
  intros old new H p Hpy. apply differing_nil in H. destruct H as [Hn Ho].
  destruct (tlookup p new) as [c|] eqn:En.
  - pose proof (filter_nil_In _ _ Hn _ (tlookup_In _ _ _ En)) as F.
    unfold file_differs in F. simpl in F. rewrite Hpy in F. simpl in F.
    destruct (tlookup p old) as [c'|]; [|discriminate].
    apply negb_false_iff in F. apply str_eqb_eq in F. subst. reflexivity.
  - destruct (tlookup p old) as [c'|] eqn:Eo; [|reflexivity]. exfalso.
    pose proof (filter_nil_In _ _ Ho _ (tlookup_In _ _ _ Eo)) as F. simpl in F. rewrite Hpy in F. simpl in F.
    apply negb_false_iff in F. apply mem_path_lookup in En. congruence.
Qed.

Theorem diff_sound_py_files : forall old new,
  show_diffs old new = false -> forall p, tlookup p (py_files old) = tlookup p (py_files new).
Proof.
  intros old new H p.
  assert (L : forall (t : tree) q, tlookup q (py_files t) = if is_py q then tlookup q t else None).
  { induction t as [|[r c] t IH]; intro q; simpl; [destruct (is_py q); reflexivity|].
    destruct (is_py r) eqn:Er; simpl.
    - destruct (path_eqb q r) eqn:E; [apply path_eqb_eq in E; subst; rewrite Er; reflexivity | apply IH].
    - rewrite IH. destruct (path_eqb q r) eqn:E; [apply path_eqb_eq in E; subst; rewrite Er; reflexivity | reflexivity]. }
  rewrite !L. destruct (is_py p) eqn:Hpy; [apply diff_sound_py; assumption | reflexivity].
Qed.

Lemma sub_nonpy_lookup : forall a b, sub_nonpy a b = true ->
  forall p c, is_py p = false -> tlookup p a = Some c -> tlookup p b = Some c.
Proof.
  intros a b H p c Hpy Ha. unfold sub_nonpy in H. rewrite forallb_forall in H.
  specialize (H _ (tlookup_In _ _ _ Ha)). simpl in H. rewrite Hpy in H. simpl in H.
  destruct (tlookup p b) as [c'|]; [|discriminate]. apply str_eqb_eq in H. subst. reflexivity.
Qed.

(* whole trees under the one remaining guard (non-*.py files are still not compared: F09g) *)
Theorem diff_sound_partial : forall old new,
  guard_F09g old new = true -> show_diffs old new = false -> forall p, tlookup p old = tlookup p new.
Proof.
  intros old new Gg H p.
  destruct (is_py p) eqn:Hpy; [apply diff_sound_py; assumption|].
  unfold guard_F09g in Gg. apply andb_true_iff in Gg. destruct Gg as [G1 G2].
  destruct (tlookup p old) as [c|] eqn:Eo.
  - symmetry. eapply sub_nonpy_lookup; eauto.
  - destruct (tlookup p new) as [c|] eqn:En; [|reflexivity].
    pose proof (sub_nonpy_lookup _ _ G2 _ _ Hpy En). congruence.
Qed.

(* an up-to-date tree is never reported as different *)
Lemma show_diffs_complete : forall old new,
  (forall p, tlookup p old = tlookup p new) -> wf_tree new = true -> show_diffs old new = false.
Proof.
  intros old new Heq Hwf. unfold show_diffs, show_diffs_g, differing_g.
  assert (F1 : filter (file_differs str_eqb old) new = []).
  { assert (A : forall l, (forall x, In x l -> In x new) -> filter (file_differs str_eqb old) l = []).
    { induction l as [|[p c] l IH]; intro Hsub; [reflexivity|]. simpl.
      assert (L : tlookup p new = Some c).
      { assert (Hin : In (p, c) new) by (apply Hsub; left; reflexivity).
        clear -Hin Hwf. unfold wf_tree, paths_of in Hwf. induction new as [|[q c'] t IHt]; [contradiction|].
        simpl in Hwf. apply andb_true_iff in Hwf. destruct Hwf as [Hn Hw]. simpl.
        destruct Hin as [Hin|Hin].
        - inversion Hin; subst. rewrite path_eqb_refl. reflexivity.
        - destruct (path_eqb p q) eqn:E.
          + apply path_eqb_eq in E. subst q. apply negb_true_iff in Hn.
            assert (X : mem_path p (map fst t) = true) by (apply mem_path_In; apply in_map_iff; exists (p, c); auto).
            congruence.
          + apply IHt; assumption. }
      unfold file_differs at 1. simpl. rewrite Heq, L, str_eqb_refl. simpl. rewrite andb_false_r.
      apply IH. intros x Hx. apply Hsub. right. exact Hx. }
    apply A. auto. }
  assert (F2 : old_only old new = []).
  { unfold old_only.
    assert (A : forall l, (forall x, In x l -> In x old) ->
                filter (fun pc : path * str => is_py (fst pc) && negb (mem_path (fst pc) (paths_of new))) l = []).
    { induction l as [|[p c] l IH]; intro Hsub; [reflexivity|]. simpl.
      destruct (In_tlookup _ _ _ (Hsub _ (or_introl eq_refl))) as [c' Ec]. rewrite Heq in Ec.
      destruct (mem_path p (paths_of new)) eqn:Em.
      - simpl. rewrite andb_false_r. apply IH. intros x Hx. apply Hsub. right. exact Hx.
      - apply mem_path_lookup in Em. congruence. }
    apply A. auto. }
  rewrite F1, F2. reflexivity.
Qed.

(* ---------- regression: the witnesses of the fixed F09b / F09f are now reported ---------- *)
Definition p_client : path := [[99;108;105;101;110;116;46;112;121]].          (* client.py *)
Definition p_models_a : path := [[109;111;100;101;108;115]; [97;46;112;121]].  (* models/a.py *)
Definition p_stale : path := [[109;111;100;101;108;115]; [115;46;112;121]].    (* models/s.py *)
Definition p_typed : path := [[112;121;46;116;121;112;101;100]].              (* py.typed *)
Definition t_a1 : str := [97;32;61;32;49;10].        (* "a = 1\n" *)
Definition t_a1_crlf : str := [97;32;61;32;49;13;10]. (* "a = 1\r\n" *)
Definition t_a1_nonl : str := [97;32;61;32;49].       (* "a = 1" *)

Definition old_F09b : tree := [(p_client, t_a1); (p_stale, t_a1)].
Definition new_F09b : tree := [(p_client, t_a1); (p_models_a, t_a1)].
Definition old_F09f : tree := [(p_client, t_a1_crlf); (p_models_a, t_a1_nonl)].
Definition new_F09f : tree := [(p_client, t_a1); (p_models_a, t_a1)].
Lemma regression_F09b_F09f :
  show_diffs old_F09b new_F09b = true /\ differing_g str_eqb old_F09b new_F09b = [p_models_a; p_stale] /\
  show_diffs [(p_client, t_a1)] new_F09b = true /\ show_diffs old_F09b [(p_client, t_a1)] = true /\
  show_diffs old_F09f new_F09f = true /\ differing_g str_eqb old_F09f new_F09f = [p_client; p_models_a].
Proof. repeat split; vm_compute; reflexivity. Qed.

Definition old_F09g : tree := [(p_client, t_a1); (p_typed, t_a1)].
Definition new_F09g : tree := [(p_client, t_a1); (p_typed, [])].
Lemma refuted_F09g :
  guard_F09g old_F09g new_F09g = false /\
  show_diffs old_F09g new_F09g = false /\ tlookup p_typed old_F09g <> tlookup p_typed new_F09g.
Proof. repeat split; try (vm_compute; reflexivity). vm_compute. discriminate. Qed.

Lemma guard_diff_nonvacuous :
  guard_F09g new_F09b new_F09b = true /\ show_diffs new_F09b new_F09b = false /\
  guard_F09g old_F09b [(p_client, t_a1 ++ t_a1); (p_stale, t_a1)] = true /\
  show_diffs old_F09b [(p_client, t_a1 ++ t_a1); (p_stale, t_a1)] = true.
Proof. repeat split; vm_compute; reflexivity. Qed.

(* ================================================================================================
   de-duplication: no collision => nothing changes (hence idempotent) *)
Section DedupFacts.
  Variable san : str -> str.

  Lemma dedup_go_nodup : forall ids used,
    nodupb (map san ids) = true ->
    (forall i, In i ids -> mem_str (san i) used = false) ->
    dedup_go san used ids = ids.
  Proof.
    induction ids as [|i r IH]; intros used Hnd Hfresh; simpl; [reflexivity|].
    simpl in Hnd. apply andb_true_iff in Hnd. destruct Hnd as [Hni Hnd].
    rewrite (Hfresh i (or_introl eq_refl)). f_equal. apply IH; [exact Hnd|].
    intros j Hj. simpl. rewrite (Hfresh j (or_intror Hj)), orb_false_r.
    apply negb_true_iff in Hni. destruct (str_eqb (san j) (san i)) eqn:E; [|reflexivity].
    apply str_eqb_eq in E.
    assert (X : mem_str (san i) (map san r) = true) by (apply mem_str_In; rewrite <- E; apply in_map; exact Hj).
    congruence.
  Qed.

  (* no collision => the pass changes nothing; in particular it is the identity on its own (collision-free) output *)
  Lemma dedup_ops_nodup : forall ids, nodupb (map san ids) = true -> dedup_ops san ids = ids.
  Proof. intros ids H. unfold dedup_ops. apply dedup_go_nodup; [exact H | intros; reflexivity]. Qed.

  (* ---------- the two paths agree under the guard ---------- *)
  Lemma reg_set_idem : forall k v r, reg_set k v (reg_set k v r) = reg_set k v r.
  Proof.
    induction r as [|[k' v'] r IH]; simpl.
    - rewrite str_eqb_refl. reflexivity.
    - destruct (str_eqb k k') eqn:E; simpl; rewrite E; [reflexivity | rewrite IH; reflexivity].
  Qed.

  Lemma path_eqb_snoc : forall (p : path) a b, path_eqb (p ++ [a]) (p ++ [b]) = str_eqb a b.
  Proof.
    unfold path_eqb. induction p as [|x p IH]; intros a b; simpl.
    - rewrite andb_true_r. reflexivity.
    - rewrite str_eqb_refl. simpl. apply IH.
  Qed.

  (* the registry the force run leaves in the core directory is what the next non-force run reads *)
  Lemma registry_after_force : forall g found,
    exceptions_emit g (existing_registry g (tree_force san g found)) =
    exceptions_emit g (if core_inside_out g then [] else found).
  Proof.
    intros g found. unfold existing_registry, tree_force. cbv zeta.
    set (f' := if core_inside_out g then [] else found).
    unfold exceptions_emit. destruct (g_shared g) eqn:Es; [|reflexivity].
    unfold emitted. cbn [app tlookup fst snd].
    rewrite !path_eqb_snoc.
    replace (str_eqb s_registry_json s_aliases_py) with false by (vm_compute; reflexivity).
    replace (str_eqb s_registry_json s_init) with false by (vm_compute; reflexivity).
    replace (str_eqb s_registry_json s_exceptions_py) with false by (vm_compute; reflexivity).
    replace (str_eqb s_registry_json s_py_typed) with false by (vm_compute; reflexivity).
    rewrite str_eqb_refl. rewrite reg_set_idem. reflexivity.
  Qed.

  (* FULL since the fixes of F09c / F09d: the tree the force path writes is the tree the temp-dir path
     regenerates from the registry that force run left behind ([dedup_total] = fuel adequacy of the model) *)
  Theorem modes_agree : forall g found,
    dedup_total san g = true ->
    tree_force san g found = tree_temp san g (existing_registry g (tree_force san g found)).
  Proof.
    intros g found Hd. unfold tree_temp. rewrite registry_after_force.
    unfold tree_force. cbv zeta.
    unfold dedup_total in Hd. rewrite (dedup_ops_nodup _ Hd). reflexivity.
  Qed.

  (* ---------- rerun ---------- *)
  Lemma wf_lookup_self : forall (t : atree) p c, wf_tree t = true -> In (p, c) t -> tlookup p t = Some c.
  Proof.
    unfold wf_tree, paths_of. induction t as [|[q c'] t IH]; intros p c Hwf Hin; [contradiction|].
    simpl in Hwf. apply andb_true_iff in Hwf. destruct Hwf as [Hn Hw]. simpl.
    destruct Hin as [Hin|Hin].
    - inversion Hin; subst. rewrite path_eqb_refl. reflexivity.
    - destruct (path_eqb p q) eqn:E.
      + apply path_eqb_eq in E. subst q. apply negb_true_iff in Hn.
        assert (X : mem_path p (map fst t) = true) by (apply mem_path_In; apply in_map_iff; exists (p, c); auto).
        congruence.
      + apply IH; assumption.
  Qed.

  Lemma wf_filter : forall (f : path * content -> bool) (t : atree), wf_tree t = true -> wf_tree (filter f t) = true.
  Proof.
    unfold wf_tree, paths_of. induction t as [|[q c] t IH]; intro H; [reflexivity|].
    simpl in H. apply andb_true_iff in H. destruct H as [Hn Hw]. simpl.
    destruct (f (q, c)); [|apply IH; exact Hw]. simpl. rewrite (IH Hw), andb_true_r.
    apply negb_true_iff. apply negb_true_iff in Hn.
    destruct (mem_path q (map fst (filter f t))) eqn:E; [|reflexivity].
    apply mem_path_In in E. apply in_map_iff in E. destruct E as [[q' c'] [E1 E2]]. simpl in E1. subst q'.
    apply filter_In in E2. destruct E2 as [E2 _].
    assert (X : mem_path q (map fst t) = true) by (apply mem_path_In; apply in_map_iff; exists (q, c'); auto).
    congruence.
  Qed.

  Lemma differing_self : forall t : atree, wf_tree t = true -> differing_g content_eqb t t = [].
  Proof.
    intros t Hwf. unfold differing_g.
    assert (F : filter (file_differs content_eqb t) t = []).
    { assert (A : forall l, (forall x, In x l -> In x t) -> filter (file_differs content_eqb t) l = []).
      { induction l as [|[p c] l IH]; intro Hsub; [reflexivity|]. simpl.
        unfold file_differs at 1. simpl. rewrite (wf_lookup_self t p c Hwf (Hsub _ (or_introl eq_refl))).
        rewrite content_eqb_refl. simpl. rewrite andb_false_r. apply IH. intros x Hx. apply Hsub. right. exact Hx. }
      apply A. auto. }
    assert (G : old_only t t = []).
    { unfold old_only.
      assert (A : forall l, (forall x, In x l -> In x t) ->
                  filter (fun pc : path * content => is_py (fst pc) && negb (mem_path (fst pc) (paths_of t))) l = []).
      { induction l as [|[p c] l IH]; intro Hsub; [reflexivity|]. simpl.
        assert (X : mem_path p (paths_of t) = true).
        { apply mem_path_In. unfold paths_of. apply in_map_iff. exists (p, c). split; [reflexivity | apply Hsub; left; reflexivity]. }
        rewrite X. simpl. rewrite andb_false_r. apply IH. intros x Hx. apply Hsub. right. exact Hx. }
      apply A. auto. }
    rewrite F, G. reflexivity.
  Qed.

  Lemma wf_layout_any : forall g found, wf_layout san g = true -> wf_tree (tree_temp san g found) = true.
  Proof.
    intros g found H. unfold wf_layout, wf_tree, paths_of in *.
    assert (E : map fst (tree_temp san g found) = map fst (tree_temp san g [])).
    { unfold tree_temp. destruct (exceptions_emit g found) as [a1 r1] eqn:E1. destruct (exceptions_emit g []) as [a2 r2] eqn:E2.
      unfold exceptions_emit in E1, E2. destruct (g_shared g); inversion E1; inversion E2; subst;
        unfold emitted; rewrite !map_app; simpl; rewrite !map_map; reflexivity. }
    rewrite E. exact H.
  Qed.

  Theorem rerun_full : forall g found,
    dedup_total san g = true -> wf_layout san g = true ->
    run_noforce san g (tree_force san g found) = (ROk, tree_force san g found).
  Proof.
    intros g found Hd Hwf. unfold run_noforce, rerun_differing. cbv zeta.
    rewrite <- (modes_agree g found Hd).
    assert (W : wf_tree (tree_force san g found) = true).
    { rewrite (modes_agree g found Hd). apply wf_layout_any. exact Hwf. }
    unfold under. rewrite !differing_self by (apply wf_filter; exact W).
    destruct (path_eqb (g_core g) (g_out g)); reflexivity.
  Qed.

  (* the rerun after a history in which another client of the same core may have been generated in between:
     FULL since the fix of F09h *)
  Theorem rerun_history_full : forall g found touched,
    dedup_total san g = true -> wf_layout san g = true ->
    run_noforce san g (existing_after san g found touched) = (ROk, existing_after san g found touched).
  Proof. intros g found touched Hd Hwf. unfold existing_after. apply rerun_full; assumption. Qed.

  (* conversely: a common *.py file whose text is not what would be generated now is always reported *)
  Theorem rerun_detects : forall g existing p c c',
    In (p, c) (under (g_out g) (tree_temp san g (existing_registry g existing))) -> is_py p = true ->
    tlookup p (under (g_out g) existing) = Some c' -> c' <> c ->
    fst (run_noforce san g existing) = RDifferences.
  Proof.
    intros g existing p c c' Hin Hpy Hold Hne. unfold run_noforce.
    destruct (rerun_differing san g existing) eqn:E; [|reflexivity]. exfalso.
    unfold rerun_differing in E. apply app_eq_nil in E. destruct E as [E _].
    unfold differing_g in E. apply app_eq_nil in E. destruct E as [E _]. apply map_eq_nil in E.
    assert (X : In (p, c) (filter (file_differs content_eqb (under (g_out g) existing)) (under (g_out g) (tree_temp san g (existing_registry g existing))))).
    { apply filter_In. split; [exact Hin|]. unfold file_differs. simpl. rewrite Hpy, Hold. simpl.
      apply negb_true_iff. destruct (content_eqb c' c) eqn:Ec; [|reflexivity].
      apply content_eqb_eq in Ec. contradiction. }
    rewrite E in X. contradiction.
  Qed.

  (* since the fix of F09b: a *.py file that would be generated but is missing from the existing output, or a
     stale *.py file in the existing output, makes the non-force run fail as well *)
  Theorem rerun_detects_missing : forall g existing p c,
    In (p, c) (under (g_out g) (tree_temp san g (existing_registry g existing))) -> is_py p = true ->
    tlookup p (under (g_out g) existing) = None ->
    fst (run_noforce san g existing) = RDifferences.
  Proof.
    intros g existing p c Hin Hpy Hold. unfold run_noforce.
    destruct (rerun_differing san g existing) eqn:E; [|reflexivity]. exfalso.
    unfold rerun_differing in E. apply app_eq_nil in E. destruct E as [E _].
    unfold differing_g in E. apply app_eq_nil in E. destruct E as [E _]. apply map_eq_nil in E.
    assert (X : In (p, c) (filter (file_differs content_eqb (under (g_out g) existing)) (under (g_out g) (tree_temp san g (existing_registry g existing))))).
    { apply filter_In. split; [exact Hin|]. unfold file_differs. simpl. rewrite Hpy, Hold. reflexivity. }
    rewrite E in X. contradiction.
  Qed.

  Theorem rerun_detects_stale : forall g existing p c,
    In (p, c) (under (g_out g) existing) -> is_py p = true ->
    tlookup p (under (g_out g) (tree_temp san g (existing_registry g existing))) = None ->
    fst (run_noforce san g existing) = RDifferences.
  Proof.
    intros g existing p c Hin Hpy Hnew. unfold run_noforce.
    destruct (rerun_differing san g existing) eqn:E; [|reflexivity]. exfalso.
    unfold rerun_differing in E. apply app_eq_nil in E. destruct E as [E _].
    unfold differing_g in E. apply app_eq_nil in E. destruct E as [_ E]. apply map_eq_nil in E.
    assert (X : In (p, c) (old_only (under (g_out g) existing) (under (g_out g) (tree_temp san g (existing_registry g existing))))).
    { unfold old_only. apply filter_In. split; [exact Hin|]. simpl. rewrite Hpy. simpl.
      apply negb_true_iff. apply mem_path_lookup. exact Hnew. }
    rewrite E in X. contradiction.
  Qed.
End DedupFacts.

(* ---------- refutations of mode agreement (san = identity on these ids) ---------- *)
Definition idS (s : str) : str := s.
Definition s_client : str := [99;108;105;101;110;116].   (* client *)
Definition s_core : str := [99;111;114;101].             (* core *)
Definition s_shared : str := [115;104;97;114;101;100].   (* shared *)
Definition s_ca : str := [99;97].
Definition s_cb : str := [99;98].
Definition s_default : str := [100;101;102;97;117;108;116].
Definition s_foo : str := [102;111;111].
Definition s_foo_2 : str := [102;111;111;95;50].

Definition g_plain : gen_input :=
  {| g_client := s_client; g_out := [s_client]; g_core := [s_client; s_core]; g_core_given := false;
     g_shared := true; g_ops := [(s_default, s_foo)]; g_codes := [404] |}.
Definition g_F09c : gen_input :=
  {| g_client := s_client; g_out := [s_client]; g_core := [s_client; s_core]; g_core_given := true;
     g_shared := true; g_ops := [(s_default, s_foo)]; g_codes := [404] |}.
Definition g_F09d : gen_input :=
  {| g_client := s_ca; g_out := [s_ca]; g_core := [s_shared; s_core]; g_core_given := false;
     g_shared := true; g_ops := [(s_default, s_foo)]; g_codes := [404] |}.
Definition found_F09d : registry := [(s_cb, [409])].
Definition g_F09e : gen_input :=
  {| g_client := s_client; g_out := [s_client]; g_core := [s_client; s_core]; g_core_given := false;
     g_shared := true; g_ops := [(s_default, s_foo); (s_default, s_foo); (s_default, s_foo_2)]; g_codes := [] |}.

(* regression for the fixed F09c (core_package given) and F09d (another client registered in the shared core):
   the force tree is what the temp path regenerates and the rerun succeeds *)
Lemma regression_F09c_F09d :
  tree_force idS g_F09c [] = tree_temp idS g_F09c (existing_registry g_F09c (tree_force idS g_F09c [])) /\
  tlookup [s_client; s_init] (tree_temp idS g_F09c []) = Some (CRichInit s_client) /\
  fst (run_noforce idS g_F09c (tree_force idS g_F09c [])) = ROk /\
  existing_registry g_F09d (tree_force idS g_F09d found_F09d) = [(s_cb, [409]); (s_ca, [404])] /\
  tlookup [s_shared; s_core; s_aliases_py] (tree_force idS g_F09d found_F09d) = Some (CAliases [404; 409]) /\
  tree_force idS g_F09d found_F09d = tree_temp idS g_F09d (existing_registry g_F09d (tree_force idS g_F09d found_F09d)) /\
  fst (run_noforce idS g_F09d (tree_force idS g_F09d found_F09d)) = ROk.
Proof. repeat split; vm_compute; reflexivity. Qed.

(* regression for the fixed F09e / F07a: ids foo, foo, foo_2 — the pass is collision-free and idempotent, the two
   paths agree and the rerun succeeds *)
Lemma regression_F09e :
  dedup_ops idS [s_foo; s_foo; s_foo_2] = [s_foo; s_foo_2; s_foo_2 ++ [95;50]] /\
  dedup_ops idS (dedup_ops idS [s_foo; s_foo; s_foo_2]) = dedup_ops idS [s_foo; s_foo; s_foo_2] /\
  dedup_total idS g_F09e = true /\
  tree_force idS g_F09e [] = tree_temp idS g_F09e (existing_registry g_F09e (tree_force idS g_F09e [])) /\
  fst (run_noforce idS g_F09e (tree_force idS g_F09e [])) = ROk.
Proof. repeat split; vm_compute; reflexivity. Qed.

Definition s_c1 : str := [99;49].
Definition s_x : str := [120].
Definition g_F09h : gen_input :=
  {| g_client := s_c1; g_out := [s_c1]; g_core := [s_c1; s_x; s_core]; g_core_given := true;
     g_shared := true; g_ops := [(s_default, s_foo)]; g_codes := [404] |}.
(* regression for the fixed F09h: the intermediate package file is part of both trees and the rerun succeeds whether or
   not another client of the same core was generated in between *)
Lemma regression_F09h :
  dedup_total idS g_F09h = true /\ wf_layout idS g_F09h = true /\
  gap_inits g_F09h = [([s_c1; s_x; s_init], CEmpty)] /\
  tlookup [s_c1; s_x; s_init] (tree_force idS g_F09h []) = Some CEmpty /\
  tlookup [s_c1; s_x; s_init] (tree_temp idS g_F09h []) = Some CEmpty /\
  fst (run_noforce idS g_F09h (existing_after idS g_F09h [] true)) = ROk /\
  fst (run_noforce idS g_F09h (existing_after idS g_F09h [] false)) = ROk.
Proof. repeat split; vm_compute; reflexivity. Qed.

Lemma modes_nonvacuous :
  dedup_total idS g_plain = true /\ wf_layout idS g_plain = true /\
  length (tree_force idS g_plain []) = 15%nat /\
  dedup_total idS g_F09d = true /\ wf_layout idS g_F09d = true.
Proof. repeat split; vm_compute; reflexivity. Qed.

(* ================================================================================================
   file-system order: _show_diffs walks both directories with rglob(); the decision and the set of files it
   names do not depend on the order in which the file system lists the entries *)
Lemma nodup_paths_NoDup : forall l, nodup_paths l = true <-> NoDup l.
Proof.
  induction l as [|q l IH]; simpl; split; intro H; try reflexivity; try constructor.
  - apply andb_true_iff in H. destruct H as [H _]. apply negb_true_iff in H. intro X. apply mem_path_In in X. congruence.
  - apply IH. apply andb_true_iff in H. tauto.
  - inversion H; subst. apply andb_true_iff. split; [|apply IH; assumption].
    apply negb_true_iff. destruct (mem_path q l) eqn:E; [apply mem_path_In in E; contradiction | reflexivity].
Qed.

Lemma tlookup_perm : forall {C} (t t' : list (path * C)) p,
  wf_tree t = true -> Permutation t t' -> tlookup p t = tlookup p t'.
Proof.
  intros C t t' p Hwf Hp.
  assert (Hwf' : wf_tree t' = true).
  { unfold wf_tree in *. apply nodup_paths_NoDup. apply nodup_paths_NoDup in Hwf.
    eapply Permutation_NoDup; [apply Permutation_map; exact Hp | exact Hwf]. }
  destruct (tlookup p t) as [c|] eqn:E.
  - symmetry. apply (wf_lookup_gen t' p c Hwf'). eapply Permutation_in; [exact Hp | apply tlookup_In; exact E].
  - destruct (tlookup p t') as [c'|] eqn:E'; [|reflexivity].
    pose proof (Permutation_in _ (Permutation_sym Hp) (tlookup_In _ _ _ E')) as Hin.
    destruct (In_tlookup _ _ _ Hin) as [c0 E0]. congruence.
Qed.

Theorem show_diffs_fs_order : forall old old' new new',
  wf_tree old = true -> Permutation old old' -> Permutation new new' ->
  show_diffs old new = show_diffs old' new' /\
  Permutation (differing_g str_eqb old new) (differing_g str_eqb old' new').
Proof.
  intros old old' new new' Hwf Ho Hn.
  assert (P : Permutation (differing_g str_eqb old new) (differing_g str_eqb old' new')).
  { unfold differing_g. apply Permutation_app.
    - apply Permutation_map.
      rewrite (filter_ext (file_differs str_eqb old) (file_differs str_eqb old')).
      + apply Permutation_filter'. exact Hn.
      + intros [p c]. unfold file_differs. simpl. rewrite (tlookup_perm old old' p Hwf Ho). reflexivity.
    - apply Permutation_map. unfold old_only.
      rewrite (filter_ext (fun pc : path * str => is_py (fst pc) && negb (mem_path (fst pc) (paths_of new)))
                          (fun pc : path * str => is_py (fst pc) && negb (mem_path (fst pc) (paths_of new')))).
      + apply Permutation_filter'. exact Ho.
      + intros [p c]. simpl. f_equal. f_equal.
        destruct (mem_path p (paths_of new)) eqn:E1, (mem_path p (paths_of new')) eqn:E2; try reflexivity.
        * apply mem_path_In in E1. assert (X : In p (paths_of new')) by (eapply Permutation_in; [apply Permutation_map; exact Hn | exact E1]).
          apply mem_path_In in X. congruence.
        * apply mem_path_In in E2. assert (X : In p (paths_of new)) by (eapply Permutation_in; [apply Permutation_map; apply Permutation_sym; exact Hn | exact E2]).
          apply mem_path_In in X. congruence. }
  split; [|exact P]. unfold show_diffs, show_diffs_g.
  destruct (differing_g str_eqb old new) eqn:E1, (differing_g str_eqb old' new') eqn:E2; try reflexivity.
  - apply Permutation_nil in P. discriminate.
  - apply Permutation_sym, Permutation_nil in P. discriminate.
Qed.

(* ================================================================================================
   dispatch over the translator's list of order-relevant sites (Gen.T_C09.order_relevant_models).
   A name without a transcription has obligation False: undischargeable, so a new site breaks [sites_full]. *)
Definition site_obligation (m : str) : Prop :=
  if str_eqb m m_typing_imports_render then
    forall is_stdlib classify c0 l1 l2, wf_collector c0 = true -> Permutation l1 l2 ->
      typing_imports_render is_stdlib classify c0 l1 = typing_imports_render is_stdlib classify c0 l2
  else if str_eqb m m_show_diffs_fs then
    forall old old' new new', wf_tree old = true -> Permutation old old' -> Permutation new new' ->
      show_diffs old new = show_diffs old' new' /\
      Permutation (differing_g str_eqb old new) (differing_g str_eqb old' new')
  else False.

Theorem sites_full : forall m, In m order_relevant_models -> site_obligation m.
Proof.
  intros m Hin. unfold order_relevant_models in Hin. simpl in Hin.
  repeat (destruct Hin as [<-|Hin]; [unfold site_obligation; vm_compute str_eqb; first [exact site2_invariant | exact show_diffs_fs_order]|]).
  contradiction.
Qed.
