(* C09 — proofs about Model/Diff.v *)
From PG Require Import Lib.Strs Model.Diff.
From Coq Require Import Permutation.

(* ---------- reflection of the boolean equalities ---------- *)
Lemma list_eqb_eq : forall {A} (eqb : A -> A -> bool),
  (forall a b, eqb a b = true <-> a = b) -> forall l1 l2, list_eqb eqb l1 l2 = true <-> l1 = l2.
Proof.
  intros A eqb H. induction l1 as [|x l1 IH]; destruct l2 as [|y l2]; simpl; split; intro E;
    try reflexivity; try discriminate.
  - apply andb_true_iff in E. destruct E as [E1 E2]. apply H in E1. apply IH in E2. subst. reflexivity.
  - inversion E; subst. apply andb_true_iff. split; [apply H; reflexivity | apply IH; reflexivity].
Qed.

Lemma path_eqb_eq : forall p q, path_eqb p q = true <-> p = q.
Proof. apply list_eqb_eq. apply str_eqb_eq. Qed.
Lemma path_eqb_refl : forall p, path_eqb p p = true.
Proof. intro p. apply path_eqb_eq. reflexivity. Qed.
Lemma lines_eqb_eq : forall a b, lines_eqb a b = true <-> a = b.
Proof. apply list_eqb_eq. apply str_eqb_eq. Qed.

Lemma codes_eqb_eq : forall a b, codes_eqb a b = true <-> a = b.
Proof. apply list_eqb_eq. intros a b. apply N.eqb_eq. Qed.

Lemma pair_eqb_eq : forall {A B} (ea : A -> A -> bool) (eb : B -> B -> bool),
  (forall a b, ea a b = true <-> a = b) -> (forall a b, eb a b = true <-> a = b) ->
  forall x y, pair_eqb ea eb x y = true <-> x = y.
Proof.
  intros A B ea eb Ha Hb [a1 b1] [a2 b2]. unfold pair_eqb. simpl. rewrite andb_true_iff, Ha, Hb.
  split; [intros [-> ->]; reflexivity | intro E; inversion E; auto].
Qed.

Lemma registry_eqb_eq : forall a b, registry_eqb a b = true <-> a = b.
Proof. apply list_eqb_eq. apply pair_eqb_eq; [apply str_eqb_eq | apply codes_eqb_eq]. Qed.

Lemma content_eqb_eq : forall a b, content_eqb a b = true <-> a = b.
Proof.
  intros a b. destruct a, b; simpl; try (split; [discriminate | discriminate]); try tauto.
  - rewrite str_eqb_eq. split; [intros ->; reflexivity | intro E; inversion E; reflexivity].
  - rewrite codes_eqb_eq. split; [intros ->; reflexivity | intro E; inversion E; reflexivity].
  - rewrite codes_eqb_eq. split; [intros ->; reflexivity | intro E; inversion E; reflexivity].
  - rewrite registry_eqb_eq. split; [intros ->; reflexivity | intro E; inversion E; reflexivity].
  - rewrite (list_eqb_eq str_eqb str_eqb_eq). split; [intros ->; reflexivity | intro E; inversion E; reflexivity].
  - rewrite (list_eqb_eq str_eqb str_eqb_eq). split; [intros ->; reflexivity | intro E; inversion E; reflexivity].
  - rewrite N.eqb_eq. split; [intros ->; reflexivity | intro E; inversion E; reflexivity].
Qed.
Lemma content_eqb_refl : forall a, content_eqb a a = true.
Proof. intro a. apply content_eqb_eq. reflexivity. Qed.

(* ---------- lookup ---------- *)
Lemma tlookup_In : forall {C} p (t : list (path * C)) c, tlookup p t = Some c -> In (p, c) t.
Proof.
  induction t as [|[q c'] t IH]; simpl; intros c H; [discriminate|].
  destruct (path_eqb p q) eqn:E.
  - apply path_eqb_eq in E. inversion H; subst. left. reflexivity.
  - right. apply IH. exact H.
Qed.

Lemma In_tlookup : forall {C} p (t : list (path * C)) c, In (p, c) t -> exists c', tlookup p t = Some c'.
Proof.
  induction t as [|[q c'] t IH]; simpl; intros c H; [contradiction|].
  destruct (path_eqb p q) eqn:E; [eexists; reflexivity|].
  destruct H as [H|H].
  - inversion H; subst. rewrite path_eqb_refl in E. discriminate.
  - eapply IH. exact H.
Qed.

Lemma mem_path_In : forall p l, mem_path p l = true <-> In p l.
Proof.
  intros p l. unfold mem_path. rewrite existsb_exists. split.
  - intros [q [Hq E]]. apply path_eqb_eq in E. subst. exact Hq.
  - intro H. exists p. split; [exact H | apply path_eqb_refl].
Qed.

Lemma In_paths_py : forall {C} p (t : list (path * C)),
  In p (paths_of (py_files t)) <-> is_py p = true /\ exists c, In (p, c) t.
Proof.
  intros C p t. unfold paths_of, py_files. rewrite in_map_iff. split.
  - intros [[q c] [E H]]. simpl in E. subst q. apply filter_In in H. destruct H as [H1 H2].
    split; [exact H2 | exists c; exact H1].
  - intros [Hpy [c H]]. exists (p, c). split; [reflexivity | apply filter_In; split; assumption].
Qed.

(* ---------- what "no differences" gives, unconditionally ---------- *)
Lemma show_diffs_false_common : forall old new,
  show_diffs old new = false ->
  forall p c c', In (p, c) new -> is_py p = true -> tlookup p old = Some c' -> read_lines c' = read_lines c.
Proof.
  intros old new H p c c' Hin Hpy Hold.
  unfold show_diffs, show_diffs_g in H.
  assert (F : file_differs text_same old (p, c) = false).
  { destruct (file_differs text_same old (p, c)) eqn:E; [|reflexivity].
    assert (X : existsb (file_differs text_same old) new = true) by (apply existsb_exists; eexists; eauto).
    congruence. }
  unfold file_differs in F. simpl in F. rewrite Hpy, Hold in F. simpl in F.
  apply negb_false_iff in F. apply lines_eqb_eq in F. exact F.
Qed.

(* an up-to-date tree is never reported as different *)
Lemma show_diffs_complete : forall old new,
  (forall p, tlookup p old = tlookup p new) -> wf_tree new = true -> show_diffs old new = false.
Proof.
  intros old new Heq Hwf. unfold show_diffs, show_diffs_g.
  destruct (existsb (file_differs text_same old) new) eqn:E; [|reflexivity].
  apply existsb_exists in E. destruct E as [[p c] [Hin F]].
  unfold file_differs in F. simpl in F. apply andb_true_iff in F. destruct F as [_ F].
  rewrite Heq in F.
  assert (L : tlookup p new = Some c).
  { clear -Hin Hwf. unfold wf_tree, paths_of in Hwf. induction new as [|[q c'] t IH]; [contradiction|].
    simpl in Hwf. apply andb_true_iff in Hwf. destruct Hwf as [Hn Hw]. simpl.
    destruct Hin as [Hin|Hin].
    - inversion Hin; subst. rewrite path_eqb_refl. reflexivity.
    - destruct (path_eqb p q) eqn:E.
      + apply path_eqb_eq in E. subst q. apply negb_true_iff in Hn.
        assert (X : mem_path p (map fst t) = true) by (apply mem_path_In; apply in_map_iff; exists (p, c); auto).
        congruence.
      + apply IH; assumption. }
  rewrite L in F. apply negb_true_iff in F.
  assert (X : text_same c c = true) by (apply lines_eqb_eq; reflexivity). congruence.
Qed.

(* ---------- the guarded soundness theorem ---------- *)
Definition guard_diff (old new : tree) : bool := guard_F09b old new && guard_F09f old new && guard_F09g old new.

Lemma diff_sound_py : forall old new,
  guard_F09b old new = true -> guard_F09f old new = true -> show_diffs old new = false ->
  forall p, is_py p = true -> tlookup p old = tlookup p new.
Proof.
  intros old new Gb Gf H p Hpy.
  unfold guard_F09b in Gb. apply andb_true_iff in Gb. destruct Gb as [Gb1 Gb2].
  rewrite forallb_forall in Gb1, Gb2.
  destruct (tlookup p new) as [c|] eqn:En.
  - pose proof (tlookup_In _ _ _ En) as Hin.
    assert (Hp : In p (paths_of (py_files new))) by (apply In_paths_py; split; [exact Hpy | exists c; exact Hin]).
    apply Gb1 in Hp. apply mem_path_In in Hp. apply In_paths_py in Hp. destruct Hp as [_ [c0 Hc0]].
    destruct (In_tlookup _ _ _ Hc0) as [c' Eo]. rewrite Eo. f_equal.
    pose proof (show_diffs_false_common _ _ H _ _ _ Hin Hpy Eo) as Hl.
    unfold guard_F09f in Gf. rewrite forallb_forall in Gf. specialize (Gf _ Hin). simpl in Gf.
    rewrite Eo, Hpy in Gf. simpl in Gf.
    destruct (str_eqb c' c) eqn:Es; [apply str_eqb_eq in Es; exact Es|].
    simpl in Gf. apply negb_true_iff in Gf. unfold text_same in Gf.
    assert (X : lines_eqb (read_lines c') (read_lines c) = true) by (apply lines_eqb_eq; exact Hl). congruence.
  - destruct (tlookup p old) as [c'|] eqn:Eo; [|reflexivity]. exfalso.
    pose proof (tlookup_In _ _ _ Eo) as Hin.
    assert (Hp : In p (paths_of (py_files old))) by (apply In_paths_py; split; [exact Hpy | exists c'; exact Hin]).
    apply Gb2 in Hp. apply mem_path_In in Hp. apply In_paths_py in Hp. destruct Hp as [_ [c0 Hc0]].
    destruct (In_tlookup _ _ _ Hc0) as [c1 E1]. congruence.
Qed.

Lemma sub_nonpy_lookup : forall a b, sub_nonpy a b = true ->
  forall p c, is_py p = false -> tlookup p a = Some c -> tlookup p b = Some c.
Proof.
  intros a b H p c Hpy Ha. unfold sub_nonpy in H. rewrite forallb_forall in H.
  specialize (H _ (tlookup_In _ _ _ Ha)). simpl in H. rewrite Hpy in H. simpl in H.
  destruct (tlookup p b) as [c'|]; [|discriminate]. apply str_eqb_eq in H. subst. reflexivity.
Qed.

(* FULL conclusion under the guard: the existing tree IS the new tree (as finite maps path -> bytes) *)
Theorem diff_sound_partial : forall old new,
  guard_diff old new = true -> show_diffs old new = false -> forall p, tlookup p old = tlookup p new.
Proof.
  intros old new G H p. unfold guard_diff in G.
  apply andb_true_iff in G. destruct G as [G Gg]. apply andb_true_iff in G. destruct G as [Gb Gf].
  destruct (is_py p) eqn:Hpy; [apply diff_sound_py; assumption|].
  unfold guard_F09g in Gg. apply andb_true_iff in Gg. destruct Gg as [G1 G2].
  destruct (tlookup p old) as [c|] eqn:Eo.
  - symmetry. eapply sub_nonpy_lookup; eauto.
  - destruct (tlookup p new) as [c|] eqn:En; [|reflexivity].
    pose proof (sub_nonpy_lookup _ _ G2 _ _ Hpy En). congruence.
Qed.

(* the statement of the design: equality of the *.py parts, under the two guards that concern them *)
Theorem diff_sound_py_partial : forall old new,
  guard_F09b old new = true -> guard_F09f old new = true -> show_diffs old new = false ->
  forall p, tlookup p (py_files old) = tlookup p (py_files new).
Proof.
  intros old new Gb Gf H p.
  assert (L : forall (t : tree) q, tlookup q (py_files t) = if is_py q then tlookup q t else None).
  { induction t as [|[r c] t IH]; intro q; simpl; [destruct (is_py q); reflexivity|].
    destruct (is_py r) eqn:Er; simpl.
    - destruct (path_eqb q r) eqn:E; [apply path_eqb_eq in E; subst; rewrite Er; reflexivity | apply IH].
    - rewrite IH. destruct (path_eqb q r) eqn:E; [apply path_eqb_eq in E; subst; rewrite Er; reflexivity | reflexivity]. }
  rewrite !L. destruct (is_py p) eqn:Hpy; [apply diff_sound_py; assumption | reflexivity].
Qed.

(* ---------- refutations of the unguarded statement ---------- *)
Definition p_client : path := [[99;108;105;101;110;116;46;112;121]].          (* client.py *)
Definition p_models_a : path := [[109;111;100;101;108;115]; [97;46;112;121]].  (* models/a.py *)
Definition p_stale : path := [[109;111;100;101;108;115]; [115;46;112;121]].    (* models/s.py *)
Definition p_typed : path := [[112;121;46;116;121;112;101;100]].              (* py.typed *)
Definition t_a1 : str := [97;32;61;32;49;10].        (* "a = 1\n" *)
Definition t_a1_crlf : str := [97;32;61;32;49;13;10]. (* "a = 1\r\n" *)
Definition t_a1_nonl : str := [97;32;61;32;49].       (* "a = 1" *)

Definition old_F09b : tree := [(p_client, t_a1); (p_stale, t_a1)].
Definition new_F09b : tree := [(p_client, t_a1); (p_models_a, t_a1)].
Lemma refuted_F09b :
  guard_F09b old_F09b new_F09b = false /\ guard_F09f old_F09b new_F09b = true /\ guard_F09g old_F09b new_F09b = true /\
  show_diffs old_F09b new_F09b = false /\ tlookup p_models_a (py_files old_F09b) <> tlookup p_models_a (py_files new_F09b).
Proof. repeat split; try (vm_compute; reflexivity). vm_compute. discriminate. Qed.

Definition old_F09f : tree := [(p_client, t_a1_crlf); (p_models_a, t_a1_nonl)].
Definition new_F09f : tree := [(p_client, t_a1); (p_models_a, t_a1)].
Lemma refuted_F09f :
  guard_F09b old_F09f new_F09f = true /\ guard_F09f old_F09f new_F09f = false /\ guard_F09g old_F09f new_F09f = true /\
  show_diffs old_F09f new_F09f = false /\ tlookup p_client (py_files old_F09f) <> tlookup p_client (py_files new_F09f).
Proof. repeat split; try (vm_compute; reflexivity). vm_compute. discriminate. Qed.

Definition old_F09g : tree := [(p_client, t_a1); (p_typed, t_a1)].
Definition new_F09g : tree := [(p_client, t_a1); (p_typed, [])].
Lemma refuted_F09g :
  guard_F09b old_F09g new_F09g = true /\ guard_F09f old_F09g new_F09g = true /\ guard_F09g old_F09g new_F09g = false /\
  show_diffs old_F09g new_F09g = false /\ tlookup p_typed old_F09g <> tlookup p_typed new_F09g.
Proof. repeat split; try (vm_compute; reflexivity). vm_compute. discriminate. Qed.

Lemma guard_diff_nonvacuous :
  guard_diff new_F09b new_F09b = true /\ show_diffs new_F09b new_F09b = false /\
  guard_diff old_F09b [(p_client, t_a1 ++ t_a1); (p_stale, t_a1)] = true /\
  show_diffs old_F09b [(p_client, t_a1 ++ t_a1); (p_stale, t_a1)] = true.
Proof. repeat split; vm_compute; reflexivity. Qed.

(* ================================================================================================
   de-duplication: no collision => nothing changes (hence idempotent) *)
Section DedupFacts.
  Variable san : str -> str.

  Lemma count_get_set_other : forall k k' v d, k' <> k -> count_get k' (count_set k v d) = count_get k' d.
  Proof.
    induction d as [|[k0 v0] d IH]; intros Hne; simpl.
    - apply str_eqb_neq in Hne. rewrite Hne. reflexivity.
    - destruct (str_eqb k k0) eqn:E; simpl.
      + apply str_eqb_eq in E. subst k0. apply str_eqb_neq in Hne. rewrite Hne. reflexivity.
      + destruct (str_eqb k' k0); [reflexivity | apply IH; exact Hne].
  Qed.

  Lemma dedup_go_nodup : forall ids seen,
    nodupb (map san ids) = true ->
    (forall i, In i ids -> count_get (san i) seen = None) ->
    dedup_go san seen ids = ids.
  Proof.
    induction ids as [|i r IH]; intros seen Hnd Hfresh; simpl; [reflexivity|].
    simpl in Hnd. apply andb_true_iff in Hnd. destruct Hnd as [Hni Hnd].
    rewrite (Hfresh i (or_introl eq_refl)). f_equal. apply IH; [exact Hnd|].
    intros j Hj. rewrite count_get_set_other; [apply Hfresh; right; exact Hj|].
    intro E. apply negb_true_iff in Hni.
    assert (X : mem_str (san i) (map san r) = true).
    { apply mem_str_In. rewrite <- E. apply in_map. exact Hj. }
    congruence.
  Qed.

  Lemma dedup_ops_nodup : forall ids, nodupb (map san ids) = true -> dedup_ops san ids = ids.
  Proof. intros ids H. unfold dedup_ops. apply dedup_go_nodup; [exact H | intros; reflexivity]. Qed.

  (* ---------- the two paths agree under the guard ---------- *)
  Lemma exceptions_emit_guard : forall g found,
    guard_F09d g found = true ->
    exceptions_emit g (if core_inside_out g then [] else found) = exceptions_emit g [].
  Proof.
    intros g found G. unfold guard_F09d in G. unfold exceptions_emit.
    destruct (g_shared g) eqn:Es; [|reflexivity]. simpl in G.
    destruct (core_inside_out g) eqn:Ec; [reflexivity|]. simpl in G.
    destruct found as [|[k v] [|x r]]; try reflexivity; try discriminate.
    simpl. apply str_eqb_eq in G. subst k. rewrite str_eqb_refl. reflexivity.
  Qed.

  Theorem modes_agree_partial : forall g found,
    guard_modes san g found = true -> tree_force san g found = tree_temp san g.
  Proof.
    intros g found G. unfold guard_modes in G.
    apply andb_true_iff in G. destruct G as [G Ge]. apply andb_true_iff in G. destruct G as [Gc Gd].
    unfold tree_force, tree_temp. cbv zeta.
    assert (E : forall f', f' = (if core_inside_out g then [] else found) ->
                           exceptions_emit g f' = exceptions_emit g []).
    { intros f' ->. apply exceptions_emit_guard. exact Gd. }
    rewrite (E _ eq_refl).
    unfold guard_F09c in Gc. apply negb_true_iff in Gc. rewrite Gc.
    unfold guard_F09e in Ge. rewrite !(dedup_ops_nodup _ Ge). reflexivity.
  Qed.

  (* ---------- rerun ---------- *)
  Lemma wf_lookup_self : forall (t : atree) p c, wf_tree t = true -> In (p, c) t -> tlookup p t = Some c.
  Proof.
    unfold wf_tree, paths_of. induction t as [|[q c'] t IH]; intros p c Hwf Hin; [contradiction|].
    simpl in Hwf. apply andb_true_iff in Hwf. destruct Hwf as [Hn Hw]. simpl.
    destruct Hin as [Hin|Hin].
    - inversion Hin; subst. rewrite path_eqb_refl. reflexivity.
    - destruct (path_eqb p q) eqn:E.
      + apply path_eqb_eq in E. subst q. apply negb_true_iff in Hn.
        assert (X : mem_path p (map fst t) = true) by (apply mem_path_In; apply in_map_iff; exists (p, c); auto).
        congruence.
      + apply IH; assumption.
  Qed.

  Lemma wf_filter : forall (f : path * content -> bool) (t : atree), wf_tree t = true -> wf_tree (filter f t) = true.
  Proof.
    unfold wf_tree, paths_of. induction t as [|[q c] t IH]; intro H; [reflexivity|].
    simpl in H. apply andb_true_iff in H. destruct H as [Hn Hw]. simpl.
    destruct (f (q, c)); [|apply IH; exact Hw]. simpl. rewrite (IH Hw), andb_true_r.
    apply negb_true_iff. apply negb_true_iff in Hn.
    destruct (mem_path q (map fst (filter f t))) eqn:E; [|reflexivity].
    apply mem_path_In in E. apply in_map_iff in E. destruct E as [[q' c'] [E1 E2]]. simpl in E1. subst q'.
    apply filter_In in E2. destruct E2 as [E2 _].
    assert (X : mem_path q (map fst t) = true) by (apply mem_path_In; apply in_map_iff; exists (q, c'); auto).
    congruence.
  Qed.

  Lemma differing_self : forall t : atree, wf_tree t = true -> differing_g content_eqb t t = [].
  Proof.
    intros t Hwf. unfold differing_g.
    assert (F : filter (file_differs content_eqb t) t = []).
    { assert (A : forall l, (forall x, In x l -> In x t) -> filter (file_differs content_eqb t) l = []).
      { induction l as [|[p c] l IH]; intro Hsub; [reflexivity|]. simpl.
        unfold file_differs at 1. simpl. rewrite (wf_lookup_self t p c Hwf (Hsub _ (or_introl eq_refl))).
        rewrite content_eqb_refl. simpl. rewrite andb_false_r. apply IH. intros x Hx. apply Hsub. right. exact Hx. }
      apply A. auto. }
    rewrite F. reflexivity.
  Qed.

  Theorem rerun_partial : forall g found,
    guard_modes san g found = true -> wf_layout san g = true ->
    run_noforce san g (tree_force san g found) = (ROk, tree_force san g found).
  Proof.
    intros g found G Hwf. rewrite (modes_agree_partial _ _ G).
    unfold run_noforce, rerun_differing, under.
    rewrite !differing_self by (apply wf_filter; exact Hwf).
    destruct (path_eqb (g_core g) (g_out g)); reflexivity.
  Qed.

  (* conversely: a common *.py file whose text is not what would be generated now is always reported *)
  Theorem rerun_detects : forall g existing p c c',
    In (p, c) (under (g_out g) (tree_temp san g)) -> is_py p = true ->
    tlookup p (under (g_out g) existing) = Some c' -> c' <> c ->
    fst (run_noforce san g existing) = RDifferences.
  Proof.
    intros g existing p c c' Hin Hpy Hold Hne. unfold run_noforce.
    destruct (rerun_differing san g existing) eqn:E; [|reflexivity]. exfalso.
    unfold rerun_differing in E. apply app_eq_nil in E. destruct E as [E _].
    unfold differing_g in E. apply map_eq_nil in E.
    assert (X : In (p, c) (filter (file_differs content_eqb (under (g_out g) existing)) (under (g_out g) (tree_temp san g)))).
    { apply filter_In. split; [exact Hin|]. unfold file_differs. simpl. rewrite Hpy, Hold. simpl.
      apply negb_true_iff. destruct (content_eqb c' c) eqn:Ec; [|reflexivity].
      apply content_eqb_eq in Ec. contradiction. }
    rewrite E in X. contradiction.
  Qed.
End DedupFacts.

(* ---------- refutations of mode agreement (san = identity on these ids) ---------- *)
Definition idS (s : str) : str := s.
Definition s_client : str := [99;108;105;101;110;116].   (* client *)
Definition s_core : str := [99;111;114;101].             (* core *)
Definition s_shared : str := [115;104;97;114;101;100].   (* shared *)
Definition s_ca : str := [99;97].
Definition s_cb : str := [99;98].
Definition s_default : str := [100;101;102;97;117;108;116].
Definition s_foo : str := [102;111;111].
Definition s_foo_2 : str := [102;111;111;95;50].

Definition g_plain : gen_input :=
  {| g_client := s_client; g_out := [s_client]; g_core := [s_client; s_core]; g_core_given := false;
     g_shared := true; g_ops := [(s_default, s_foo)]; g_codes := [404] |}.
Definition g_F09c : gen_input :=
  {| g_client := s_client; g_out := [s_client]; g_core := [s_client; s_core]; g_core_given := true;
     g_shared := true; g_ops := [(s_default, s_foo)]; g_codes := [404] |}.
Definition g_F09d : gen_input :=
  {| g_client := s_ca; g_out := [s_ca]; g_core := [s_shared; s_core]; g_core_given := false;
     g_shared := true; g_ops := [(s_default, s_foo)]; g_codes := [404] |}.
Definition found_F09d : registry := [(s_cb, [409])].
Definition g_F09e : gen_input :=
  {| g_client := s_client; g_out := [s_client]; g_core := [s_client; s_core]; g_core_given := false;
     g_shared := true; g_ops := [(s_default, s_foo); (s_default, s_foo); (s_default, s_foo_2)]; g_codes := [] |}.

Lemma refuted_F09c :
  guard_F09c g_F09c = false /\ guard_F09d g_F09c [] = true /\ guard_F09e idS g_F09c = true /\
  tree_force idS g_F09c [] <> tree_temp idS g_F09c /\
  fst (run_noforce idS g_F09c (tree_force idS g_F09c [])) = RDifferences.
Proof. repeat split; try (vm_compute; reflexivity). vm_compute. discriminate. Qed.

(* (in the implementation a core outside the package needs core_package, so F09d co-occurs with F09c; the
   model separates the two mechanisms: here core_given = false) *)
Lemma refuted_F09d :
  guard_F09c g_F09d = true /\ guard_F09d g_F09d found_F09d = false /\ guard_F09e idS g_F09d = true /\
  tree_force idS g_F09d found_F09d <> tree_temp idS g_F09d /\
  fst (run_noforce idS g_F09d (tree_force idS g_F09d found_F09d)) = RDifferences.
Proof. repeat split; try (vm_compute; reflexivity). vm_compute. discriminate. Qed.

Lemma refuted_F09e :
  guard_F09c g_F09e = true /\ guard_F09d g_F09e [] = true /\ guard_F09e idS g_F09e = false /\
  tree_force idS g_F09e [] <> tree_temp idS g_F09e /\
  fst (run_noforce idS g_F09e (tree_force idS g_F09e [])) = RDifferences.
Proof. repeat split; try (vm_compute; reflexivity). vm_compute. discriminate. Qed.

Lemma guard_modes_nonvacuous :
  guard_modes idS g_plain [(s_client, [400])] = true /\ wf_layout idS g_plain = true /\
  length (tree_force idS g_plain []) = 15%nat.
Proof. repeat split; vm_compute; reflexivity. Qed.
