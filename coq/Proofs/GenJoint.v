(* C10 + C11 — the joint history theorem *)
From PG Require Import Lib.Strs Model.GenFS Model.Registry Model.GenJoint Proofs.GenFS Proofs.Registry.

Definition wf_project (pr : project) : bool :=
  negb (under (p_root pr) (p_tmp pr)) && negb (under (p_tmp pr) (p_root pr)).

Lemma wf_project_cfg : forall pr x, wf_project pr = true -> wf_tmp (cfg_of pr x) = true.
Proof. intros pr x H. exact H. Qed.

Definition paths_ok (pr : project) (s0 : fs) (hd : list jcall) (st : jstate) : Prop :=
  forall p, In p (paths (fst st)) -> sunder (p_root pr) p = true -> In p (paths s0) \/ allowed_by pr hd p.

Lemma allowed_by_mono : forall pr hd x p, allowed_by pr hd p -> allowed_by pr (hd ++ [x]) p.
Proof. intros pr hd x p [y [Hy Ha]]. exists y. split; [apply in_or_app; left; exact Hy | exact Ha]. Qed.

Lemma valid_shared : forall pr x, valid_pkgs (cfg_of pr x) = true -> is_shared (layout_of pr x) = true.
Proof.
  intros pr x H. unfold valid_pkgs in H. simpl in H. apply andb_true_iff in H. destruct H as [_ H].
  unfold valid_pkg in H. apply andb_true_iff in H. destruct H as [H _].
  unfold is_shared, layout_of. simpl. destruct (p_core pr); [discriminate | reflexivity].
Qed.

Lemma inside_layout_of : forall pr x, inside (layout_of pr x) (g_client (call_of x)) = under (j_out x) (p_core pr).
Proof.
  intros pr x. unfold inside, layout_of. simpl. destruct (under (j_out x) (p_core pr)); [apply str_eqb_refl | reflexivity].
Qed.

Lemma jstep_inv : forall pr s0 hd st x,
  wf_project pr = true ->
  J (snd st) -> paths_ok pr s0 hd st ->
  J (snd (jstep pr st x)) /\ paths_ok pr s0 (hd ++ [x]) (jstep pr st x).
Proof.
  intros pr s0 hd st x Hw HJ HP. unfold jstep. destruct (valid_pkgs (cfg_of pr x)) eqn:Hv.
  - cbn [fst snd]. split.
    + apply J_step_with; [apply valid_shared; exact Hv | exact HJ].
    + intros p Hin Hs.
      destruct (generate_paths (cfg_of pr x) None (fst st) p (wf_project_cfg pr x Hw) Hin Hs) as [H|H].
      * destruct (HP p H Hs) as [H1|H1]; [left; exact H1 | right; apply allowed_by_mono; exact H1].
      * right. exists x. split; [apply in_or_app; right; left; reflexivity | exact H].
  - split; [exact HJ|]. intros p Hin Hs. destruct (HP p Hin Hs) as [H1|H1]; [left; exact H1 | right; apply allowed_by_mono; exact H1].
Qed.

Lemma jrun_inv : forall pr s0 h hd st,
  wf_project pr = true ->
  J (snd st) -> paths_ok pr s0 hd st ->
  J (snd (fold_left (jstep pr) h st)) /\ paths_ok pr s0 (hd ++ h) (fold_left (jstep pr) h st).
Proof.
  intros pr s0 h. induction h as [|x h IH]; intros hd st Hw HJ HP; simpl in *.
  - rewrite app_nil_r. auto.
  - destruct (jstep_inv pr s0 hd st x Hw HJ HP) as [HJ' HP'].
    replace (hd ++ x :: h) with ((hd ++ [x]) ++ h) by (rewrite <- app_assoc; reflexivity).
    apply IH; auto.
Qed.

(* JOINT HISTORY THEOREM (no injected faults): for every project, every initial file system and EVERY
   history of calls: every generated client finds its exception classes, every claimed client exists, and
   every path strictly below the project root was there initially or is an allowed path of one of the calls. *)
Theorem joint_history : forall pr s0 h,
  wf_project pr = true ->
  Joint pr s0 h (jrun pr s0 h).
Proof.
  intros pr s0 h Hw. unfold Joint, jrun.
  destruct (jrun_inv pr s0 h [] (s0, Registry.init) Hw J_init) as [HJ HP].
  - intros p Hin _. left. exact Hin.
  - split; [apply J_Works; exact HJ | exact HP].
Qed.

(* non-vacuity: project with core "shared.core"; c1 (404) generated, c2 (409) generated, c1 rerun without
   force (raises, nothing changes), an invalid package name (rejected), c1 regenerated with force and fewer codes *)
Definition sR : path := [[82]].
Definition pr_ex : project :=
  {| p_root := sR; p_tmp := [[83]; [84]]; p_cwd := sR; p_core := [[115;104;97;114;101;100]; s_core] |}.
Definition jc (out : list str) (codes : list N) (f : bool) : jcall :=
  {| j_out := out; j_codes := codes; j_force := f; j_post := true; j_tags := [[112;101;116;115]]; j_models := [[112;101;116]] |}.
Definition h_ex : list jcall :=
  [jc [c1] [200; 404; 500] false; jc [c2] [201; 409] false; jc [c1] [200; 404; 500] false;
   jc [[]; []] [200] true; jc [c1] [200; 404] true].
Definition s0_ex : fs := [(sR, Dir); (sR ++ [[75]], File 1)].
Lemma joint_nonvacuous :
  wf_project pr_ex = true
  /\ aliases (snd (jrun pr_ex s0_ex h_ex)) = Some [404; 409]
  /\ length (clients (snd (jrun pr_ex s0_ex h_ex))) = 2%nat
  /\ (length (fst (jrun pr_ex s0_ex h_ex)) > 40)%nat
  /\ lookup (sR ++ [[75]]) (fst (jrun pr_ex s0_ex h_ex)) = Some (File 1).
Proof. repeat split; vm_compute; try reflexivity. lia. Qed.
