(* C16 — the model's registration walk [reach] is the reachability closure *)
From PG Require Import Lib.Strs Model.Converter.
From Coq Require Import Lia.

Section Reach.
  Variable ct : list cls.
  Notation refs := (cls_refs ct).
  Notation exp := (expand ct).

  Definition stable (S : list N) : Prop := incl (flat_map refs S) S.

  Lemma expand_NoDup : forall S, NoDup (exp S).
  Proof. intro S. unfold expand. apply NoDup_nodup. Qed.

  Lemma expand_incl : forall S, incl S (exp S).
  Proof. intros S x Hx. unfold expand. apply nodup_In. apply in_or_app. left. exact Hx. Qed.

  Lemma expand_refs : forall S, incl (flat_map refs S) (exp S).
  Proof. intros S x Hx. unfold expand. apply nodup_In. apply in_or_app. right. exact Hx. Qed.

  Lemma expand_in : forall S x, In x (exp S) -> In x S \/ In x (flat_map refs S).
  Proof. intros S x Hx. unfold expand in Hx. apply nodup_In in Hx. apply in_app_or in Hx. exact Hx. Qed.

  Lemma stable_expand : forall S, stable S -> stable (exp S).
  Proof.
    intros S Hs x Hx. apply in_flat_map in Hx as [c [Hc Hx]].
    apply expand_incl. destruct (expand_in S c Hc) as [Hin | Hin].
    - apply Hs. apply in_flat_map. exists c. auto.
    - apply Hs. apply in_flat_map. exists c. split; [apply Hs; exact Hin | exact Hx].
  Qed.

  Lemma stable_iter : forall n S, stable S -> stable (iter_expand ct n S).
  Proof. induction n as [|n IH]; intros S Hs; cbn [iter_expand]; [exact Hs | apply IH, stable_expand, Hs]. Qed.

  Lemma iter_incl : forall n S, incl S (iter_expand ct n S).
  Proof.
    induction n as [|n IH]; intros S; cbn [iter_expand]; [apply incl_refl|].
    eapply incl_tran; [apply expand_incl | apply IH].
  Qed.

  (* a set that does not grow under one expansion step is stable *)
  Lemma no_growth_stable : forall S, NoDup S -> (length (exp S) <= length S)%nat -> stable S.
  Proof.
    intros S Hnd Hlen x Hx.
    assert (Hback : incl (exp S) S).
    { apply NoDup_length_incl; [exact Hnd | exact Hlen | apply expand_incl]. }
    apply Hback. apply expand_refs. exact Hx.
  Qed.

  Section Bounded.
    Variable U : list N.
    Hypothesis HU : forall S, incl S U -> incl (flat_map refs S) U.

    Lemma expand_in_U : forall S, incl S U -> incl (exp S) U.
    Proof.
      intros S HS x Hx. destruct (expand_in S x Hx) as [H | H]; [apply HS; exact H | apply (HU S HS); exact H].
    Qed.

    Lemma iter_stable : forall n S, NoDup S -> incl S U -> (length U - length S <= n)%nat ->
      stable (iter_expand ct n S).
    Proof.
      induction n as [|n IH]; intros S Hnd HS Hm; cbn [iter_expand].
      - apply no_growth_stable; [exact Hnd|].
        pose proof (NoDup_incl_length (expand_NoDup S) (expand_in_U S HS)). lia.
      - destruct (Nat.le_gt_cases (length (exp S)) (length S)) as [Hle | Hgt].
        + apply stable_iter. apply stable_expand. apply no_growth_stable; assumption.
        + apply IH; [apply expand_NoDup | apply expand_in_U; exact HS | lia].
    Qed.
  End Bounded.

  Lemma universe_refs : forall T S, incl S (universe ct T) -> incl (flat_map refs S) (universe ct T).
  Proof.
    intros T S _ x Hx. apply in_flat_map in Hx as [c [_ Hx]]. unfold cls_refs in Hx.
    destruct (lookup_cls ct c) as [k|] eqn:Ek; [|destruct Hx].
    unfold lookup_cls in Ek. apply find_some in Ek as [Hk _].
    unfold universe. apply nodup_In. apply in_or_app. right.
    apply in_flat_map. exists k. split; assumption.
  Qed.

  (* the walk contains the classes of T and is closed under "class c mentions class d in a field" *)
  Theorem reach_closed : forall T, incl (ty_classes T) (reach ct T) /\ stable (reach ct T).
  Proof.
    intro T. unfold reach. split.
    - intros x Hx. apply iter_incl. apply nodup_In. exact Hx.
    - apply (iter_stable (universe ct T) (universe_refs T)).
      + apply NoDup_nodup.
      + intros x Hx. apply nodup_In in Hx. unfold universe. apply nodup_In. apply in_or_app. left. exact Hx.
      + lia.
  Qed.

  (* and it is the least such set *)
  Theorem reach_least : forall T R, incl (ty_classes T) R -> stable R -> incl (reach ct T) R.
  Proof.
    intros T R HT HR. unfold reach.
    assert (H : forall n S, incl S R -> incl (iter_expand ct n S) R).
    { induction n as [|n IH]; intros S HS; cbn [iter_expand]; [exact HS|].
      apply IH. intros x Hx. destruct (expand_in S x Hx) as [H | H]; [apply HS; exact H|].
      apply HR. apply in_flat_map in H as [c [Hc Hx']]. apply in_flat_map. exists c. split; [apply HS; exact Hc | exact Hx']. }
    apply H. intros x Hx. apply nodup_In in Hx. apply HT. exact Hx.
  Qed.

  Lemma stable_fields : forall R c k f, stable R -> In c R -> lookup_cls ct c = Some k -> In f (c_fields k) ->
    incl (ty_classes (f_ty f)) R.
  Proof.
    intros R c k f HR Hc Hk Hf x Hx. apply HR. apply in_flat_map. exists c. split; [exact Hc|].
    unfold cls_refs. rewrite Hk. apply in_flat_map. exists f. split; assumption.
  Qed.
End Reach.
