(* C16 — the serialiser on the CYCLIC heaps that work: dataclasses are forward-reference ones (SFwd,
   attributes may point anywhere: arbitrary cycles through dataclass attributes), containers are
   ranked (a list / dict stores only smaller indices), no SData.  Termination by a lexicographic
   measure: number of SFwd objects not yet in [visited], then the index. *)
From PG Require Import Lib.Strs Model.Converter Model.Serializer Proofs.Converter Proofs.Serializer.
From Coq Require Import Lia.

Definition is_fwd (o : sobj) : bool := match o with SFwd _ => true | _ => false end.
Definition container_ranked (h : heap) : bool :=
  (fix go (i : nat) (l : heap) : bool :=
     match l with
     | [] => true
     | o :: r => match o with
                 | SList _ | SDict _ => forallb (fun x => Nat.ltb x i) (refs o)
                 | SData _ => false
                 | _ => true
                 end && go (S i) r
     end) 0%nat h.

Section Cyclic.
  Variable h : heap.
  Let L := length h.
  Hypothesis Hrk : container_ranked h = true.
  Hypothesis Hsc : scalars_ok h = true.

  Definition memb (x : nat) (vis : list nat) : bool := existsb (Nat.eqb x) vis.
  Definition unvisited (vis : list nat) : list nat :=
    filter (fun i => is_fwd (deref h i) && negb (memb i vis)) (seq 0 L).
  Definition F (vis : list nat) : nat := length (unvisited vis).

  Lemma filter_length_le : forall {A} (p q : A -> bool) l,
    (forall x, q x = true -> p x = true) -> (length (filter q l) <= length (filter p l))%nat.
  Proof.
    intros A p q l H. induction l as [|a l IH]; [reflexivity|]. cbn [filter].
    destruct (q a) eqn:Eq; [rewrite (H a Eq); cbn [length]; lia|].
    destruct (p a); cbn [length]; lia.
  Qed.

  Lemma filter_length_lt : forall {A} (p q : A -> bool) l a,
    (forall x, q x = true -> p x = true) -> In a l -> p a = true -> q a = false ->
    (length (filter q l) < length (filter p l))%nat.
  Proof.
    intros A p q l a H. induction l as [|b l IH]; intros Hin Hp Hq; [destruct Hin|]. cbn [filter].
    destruct Hin as [-> | Hin].
    - rewrite Hp, Hq. cbn [length]. pose proof (filter_length_le p q l H). lia.
    - specialize (IH Hin Hp Hq). destruct (q b) eqn:Eq; [rewrite (H b Eq); cbn [length]; lia|].
      destruct (p b); cbn [length]; lia.
  Qed.

  Lemma F_cons_le : forall x vis, (F (x :: vis) <= F vis)%nat.
  Proof.
    intros x vis. unfold F, unvisited. apply filter_length_le. intros i Hi.
    apply andb_true_iff in Hi as [H1 H2]. rewrite H1. cbn [andb]. unfold memb in *. cbn [existsb] in H2.
    apply negb_true_iff in H2. apply orb_false_iff in H2 as [_ H2]. rewrite H2. reflexivity.
  Qed.

  Lemma F_cons_lt : forall x vis fs, deref h x = SFwd fs -> memb x vis = false -> (F (x :: vis) < F vis)%nat.
  Proof.
    intros x vis fs Hd Hm. unfold F, unvisited.
    apply (filter_length_lt _ _ _ x).
    - intros i Hi. apply andb_true_iff in Hi as [H1 H2]. rewrite H1. cbn [andb]. unfold memb in *. cbn [existsb] in H2.
      apply negb_true_iff in H2. apply orb_false_iff in H2 as [_ H2]. rewrite H2. reflexivity.
    - apply in_seq. split; [lia|]. cbn [plus]. unfold deref in Hd.
      destruct (Nat.lt_ge_cases x L) as [Hlt|Hge]; [exact Hlt|]. rewrite nth_overflow in Hd by (unfold L in Hge; lia). discriminate.
    - rewrite Hd, Hm. reflexivity.
    - rewrite Hd. cbn [is_fwd andb]. unfold memb. cbn [existsb]. rewrite Nat.eqb_refl. reflexivity.
  Qed.

  Lemma ranked_container_refs : forall x y, (match deref h x with SList _ | SDict _ => True | _ => False end) ->
    In y (refs (deref h x)) -> (y < x)%nat.
  Proof.
    intros x y Hc Hy. unfold container_ranked in Hrk. unfold deref in *.
    assert (G : forall l i, (fix go (i : nat) (l : heap) : bool :=
                match l with [] => true | o :: r =>
                  match o with SList _ | SDict _ => forallb (fun x => Nat.ltb x i) (refs o) | SData _ => false | _ => true end
                  && go (S i) r end) i l = true ->
              forall k, (match nth k l SNone with SList _ | SDict _ => True | _ => False end) ->
                        In y (refs (nth k l SNone)) -> (y < i + k)%nat).
    { induction l as [|o l IH]; intros i Hg k Hk Hin; [destruct k; destruct Hk|].
      apply andb_true_iff in Hg as [Ho Hg]. destruct k as [|k]; cbn [nth] in *.
      - destruct o; try destruct Hk; rewrite forallb_forall in Ho; specialize (Ho y Hin); apply Nat.ltb_lt in Ho; lia.
      - specialize (IH (S i) Hg k Hk Hin). lia. }
    exact (G h 0%nat Hrk x Hc Hy).
  Qed.

  Lemma no_sdata : forall x fs, deref h x = SData fs -> False.
  Proof.
    intros x fs Hd. unfold container_ranked in Hrk. unfold deref in Hd.
    assert (G : forall l i, (fix go (i : nat) (l : heap) : bool :=
                match l with [] => true | o :: r =>
                  match o with SList _ | SDict _ => forallb (fun x => Nat.ltb x i) (refs o) | SData _ => false | _ => true end
                  && go (S i) r end) i l = true -> forall k, nth k l SNone <> SData fs).
    { induction l as [|o l IH]; intros i Hg k; [destruct k; discriminate|].
      apply andb_true_iff in Hg as [Ho Hg]. destruct k as [|k]; cbn [nth].
      - destruct o; try discriminate.
      - exact (IH (S i) Hg k). }
    exact (G h 0%nat Hrk x Hd).
  Qed.

  Lemma in_range : forall x, deref h x <> SNone -> (x < L)%nat.
  Proof.
    intros x Hd. destruct (Nat.lt_ge_cases x L) as [Hlt|Hge]; [exact Hlt|].
    exfalso. apply Hd. unfold deref. apply nth_overflow. unfold L in Hge. lia.
  Qed.

  (* cattrs' own walk from a container: ranked containers, dataclasses are copied shallowly *)
  Lemma walk_total_c : forall x fuel, (x < fuel)%nat -> exists m, cattrs_walk fuel h x = SOk m.
  Proof.
    induction x as [x IH] using lt_wf_ind. intros fuel Hf. destruct fuel as [|f]; [lia|]. cbn [cattrs_walk].
    destruct (deref h x) as [| j | items | kvs | kvs | kvs] eqn:Ed; try (eexists; reflexivity).
    - destruct (smap_exists (cattrs_walk f h) (fun _ => True) items) as [l [Hl _]]; [|rewrite Hl; eexists; reflexivity].
      intros y Hy. assert (y < x)%nat by (apply ranked_container_refs; [rewrite Ed; exact I | rewrite Ed; exact Hy]).
      destruct (IH y H f ltac:(lia)) as [m Hm]. exists m. split; [exact Hm | exact I].
    - destruct (smap_exists (fun kv : str * nat => sbind (cattrs_walk f h (snd kv)) (fun m => SOk (fst kv, m)))
                  (fun _ => True) kvs) as [l [Hl _]]; [|rewrite Hl; eexists; reflexivity].
      intros [k y] Hy. cbn [fst snd].
      assert (y < x)%nat by (apply ranked_container_refs; [rewrite Ed; exact I | rewrite Ed; cbn [refs]; apply in_map_iff; exists (k, y); auto]).
      destruct (IH y H f ltac:(lia)) as [m Hm]. rewrite Hm. eexists. split; [reflexivity | exact I].
    - exfalso. exact (no_sdata x kvs Ed).
  Qed.

  Lemma ens_mixed_total_raw : forall raw, (forall y, exists j, raw y = SOk j) ->
    forall m, exists j, ens_mixed raw m = SOk j.
  Proof.
    intros raw Hraw. induction m using mixed_ind'; cbn [ens_mixed]; try (eexists; reflexivity).
    - destruct (smap_exists (ens_mixed raw) (fun _ => True) l) as [l' [Hl _]]; [|rewrite Hl; eexists; reflexivity].
      intros x Hx. rewrite Forall_forall in H. destruct (H x Hx) as [j Hj]. exists j. split; [exact Hj | exact I].
    - destruct (dict_loop_exists (ens_mixed raw) kvs) as [l Hl]; [|rewrite Hl; eexists; reflexivity].
      intros kv Hkv. rewrite Forall_forall in H. exact (H kv Hkv).
    - apply Hraw.
  Qed.

  Definition okE (r : sres json) : Prop := exists j, r = SOk j.

  (* the three simultaneous claims, by induction on the recursion budget *)
  Lemma ser_total : forall fuel,
    (forall vis x, (F vis * (L + 2) + Nat.min x L + 2 <= fuel)%nat -> okE (ser fuel h false vis x)) /\
    (forall vis x fs, deref h x = SFwd fs -> (F vis * (L + 2) + 1 <= fuel)%nat -> serializer_ok (ser fuel h true vis x)) /\
    (forall vis x, (F vis * (L + 2) + L + 2 + Nat.min x L + 2 <= fuel)%nat -> serializer_ok (ser fuel h true vis x)).
  Proof.
    induction fuel as [|f [IHE [IHF IHT]]].
    - split; [|split]; intros; lia.
    - assert (HF : forall vis x fs, deref h x = SFwd fs -> (F vis * (L + 2) + 1 <= S f)%nat ->
                     serializer_ok (ser (S f) h true vis x)).
      { intros vis x fs Ed Hb. unfold serializer_ok. cbn [ser]. rewrite Ed.
        destruct (existsb (Nat.eqb x) vis) eqn:Em; [exists JNull; split; reflexivity|].
        assert (Hlt : (F (x :: vis) < F vis)%nat) by (apply (F_cons_lt x vis fs Ed); exact Em).
        destruct f as [|f']; [nia|].
        cbn [cattrs_walk]. rewrite Ed. cbn [sbind].
        destruct (ens_mixed_total_raw (ser (S f') h false (x :: vis))) with
          (m := MObj (map (fun kv : str * nat => (fst kv, MRaw (snd kv))) fs)) as [j Hj].
        { intro y. apply IHE. pose proof (Nat.le_min_r y L). nia. }
        rewrite Hj. cbn [sbind]. eexists. split; [reflexivity | apply remove_none_clean]. }
      split; [|split; [exact HF|]].
      + (* ens on a raw object *)
        intros vis x Hb. unfold okE. cbn [ser].
        destruct (deref h x) as [| j | items | kvs | kvs | kvs] eqn:Ed; try (eexists; reflexivity).
        * assert (Hx : (x < L)%nat) by (apply in_range; rewrite Ed; discriminate).
          destruct (smap_exists (ser f h false vis) (fun _ => True) items) as [l [Hl _]]; [|rewrite Hl; eexists; reflexivity].
          intros y Hy. assert (y < x)%nat by (apply ranked_container_refs; [rewrite Ed; exact I | rewrite Ed; exact Hy]).
          destruct (IHE vis y) as [j Hj]; [rewrite !Nat.min_l in * by lia; lia|]. exists j. split; [exact Hj | exact I].
        * assert (Hx : (x < L)%nat) by (apply in_range; rewrite Ed; discriminate).
          destruct (dict_loop_exists (ser f h false vis) kvs) as [l Hl]; [|rewrite Hl; eexists; reflexivity].
          intros [k y] Hy. cbn [snd].
          assert (y < x)%nat by (apply ranked_container_refs; [rewrite Ed; exact I | rewrite Ed; cbn [refs]; apply in_map_iff; exists (k, y); auto]).
          apply IHE. rewrite !Nat.min_l in * by lia. lia.
        * exfalso. exact (no_sdata x kvs Ed).
        * destruct (IHF vis x kvs Ed) as [j [Hj _]]; [lia|]. exists j. exact Hj.
      + (* _serialize_with_tracking on anything *)
        intros vis x Hb.
        destruct (deref h x) as [| j | items | kvs | kvs | kvs] eqn:Ed; [| | | | | apply (HF vis x kvs Ed); lia];
          unfold serializer_ok; cbn [ser]; rewrite Ed.
        * exists JNull. split; reflexivity.
        * exists j. split; [reflexivity|].
          assert (Hj : scalar_json j = true).
          { unfold scalars_ok in Hsc. rewrite forallb_forall in Hsc.
            exact (Hsc (SScalar j) (deref_in h x _ Ed ltac:(discriminate))). }
          destruct j; try discriminate Hj; reflexivity.
        * destruct (existsb (Nat.eqb x) vis); [exists JNull; split; reflexivity|].
          assert (Hx : (x < L)%nat) by (apply in_range; rewrite Ed; discriminate).
          destruct (smap_exists (ser f h true (x :: vis)) (fun j => no_null_keys j = true) items) as [l [Hl Pl]].
          { intros y Hy. assert (y < x)%nat by (apply ranked_container_refs; [rewrite Ed; exact I | rewrite Ed; exact Hy]).
            apply IHT. pose proof (F_cons_le x vis). rewrite !Nat.min_l in * by lia. nia. }
          rewrite Hl. cbn [sbind]. eexists. split; [reflexivity|].
          cbn [no_null_keys]. rewrite forallb_forall. rewrite Forall_forall in Pl. exact Pl.
        * destruct (existsb (Nat.eqb x) vis); [exists JNull; split; reflexivity|].
          assert (Hx : (x < L)%nat) by (apply in_range; rewrite Ed; discriminate).
          destruct (walk_total_c x f) as [m Hm]; [rewrite Nat.min_l in Hb by lia; lia|]. rewrite Hm. cbn [sbind].
          destruct (ens_mixed_total_raw (ser f h false vis)) with (m := m) as [j Hj].
          { intro y. apply IHE. pose proof (Nat.le_min_r y L). lia. }
          rewrite Hj. cbn [sbind]. eexists. split; [reflexivity | apply remove_none_clean].
        * exfalso. exact (no_sdata x kvs Ed).
  Qed.
End Cyclic.

Lemma filter_len_le : forall {A} (p : A -> bool) l, (length (filter p l) <= length l)%nat.
Proof. intros A p. induction l as [|a l IH]; [reflexivity|]. cbn [filter]. destruct (p a); cbn [length]; lia. Qed.

Lemma F_le : forall h vis, (F h vis <= length h)%nat.
Proof.
  intros h vis. unfold F, unvisited.
  pose proof (filter_len_le (fun i => is_fwd (deref h i) && negb (memb i vis)) (seq 0 (length h))) as H.
  rewrite seq_length in H. exact H.
Qed.

(* from every root, with the model's budget: termination, JSON, no null-valued key — cycles included *)
Theorem serializer_cyclic : forall h, container_ranked h = true -> scalars_ok h = true ->
  forall r, serializer_ok (serialize_top h r).
Proof.
  intros h Hrk Hsc r. unfold serialize_top, fuel_for.
  apply (proj2 (proj2 (ser_total h Hrk Hsc ((length h + 2) * (length h + 2))))).
  pose proof (F_le h []). pose proof (Nat.le_min_r r (length h)). nia.
Qed.

(* non-vacuity: pair cycle, back edge through a dict-typed attribute, child.parent inside a list *)
Definition h_cyc2 : heap :=
  [SNone; SScalar (JInt 1);
   SFwd [([112], 3%nat); ([105], 4%nat); ([107], 6%nat)];     (* 2: A: p -> B, i -> dict, k -> kids *)
   SFwd [([112], 2%nat)];                                         (* 3: B: p -> A *)
   SDict [([109], 2%nat); ([110], 0%nat)];                        (* 4: {"m": A, "n": None} *)
   SFwd [([112], 2%nat); ([118], 1%nat)];                         (* 5: child: p -> A, v -> 1 *)
   SList [5%nat]].                                                (* 6: [child] *)
Lemma h_cyc2_in_class :
  container_ranked h_cyc2 = true /\ scalars_ok h_cyc2 = true /\ ranked h_cyc2 = false /\
  serialize_top h_cyc2 2 = SOk (JObj [([112], JObj []); ([105], JObj []); ([107], JArr [JObj [([118], JInt 1)]])]).
Proof. vm_compute. repeat split. Qed.
