(* C05 — the single statement over the whole record [dcase]:  wf_dcase d -> c05_guard d -> C05_holds d. *)
From PG Require Import Lib.Strs Model.Dispatch Model.Response Proofs.Dispatch Proofs.Response.
From Coq Require Import Lia ZifyBool Arith PeanoNat.

(* ---------- equalities ---------- *)
Lemma code_eqb_eq : forall a b, code_eqb a b = true -> a = b.
Proof.
  intros [n| |s] [m| |t] H; simpl in H; try discriminate; try reflexivity.
  - apply N.eqb_eq in H. subst. reflexivity.
  - apply str_eqb_eq in H. subst. reflexivity.
Qed.
Lemma code_eqb_refl : forall a, code_eqb a a = true.
Proof. intros [n| |s]; simpl; [apply N.eqb_refl | reflexivity | apply str_eqb_refl]. Qed.
Lemma resp_eqb_code : forall a b, resp_eqb (to_resp a) (to_resp b) = true -> cr_code a = cr_code b.
Proof.
  intros a b H. unfold resp_eqb in H. apply andb_true_iff in H. destruct H as [H _]. apply code_eqb_eq in H. exact H.
Qed.
Lemma resp_eqb_refl : forall a, resp_eqb a a = true.
Proof. intro a. unfold resp_eqb. rewrite code_eqb_refl. destruct (r_content a); reflexivity. Qed.

(* ---------- lists ---------- *)
Lemma distinct_same : forall l a b, distinct_codes (map cr_code l) = true ->
  In a l -> In b l -> cr_code a = cr_code b -> a = b.
Proof.
  induction l as [|x l IH]; intros a b Hd Ha Hb Hc; [destruct Ha|].
  simpl in Hd. apply andb_true_iff in Hd. destruct Hd as [Hx Hd]. apply negb_true_iff in Hx.
  assert (Hno : forall y, In y l -> cr_code x = cr_code y -> False).
  { intros y Hy E. assert (existsb (code_eqb (cr_code x)) (map cr_code l) = true); [|congruence].
    apply existsb_exists. exists (cr_code y). split; [apply in_map; exact Hy | rewrite E; apply code_eqb_refl]. }
  destruct Ha as [Ha|Ha]; destruct Hb as [Hb|Hb]; subst.
  - reflexivity.
  - exfalso. eapply Hno; eauto.
  - exfalso. eapply Hno; eauto.
  - apply IH; auto.
Qed.

Lemma find_In_unique : forall {A} (f : A -> bool) l r,
  In r l -> f r = true -> (forall x, In x l -> f x = true -> x = r) -> find f l = Some r.
Proof.
  intros A f. induction l as [|y l IH]; intros r Hin Hf Hu; [destruct Hin|]. simpl.
  destruct (f y) eqn:E.
  - f_equal. apply Hu; [left; reflexivity | exact E].
  - destruct Hin as [->|Hin]; [congruence|]. apply IH; auto. intros x Hx. apply Hu. right. exact Hx.
Qed.
Lemma find_filter : forall {A} (f g : A -> bool) l, find f (filter g l) = find (fun x => g x && f x) l.
Proof.
  intros A f g. induction l as [|y l IH]; [reflexivity|]. simpl. destruct (g y); simpl; [destruct (f y); auto | auto].
Qed.
Lemma find_none_all : forall {A} (f : A -> bool) l, (forall x, In x l -> f x = false) -> find f l = None.
Proof.
  intros A f. induction l as [|y l IH]; intro H; [reflexivity|]. simpl. rewrite (H y (or_introl eq_refl)).
  apply IH. intros x Hx. apply H. right. exact Hx.
Qed.

(* ---------- where the primary response lives ---------- *)
Lemma cprocessed_In : forall o p n, cprocessed o = Some (p, n) -> In p o /\ cr_code p = Num n /\ lead2 n = true.
Proof.
  intros o p n H. unfold cprocessed in H.
  destruct (processed_primary (map to_resp o)) as [[pr k]|] eqn:E; [|discriminate].
  destruct (find (fun r => resp_eqb (to_resp r) pr) o) as [r|] eqn:F; [|discriminate]. inversion H; subst r k. clear H.
  apply find_some in F. destruct F as [Hin He].
  unfold processed_primary in E. destruct (primary_eu (map to_resp o)) as [q|]; [|discriminate].
  destruct (r_code q) as [m| |s] eqn:C; try discriminate. destruct (lead2 m) eqn:L; [|discriminate].
  inversion E; subst q m. clear E.
  split; [exact Hin|]. split; [|exact L].
  unfold resp_eqb in He. apply andb_true_iff in He. destruct He as [He _]. apply code_eqb_eq in He.
  cbn [to_resp r_code] in He. rewrite He. exact C.
Qed.
Lemma cprimary_In : forall o p, cprimary o = Some p -> In p o.
Proof.
  intros o p H. unfold cprimary in H. destruct (primary_rs (map to_resp o)); [|discriminate].
  apply find_some in H. tauto.
Qed.

Lemma declared_num_In : forall o x n, In x o -> cr_code x = Num n -> declared_num o n = true.
Proof.
  intros o x n Hin Hc. unfold declared_num. apply existsb_exists. exists x. split; [exact Hin|]. rewrite Hc. apply N.eqb_refl.
Qed.

Definition prim_path (reg : registry) (o : cop) (ct : str) : path :=
  if is_none_ret (resolve o) then PNone else strategy_path reg (nd_of o) (pc_of o) (resolve o) ct.

(* the response is the processed numeric primary *)
Lemma locate_primary_num : forall reg o r p n ct,
  distinct_codes (map cr_code o) = true -> In r o ->
  cprocessed o = Some (p, n) -> resp_eqb (to_resp p) (to_resp r) = true ->
  p = r /\ cr_code r = Num n /\ cprimary o = Some r /\ handle reg o n ct = prim_path reg o ct.
Proof.
  intros reg o r p n ct Hd Hr Hp He. destruct (cprocessed_In _ _ _ Hp) as (Hpin & Hpc & _).
  assert (p = r) by (apply (distinct_same o); auto; apply resp_eqb_code; exact He). subst p.
  split; [reflexivity|]. split; [exact Hpc|]. split; [eapply cprocessed_cprimary; eauto|].
  rewrite (handle_primary _ _ _ _ _ Hp). reflexivity.
Qed.

(* a numeric 2xx response that is not the processed primary is a secondary case *)
Lemma locate_secondary_num : forall reg o r m ct,
  distinct_codes (map cr_code o) = true -> In r o -> cr_code r = Num m -> lead2 m = true ->
  (forall p n, cprocessed o = Some (p, n) -> resp_eqb (to_resp p) (to_resp r) = false) ->
  handle reg o m ct = secondary_path reg (nd_of o) (resolve o) ct r /\ In r (cothers o).
Proof.
  intros reg o r m ct Hd Hr Hc Hl Hnp.
  assert (Hfind : forall l, In r l -> (forall x, In x l -> In x o) -> find_status m l = Some r).
  { intros l Hin Hsub. unfold find_status. apply find_In_unique; [exact Hin | rewrite Hc; apply N.eqb_refl|].
    intros x Hx Hf. destruct (cr_code x) as [k| |s] eqn:Cx; try discriminate. apply N.eqb_eq in Hf. subst k.
    apply (distinct_same o); auto. congruence. }
  unfold handle, cothers. destruct (cprocessed o) as [[p n]|] eqn:Hp.
  - destruct (cprocessed_In _ _ _ Hp) as (Hpin & Hpc & _). specialize (Hnp p n eq_refl).
    assert (Hne : n <> m).
    { intro E. subst n. assert (p = r) by (apply (distinct_same o); auto; congruence). subst p.
      rewrite resp_eqb_refl in Hnp. discriminate. }
    replace (n =? m) with false by (symmetry; apply N.eqb_neq; exact Hne).
    assert (Hin : In r (filter (fun x => negb (resp_eqb (to_resp x) (to_resp p))) o)).
    { apply filter_In. split; [exact Hr|]. apply negb_true_iff.
      destruct (resp_eqb (to_resp r) (to_resp p)) eqn:E; [|reflexivity].
      apply resp_eqb_code in E. exfalso. apply Hne. congruence. }
    rewrite (Hfind _ Hin) by (intros x Hx; apply filter_In in Hx; tauto).
    rewrite Hc, Hl. split; [reflexivity | exact Hin].
  - rewrite (Hfind o Hr) by auto. rewrite Hc, Hl. split; [reflexivity | exact Hr].
Qed.

(* the one "2XX" range response, answered with a 2xx status that has no numeric case *)
Lemma locate_wildcard : forall reg o r st ct,
  distinct_codes (map cr_code o) = true -> In r o -> is_wildcard_2xx (cr_code r) = true ->
  forallb (fun x => implb (is_wildcard_2xx (cr_code x)) (code_eqb (cr_code x) (cr_code r))) o = true ->
  declared_num o st = false -> in_range wildcard_lo wildcard_hi st = true ->
  handle reg o st ct = (if is_strategy_resp o r then prim_path reg o ct else secondary_path reg (nd_of o) (resolve o) ct r)
  /\ In r (cothers o) /\ wildcard_resp o = Some r.
Proof.
  intros reg o r st ct Hd Hr Hw Hu Hfree Hrange.
  assert (Hnum : forall x, In x o -> match cr_code x with Num k => k =? st | _ => false end = false).
  { intros x Hx. destruct (cr_code x) as [k| |s] eqn:Cx; try reflexivity.
    destruct (k =? st) eqn:E; [|reflexivity]. apply N.eqb_eq in E. subst k.
    rewrite (declared_num_In o x st Hx Cx) in Hfree. discriminate. }
  assert (Hwild : forall l, In r l -> (forall x, In x l -> In x o) ->
                            find (fun x => is_wildcard_2xx (cr_code x)) l = Some r).
  { intros l Hin Hsub. apply find_In_unique; [exact Hin | exact Hw|].
    intros x Hx Hf. rewrite forallb_forall in Hu. specialize (Hu x (Hsub x Hx)). rewrite Hf in Hu. cbn [implb] in Hu.
    apply code_eqb_eq in Hu. apply (distinct_same o); auto. }
  unfold handle, wildcard_resp, cothers. destruct (cprocessed o) as [[p n]|] eqn:Hp.
  - destruct (cprocessed_In _ _ _ Hp) as (Hpin & Hpc & _).
    assert (Hne : n <> st).
    { intro E. subst n. rewrite (declared_num_In o p st Hpin Hpc) in Hfree. discriminate. }
    replace (n =? st) with false by (symmetry; apply N.eqb_neq; exact Hne).
    assert (Hin : In r (filter (fun x => negb (resp_eqb (to_resp x) (to_resp p))) o)).
    { apply filter_In. split; [exact Hr|]. apply negb_true_iff.
      destruct (resp_eqb (to_resp r) (to_resp p)) eqn:E; [|reflexivity].
      apply resp_eqb_code in E. rewrite Hpc in E. rewrite E in Hw. discriminate. }
    unfold find_status. rewrite find_none_all by (intros x Hx; apply Hnum; apply filter_In in Hx; tauto).
    rewrite (Hwild _ Hin) by (intros x Hx; apply filter_In in Hx; tauto). rewrite Hrange.
    split; [reflexivity | split; [exact Hin | reflexivity]].
  - unfold find_status. rewrite find_none_all by (intros x Hx; apply Hnum; exact Hx).
    rewrite (Hwild o Hr) by auto. rewrite Hrange. split; [reflexivity | split; [exact Hr | reflexivity]].
Qed.

Lemma strategy_resp_primary : forall o r,
  distinct_codes (map cr_code o) = true -> In r o -> is_strategy_resp o r = true -> cprimary o = Some r.
Proof.
  intros o r Hd Hr H. unfold is_strategy_resp in H. destruct (cprimary o) as [p|] eqn:E; [|discriminate].
  f_equal. apply (distinct_same o); auto; [eapply cprimary_In; eauto|]. symmetry. apply resp_eqb_code. exact H.
Qed.

(* ---------- dedup of the per-content-type Python types ---------- *)
Lemma dedup_nil : forall ts seen, dedup_types ts seen = [] ->
  forall x, In x ts -> existsb (rty_eqb_show x) seen = true.
Proof.
  induction ts as [|h ts IH]; intros seen H x Hx; [destruct Hx|]. simpl in H.
  destruct (existsb (rty_eqb_show h) seen) eqn:E; [|discriminate].
  destruct Hx as [->|Hx]; [exact E | eapply IH; eauto].
Qed.
Lemma dedup_single : forall ts seen t, dedup_types ts seen = [t] ->
  In t ts /\ forall x, In x ts -> existsb (rty_eqb_show x) seen = true \/ str_eqb (show x) (show t) = true.
Proof.
  induction ts as [|h ts IH]; intros seen t H; [discriminate|]. simpl in H.
  destruct (existsb (rty_eqb_show h) seen) eqn:E.
  - destruct (IH _ _ H) as [Hin Hall]. split; [right; exact Hin|].
    intros x [->|Hx]; [left; exact E | apply Hall; exact Hx].
  - inversion H as [[Ht Hrest]]. subst h. split; [left; reflexivity|].
    intros x [->|Hx]; [right; apply str_eqb_refl|].
    pose proof (dedup_nil _ _ Hrest x Hx) as Hs. rewrite existsb_app in Hs. apply orb_true_iff in Hs.
    destruct Hs as [Hs|Hs]; [left; exact Hs|]. right. cbn [existsb] in Hs. rewrite orb_false_r in Hs. exact Hs.
Qed.
Lemma dedup_head : forall h ts, exists rest, dedup_types (h :: ts) [] = h :: rest.
Proof. intros h ts. simpl. eexists. reflexivity. Qed.

(* ---------- the if/elif/else chain on the Content-Type ---------- *)
Lemma switch_pick : forall reg (cs : list centry) e,
  distinct_strs_b (map (fun x => lower_s (c_media x)) cs) = true -> In e cs ->
  switch reg (map (fun x => (c_media x, ctype_to_python x)) cs) (lower_s (c_media e)) = switch_path reg (ctype_to_python e).
Proof.
  intros reg. induction cs as [|x cs IH]; intros e Hd Hin; [destruct Hin|].
  simpl in Hd. apply andb_true_iff in Hd. destruct Hd as [Hx Hd]. apply negb_true_iff in Hx.
  destruct cs as [|y cs'].
  - destruct Hin as [->|[]]. reflexivity.
  - cbn [map switch]. cbn [map] in IH.
    destruct Hin as [->|Hin].
    + rewrite str_eqb_refl. reflexivity.
    + destruct (str_eqb (lower_s (c_media e)) (lower_s (c_media x))) eqn:E.
      * exfalso. apply str_eqb_eq in E. assert (mem_str (lower_s (c_media x)) (map (fun z => lower_s (c_media z)) (y :: cs')) = true); [|congruence].
        apply mem_str_In. rewrite <- E. apply (in_map (fun z => lower_s (c_media z))). exact Hin.
      * apply IH; assumption.
Qed.

Lemma distinct_media_same : forall (cs : list centry) a b,
  distinct_strs_b (map (fun x => lower_s (c_media x)) cs) = true -> In a cs -> In b cs -> c_media a = c_media b -> a = b.
Proof.
  induction cs as [|x cs IH]; intros a b Hd Ha Hb Hm; [destruct Ha|].
  simpl in Hd. apply andb_true_iff in Hd. destruct Hd as [Hx Hd]. apply negb_true_iff in Hx.
  assert (Hno : forall y, In y cs -> c_media x = c_media y -> False).
  { intros y Hy E. assert (mem_str (lower_s (c_media x)) (map (fun z => lower_s (c_media z)) cs) = true); [|congruence].
    apply mem_str_In. rewrite E. apply (in_map (fun z => lower_s (c_media z))). exact Hy. }
  destruct Ha as [Ha|Ha]; destruct Hb as [Hb|Hb]; subst; auto; exfalso; eapply Hno; eauto.
Qed.

(* json_path only looks at the rendered string *)
Lemma json_path_show : forall reg t u, show t = show u -> json_path reg t = json_path reg u.
Proof. intros reg t u H. unfold json_path. rewrite H. reflexivity. Qed.

Lemma delivers_structured_json : forall reg t imported,
  heuristic_ok reg t && implb (needs_structure t) (deser_direct reg t) = true ->
  (should_use_cattrs reg (show t) = true -> imported = true) ->
  delivers imported (json_path reg t) (want_json t) = true.
Proof.
  intros reg t imported H Himp. apply andb_true_iff in H. destruct H as [Hh Hd].
  unfold heuristic_ok in Hh. apply Bool.eqb_prop in Hh.
  unfold json_path, want_json. rewrite Hh. destruct (needs_structure t) eqn:En.
  - cbn [implb] in Hd. unfold deser_direct in Hd.
    destruct (deser_code reg (show t) s_rj) as [c|]; [|discriminate]. cbn [delivers].
    rewrite (Himp Hh), Hd. reflexivity.
  - reflexivity.
Qed.

(* ---------- per-entry facts ---------- *)
Lemma json_like_split : forall m, json_like m = true -> is_binary_media m = false /\ prefixb p_text m = false.
Proof.
  intros m H. unfold json_like in H. apply andb_true_iff in H. destruct H as [A B].
  apply negb_true_iff in A. apply negb_true_iff in B. auto.
Qed.
Lemma json_like_python : forall e, json_like (c_media e) = true -> ctype_to_python e = c_type e.
Proof. intros e H. destruct (json_like_split _ H) as [A B]. unfold ctype_to_python. rewrite A, B. reflexivity. Qed.

Lemma entry_ok_facts : forall cs e, forallb entry_type_ok cs = true -> In e cs ->
  str_eqb (show (ctype_to_python e)) s_None = false /\ prefixb (s_Union ++ s_lb) (show (ctype_to_python e)) = false
  /\ str_eqb (show (c_type e)) s_None = false /\ prefixb (s_Union ++ s_lb) (show (c_type e)) = false
  /\ (c_binfmt e = true -> is_binary_media (c_media e) = true).
Proof.
  intros cs e H Hin. rewrite forallb_forall in H. specialize (H e Hin). unfold entry_type_ok in H.
  repeat (apply andb_true_iff in H; destruct H as [H ?]).
  repeat match goal with X : negb _ = true |- _ => apply negb_true_iff in X end.
  repeat split; auto. intro Hb. rewrite Hb in *. cbn [implb] in *. assumption.
Qed.

Lemma no_binary_no_binfmt : forall cs, forallb entry_type_ok cs = true ->
  existsb (fun e => is_binary_media (c_media e)) cs = false -> existsb c_binfmt cs = false.
Proof.
  intros cs Hok Hb. destruct (existsb c_binfmt cs) eqn:E; [|reflexivity]. exfalso.
  apply existsb_exists in E. destruct E as (e & Hin & Hf).
  destruct (entry_ok_facts cs e Hok Hin) as (_ & _ & _ & _ & Hbin).
  assert (existsb (fun e => is_binary_media (c_media e)) cs = true); [|congruence].
  apply existsb_exists. exists e. auto.
Qed.
Lemma not_stream_no_binfmt : forall r e, is_stream r = false -> In e (cr_content r) -> c_binfmt e = false.
Proof.
  intros r e H Hin. unfold is_stream in H. apply orb_false_iff in H. destruct H as [_ H].
  destruct (c_binfmt e) eqn:E; [|reflexivity]. assert (existsb c_binfmt (cr_content r) = true); [|congruence].
  apply existsb_exists. exists e. auto.
Qed.

Lemma want_json_cases : forall t (P : want -> Prop), P (WJsonTyped t) -> P (WJsonRaw t) -> P (want_json t).
Proof. intros t P A B. unfold want_json. destruct (needs_structure t); assumption. Qed.

(* ---------- the primary / strategy branch ---------- *)
Definition single_content (r : cresp) : bool := match cr_content r with [_] => true | _ => false end.
Definition collapsed_content (r : cresp) : bool :=
  match dedup_types (map ctype_to_python (cr_content r)) [] with [_] => true | _ => false end.
Definition the_ct (eo : option centry) : str := match eo with Some e => lower_s (c_media e) | None => [] end.

Lemma prefixb_split : forall p s, prefixb p s = true -> exists r, s = p ++ r.
Proof.
  induction p as [|x p IH]; intros s H; [exists s; reflexivity|].
  destruct s as [|y s]; simpl in H; [discriminate|]. apply andb_true_iff in H. destruct H as [E H].
  apply N.eqb_eq in E. subst y. destruct (IH s H) as [r ->]. exists r. reflexivity.
Qed.
(* a text/* media type is not in the binary media table (regenerated tables, by computation on the "text/" prefix) *)
Lemma text_not_binary : forall m, prefixb p_text m = true -> is_binary_media m = false.
Proof. intros m H. destruct (prefixb_split _ _ H) as [r ->]. reflexivity. Qed.

Definition raw_matches (raw : option path) (e : centry) : bool :=
  match raw with
  | Some PText => prefixb p_text (c_media e)
  | Some PContent => is_binary_media (c_media e)
  | _ => false
  end.

Lemma raw_fires_delivers : forall reg nd pc s ct e r imported,
  st_streaming s = false -> is_stream r = false ->
  raw_matches (raw_accessor pc (st_ret s)) e = true ->
  delivers imported (strategy_path reg nd pc s ct) (ideal true r (Some e)) = true
  /\ match ideal true r (Some e) with WJsonTyped _ | WJsonRaw _ => False | _ => True end.
Proof.
  intros reg nd pc s ct e r imported Hst Hs H. unfold strategy_path. rewrite Hst. unfold ideal. rewrite Hs. cbn [andb].
  destruct (raw_accessor pc (st_ret s)) as [p|]; [destruct p|]; try discriminate; cbn [raw_matches] in H.
  - rewrite (text_not_binary _ H), H. split; [reflexivity | exact I].
  - rewrite H. split; [reflexivity | exact I].
Qed.

Lemma primary_delivers : forall reg o r eo imported,
  cprimary o = Some r ->
  distinct_strs_b (map (fun x => lower_s (c_media x)) (cr_content r)) = true ->
  forallb entry_type_ok (cr_content r) = true ->
  match eo with Some e => In e (cr_content r) | None => cr_content r = [] end ->
  (forall e, eo = Some e -> is_stream r = false -> json_like (c_media e) = true ->
     heuristic_ok reg (c_type e) && implb (needs_structure (c_type e)) (deser_direct reg (c_type e)) = true
     /\ covers (st_ret (resolve o)) (c_type e) = true) ->
  (forall e, eo = Some e -> is_stream r = false ->
     if json_like (c_media e)
     then single_content r || collapsed_content r || negb (mem_str (show (ctype_to_python e)) [s_str; s_bytes]) = true
     else raw_matches (raw_accessor (cr_content r) (st_ret (resolve o))) e
          || negb (single_content r || collapsed_content r) = true) ->
  ideal true r eo <> WStreamItems ->
  (ideal true r eo = WStreamLines -> exists b, stream_path reg (nd_of o) (resolve o) = PStreamNdjson b) ->
  (strategy_registers reg (nd_of o) (pc_of o) (resolve o) = true -> imported = true) ->
  delivers imported (prim_path reg o (the_ct eo)) (ideal true r eo) = true
  /\ match ideal true r eo with WJsonTyped t | WJsonRaw t => covers (st_ret (resolve o)) t = true | _ => True end.
Proof.
  intros reg o r eo imported Hprim Hdm Hok Heo Gbi Gc Gf Gl Himp.
  assert (Hnd : nd_of o = is_ndjson_resp r) by (unfold nd_of; rewrite Hprim; reflexivity).
  assert (Hpc : pc_of o = cr_content r) by (unfold pc_of; rewrite Hprim; reflexivity).
  unfold prim_path. rewrite Hpc in *. unfold resolve in *. rewrite Hprim in *.
  destruct (cr_content r) as [|c0 rest] eqn:Hc.
  { destruct eo as [e|]; [destruct Heo|]. cbn. split; [reflexivity | exact I]. }
  destruct eo as [e|]; [|discriminate]. cbn [the_ct].
  assert (Hfacts := entry_ok_facts _ e Hok Heo). destruct Hfacts as (Hpn & Hpu & Htn & Htu & Hbin).
  destruct (is_stream r) eqn:Hs.
  - (* streaming primary *)
    replace (match rest with [] => if true then resolve_streaming r else mk_plain (c_type c0)
                        | _ :: _ => if true then resolve_streaming r else resolve_multi r end)
      with (resolve_streaming r) in * by (destruct rest; reflexivity).
    unfold resolve_streaming in *. rewrite Hc in *.
    unfold ideal in *. rewrite Hs in *. cbn [andb orb] in *. rewrite Hc in *.
    destruct (existsb (fun x => is_binary_media (c_media x)) (c0 :: rest)) eqn:Hb.
    + cbn [orb]. split; [vm_compute; reflexivity | exact I].
    + rewrite (no_binary_no_binfmt _ Hok Hb) in *. cbn [orb] in *.
      destruct (existsb (fun x => contains_s w_event_stream (c_media x)) (c0 :: rest)) eqn:He.
      * assert (Hnd0 : nd_of o = false) by (rewrite Hnd; unfold is_ndjson_resp; rewrite Hc, He; apply andb_false_r).
        rewrite Hnd0. split; [vm_compute; reflexivity | exact I].
      * destruct (is_ndjson_resp r) eqn:Hn; [|exfalso; apply Gf; reflexivity].
        destruct (Gl eq_refl) as [b Hb']. unfold strategy_path, is_none_ret in *. cbn [st_streaming] in *.
        split; [|exact I].
        destruct (strategy_schema (c0 :: rest)) as [e0|]; cbn [st_ret st_streaming] in *; rewrite Hb';
          (replace (str_eqb (show (TAsyncIter _)) s_None) with false by reflexivity); reflexivity.
  - (* not a stream *)
    specialize (Gc e eq_refl eq_refl). unfold single_content, collapsed_content in Gc. rewrite Hc in Gc.
    assert (Hnb := not_stream_no_binfmt r e Hs ltac:(rewrite Hc; exact Heo)).
    destruct rest as [|c1 rest'].
    + (* a single content type *)
      destruct Heo as [->|[]]. cbn [orb] in Gc.
      destruct (json_like (c_media e)) eqn:Hj.
      * destruct (json_like_split _ Hj) as [Hnbin Hntext].
        destruct (Gbi e eq_refl eq_refl Hj) as [Hb Hcov].
        assert (Hraw : raw_accessor [e] (c_type e) = None) by (apply (raw_none_member _ e); auto; left; reflexivity).
        unfold ideal. rewrite Hs. cbn [andb]. rewrite Hnbin, Hntext.
        unfold is_none_ret, strategy_path. cbn [mk_plain st_ret st_streaming st_mapping]. rewrite Htn, Hraw, Htu.
        change (if needs_structure (c_type e) then WJsonTyped (c_type e) else WJsonRaw (c_type e)) with (want_json (c_type e)).
        split.
        -- apply delivers_structured_json; [exact Hb|]. intro Hsu. apply Himp.
           unfold strategy_registers, is_none_ret. cbn [mk_plain st_ret st_streaming st_mapping]. rewrite Htn, Hraw, Htu, Hsu. reflexivity.
        -- unfold want_json; destruct (needs_structure (c_type e)); exact Hcov.
      * rewrite orb_false_r in Gc. cbn [mk_plain st_ret] in Gc.
        unfold is_none_ret. cbn [mk_plain st_ret]. rewrite Htn.
        destruct (raw_fires_delivers reg (nd_of o) [e] (mk_plain (c_type e)) (lower_s (c_media e)) e r imported eq_refl Hs Gc) as [D W].
        split; [exact D|]. destruct (ideal true r (Some e)); tauto.
    + (* several content types *)
      unfold resolve_multi in *. rewrite Hc in *.
      assert (Hmm : map snd (map (fun x => (c_media x, ctype_to_python x)) (c0 :: c1 :: rest')) = map ctype_to_python (c0 :: c1 :: rest'))
        by (rewrite map_map; reflexivity).
      rewrite Hmm in *. clear Hmm.
      destruct (dedup_types (map ctype_to_python (c0 :: c1 :: rest')) []) as [|t [|t2 ts]] eqn:Hdd.
      * exfalso. cbn [map dedup_types existsb] in Hdd. discriminate.
      * (* all content types resolve to one Python type *)
        destruct (dedup_single _ _ _ Hdd) as [Htin Hall].
        apply in_map_iff in Htin. destruct Htin as (e0 & Het & He0).
        destruct (entry_ok_facts _ e0 Hok He0) as (Hpn0 & Hpu0 & _). rewrite Het in Hpn0, Hpu0.
        cbn [orb] in Gc.
        destruct (json_like (c_media e)) eqn:Hj.
        -- destruct (json_like_split _ Hj) as [Hnbin Hntext].
           destruct (Gbi e eq_refl eq_refl Hj) as [Hb Hcov].
           assert (Hshow : show t = show (c_type e)).
           { destruct (Hall (ctype_to_python e) (in_map ctype_to_python _ _ Heo)) as [F|E]; [discriminate|].
             apply str_eqb_eq in E. rewrite json_like_python in E by exact Hj. symmetry. exact E. }
           assert (Hraw : raw_accessor (c0 :: c1 :: rest') t = None) by (apply (raw_none_member _ e); auto).
           unfold ideal. rewrite Hs. cbn [andb]. rewrite Hnbin, Hntext.
           unfold is_none_ret, strategy_path. cbn [st_ret st_streaming st_mapping]. rewrite Hpn0, Hraw, Hpu0.
           rewrite (json_path_show reg t (c_type e) Hshow).
           change (if needs_structure (c_type e) then WJsonTyped (c_type e) else WJsonRaw (c_type e)) with (want_json (c_type e)).
           split.
           ++ apply delivers_structured_json; [exact Hb|]. intro Hsu. apply Himp.
              unfold strategy_registers, is_none_ret. cbn [st_ret st_streaming st_mapping]. rewrite Hpn0, Hraw, Hpu0, Hshow, Hsu. reflexivity.
           ++ unfold want_json; destruct (needs_structure (c_type e)); exact Hcov.
        -- rewrite orb_false_r in Gc. cbn [st_ret] in Gc.
           unfold is_none_ret. cbn [st_ret]. rewrite Hpn0.
           destruct (raw_fires_delivers reg (nd_of o) (c0 :: c1 :: rest')
                       {| st_ret := t; st_streaming := false;
                          st_mapping := Some (map (fun x => (c_media x, ctype_to_python x)) (c0 :: c1 :: rest')) |}
                       (lower_s (c_media e)) e r imported eq_refl Hs Gc) as [D W].
           split; [exact D|]. destruct (ideal true r (Some e)); tauto.
      * (* a Union return type with a Content-Type switch *)
        assert (Hraw : raw_accessor (c0 :: c1 :: rest') (TUnion (t :: t2 :: ts)) = None) by reflexivity.
        unfold ideal. rewrite Hs. cbn [andb].
        unfold is_none_ret, strategy_path. cbn [st_ret st_streaming st_mapping]. rewrite Hraw.
        replace (str_eqb (show (TUnion (t :: t2 :: ts))) s_None) with false by reflexivity.
        replace (prefixb (s_Union ++ s_lb) (show (TUnion (t :: t2 :: ts)))) with true by reflexivity.
        rewrite (switch_pick reg (c0 :: c1 :: rest') e Hdm Heo). unfold switch_path.
        destruct (is_binary_media (c_media e)) eqn:Hbin'.
        -- unfold ctype_to_python. rewrite Hbin'. split; [reflexivity | exact I].
        -- destruct (prefixb p_text (c_media e)) eqn:Htext.
           ++ assert (Hpy : ctype_to_python e = TPrim PStr).
              { unfold ctype_to_python. rewrite Hbin', Htext, Hnb. destruct (c_type e) as [| |[]| | | | | | | | |]; reflexivity. }
              rewrite Hpy. split; [reflexivity | exact I].
           ++ assert (Hj : json_like (c_media e) = true) by (unfold json_like; rewrite Hbin', Htext; reflexivity).
              rewrite Hj in Gc. cbn [orb] in Gc. apply negb_true_iff in Gc. cbn [mem_str] in Gc.
              apply orb_false_iff in Gc. destruct Gc as [Gs Gc]. apply orb_false_iff in Gc. destruct Gc as [Gby _].
              rewrite json_like_python in * by exact Hj. rewrite Gby, Gs.
              destruct (Gbi e eq_refl eq_refl Hj) as [Hb Hcov].
              change (if needs_structure (c_type e) then WJsonTyped (c_type e) else WJsonRaw (c_type e)) with (want_json (c_type e)).
              split.
              ** apply delivers_structured_json; [exact Hb|]. intro Hsu. apply Himp.
                 unfold strategy_registers, is_none_ret. cbn [st_ret st_streaming st_mapping]. rewrite Hraw.
                 replace (str_eqb (show (TUnion (t :: t2 :: ts))) s_None) with false by reflexivity.
                 replace (prefixb (s_Union ++ s_lb) (show (TUnion (t :: t2 :: ts)))) with true by reflexivity.
                 cbn [negb andb]. apply existsb_exists. exists (c_media e, c_type e). split.
                 --- rewrite <- (json_like_python e Hj). apply (in_map (fun x => (c_media x, ctype_to_python x))). exact Heo.
                 --- cbn [snd]. rewrite Gby, Gs, Hsu. reflexivity.
              ** unfold want_json; destruct (needs_structure (c_type e)); exact Hcov.
Qed.

(* ---------- a further 2xx response of a NON-streaming operation ---------- *)
Lemma secondary_delivers : forall reg o r e h imported ct,
  st_streaming (resolve o) = false ->
  distinct_strs_b (map (fun x => lower_s (c_media x)) (cr_content r)) = true ->
  In e (cr_content r) -> is_stream r = false -> json_like (c_media e) = true ->
  handler_schema (cr_content r) = Some h -> c_media h = c_media e ->
  heuristic_ok reg (c_type e) && implb (needs_structure (c_type e)) (deser_direct reg (c_type e)) = true ->
  (secondary_registers reg r = true -> imported = true) ->
  delivers imported (secondary_path reg (nd_of o) (resolve o) ct r) (ideal false r (Some e)) = true
  /\ ideal false r (Some e) = want_json (c_type e).
Proof.
  intros reg o r e h imported ct Hns Hdm Hin Hs Hj Hh Hm Hb Himp.
  assert (h = e) by (apply (distinct_media_same (cr_content r)); auto; eapply handler_schema_In; eauto). subst h.
  destruct (json_like_split _ Hj) as [Hnbin Hntext].
  assert (Hw : ideal false r (Some e) = want_json (c_type e)).
  { unfold ideal. rewrite Hs. cbn [andb]. rewrite Hnbin, Hntext. reflexivity. }
  assert (Hraw : raw_accessor (cr_content r) (c_type e) = None) by (apply (raw_none_member _ e); auto).
  split; [|exact Hw]. rewrite Hw. unfold secondary_path. rewrite Hns, Hh, Hraw.
  apply delivers_structured_json; [exact Hb|]. intro Hsu. apply Himp. unfold secondary_registers. rewrite Hh, Hraw. exact Hsu.
Qed.

Lemma stream_path_facts : forall reg nd s,
  (forall c, stream_path reg nd s <> PStructure c)
  /\ forall t, delivers true (stream_path reg nd s) (WJsonTyped t) = false /\ delivers true (stream_path reg nd s) (WJsonRaw t) = false.
Proof.
  intros reg nd s. unfold stream_path.
  destruct (contains_s _ _); [split; [discriminate | split; reflexivity]|].
  destruct nd; [|split; [discriminate | split; reflexivity]].
  destruct (st_ret s); try (split; [discriminate | split; reflexivity]).
  destruct (should_use_cattrs reg _); [destruct (deser_code reg _ _)|]; split; try discriminate; split; reflexivity.
Qed.

Lemma delivers_no_structure : forall imported p w,
  delivers true p w = true -> (forall c, p <> PStructure c) -> delivers imported p w = true.
Proof.
  intros imported p w H Hn. destruct p; try exact H. exfalso. eapply Hn. reflexivity.
Qed.

(* ====================================================================================================== *)
(* The single statement.                                                                                  *)
(* ====================================================================================================== *)
Lemma module_has : forall reg ops o, In o ops -> registers_cattrs reg o = true -> module_has_cattrs reg ops = true.
Proof. intros reg ops o Hin H. unfold module_has_cattrs. apply existsb_exists. exists o. auto. Qed.

Lemma holds_from_parts : forall d,
  delivers (the_imported d) (the_path d) (the_want d) = true ->
  match the_want d with WJsonTyped t | WJsonRaw t => covers (st_ret (resolve (the_cop d))) t = true | _ => True end ->
  C05_holds d = true.
Proof.
  intros d H1 H2. unfold C05_holds. rewrite module_syntax_always, H1. cbn [andb]. destruct (the_want d); auto.
Qed.

Lemma handler_schema_nonempty : forall cs e, In e cs -> handler_schema cs <> None.
Proof.
  intros cs e Hin H. unfold handler_schema in H.
  destruct (find (fun x => str_eqb (c_media x) m_json_handler) cs); [discriminate|]. destruct cs; [destruct Hin | discriminate].
Qed.

Theorem guard_implies_holds : forall d, wf_dcase d = true -> c05_guard d = true -> C05_holds d = true.
Proof.
  intros d W G. unfold wf_dcase in W. cbv zeta in W.
  apply andb_true_iff in W; destruct W as [W Wty]. apply andb_true_iff in W; destruct W as [W Wmedia].
  apply andb_true_iff in W; destruct W as [W Wentry]. apply andb_true_iff in W; destruct W as [W Wcode].
  apply andb_true_iff in W; destruct W as [W Wdist]. apply andb_true_iff in W; destruct W as [Wop Wresp].
  apply Nat.ltb_lt in Wop. apply Nat.ltb_lt in Wresp.
  unfold c05_guard in G.
  apply andb_true_iff in G; destruct G as [G Gi]. apply andb_true_iff in G; destruct G as [G Gf].
  apply andb_true_iff in G; destruct G as [Gb Gc].
  assert (Ho : In (the_cop d) (d_module d)) by (unfold the_cop; apply nth_In; exact Wop).
  assert (Hr : In (the_resp d) (the_cop d)) by (unfold the_resp; apply nth_In; exact Wresp).
  remember (the_cop d) as o eqn:Eo. remember (the_resp d) as r eqn:Er.
  assert (Heo : match the_entry d with Some e => In e (cr_content r) | None => cr_content r = [] end).
  { unfold the_entry. rewrite <- Er. destruct (d_entry d) as [i|].
    - apply Nat.ltb_lt in Wentry. destruct (nth_error (cr_content r) i) eqn:E; [eapply nth_error_In; eauto|].
      apply nth_error_None in E. lia.
    - destruct (cr_content r); [reflexivity | discriminate]. }
  (* --- finishing the strategy-handled (primary) case --- *)
  assert (FinP : is_primary_case d = true -> cprimary o = Some r ->
                 the_path d = prim_path (d_reg d) o (the_ctype d) -> emits_strategy o = true -> C05_holds d = true).
  { intros Hpc Hprim Hpath Hem. apply holds_from_parts; unfold the_want; rewrite Hpc; rewrite <- ?Er, <- ?Eo; [rewrite Hpath|];
      change (the_ctype d) with (the_ct (the_entry d));
      apply (primary_delivers (d_reg d) o r (the_entry d) (the_imported d) Hprim Wmedia Wty Heo).
    all: try (intros e He Hs Hj; split;
              [ unfold guard_F05b in Gb; rewrite <- Er, He, Hs, Hj in Gb; exact Gb
              | unfold guard_F05i in Gi; rewrite <- Er, <- Eo, He, Hj, Hs in Gi; exact Gi ]).
    all: try (intros e He Hs; unfold guard_F05c in Gc; cbv zeta in Gc; rewrite <- Er, He, Hpc in Gc;
              cbn [negb andb] in Gc; rewrite Hs in Gc; unfold single_content, collapsed_content;
              destruct (json_like (c_media e)); cbn [negb andb] in Gc;
              [ rewrite orb_false_r in Gc; exact Gc
              | rewrite <- ?Eo in Gc; unfold raw_matches;
                destruct (raw_accessor (cr_content r) (st_ret (resolve o))) as [pp|]; [destruct pp|]; cbn [andb] in Gc |- *;
                try (rewrite Gc; reflexivity); exact Gc ]).
    all: try (intro E; unfold guard_F05f, the_want in Gf; rewrite Hpc, <- Er, E in Gf; discriminate).
    all: try (intro E; unfold guard_F05f, the_want in Gf; rewrite Hpc, <- Er, E, <- Eo in Gf;
              destruct (stream_path (d_reg d) (nd_of o) (resolve o)); try discriminate; eexists; reflexivity).
    all: try (intro Hreg; unfold the_imported; apply (module_has _ _ o Ho); unfold registers_cattrs; rewrite Hem, Hreg; reflexivity). }
  (* --- finishing a further 2xx response (secondary) --- *)
  assert (FinS : is_primary_case d = false ->
                 the_path d = secondary_path (d_reg d) (nd_of o) (resolve o) (the_ctype d) r ->
                 In r (cothers o) -> is_secondary_2xx o r = true -> C05_holds d = true).
  { intros Hpc Hpath Hco Hsec.
    destruct (st_streaming (resolve o)) eqn:Hst.
    - (* further 2xx of a streaming operation *)
      assert (Hnostruct : forall c, the_path d <> PStructure c).
      { intros c E. rewrite Hpath in E. unfold secondary_path in E. rewrite Hst in E.
        destruct (cr_content r); [discriminate | exact (proj1 (stream_path_facts _ _ _) c E)]. }
      destruct (the_entry d) as [e|] eqn:He.
      + unfold guard_F05c in Gc. cbv zeta in Gc. rewrite He, Hpc, <- Eo, Hst in Gc. cbn [negb andb] in Gc.
        apply holds_from_parts; [apply delivers_no_structure; assumption|].
        destruct (the_want d) eqn:Ew; auto; exfalso; rewrite Hpath in Gc; unfold secondary_path in Gc; rewrite Hst in Gc;
          destruct (cr_content r); try discriminate;
          pose proof (proj2 (stream_path_facts (d_reg d) (nd_of o) (resolve o)) t) as [F1 F2]; congruence.
      + assert (Hw : the_want d = WNone) by (unfold the_want; rewrite He; reflexivity).
        apply holds_from_parts; rewrite Hw; [|exact I].
        rewrite Hpath. unfold secondary_path. rewrite Hst, Heo. reflexivity.
    - destruct (the_entry d) as [e|] eqn:He.
      + unfold guard_F05c in Gc. cbv zeta in Gc. rewrite He, Hpc, <- Eo, Hst, <- Er in Gc. cbn [negb andb] in Gc.
        destruct (is_stream r) eqn:Hs; [discriminate|].
        destruct (json_like (c_media e)) eqn:Hj.
        2:{ (* a text / binary body: delivered exactly when the raw-body accessor was rendered for it *)
            destruct (handler_schema (cr_content r)) as [h|] eqn:Hh; [|cbn in Gc; discriminate].
            destruct (raw_accessor (cr_content r) (c_type h)) as [pp|] eqn:Hraw; [destruct pp|]; cbn [andb] in Gc; try discriminate.
            - apply holds_from_parts; unfold the_want; rewrite Hpc; rewrite <- ?Er, ?He; unfold ideal; rewrite Hs; cbn [andb];
                rewrite (text_not_binary _ Gc), Gc; [|exact I].
              rewrite Hpath. unfold secondary_path. rewrite Hst, Hh, Hraw. reflexivity.
            - apply holds_from_parts; unfold the_want; rewrite Hpc; rewrite <- ?Er, ?He; unfold ideal; rewrite Hs; cbn [andb];
                rewrite Gc; [|exact I].
              rewrite Hpath. unfold secondary_path. rewrite Hst, Hh, Hraw. reflexivity. }
        apply andb_true_iff in Gc. destruct Gc as [Gpick _]. apply negb_true_iff in Gpick.
        destruct (handler_schema (cr_content r)) as [h|] eqn:Hh;
          [|exfalso; eapply handler_schema_nonempty; eauto].
        apply negb_false_iff in Gpick. unfold same_entry in Gpick. apply str_eqb_eq in Gpick.
        unfold guard_F05b in Gb. rewrite <- Er, He, Hs, Hj in Gb. cbn [negb andb] in Gb.
        assert (Himp : secondary_registers (d_reg d) r = true -> the_imported d = true).
        { intro Hreg. unfold the_imported. apply (module_has _ _ o Ho). unfold registers_cattrs. apply orb_true_iff. right.
          rewrite Hst. cbn [negb andb]. apply existsb_exists. exists r. split; [exact Hco | rewrite Hsec, Hreg; reflexivity]. }
        destruct (secondary_delivers (d_reg d) o r e h (the_imported d) (the_ctype d) Hst Wmedia Heo Hs Hj Hh Gpick Gb Himp) as [Hd Hw].
        apply holds_from_parts; unfold the_want; rewrite Hpc; rewrite <- ?Er, ?He; [rewrite Hpath; exact Hd|].
        rewrite Hw. unfold guard_F05i in Gi. rewrite <- Er, <- Eo, He, Hj, Hs in Gi. cbn [negb andb] in Gi.
        rewrite <- ?Eo. unfold want_json. destruct (needs_structure (c_type e)); exact Gi.
      + assert (Hw : the_want d = WNone) by (unfold the_want; rewrite He; reflexivity).
        apply holds_from_parts; rewrite Hw; [|exact I].
        rewrite Hpath. unfold secondary_path, handler_schema. rewrite Hst, Heo. reflexivity. }
  (* --- which branch handles the declared response --- *)
  assert (Hpathdef : the_path d = handle (d_reg d) o (the_status d) (the_ctype d)) by (unfold the_path; rewrite <- Eo; reflexivity).
  destruct (cr_code r) as [n| |s] eqn:Hcode.
  - (* a numeric 2xx key *)
    assert (Hst : the_status d = n) by (unfold the_status; rewrite <- Er, Hcode; reflexivity).
    rewrite Hst in Hpathdef.
    destruct (cprocessed o) as [[p k]|] eqn:Hp.
    + destruct (resp_eqb (to_resp p) (to_resp r)) eqn:E.
      * destruct (locate_primary_num (d_reg d) o r p k (the_ctype d) Wdist Hr Hp E) as (_ & Hck & Hprim & Hh).
        rewrite Hcode in Hck. inversion Hck; subst k.
        apply FinP; [unfold is_primary_case; rewrite <- Eo, <- Er, Hp; exact E | exact Hprim | rewrite Hpathdef; exact Hh
                    | unfold emits_strategy; rewrite Hp; reflexivity].
      * destruct (locate_secondary_num (d_reg d) o r n (the_ctype d) Wdist Hr Hcode Wcode) as [Hh Hco].
        { intros p' n' Hq. rewrite Hp in Hq. inversion Hq; subst. exact E. }
        apply FinS; [unfold is_primary_case; rewrite <- Eo, <- Er, Hp; exact E | rewrite Hpathdef; exact Hh | exact Hco
                    | unfold is_secondary_2xx; rewrite Hcode; exact Wcode].
    + destruct (locate_secondary_num (d_reg d) o r n (the_ctype d) Wdist Hr Hcode Wcode) as [Hh Hco].
      { intros p' n' Hq. rewrite Hp in Hq. discriminate. }
      apply FinS; [unfold is_primary_case; rewrite <- Eo, <- Er, Hp, Hcode; reflexivity | rewrite Hpathdef; exact Hh | exact Hco
                  | unfold is_secondary_2xx; rewrite Hcode; exact Wcode].
  - cbn in Wcode. discriminate.
  - (* the "2XX" range key *)
    apply andb_true_iff in Wcode; destruct Wcode as [Wc Wrange]. apply andb_true_iff in Wc; destruct Wc as [Wc Wfree].
    apply andb_true_iff in Wc; destruct Wc as [Ww Wuniq]. apply negb_true_iff in Wfree.
    rewrite <- Hcode in Wuniq.
    assert (Hw : is_wildcard_2xx (cr_code r) = true) by (rewrite Hcode; exact Ww).
    destruct (locate_wildcard (d_reg d) o r (the_status d) (the_ctype d) Wdist Hr Hw Wuniq Wfree Wrange) as (Hh & Hco & Hwr).
    destruct (is_strategy_resp o r) eqn:Hsr.
    + pose proof (strategy_resp_primary o r Wdist Hr Hsr) as Hprim.
      apply FinP; [ | exact Hprim | rewrite Hpathdef; exact Hh | unfold emits_strategy; rewrite Hwr, Hsr; apply orb_true_iff; left; apply orb_true_r].
      unfold is_primary_case. rewrite <- Eo, <- Er. destruct (cprocessed o) as [[p k]|] eqn:Hp.
      * exfalso. pose proof (cprocessed_cprimary _ _ _ Hp) as Hq. rewrite Hprim in Hq. inversion Hq; subst p.
        destruct (cprocessed_In _ _ _ Hp) as (_ & Hck & _). rewrite Hcode in Hck. discriminate.
      * rewrite Hw, Hsr. reflexivity.
    + apply FinS; [ | rewrite Hpathdef; exact Hh | exact Hco | unfold is_secondary_2xx; rewrite Hcode, Hsr; rewrite Ww; reflexivity].
      unfold is_primary_case. rewrite <- Eo, <- Er. destruct (cprocessed o) as [[p k]|] eqn:Hp.
      * destruct (cprocessed_In _ _ _ Hp) as (_ & Hck & _). unfold resp_eqb. cbn [to_resp r_code]. rewrite Hck, Hcode. reflexivity.
      * rewrite Hsr. apply andb_false_r.
Qed.

(* The converse does NOT hold: the guard is sufficient, not exact.  Structuring a JSON-native type is harmless
   (PStructure delivers WJsonRaw), so a case can satisfy the property although the heuristic "disagrees" with the
   type's need (guard_F05b false): an alias name the registry does not know. *)
Definition d_not_exact : dcase :=
  {| d_reg := []; d_module := [[{| cr_code := Num 200;
        cr_content := [{| c_media := m_json; c_type := TAliasPrim [78;97;109;101] false; c_binfmt := false |}] |}]];
     d_op := 0%nat; d_resp := 0%nat; d_entry := Some 0%nat |}.
Example guard_not_exact : wf_dcase d_not_exact = true /\ C05_holds d_not_exact = true /\ c05_guard d_not_exact = false.
Proof. repeat split; vm_compute; reflexivity. Qed.

(* non-vacuity of the single statement: the witnesses of Proofs/Response.v are well-formed and meet the guard *)
Example main_nonvacuous :
  wf_dcase d_ok = true /\ c05_guard d_ok = true /\ wf_dcase d_ok2 = true /\ c05_guard d_ok2 = true
  /\ wf_dcase d_switch = true /\ c05_guard d_switch = true /\ wf_dcase d_F05g = true /\ c05_guard d_F05g = true
  /\ wf_dcase d_F05h_202 = true /\ c05_guard d_F05h_202 = true.
Proof. repeat split; vm_compute; reflexivity. Qed.
