(* C07 — proofs about Model/Tags.v *)
From PG Require Import Lib.Strs Model.Tags.
From Coq Require Import Lia Permutation.

(* ====================================================================================== *)
(* Generic theorems: for ALL name-sanitisation functions (Section variables)               *)
(* ====================================================================================== *)
Section Generic.
  Variable method_name tag_key tag_attr tag_class : str -> str.
  Variable clean_id : str -> str -> str -> str.
  Variable score : str -> bool * N * N.
  Variable py_ident : str -> bool.

  Notation parse := (parse method_name clean_id).
  Notation parse_op_ok := (parse_op_ok method_name clean_id).
  Notation derive_id := (derive_id method_name clean_id).
  Notation mk_op := (mk_op method_name clean_id).
  Notation dedup_go := (dedup_go method_name).
  Notation dedup_ops := (dedup_ops method_name).
  Notation emitted_ops := (emitted_ops method_name).
  Notation group := (group tag_key).
  Notation group_step := (group_step tag_key).
  Notation group_tags := (group_tags tag_key).
  Notation candidates := (candidates tag_key).
  Notation cv_candidates := (cv_candidates tag_key).
  Notation emitter_tags := (emitter_tags tag_key score).
  Notation client_tags := (client_tags tag_key score).
  Notation mn := (fun o : op => method_name (o_id o)).

  (* ---------------------------------------------------------------- clients mirror *)
  Lemma cv_add_aappend : forall (d : list (str * list str)) k t,
    aupd (if amem k d then d else d ++ [(k, [])]) k (fun l => l ++ [t]) = aappend d k t.
  Proof.
    induction d as [|[k' l] d IH]; intros k t; simpl.
    - rewrite str_eqb_refl. reflexivity.
    - destruct (str_eqb k k') eqn:E; simpl.
      + rewrite E. reflexivity.
      + specialize (IH k t). destruct (amem k d); simpl; rewrite E; f_equal; exact IH.
  Qed.

  Lemma fold_left_ext : forall {A B} (f g : A -> B -> A) l a,
    (forall a b, f a b = g a b) -> fold_left f l a = fold_left g l a.
  Proof. induction l as [|x l IH]; intros a H; simpl; [reflexivity|]. rewrite H. apply IH, H. Qed.

  Lemma cv_candidates_eq : forall l, cv_candidates l = candidates l.
  Proof.
    intro l. unfold Tags.cv_candidates, Tags.candidates. apply fold_left_ext.
    intros d o. unfold cv_step, cand_step, tags_or_default. apply fold_left_ext.
    intros d' t. unfold cv_add. apply cv_add_aappend.
  Qed.

  Definition nonempty_lists {V} (d : list (str * list V)) : Prop := Forall (fun kc => snd kc <> []) d.

  Lemma aappend_nonempty : forall {V} (d : list (str * list V)) k v,
    nonempty_lists d -> nonempty_lists (aappend d k v).
  Proof.
    induction d as [|[k' l] d IH]; intros k v H; simpl.
    - constructor; [discriminate | constructor].
    - inversion H as [|? ? Hh Ht]; subst. destruct (str_eqb k k').
      + constructor; [simpl; destruct l; discriminate | exact Ht].
      + constructor; [exact Hh | apply IH, Ht].
  Qed.

  Lemma candidates_nonempty : forall l, nonempty_lists (candidates l).
  Proof.
    intro l. unfold Tags.candidates.
    assert (G : forall l d, nonempty_lists d -> nonempty_lists (fold_left (cand_step tag_key) l d)).
    { induction l0 as [|o l0 IH]; intros d Hd; simpl; [exact Hd|]. apply IH.
      unfold cand_step. generalize (tags_or_default o). intro ts. revert d Hd.
      induction ts as [|t ts IHt]; intros d Hd; simpl; [exact Hd|].
      apply IHt, aappend_nonempty, Hd. }
    apply G. constructor.
  Qed.

  Lemma client_map_nonempty : forall d, nonempty_lists d ->
    client_map score d = Some (map (fun kc => (fst kc, emitter_best score (snd kc))) d).
  Proof.
    induction d as [|[k c] d IH]; intro H; simpl; [reflexivity|].
    inversion H as [|? ? Hh Ht]; subst. rewrite (IH Ht).
    destruct c as [|x r]; [exfalso; apply Hh; reflexivity | reflexivity].
  Qed.

  (* the two hand-copied groupings agree on every operation list; in particular the
     `max(candidates)` of ClientVisitor never sees an empty list *)
  Theorem clients_mirror : forall l, client_tags l = Some (emitter_tags l).
  Proof.
    intro l. unfold Tags.client_tags, Tags.emitter_tags. rewrite cv_candidates_eq.
    apply client_map_nonempty, candidates_nonempty.
  Qed.

  (* ---------------------------------------------------------------- none dropped *)
  Definition typed_op (st : strategy) (o : raw_op) : Prop :=
    r_node_ok o = true
    /\ (forall p, In p (r_params o) -> p = POk)
    /\ (forall k ok, In (k, ok) (r_resp o) -> ok = true)   (* any key: it is passed on as str(key) *)
    /\ r_tags o <> TBad
    /\ derive_id st o <> [].
  Definition typed_doc (st : strategy) (doc : list raw_op) : Prop :=
    forall o, In o (ops doc) -> typed_op st o.

  Lemma typed_op_ok : forall st o, typed_op st o -> parse_op_ok st o = true.
  Proof.
    intros st o (Hn & Hp & Hr & Ht & Hi). unfold Tags.parse_op_ok.
    rewrite Hn. simpl.
    assert (P : forallb is_pok (r_params o) = true).
    { apply forallb_forall. intros p Hin. rewrite (Hp p Hin). reflexivity. }
    rewrite P. simpl.
    assert (R : forallb (fun kb => snd kb) (r_resp o) = true).
    { apply forallb_forall. intros [k ok] Hin. simpl. exact (Hr k ok Hin). }
    rewrite R. simpl.
    destruct (Tags.derive_id method_name clean_id st o) eqn:E; [contradiction Hi; reflexivity|]. simpl.
    destruct (r_tags o); try reflexivity. contradiction Ht; reflexivity.
  Qed.

  Lemma filter_all : forall {A} (f : A -> bool) l, forallb f l = true -> filter f l = l.
  Proof.
    induction l as [|x l IH]; simpl; intro H; [reflexivity|].
    apply andb_true_iff in H. destruct H as [H1 H2]. rewrite H1, (IH H2). reflexivity.
  Qed.

  Theorem guard_none_dropped : forall st doc,
    guard_F07f method_name clean_id st doc = true -> parse st doc = map (mk_op st) (ops doc).
  Proof. intros st doc H. unfold Tags.parse. rewrite (filter_all _ _ H). reflexivity. Qed.

  Theorem typed_guard : forall st doc, typed_doc st doc -> guard_F07f method_name clean_id st doc = true.
  Proof. intros st doc H. apply forallb_forall. intros o Hin. apply typed_op_ok, H, Hin. Qed.

  Theorem none_dropped : forall st doc, typed_doc st doc ->
    parse st doc = map (mk_op st) (ops doc) /\ length (parse st doc) = length (ops doc).
  Proof.
    intros st doc H. pose proof (guard_none_dropped st doc (typed_guard st doc H)) as E.
    split; [exact E | rewrite E; apply map_length].
  Qed.

  (* F07f fixed: an operation that cannot be represented makes generation fail — for every document *)
  Theorem visible_failure_full : forall st doc,
    visible_failure method_name tag_key tag_attr tag_class clean_id score py_ident st doc.
  Proof.
    intros st doc H. unfold generate.
    destruct (skipped method_name clean_id st doc); [contradiction H; reflexivity | reflexivity].
  Qed.

  Lemma skipped_nil_guard : forall st doc,
    skipped method_name clean_id st doc = [] <-> guard_F07f method_name clean_id st doc = true.
  Proof.
    intros st doc. unfold skipped, guard_F07f. induction (ops doc) as [|o l IH]; simpl; [split; reflexivity|].
    destruct (Tags.parse_op_ok method_name clean_id st o); simpl; [exact IH | split; discriminate].
  Qed.

  (* ---------------------------------------------------------------- de-dup *)
  Lemma mem_str_false : forall x l, mem_str x l = false <-> ~ In x l.
  Proof.
    intros x l. split.
    - intros H Hin. apply mem_str_In in Hin. congruence.
    - intro H. destruct (mem_str x l) eqn:E; [apply mem_str_In in E; contradiction | reflexivity].
  Qed.

  Lemma dedup_go_fix : forall l used,
    (forall o, In o l -> ~ In (mn o) used) ->
    NoDup (map mn l) -> dedup_go used l = l.
  Proof.
    induction l as [|o l IH]; intros used Hs Hn; simpl; [reflexivity|].
    assert (E : mem_str (method_name (o_id o)) used = false)
      by (apply mem_str_false, Hs; left; reflexivity).
    rewrite E. f_equal.
    inversion Hn as [|? ? Hni Hn']; subst. apply IH; [|exact Hn'].
    intros o' Hin [Heq|Hu].
    - apply Hni. rewrite Heq. apply (in_map mn). exact Hin.
    - apply (Hs o' (or_intror Hin)). exact Hu.
  Qed.

  (* a list whose method names are already unique is a fixpoint of the de-dup pass *)
  Theorem dedup_fix : forall l, NoDup (map mn l) -> dedup_ops l = l.
  Proof. intros l H. apply dedup_go_fix; [intros o _ [] | exact H]. Qed.

  Lemma nodupb_NoDup : forall l, nodupb l = true <-> NoDup l.
  Proof.
    induction l as [|x l IH]; simpl.
    - split; [constructor | reflexivity].
    - rewrite andb_true_iff, negb_true_iff, IH. split.
      + intros [H1 H2]. constructor; [|exact H2]. intro Hin. apply mem_str_In in Hin. congruence.
      + intro H. inversion H as [|? ? Hn Hd]; subst. split; [|exact Hd].
        destruct (mem_str x l) eqn:E; [apply mem_str_In in E; contradiction | reflexivity].
  Qed.

  Lemma find_free_spec : forall f used i n r,
    find_free method_name f used i n = Some r ->
    ~ In (method_name r) used /\ exists c, r = i ++ [c_us] ++ dec c.
  Proof.
    induction f as [|f IH]; intros used i n r H; simpl in H; [discriminate|].
    destruct (mem_str (method_name (i ++ c_us :: dec n)) used) eqn:E.
    - apply (IH _ _ _ _ H).
    - inversion H; subst r. split; [apply mem_str_false, E | exists n; reflexivity].
  Qed.

  (* THE de-dup theorem (F07a fixed): whenever the suffix search succeeds (always, within the model
     bound), the resulting method names are pairwise distinct — for every operation list *)
  Lemma dedup_go_unique : forall l used, dedup_total_go method_name used l = true ->
    NoDup (map mn (dedup_go used l)) /\ (forall x, In x (map mn (dedup_go used l)) -> ~ In x used).
  Proof.
    induction l as [|o l IH]; intros used H; [split; [constructor | intros x []]|].
    cbn [Tags.dedup_go Tags.dedup_total_go] in *.
    destruct (mem_str (method_name (o_id o)) used) eqn:E.
    - destruct (find_free method_name (S (length used)) used (o_id o) 2) as [i|] eqn:F; [|discriminate].
      destruct (find_free_spec _ _ _ _ _ F) as [Hfree _].
      destruct (IH _ H) as [I1 I2]. simpl. split.
      + constructor; [|exact I1]. intro Hin. apply (I2 _ Hin). left. reflexivity.
      + intros x [<-|Hin]; [exact Hfree|]. intro Hu. apply (I2 _ Hin). right. exact Hu.
    - destruct (IH _ H) as [I1 I2]. simpl. split.
      + constructor; [|exact I1]. intro Hin. apply (I2 _ Hin). left. reflexivity.
      + intros x [<-|Hin]; [apply mem_str_false, E|]. intro Hu. apply (I2 _ Hin). right. exact Hu.
  Qed.

  Theorem dedup_unique : forall l, dedup_total method_name l = true -> NoDup (map mn (dedup_ops l)).
  Proof. intros l H. apply (dedup_go_unique l [] H). Qed.

  (* idempotence: the second emit() pass of the direct path changes nothing *)
  Theorem emitted_unique : forall l, dedup_total method_name l = true ->
    emitted_ops l = dedup_ops l /\ NoDup (map mn (emitted_ops l)).
  Proof.
    intros l H. pose proof (dedup_unique l H) as U. unfold Tags.emitted_ops.
    rewrite (dedup_fix _ U). split; [reflexivity | exact U].
  Qed.

  (* shape of de-duplicated ids: unchanged, or the raw id followed by "_<counter>" *)
  Definition suffixed (o o' : op) : Prop :=
    o' = o \/ exists c, o' = set_id o (o_id o ++ [c_us] ++ dec c).

  Lemma dedup_go_shape : forall l used, Forall2 suffixed l (dedup_go used l).
  Proof.
    induction l as [|o l IH]; intro used; [constructor|]. cbn [Tags.dedup_go].
    destruct (mem_str (method_name (o_id o)) used).
    - destruct (find_free method_name (S (length used)) used (o_id o) 2) as [i|] eqn:F; constructor; try apply IH.
      + right. destruct (find_free_spec _ _ _ _ _ F) as [_ [c ->]]. exists c. reflexivity.
      + left. reflexivity.
    - constructor; [left; reflexivity | apply IH].
  Qed.

  Lemma dedup_go_length : forall l used, length (dedup_go used l) = length l.
  Proof.
    intros l used. pose proof (dedup_go_shape l used) as S.
    induction S as [|a b l1 l2 _ _ IH]; simpl; [reflexivity | rewrite IH; reflexivity].
  Qed.

  Lemma suffixed_tags : forall o o', suffixed o o' ->
    o_tags o' = o_tags o /\ o_method o' = o_method o /\ o_path o' = o_path o.
  Proof. intros o o' [->|[c ->]]; repeat split; reflexivity. Qed.

  (* names follow the selected strategy: the i-th emitted operation is the i-th parsed operation of
     the document with its id = derive_id followed by at most two "_<k>" suffixes *)
  Theorem strategy_shape : forall st doc,
    exists mid, Forall2 suffixed (map (mk_op st) (filter (parse_op_ok st) (ops doc))) mid
                /\ Forall2 suffixed mid (emitted_ops (parse st doc)).
  Proof.
    intros st doc. exists (dedup_ops (parse st doc)). split; apply dedup_go_shape.
  Qed.

  (* ---------------------------------------------------------------- grouping *)
  Definition alookup_l {V} (k : str) (d : list (str * list V)) : list V :=
    match alookup k d with Some g => g | None => [] end.

  Lemma alookup_l_aappend : forall {V} (d : list (str * list V)) k k' (v : V),
    alookup_l k (aappend d k' v) = alookup_l k d ++ (if str_eqb k k' then [v] else @nil V).
  Proof.
    unfold alookup_l. induction d as [|[k0 l0] d IH]; intros k k' v; simpl.
    - destruct (str_eqb k k'); reflexivity.
    - destruct (str_eqb k' k0) eqn:E1; simpl.
      + apply str_eqb_eq in E1. subst k0.
        destruct (str_eqb k k') eqn:E2; [reflexivity | rewrite app_nil_r; reflexivity].
      + destruct (str_eqb k k0) eqn:E2.
        * apply str_eqb_eq in E2. subst k0.
          assert (X : str_eqb k k' = false).
          { apply str_eqb_neq. intro. subst. rewrite str_eqb_refl in E1. discriminate. }
          rewrite X, app_nil_r. reflexivity.
        * apply IH.
  Qed.

  Definition contrib (k : str) (o : op) : list op :=
    map (fun _ => o) (filter (fun t => str_eqb k (tag_key t)) (group_tags o)).

  Lemma group_step_lookup : forall (o : op) (ts : list str) k (d : list (str * list op)),
    alookup_l k (fold_left (fun d t => aappend d (tag_key t) o) ts d)
    = alookup_l k d ++ map (fun _ => o) (filter (fun t => str_eqb k (tag_key t)) ts).
  Proof.
    induction ts as [|t ts IH]; intros k d; simpl; [rewrite app_nil_r; reflexivity|].
    rewrite IH, alookup_l_aappend. destruct (str_eqb k (tag_key t)); simpl.
    - rewrite <- app_assoc. reflexivity.
    - rewrite app_nil_r. reflexivity.
  Qed.

  Lemma group_lookup_gen : forall l k d,
    alookup_l k (fold_left group_step l d) = alookup_l k d ++ flat_map (contrib k) l.
  Proof.
    induction l as [|o l IH]; intros k d; simpl; [rewrite app_nil_r; reflexivity|].
    rewrite IH. unfold Tags.group_step. rewrite group_step_lookup, <- app_assoc. reflexivity.
  Qed.

  (* characterisation of EndpointsEmitter's grouping: the group of key k is, in order, every
     operation repeated once per tag of it that normalises to k *)
  Theorem group_lookup : forall l k, alookup_l k (group l) = flat_map (contrib k) l.
  Proof. intros l k. unfold Tags.group. rewrite group_lookup_gen. reflexivity. Qed.

  Lemma nodup_filter_le1 : forall (ts : list str) k,
    NoDup (map tag_key ts) ->
    (length (filter (fun t => str_eqb k (tag_key t)) ts) <= 1)%nat.
  Proof.
    induction ts as [|t ts IH]; intros k H; simpl; [lia|].
    inversion H as [|? ? Hn Hd]; subst.
    destruct (str_eqb k (tag_key t)) eqn:E; simpl; [|apply IH, Hd].
    apply str_eqb_eq in E. subst k.
    assert (X : filter (fun t0 => str_eqb (tag_key t) (tag_key t0)) ts = []).
    { clear IH Hd H. induction ts as [|t' ts IH']; simpl; [reflexivity|].
      destruct (str_eqb (tag_key t) (tag_key t')) eqn:E.
      - apply str_eqb_eq in E. exfalso. apply Hn. simpl. left. symmetry. exact E.
      - apply IH'. intro Hin. apply Hn. right. exact Hin. }
    rewrite X. simpl. lia.
  Qed.

  Lemma in_filter_ge1 : forall (ts : list str) t,
    In t ts -> (1 <= length (filter (fun t0 => str_eqb (tag_key t) (tag_key t0)) ts))%nat.
  Proof.
    induction ts as [|t' ts IH]; intros t Hin; simpl; [contradiction|].
    destruct Hin as [->|Hin].
    - rewrite str_eqb_refl. simpl. lia.
    - destruct (str_eqb (tag_key t) (tag_key t')); simpl; [lia | apply IH, Hin].
  Qed.

  Lemma contrib_le1 : forall o k, nodupb (map tag_key (group_tags o)) = true ->
    contrib k o = [o] \/ contrib k o = [].
  Proof.
    intros o k H. apply nodupb_NoDup in H. pose proof (nodup_filter_le1 _ k H) as L.
    unfold contrib. destruct (filter _ (group_tags o)) as [|a [|b r]]; simpl in *;
      [right; reflexivity | left; reflexivity | lia].
  Qed.

  Lemma contrib_in1 : forall o t, nodupb (map tag_key (group_tags o)) = true ->
    In t (group_tags o) -> contrib (tag_key t) o = [o].
  Proof.
    intros o t H Hin. destruct (contrib_le1 o (tag_key t) H) as [E|E]; [exact E|].
    pose proof (in_filter_ge1 _ t Hin) as G. unfold contrib in E.
    destruct (filter _ (group_tags o)); simpl in *; [lia | discriminate].
  Qed.

  (* operations of a document are pairwise distinct as (METHOD, path) — keys of a JSON/YAML object *)
  Definition distinct_ops (l : list op) : Prop :=
    NoDup l /\ forall a b, In a l -> In b l -> same_op a b = true -> a = b.

  Lemma count_flat_map : forall o l k,
    (forall o', In o' l -> nodupb (map tag_key (group_tags o')) = true) ->
    (forall b, In b l -> same_op o b = true -> o = b) ->
    count_op o (flat_map (contrib k) l)
    = length (filter (fun o' => same_op o o' && negb (is_nil (contrib k o'))) l).
  Proof.
    unfold count_op. induction l as [|a l IH]; intros k Hg Hd; simpl; [reflexivity|].
    rewrite filter_app, app_length, IH; [|intros; apply Hg; right; assumption
                                         |intros; apply Hd; [right|]; assumption].
    destruct (contrib_le1 a k (Hg a (or_introl eq_refl))) as [E|E]; rewrite E; simpl.
    - destruct (same_op o a); simpl; reflexivity.
    - rewrite andb_false_r. reflexivity.
  Qed.

  Lemma same_op_refl : forall o, same_op o o = true.
  Proof. intro o. unfold same_op. rewrite !str_eqb_refl. reflexivity. Qed.

  Lemma filter_none : forall {A} (f : A -> bool) l, (forall b, In b l -> f b = false) -> filter f l = [].
  Proof.
    induction l as [|x l IH]; intro H; simpl; [reflexivity|].
    rewrite (H x (or_introl eq_refl)). apply IH. intros b Hb. apply H. right. exact Hb.
  Qed.

  Lemma count_one : forall (f : op -> bool) l o,
    NoDup l -> In o l -> f o = true -> (forall b, In b l -> f b = true -> o = b) ->
    length (filter f l) = 1%nat.
  Proof.
    induction l as [|a l IH]; intros o Hn Hin Hf Hu; simpl; [contradiction|].
    inversion Hn as [|? ? Hna Hn']; subst.
    destruct Hin as [->|Hin].
    - rewrite Hf. simpl. f_equal.
      assert (X : filter f l = []).
      { apply filter_none. intros b Hb. destruct (f b) eqn:E; [|reflexivity].
        exfalso. apply Hna. rewrite (Hu b (or_intror Hb) E). exact Hb. }
      rewrite X. reflexivity.
    - destruct (f a) eqn:E.
      + exfalso. apply Hna. rewrite <- (Hu a (or_introl eq_refl) E). exact Hin.
      + apply (IH o Hn' Hin Hf). intros b Hb. apply Hu. right. exact Hb.
  Qed.

  (* keys_of_op keeps the first spelling per key *)
  Lemma dedup_keys_inv : forall ts seen,
    NoDup (map tag_key (dedup_keys_go tag_key seen ts))
    /\ (forall x, In x (map tag_key (dedup_keys_go tag_key seen ts)) -> ~ In x seen)
    /\ (forall t, In t ts -> In (tag_key t) seen \/ In (tag_key t) (map tag_key (dedup_keys_go tag_key seen ts))).
  Proof.
    induction ts as [|t ts IH]; intro seen; simpl.
    - split; [constructor | split; [intros x [] | intros t []]].
    - destruct (mem_str (tag_key t) seen) eqn:E.
      + destruct (IH seen) as (I1 & I2 & I3). split; [exact I1 | split; [exact I2|]].
        intros t' [<-|Hin]; [left; apply mem_str_In, E | apply I3, Hin].
      + destruct (IH (tag_key t :: seen)) as (I1 & I2 & I3). simpl. split; [|split].
        * constructor; [|exact I1]. intro Hin. apply (I2 _ Hin). left. reflexivity.
        * intros x [<-|Hin]; [apply mem_str_false, E|]. intro Hs. apply (I2 _ Hin). right. exact Hs.
        * intros t' [<-|Hin]; [right; left; reflexivity|].
          destruct (I3 _ Hin) as [[Heq|Hs]|Hr]; [right; left; exact Heq | left; exact Hs | right; right; exact Hr].
  Qed.

  Lemma group_tags_nodupb : forall o, nodupb (map tag_key (group_tags o)) = true.
  Proof. intro o. apply nodupb_NoDup. apply (dedup_keys_inv (tags_or_default o) []). Qed.

  Lemma group_tags_key_in : forall o t, In t (tags_or_default o) ->
    exists t', In t' (group_tags o) /\ tag_key t' = tag_key t.
  Proof.
    intros o t Hin. destruct (dedup_keys_inv (tags_or_default o) []) as (_ & _ & I3).
    destruct (I3 t Hin) as [[]|H]. apply in_map_iff in H. destruct H as [t' [E H]]. exists t'. split; assumption.
  Qed.

  (* F07c fixed: every operation appears exactly once in the group of each of its tags — for every
     operation list with distinct (METHOD, path) pairs, however its tags are spelled *)
  Theorem once_per_tag_full : forall l, distinct_ops l -> once_per_tag tag_key l.
  Proof.
    intros l [Hn Hd] o t Hin Ht.
    assert (G : forall o', In o' l -> nodupb (map tag_key (group_tags o')) = true)
      by (intros; apply group_tags_nodupb).
    destruct (group_tags_key_in o t Ht) as [t' [Ht' Ek]].
    assert (C : count_op o (alookup_l (tag_key t) (group l)) = 1%nat).
    { rewrite group_lookup, count_flat_map; [|exact G | intros b Hb; apply Hd; assumption].
      apply (count_one _ l o Hn Hin).
      - rewrite same_op_refl, <- Ek, (contrib_in1 o t' (G o Hin) Ht'). reflexivity.
      - intros b Hb E. apply andb_true_iff in E. destruct E as [E _]. apply Hd; assumption. }
    unfold alookup_l in C. destruct (alookup (tag_key t) (group l)) as [g|] eqn:E.
    - exists g. split; [reflexivity | exact C].
    - simpl in C. discriminate.
  Qed.

  (* ---------------------------------------------------------------- names unique per client *)
  Lemma alookup_in : forall {V} (d : list (str * V)) k v, NoDup (map fst d) -> In (k, v) d -> alookup k d = Some v.
  Proof.
    induction d as [|[k0 v0] d IH]; intros k v Hn Hin; simpl; [contradiction|].
    inversion Hn as [|? ? Hni Hn']; subst. destruct Hin as [E|Hin].
    - inversion E; subst. rewrite str_eqb_refl. reflexivity.
    - destruct (str_eqb k k0) eqn:E.
      + apply str_eqb_eq in E. subst k0. exfalso. apply Hni.
        change k with (fst (k, v)). apply in_map. exact Hin.
      + apply IH; assumption.
  Qed.

  Lemma aappend_keys : forall {V} (d : list (str * list V)) k v,
    NoDup (map fst d) -> NoDup (map fst (aappend d k v)) /\ (forall x, In x (map fst (aappend d k v)) -> x = k \/ In x (map fst d)).
  Proof.
    induction d as [|[k0 l0] d IH]; intros k v Hn; simpl.
    - split; [constructor; [intros [] | constructor] | intros x [<-|[]]; left; reflexivity].
    - inversion Hn as [|? ? Hni Hn']; subst. destruct (str_eqb k k0) eqn:E; simpl.
      + split; [exact Hn | intros x Hx; right; exact Hx].
      + destruct (IH k v Hn') as [I1 I2]. split.
        * constructor; [|exact I1]. intro Hin. destruct (I2 _ Hin) as [->|Hin'].
          -- rewrite str_eqb_refl in E. discriminate.
          -- contradiction.
        * intros x [<-|Hx]; [right; left; reflexivity|].
          destruct (I2 _ Hx) as [->|Hx']; [left; reflexivity | right; right; exact Hx'].
  Qed.

  Lemma group_keys_nodup : forall l, NoDup (map fst (group l)).
  Proof.
    intro l. unfold Tags.group.
    assert (G : forall l d, NoDup (map fst d) -> NoDup (map fst (fold_left group_step l d))).
    { induction l0 as [|o l0 IH]; intros d Hd; simpl; [exact Hd|]. apply IH.
      unfold Tags.group_step. generalize (group_tags o). intro ts. revert d Hd.
      induction ts as [|t ts IHt]; intros d Hd; simpl; [exact Hd|].
      apply IHt. apply aappend_keys, Hd. }
    apply G. constructor.
  Qed.

  Lemma NoDup_map_filter : forall {A B} (f : A -> B) (p : A -> bool) l,
    NoDup (map f l) -> NoDup (map f (filter p l)).
  Proof.
    induction l as [|x l IH]; simpl; intro H; [constructor|].
    inversion H as [|? ? Hn Hd]; subst. destruct (p x); simpl; [|apply IH, Hd].
    constructor; [|apply IH, Hd]. intro Hin. apply Hn.
    apply in_map_iff in Hin. destruct Hin as [y [E Hy]]. apply filter_In in Hy.
    rewrite <- E. apply in_map. apply Hy.
  Qed.

  Lemma flat_map_contrib_filter : forall l k,
    (forall o', In o' l -> nodupb (map tag_key (group_tags o')) = true) ->
    flat_map (contrib k) l = filter (fun o => negb (is_nil (contrib k o))) l.
  Proof.
    induction l as [|a l IH]; intros k Hg; simpl; [reflexivity|].
    rewrite IH; [|intros; apply Hg; right; assumption].
    destruct (contrib_le1 a k (Hg a (or_introl eq_refl))) as [E|E]; rewrite E; reflexivity.
  Qed.

  (* if the emitted method names are globally unique, every client has unique method names *)
  Theorem names_unique_full : forall e, NoDup (map mn e) -> names_unique method_name tag_key e.
  Proof.
    intros e Hn k g Hin.
    assert (G : forall o', In o' e -> nodupb (map tag_key (group_tags o')) = true)
      by (intros; apply group_tags_nodupb).
    pose proof (alookup_in _ _ _ (group_keys_nodup e) Hin) as L.
    pose proof (group_lookup e k) as GL. unfold alookup_l in GL. rewrite L in GL. subst g.
    rewrite (flat_map_contrib_filter e k G). apply NoDup_map_filter, Hn.
  Qed.

  (* ---------------------------------------------------------------- the guarded statement *)
  Definition mp (o : op) : str * str := (o_method o, o_path o).
  (* (METHOD, path) pairs of a document are pairwise distinct: keys of JSON/YAML objects *)
  Definition doc_distinct (doc : list raw_op) : Prop :=
    NoDup (map (fun r => (upper_str (r_method r), r_path r)) (ops doc)).

  Lemma dedup_go_mp : forall l used, map mp (dedup_go used l) = map mp l.
  Proof.
    intros l used. pose proof (dedup_go_shape l used) as S.
    induction S as [|a b l1 l2 H _ IH]; simpl; [reflexivity|].
    destruct (suffixed_tags _ _ H) as (_ & E1 & E2). unfold mp at 1 3. rewrite E1, E2, IH. reflexivity.
  Qed.

  Lemma NoDup_map_inj_in : forall {A B} (f : A -> B) l a b,
    NoDup (map f l) -> In a l -> In b l -> f a = f b -> a = b.
  Proof.
    induction l as [|x l IH]; intros a b Hn Ha Hb E; simpl in *; [contradiction|].
    inversion Hn as [|? ? Hni Hn']; subst.
    destruct Ha as [->|Ha]; destruct Hb as [->|Hb]; try reflexivity.
    - exfalso. apply Hni. rewrite E. apply in_map, Hb.
    - exfalso. apply Hni. rewrite <- E. apply in_map, Ha.
    - apply IH; assumption.
  Qed.

  Lemma distinct_from_mp : forall l, NoDup (map mp l) -> distinct_ops l.
  Proof.
    intros l H. split; [apply (NoDup_map_inv mp), H|].
    intros a b Ha Hb E. apply (NoDup_map_inj_in mp l); try assumption.
    unfold same_op in E. apply andb_true_iff in E. destruct E as [E1 E2].
    apply str_eqb_eq in E1, E2. unfold mp. rewrite E1, E2. reflexivity.
  Qed.

  Theorem partial : forall st doc,
    doc_distinct doc ->
    guard_F07f method_name clean_id st doc = true ->
    dedup_total method_name (parse st doc) = true ->
    let e := emitted_ops (parse st doc) in
    length e = length (ops doc)
    /\ once_per_tag tag_key e
    /\ names_unique method_name tag_key e
    /\ client_tags e = Some (emitter_tags e).
  Proof.
    intros st doc Hdd Hb Ha e.
    destruct (emitted_unique _ Ha) as [E1 E2].
    assert (Hd : distinct_ops e).
    { apply distinct_from_mp. unfold e, Tags.emitted_ops, Tags.dedup_ops. rewrite !dedup_go_mp.
      rewrite (guard_none_dropped st doc Hb), map_map. exact Hdd. }
    repeat split.
    - unfold e. rewrite E1. unfold Tags.dedup_ops. rewrite dedup_go_length.
      rewrite (guard_none_dropped st doc Hb). apply map_length.
    - apply once_per_tag_full; assumption.
    - apply names_unique_full; assumption.
    - apply clients_mirror.
  Qed.
  (* ---------------------------------------------------------------- groups -> files -> APIClient properties *)
  Definition add_key (ks : list str) (k : str) : list str := if mem_str k ks then ks else ks ++ [k].

  Lemma amem_mem : forall {V} (d : list (str * V)) k, amem k d = mem_str k (map fst d).
  Proof. induction d as [|[k' v] d IH]; intro k; simpl; [reflexivity | rewrite IH; reflexivity]. Qed.

  Lemma aappend_fst_keys : forall {V} (d : list (str * list V)) k (v : V),
    map fst (aappend d k v) = add_key (map fst d) k.
  Proof.
    unfold add_key. induction d as [|[k' g] d IH]; intros k v; simpl; [reflexivity|].
    destruct (str_eqb k k') eqn:E; simpl; [reflexivity|]. rewrite IH.
    destruct (mem_str k (map fst d)); reflexivity.
  Qed.

  Lemma add_key_in : forall ks k x, In x ks -> In x (add_key ks k).
  Proof. intros ks k x H. unfold add_key. destruct (mem_str k ks); [exact H | apply in_or_app; left; exact H]. Qed.
  Lemma add_key_self : forall ks k, In k (add_key ks k).
  Proof.
    intros ks k. unfold add_key. destruct (mem_str k ks) eqn:E; [apply mem_str_In, E | apply in_or_app; right; left; reflexivity].
  Qed.
  Lemma add_key_noop : forall ks k, In k ks -> add_key ks k = ks.
  Proof. intros ks k H. unfold add_key. apply mem_str_In in H. rewrite H. reflexivity. Qed.

  (* dropping the repeated spellings of a key does not change which keys get created, nor their order *)
  Lemma fold_add_key_dedup : forall ts seen ks,
    (forall x, In x seen -> In x ks) ->
    fold_left add_key (map tag_key (dedup_keys_go tag_key seen ts)) ks = fold_left add_key (map tag_key ts) ks.
  Proof.
    induction ts as [|t ts IH]; intros seen ks H; simpl; [reflexivity|].
    destruct (mem_str (tag_key t) seen) eqn:E.
    - apply mem_str_In in E. rewrite (add_key_noop ks _ (H _ E)). apply IH, H.
    - simpl. apply IH. intros x [<-|Hx]; [apply add_key_self | apply add_key_in, H, Hx].
  Qed.

  Lemma fold_aappend_keys : forall {V} (f : str -> V) ts (d : list (str * list V)),
    map fst (fold_left (fun d t => aappend d (tag_key t) (f t)) ts d) = fold_left add_key (map tag_key ts) (map fst d).
  Proof.
    induction ts as [|t ts IH]; intro d; simpl; [reflexivity|]. rewrite IH, aappend_fst_keys. reflexivity.
  Qed.

  Lemma group_cand_keys_gen : forall l (d1 : list (str * list op)) (d2 : list (str * list str)),
    map fst d1 = map fst d2 ->
    map fst (fold_left group_step l d1) = map fst (fold_left (cand_step tag_key) l d2).
  Proof.
    induction l as [|o l IH]; intros d1 d2 H; simpl; [exact H|]. apply IH.
    unfold Tags.group_step, cand_step.
    rewrite (fold_aappend_keys (fun _ => o)), (fold_aappend_keys (fun t => t)), H.
    unfold Tags.group_tags. apply fold_add_key_dedup. intros x [].
  Qed.

  (* the group table and the candidate table have the same keys in the same order *)
  Lemma group_cand_keys : forall l, map fst (group l) = map fst (candidates l).
  Proof. intro l. apply group_cand_keys_gen. reflexivity. Qed.

  Lemma emitter_tags_keys : forall l, map fst (emitter_tags l) = map fst (group l).
  Proof. intro l. unfold Tags.emitter_tags. rewrite map_map. simpl. symmetry. apply group_cand_keys. Qed.

  Lemma canonical_of_keys : forall (m : list (str * str)), NoDup (map fst m) ->
    map (canonical_of m) (map fst m) = map snd m.
  Proof.
    intros m H. rewrite map_map. apply map_ext_in. intros [k c] Hin. simpl.
    unfold canonical_of. rewrite (alookup_in m k c H Hin). reflexivity.
  Qed.

  (* a dict built from pairs with pairwise distinct keys is the list itself: nothing is overwritten *)
  Lemma aset_fresh : forall {V} (d : list (str * V)) k v, ~ In k (map fst d) -> aset d k v = d ++ [(k, v)].
  Proof.
    induction d as [|[k' v'] d IH]; intros k v H; simpl; [reflexivity|].
    destruct (str_eqb k k') eqn:E.
    - apply str_eqb_eq in E. exfalso. apply H. left. symmetry. exact E.
    - rewrite IH; [reflexivity|]. intro Hin. apply H. right. exact Hin.
  Qed.
  Lemma aupdate_nodup : forall {V} (l d : list (str * V)), NoDup (map fst (d ++ l)) -> aupdate d l = d ++ l.
  Proof.
    unfold aupdate. induction l as [|[k v] l IH]; intros d H; simpl; [rewrite app_nil_r; reflexivity|].
    rewrite aset_fresh.
    - rewrite IH; rewrite <- app_assoc; [reflexivity | exact H].
    - rewrite map_app in H. apply NoDup_remove_2 in H. intro Hin. apply H. apply in_or_app. left. exact Hin.
  Qed.
  Lemma dict_of_nodup : forall {V} (l : list (str * V)), NoDup (map fst l) -> dict_of l = l.
  Proof. intros V l H. unfold dict_of. apply (aupdate_nodup l []). exact H. Qed.

  (* sorted(tag_map) is a permutation *)
  Lemma ins_sorted_perm : forall {V} (x : str * V) l, Permutation (ins_sorted x l) (x :: l).
  Proof.
    induction l as [|y l IH]; simpl; [apply Permutation_refl|].
    destruct (str_leb (fst x) (fst y)); [apply Permutation_refl|].
    apply perm_trans with (y :: x :: l); [apply perm_skip, IH | apply perm_swap].
  Qed.
  Lemma sort_by_key_perm : forall {V} (l : list (str * V)), Permutation (sort_by_key l) l.
  Proof.
    induction l as [|x l IH]; simpl; [apply Permutation_refl|].
    apply perm_trans with (x :: sort_by_key l); [apply ins_sorted_perm | apply perm_skip, IH].
  Qed.

  Notation mods m := (map (fun kc : str * str => tag_attr (snd kc)) m).
  (* the guard: the module names of the canonical tags are pairwise distinct (negation of F07e on this
     document) and are Python identifiers (negation of the fixed F07d) *)
  Definition modules_ok (e : list op) : bool :=
    nodupb (mods (emitter_tags e)) && forallb py_ident (mods (emitter_tags e)).

  Definition file_of (e : list op) (kg : str * list op) : str * (str * list str) :=
    let c := canonical_of (emitter_tags e) (fst kg) in
    (tag_attr c, (class_of tag_class c, map (fun o => method_name (o_id o)) (snd kg))).
  Definition prop_of (kc : str * str) : str * str := (tag_attr (snd kc), class_of tag_class (snd kc)).

  Lemma emitter_tags_nodup : forall e, NoDup (map fst (emitter_tags e)).
  Proof. intro e. rewrite emitter_tags_keys. apply group_keys_nodup. Qed.

  Lemma file_keys : forall e, map fst (map (file_of e) (group e)) = mods (emitter_tags e).
  Proof.
    intro e. rewrite map_map. unfold file_of. simpl.
    rewrite <- (map_map (fun kg => canonical_of (emitter_tags e) (fst kg)) tag_attr).
    rewrite <- (map_map fst (canonical_of (emitter_tags e))), <- emitter_tags_keys.
    rewrite (canonical_of_keys _ (emitter_tags_nodup e)), map_map. reflexivity.
  Qed.

  Definition files_of (l : list op) := files method_name tag_key tag_attr tag_class score l.
  Definition props_of (l : list op) := props method_name tag_key tag_attr tag_class score py_ident l.

  (* every group is written to its own file: nothing overwrites anything *)
  Theorem files_exact : forall l, let e := emitted_ops l in
    modules_ok e = true ->
    files_of l = map (file_of e) (group e) /\ NoDup (map fst (files_of l)).
  Proof.
    intros l e H. unfold modules_ok in H. apply andb_true_iff in H. destruct H as [H _].
    apply nodupb_NoDup in H.
    assert (E : files_of l = dict_of (map (file_of e) (group e))) by reflexivity.
    rewrite E, dict_of_nodup; rewrite file_keys; [split; [reflexivity | exact H] | exact H].
  Qed.

  Lemma files_lookup : forall l k g, let e := emitted_ops l in
    modules_ok e = true -> In (k, g) (group e) ->
    alookup (tag_attr (canonical_of (emitter_tags e) k)) (files_of l)
    = Some (class_of tag_class (canonical_of (emitter_tags e) k), map (fun o => method_name (o_id o)) g).
  Proof.
    intros l k g e H Hin. destruct (files_exact l H) as [E N]. fold e in E.
    apply alookup_in; [exact N|]. rewrite E.
    change (tag_attr (canonical_of (emitter_tags e) k), (class_of tag_class (canonical_of (emitter_tags e) k), map (fun o => method_name (o_id o)) g))
      with (file_of e (k, g)).
    apply in_map, Hin.
  Qed.

  Lemma in_emitter_tags_group : forall e k c, In (k, c) (emitter_tags e) ->
    c = canonical_of (emitter_tags e) k /\ exists g, In (k, g) (group e).
  Proof.
    intros e k c Hin. split.
    - unfold canonical_of. rewrite (alookup_in _ k c (emitter_tags_nodup e) Hin). reflexivity.
    - assert (K : In k (map fst (group e))).
      { rewrite <- emitter_tags_keys. change k with (fst (k, c)). apply in_map, Hin. }
      apply in_map_iff in K. destruct K as [[k' g] [E K]]. simpl in E. subst k'. exists g. exact K.
  Qed.

  (* THE reachability theorem: under the guard, client.py is importable, its tag properties are — up to
     the sort order — exactly one (module, class) per group, property names are pairwise distinct, and
     each group's property names the module whose file holds exactly that group's methods *)
  Theorem reachable : forall l, let e := emitted_ops l in
    modules_ok e = true ->
    exists t,
      props_of l = Some t
      /\ Permutation t (map prop_of (emitter_tags e))
      /\ NoDup (map fst t)
      /\ forall k g, In (k, g) (group e) ->
           let c := canonical_of (emitter_tags e) k in
           In (tag_attr c, class_of tag_class c) t
           /\ alookup (tag_attr c) (files_of l) = Some (class_of tag_class c, map (fun o => method_name (o_id o)) g).
  Proof.
    intros l e H. pose proof H as H0. unfold modules_ok in H0. apply andb_true_iff in H0. destruct H0 as [Hn Hi].
    apply nodupb_NoDup in Hn.
    set (m := emitter_tags e) in *.
    set (t := map prop_of (sort_by_key m)).
    assert (P : Permutation t (map prop_of m)) by (apply Permutation_map, sort_by_key_perm).
    assert (Nt : NoDup (map fst t)).
    { apply (Permutation_NoDup (l := map fst (map prop_of m))); [apply Permutation_map, Permutation_sym, P|].
      rewrite map_map. exact Hn. }
    exists t. split; [|split; [exact P | split; [exact Nt|]]].
    - unfold props_of, props. fold e. rewrite (clients_mirror e). fold m.
      change (map (fun kc : str * str => (tag_attr (snd kc), class_of tag_class (snd kc))) (sort_by_key m)) with t.
      assert (C1 : forallb (fun nc : str * str => py_ident (fst nc)) t = true).
      { apply forallb_forall. intros nc Hin. apply (Permutation_in _ P) in Hin.
        apply in_map_iff in Hin. destruct Hin as [kc [<- Hk]]. simpl.
        rewrite forallb_forall in Hi. apply Hi. apply (in_map (fun kc => tag_attr (snd kc))), Hk. }
      assert (C2 : forallb (fun nc : str * str =>
                     match alookup (fst nc) (files method_name tag_key tag_attr tag_class score l) with
                     | Some (c, _) => str_eqb c (snd nc) | None => false end) t = true).
      { apply forallb_forall. intros nc Hin. apply (Permutation_in _ P) in Hin.
        apply in_map_iff in Hin. destruct Hin as [[k c] [<- Hk]]. simpl.
        destruct (in_emitter_tags_group e k c Hk) as [Ec [g Hg]].
        pose proof (files_lookup l k g H Hg) as L. fold e in L. fold m in L, Ec. rewrite <- Ec in L.
        unfold files_of in L. rewrite L. apply str_eqb_refl. }
      rewrite C1, C2. simpl. rewrite (dict_of_nodup t Nt). reflexivity.
    - intros k g Hin c. split; [|apply (files_lookup l k g H Hin)].
      apply (Permutation_in _ (Permutation_sym P)).
      assert (K : In k (map fst m)) by (unfold m; rewrite emitter_tags_keys; change k with (fst (k, g)); apply in_map, Hin).
      apply in_map_iff in K. destruct K as [[k' c'] [E K]]. simpl in E. subst k'.
      destruct (in_emitter_tags_group e k c' K) as [Ec _]. fold m in Ec.
      change (tag_attr c, class_of tag_class c) with (prop_of (k, c)). unfold c. rewrite <- Ec.
      apply in_map, K.
  Qed.

  (* ---------------------------------------------------------------- F07e's guard implies the module guard *)
  Definition cand_ok (T : list str) (d : list (str * list str)) : Prop :=
    Forall (fun kc => Forall (fun t => tag_key t = fst kc /\ In t T) (snd kc)) d.

  Lemma aappend_cand_ok : forall T d t, cand_ok T d -> In t T -> cand_ok T (aappend d (tag_key t) t).
  Proof.
    unfold cand_ok. induction d as [|[k c] d IH]; intros t H Ht; simpl.
    - constructor; [|constructor]. simpl. constructor; [split; [reflexivity | exact Ht] | constructor].
    - inversion H as [|? ? Hh Hr]; subst. destruct (str_eqb (tag_key t) k) eqn:E.
      + apply str_eqb_eq in E. constructor; [|exact Hr]. simpl in *. apply Forall_app. split; [exact Hh|].
        constructor; [split; [exact E | exact Ht] | constructor].
      + constructor; [exact Hh | apply IH; assumption].
  Qed.

  Lemma candidates_ok : forall l, cand_ok (all_tags l) (candidates l).
  Proof.
    intro l. unfold Tags.candidates.
    assert (G : forall l' d, (forall o t, In o l' -> In t (tags_or_default o) -> In t (all_tags l)) ->
                cand_ok (all_tags l) d -> cand_ok (all_tags l) (fold_left (cand_step tag_key) l' d)).
    { induction l' as [|o l' IH]; intros d H Hd; simpl; [exact Hd|]. apply IH.
      - intros o' t Ho. apply H. right. exact Ho.
      - unfold cand_step.
        assert (Q : forall ts d, (forall t, In t ts -> In t (all_tags l)) -> cand_ok (all_tags l) d ->
                    cand_ok (all_tags l) (fold_left (fun d t => aappend d (tag_key t) t) ts d)).
        { induction ts as [|t ts IHt]; intros d0 Hts Hd0; simpl; [exact Hd0|].
          apply IHt; [intros t' Ht'; apply Hts; right; exact Ht'|].
          apply aappend_cand_ok; [exact Hd0 | apply Hts; left; reflexivity]. }
        apply Q; [|exact Hd]. intros t Ht. apply (H o t); [left; reflexivity | exact Ht]. }
    apply G; [|constructor].
    intros o t Ho Ht. unfold all_tags. apply in_flat_map. exists o. split; assumption.
  Qed.

  Lemma max_by_in : forall r x, In (max_by score x r) (x :: r).
  Proof.
    induction r as [|y r IH]; intro x; simpl; [left; reflexivity|].
    destruct (score_gtb score y x).
    - destruct (IH y) as [H|H]; [right; left; exact H | right; right; exact H].
    - destruct (IH x) as [H|H]; [left; exact H | right; right; exact H].
  Qed.

  Lemma canon_ok : forall l k c, In (k, c) (emitter_tags l) -> tag_key c = k /\ In c (all_tags l).
  Proof.
    intros l k c Hin. unfold Tags.emitter_tags in Hin. apply in_map_iff in Hin.
    destruct Hin as [[k' cs] [E Hin]]. simpl in E. inversion E; subst k' c. clear E.
    pose proof (candidates_ok l) as OK. pose proof (candidates_nonempty l) as NE.
    unfold cand_ok in OK. rewrite Forall_forall in OK. specialize (OK _ Hin). simpl in OK.
    unfold nonempty_lists in NE. rewrite Forall_forall in NE. specialize (NE _ Hin). simpl in NE.
    destruct cs as [|x r]; [contradiction NE; reflexivity|]. simpl.
    rewrite Forall_forall in OK. apply OK. apply max_by_in.
  Qed.

  Lemma NoDup_map_inj_on : forall {A B} (f : A -> B) l,
    NoDup l -> (forall x y, In x l -> In y l -> f x = f y -> x = y) -> NoDup (map f l).
  Proof.
    induction l as [|a l IH]; intros Hn Hi; simpl; [constructor|].
    inversion Hn as [|? ? Hna Hn']; subst. constructor.
    - intro Hin. apply in_map_iff in Hin. destruct Hin as [b [E Hb]].
      apply Hna. rewrite (Hi a b (or_introl eq_refl) (or_intror Hb) (eq_sym E)). exact Hb.
    - apply IH; [exact Hn'|]. intros x y Hx Hy. apply Hi; right; assumption.
  Qed.

  (* the check's F07e guard (pairwise over ALL tag spellings of the document) implies that the module
     names actually used — those of the canonical tags — are pairwise distinct *)
  Theorem guard_F07e_modules : forall l, guard_F07e tag_key tag_attr tag_class l = true ->
    nodupb (map (fun kc : str * str => tag_attr (snd kc)) (emitter_tags l)) = true.
  Proof.
    intros l H. apply nodupb_NoDup. apply NoDup_map_inj_on.
    - apply (NoDup_map_inv fst), emitter_tags_nodup.
    - intros [k1 c1] [k2 c2] H1 H2 E. simpl in E.
      destruct (canon_ok l k1 c1 H1) as [K1 T1]. destruct (canon_ok l k2 c2 H2) as [K2 T2].
      unfold guard_F07e in H. rewrite forallb_forall in H. specialize (H c1 T1).
      rewrite forallb_forall in H. specialize (H c2 T2).
      apply orb_true_iff in H. destruct H as [H|H].
      + apply str_eqb_eq in H. rewrite K1, K2 in H. subst k2.
        apply (NoDup_map_inj_in fst (emitter_tags l)); [apply emitter_tags_nodup | exact H1 | exact H2 | reflexivity].
      + apply andb_true_iff in H. destruct H as [H _]. apply negb_true_iff in H.
        rewrite E, str_eqb_refl in H. discriminate.
  Qed.

  Theorem guards_modules_ok : forall l,
    guard_F07e tag_key tag_attr tag_class l = true -> guard_F07d tag_attr py_ident l = true ->
    modules_ok l = true.
  Proof.
    intros l He Hd. unfold modules_ok. rewrite (guard_F07e_modules l He). simpl.
    apply forallb_forall. intros x Hx. apply in_map_iff in Hx. destruct Hx as [[k c] [<- Hin]]. simpl.
    destruct (canon_ok l k c Hin) as [_ T]. unfold guard_F07d in Hd. rewrite forallb_forall in Hd. apply Hd, T.
  Qed.

End Generic.

(* ====================================================================================== *)
(* Witnesses (tables = what the real NameSanitizer returns on these strings; the same inputs *)
(* are corpus cases and are replayed on the implementation by every run)                     *)
(* ====================================================================================== *)
Definition idf (s : str) : str := s.
Definition no_clean (i mu p : str) : str := i.
Definition no_score (s : str) : bool * N * N := (false, 0, 0).
Definition s_GET : str := [71;69;84].
Definition s_POST : str := [80;79;83;84].
Definition s_a : str := [97].
Definition s_b : str := [98].
Definition s_pa : str := [47;97].     (* /a *)
Definition s_foo : str := [102;111;111].
Definition s_foo_2 : str := s_foo ++ [95;50].
Definition s_foo_2_2 : str := s_foo_2 ++ [95;50].
Definition mkid (i : str) : op := {| o_id := i; o_method := s_GET; o_path := i; o_tags := [] |}.

(* F07a — one pass: foo, foo, foo_2 -> foo, foo_2, foo_2 *)
Definition ids_F07a1 : list op := [mkid s_foo; mkid s_foo; mkid s_foo_2].
(* F07a — the two passes of the direct path: foo, foo, foo_2, foo_2_2 -> foo, foo_2, foo_2_2, foo_2_2 *)
Definition ids_F07a : list op := [mkid s_foo; mkid s_foo; mkid s_foo_2; mkid s_foo_2_2].

(* F07a FIXED — regression: the old witnesses now end with pairwise distinct method names, and the
   pass is idempotent on them *)
Theorem fixed_F07a :
  map o_id (dedup_ops idf ids_F07a1) = [s_foo; s_foo_2; s_foo_2_2]
  /\ dedup_ops idf (dedup_ops idf ids_F07a1) = dedup_ops idf ids_F07a1
  /\ map o_id (emitted_ops idf ids_F07a) = [s_foo; s_foo_2; s_foo_2_2; s_foo_2_2 ++ [95;50]]
  /\ dedup_total idf ids_F07a = true
  /\ NoDup (map (fun o => idf (o_id o)) (emitted_ops idf ids_F07a)).
Proof.
  repeat split; try (vm_compute; reflexivity).
  apply (emitted_unique idf). vm_compute. reflexivity.
Qed.

(* F07b FIXED — regression: the YAML `200:` document keeps both operations *)
Definition doc_F07b : list raw_op :=
  [ {| r_path := s_pa; r_method := [103;101;116]; r_node_ok := true; r_opid := Some s_a; r_tags := TAbsent;
       r_resp := [(KInt 200, true)]; r_params := [] |};
    {| r_path := s_pa; r_method := [112;111;115;116]; r_node_ok := true; r_opid := Some s_b; r_tags := TAbsent;
       r_resp := [(KStr s_default, true)]; r_params := [] |} ].
Theorem fixed_F07b :
  guard_F07f idf no_clean SOpId doc_F07b = true
  /\ length (parse idf no_clean SOpId doc_F07b) = length (ops doc_F07b)
  /\ length (ops doc_F07b) = 2%nat.
Proof. repeat split; vm_compute; reflexivity. Qed.

(* F07f FIXED — regression: a parameter without name now makes generation fail visibly *)
Definition doc_F07f : list raw_op :=
  [ {| r_path := s_pa; r_method := [103;101;116]; r_node_ok := true; r_opid := Some s_a; r_tags := TAbsent;
       r_resp := [(KStr s_default, true)]; r_params := [] |};
    {| r_path := s_pa; r_method := [112;111;115;116]; r_node_ok := true; r_opid := Some s_b; r_tags := TAbsent;
       r_resp := [(KStr s_default, true)]; r_params := [PNoName] |} ].
Theorem fixed_F07f :
  guard_F07f idf no_clean SOpId doc_F07f = false
  /\ generate idf idf idf idf no_clean no_score (fun _ => true) SOpId doc_F07f = Failed.
Proof. split; vm_compute; reflexivity. Qed.

(* F07c — tags Users, users on one operation *)
Definition s_Users : str := [85;115;101;114;115].
Definition s_users : str := [117;115;101;114;115].
Definition key_F07c : str -> str := tbl_fun [(s_Users, s_users)].
Definition op_F07c : op := {| o_id := s_a; o_method := s_GET; o_path := s_pa; o_tags := [s_Users; s_users] |}.

(* F07c FIXED — regression: the operation is once in the users group *)
Theorem fixed_F07c :
  group key_F07c [op_F07c] = [(s_users, [op_F07c])]
  /\ candidates key_F07c [op_F07c] = [(s_users, [s_Users; s_users])]
  /\ once_per_tag key_F07c [op_F07c].
Proof.
  split; [vm_compute; reflexivity|]. split; [vm_compute; reflexivity|].
  apply once_per_tag_full. split.
  - constructor; [intros [] | constructor].
  - intros a b [<-|[]] [<-|[]] _. reflexivity.
Qed.

(* F07d FIXED (sanitiser fallback) — regression: tag "-" now has module/attribute `unnamed`, an
   identifier; client.py is importable and the tag client is a property *)
Definition s_dash : str := [45].
Definition s_unnamed : str := [117;110;110;97;109;101;100].
Definition s_UnnamedClass : str := [85;110;110;97;109;101;100;67;108;97;115;115].
Definition ops_F07d : list op :=
  [ {| o_id := s_a; o_method := s_GET; o_path := s_pa; o_tags := [] |};
    {| o_id := s_b; o_method := s_POST; o_path := s_pa; o_tags := [s_dash] |} ].
Definition key_F07d : str -> str := tbl_fun [(s_dash, [])].
Definition attr_F07d : str -> str := tbl_fun [(s_dash, s_unnamed)].
Definition class_F07d : str -> str := tbl_fun [(s_dash, s_UnnamedClass)].
Definition ident_F07d (s : str) : bool := negb (is_nil s).

Theorem fixed_F07d :
  guard_F07d attr_F07d ident_F07d ops_F07d = true
  /\ props idf key_F07d attr_F07d class_F07d no_score ident_F07d ops_F07d
     = Some [(s_unnamed, s_UnnamedClass ++ s_Client); (s_default, s_default ++ s_Client)].
Proof. split; vm_compute; reflexivity. Qed.

(* F07e, second witness — the fallback name collides with a tag spelled `unnamed` *)
Definition ops_F07e2 : list op :=
  [ {| o_id := s_a; o_method := s_GET; o_path := s_pa; o_tags := [s_dash] |};
    {| o_id := s_b; o_method := s_POST; o_path := s_pa; o_tags := [s_unnamed] |} ].
Theorem refuted_F07e_unnamed :
  guard_F07e key_F07d attr_F07d class_F07d ops_F07e2 = false
  /\ length (group key_F07d (emitted_ops idf ops_F07e2)) = 2%nat
  /\ length (files idf key_F07d attr_F07d class_F07d no_score ops_F07e2) = 1%nat.
Proof. repeat split; vm_compute; reflexivity. Qed.

(* F07e — tags café / caf *)
Definition s_caf : str := [99;97;102].
Definition s_cafe : str := [99;97;102;233].
Definition s_Caf : str := [67;97;102].
Definition ops_F07e : list op :=
  [ {| o_id := s_a; o_method := s_GET; o_path := s_pa; o_tags := [s_cafe] |};
    {| o_id := s_b; o_method := s_POST; o_path := s_pa; o_tags := [s_caf] |} ].
Definition attr_F07e : str -> str := tbl_fun [(s_cafe, s_caf)].
Definition class_F07e : str -> str := tbl_fun [(s_cafe, s_Caf); (s_caf, s_Caf)].

(* normalize_tag_key keeps é, sanitize_module_name drops it: two groups, one file, GET /a is gone *)
Theorem refuted_F07e :
  guard_F07e idf attr_F07e class_F07e ops_F07e = false
  /\ length (group idf (emitted_ops idf ops_F07e)) = 2%nat
  /\ files idf idf attr_F07e class_F07e no_score ops_F07e = [(s_caf, (s_Caf ++ s_Client, [s_b]))].
Proof. repeat split; vm_compute; reflexivity. Qed.

(* ---------- non-vacuity of the guarded theorem ---------- *)
Definition doc_ok : list raw_op :=
  [ {| r_path := s_pa; r_method := [103;101;116]; r_node_ok := true; r_opid := Some s_a; r_tags := TList [s_Users; s_caf];
       r_resp := [(KStr s_default, true)]; r_params := [POk] |};
    {| r_path := s_pa; r_method := [112;111;115;116]; r_node_ok := true; r_opid := Some s_a; r_tags := TList [s_users];
       r_resp := [(KStr s_default, true)]; r_params := [] |};
    {| r_path := s_pa; r_method := [120;45;101]; r_node_ok := false; r_opid := None; r_tags := TAbsent;
       r_resp := []; r_params := [] |} ].

Theorem guard_nonvacuous :
  doc_distinct doc_ok
  /\ guard_F07f idf no_clean SOpId doc_ok = true
  /\ dedup_total idf (parse idf no_clean SOpId doc_ok) = true
  /\ length (ops doc_ok) = 2%nat
  /\ map o_id (emitted_ops idf (parse idf no_clean SOpId doc_ok)) = [s_a; s_a ++ [95;50]].
Proof.
  repeat split; try (vm_compute; reflexivity).
  vm_compute. constructor; [intros [E|[]]; discriminate | constructor; [intros [] | constructor]].
Qed.
