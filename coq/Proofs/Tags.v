(* C07 — proofs about Model/Tags.v *)
From PG Require Import Lib.Strs Model.Tags.
From Coq Require Import Lia.

Definition idf (s : str) : str := s.

(* ---------- F07a: [foo; foo; foo_2] ---------- *)
Definition s_foo : str := [102;111;111].
Definition mkid (i : str) : op := {| o_id := i; o_method := [71;69;84]; o_path := i; o_tags := [] |}.
Definition ids_F07a : list op := [mkid s_foo; mkid s_foo; mkid (s_foo ++ [95;50])].

Lemma refuted_F07a_single :
  ~ NoDup (map (fun o => idf (o_id o)) (dedup_ops idf ids_F07a)).
Proof.
  vm_compute. intro H. inversion H as [|x l Hn Hr]; subst.
  inversion Hr as [|y l' Hn' _]; subst. apply Hn'. left. reflexivity.
Qed.
