(* C11 — proofs about Model/Registry.v *)
From PG Require Import Lib.Strs Model.Registry.

(* ---------- witnesses (strings: "c1" = [99;49], "c2" = [99;50]) ---------- *)
Definition c1 : str := [99; 49].
Definition c2 : str := [99; 50].
Definition call (c : str) (codes : list N) (f : bool) : gen_call :=
  {| g_client := c; g_codes := codes; g_force := f; g_core_given := true |}.

(* F11a: core "a.b.core" (three packages deep): c1 declares 404, then c2 declares 409 *)
Definition l_F11a : layout := {| core_depth := 3; core_inside_client := None |}.
Definition h_F11a : list gen_call := [call c1 [200; 404] true; call c2 [200; 409] true].

(* F11b: core "c1.core": c1 (404), c2 (409), then c1 regenerated with force *)
Definition l_in : layout := {| core_depth := 2; core_inside_client := Some c1 |}.
Definition h_F11b : list gen_call :=
  [call c1 [200; 404] true; call c2 [200; 409] true; call c1 [200; 404] true].

(* F11c (fixed): core "c1.core": c2 (404) first, then c1 (404) without force *)
Definition h_F11c : list gen_call := [call c2 [200; 404] false; call c1 [200; 404] false].

(* ---------- sorted sets ---------- *)
Lemma In_insert : forall x y l, In x (insert y l) <-> x = y \/ In x l.
Proof.
  intros x y l. induction l as [|z l IH]; simpl.
  - split; intros [H|H]; auto.
  - destruct (y <? z) eqn:E1; simpl.
    + split; intros [H|H]; auto.
    + destruct (y =? z) eqn:E2; simpl.
      * apply N.eqb_eq in E2. subst z. split; [intros [H|H] | intros [H|[H|H]]]; auto.
      * rewrite IH. split; [intros [H|[H|H]] | intros [H|[H|H]]]; auto.
Qed.

Lemma In_sort_set : forall x l, In x (sort_set l) <-> In x l.
Proof.
  intros x l. unfold sort_set. induction l as [|y l IH]; simpl.
  - tauto.
  - rewrite In_insert, IH. split; intros [H|H]; auto.
Qed.

(* ---------- association lists ---------- *)
Lemma alookup_In_concat : forall (r : reg) k es x,
  alookup k r = Some es -> In x es -> In x (concat (map snd r)).
Proof.
  induction r as [|[k' v'] r IH]; intros k es x Hl Hx; simpl in *.
  - discriminate.
  - apply in_or_app. destruct (str_eqb k k') eqn:E.
    + inversion Hl; subst. left. exact Hx.
    + right. eapply IH; eauto.
Qed.

Lemma In_alookup_nodup : forall {V} (d : list (str * V)) k v,
  NoDup (akeys d) -> In (k, v) d -> alookup k d = Some v.
Proof.
  induction d as [|[k' v'] d IH]; intros k v Hnd Hin; simpl in *.
  - contradiction.
  - inversion Hnd as [|? ? Hn Hd]; subst. destruct Hin as [Hin|Hin].
    + inversion Hin; subst. rewrite str_eqb_refl. reflexivity.
    + destruct (str_eqb k k') eqn:E.
      * apply str_eqb_eq in E. subst k'. exfalso. apply Hn.
        unfold akeys. apply in_map_iff. exists (k, v). auto.
      * apply IH; auto.
Qed.

Lemma akeys_aset : forall {V} (d : list (str * V)) k v x,
  In x (akeys (aset d k v)) -> In x (akeys d) \/ x = k.
Proof.
  induction d as [|[k' v'] d IH]; intros k v x H; simpl in *.
  - destruct H as [H|[]]. auto.
  - destruct (str_eqb k k') eqn:E; simpl in H.
    + destruct H as [H|H]; auto.
    + destruct H as [H|H]; auto. apply IH in H. tauto.
Qed.

Lemma nodup_akeys_aset : forall {V} (d : list (str * V)) k v,
  NoDup (akeys d) -> NoDup (akeys (aset d k v)).
Proof.
  induction d as [|[k' v'] d IH]; intros k v H; simpl.
  - constructor; [intros [] | constructor].
  - destruct (str_eqb k k') eqn:E; simpl.
    + exact H.
    + inversion H as [|? ? Hn Hd]; subst. constructor.
      * intro Hin. apply akeys_aset in Hin. destruct Hin as [Hin|Hin]; [contradiction|].
        subst. rewrite str_eqb_refl in E. discriminate.
      * apply IH. exact Hd.
Qed.

Lemma amem_aset : forall {V} (d : list (str * V)) k v k',
  amem k' (aset d k v) = str_eqb k' k || amem k' d.
Proof.
  intros V d k v k'. unfold amem. destruct (str_eqb k' k) eqn:E; simpl.
  - apply str_eqb_eq in E. subst. rewrite alookup_aset_same. reflexivity.
  - apply str_eqb_neq in E. rewrite alookup_aset_other by exact E. reflexivity.
Qed.

Lemma In_add_str : forall c l x, In x (add_str c l) -> x = c \/ In x l.
Proof.
  intros c l x H. unfold add_str in H. destruct (mem_str c l); auto.
  apply in_app_or in H. destruct H as [H|[H|[]]]; auto.
Qed.

(* the classes a client imports are among the classes emitted for its own spec *)
Lemma imports_in_errs : forall g, incl (filter is_error (imports_of g)) (errs_of g).
Proof.
  intros g x H. apply filter_In in H. destruct H as [H1 H2].
  unfold imports_of in H1. apply (proj1 (In_sort_set _ _)) in H1. apply filter_In in H1. destruct H1 as [H1 _].
  unfold errs_of. apply (proj2 (In_sort_set _ _)). apply filter_In. auto.
Qed.

(* ---------- the invariant carried along a history ---------- *)
Record J (w : world) : Prop := {
  J_reg : forall c cs, alookup c (clients w) = Some cs ->
          exists es, alookup c (reg_or_empty (registry w)) = Some es /\ incl (filter is_error cs) es;
  J_al  : forall c es x, alookup c (reg_or_empty (registry w)) = Some es -> In x es -> In x (aliases_of w);
  J_nd  : NoDup (akeys (clients w));
  J_cl  : Claimed_present w
}.

Lemma J_init : J init.
Proof.
  constructor; simpl.
  - intros c cs H. discriminate.
  - intros c es x H. discriminate.
  - constructor.
  - intros c [].
Qed.

Lemma J_Works : forall w, J w -> Works w.
Proof.
  intros w [Hr Ha Hn Hc]. split; [|exact Hc].
  intros c cs Hin x Hx.
  apply In_alookup_nodup in Hin; [|exact Hn].
  destruct (Hr c cs Hin) as [es [Hes Hincl]].
  eapply Ha; eauto.
Qed.

(* one call, whatever decides that the output directory exists *)
Lemma J_step_with : forall l ex w g,
  is_shared l = true ->
  J w -> J (fst (step_out_with l ex w g)).
Proof.
  intros l ex w g Hs [Hr Ha Hn Hcl]. unfold step_out_with.
  destruct (negb (g_force g) && ex) eqn:Ediff.
  - (* diff path: nothing changes; the client is (re)claimed only when it is present *)
    cbn [fst]. constructor; cbn [registry aliases clients claimed]; auto.
    destruct (amem (g_client g) (clients w)) eqn:Em; cbn [andb]; [|exact Hcl].
    match goal with |- Claimed_present {| claimed := (if ?b then _ else _) |} => destruct b end; [|exact Hcl].
    unfold Claimed_present. cbn [clients claimed]. intros c Hin. apply In_add_str in Hin.
    destruct Hin as [Hin|Hin]; [subst; exact Em | apply Hcl; exact Hin].
  - (* direct path *)
    rewrite Hs. cbn [fst]. constructor; cbn [registry aliases clients specs claimed reg_or_empty aliases_of].
    + intros c cs Hl. destruct (str_eqb c (g_client g)) eqn:E.
      * apply str_eqb_eq in E. subst c. rewrite alookup_aset_same in Hl. inversion Hl; subst.
        exists (errs_of g). split; [apply alookup_aset_same | apply imports_in_errs].
      * apply str_eqb_neq in E. rewrite alookup_aset_other in Hl by exact E.
        rewrite alookup_aset_other by exact E. apply Hr. exact Hl.
    + intros c es x Hl Hx. unfold union_codes. apply (proj2 (In_sort_set _ _)).
      eapply alookup_In_concat; eauto.
    + apply nodup_akeys_aset. exact Hn.
    + unfold Claimed_present. cbn [clients claimed]. intros c Hin. rewrite amem_aset. apply In_add_str in Hin.
      destruct Hin as [Hin|Hin].
      * subst. rewrite str_eqb_refl. reflexivity.
      * rewrite (Hcl c Hin). apply orb_true_r.
Qed.

Lemma J_step : forall l w g, is_shared l = true -> J w -> J (step l w g).
Proof. intros l w g Hs HJ. unfold step, step_out. apply J_step_with; assumption. Qed.

Lemma J_run_from : forall l h w, is_shared l = true -> J w -> J (fold_left (step l) h w).
Proof.
  intros l h. induction h as [|g h IH]; intros w Hs HJ; simpl in *; [exact HJ|].
  apply IH; auto. apply J_step; auto.
Qed.

(* MAIN THEOREM: for every well-formed layout and EVERY history *)
Theorem works_always : forall l h, wf_layout l = true -> Works (run l h).
Proof.
  intros l h Hs. apply J_Works. unfold run. apply J_run_from; [exact Hs | apply J_init].
Qed.

Theorem works_under_guard : forall l h, guard l h = true -> Works (run l h).
Proof. intros l h Hg. apply works_always. exact Hg. Qed.

(* ---------- regressions: the witnesses of the fixed findings ---------- *)
Lemma works_b_sound : forall w, Works w -> works_b w = true.
Proof.
  intros w [Hi Hc]. unfold works_b. apply andb_true_iff. split.
  - apply forallb_forall. intros [c cs] Hin. simpl. unfold inclb. apply forallb_forall.
    intros x Hx. apply existsb_exists. exists x. split; [|apply N.eqb_refl].
    eapply Hi; eauto.
  - apply forallb_forall. intros c Hin. apply Hc. exact Hin.
Qed.

(* regression (F11a fixed): core "a.b.core", c1 declares 404, then c2 declares 409: both keep working *)
Lemma fixed_F11a :
  guard l_F11a h_F11a = true /\ Works (run l_F11a h_F11a)
  /\ aliases (run l_F11a h_F11a) = Some [404; 409].
Proof.
  split; [vm_compute; reflexivity|]. split; [apply works_under_guard; vm_compute; reflexivity | vm_compute; reflexivity].
Qed.

(* F11b fixed: core "c1.core": c1 (404), c2 (409), c1 regenerated with force: c2 keeps ConflictError *)
Lemma fixed_F11b :
  wf_layout l_in = true /\ Works (run l_in h_F11b) /\ aliases (run l_in h_F11b) = Some [404; 409].
Proof.
  split; [vm_compute; reflexivity|]. split; [apply works_always; vm_compute; reflexivity | vm_compute; reflexivity].
Qed.

(* regression (F11c fixed by the stricter diff check): the non-force call over the directory that only
   holds the core raises; c1 is not reported as generated and c2 keeps working *)
Lemma fixed_F11c :
  guard l_in h_F11c = true /\ Works (run l_in h_F11c)
  /\ map snd (trace l_in init h_F11c) = [true; false] /\ claimed (run l_in h_F11c) = [c2].
Proof.
  split; [vm_compute; reflexivity|]. split; [apply works_under_guard; vm_compute; reflexivity|].
  split; vm_compute; reflexivity.
Qed.

(* ---------- non-vacuity ---------- *)
(* a shared core two packages deep; three clients, regeneration with fewer codes, a refused
   non-force call: the guard holds and something non-trivial is protected *)
Definition c3 : str := [99; 51].
Definition l_ok : layout := {| core_depth := 2; core_inside_client := None |}.
Definition h_ok : list gen_call :=
  [call c1 [200; 404; 500] true; call c2 [201; 409] false; call c1 [200; 404] true;
   call c2 [201; 409] false; call c3 [204] true].
Lemma guard_nonvacuous :
  guard l_ok h_ok = true /\ aliases (run l_ok h_ok) = Some [404; 409] /\ length (clients (run l_ok h_ok)) = 3%nat.
Proof. vm_compute. repeat split. Qed.
(* the guard also admits histories in the embedded layout "c1.core" *)
Lemma guard_nonvacuous_inside :
  guard l_in [call c1 [200; 404] false; call c2 [200; 409] true; call c1 [200; 404] false] = true.
Proof. vm_compute. reflexivity. Qed.
