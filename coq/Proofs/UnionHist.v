(* C14 / F14f — proofs about Model/UnionHist.v *)
From PG Require Import Lib.Strs Model.Union Model.UnionHist.
From Coq Require Import ZArith.

Lemma lookup_eqv_some : forall t c t0, lookup_eqv t c = Some t0 -> In t0 c /\ ty_eqv t t0 = true.
Proof.
  induction c as [|x c IH]; intros t0 H; simpl in H.
  - discriminate.
  - destruct (ty_eqv t x) eqn:E.
    + inversion H; subst. split; [left; reflexivity|exact E].
    + destruct (IH t0 H) as [H1 H2]. split; [right; exact H1|exact H2].
Qed.

Section Inv.
  Variable U : list ty.     (* all container sub-types used in the process *)
  Hypothesis HU : forall u1 u2, In u1 U -> In u2 U -> ty_eqv u1 u2 = true -> u1 = u2.

  Definition inv (s : cstate) : Prop :=
    (forall x, In x (cL s) -> In x U) /\ (forall x, In x (cD s) -> In x U).

  Lemma inv_addL : forall r s, In r U -> inv s -> inv (addL r s).
  Proof.
    intros r s Hr [H1 H2]. split; simpl; [|exact H2].
    intros x [Hx|Hx]; [subst; exact Hr|apply H1; exact Hx].
  Qed.

  Lemma hit_same : forall t c t0, (forall x, In x c -> In x U) -> In t U ->
    lookup_eqv t c = Some t0 -> t0 = t.
  Proof.
    intros t c t0 Hc Ht Hl. destruct (lookup_eqv_some _ _ _ Hl) as [Hin Heq].
    symmetry. apply HU; [exact Ht|apply Hc; exact Hin|exact Heq].
  Qed.

  Lemma disp_id : forall t cached s,
    inv s -> (forall u, In u (csub t) -> In u U) ->
    exists s', disp cached s t = (s', t) /\ inv s'.
  Proof.
    induction t as [| | | | |e IHe|e IHe|n fs|d vs]; intros cached s Hs Ht;
      try (exists s; split; [reflexivity|exact Hs]).
    - assert (HtU : In (TList e) U) by (apply Ht; left; reflexivity).
      assert (Hte : forall u, In u (csub e) -> In u U) by (intros u Hu; apply Ht; right; exact Hu).
      simpl. destruct cached.
      + destruct (lookup_eqv (TList e) (cL s)) as [t0|] eqn:El.
        * rewrite (hit_same _ _ _ (proj1 Hs) HtU El). exists s. split; [reflexivity|exact Hs].
        * destruct (IHe true s Hs Hte) as [s1 [Hr Hs1]]. rewrite Hr.
          exists (addL (TList e) s1). split; [reflexivity|apply inv_addL; assumption].
      + destruct (IHe true s Hs Hte) as [s1 [Hr Hs1]]. rewrite Hr.
        exists s1. split; [reflexivity|exact Hs1].
    - assert (HtU : In (TMap e) U) by (apply Ht; left; reflexivity).
      assert (Hte : forall u, In u (csub e) -> In u U) by (intros u Hu; apply Ht; right; exact Hu).
      assert (Hfresh : forall s1, inv s1 -> inv {| cL := []; cD := TMap e :: cD s1 |}).
      { intros s1 [_ H2]. split; simpl; [intros x []|].
        intros x [Hx|Hx]; [subst; exact HtU|apply H2; exact Hx]. }
      simpl. destruct cached.
      + destruct (lookup_eqv (TMap e) (cL s)) as [t0|] eqn:El.
        * rewrite (hit_same _ _ _ (proj1 Hs) HtU El). exists s. split; [reflexivity|exact Hs].
        * destruct (lookup_eqv (TMap e) (cD s)) as [t0|] eqn:Ed.
          -- rewrite (hit_same _ _ _ (proj2 Hs) HtU Ed). exists (addL (TMap e) s).
             split; [reflexivity|apply inv_addL; assumption].
          -- destruct (IHe false s Hs Hte) as [s1 [Hr Hs1]]. rewrite Hr.
             exists (addL (TMap e) {| cL := []; cD := TMap e :: cD s1 |}).
             split; [reflexivity|apply inv_addL; [exact HtU|apply Hfresh; exact Hs1]].
      + destruct (lookup_eqv (TMap e) (cD s)) as [t0|] eqn:Ed.
        * rewrite (hit_same _ _ _ (proj2 Hs) HtU Ed). exists s. split; [reflexivity|exact Hs].
        * destruct (IHe false s Hs Hte) as [s1 [Hr Hs1]]. rewrite Hr.
          exists {| cL := []; cD := TMap e :: cD s1 |}. split; [reflexivity|apply Hfresh; exact Hs1].
  Qed.

  Lemma run_free : forall rqs s,
    inv s ->
    (forall rq u, In rq rqs -> In u (csub (fst rq)) -> In u U) ->
    run s rqs = map (fun rq => structure (fst rq) (snd rq)) rqs.
  Proof.
    induction rqs as [|rq rqs IH]; intros s Hs Hr; simpl.
    - reflexivity.
    - unfold step. destruct (disp_id (fst rq) true s Hs) as [s' [Hres Hs']].
      { intros u Hu. apply (Hr rq u); [left; reflexivity|exact Hu]. }
      rewrite Hres. f_equal. apply IH; [exact Hs'|].
      intros rq0 u Hin Hu. apply (Hr rq0 u); [right; exact Hin|exact Hu].
  Qed.
End Inv.

(* For every process (any number of calls, any payloads): if no two container types with the same
   order-insensitive key but a different member order are used, every call returns exactly what it
   returns in a fresh process. *)
Theorem history_free_partial : forall rqs, consistent (map fst rqs) -> history_free rqs.
Proof.
  intros rqs Hcons. unfold history_free.
  apply (run_free (flat_map csub (map fst rqs)) Hcons).
  - split; intros x [].
  - intros rq u Hin Hu. apply in_flat_map. exists (fst rq). split; [apply in_map; exact Hin|exact Hu].
Qed.

(* the executable guard implies the stated one *)
Lemma prim_eqb_eq : forall a b, prim_eqb a b = true -> a = b.
Proof. intros a b H. destruct a; destruct b; try discriminate; reflexivity. Qed.

Lemma list_prim_eqb_eq : forall vs ws, list_eqb prim_eqb vs ws = true -> vs = ws.
Proof.
  induction vs as [|v vs IH]; intros [|w ws] H; simpl in H; try discriminate; [reflexivity|].
  apply andb_true_iff in H. destruct H as [H1 H2]. rewrite (prim_eqb_eq _ _ H1), (IH _ H2). reflexivity.
Qed.

Lemma hty_eqb_eq : forall a b, hty_eqb a b = true -> a = b.
Proof.
  induction a as [| | | | |e IHe|e IHe|n fs|d vs]; intros b H.
  1-5: destruct b; simpl in H; try discriminate H; reflexivity.
  - destruct b; simpl in H; try discriminate H. rewrite (IHe _ H). reflexivity.
  - destruct b; simpl in H; try discriminate H. rewrite (IHe _ H). reflexivity.
  - destruct b; simpl in H; discriminate H.
  - destruct d as [pm|]; destruct b as [| | | | | | | |d' ws]; simpl in H; try discriminate H.
    destruct d' as [pm'|]; simpl in H; try discriminate H.
    rewrite (list_prim_eqb_eq _ _ H). reflexivity.
Qed.

Lemma consistentb_sound : forall ts, consistentb ts = true -> consistent ts.
Proof.
  intros ts H u1 u2 H1 H2 He. unfold consistentb in H.
  rewrite forallb_forall in H. specialize (H u1 H1). rewrite forallb_forall in H. specialize (H u2 H2).
  rewrite He in H. simpl in H. apply hty_eqb_eq. exact H.
Qed.

Theorem history_free_partial_b : forall rqs, consistentb (map fst rqs) = true -> history_free rqs.
Proof. intros rqs H. apply history_free_partial. apply consistentb_sound. exact H. Qed.

(* ---- F14f: the full statement is false ---- *)
Definition u_si := TUnion None [TStr; TInt].
Definition u_is := TUnion None [TInt; TStr].
Definition h_F14f : list (ty * json) := [(TList u_si, JArr [JInt 5%Z]); (TList u_is, JArr [JInt 5%Z])].
Lemma refuted_F14f :
  consistentb (map fst h_F14f) = false
  /\ structure (TList u_is) (JArr [JInt 5%Z]) = Ok (VList [VInt 5%Z])      (* in a fresh process *)
  /\ safe (TList u_is) (JArr [JInt 5%Z]) = true                            (* a separated union, lossless *)
  /\ run empty_state h_F14f = [Ok (VList [VStr [53]]); Ok (VList [VStr [53]])]      (* after list[Union[str,int]] *)
  /\ ~ history_free h_F14f.
Proof.
  repeat split; try (vm_compute; reflexivity).
  unfold history_free. vm_compute. discriminate.
Qed.

Example hist_guard_nonvacuous :    (* a 3-call process over nested containers of unions meets the guard *)
  consistentb (map fst [(TList u_is, JArr [JInt 5%Z]); (TMap (TList u_is), JObj [([97], JArr [JStr [98]])]);
                        (TList (TUnion None [TBool; TStr; TNone]), JArr [JNull])]) = true.
Proof. vm_compute. reflexivity. Qed.
