(* C15 — proofs about the lexical model. *)
From PG Require Import Lib.Strs Model.Escape.
From Coq Require Import Lia ZifyBool.

(* ------------------------------------------------------------------ one-step lemmas of the lexer *)
Definition prepend (s : str) (r : option (str * str)) : option (str * str) :=
  match r with Some (v, rest) => Some (s ++ v, rest) | None => None end.

Lemma prepend_nil : forall r, prepend [] r = r.
Proof. intros [[v rest]|]; reflexivity. Qed.
Lemma prepend_cons : forall c s r, prepend (c :: s) r = consf c (prepend s r).
Proof. intros c s [[v rest]|]; reflexivity. Qed.

(* characters that are ordinary text inside a literal *)
Definition plain (tq : bool) (c : N) : bool :=
  negb ((c =? 34) || (c =? 92) || bad_raw c || (c =? 13) || (negb tq && (c =? 10))).

Lemma step_plain : forall tq c r, plain tq c = true ->
  lex_go tq Nrm (c :: r) = consf c (lex_go tq Nrm r).
Proof.
  intros tq c r H. unfold plain in H. cbn [lex_gen].
  destruct (c =? 34) eqn:E1; [discriminate|].
  destruct (c =? 92) eqn:E2; [discriminate|].
  destruct (bad_raw c) eqn:E3; [discriminate|].
  destruct (c =? 13) eqn:E4; [discriminate|].
  destruct (c =? 10) eqn:E5.
  - destruct tq; [|discriminate]. apply N.eqb_eq in E5. subst c. reflexivity.
  - reflexivity.
Qed.

Lemma run_plain : forall tq s X, forallb (plain tq) s = true ->
  lex_go tq Nrm (s ++ X) = prepend s (lex_go tq Nrm X).
Proof.
  induction s as [|c s IH]; intros X H.
  - rewrite prepend_nil. reflexivity.
  - cbn [forallb] in H. apply andb_true_iff in H. destruct H as [Hc Hs].
    cbn [app]. rewrite step_plain by exact Hc. rewrite IH by exact Hs.
    rewrite prepend_cons. reflexivity.
Qed.

Lemma step_bs : forall tq r, lex_go tq Nrm (92 :: r) = lex_go tq Esc r.
Proof. intros tq r. destruct r; reflexivity. Qed.

Lemma step_esc_simple : forall tq c v r, simple_escape c = Some v ->
  lex_go tq Esc (c :: r) = consf v (lex_go tq Nrm r).
Proof. intros tq c v r H. cbn [lex_gen]. rewrite H. reflexivity. Qed.

Lemma step_esc_u : forall tq r, lex_go tq Esc (117 :: r) = lex_go tq (Hex 4 0) r.
Proof. intros tq r. destruct r; reflexivity. Qed.

Lemma step_hex : forall tq k acc c v r, hexval c = Some v ->
  lex_go tq (Hex (S (S k)) acc) (c :: r) = lex_go tq (Hex (S k) (16 * acc + v)) r.
Proof. intros tq k acc c v r H. cbn [lex_gen]. rewrite H. reflexivity. Qed.

Lemma step_hex_last : forall tq acc c v r, hexval c = Some v -> (1114111 <? 16 * acc + v) = false ->
  lex_go tq (Hex 1 acc) (c :: r) = consf (16 * acc + v) (lex_go tq Nrm r).
Proof. intros tq acc c v r H Hle. cbn [lex_gen]. rewrite H. cbv zeta. rewrite Hle. reflexivity. Qed.

Lemma step_close_dq : forall r, lex_go false Nrm (34 :: r) = Some ([], r).
Proof. intros r. reflexivity. Qed.

Lemma step_close_tq : forall q r, q = Nrm \/ q = AfterCR -> lex_go true q (34 :: 34 :: 34 :: r) = Some ([], r).
Proof. intros q r [-> | ->]; reflexivity. Qed.

Lemma afterCR_not10 : forall tq c r, (c =? 10) = false -> lex_go tq AfterCR (c :: r) = lex_go tq Nrm (c :: r).
Proof. intros tq c r H. cbn [lex_gen]. rewrite H. reflexivity. Qed.
Lemma afterCR_10 : forall tq r, lex_go tq AfterCR (10 :: r) = lex_go tq Nrm r.
Proof. intros tq r. destruct r; reflexivity. Qed.

(* ------------------------------------------------------------------ raw value between double quotes *)
Lemma safe_dq_raw_plain : forall t, safe_dq_raw t = true -> forallb (plain false) t = true.
Proof.
  intros t H. unfold safe_dq_raw, no_chars in H. rewrite forallb_forall in *. intros c Hc.
  specialize (H c Hc). unfold plain, line_break in *. cbn [negb andb].
  destruct (c =? 34), (c =? 92), (bad_raw c), (c =? 13), (c =? 10); cbn in *; congruence.
Qed.

Lemma starts3_dq : forall body rest, hd_not_quote rest ->
  match body with c :: _ => c <> 34 | [] => True end -> starts3 (dq body ++ rest) = false.
Proof.
  intros body rest Hr Hb. unfold dq. destruct body as [|c b]; cbn [app starts3].
  - destruct rest as [|d rest]; [reflexivity|]. cbn in Hr. apply N.eqb_neq in Hr. rewrite Hr.
    cbn. destruct rest; reflexivity.
  - apply N.eqb_neq in Hb. destruct (b ++ [34] ++ rest) eqn:E.
    + destruct b; discriminate.
    + cbn [app] in E. rewrite Hb. cbn. destruct b; cbn [app] in *; reflexivity.
Qed.

Lemma lex_str_dq : forall body rest, hd_not_quote rest ->
  match body with c :: _ => c <> 34 | [] => True end ->
  lex_str (dq body ++ rest) = lex_go false Nrm (body ++ 34 :: rest).
Proof.
  intros body rest Hr Hb. unfold lex_str, lex_dq. rewrite starts3_dq by assumption.
  unfold dq. cbn [app]. rewrite N.eqb_refl. rewrite <- app_assoc. reflexivity.
Qed.

Theorem dq_raw_inert : forall t rest, safe_dq_raw t = true -> hd_not_quote rest ->
  lex_str (dq t ++ rest) = Some (t, rest).
Proof.
  intros t rest Hs Hr. rewrite lex_str_dq; [| exact Hr |].
  - rewrite run_plain by (apply safe_dq_raw_plain; exact Hs).
    rewrite step_close_dq. cbn [prepend]. rewrite app_nil_r. reflexivity.
  - destruct t as [|c t]; [exact I|]. unfold safe_dq_raw, no_chars in Hs. cbn [forallb] in Hs.
    apply andb_true_iff in Hs. destruct Hs as [Hc _]. intro E. subst c. discriminate.
Qed.

(* write_block leaves text without break characters alone *)
Lemma reflow_id : forall ind s, forallb (fun c => negb (is_break c)) s = true -> reflow ind s = s.
Proof.
  induction s as [|c s IH]; intro H; [reflexivity|].
  cbn [forallb] in H. apply andb_true_iff in H. destruct H as [Hc Hs].
  cbn [reflow]. destruct (c =? 13) eqn:E13.
  - apply N.eqb_eq in E13. subst c. discriminate.
  - apply negb_true_iff in Hc. rewrite Hc. rewrite IH by exact Hs. reflexivity.
Qed.

Theorem dq_block_inert : forall t rest, safe_dq_block t = true -> hd_not_quote rest ->
  lex_str (reflow ind4 (dq t) ++ rest) = Some (t, rest).
Proof.
  intros t rest Hs Hr. unfold safe_dq_block in Hs. apply andb_true_iff in Hs. destruct Hs as [H1 H2].
  rewrite reflow_id.
  - apply dq_raw_inert; assumption.
  - unfold dq. cbn [forallb]. rewrite forallb_app. unfold no_chars in H2. rewrite H2. reflexivity.
Qed.

(* ------------------------------------------------------------------ json.dumps escaping *)
Lemma hexval_hexdig : forall d, d < 16 -> hexval (hexdig d) = Some d.
Proof.
  intros d H.
  assert (d = 0 \/ d = 1 \/ d = 2 \/ d = 3 \/ d = 4 \/ d = 5 \/ d = 6 \/ d = 7 \/ d = 8 \/ d = 9 \/ d = 10
          \/ d = 11 \/ d = 12 \/ d = 13 \/ d = 14 \/ d = 15) as D by lia.
  repeat (destruct D as [-> | D]; [reflexivity|]). subst d. reflexivity.
Qed.

Lemma hex4_value : forall c, c < 65536 ->
  16 * (16 * (16 * (16 * 0 + c / 4096) + (c / 256) mod 16) + (c / 16) mod 16) + c mod 16 = c.
Proof.
  intros c H.
  assert (E1 : c = 16 * (c / 16) + c mod 16) by (apply N.div_mod; lia).
  assert (E2 : c / 16 = 16 * (c / 16 / 16) + (c / 16) mod 16) by (apply N.div_mod; lia).
  assert (E3 : c / 16 / 16 = 16 * (c / 16 / 16 / 16) + (c / 16 / 16) mod 16) by (apply N.div_mod; lia).
  rewrite N.div_div in E2, E3 by lia. rewrite N.div_div in E3 by lia.
  change (16 * 16) with 256 in *. change (256 * 16) with 4096 in *.
  lia.
Qed.

Lemma lex_u_esc : forall tq c X, c < 65536 ->
  lex_go tq Nrm (u_esc c ++ X) = consf c (lex_go tq Nrm X).
Proof.
  intros tq c X H. unfold u_esc, hex4. cbn [app].
  rewrite step_bs, step_esc_u.
  assert (c / 4096 < 16) by (apply N.div_lt_upper_bound; lia).
  assert ((c / 256) mod 16 < 16) by (apply N.mod_lt; lia).
  assert ((c / 16) mod 16 < 16) by (apply N.mod_lt; lia).
  assert (c mod 16 < 16) by (apply N.mod_lt; lia).
  rewrite (step_hex tq 2 0 _ (c / 4096)) by (apply hexval_hexdig; assumption).
  rewrite (step_hex tq 1 _ _ ((c / 256) mod 16)) by (apply hexval_hexdig; assumption).
  rewrite (step_hex tq 0 _ _ ((c / 16) mod 16)) by (apply hexval_hexdig; assumption).
  rewrite (step_hex_last tq _ _ (c mod 16)).
  - rewrite hex4_value by exact H. reflexivity.
  - apply hexval_hexdig; assumption.
  - rewrite hex4_value by exact H. apply N.ltb_ge. lia.
Qed.

Lemma lex_json_esc1 : forall tq c X, c < 65536 ->
  lex_go tq Nrm (json_esc1 c ++ X) = consf c (lex_go tq Nrm X).
Proof.
  intros tq c X H. unfold json_esc1.
  destruct (c =? 34) eqn:E34. { apply N.eqb_eq in E34; subst c. cbn [app]. rewrite step_bs. apply step_esc_simple. reflexivity. }
  destruct (c =? 92) eqn:E92. { apply N.eqb_eq in E92; subst c. cbn [app]. rewrite step_bs. apply step_esc_simple. reflexivity. }
  destruct (c =? 10) eqn:E10. { apply N.eqb_eq in E10; subst c. cbn [app]. rewrite step_bs. apply step_esc_simple. reflexivity. }
  destruct (c =? 13) eqn:E13. { apply N.eqb_eq in E13; subst c. cbn [app]. rewrite step_bs. apply step_esc_simple. reflexivity. }
  destruct (c =? 9) eqn:E9. { apply N.eqb_eq in E9; subst c. cbn [app]. rewrite step_bs. apply step_esc_simple. reflexivity. }
  destruct (c =? 8) eqn:E8. { apply N.eqb_eq in E8; subst c. cbn [app]. rewrite step_bs. apply step_esc_simple. reflexivity. }
  destruct (c =? 12) eqn:E12. { apply N.eqb_eq in E12; subst c. cbn [app]. rewrite step_bs. apply step_esc_simple. reflexivity. }
  destruct ((32 <=? c) && (c <=? 126)) eqn:Epr.
  - cbn [app]. apply step_plain. unfold plain, bad_raw, is_surrogate.
    rewrite E34, E92, E13, E10. apply andb_true_iff in Epr. destruct Epr as [Ha Hb].
    apply N.leb_le in Ha. apply N.leb_le in Hb.
    replace (c =? 0) with false by (symmetry; apply N.eqb_neq; lia).
    replace (55296 <=? c) with false by (symmetry; apply N.leb_gt; lia).
    replace (1114111 <? c) with false by (symmetry; apply N.ltb_ge; lia).
    destruct tq; reflexivity.
  - apply N.ltb_lt in H. rewrite H. apply lex_u_esc. apply N.ltb_lt. exact H.
Qed.

Lemma lex_json_esc : forall tq t X, safe_default t = true ->
  lex_go tq Nrm (json_esc t ++ X) = prepend t (lex_go tq Nrm X).
Proof.
  induction t as [|c t IH]; intros X H.
  - rewrite prepend_nil. reflexivity.
  - unfold safe_default, no_chars in H. cbn [forallb] in H. apply andb_true_iff in H. destruct H as [Hc Ht].
    unfold json_esc. cbn [flat_map]. rewrite <- app_assoc. rewrite lex_json_esc1.
    + fold (json_esc t). rewrite IH by exact Ht. rewrite prepend_cons. reflexivity.
    + apply negb_true_iff in Hc. apply N.leb_gt in Hc. exact Hc.
Qed.

Lemma json_esc1_head : forall c, match json_esc1 c with d :: _ => d <> 34 | [] => False end.
Proof.
  intro c. unfold json_esc1, u_esc.
  destruct (c =? 34) eqn:E34; [discriminate|].
  destruct (c =? 92); [discriminate|]. destruct (c =? 10); [discriminate|]. destruct (c =? 13); [discriminate|].
  destruct (c =? 9); [discriminate|]. destruct (c =? 8); [discriminate|]. destruct (c =? 12); [discriminate|].
  destruct ((32 <=? c) && (c <=? 126)).
  - apply N.eqb_neq. exact E34.
  - destruct (c <? 65536); cbn [app]; discriminate.
Qed.


(* ------------------------------------------------------------------ docstrings: text without quote/backslash *)
Definition okq (q : lst) : Prop := q = Nrm \/ q = AfterCR.
Definition closes (X rest : str) : Prop := forall q, okq q -> exists v, lex_go true q X = Some (v, rest).
Definition docplain (c : N) : bool := negb ((c =? 34) || (c =? 92) || bad_raw c).

Lemma closes_q3 : forall rest, closes (q3 ++ rest) rest.
Proof. intros rest q Hq. exists []. apply step_close_tq. exact Hq. Qed.

Lemma consf_some : forall c r rest, (exists v, r = Some (v, rest)) -> exists v, consf c r = Some (v, rest).
Proof. intros c r rest [v ->]. exists (c :: v). reflexivity. Qed.

Lemma run_docplain : forall s q X rest, okq q -> forallb docplain s = true -> closes X rest ->
  exists v, lex_go true q (s ++ X) = Some (v, rest).
Proof.
  induction s as [|c s IH]; intros q X rest Hq Hs HX.
  - apply HX. exact Hq.
  - cbn [forallb] in Hs. apply andb_true_iff in Hs. destruct Hs as [Hc Hs]. cbn [app].
    assert (Hn : exists v, lex_go true Nrm (c :: s ++ X) = Some (v, rest)).
    { unfold docplain in Hc. cbn [lex_gen].
      destruct (c =? 34) eqn:E1; [discriminate|]. destruct (c =? 92) eqn:E2; [discriminate|].
      destruct (bad_raw c) eqn:E3; [discriminate|].
      destruct (c =? 10) eqn:E4; [apply consf_some, IH; [left; reflexivity | exact Hs | exact HX]|].
      destruct (c =? 13) eqn:E5; apply consf_some, IH; try exact Hs; try exact HX; [right | left]; reflexivity. }
    destruct Hq as [-> | ->]; [exact Hn|].
    destruct (c =? 10) eqn:E10.
    + apply N.eqb_eq in E10. subst c. rewrite afterCR_10. apply IH; [left; reflexivity | exact Hs | exact HX].
    + rewrite afterCR_not10 by exact E10. exact Hn.
Qed.

Lemma safe_doc_raw_docplain : forall t, safe_doc_raw t = true -> forallb docplain t = true.
Proof. intros t H. exact H. Qed.

Lemma lex_str_q3 : forall s, lex_str (q3 ++ s) = lex_go true Nrm s.
Proof. intro s. reflexivity. Qed.

(* raw text inside a docstring template: pre/post are the fixed template parts *)

Lemma forallb_docplain_app : forall a b, forallb docplain a = true -> forallb docplain b = true -> forallb docplain (a ++ b) = true.
Proof. intros a b Ha Hb. rewrite forallb_app, Ha, Hb. reflexivity. Qed.


(* DocumentationWriter: every character of the layout is white space or a character of t *)
Lemma drop_ws_docplain : forall t, forallb docplain t = true -> forallb docplain (drop_ws t) = true.
Proof.
  induction t as [|c t IH]; intro H; [reflexivity|]. cbn [drop_ws]. destruct (doc_ws c); [|exact H].
  cbn [forallb] in H. apply andb_true_iff in H. apply IH. apply H.
Qed.

Lemma out_ws_docplain : forall c, out_ws c = true -> docplain c = true.
Proof.
  intros c H. unfold out_ws in H. apply orb_true_iff in H. destruct H as [H|H]; [apply orb_true_iff in H; destruct H as [H|H]|];
    apply N.eqb_eq in H; subst c; reflexivity.
Qed.

Lemma layout_docplain : forall o t, forallb docplain t = true -> layoutb t o = true -> forallb docplain o = true.
Proof.
  induction o as [|c o IH]; intros t Ht HL; [reflexivity|]. cbn [layoutb] in HL. cbn [forallb].
  destruct (out_ws c) eqn:Ew.
  - rewrite (out_ws_docplain c Ew). apply (IH (drop_ws t)); [apply drop_ws_docplain; exact Ht | exact HL].
  - pose proof (drop_ws_docplain t Ht) as Hd.
    destruct (drop_ws t) as [|c' t']; [discriminate|]. apply andb_true_iff in HL. destruct HL as [Hc HL].
    apply N.eqb_eq in Hc. subst c'. cbn [forallb] in Hd. apply andb_true_iff in Hd. destruct Hd as [Hc Hd].
    rewrite Hc. apply (IH t'); assumption.
Qed.



(* ------------------------------------------------------------------ comment *)

(* ------------------------------------------------------------------ docstring templates with isolated quotes *)
Lemma step_docplain : forall c q r rest, docplain c = true -> okq q ->
  (forall q', okq q' -> exists v, lex_go true q' r = Some (v, rest)) ->
  exists v, lex_go true q (c :: r) = Some (v, rest).
Proof.
  intros c q r rest Hc Hq Hr.
  assert (Hn : exists v, lex_go true Nrm (c :: r) = Some (v, rest)).
  { unfold docplain in Hc. cbn [lex_gen].
    destruct (c =? 34) eqn:E1; [discriminate|]. destruct (c =? 92) eqn:E2; [discriminate|].
    destruct (bad_raw c) eqn:E3; [discriminate|].
    destruct (c =? 10) eqn:E4; [apply consf_some, Hr; left; reflexivity|].
    destruct (c =? 13) eqn:E5; apply consf_some, Hr; [right | left]; reflexivity. }
  destruct Hq as [-> | ->]; [exact Hn|].
  destruct (c =? 10) eqn:E10.
  - apply N.eqb_eq in E10. subst c. rewrite afterCR_10. apply Hr. left; reflexivity.
  - rewrite afterCR_not10 by exact E10. exact Hn.
Qed.

(* a quote not followed by two more quotes is ordinary text in a triple-quoted literal *)
Lemma step_lone_quote : forall q r, okq q ->
  match r with a :: b :: _ => (a =? 34) && (b =? 34) = false | _ => True end ->
  lex_go true q (34 :: r) = consf 34 (lex_go true Nrm r).
Proof.
  intros q r Hq H.
  assert (Hn : lex_go true Nrm (34 :: r) = consf 34 (lex_go true Nrm r)).
  { cbn [lex_gen]. change (34 =? 34) with true. cbv iota.
    destruct r as [|a [|b r']]; try reflexivity. rewrite H. reflexivity. }
  destruct Hq as [-> | ->]; [exact Hn|]. rewrite afterCR_not10 by reflexivity. exact Hn.
Qed.

Lemma run_isoq : forall s q X rest, okq q -> isoq s = true -> closes X rest ->
  exists v, lex_go true q (s ++ X) = Some (v, rest).
Proof.
  induction s as [|c s IH]; intros q X rest Hq Hs HX.
  - apply HX. exact Hq.
  - cbn [isoq] in Hs. apply andb_true_iff in Hs. destruct Hs as [Hc Hs]. cbn [app].
    destruct (c =? 34) eqn:E34.
    + apply N.eqb_eq in E34. subst c. destruct s as [|d s']; [discriminate|].
      rewrite step_lone_quote; [| exact Hq |].
      * apply consf_some. apply IH; [left; reflexivity | exact Hs | exact HX].
      * cbn [app]. apply negb_true_iff in Hc. destruct (s' ++ X); [exact I|]. rewrite Hc. reflexivity.
    + apply step_docplain; [| exact Hq |].
      * unfold docplain. rewrite E34. exact Hc.
      * intros q' Hq'. apply IH; assumption.
Qed.


(* ------------------------------------------------------------------ the alias docstring: \ doubled, then QQQ escaped *)
Fixpoint paired (u : str) : bool :=
  match u with
  | [] => true
  | c :: r => if c =? 92 then match r with d :: r' => (d =? 92) && paired r' | [] => false end else paired r
  end.

Lemma paired_dbl_bs : forall t, paired (dbl_bs t) = true.
Proof.
  induction t as [|c t IH]; [reflexivity|]. unfold dbl_bs. cbn [flat_map]. fold (dbl_bs t).
  destruct (c =? 92) eqn:E.
  - cbn [app paired]. change (92 =? 92) with true. cbn. exact IH.
  - cbn [app paired]. rewrite E. exact IH.
Qed.

Lemma nobad_dbl_bs : forall t, no_chars bad_raw t = true -> no_chars bad_raw (dbl_bs t) = true.
Proof.
  induction t as [|c t IH]; intro H; [reflexivity|]. unfold no_chars in *. cbn [forallb] in H.
  apply andb_true_iff in H. destruct H as [Hc Ht]. unfold dbl_bs. cbn [flat_map]. fold (dbl_bs t).
  rewrite forallb_app. rewrite (IH Ht). rewrite andb_true_r.
  destruct (c =? 92) eqn:E; cbn [forallb].
  - apply N.eqb_eq in E. subst c. reflexivity.
  - rewrite Hc. reflexivity.
Qed.

Lemma last_nq_dbl_bs : forall t, last_nq t = true -> last_nq (dbl_bs t) = true.
Proof.
  induction t as [|c t IH]; intro H; [reflexivity|]. unfold dbl_bs. cbn [flat_map]. fold (dbl_bs t).
  cbn [last_nq] in H. destruct t as [|d t'].
  - cbn [dbl_bs flat_map app]. destruct (c =? 92) eqn:E; cbn [app last_nq]; [reflexivity | exact H].
  - specialize (IH H).
    assert (Hne : dbl_bs (d :: t') <> []).
    { unfold dbl_bs. cbn [flat_map]. destruct (d =? 92); discriminate. }
    destruct (dbl_bs (d :: t')) as [|e l] eqn:El; [congruence|].
    destruct (c =? 92); cbn [app last_nq]; exact IH.
Qed.

Lemma repl3_eq : forall x c1 r1, repl3 x (c1 :: r1) =
  match r1 with
  | c2 :: c3 :: r3 => if (c1 =? 34) && (c2 =? 34) && (c3 =? 34) then x ++ repl3 x r3 else c1 :: repl3 x r1
  | _ => c1 :: repl3 x r1
  end.
Proof. intros x c1 r1. destruct r1 as [|c2 [|c3 r3]]; reflexivity. Qed.

Lemma repl3_q_nq : forall x c2 r2, (c2 =? 34) = false -> repl3 x (34 :: c2 :: r2) = 34 :: repl3 x (c2 :: r2).
Proof.
  intros x c2 r2 H. rewrite repl3_eq. destruct r2 as [|c3 r3]; [reflexivity|].
  cbv beta iota. rewrite H. rewrite andb_false_r. reflexivity.
Qed.

Lemma repl3_qq_nq : forall x c3 r3, (c3 =? 34) = false ->
  repl3 x (34 :: 34 :: c3 :: r3) = 34 :: 34 :: repl3 x (c3 :: r3).
Proof.
  intros x c3 r3 H. rewrite repl3_eq. cbv beta iota. rewrite H. rewrite andb_false_r.
  f_equal. apply repl3_q_nq. exact H.
Qed.

Lemma repl3_nonquote : forall x c r, (c =? 34) = false -> repl3 x (c :: r) = c :: repl3 x r.
Proof. intros x c r H. rewrite repl3_eq. destruct r as [|c2 [|c3 r3]]; try reflexivity. cbv beta iota. rewrite H. reflexivity. Qed.

Lemma alias_run : forall n u q X rest, (length u <= n)%nat -> okq q ->
  paired u = true -> no_chars bad_raw u = true -> last_nq u = true -> closes X rest ->
  exists v, lex_go true q (repl3 esc_q3 u ++ X) = Some (v, rest).
Proof.
  induction n as [|n IH]; intros u q X rest Hlen Hq Hp Hb Hl HX.
  - destruct u; [|cbn in Hlen; lia]. apply HX. exact Hq.
  - destruct u as [|c1 r1]; [apply HX; exact Hq|].
    unfold no_chars in Hb. cbn [forallb] in Hb. apply andb_true_iff in Hb. destruct Hb as [Hb1 Hb].
    cbn [length] in Hlen.
    destruct (c1 =? 34) eqn:E1.
    + (* a quote *)
      apply N.eqb_eq in E1. subst c1.
      destruct r1 as [|c2 r2]; [discriminate|].
      cbn [paired] in Hp. change (34 =? 92) with false in Hp. cbv iota in Hp.
      destruct (c2 =? 34) eqn:E2.
      * apply N.eqb_eq in E2. subst c2.
        destruct r2 as [|c3 r3]; [discriminate|].
        cbn [paired] in Hp. change (34 =? 92) with false in Hp. cbv iota in Hp.
        cbn [forallb] in Hb. apply andb_true_iff in Hb. destruct Hb as [_ Hb].
        cbn [forallb] in Hb. apply andb_true_iff in Hb. destruct Hb as [Hb3 Hb].
        destruct (c3 =? 34) eqn:E3.
        -- (* QQQ -> three escaped quotes *)
           apply N.eqb_eq in E3. subst c3.
           cbn [paired] in Hp. change (34 =? 92) with false in Hp. cbv iota in Hp.
           assert (R : repl3 esc_q3 (34 :: 34 :: 34 :: r3) = esc_q3 ++ repl3 esc_q3 r3) by reflexivity.
           rewrite R. unfold esc_q3. cbn [app].
           assert (Hgo : forall q0, okq q0 -> forall Y, lex_go true q0 (92 :: 34 :: Y) = consf 34 (lex_go true Nrm Y)).
           { intros q0 [-> | ->] Y; [|rewrite afterCR_not10 by reflexivity]; rewrite step_bs; apply step_esc_simple; reflexivity. }
           rewrite (Hgo q Hq). rewrite (Hgo Nrm (or_introl eq_refl)). rewrite (Hgo Nrm (or_introl eq_refl)).
           do 3 apply consf_some.
           apply IH; try assumption; [cbn in Hlen; lia | left; reflexivity |].
           destruct r3; [discriminate | exact Hl].
        -- (* two quotes then something else *)
           rewrite (repl3_qq_nq _ c3 r3 E3). rewrite (repl3_nonquote _ c3 r3 E3). cbn [app].
           rewrite step_lone_quote; [| exact Hq | rewrite E3; rewrite andb_false_r; reflexivity].
           rewrite step_lone_quote; [| left; reflexivity |].
           ++ do 2 apply consf_some.
              change (c3 :: repl3 esc_q3 r3 ++ X) with ((c3 :: repl3 esc_q3 r3) ++ X).
              rewrite <- (repl3_nonquote _ c3 r3 E3).
              apply IH; [cbn in Hlen; cbn; lia | left; reflexivity | exact Hp | | exact Hl | exact HX].
              unfold no_chars. cbn [forallb]. rewrite Hb3. exact Hb.
           ++ destruct (repl3 esc_q3 r3 ++ X); [exact I|]. rewrite E3. reflexivity.
      * (* one quote then a non-quote *)
        rewrite (repl3_q_nq _ c2 r2 E2). rewrite (repl3_nonquote _ c2 r2 E2). cbn [app].
        rewrite step_lone_quote; [| exact Hq |].
        -- apply consf_some.
           change (c2 :: repl3 esc_q3 r2 ++ X) with ((c2 :: repl3 esc_q3 r2) ++ X).
           rewrite <- (repl3_nonquote _ c2 r2 E2).
           apply IH; [lia | left; reflexivity | exact Hp | exact Hb | exact Hl | exact HX].
        -- destruct (repl3 esc_q3 r2 ++ X); [exact I|]. rewrite E2. reflexivity.
    + rewrite (repl3_nonquote _ c1 r1 E1). cbn [app].
      destruct (c1 =? 92) eqn:E92.
      * (* a doubled backslash *)
        apply N.eqb_eq in E92. subst c1. cbn [paired] in Hp. change (92 =? 92) with true in Hp. cbv iota in Hp.
        destruct r1 as [|d r1']; [discriminate|]. apply andb_true_iff in Hp. destruct Hp as [Ed Hp].
        apply N.eqb_eq in Ed. subst d.
        rewrite (repl3_nonquote _ 92 r1' eq_refl). cbn [app].
        cbn [forallb] in Hb. apply andb_true_iff in Hb. destruct Hb as [_ Hb].
        assert (Hgo : lex_go true q (92 :: 92 :: repl3 esc_q3 r1' ++ X) = consf 92 (lex_go true Nrm (repl3 esc_q3 r1' ++ X))).
        { destruct Hq as [-> | ->]; [|rewrite afterCR_not10 by reflexivity]; rewrite step_bs; apply step_esc_simple; reflexivity. }
        rewrite Hgo. apply consf_some.
        apply IH; try assumption; [cbn in Hlen; lia | left; reflexivity |].
        destruct r1'; [reflexivity | exact Hl].
      * apply step_docplain; [| exact Hq |].
        -- unfold docplain. rewrite E1, E92. cbn. exact Hb1.
        -- intros q' Hq'. apply IH; try assumption; [lia | |].
           ++ cbn [paired] in Hp. rewrite E92 in Hp. exact Hp.
           ++ destruct r1; [reflexivity | exact Hl].
Qed.


(* ------------------------------------------------------------------ instances of the block-docstring theorem *)

Lemma isoq_app : forall a b, safe_doc_raw a = true -> isoq b = true -> isoq (a ++ b) = true.
Proof.
  induction a as [|c a IH]; intros b Ha Hb; [exact Hb|].
  unfold safe_doc_raw, no_chars in Ha. cbn [forallb] in Ha. apply andb_true_iff in Ha. destruct Ha as [Hc Ha].
  cbn [app isoq]. rewrite (IH b Ha Hb), andb_true_r.
  cbv beta in Hc. destruct (c =? 34) eqn:E; [discriminate|].
  destruct (c =? 92); [discriminate|]. exact Hc.
Qed.


(* ------------------------------------------------------------------ refutation witnesses (vm_compute) *)
Definition w_quote : str := [97; 34; 98].          (* a, quote, b *)
Definition w_escn : str := [99; 92; 110].          (* c, backslash, n *)
Definition w_endq : str := [120; 34].              (* x, quote *)
Definition w_cr : str := [97; 13; 98].             (* a, CR, b *)
Definition w_ff : str := [97; 12; 98].             (* a, FF, b *)
Definition w_astral : str := [128512].             (* U+1F600 *)
Definition w_bsx : str := [92; 120].               (* backslash, x *)

Lemma dq_raw_refuted : safe_dq_raw w_quote = false /\ lex_str (dq w_quote ++ []) <> Some (w_quote, []).
Proof. split; [reflexivity | vm_compute; discriminate]. Qed.
Lemma dq_raw_refuted_value : safe_dq_raw w_escn = false /\ lex_str (dq w_escn ++ []) = Some ([99; 10], []).
Proof. split; reflexivity. Qed.
Lemma dq_block_refuted : safe_dq_block w_quote = false /\ lex_str (reflow ind4 (dq w_quote) ++ []) <> Some (w_quote, []).
Proof. split; [reflexivity | vm_compute; discriminate]. Qed.
Lemma dq_block_refuted_ff : safe_dq_block w_ff = false /\ safe_dq_raw w_ff = true /\ lex_str (reflow ind4 (dq w_ff) ++ []) = None.
Proof. repeat split. Qed.

(* ------------------------------------------------------------------ the guards are not vacuous *)
Definition ex_text : str := [104; 233; 108; 108; 111; 32; 119; 8211; 28450; 47; 49; 39; 123; 125; 37; 115].  (* non-ASCII, braces, percent *)
Example guards_nonvacuous :
  scalar (ex_text ++ [34; 92; 10; 13; 0; 127; 133; 8232; 128512]) = true /\
  in_range (ex_text ++ [34; 39; 92; 10; 0; 55296; 128512]) = true.
Proof. repeat split. Qed.
(* the escaping sites really escape: what the lexer reads back *)

(* ------------------------------------------------------------------ the inventory (regenerated from source) *)
From PG Require Import Gen.T_C15.
Definition inv_ok (s : N * list N) : bool := (fst s =? 0) || existsb (N.eqb (fst s)) modelled_sites.
Lemma inventory_modelled : forall s, In s site_inventory -> fst s = 0 \/ In (fst s) modelled_sites.
Proof.
  assert (H : forallb inv_ok site_inventory = true) by (vm_compute; reflexivity).
  intros s Hs. rewrite forallb_forall in H. specialize (H s Hs). unfold inv_ok in H.
  apply orb_true_iff in H. destruct H as [H|H]; [left; apply N.eqb_eq; exact H|].
  right. apply existsb_exists in H. destruct H as [x [Hx E]]. apply N.eqb_eq in E. subst x. exact Hx.
Qed.

(* ================================================================== escapers used by the repaired sites *)
(* ---------- json.dumps(s, ensure_ascii=False) *)
Lemma scalar_cons : forall c t, scalar (c :: t) = true -> is_surrogate c = false /\ c <= 1114111 /\ scalar t = true.
Proof.
  intros c t H. unfold scalar in H. cbn [forallb] in H. apply andb_true_iff in H. destruct H as [Hc Ht].
  apply andb_true_iff in Hc. destruct Hc as [Hs Hm]. apply negb_true_iff in Hs. apply N.leb_le in Hm. auto.
Qed.

Lemma lex_json_raw1 : forall tq c X, is_surrogate c = false -> c <= 1114111 ->
  lex_go tq Nrm (json_raw1 c ++ X) = consf c (lex_go tq Nrm X).
Proof.
  intros tq c X Hs Hm. unfold json_raw1.
  destruct (c =? 34) eqn:E34. { apply N.eqb_eq in E34; subst c. cbn [app]. rewrite step_bs. apply step_esc_simple. reflexivity. }
  destruct (c =? 92) eqn:E92. { apply N.eqb_eq in E92; subst c. cbn [app]. rewrite step_bs. apply step_esc_simple. reflexivity. }
  destruct (c =? 10) eqn:E10. { apply N.eqb_eq in E10; subst c. cbn [app]. rewrite step_bs. apply step_esc_simple. reflexivity. }
  destruct (c =? 13) eqn:E13. { apply N.eqb_eq in E13; subst c. cbn [app]. rewrite step_bs. apply step_esc_simple. reflexivity. }
  destruct (c =? 9) eqn:E9. { apply N.eqb_eq in E9; subst c. cbn [app]. rewrite step_bs. apply step_esc_simple. reflexivity. }
  destruct (c =? 8) eqn:E8. { apply N.eqb_eq in E8; subst c. cbn [app]. rewrite step_bs. apply step_esc_simple. reflexivity. }
  destruct (c =? 12) eqn:E12. { apply N.eqb_eq in E12; subst c. cbn [app]. rewrite step_bs. apply step_esc_simple. reflexivity. }
  destruct (c <? 32) eqn:E32.
  - apply lex_u_esc. apply N.ltb_lt in E32. lia.
  - cbn [app]. apply step_plain. unfold plain, bad_raw. rewrite E34, E92, E13, E10, Hs.
    apply N.ltb_ge in E32.
    replace (c =? 0) with false by (symmetry; apply N.eqb_neq; lia).
    replace (1114111 <? c) with false by (symmetry; apply N.ltb_ge; lia).
    destruct tq; reflexivity.
Qed.

Lemma lex_json_raw : forall tq t X, scalar t = true ->
  lex_go tq Nrm (json_raw t ++ X) = prepend t (lex_go tq Nrm X).
Proof.
  induction t as [|c t IH]; intros X H.
  - rewrite prepend_nil. reflexivity.
  - apply scalar_cons in H. destruct H as [Hs [Hm Ht]].
    unfold json_raw. cbn [flat_map]. rewrite <- app_assoc. rewrite lex_json_raw1 by assumption.
    fold (json_raw t). rewrite IH by exact Ht. rewrite prepend_cons. reflexivity.
Qed.

Lemma json_raw1_head : forall c, match json_raw1 c with d :: _ => d <> 34 | [] => False end.
Proof.
  intro c. unfold json_raw1, u_esc.
  destruct (c =? 34) eqn:E34; [discriminate|].
  destruct (c =? 92); [discriminate|]. destruct (c =? 10); [discriminate|]. destruct (c =? 13); [discriminate|].
  destruct (c =? 9); [discriminate|]. destruct (c =? 8); [discriminate|]. destruct (c =? 12); [discriminate|].
  destruct (c <? 32); [discriminate|]. apply N.eqb_neq. exact E34.
Qed.

Theorem json_raw_inert : forall t rest, scalar t = true -> hd_not_quote rest ->
  lex_str (dq (json_raw t) ++ rest) = Some (t, rest).
Proof.
  intros t rest Hs Hr. rewrite lex_str_dq; [| exact Hr |].
  - rewrite lex_json_raw by exact Hs. rewrite step_close_dq. cbn [prepend]. rewrite app_nil_r. reflexivity.
  - destruct t as [|c t]; [exact I|]. unfold json_raw. cbn [flat_map].
    pose proof (json_raw1_head c) as Hh. destruct (json_raw1 c) as [|d l]; [contradiction|]. exact Hh.
Qed.

Lemma lex_dq_dq : forall body rest, hd_not_quote rest ->
  match body with c :: _ => c <> 34 | [] => True end ->
  lex_dq (dq body ++ rest) = lex_go false Nrm (body ++ 34 :: rest).
Proof.
  intros body rest Hr Hb. unfold lex_dq. rewrite starts3_dq by assumption.
  unfold dq. cbn [app]. rewrite N.eqb_refl. rewrite <- app_assoc. reflexivity.
Qed.

(* ---------- repr(str) *)
Lemma hex4_acc : forall acc a, a < 65536 ->
  16 * (16 * (16 * (16 * acc + a / 4096) + (a / 256) mod 16) + (a / 16) mod 16) + a mod 16 = 65536 * acc + a.
Proof. intros acc a H. pose proof (hex4_value a H). lia. Qed.

Lemma hex4_bounds : forall a, a < 65536 ->
  a / 4096 < 16 /\ (a / 256) mod 16 < 16 /\ (a / 16) mod 16 < 16 /\ a mod 16 < 16.
Proof.
  intros a H. repeat split; try (apply N.mod_lt; lia). apply N.div_lt_upper_bound; lia.
Qed.

Lemma lex_hex4_mid : forall tq k acc a X, a < 65536 ->
  lex_go tq (Hex (S (S (S (S (S k))))) acc) (hex4 a ++ X) = lex_go tq (Hex (S k) (65536 * acc + a)) X.
Proof.
  intros tq k acc a X H. destruct (hex4_bounds a H) as [B3 [B2 [B1 B0]]]. unfold hex4. cbn [app].
  rewrite (step_hex tq _ acc _ (a / 4096)) by (apply hexval_hexdig; assumption).
  rewrite (step_hex tq _ _ _ ((a / 256) mod 16)) by (apply hexval_hexdig; assumption).
  rewrite (step_hex tq _ _ _ ((a / 16) mod 16)) by (apply hexval_hexdig; assumption).
  rewrite (step_hex tq _ _ _ (a mod 16)) by (apply hexval_hexdig; assumption).
  rewrite hex4_acc by exact H. reflexivity.
Qed.

Lemma lex_hex4_last : forall tq acc a X, a < 65536 -> 65536 * acc + a <= 1114111 ->
  lex_go tq (Hex 4 acc) (hex4 a ++ X) = consf (65536 * acc + a) (lex_go tq Nrm X).
Proof.
  intros tq acc a X H Hm. destruct (hex4_bounds a H) as [B3 [B2 [B1 B0]]]. unfold hex4. cbn [app].
  rewrite (step_hex tq _ acc _ (a / 4096)) by (apply hexval_hexdig; assumption).
  rewrite (step_hex tq _ _ _ ((a / 256) mod 16)) by (apply hexval_hexdig; assumption).
  rewrite (step_hex tq _ _ _ ((a / 16) mod 16)) by (apply hexval_hexdig; assumption).
  rewrite (step_hex_last tq _ _ (a mod 16)).
  - rewrite hex4_acc by exact H. reflexivity.
  - apply hexval_hexdig; assumption.
  - rewrite hex4_acc by exact H. apply N.ltb_ge. exact Hm.
Qed.

Lemma step_esc_U : forall tq r, lex_go tq Esc (85 :: r) = lex_go tq (Hex 8 0) r.
Proof. intros tq r. destruct r; reflexivity. Qed.
Lemma step_esc_x : forall tq r, lex_go tq Esc (120 :: r) = lex_go tq (Hex 2 0) r.
Proof. intros tq r. destruct r; reflexivity. Qed.

Lemma lex_U_esc : forall tq c X, c <= 1114111 -> lex_go tq Nrm (U_esc c ++ X) = consf c (lex_go tq Nrm X).
Proof.
  intros tq c X H. unfold U_esc. cbn [app]. rewrite step_bs, step_esc_U. rewrite <- app_assoc.
  assert (c / 65536 < 65536) by (apply N.div_lt_upper_bound; lia).
  assert (c mod 65536 < 65536) by (apply N.mod_lt; lia).
  assert (E : 65536 * (65536 * 0 + c / 65536) + c mod 65536 = c).
  { pose proof (N.div_mod c 65536). lia. }
  rewrite (lex_hex4_mid tq 3 0 (c / 65536)) by assumption.
  rewrite lex_hex4_last; [rewrite E; reflexivity | assumption | lia].
Qed.

Lemma lex_x_esc : forall tq c X, c < 256 -> lex_go tq Nrm (x_esc c ++ X) = consf c (lex_go tq Nrm X).
Proof.
  intros tq c X H. unfold x_esc, hex2. cbn [app]. rewrite step_bs, step_esc_x.
  assert (c / 16 < 16) by (apply N.div_lt_upper_bound; lia).
  assert (c mod 16 < 16) by (apply N.mod_lt; lia).
  assert (E : 16 * (16 * 0 + c / 16) + c mod 16 = c) by (pose proof (N.div_mod c 16); lia).
  rewrite (step_hex tq 0 0 _ (c / 16)) by (apply hexval_hexdig; assumption).
  rewrite (step_hex_last tq _ _ (c mod 16)).
  - rewrite E. reflexivity.
  - apply hexval_hexdig; assumption.
  - rewrite E. apply N.ltb_ge. lia.
Qed.

(* ---------- the same steps for a literal delimited by either quote character *)
Definition qok (qc : N) : Prop := qc = 34 \/ qc = 39.
Lemma g_step_bs : forall qc tq r, qok qc -> lex_gen qc tq Nrm (92 :: r) = lex_gen qc tq Esc r.
Proof. intros qc tq r [-> | ->]; destruct r; reflexivity. Qed.
Lemma g_step_esc_simple : forall qc tq c v r, simple_escape c = Some v ->
  lex_gen qc tq Esc (c :: r) = consf v (lex_gen qc tq Nrm r).
Proof. intros qc tq c v r H. cbn [lex_gen]. rewrite H. reflexivity. Qed.
Lemma g_step_esc_u : forall qc tq r, lex_gen qc tq Esc (117 :: r) = lex_gen qc tq (Hex 4 0) r.
Proof. intros qc tq r. destruct r; reflexivity. Qed.
Lemma g_step_esc_U : forall qc tq r, lex_gen qc tq Esc (85 :: r) = lex_gen qc tq (Hex 8 0) r.
Proof. intros qc tq r. destruct r; reflexivity. Qed.
Lemma g_step_esc_x : forall qc tq r, lex_gen qc tq Esc (120 :: r) = lex_gen qc tq (Hex 2 0) r.
Proof. intros qc tq r. destruct r; reflexivity. Qed.
Lemma g_step_hex : forall qc tq k acc c v r, hexval c = Some v ->
  lex_gen qc tq (Hex (S (S k)) acc) (c :: r) = lex_gen qc tq (Hex (S k) (16 * acc + v)) r.
Proof. intros qc tq k acc c v r H. cbn [lex_gen]. rewrite H. reflexivity. Qed.
Lemma g_step_hex_last : forall qc tq acc c v r, hexval c = Some v -> (1114111 <? 16 * acc + v) = false ->
  lex_gen qc tq (Hex 1 acc) (c :: r) = consf (16 * acc + v) (lex_gen qc tq Nrm r).
Proof. intros qc tq acc c v r H Hle. cbn [lex_gen]. rewrite H. cbv zeta. rewrite Hle. reflexivity. Qed.

Lemma g_lex_hex4_mid : forall qc tq k acc a X, a < 65536 ->
  lex_gen qc tq (Hex (S (S (S (S (S k))))) acc) (hex4 a ++ X) = lex_gen qc tq (Hex (S k) (65536 * acc + a)) X.
Proof.
  intros qc tq k acc a X H. destruct (hex4_bounds a H) as [B3 [B2 [B1 B0]]]. unfold hex4. cbn [app].
  rewrite (g_step_hex qc tq _ acc _ (a / 4096)) by (apply hexval_hexdig; assumption).
  rewrite (g_step_hex qc tq _ _ _ ((a / 256) mod 16)) by (apply hexval_hexdig; assumption).
  rewrite (g_step_hex qc tq _ _ _ ((a / 16) mod 16)) by (apply hexval_hexdig; assumption).
  rewrite (g_step_hex qc tq _ _ _ (a mod 16)) by (apply hexval_hexdig; assumption).
  rewrite hex4_acc by exact H. reflexivity.
Qed.
Lemma g_lex_hex4_last : forall qc tq acc a X, a < 65536 -> 65536 * acc + a <= 1114111 ->
  lex_gen qc tq (Hex 4 acc) (hex4 a ++ X) = consf (65536 * acc + a) (lex_gen qc tq Nrm X).
Proof.
  intros qc tq acc a X H Hm. destruct (hex4_bounds a H) as [B3 [B2 [B1 B0]]]. unfold hex4. cbn [app].
  rewrite (g_step_hex qc tq _ acc _ (a / 4096)) by (apply hexval_hexdig; assumption).
  rewrite (g_step_hex qc tq _ _ _ ((a / 256) mod 16)) by (apply hexval_hexdig; assumption).
  rewrite (g_step_hex qc tq _ _ _ ((a / 16) mod 16)) by (apply hexval_hexdig; assumption).
  rewrite (g_step_hex_last qc tq _ _ (a mod 16)).
  - rewrite hex4_acc by exact H. reflexivity.
  - apply hexval_hexdig; assumption.
  - rewrite hex4_acc by exact H. apply N.ltb_ge. exact Hm.
Qed.
Lemma g_lex_u_esc : forall qc tq c X, qok qc -> c < 65536 ->
  lex_gen qc tq Nrm (u_esc c ++ X) = consf c (lex_gen qc tq Nrm X).
Proof.
  intros qc tq c X Hq H. unfold u_esc. cbn [app]. rewrite (g_step_bs qc tq _ Hq), g_step_esc_u.
  rewrite g_lex_hex4_last; [replace (65536 * 0 + c) with c by lia; reflexivity | exact H | lia].
Qed.
Lemma g_lex_U_esc : forall qc tq c X, qok qc -> c <= 1114111 ->
  lex_gen qc tq Nrm (U_esc c ++ X) = consf c (lex_gen qc tq Nrm X).
Proof.
  intros qc tq c X Hq H. unfold U_esc. cbn [app]. rewrite (g_step_bs qc tq _ Hq), g_step_esc_U. rewrite <- app_assoc.
  assert (c / 65536 < 65536) by (apply N.div_lt_upper_bound; lia).
  assert (c mod 65536 < 65536) by (apply N.mod_lt; lia).
  assert (E : 65536 * (65536 * 0 + c / 65536) + c mod 65536 = c) by (pose proof (N.div_mod c 65536); lia).
  rewrite (g_lex_hex4_mid qc tq 3 0 (c / 65536)) by assumption.
  rewrite g_lex_hex4_last; [rewrite E; reflexivity | assumption | lia].
Qed.
Lemma g_lex_x_esc : forall qc tq c X, qok qc -> c < 256 ->
  lex_gen qc tq Nrm (x_esc c ++ X) = consf c (lex_gen qc tq Nrm X).
Proof.
  intros qc tq c X Hq H. unfold x_esc, hex2. cbn [app]. rewrite (g_step_bs qc tq _ Hq), g_step_esc_x.
  assert (c / 16 < 16) by (apply N.div_lt_upper_bound; lia).
  assert (c mod 16 < 16) by (apply N.mod_lt; lia).
  assert (E : 16 * (16 * 0 + c / 16) + c mod 16 = c) by (pose proof (N.div_mod c 16); lia).
  rewrite (g_step_hex qc tq 0 0 _ (c / 16)) by (apply hexval_hexdig; assumption).
  rewrite (g_step_hex_last qc tq _ _ (c mod 16)).
  - rewrite E. reflexivity.
  - apply hexval_hexdig; assumption.
  - rewrite E. apply N.ltb_ge. lia.
Qed.
(* an ordinary character of a one-line literal delimited by qc *)
Lemma g_step_plain : forall qc c r, (c =? qc) = false -> (c =? 92) = false -> bad_raw c = false ->
  (c =? 10) = false -> (c =? 13) = false ->
  lex_gen qc false Nrm (c :: r) = consf c (lex_gen qc false Nrm r).
Proof. intros qc c r H1 H2 H3 H4 H5. cbn [lex_gen]. rewrite H1, H2, H3, H4, H5. reflexivity. Qed.

(* one character of repr, read back inside a literal delimited by the same quote character *)
Lemma lex_repr_esc1 : forall pr qc c X, pr_ok pr -> c <= 1114111 -> qok qc ->
  lex_gen qc false Nrm (repr_esc1 pr qc c ++ X) = consf c (lex_gen qc false Nrm X).
Proof.
  intros pr qc c X Hpr Hm Hq. unfold repr_esc1.
  destruct (c =? 92) eqn:E92.
  { apply N.eqb_eq in E92; subst c. cbn [app]. rewrite (g_step_bs qc false _ Hq). apply g_step_esc_simple. reflexivity. }
  destruct (c =? qc) eqn:Eq.
  { apply N.eqb_eq in Eq; subst c. cbn [app]. rewrite (g_step_bs qc false _ Hq). apply g_step_esc_simple.
    destruct Hq as [-> | ->]; reflexivity. }
  destruct (c =? 9) eqn:E9.
  { apply N.eqb_eq in E9; subst c. cbn [app]. rewrite (g_step_bs qc false _ Hq). apply g_step_esc_simple. reflexivity. }
  destruct (c =? 10) eqn:E10.
  { apply N.eqb_eq in E10; subst c. cbn [app]. rewrite (g_step_bs qc false _ Hq). apply g_step_esc_simple. reflexivity. }
  destruct (c =? 13) eqn:E13.
  { apply N.eqb_eq in E13; subst c. cbn [app]. rewrite (g_step_bs qc false _ Hq). apply g_step_esc_simple. reflexivity. }
  destruct ((c <? 32) || (c =? 127)) eqn:Ectl.
  { apply g_lex_x_esc; [exact Hq|]. apply orb_true_iff in Ectl.
    destruct Ectl as [A|A]; [apply N.ltb_lt in A | apply N.eqb_eq in A]; lia. }
  apply orb_false_iff in Ectl. destruct Ectl as [E32 E127]. apply N.ltb_ge in E32.
  destruct (c <? 127) eqn:Easc.
  { apply N.ltb_lt in Easc. cbn [app]. apply g_step_plain; try assumption.
    unfold bad_raw, is_surrogate.
    replace (c =? 0) with false by (symmetry; apply N.eqb_neq; lia).
    replace (55296 <=? c) with false by (symmetry; apply N.leb_gt; lia).
    replace (1114111 <? c) with false by (symmetry; apply N.ltb_ge; lia). reflexivity. }
  apply N.ltb_ge in Easc.
  destruct (pr c) eqn:Epr.
  { destruct (Hpr c Epr) as [H128 [Hbad Hbrk]]. cbn [app]. apply g_step_plain; try assumption. }
  destruct (c <? 256) eqn:E256; [apply g_lex_x_esc; [exact Hq | apply N.ltb_lt; exact E256]|].
  destruct (c <? 65536) eqn:E64k; [apply g_lex_u_esc; [exact Hq | apply N.ltb_lt; exact E64k]|].
  apply g_lex_U_esc; assumption.
Qed.

Lemma lex_repr_body : forall pr qc t X, pr_ok pr -> in_range t = true -> qok qc ->
  lex_gen qc false Nrm (flat_map (repr_esc1 pr qc) t ++ X) = prepend t (lex_gen qc false Nrm X).
Proof.
  intros pr qc t X Hpr Hr Hq. revert X. induction t as [|c t IH]; intro X.
  - cbn. rewrite prepend_nil. reflexivity.
  - unfold in_range in Hr. cbn [forallb] in Hr. apply andb_true_iff in Hr. destruct Hr as [Hc Ht].
    apply N.leb_le in Hc. cbn [flat_map]. rewrite <- app_assoc.
    rewrite (lex_repr_esc1 pr qc c _ Hpr Hc Hq). rewrite (IH Ht). rewrite prepend_cons. reflexivity.
Qed.

Lemma repr_esc1_head : forall pr q c, match repr_esc1 pr q c with d :: _ => d = 92 \/ (d = c /\ c <> q) | [] => False end.
Proof.
  intros pr q c. unfold repr_esc1, x_esc, u_esc, U_esc.
  destruct (c =? 92); [left; reflexivity|]. destruct (c =? q) eqn:Eq; [left; reflexivity|]. apply N.eqb_neq in Eq.
  destruct (c =? 9); [left; reflexivity|]. destruct (c =? 10); [left; reflexivity|]. destruct (c =? 13); [left; reflexivity|].
  destruct ((c <? 32) || (c =? 127)); [left; reflexivity|].
  destruct (c <? 127); [right; split; [reflexivity | exact Eq]|].
  destruct (pr c); [right; split; [reflexivity | exact Eq]|].
  destruct (c <? 256); [left; reflexivity|]. destruct (c <? 65536); left; reflexivity.
Qed.

(* repr(t) is read back as exactly t, whatever quote repr chose *)
Theorem repr_inert : forall pr t rest, pr_ok pr -> in_range t = true ->
  match rest with c :: _ => c <> 34 /\ c <> 39 | [] => True end ->
  lex_lit (py_repr pr t ++ rest) = Some (t, rest).
Proof.
  intros pr t rest Hpr Hr Hrest. unfold py_repr. set (q := repr_quote t).
  assert (Hq : q = 34 \/ q = 39) by (unfold q, repr_quote; destruct (_ && _); auto).
  destruct Hq as [Hq | Hq]; rewrite Hq.
  - (* double-quoted *)
    unfold lex_lit. cbn [app]. change (34 =? 39) with false. cbv iota.
    change (lex_str (dq (flat_map (repr_esc1 pr 34) t) ++ rest) = Some (t, rest)).
    rewrite lex_str_dq.
    + rewrite (lex_repr_body pr 34 t (34 :: rest) Hpr Hr (or_introl eq_refl)).
      rewrite step_close_dq. cbn [prepend]. rewrite app_nil_r. reflexivity.
    + destruct rest as [|d r]; [exact I|]. cbn. apply Hrest.
    + destruct t as [|c t]; [exact I|]. cbn [flat_map].
      pose proof (repr_esc1_head pr 34 c) as Hh. destruct (repr_esc1 pr 34 c) as [|d l]; [contradiction|].
      cbn [app]. destruct Hh as [-> | [-> Hne]]; [discriminate | exact Hne].
  - (* single-quoted *)
    unfold lex_lit. cbn [app]. change (39 =? 39) with true. cbv iota. unfold lex_sq.
    assert (Hs3 : starts3sq (39 :: (flat_map (repr_esc1 pr 39) t ++ [39]) ++ rest) = false).
    { destruct t as [|c t].
      - cbn [flat_map app starts3sq]. destruct rest as [|d r]; [reflexivity|]. destruct Hrest as [_ B].
        apply N.eqb_neq in B. rewrite B. cbn. destruct r; reflexivity.
      - cbn [flat_map]. pose proof (repr_esc1_head pr 39 c) as Hh.
        destruct (repr_esc1 pr 39 c) as [|d l]; [contradiction|]. cbn [app].
        assert (Hd : (d =? 39) = false) by (destruct Hh as [-> | [-> Hne]]; [reflexivity | apply N.eqb_neq; exact Hne]).
        remember (((l ++ flat_map (repr_esc1 pr 39) t) ++ [39]) ++ rest) as T.
        change (match T with c0 :: _ => (39 =? 39) && (d =? 39) && (c0 =? 39) | [] => false end = false).
        destruct T; [reflexivity|]. rewrite Hd. reflexivity. }
    rewrite Hs3. change (39 =? 39) with true. cbv iota. rewrite <- app_assoc.
    rewrite (lex_repr_body pr 39 t _ Hpr Hr (or_intror eq_refl)).
    cbn [app lex_gen]. change (39 =? 39) with true. cbv iota. cbn [prepend]. rewrite app_nil_r. reflexivity.
Qed.

(* ================================================================== the repaired sites: FULL theorems *)
Theorem site_json_raw_inert : forall t rest, scalar t = true -> hd_not_quote rest ->
  lex_str (dq (json_raw t) ++ rest) = Some (t, rest).
Proof. exact json_raw_inert. Qed.

(* no character emitted by repr / python_string_literal is a line-break character of str.splitlines *)
Lemma hexdig_not_break : forall d, d < 16 -> is_break (hexdig d) = false.
Proof.
  intros d H.
  assert (d = 0 \/ d = 1 \/ d = 2 \/ d = 3 \/ d = 4 \/ d = 5 \/ d = 6 \/ d = 7 \/ d = 8 \/ d = 9 \/ d = 10
          \/ d = 11 \/ d = 12 \/ d = 13 \/ d = 14 \/ d = 15) as D by lia.
  repeat (destruct D as [-> | D]; [reflexivity|]). subst d. reflexivity.
Qed.
Definition nobreak (s : str) : bool := forallb (fun c => negb (is_break c)) s.
Lemma nobreak_hex4 : forall a, a < 65536 -> nobreak (hex4 a) = true.
Proof.
  intros a H. destruct (hex4_bounds a H) as [B3 [B2 [B1 B0]]]. unfold nobreak, hex4. cbn [forallb].
  rewrite !hexdig_not_break by assumption. reflexivity.
Qed.
Lemma nobreak_app : forall a b, nobreak a = true -> nobreak b = true -> nobreak (a ++ b) = true.
Proof. intros a b Ha Hb. unfold nobreak in *. rewrite forallb_app, Ha, Hb. reflexivity. Qed.

Lemma nobreak_repr_esc1 : forall pr q c, pr_ok pr -> c <= 1114111 -> (q = 34 \/ q = 39) ->
  nobreak (repr_esc1 pr q c) = true.
Proof.
  intros pr q c Hpr Hm Hq. unfold repr_esc1.
  destruct (c =? 92); [reflexivity|].
  destruct (c =? q); [destruct Hq as [-> | ->]; reflexivity|].
  destruct (c =? 9); [reflexivity|]. destruct (c =? 10); [reflexivity|]. destruct (c =? 13) eqn:E13; [reflexivity|].
  destruct ((c <? 32) || (c =? 127)) eqn:Ectl.
  { assert (c < 256).
    { apply orb_true_iff in Ectl. destruct Ectl as [A|A]; [apply N.ltb_lt in A | apply N.eqb_eq in A]; lia. }
    unfold x_esc, hex2, nobreak. cbn [forallb].
    rewrite !hexdig_not_break; [reflexivity | apply N.mod_lt; lia | apply N.div_lt_upper_bound; lia]. }
  apply orb_false_iff in Ectl. destruct Ectl as [E32 E127]. apply N.ltb_ge in E32.
  destruct (c <? 127) eqn:Easc.
  { apply N.ltb_lt in Easc. unfold nobreak, is_break. cbn [forallb].
    replace (c =? 10) with false by (symmetry; apply N.eqb_neq; lia).
    replace (c =? 13) with false by (symmetry; apply N.eqb_neq; lia).
    replace (c =? 11) with false by (symmetry; apply N.eqb_neq; lia).
    replace (c =? 12) with false by (symmetry; apply N.eqb_neq; lia).
    replace (c =? 28) with false by (symmetry; apply N.eqb_neq; lia).
    replace (c =? 29) with false by (symmetry; apply N.eqb_neq; lia).
    replace (c =? 30) with false by (symmetry; apply N.eqb_neq; lia).
    replace (c =? 133) with false by (symmetry; apply N.eqb_neq; lia).
    replace (c =? 8232) with false by (symmetry; apply N.eqb_neq; lia).
    replace (c =? 8233) with false by (symmetry; apply N.eqb_neq; lia). reflexivity. }
  destruct (pr c) eqn:Epr.
  { destruct (Hpr c Epr) as [_ [_ Hb]]. unfold nobreak. cbn [forallb]. rewrite Hb. reflexivity. }
  destruct (c <? 256) eqn:E256.
  { apply N.ltb_lt in E256. unfold x_esc, hex2, nobreak. cbn [forallb].
    rewrite !hexdig_not_break; [reflexivity | apply N.mod_lt; lia | apply N.div_lt_upper_bound; lia]. }
  destruct (c <? 65536) eqn:E64k.
  { apply N.ltb_lt in E64k. unfold u_esc. change (nobreak ([92; 117] ++ hex4 c) = true).
    apply nobreak_app; [reflexivity | apply nobreak_hex4; exact E64k]. }
  unfold U_esc. change (nobreak ([92; 85] ++ hex4 (c / 65536) ++ hex4 (c mod 65536)) = true).
  apply nobreak_app; [reflexivity|]. apply nobreak_app; apply nobreak_hex4;
    [apply N.div_lt_upper_bound; lia | apply N.mod_lt; lia].
Qed.

Lemma nobreak_repr_body : forall pr q t, pr_ok pr -> in_range t = true -> (q = 34 \/ q = 39) ->
  nobreak (flat_map (repr_esc1 pr q) t) = true.
Proof.
  intros pr q t Hpr Hr Hq. induction t as [|c t IH]; [reflexivity|].
  unfold in_range in Hr. cbn [forallb] in Hr. apply andb_true_iff in Hr. destruct Hr as [Hc Ht]. apply N.leb_le in Hc.
  cbn [flat_map]. apply nobreak_app; [apply nobreak_repr_esc1; assumption | apply IH; exact Ht].
Qed.

Lemma nobreak_py_repr : forall pr t, pr_ok pr -> in_range t = true -> nobreak (py_repr pr t) = true.
Proof.
  intros pr t Hpr Hr. unfold py_repr.
  assert (Hq : repr_quote t = 34 \/ repr_quote t = 39) by (unfold repr_quote; destruct (_ && _); auto).
  change (nobreak ([repr_quote t] ++ flat_map (repr_esc1 pr (repr_quote t)) t ++ [repr_quote t]) = true).
  apply nobreak_app; [destruct Hq as [-> | ->]; reflexivity|].
  apply nobreak_app; [apply nobreak_repr_body; assumption | destruct Hq as [-> | ->]; reflexivity].
Qed.

Lemma pr_none_ok : pr_ok (fun _ => false).
Proof. intros c H. discriminate. Qed.

(* python_string_literal: read back as exactly t, for every string (lone surrogates included) *)
Theorem ascii_lit_inert : forall t rest, in_range t = true -> hd_not_quote rest ->
  lex_str (reflow ind4 (ascii_lit t) ++ rest) = Some (t, rest).
Proof.
  intros t rest Hr Hrest. rewrite reflow_id.
  - unfold ascii_lit. rewrite lex_str_dq; [| exact Hrest |].
    + rewrite (lex_repr_body (fun _ => false) 34 t (34 :: rest) pr_none_ok Hr (or_introl eq_refl)). rewrite step_close_dq. cbn [prepend]. rewrite app_nil_r. reflexivity.
    + destruct t as [|c t]; [exact I|]. cbn [flat_map].
      pose proof (repr_esc1_head (fun _ => false) 34 c) as Hh. destruct (repr_esc1 (fun _ => false) 34 c) as [|d l]; [contradiction|].
      cbn [app]. destruct Hh as [-> | [-> Hne]]; [discriminate | exact Hne].
  - unfold ascii_lit, dq. change (nobreak ([34] ++ flat_map (repr_esc1 (fun _ => false) 34) t ++ [34]) = true).
    apply nobreak_app; [reflexivity|]. apply nobreak_app; [|reflexivity].
    apply nobreak_repr_body; [exact pr_none_ok | exact Hr | left; reflexivity].
Qed.

(* repr through write_block *)
Theorem media_repr_inert : forall pr t rest, pr_ok pr -> in_range t = true ->
  match rest with c :: _ => c <> 34 /\ c <> 39 | [] => True end ->
  lex_lit (site_media_repr pr t ++ rest) = Some (t, rest).
Proof.
  intros pr t rest Hpr Hr Hrest. unfold site_media_repr. rewrite reflow_id.
  - apply repr_inert; assumption.
  - apply nobreak_py_repr; assumption.
Qed.

(* the comment after the fix: one physical line for every text a document can contain *)
Theorem field_comment_inert : forall t, scalar t = true -> single_physical_line (site_field_comment t) = true.
Proof.
  intros t H. unfold site_field_comment, single_physical_line. cbn [forallb]. cbn.
  unfold scalar in H. unfold comment_clean. rewrite forallb_forall in *.
  intros c Hc. apply in_map_iff in Hc. destruct Hc as [d [Hd Hin]]. specialize (H d Hin).
  apply andb_true_iff in H. destruct H as [Hs Hm]. apply negb_true_iff in Hs. apply N.leb_le in Hm.
  unfold line_break, bad_raw.
  destruct (d =? 10) eqn:E10; [subst c; reflexivity|]. destruct (d =? 13) eqn:E13; [subst c; reflexivity|].
  destruct (d =? 0) eqn:E0; [subst c; reflexivity|]. cbn [orb] in Hd. subst c.
  rewrite E10, E13, E0, Hs. replace (1114111 <? d) with false by (symmetry; apply N.ltb_ge; lia). reflexivity.
Qed.

(* regression examples: the former witnesses now meet the statement *)
Example fixed_F15a : lex_str (site_enum_value w_quote ++ []) = Some (w_quote, []) /\ lex_str (site_enum_value w_escn ++ []) = Some (w_escn, []).
Proof. split; reflexivity. Qed.
Example fixed_F15e : single_physical_line (site_field_comment w_cr) = true.
Proof. reflexivity. Qed.
Example fixed_F15f : lex_str (site_query_key w_quote ++ []) = Some (w_quote, []) /\ lex_str (site_header_key w_ff ++ []) = Some (w_ff, []).
Proof. split; reflexivity. Qed.
Example fixed_F15h : lex_str (site_default w_astral ++ []) = Some (w_astral, []).
Proof. reflexivity. Qed.
Example fixed_F15j : lex_str (site_media_type (w_quote ++ w_astral) ++ []) = Some (w_quote ++ w_astral, []).
Proof. reflexivity. Qed.
Example media_repr_example :
  lex_lit (site_media_repr (fun c => c =? 233) [97; 39; 233; 133; 128512; 92] ++ [125]) = Some ([97; 39; 233; 133; 128512; 92], [125])
  /\ lex_lit (site_media_repr (fun _ => false) [97; 39; 34] ++ []) = Some ([97; 39; 34], []).
Proof. split; reflexivity. Qed.

(* ================================================================== escaped docstring sites (fixes of F15c/d/g/k) *)
Lemma repl3_app_sep : forall x n u sep, (length u <= n)%nat -> (sep =? 34) = false ->
  repl3 x (u ++ [sep]) = repl3 x u ++ [sep].
Proof.
  induction n as [|n IH]; intros u sep Hlen Hs.
  - destruct u; [|cbn in Hlen; lia]. cbn [app]. rewrite repl3_eq. reflexivity.
  - destruct u as [|a [|b [|c r]]].
    + cbn [app]. rewrite repl3_eq. reflexivity.
    + cbn [app]. rewrite !repl3_eq. reflexivity.
    + cbn [app]. rewrite (repl3_eq x a). cbv beta iota. rewrite Hs, andb_false_r.
      rewrite (repl3_eq x a [b]). cbn [app]. f_equal; try (apply (IH [b] sep); [cbn in *; lia | exact Hs]).
    + cbn [app]. rewrite (repl3_eq x a (b :: c :: r ++ [sep])). rewrite (repl3_eq x a (b :: c :: r)). cbv beta iota.
      destruct ((a =? 34) && (b =? 34) && (c =? 34)).
      * rewrite <- app_assoc. f_equal. apply IH; [cbn in *; lia | exact Hs].
      * cbn [app]. f_equal. apply (IH (b :: c :: r) sep); [cbn in *; lia | exact Hs].
Qed.

Lemma paired_app_sep : forall n u sep, (length u <= n)%nat -> paired u = true -> (sep =? 92) = false ->
  paired (u ++ [sep]) = true.
Proof.
  induction n as [|n IH]; intros u sep Hlen Hp Hs.
  - destruct u; [|cbn in Hlen; lia]. cbn. rewrite Hs. reflexivity.
  - destruct u as [|a r]; [cbn; rewrite Hs; reflexivity|].
    cbn [app paired] in *. destruct (a =? 92).
    + destruct r as [|d r']; [discriminate|]. cbn [app]. apply andb_true_iff in Hp. destruct Hp as [Hd Hp].
      rewrite Hd. cbn [andb]. apply IH; [cbn in *; lia | exact Hp | exact Hs].
    + apply IH; [cbn in *; lia | exact Hp | exact Hs].
Qed.

Lemma last_nq_app_sep : forall u sep, last_nq (u ++ [sep]) = negb (sep =? 34).
Proof.
  induction u as [|a u IH]; intro sep; [reflexivity|]. cbn [app last_nq].
  destruct (u ++ [sep]) eqn:E; [destruct u; discriminate|]. rewrite <- E. apply IH.
Qed.

Lemma dbl_bs_app : forall a b, dbl_bs (a ++ b) = dbl_bs a ++ dbl_bs b.
Proof. intros a b. unfold dbl_bs. apply flat_map_app. Qed.
Lemma nul_sp_app : forall a b, nul_sp (a ++ b) = nul_sp a ++ nul_sp b.
Proof. intros a b. unfold nul_sp. apply map_app. Qed.

Lemma scalar_nobad_nul_sp : forall t, scalar t = true -> no_chars bad_raw (nul_sp t) = true.
Proof.
  intros t H. unfold no_chars, nul_sp, scalar in *. rewrite forallb_forall in *. intros c Hc.
  apply in_map_iff in Hc. destruct Hc as [d [Hd Hin]]. specialize (H d Hin).
  apply andb_true_iff in H. destruct H as [Hs Hm]. apply negb_true_iff in Hs. apply N.leb_le in Hm.
  unfold bad_raw. destruct (d =? 0) eqn:E0; subst c; [reflexivity|].
  rewrite E0, Hs. replace (1114111 <? d) with false by (symmetry; apply N.ltb_ge; lia). reflexivity.
Qed.


(* escaped text followed by a character that is neither quote nor backslash stays inside the literal *)
Lemma doc_text_run : forall t sep X rest q, okq q -> scalar t = true -> sep_ok sep = true -> closes X rest ->
  exists v, lex_go true q (doc_esc t ++ sep :: X) = Some (v, rest).
Proof.
  intros t sep X rest q Hq Ht Hsep HX. unfold sep_ok in Hsep. apply negb_true_iff in Hsep.
  apply orb_false_iff in Hsep. destruct Hsep as [Hs1 Hbad]. apply orb_false_iff in Hs1. destruct Hs1 as [H34 H92].
  set (u := dbl_bs (nul_sp t)).
  replace (doc_esc t ++ sep :: X) with (repl3 esc_q3 (u ++ [sep]) ++ X).
  - apply (alias_run (length (u ++ [sep]))); try assumption; [lia | | |].
    + apply (paired_app_sep (length u)); [lia | apply paired_dbl_bs | exact H92].
    + unfold no_chars. rewrite forallb_app. fold (no_chars bad_raw u). unfold u.
      rewrite (nobad_dbl_bs _ (scalar_nobad_nul_sp t Ht)). cbn [forallb]. rewrite Hbad. reflexivity.
    + rewrite last_nq_app_sep. rewrite H34. reflexivity.
  - rewrite (repl3_app_sep _ (length u)) by (try lia; exact H34). rewrite <- app_assoc. reflexivity.
Qed.

Lemma isoq_closes : forall post rest, isoq post = true -> closes (post ++ q3 ++ rest) rest.
Proof. intros post rest H q Hq. apply run_isoq; [exact Hq | exact H | apply closes_q3]. Qed.

Theorem block_doc_inert : forall pre sep post t rest,
  safe_doc_raw pre = true -> scalar t = true -> sep_ok sep = true -> isoq post = true ->
  exists v, lex_str (site_block_doc pre (sep :: post) t ++ rest) = Some (v, rest).
Proof.
  intros pre sep post t rest Hp Ht Hs Hpost. unfold site_block_doc. rewrite <- !app_assoc. rewrite lex_str_q3.
  apply run_docplain; [left; reflexivity | exact Hp |].
  intros q Hq. cbn [app]. apply doc_text_run; [exact Hq | exact Ht | exact Hs | apply isoq_closes; exact Hpost].
Qed.

Theorem block_line_inert : forall t rest, scalar t = true ->
  exists v, lex_str (site_block_line t ++ rest) = Some (v, rest).
Proof. intros t rest H. apply (block_doc_inert [10] 10 [] t rest); [reflexivity | exact H | reflexivity | reflexivity]. Qed.

Lemma scalar_app : forall a b, scalar a = true -> scalar b = true -> scalar (a ++ b) = true.
Proof. intros a b Ha Hb. unfold scalar in *. rewrite forallb_app, Ha, Hb. reflexivity. Qed.

Theorem client_title_inert : forall version t rest, scalar version = true -> scalar t = true ->
  exists v, lex_str (site_client_title version t ++ rest) = Some (v, rest).
Proof.
  intros ver t rest Hv Ht. unfold site_client_title. apply block_line_inert.
  apply scalar_app; [exact Ht|]. change (scalar ([32; 40; 118;101;114;115;105;111;110;32] ++ ver ++ [41]) = true).
  apply scalar_app; [reflexivity|]. apply scalar_app; [exact Hv | reflexivity].
Qed.

Theorem tag_doc_inert : forall t rest, scalar t = true ->
  exists v, lex_str (site_tag_doc t ++ rest) = Some (v, rest).
Proof.
  intros t rest Ht. unfold site_tag_doc. rewrite <- !app_assoc. rewrite lex_str_q3.
  apply run_docplain; [left; reflexivity | reflexivity |].
  intros q Hq. unfold s_q_endpoints. cbn [app].
  apply doc_text_run; [exact Hq | exact Ht | reflexivity |].
  apply (isoq_closes [32;101;110;100;112;111;105;110;116;115;46]). reflexivity.
Qed.

(* DocumentationWriter after the fix *)
Definition scalar_c (c : N) : bool := negb (is_surrogate c) && (c <=? 1114111).
Lemma drop_ws_P : forall (P : N -> bool) t, forallb P t = true -> forallb P (drop_ws t) = true.
Proof.
  intros P. induction t as [|c t IH]; intro H; [reflexivity|]. cbn [drop_ws]. destruct (doc_ws c); [|exact H].
  cbn [forallb] in H. apply andb_true_iff in H. apply IH. apply H.
Qed.
Lemma layout_scalar : forall o t, forallb scalar_c t = true -> layoutb t o = true -> forallb scalar_c o = true.
Proof.
  induction o as [|c o IH]; intros t Ht HL; [reflexivity|]. cbn [layoutb] in HL. cbn [forallb].
  destruct (out_ws c) eqn:Ew.
  - assert (scalar_c c = true).
    { unfold out_ws in Ew. apply orb_true_iff in Ew. destruct Ew as [Ew|Ew]; [apply orb_true_iff in Ew; destruct Ew as [Ew|Ew]|];
        apply N.eqb_eq in Ew; subst c; reflexivity. }
    rewrite H. apply (IH (drop_ws t)); [apply drop_ws_P; exact Ht | exact HL].
  - pose proof (drop_ws_P scalar_c t Ht) as Hd.
    destruct (drop_ws t) as [|c' t']; [discriminate|]. apply andb_true_iff in HL. destruct HL as [Hc HL].
    apply N.eqb_eq in Hc. subst c'. cbn [forallb] in Hd. apply andb_true_iff in Hd. destruct Hd as [Hc Hd].
    rewrite Hc. apply (IH t'); assumption.
Qed.

Lemma scalar_nul_sp : forall t, scalar t = true -> forallb scalar_c (nul_sp t) = true.
Proof.
  intros t H. unfold scalar, nul_sp in *. rewrite forallb_forall in *. intros c Hc.
  apply in_map_iff in Hc. destruct Hc as [d [Hd Hin]]. destruct (d =? 0); subst c; [reflexivity | apply H; exact Hin].
Qed.

Lemma ends_lf_split : forall o, ends_lf o = true -> exists o', o = o' ++ [10].
Proof.
  intros o H. unfold ends_lf in H. destruct (rev o) as [|c r] eqn:E; [discriminate|].
  apply N.eqb_eq in H. subst c. exists (rev r). apply (f_equal (@rev N)) in E. rewrite rev_involutive in E. exact E.
Qed.

Lemma doc_esc_app_lf : forall o, doc_esc (o ++ [10]) = doc_esc o ++ [10].
Proof.
  intro o. unfold doc_esc. rewrite nul_sp_app, dbl_bs_app. cbn [nul_sp map dbl_bs flat_map app].
  apply (repl3_app_sep _ (length (dbl_bs (nul_sp o)))); [lia | reflexivity].
Qed.

Theorem docwriter_inert : forall t out rest, scalar t = true -> site_docwriter_rel t out = true ->
  exists v, lex_str (out ++ rest) = Some (v, rest).
Proof.
  intros t out rest Ht HR. unfold site_docwriter_rel in HR.
  destruct out as [|a [|b [|c e3]]]; try discriminate.
  destruct (rev e3) as [|z [|y [|x re]]] eqn:Er; try (rewrite !andb_false_r in HR; discriminate).
  repeat match goal with E : _ && _ = true |- _ => apply andb_true_iff in E; destruct E end.
  repeat match goal with E : (_ =? _) = true |- _ => apply N.eqb_eq in E end. subst.
  match goal with E : str_eqb _ _ = true |- _ => apply str_eqb_eq in E; rename E into He end.
  apply (f_equal (@rev N)) in Er. rewrite rev_involutive in Er. cbn [rev] in Er. rewrite <- !app_assoc in Er. cbn [app] in Er.
  set (o := doc_unesc (rev re)) in *.
  match goal with E : ends_lf o = true |- _ => destruct (ends_lf_split o E) as [o' Ho'] end.
  match goal with E : layoutb _ o = true |- _ => pose proof (layout_scalar o _ (scalar_nul_sp t Ht) E) as Hso end.
  rewrite Er. rewrite <- He. rewrite Ho'. rewrite doc_esc_app_lf.
  change (34 :: 34 :: 34 :: (doc_esc o' ++ [10]) ++ [34; 34; 34]) with (q3 ++ (doc_esc o' ++ [10]) ++ q3).
  rewrite <- !app_assoc. rewrite lex_str_q3. cbn [app].
  apply doc_text_run; [left; reflexivity | | reflexivity | apply closes_q3].
  rewrite Ho' in Hso. rewrite forallb_app in Hso. apply andb_true_iff in Hso. exact (proj1 Hso).
Qed.

(* alias docstring after the fix: every quote escaped *)
Lemma alias_esc1_step : forall c q X rest, okq q -> scalar_c c = true ->
  (forall q', okq q' -> exists v, lex_go true q' X = Some (v, rest)) ->
  exists v, lex_go true q (alias_esc1 c ++ X) = Some (v, rest).
Proof.
  intros c q X rest Hq Hc HX. unfold alias_esc1.
  assert (Hbs : forall d, simple_escape d = Some d -> exists v, lex_go true q (92 :: d :: X) = Some (v, rest)).
  { intros d Hd. assert (E : lex_go true q (92 :: d :: X) = consf d (lex_go true Nrm X)).
    { destruct Hq as [-> | ->]; [|rewrite afterCR_not10 by reflexivity]; rewrite step_bs; apply step_esc_simple; exact Hd. }
    rewrite E. apply consf_some. apply HX. left; reflexivity. }
  destruct (c =? 0) eqn:E0.
  - cbn [app]. apply step_docplain; [reflexivity | exact Hq | exact HX].
  - destruct (c =? 92) eqn:E92; [cbn [app]; apply Hbs; reflexivity|].
    destruct (c =? 34) eqn:E34; [cbn [app]; apply Hbs; reflexivity|].
    cbn [app]. apply step_docplain; [| exact Hq | exact HX].
    unfold docplain, bad_raw. rewrite E34, E92, E0. unfold scalar_c in Hc. apply andb_true_iff in Hc. destruct Hc as [Hs Hm].
    apply negb_true_iff in Hs. rewrite Hs. apply N.leb_le in Hm.
    replace (1114111 <? c) with false by (symmetry; apply N.ltb_ge; lia). reflexivity.
Qed.

Lemma alias_esc_run : forall t q X rest, okq q -> scalar t = true -> closes X rest ->
  exists v, lex_go true q (alias_esc t ++ X) = Some (v, rest).
Proof.
  induction t as [|c t IH]; intros q X rest Hq Ht HX.
  - apply HX. exact Hq.
  - unfold scalar in Ht. cbn [forallb] in Ht. apply andb_true_iff in Ht. destruct Ht as [Hc Ht].
    unfold alias_esc. cbn [flat_map]. rewrite <- app_assoc. apply alias_esc1_step; [exact Hq | exact Hc |].
    intros q' Hq'. apply IH; assumption.
Qed.

Theorem alias_doc_inert : forall t rest, scalar t = true ->
  site_alias_doc t = [] \/ exists v, lex_str (site_alias_doc t ++ rest) = Some (v, rest).
Proof.
  intros t rest H. destruct t as [|c t]; [left; reflexivity|]. right.
  unfold site_alias_doc. rewrite <- !app_assoc. rewrite lex_str_q3.
  apply run_docplain; [left; reflexivity | reflexivity |].
  intros q Hq. apply alias_esc_run; [exact Hq | exact H | apply closes_q3].
Qed.

(* regression: the former witnesses *)
Example fixed_F15c : exists v, lex_str (site_alias_doc w_endq ++ []) = Some (v, []).
Proof. eexists. reflexivity. Qed.
Example fixed_F15d : site_docwriter_rel q3 (q3 ++ [10] ++ esc_q3 ++ [10] ++ q3) = true /\
  exists v, lex_str ((q3 ++ [10] ++ esc_q3 ++ [10] ++ q3) ++ []) = Some (v, []).
Proof. split; [reflexivity | eexists; reflexivity]. Qed.
Example fixed_F15g : exists v, lex_str (site_client_title [49;46;48] q3 ++ []) = Some (v, []).
Proof. eexists. reflexivity. Qed.
Example fixed_F15k : (exists v, lex_str (site_tag_doc q3 ++ []) = Some (v, [])) /\
  (exists v, lex_str (site_block_line w_bsx ++ []) = Some (v, [])).
Proof. split; eexists; reflexivity. Qed.

(* ================================================================== value-carrying docstring theorems
   (texts without a carriage return: a raw CR inside a literal reads as LF, so the value is then only equal up to that
   translation; the docstring layout of DocumentationWriter never contains a CR) *)
Definition nocr (s : str) : bool := forallb (fun c => negb (c =? 13)) s.
Lemma close_q3 : forall rest, lex_go true Nrm (q3 ++ rest) = Some ([], rest).
Proof. intro rest. reflexivity. Qed.

Fixpoint unpair (u : str) : str :=
  match u with
  | [] => []
  | c :: r => if c =? 92 then match r with _ :: r' => 92 :: unpair r' | [] => [92] end else c :: unpair r
  end.

Lemma unpair_dbl_bs : forall w, unpair (dbl_bs w) = w.
Proof.
  induction w as [|c w IH]; [reflexivity|]. unfold dbl_bs. cbn [flat_map]. fold (dbl_bs w).
  destruct (c =? 92) eqn:E.
  - apply N.eqb_eq in E. subst c. cbn [app unpair]. change (92 =? 92) with true. cbv iota. rewrite IH. reflexivity.
  - cbn [app unpair]. rewrite E. rewrite IH. reflexivity.
Qed.

Lemma unpair_app_sep : forall n u sep, (length u <= n)%nat -> paired u = true -> (sep =? 92) = false ->
  unpair (u ++ [sep]) = unpair u ++ [sep].
Proof.
  induction n as [|n IH]; intros u sep Hlen Hp Hs.
  - destruct u; [|cbn in Hlen; lia]. cbn. rewrite Hs. reflexivity.
  - destruct u as [|a r]; [cbn; rewrite Hs; reflexivity|].
    cbn [app unpair paired] in *. destruct (a =? 92).
    + destruct r as [|d r']; [discriminate|]. cbn [app]. apply andb_true_iff in Hp. destruct Hp as [_ Hp].
      cbn [app]. f_equal. apply IH; [cbn in *; lia | exact Hp | exact Hs].
    + cbn [app]. f_equal. apply IH; [cbn in *; lia | exact Hp | exact Hs].
Qed.

Lemma plain_tq_of : forall c, docplain c = true -> (c =? 13) = false -> plain true c = true.
Proof.
  intros c H E. unfold docplain in H. unfold plain. rewrite E. cbn [negb andb].
  apply negb_true_iff in H. apply orb_false_iff in H. destruct H as [H1 H3]. apply orb_false_iff in H1. destruct H1 as [H1 H2].
  rewrite H1, H2, H3. reflexivity.
Qed.

Lemma step_lone_quote_nrm : forall r,
  match r with a :: b :: _ => (a =? 34) && (b =? 34) = false | _ => True end ->
  lex_go true Nrm (34 :: r) = consf 34 (lex_go true Nrm r).
Proof. intros r H. apply step_lone_quote; [left; reflexivity | exact H]. Qed.

Lemma run_isoq_val : forall s X, isoq s = true -> nocr s = true ->
  lex_go true Nrm (s ++ X) = prepend s (lex_go true Nrm X).
Proof.
  induction s as [|c s IH]; intros X Hs Hc; [rewrite prepend_nil; reflexivity|].
  cbn [isoq] in Hs. apply andb_true_iff in Hs. destruct Hs as [H1 Hs].
  unfold nocr in Hc. cbn [forallb] in Hc. apply andb_true_iff in Hc. destruct Hc as [Hc13 Hc]. apply negb_true_iff in Hc13.
  cbn [app]. rewrite prepend_cons. destruct (c =? 34) eqn:E34.
  - apply N.eqb_eq in E34. subst c. destruct s as [|d s']; [discriminate|].
    rewrite step_lone_quote_nrm.
    + rewrite (IH X Hs Hc). reflexivity.
    + cbn [app]. apply negb_true_iff in H1. destruct (s' ++ X); [exact I|]. rewrite H1. reflexivity.
  - rewrite step_plain.
    + rewrite (IH X Hs Hc). reflexivity.
    + apply plain_tq_of; [|exact Hc13]. unfold docplain. rewrite E34. exact H1.
Qed.

Lemma alias_run_val : forall n u X, (length u <= n)%nat ->
  paired u = true -> no_chars bad_raw u = true -> nocr u = true -> last_nq u = true ->
  lex_go true Nrm (repl3 esc_q3 u ++ X) = prepend (unpair u) (lex_go true Nrm X).
Proof.
  induction n as [|n IH]; intros u X Hlen Hp Hb Hc Hl.
  - destruct u; [|cbn in Hlen; lia]. cbn. rewrite prepend_nil. reflexivity.
  - destruct u as [|c1 r1]; [cbn; rewrite prepend_nil; reflexivity|].
    unfold no_chars in Hb. cbn [forallb] in Hb. apply andb_true_iff in Hb. destruct Hb as [Hb1 Hb].
    unfold nocr in Hc. cbn [forallb] in Hc. apply andb_true_iff in Hc. destruct Hc as [Hc1 Hc]. apply negb_true_iff in Hc1.
    cbn [length] in Hlen.
    destruct (c1 =? 34) eqn:E1.
    + apply N.eqb_eq in E1. subst c1.
      destruct r1 as [|c2 r2]; [discriminate|].
      cbn [paired] in Hp. change (34 =? 92) with false in Hp. cbv iota in Hp.
      cbn [unpair]. change (34 =? 92) with false. cbv iota. rewrite prepend_cons.
      destruct (c2 =? 34) eqn:E2.
      * apply N.eqb_eq in E2. subst c2.
        destruct r2 as [|c3 r3]; [discriminate|].
        cbn [paired] in Hp. change (34 =? 92) with false in Hp. cbv iota in Hp.
        cbn [forallb] in Hb. apply andb_true_iff in Hb. destruct Hb as [_ Hb].
        cbn [forallb] in Hc. apply andb_true_iff in Hc. destruct Hc as [_ Hc].
        cbn [unpair]. change (34 =? 92) with false. cbv iota. rewrite prepend_cons.
        destruct (c3 =? 34) eqn:E3.
        -- apply N.eqb_eq in E3. subst c3.
           cbn [paired] in Hp. change (34 =? 92) with false in Hp. cbv iota in Hp.
           cbn [forallb] in Hb. apply andb_true_iff in Hb. destruct Hb as [_ Hb].
           cbn [forallb] in Hc. apply andb_true_iff in Hc. destruct Hc as [_ Hc].
           assert (R : repl3 esc_q3 (34 :: 34 :: 34 :: r3) = esc_q3 ++ repl3 esc_q3 r3) by reflexivity.
           rewrite R.
           replace ((esc_q3 ++ repl3 esc_q3 r3) ++ X) with (92 :: 34 :: 92 :: 34 :: 92 :: 34 :: (repl3 esc_q3 r3 ++ X)) by reflexivity.
           assert (Hgo : forall Y, lex_go true Nrm (92 :: 34 :: Y) = consf 34 (lex_go true Nrm Y)).
           { intro Y. rewrite step_bs. apply step_esc_simple. reflexivity. }
           rewrite !Hgo. cbn [unpair]. change (34 =? 92) with false. cbv iota. rewrite prepend_cons.
           rewrite (IH r3 X); try assumption; [reflexivity | cbn in Hlen; lia |].
           destruct r3; [discriminate | exact Hl].
        -- rewrite (repl3_qq_nq _ c3 r3 E3). rewrite (repl3_nonquote _ c3 r3 E3). cbn [app].
           rewrite step_lone_quote_nrm by (rewrite E3; rewrite andb_false_r; reflexivity).
           rewrite step_lone_quote_nrm by (destruct (repl3 esc_q3 r3 ++ X); [exact I | rewrite E3; reflexivity]).
           change (c3 :: repl3 esc_q3 r3 ++ X) with ((c3 :: repl3 esc_q3 r3) ++ X).
           rewrite <- (repl3_nonquote _ c3 r3 E3).
           rewrite (IH (c3 :: r3) X); [reflexivity | cbn in Hlen; cbn; lia | exact Hp | exact Hb | exact Hc | exact Hl].
      * rewrite (repl3_q_nq _ c2 r2 E2). rewrite (repl3_nonquote _ c2 r2 E2). cbn [app].
        rewrite step_lone_quote_nrm by (destruct (repl3 esc_q3 r2 ++ X); [exact I | rewrite E2; reflexivity]).
        change (c2 :: repl3 esc_q3 r2 ++ X) with ((c2 :: repl3 esc_q3 r2) ++ X).
        rewrite <- (repl3_nonquote _ c2 r2 E2).
        rewrite (IH (c2 :: r2) X); [reflexivity | lia | exact Hp | exact Hb | exact Hc | exact Hl].
    + rewrite (repl3_nonquote _ c1 r1 E1). cbn [app].
      destruct (c1 =? 92) eqn:E92.
      * apply N.eqb_eq in E92. subst c1. cbn [paired] in Hp. change (92 =? 92) with true in Hp. cbv iota in Hp.
        destruct r1 as [|d r1']; [discriminate|]. apply andb_true_iff in Hp. destruct Hp as [Ed Hp].
        apply N.eqb_eq in Ed. subst d.
        rewrite (repl3_nonquote _ 92 r1' eq_refl). cbn [app].
        cbn [forallb] in Hb. apply andb_true_iff in Hb. destruct Hb as [_ Hb].
        cbn [forallb] in Hc. apply andb_true_iff in Hc. destruct Hc as [_ Hc].
        rewrite step_bs. rewrite (step_esc_simple true 92 92) by reflexivity.
        cbn [unpair]. change (92 =? 92) with true. cbv iota. rewrite prepend_cons.
        rewrite (IH r1' X); try assumption; [reflexivity | cbn in Hlen; lia |].
        destruct r1'; [reflexivity | exact Hl].
      * cbn [unpair]. rewrite E92. rewrite prepend_cons. rewrite step_plain.
        -- rewrite (IH r1 X); try assumption; [reflexivity | lia | |].
           ++ cbn [paired] in Hp. rewrite E92 in Hp. exact Hp.
           ++ destruct r1; [reflexivity | exact Hl].
        -- apply plain_tq_of; [|exact Hc1]. unfold docplain. rewrite E1, E92. exact Hb1.
Qed.

Lemma nocr_map_flat : forall t, nocr t = true -> nocr (dbl_bs (nul_sp t)) = true.
Proof.
  induction t as [|c t IH]; intro H; [reflexivity|]. unfold nocr in *. cbn [forallb] in H. apply andb_true_iff in H.
  destruct H as [Hc Ht]. unfold nul_sp. cbn [map]. unfold dbl_bs. cbn [flat_map]. rewrite forallb_app.
  fold (nul_sp t). fold (dbl_bs (nul_sp t)). rewrite (IH Ht), andb_true_r.
  destruct (c =? 0) eqn:E0; [reflexivity|]. destruct (c =? 92) eqn:E92; cbn [forallb].
  - apply N.eqb_eq in E92. subst c. reflexivity.
  - rewrite Hc. reflexivity.
Qed.

(* the escaped text, followed by a character that is not quote / backslash / CR, evaluates to the text (NUL -> space) *)
Lemma doc_text_val : forall t sep X, scalar t = true -> nocr t = true -> sep_ok sep = true -> (sep =? 13) = false ->
  lex_go true Nrm (doc_esc t ++ sep :: X) = prepend (nul_sp t ++ [sep]) (lex_go true Nrm X).
Proof.
  intros t sep X Ht Hcr Hsep H13. unfold sep_ok in Hsep. apply negb_true_iff in Hsep.
  apply orb_false_iff in Hsep. destruct Hsep as [Hs1 Hbad]. apply orb_false_iff in Hs1. destruct Hs1 as [H34 H92].
  set (u := dbl_bs (nul_sp t)).
  assert (Hu : unpair (u ++ [sep]) = nul_sp t ++ [sep]).
  { rewrite (unpair_app_sep (length u)); [unfold u; rewrite unpair_dbl_bs; reflexivity | lia | apply paired_dbl_bs | exact H92]. }
  rewrite <- Hu.
  replace (doc_esc t ++ sep :: X) with (repl3 esc_q3 (u ++ [sep]) ++ X).
  - apply (alias_run_val (length (u ++ [sep]))); [lia | | | |].
    + apply (paired_app_sep (length u)); [lia | apply paired_dbl_bs | exact H92].
    + unfold no_chars. rewrite forallb_app. fold (no_chars bad_raw u). unfold u.
      rewrite (nobad_dbl_bs _ (scalar_nobad_nul_sp t Ht)). cbn [forallb]. rewrite Hbad. reflexivity.
    + unfold nocr. rewrite forallb_app. fold (nocr u). unfold u. rewrite (nocr_map_flat t Hcr). cbn [forallb]. rewrite H13. reflexivity.
    + rewrite last_nq_app_sep. rewrite H34. reflexivity.
  - rewrite (repl3_app_sep _ (length u)) by (try lia; exact H34). rewrite <- app_assoc. reflexivity.
Qed.

Lemma run_docplain_val : forall s X, safe_doc_raw s = true -> nocr s = true ->
  lex_go true Nrm (s ++ X) = prepend s (lex_go true Nrm X).
Proof.
  intros s X Hs Hc. apply run_plain. unfold safe_doc_raw, no_chars in Hs. unfold nocr in Hc.
  rewrite forallb_forall in *. intros c Hin. apply plain_tq_of; [exact (Hs c Hin)|].
  apply negb_true_iff. exact (Hc c Hin).
Qed.

(* a hand-written docstring template evaluates to: fixed text, the spec text (NUL -> space), fixed text *)
Theorem block_doc_value : forall pre sep post t rest,
  safe_doc_raw pre = true -> nocr pre = true -> scalar t = true -> nocr t = true ->
  sep_ok sep = true -> (sep =? 13) = false -> isoq post = true -> nocr post = true ->
  lex_str (site_block_doc pre (sep :: post) t ++ rest) = Some (pre ++ nul_sp t ++ sep :: post, rest).
Proof.
  intros pre sep post t rest Hp Hpc Ht Htc Hs Hs13 Hpost Hpostc.
  unfold site_block_doc. rewrite <- !app_assoc. rewrite lex_str_q3.
  rewrite run_docplain_val by assumption. cbn [app].
  rewrite doc_text_val by assumption. rewrite run_isoq_val by assumption.
  rewrite close_q3. cbn [prepend]. rewrite !app_nil_r.
  rewrite <- !app_assoc. reflexivity.
Qed.

(* DocumentationWriter: the docstring evaluates to a layout of the text (white space edited only) *)
Lemma layout_pres : forall (P : N -> bool) o t, (forall c, out_ws c = true -> P c = true) ->
  forallb P t = true -> layoutb t o = true -> forallb P o = true.
Proof.
  intros P. induction o as [|c o IH]; intros t Hws Ht HL; [reflexivity|]. cbn [layoutb] in HL. cbn [forallb].
  destruct (out_ws c) eqn:Ew.
  - rewrite (Hws c Ew). apply (IH (drop_ws t)); [exact Hws | apply drop_ws_P; exact Ht | exact HL].
  - pose proof (drop_ws_P P t Ht) as Hd.
    destruct (drop_ws t) as [|c' t']; [discriminate|]. apply andb_true_iff in HL. destruct HL as [Hc HL].
    apply N.eqb_eq in Hc. subst c'. cbn [forallb] in Hd. apply andb_true_iff in Hd. destruct Hd as [Hc Hd].
    rewrite Hc. apply (IH t'); assumption.
Qed.
Lemma drop_ws_head : forall t c r, drop_ws t = c :: r -> doc_ws c = false.
Proof.
  induction t as [|a t IH]; intros c r H; [discriminate|]. cbn [drop_ws] in H.
  destruct (doc_ws a) eqn:E; [apply (IH c r H)|]. inversion H; subst. exact E.
Qed.
Lemma layout_nocr : forall o t, layoutb t o = true -> nocr o = true.
Proof.
  induction o as [|c o IH]; intros t HL; [reflexivity|]. cbn [layoutb] in HL. unfold nocr. cbn [forallb].
  destruct (out_ws c) eqn:Ew.
  - assert ((c =? 13) = false).
    { unfold out_ws in Ew. apply orb_true_iff in Ew. destruct Ew as [Ew|Ew]; [apply orb_true_iff in Ew; destruct Ew as [Ew|Ew]|];
        apply N.eqb_eq in Ew; subst c; reflexivity. }
    rewrite H. apply (IH (drop_ws t)). exact HL.
  - destruct (drop_ws t) as [|c' t'] eqn:Ed; [discriminate|]. apply andb_true_iff in HL. destruct HL as [Hc HL].
    apply N.eqb_eq in Hc. subst c'. pose proof (drop_ws_head t c t' Ed) as Hw.
    assert ((c =? 13) = false).
    { destruct (c =? 13) eqn:E; [|reflexivity]. apply N.eqb_eq in E. subst c. discriminate. }
    rewrite H. apply (IH t'). exact HL.
Qed.

Theorem docwriter_value : forall t out rest, scalar t = true -> site_docwriter_rel t out = true ->
  exists o, layoutb (nul_sp t) o = true /\ lex_str (out ++ rest) = Some (o, rest).
Proof.
  intros t out rest Ht HR. unfold site_docwriter_rel in HR.
  destruct out as [|a [|b [|c e3]]]; try discriminate.
  destruct (rev e3) as [|z [|y [|x re]]] eqn:Er; try (rewrite !andb_false_r in HR; discriminate).
  repeat match goal with E : _ && _ = true |- _ => apply andb_true_iff in E; destruct E end.
  repeat match goal with E : (_ =? _) = true |- _ => apply N.eqb_eq in E end. subst.
  match goal with E : str_eqb _ _ = true |- _ => apply str_eqb_eq in E; rename E into He end.
  apply (f_equal (@rev N)) in Er. rewrite rev_involutive in Er. cbn [rev] in Er. rewrite <- !app_assoc in Er. cbn [app] in Er.
  set (o := doc_unesc (rev re)) in *.
  match goal with E : ends_lf o = true |- _ => destruct (ends_lf_split o E) as [o' Ho'] end.
  match goal with E : layoutb _ o = true |- _ => rename E into HL end.
  pose proof (layout_scalar o _ (scalar_nul_sp t Ht) HL) as Hso.
  pose proof (layout_nocr o _ HL) as Hcr.
  exists o. split; [exact HL|].
  rewrite Er. rewrite <- He. rewrite Ho'. rewrite doc_esc_app_lf.
  change (34 :: 34 :: 34 :: (doc_esc o' ++ [10]) ++ [34; 34; 34]) with (q3 ++ (doc_esc o' ++ [10]) ++ q3).
  rewrite <- !app_assoc. rewrite lex_str_q3. cbn [app].
  rewrite Ho' in Hso, Hcr. rewrite forallb_app in Hso. apply andb_true_iff in Hso. destruct Hso as [Hso' _].
  unfold nocr in Hcr. rewrite forallb_app in Hcr. apply andb_true_iff in Hcr. destruct Hcr as [Hcr' _].
  rewrite doc_text_val; [| exact Hso' | exact Hcr' | reflexivity | reflexivity].
  rewrite close_q3. cbn [prepend]. rewrite app_nil_r.
  (* o' has no NUL: it is a layout of nul_sp t *)
  assert (Hz : forallb (fun c => negb (c =? 0)) o = true).
  { apply (layout_pres (fun c => negb (c =? 0)) o (nul_sp t)); [| | exact HL].
    - intros c0 Hw. unfold out_ws in Hw. apply orb_true_iff in Hw. destruct Hw as [Hw|Hw]; [apply orb_true_iff in Hw; destruct Hw as [Hw|Hw]|];
        apply N.eqb_eq in Hw; subst c0; reflexivity.
    - unfold nul_sp. rewrite forallb_forall. intros c0 Hc0. apply in_map_iff in Hc0. destruct Hc0 as [d [Hd _]].
      destruct (d =? 0) eqn:E; subst c0; [reflexivity | rewrite E; reflexivity]. }
  rewrite Ho' in Hz. rewrite forallb_app in Hz. apply andb_true_iff in Hz. destruct Hz as [Hz' _].
  assert (Hn : nul_sp o' = o').
  { clear - Hz'. induction o' as [|c0 o0 IH]; [reflexivity|]. cbn [forallb] in Hz'. apply andb_true_iff in Hz'.
    destruct Hz' as [Hc0 Ho0]. apply negb_true_iff in Hc0. unfold nul_sp. cbn [map]. rewrite Hc0. fold (nul_sp o0).
    rewrite (IH Ho0). reflexivity. }
  rewrite Hn. reflexivity.
Qed.

(* alias docstring: evaluates to the fixed prefix and the text (NUL -> space) *)
Lemma alias_esc_val : forall t X, scalar t = true -> nocr t = true ->
  lex_go true Nrm (alias_esc t ++ X) = prepend (nul_sp t) (lex_go true Nrm X).
Proof.
  induction t as [|c t IH]; intros X Ht Hc; [rewrite prepend_nil; reflexivity|].
  unfold scalar in Ht. cbn [forallb] in Ht. apply andb_true_iff in Ht. destruct Ht as [Hsc Ht].
  unfold nocr in Hc. cbn [forallb] in Hc. apply andb_true_iff in Hc. destruct Hc as [Hc13 Hc]. apply negb_true_iff in Hc13.
  unfold alias_esc. cbn [flat_map]. rewrite <- app_assoc. fold (alias_esc t).
  unfold nul_sp. cbn [map]. fold (nul_sp t). rewrite prepend_cons. unfold alias_esc1.
  destruct (c =? 0) eqn:E0.
  - cbn [app]. rewrite step_plain by reflexivity. rewrite (IH X Ht Hc). reflexivity.
  - destruct (c =? 92) eqn:E92.
    { apply N.eqb_eq in E92. subst c. cbn [app]. rewrite step_bs. rewrite (step_esc_simple true 92 92) by reflexivity.
      rewrite (IH X Ht Hc). reflexivity. }
    destruct (c =? 34) eqn:E34.
    { apply N.eqb_eq in E34. subst c. cbn [app]. rewrite step_bs. rewrite (step_esc_simple true 34 34) by reflexivity.
      rewrite (IH X Ht Hc). reflexivity. }
    cbn [app]. rewrite step_plain.
    + rewrite (IH X Ht Hc). reflexivity.
    + apply plain_tq_of; [|exact Hc13]. unfold docplain, bad_raw. rewrite E34, E92, E0.
      unfold scalar_c in Hsc. apply andb_true_iff in Hsc. destruct Hsc as [Hs Hm]. apply negb_true_iff in Hs. rewrite Hs.
      apply N.leb_le in Hm. replace (1114111 <? c) with false by (symmetry; apply N.ltb_ge; lia). reflexivity.
Qed.

Theorem alias_doc_value : forall t rest, t <> [] -> scalar t = true -> nocr t = true ->
  lex_str (site_alias_doc t ++ rest) = Some (s_alias_for ++ nul_sp t, rest).
Proof.
  intros t rest Hne Ht Hc. destruct t as [|c t]; [contradiction|].
  unfold site_alias_doc. rewrite <- !app_assoc. rewrite lex_str_q3.
  rewrite run_docplain_val by reflexivity. rewrite alias_esc_val by assumption.
  rewrite close_q3. cbn [prepend]. rewrite !app_nil_r. reflexivity.
Qed.

Example fixed_F15l : lex_str (site_enum_default w_quote ++ [41]) = Some (w_quote, [41]).
Proof. reflexivity. Qed.
