(* C15 — proofs about the lexical model. *)
From PG Require Import Lib.Strs Model.Escape.
From Coq Require Import Lia ZifyBool.

(* ------------------------------------------------------------------ refutation witnesses (vm_compute) *)
(* F15a/b/f/i/j: raw value between double quotes; witness: a, quote, b *)
Definition w_quote : str := [97; 34; 98].
Lemma dq_raw_refuted : safe_dq_raw w_quote = false /\ lex_str (dq w_quote ++ []) <> Some (w_quote, []).
Proof. split; [reflexivity | vm_compute; discriminate]. Qed.
