(* C01 — the generator skeleton of the models sub-package (Model/GenModels.v).

   TARGET THEOREM (stated, NOT proved in this development — see harness/manifest/C01.json):

     Theorem C01_models_partial : forall builtins root sp,
       acyclic_refs sp = true -> names_ok root sp = true ->
       pkg_ok_with builtins (gen_models_skeleton root sp) (models_order root sp) = true.

   and hence, by pkg_ok_with_sound, every module of gen_models_skeleton root sp imports from a fresh interpreter.
   What IS established:
     - every run evaluates exactly this statement (vm_compute) on the spec of every generated models/ package of the
       modelled fragment and reports a violation when acyclic_refs && names_ok holds and pkg_ok_with is false
       (Corr.C01.run_models, bit 1 / bit 2);
     - the closed instances below (a dependency chain with optional / array / map / self references, an enum, array
       and primitive aliases, a wrapper), including the corollary that all their modules import;
     - the cyclic counterpart: for A <-> B no order exists (acyclic_refs = false) and the skeleton does not import. *)
From PG Require Import Lib.Strs Model.CoreImports Model.PyImport Model.GenModels Gen.T_C01 Proofs.PyImport.

Definition g_root : modpath := [n_p; n_ep].
Definition n_C : str := [67]%N.  Definition n_c : str := [99]%N.
Definition n_D : str := [68]%N.  Definition n_d : str := [100]%N.
Definition n_E : str := [69]%N.  Definition n_e : str := [101]%N.
Definition n_F : str := [70]%N.  Definition n_f : str := [102]%N.
Definition n_x : str := [120]%N. Definition n_y : str := [121]%N. Definition n_z : str := [122]%N.

(* E: enum;  D: object {x: E?, y: [D]?, z: D?};  C: [D] alias;  B: wrapper of D;  A: object {x: D, y: dict[str, C]?, z: B};
   F: primitive alias *)
Definition g_spec : spec :=
  [ mkSch n_e n_E KEnum;
    mkSch n_d n_D (KObj [mkFld n_x (TyRef 0) true true; mkFld n_y (TyList (TyRef 1)) true true; mkFld n_z (TyRef 1) true true]);
    mkSch n_c n_C (KAliasOf (TyList (TyRef 1)));
    mkSch n_b n_B (KWrapper (TyRef 1));
    mkSch n_a n_A (KObj [mkFld n_x (TyRef 1) false false; mkFld n_y (TyDict (TyRef 2)) true true; mkFld n_z (TyRef 3) false false]);
    mkSch n_f n_F (KAliasOf TyPrim) ].

Lemma models_instance :
  acyclic_refs g_spec = true /\ names_ok g_root g_spec = true /\
  pkg_ok_with builtin_names (gen_models_skeleton g_root g_spec) (models_order g_root g_spec) = true /\
  length (gen_models_skeleton g_root g_spec) = 9%nat.
Proof. vm_compute. repeat split; reflexivity. Qed.

Lemma models_instance_imports : forall m, In m (gen_models_skeleton g_root g_spec) ->
  exec_pkg builtin_names (gen_models_skeleton g_root g_spec) (size (gen_models_skeleton g_root g_spec)) m = Ok tt.
Proof.
  apply (pkg_ok_with_sound builtin_names _ (models_order g_root g_spec)).
  destruct models_instance as [_ [_ [H _]]]. exact H.
Qed.

(* A{x: B}, B{x: A}: no dependency order, and the generated skeleton does not import (finding F01a) *)
Definition g_cyc : spec :=
  [ mkSch n_a n_A (KObj [mkFld n_x (TyRef 1) true true]);
    mkSch n_b n_B (KObj [mkFld n_x (TyRef 0) true true]) ].
Lemma models_cyclic :
  acyclic_refs g_cyc = false /\
  pkg_ok builtin_names (gen_models_skeleton g_root g_cyc) = false /\
  exec_pkg builtin_names (gen_models_skeleton g_root g_cyc) (size (gen_models_skeleton g_root g_cyc))
           (mkMod (g_root ++ [s_models; n_a]) []) = Fail EImport.
Proof. vm_compute. repeat split; reflexivity. Qed.
