(* C16 — proofs about Model/Converter.v *)
From PG Require Import Lib.Strs Model.Converter Proofs.Reach.
From Coq Require Import Lia.

(* ---------- generic helpers ---------- *)
Lemma map_result_Forall2 : forall {A B} (f : A -> result B) l l',
  map_result f l = Ok l' <-> Forall2 (fun x y => f x = Ok y) l l'.
Proof.
  intros A B f. induction l as [|x l IH]; intros l'; cbn [map_result].
  - split; intro H; [inversion H; constructor | inversion H; reflexivity].
  - destruct (f x) as [y|] eqn:Ex.
    + fold (map_result f l). destruct (map_result f l) as [ys|] eqn:El.
      * split; intro H.
        -- inversion H; subst. constructor; [exact Ex | apply IH; reflexivity].
        -- inversion H as [|? ? ? ? Hxy Hr]; subst. rewrite Ex in Hxy. inversion Hxy; subst.
           apply IH in Hr. inversion Hr; subst. reflexivity.
      * split; intro H; [discriminate|].
        inversion H as [|? ? ? ? Hxy Hr]; subst. apply IH in Hr. discriminate.
    + split; intro H; [discriminate|]. inversion H as [|? ? ? ? Hxy Hr]; subst. congruence.
Qed.

Lemma alookup_map_snd : forall {V W} (F : V -> W) k (kvs : list (str * V)),
  alookup k (map (fun kv => (fst kv, F (snd kv))) kvs) = option_map F (alookup k kvs).
Proof.
  intros V W F k. induction kvs as [|[k' v] kvs IH]; cbn [map alookup fst snd option_map]; [reflexivity|].
  destruct (str_eqb k k'); [reflexivity | exact IH].
Qed.

Lemma alookup_In_NoDup : forall {V} (l : list (str * V)) k v,
  NoDup (map fst l) -> In (k, v) l -> alookup k l = Some v.
Proof.
  induction l as [|[k' v'] l IH]; intros k v Hnd Hin; [destruct Hin|].
  cbn [alookup]. cbn [map fst] in Hnd. inversion Hnd as [|? ? Hni Hnd']; subst.
  destruct Hin as [Heq | Hin].
  - inversion Heq; subst. rewrite str_eqb_refl. reflexivity.
  - destruct (str_eqb k k') eqn:E.
    + apply str_eqb_eq in E. subst k'. exfalso. apply Hni. apply in_map_iff. exists (k, v). auto.
    + apply IH; assumption.
Qed.

Lemma alookup_notin : forall {V} (l : list (str * V)) k, ~ In k (map fst l) -> alookup k l = None.
Proof.
  induction l as [|[k' v'] l IH]; intros k Hni; [reflexivity|].
  cbn [alookup]. cbn [map fst In] in Hni.
  destruct (str_eqb k k') eqn:E.
  - apply str_eqb_eq in E. subst. exfalso. apply Hni. left. reflexivity.
  - apply IH. intro H. apply Hni. right. exact H.
Qed.

Lemma aset_notin : forall {V} (d : list (str * V)) k v, ~ In k (map fst d) -> aset d k v = d ++ [(k, v)].
Proof.
  induction d as [|[k' v'] d IH]; intros k v Hni; [reflexivity|].
  cbn [aset]. cbn [map fst In] in Hni.
  destruct (str_eqb k k') eqn:E.
  - apply str_eqb_eq in E. subst. exfalso. apply Hni. left. reflexivity.
  - cbn [app]. f_equal. apply IH. intro H. apply Hni. right. exact H.
Qed.

Lemma aupdate_NoDup : forall {V} (e d : list (str * V)),
  NoDup (map fst (d ++ e)) -> aupdate d e = d ++ e.
Proof.
  intros V. unfold aupdate. induction e as [|[k v] e IH]; intros d Hnd; cbn [fold_left fst snd].
  - rewrite app_nil_r. reflexivity.
  - rewrite aset_notin.
    + rewrite IH; rewrite <- app_assoc; [reflexivity | exact Hnd].
    + rewrite map_app in Hnd. cbn [map fst] in Hnd. apply NoDup_remove_2 in Hnd.
      intro H. apply Hnd. apply in_or_app. left. exact H.
Qed.

Lemma dict_of_NoDup : forall {V} (l : list (str * V)), NoDup (map fst l) -> dict_of l = l.
Proof. intros V l H. unfold dict_of. rewrite aupdate_NoDup; [reflexivity | exact H]. Qed.

(* ---------- induction principles with the nested lists ---------- *)
Section ValueInd.
  Variable P : value -> Prop.
  Hypothesis HNone : P VNone.
  Hypothesis HBool : forall b, P (VBool b).
  Hypothesis HInt : forall z, P (VInt z).
  Hypothesis HFloat : forall z, P (VFloat z).
  Hypothesis HStr : forall s, P (VStr s).
  Hypothesis HBytes : forall b, P (VBytes b).
  Hypothesis HDt : forall s, P (VDatetime s).
  Hypothesis HDate : forall s, P (VDate s).
  Hypothesis HList : forall l, Forall P l -> P (VList l).
  Hypothesis HDict : forall kvs, Forall (fun kv => P (snd kv)) kvs -> P (VDict kvs).
  Hypothesis HData : forall c fs, Forall (fun kv => P (snd kv)) fs -> P (VData c fs).
  Hypothesis HWrap : forall kvs, Forall (fun kv => P (snd kv)) kvs -> P (VWrap kvs).
  Hypothesis HUuid : forall s, P (VUuid s).
  Hypothesis HTime : forall s, P (VTime s).
  Fixpoint value_ind' (v : value) : P v :=
    match v with
    | VNone => HNone | VBool b => HBool b | VInt z => HInt z | VFloat z => HFloat z | VStr s => HStr s
    | VBytes b => HBytes b | VDatetime s => HDt s | VDate s => HDate s | VUuid s => HUuid s | VTime s => HTime s
    | VList l => HList l ((fix go (l : list value) : Forall P l :=
                             match l with [] => Forall_nil _ | x :: r => Forall_cons _ (value_ind' x) (go r) end) l)
    | VDict kvs => HDict kvs ((fix go (l : list (str * value)) : Forall (fun kv => P (snd kv)) l :=
                             match l with [] => Forall_nil _ | x :: r => Forall_cons _ (value_ind' (snd x)) (go r) end) kvs)
    | VData c fs => HData c fs ((fix go (l : list (str * value)) : Forall (fun kv => P (snd kv)) l :=
                             match l with [] => Forall_nil _ | x :: r => Forall_cons _ (value_ind' (snd x)) (go r) end) fs)
    | VWrap kvs => HWrap kvs ((fix go (l : list (str * value)) : Forall (fun kv => P (snd kv)) l :=
                             match l with [] => Forall_nil _ | x :: r => Forall_cons _ (value_ind' (snd x)) (go r) end) kvs)
    end.
End ValueInd.

Section JsonInd.
  Variable P : json -> Prop.
  Hypothesis HNull : P JNull.
  Hypothesis HBool : forall b, P (JBool b).
  Hypothesis HInt : forall z, P (JInt z).
  Hypothesis HFloat : forall z, P (JFloat z).
  Hypothesis HStr : forall s, P (JStr s).
  Hypothesis HArr : forall l, Forall P l -> P (JArr l).
  Hypothesis HObj : forall kvs, Forall (fun kv => P (snd kv)) kvs -> P (JObj kvs).
  Fixpoint json_ind' (j : json) : P j :=
    match j with
    | JNull => HNull | JBool b => HBool b | JInt z => HInt z | JFloat z => HFloat z | JStr s => HStr s
    | JArr l => HArr l ((fix go (l : list json) : Forall P l :=
                           match l with [] => Forall_nil _ | x :: r => Forall_cons _ (json_ind' x) (go r) end) l)
    | JObj kvs => HObj kvs ((fix go (l : list (str * json)) : Forall (fun kv => P (snd kv)) l :=
                           match l with [] => Forall_nil _ | x :: r => Forall_cons _ (json_ind' (snd x)) (go r) end) kvs)
    end.
End JsonInd.

Lemma map_result_map : forall {A B C} (f : B -> result C) (g : A -> B) l,
  map_result f (map g l) = map_result (fun x => f (g x)) l.
Proof.
  intros A B C f g. induction l as [|x l IH]; [reflexivity|].
  cbn [map map_result]. fold (map_result f (map g l)). fold (map_result (fun x => f (g x)) l).
  rewrite IH. reflexivity.
Qed.

Lemma combine_fst_snd : forall {A B} (l : list (A * B)), combine (map fst l) (map snd l) = l.
Proof. induction l as [|[a b] l IH]; [reflexivity|]. cbn [map combine fst snd]. rewrite IH. reflexivity. Qed.

Lemma ty_ok_not_eager : forall T, ty_ok T = true -> eager_bad T = false.
Proof.
  induction T; cbn [ty_ok eager_bad]; intro H; try reflexivity; try discriminate; auto.
Qed.

(* ======================================================================================
   Round trips
   ====================================================================================== *)
Section RoundTrip.
  Variable b64dec : str -> option (list N).
  Variable b64enc : list N -> str.
  Variable dt_parse date_parse uuid_parse time_parse : str -> option str.
  Variable int_of_str float_of_str : str -> option Z.
  Variable str_of_json : json -> str.
  Variable ct : list cls.
  Variables sreg ureg : list N.

  (* assumed of the codecs: decoding an encoded byte string gives it back *)
  Hypothesis H_b64 : forall b, b64dec (b64enc b) = Some b.
  Hypothesis H_ct : ct_ok ct.
  (* the classes whose hooks are registered: any set closed under "a field of c mentions d" *)
  Variable R : N -> Prop.
  Hypothesis H_R : forall c k f d, R c -> lookup_cls ct c = Some k -> In f (c_fields k) ->
                                   In d (ty_classes (f_ty f)) -> R d.
  Hypothesis H_sreg : forall c k, R c -> lookup_cls ct c = Some k -> mem_N c sreg = true.
  Hypothesis H_ureg : forall c k, R c -> lookup_cls ct c = Some k -> mem_N c ureg = true.
  Definition inR (T : ty) : Prop := forall d, In d (ty_classes T) -> R d.

  Notation S := (structure b64dec dt_parse date_parse uuid_parse time_parse int_of_str float_of_str str_of_json ct sreg).
  Notation Sstr := (structure_str b64dec dt_parse date_parse uuid_parse time_parse int_of_str float_of_str ct sreg).
  Notation Snode := (structure_node b64dec dt_parse date_parse uuid_parse time_parse int_of_str float_of_str str_of_json ct sreg).
  Notation Snonopt := (structure_nonopt b64dec dt_parse date_parse uuid_parse time_parse int_of_str float_of_str str_of_json ct sreg).
  Notation U := (unstructure b64enc ct ureg).
  Notation Unode := (unstructure_node b64enc ct ureg).
  Notation Unonopt := (unstructure_nonopt b64enc ct ureg).
  Notation IOK := (inst_ok dt_parse date_parse uuid_parse time_parse ct).

  Definition ukl (v : value) : list (ty -> result json) :=
    match v with VList l => map U l | _ => [] end.
  Definition ukd (v : value) : list (str * (ty -> result json)) :=
    match v with
    | VDict kvs | VData _ kvs | VWrap kvs => map (fun kv => (fst kv, U (snd kv))) kvs
    | _ => []
    end.
  Lemma U_unfold : forall v T, U v T = Unode v (ukl v) (ukd v) T.
  Proof. destruct v; reflexivity. Qed.

  Definition skl (j : json) : list (ty -> result value) :=
    match j with JArr l => map S l | _ => [] end.
  Definition skd (j : json) : list (str * (ty -> result value)) :=
    match j with JObj kvs => map (fun kv => (fst kv, S (snd kv))) kvs | _ => [] end.
  Lemma S_unfold : forall j T,
    S j T = match j with JStr s => Sstr T s | _ => Snode j (skl j) (skd j) T end.
  Proof. destruct j; reflexivity. Qed.

  Definition is_opt (T : ty) : bool := match T with TOpt _ => true | _ => false end.

  (* the claim for one instance and one annotation *)
  Definition Q (v : value) (T : ty) : Prop :=
    exists j, U v T = Ok j /\ S j T = Ok v /\ (v <> VNone -> j <> JNull) /\
              (forall c, T = TData c -> exists kvs, j = JObj kvs).

  Lemma U_inject : forall j, U (inject j) TAny = Ok j.
  Proof.
    induction j using json_ind'; try reflexivity.
    - cbn [inject]. rewrite U_unfold. cbn [ukl ukd Unode Unonopt unstructure_node unstructure_nonopt].
      rewrite !map_result_map.
      assert (E : map_result (fun x => U (inject x) TAny) l = Ok l).
      { apply map_result_Forall2. induction H; constructor; auto. }
      rewrite E. reflexivity.
    - cbn [inject]. rewrite U_unfold. cbn [ukl ukd Unode Unonopt unstructure_node unstructure_nonopt].
      rewrite !map_result_map. cbn [fst snd].
      assert (E : map_result (fun x : str * json => bind (U (inject (snd x)) TAny) (fun j => Ok (fst x, j))) kvs = Ok kvs).
      { apply map_result_Forall2. induction H as [|[k v] r Hv Hr IH]; constructor; auto.
        cbn [fst snd] in *. rewrite Hv. reflexivity. }
      rewrite E. reflexivity.
  Qed.

  Lemma S_any : forall j, S j TAny = Ok (inject j).
  Proof. destruct j; reflexivity. Qed.

  Lemma Q_any : forall j, Q (inject j) TAny.
  Proof.
    intro j. exists j. split; [apply U_inject|]. split; [apply S_any|]. split.
    - intros Hv Hj. subst j. apply Hv. reflexivity.
    - intros c Hc. discriminate.
  Qed.

  Definition opt_arg_ok (X : ty) : bool :=
    match X with TOpt _ | TDict TAny | TAny => false | _ => true end.

  Lemma Q_opt : forall v X, v <> VNone -> opt_arg_ok X = true -> Q v X -> Q v (TOpt X).
  Proof.
    intros v X Hv HX [j [Hu [Hs [Hnn Hobj]]]].
    exists j. split; [|split; [|split]].
    - rewrite U_unfold in *.
      destruct X; try discriminate HX; destruct v; try (exfalso; apply Hv; reflexivity);
        cbn [unstructure_node strip_opt] in *; exact Hu.
    - specialize (Hnn Hv). rewrite S_unfold in *.
      destruct X as [| | | | | | | | | |X0|X0|X0|c|vals|c|X0]; try discriminate HX.
      all: try (destruct j; try (exfalso; apply Hnn; reflexivity);
                cbn [structure_node structure_str strip_opt] in *; exact Hs).
      + (* TDict *) destruct X0; try discriminate HX;
          destruct j; try (exfalso; apply Hnn; reflexivity);
          cbn [structure_node structure_str strip_opt] in *; exact Hs.
      + (* TData *) destruct (Hobj c eq_refl) as [kvs ->].
        cbn [structure_node structure_nonopt strip_opt] in *. exact Hs.
    - exact Hnn.
    - intros c Hc. discriminate.
  Qed.

  Lemma lift_opt : forall v,
    (forall T, is_opt T = false -> ty_ok T = true -> inR T -> IOK T v -> Q v T) ->
    forall T, ty_ok T = true -> inR T -> IOK T v -> Q v T.
  Proof.
    intros v Hno T Hok HR Hi.
    destruct T; try (apply Hno; [reflexivity | exact Hok | exact HR | exact Hi]).
    cbn [ty_ok] in Hok. apply andb_true_iff in Hok as [Hok1 Hok2].
    inversion Hi; subst.
    - exists JNull. split; [reflexivity|]. split; [reflexivity|]. split.
      + intro H. exfalso. apply H. reflexivity.
      + intros c Hc. discriminate.
    - apply Q_opt; [assumption | destruct T; try reflexivity; try discriminate Hok2;
                                  destruct T; try reflexivity; discriminate Hok2 |].
      apply Hno; [destruct T; try reflexivity; discriminate Hok2 | exact Hok1 | exact HR | assumption].
  Qed.

  Lemma map_result_cons : forall {A B} (f : A -> result B) x l,
    map_result f (x :: l) = match f x, map_result f l with Ok y, Ok ys => Ok (y :: ys) | _, _ => Err end.
  Proof. reflexivity. Qed.

  Lemma map_result_pointwise : forall {A B} (f : A -> result B) (g : A -> B) l,
    (forall x, In x l -> f x = Ok (g x)) -> map_result f l = Ok (map g l).
  Proof.
    intros A B f g. induction l as [|x l IH]; intro H; [reflexivity|].
    rewrite map_result_cons, (H x (or_introl eq_refl)), IH; [reflexivity|].
    intros y Hy. apply H. right. exact Hy.
  Qed.

  Lemma list_rt : forall X l, Forall (fun x => Q x X) l ->
    exists l', map_result (fun x => U x X) l = Ok l' /\ map_result (fun j => S j X) l' = Ok l.
  Proof.
    intros X l H. induction H as [|x l [j [Hu [Hs _]]] _ [l' [E1 E2]]].
    - exists []. split; reflexivity.
    - exists (j :: l'). rewrite !map_result_cons, Hu, Hs, E1, E2. split; reflexivity.
  Qed.

  Lemma dict_rt : forall X kvs, Forall (fun kv => Q (snd kv) X) kvs ->
    exists kvs', map_result (fun kv : str * value => bind (U (snd kv) X) (fun j => Ok (fst kv, j))) kvs = Ok kvs' /\
                 map_result (fun kv : str * json => bind (S (snd kv) X) (fun v => Ok (fst kv, v))) kvs' = Ok kvs.
  Proof.
    intros X kvs H. induction H as [|[k x] l [j [Hu [Hs _]]] _ [l' [E1 E2]]].
    - exists []. split; reflexivity.
    - exists ((k, j) :: l'). cbn [fst snd] in *.
      rewrite !map_result_cons. cbn [fst snd]. rewrite Hu, Hs, E1, E2. split; reflexivity.
  Qed.

  Lemma Forall2_fields : forall (Rel : field -> str * value -> Prop) fields fs,
    Forall2 Rel fields fs -> map fst fs = map f_name fields ->
    forall f, In f fields -> exists kv, In kv fs /\ fst kv = f_name f /\ Rel f kv.
  Proof.
    intros Rel fields fs H. induction H as [|f kv fields fs HR _ IH]; intros Hm g Hg; [destruct Hg|].
    cbn [map] in Hm. inversion Hm as [[Hh Ht]]. destruct Hg as [-> | Hg].
    - exists kv. split; [left; reflexivity | split; assumption].
    - destruct (IH Ht g Hg) as [kv' [Hin [Hn Hr]]]. exists kv'. split; [right; exact Hin | split; assumption].
  Qed.

  Lemma data_rt : forall c k fs, R c ->
    lookup_cls ct c = Some k -> map fst fs = map f_name (c_fields k) ->
    Forall2 (fun f kv => Q (snd kv) (f_ty f)) (c_fields k) fs -> Q (VData c fs) (TData c).
  Proof.
    intros c k fs HRc Hk Hnames HQ.
    destruct (H_ct c k Hk) as [_ [[Hnd_n [Hnd_w Hdump]] [Htyok _]]].
    assert (Hnd_fs : NoDup (map fst fs)) by (rewrite Hnames; exact Hnd_n).
    assert (Hpt : forall f, In f (c_fields k) -> exists v, alookup (f_name f) fs = Some v /\ Q v (f_ty f)).
    { intros f Hf. destruct (Forall2_fields _ _ _ HQ Hnames f Hf) as [[n v] [Hin [Hn Hq]]].
      cbn [fst snd] in *. subst n. exists v. split; [apply alookup_In_NoDup; assumption | exact Hq]. }
    pose (vf := fun f : field => match alookup (f_name f) fs with Some v => v | None => VNone end).
    pose (jf := fun f : field => match U (vf f) (f_ty f) with Ok j => j | Err => JNull end).
    assert (HU : forall f, In f (c_fields k) -> U (vf f) (f_ty f) = Ok (jf f) /\ S (jf f) (f_ty f) = Ok (vf f)).
    { intros f Hf. destruct (Hpt f Hf) as [v [Hl [j [Hu [Hs _]]]]].
      unfold jf, vf. rewrite Hl, Hu. split; [reflexivity | exact Hs]. }
    pose (kvs' := map (fun f => (wire k f, jf f)) (c_fields k)).
    assert (Hnd' : NoDup (map fst kvs')).
    { unfold kvs'. rewrite map_map. cbn [fst]. exact Hnd_w. }
    exists (JObj kvs'). split; [|split; [|split]].
    - rewrite U_unfold. cbn [ukl ukd unstructure_node unstructure_nonopt]. rewrite N.eqb_refl.
      unfold unstructure_data. rewrite Hk, (H_ureg c k HRc Hk).
      rewrite (map_result_pointwise _ (fun f => (wire k f, jf f))).
      + cbn [bind]. fold kvs'. rewrite dict_of_NoDup by exact Hnd'. reflexivity.
      + intros f Hf. rewrite alookup_map_snd. destruct (Hpt f Hf) as [v [Hl _]].
        destruct (HU f Hf) as [Hu _]. unfold vf in Hu. rewrite Hl in *. cbn [option_map].
        rewrite Hu. cbn [bind]. rewrite (Hdump f Hf). reflexivity.
    - rewrite S_unfold. cbn [skl skd structure_node structure_nonopt]. unfold structure_data.
      rewrite Hk, (H_sreg c k HRc Hk).
      assert (Heb : existsb (fun f => eager_bad (f_ty f)) (c_fields k) = false).
      { apply not_true_is_false. intro He. apply existsb_exists in He as [f [Hf He]].
        rewrite (ty_ok_not_eager _ (Htyok f Hf)) in He. discriminate. }
      rewrite Heb. unfold pack_fields.
      rewrite (map_result_pointwise _ vf).
      + cbn [bind]. f_equal. f_equal.
        replace (map vf (c_fields k)) with (map snd fs); [rewrite <- Hnames; apply combine_fst_snd|].
        unfold vf.
        transitivity (map (fun kv : str * value => match alookup (fst kv) fs with Some v => v | None => VNone end) fs).
        * apply map_ext_in. intros [n v] Hin. cbn [fst snd].
          rewrite (alookup_In_NoDup fs n v Hnd_fs Hin). reflexivity.
        * rewrite <- (map_map fst (fun n => match alookup n fs with Some v => v | None => VNone end)).
          rewrite Hnames, map_map. reflexivity.
      + intros f Hf. rewrite alookup_map_snd.
        assert (Hl : alookup (wire k f) kvs' = Some (jf f)).
        { apply alookup_In_NoDup; [exact Hnd'|]. unfold kvs'. apply in_map_iff. exists f. split; [reflexivity | exact Hf]. }
        unfold wire in Hl. rewrite Hl. cbn [option_map]. apply (HU f Hf).
    - intros _ Hc. discriminate.
    - intros c' _. exists kvs'. reflexivity.
  Qed.

  Ltac by_any :=
    match goal with
    | H : inject _ = _ |- _ => rewrite <- H; apply Q_any
    | H : _ = inject _ |- _ => rewrite H; apply Q_any
    end.
  Ltac leaf j :=
    exists j; split; [reflexivity|]; split; [try reflexivity|]; [..|split; [intros _ ?; discriminate | intros ? ?; discriminate]].

  (* encode then decode: every conforming instance is encoded, and decoding the result gives the
     instance back *)
  Theorem encode_decode_core : forall v T, ty_ok T = true -> inR T -> IOK T v -> Q v T.
  Proof.
    induction v using value_ind'; apply lift_opt; intros T Hno Hok HR Hi;
      inversion Hi; subst; try discriminate Hno; try apply Q_any;
      try (match goal with
           | H : inject ?j = VWrap _ |- _ => destruct j; discriminate H
           | H : VWrap _ = inject ?j |- _ => destruct j; discriminate H
           end).
    - leaf (JBool b).
    - leaf (JInt z).
    - leaf (JFloat z).
    - leaf (JStr s).
    - leaf (JStr s). cbn [structure structure_str].
      match goal with H : mem_str s _ = true |- _ => rewrite H end. reflexivity.
    - leaf (JStr (b64enc b)). cbn [structure structure_str]. rewrite H_b64. reflexivity.
    - leaf (JStr s). cbn [structure structure_str]. unfold structure_datetime.
      match goal with H : replace_Z s = s |- _ => rewrite H end.
      match goal with H : dt_parse s = Some s |- _ => rewrite H end. reflexivity.
    - leaf (JStr s). cbn [structure structure_str].
      match goal with H : date_parse s = Some s |- _ => rewrite H end. reflexivity.
    - (* list *)
      cbn [ty_ok] in Hok.
      assert (HQ : Forall (fun x => Q x X) l).
      { rewrite Forall_forall in *. intros x Hx. apply H; [exact Hx | exact Hok | exact HR | auto]. }
      destruct (list_rt X l HQ) as [l' [E1 E2]].
      exists (JArr l'). split; [|split; [|split]].
      + rewrite U_unfold. cbn [ukl ukd unstructure_node unstructure_nonopt].
        rewrite map_result_map, E1. reflexivity.
      + rewrite S_unfold. cbn [skl skd structure_node structure_nonopt].
        rewrite (ty_ok_not_eager _ Hok), map_result_map, E2. reflexivity.
      + intros _ ?. discriminate.
      + intros ? ?. discriminate.
    - (* dict *)
      cbn [ty_ok] in Hok.
      assert (HQ : Forall (fun kv => Q (snd kv) X) kvs).
      { rewrite Forall_forall in *. intros x Hx. apply H; [exact Hx | exact Hok | exact HR | auto]. }
      destruct (dict_rt X kvs HQ) as [kvs' [E1 E2]].
      exists (JObj kvs'). split; [|split; [|split]].
      + rewrite U_unfold. cbn [ukl ukd unstructure_node unstructure_nonopt].
        rewrite map_result_map. cbn [fst snd]. rewrite E1. reflexivity.
      + rewrite S_unfold. cbn [skl skd structure_node structure_nonopt].
        rewrite (ty_ok_not_eager _ Hok), map_result_map. cbn [fst snd]. rewrite E2. reflexivity.
      + intros _ ?. discriminate.
      + intros ? ?. discriminate.
    - (* dataclass *)
      match goal with Hk : lookup_cls ct c = Some ?k |- _ =>
        apply (data_rt c k fs (HR c (or_introl eq_refl)) Hk); [assumption|];
        destruct (H_ct c k Hk) as [_ [_ [Htyok _]]];
        assert (HRf : forall g, In g (c_fields k) -> inR (f_ty g))
          by (intros g Hg d Hd; exact (H_R c k g d (HR c (or_introl eq_refl)) Hk Hg Hd)) end.
      match goal with HF : Forall2 _ (c_fields ?k) fs |- _ =>
        clear - H HF Htyok HRf; induction HF as [|f kv fields fs' Hfk _ IH]; constructor end.
      + inversion H; subst. apply H2; [apply Htyok; left; reflexivity | apply HRf; left; reflexivity | exact Hfk].
      + inversion H; subst. apply IH; try assumption; intros g Hg; first [apply Htyok | apply HRf]; right; exact Hg.
    - leaf (JStr s). cbn [structure structure_str].
      match goal with H : uuid_parse s = Some s |- _ => rewrite H end. reflexivity.
    - leaf (JStr s). cbn [structure structure_str].
      match goal with H : time_parse s = Some s |- _ => rewrite H end. reflexivity.
  Qed.
  (* ======================================================================================
     decode -> encode
     ====================================================================================== *)
  Hypothesis H_def : defaults_ok ct.
  Notation CONF := (conforms b64enc dt_parse date_parse uuid_parse time_parse ct).
  Notation REL := (rt_rel ct).

  Lemma S_opt : forall j X v, j <> JNull -> opt_arg_ok X = true ->
    (forall c, X = TData c -> exists kvs, j = JObj kvs) -> S j X = Ok v -> S j (TOpt X) = Ok v.
  Proof.
    intros j X v Hnn HX Hobj Hs. rewrite S_unfold in *.
    destruct X as [| | | | | | | | | |X0|X0|X0|c|vals|c|X0]; try discriminate HX.
    all: try (destruct j; try (exfalso; apply Hnn; reflexivity);
              cbn [structure_node structure_str strip_opt] in *; exact Hs).
    - destruct X0; try discriminate HX;
        destruct j; try (exfalso; apply Hnn; reflexivity);
        cbn [structure_node structure_str strip_opt] in *; exact Hs.
    - destruct (Hobj c eq_refl) as [kvs ->].
      cbn [structure_node structure_nonopt strip_opt] in *. exact Hs.
  Qed.

  Lemma U_opt : forall v X j', v <> VNone -> opt_arg_ok X = true -> U v X = Ok j' -> U v (TOpt X) = Ok j'.
  Proof.
    intros v X j' Hv HX Hu. rewrite U_unfold in *.
    destruct X; try discriminate HX; destruct v; try (exfalso; apply Hv; reflexivity);
      cbn [unstructure_node strip_opt] in *; exact Hu.
  Qed.

  (* the claim for one document and one annotation *)
  Definition D (j : json) (T : ty) : Prop :=
    exists v j', S j T = Ok v /\ U v T = Ok j' /\ REL T j j' /\ (j <> JNull -> v <> VNone).

  Lemma D_any : forall j, D j TAny.
  Proof.
    intro j. exists (inject j), j. split; [apply S_any|]. split; [apply U_inject|]. split.
    - apply R_leaf. reflexivity.
    - intros Hj Hv. destruct j; try discriminate Hv. apply Hj. reflexivity.
  Qed.

  Lemma conforms_data_obj : forall c j, CONF (TData c) j -> exists kvs, j = JObj kvs.
  Proof. intros c j H. inversion H; subst. eexists. reflexivity. Qed.

  Lemma D_lift : forall j,
    (forall T, is_opt T = false -> ty_ok T = true -> inR T -> CONF T j -> D j T) ->
    forall T, ty_ok T = true -> inR T -> CONF T j -> D j T.
  Proof.
    intros j Hno T Hok HR Hc.
    destruct T; try (apply Hno; [reflexivity | exact Hok | exact HR | exact Hc]).
    cbn [ty_ok] in Hok. apply andb_true_iff in Hok as [Hok1 Hok2].
    assert (HX : opt_arg_ok T = true).
    { destruct T; try reflexivity; try discriminate Hok2. destruct T; try reflexivity; discriminate Hok2. }
    inversion Hc; subst.
    - exists VNone, JNull. split; [reflexivity|]. split; [reflexivity|]. split; [apply R_null|].
      intro H. exfalso. apply H. reflexivity.
    - destruct (Hno T) as [v [j' [Hs [Hu [Hr Hn]]]]];
        [destruct T; try reflexivity; discriminate Hok2 | exact Hok1 | exact HR | assumption |].
      exists v, j'. split; [|split; [|split]].
      + apply S_opt; try assumption. intros c ->. eapply conforms_data_obj. eassumption.
      + apply U_opt; auto.
      + apply R_some. exact Hr.
      + exact Hn.
  Qed.

  Lemma list_de : forall X l, Forall (fun x => D x X) l ->
    exists vs l', map_result (fun j => S j X) l = Ok vs /\ map_result (fun v => U v X) vs = Ok l' /\
                  Forall2 (REL X) l l'.
  Proof.
    intros X l H. induction H as [|x l [v [j' [Hs [Hu [Hr _]]]]] _ [vs [l' [E1 [E2 F]]]]].
    - exists [], []. repeat split; constructor.
    - exists (v :: vs), (j' :: l'). rewrite !map_result_cons, Hs, Hu, E1, E2.
      repeat split. constructor; assumption.
  Qed.

  Lemma dict_de : forall X kvs, Forall (fun kv => D (snd kv) X) kvs ->
    exists vs kvs',
      map_result (fun kv : str * json => bind (S (snd kv) X) (fun v => Ok (fst kv, v))) kvs = Ok vs /\
      map_result (fun kv : str * value => bind (U (snd kv) X) (fun j => Ok (fst kv, j))) vs = Ok kvs' /\
      Forall2 (fun a b => fst a = fst b /\ REL X (snd a) (snd b)) kvs kvs'.
  Proof.
    intros X kvs H. induction H as [|[k x] l [v [j' [Hs [Hu [Hr _]]]]] _ [vs [l' [E1 [E2 F]]]]].
    - exists [], []. repeat split; constructor.
    - exists ((k, v) :: vs), ((k, j') :: l'). cbn [fst snd] in *.
      rewrite !map_result_cons. cbn [fst snd]. rewrite Hs. cbn [bind]. rewrite E1.
      cbn [fst snd]. rewrite Hu. cbn [bind]. rewrite E2.
      repeat split. constructor; [split; [reflexivity | exact Hr] | exact F].
  Qed.

  Lemma default_unstructure : forall T d, default_shape T d -> exists jd, U d T = Ok jd /\ empty_json jd.
  Proof.
    intros T d [[-> [X ->]] | [[-> [X [-> | ->]]] | [-> [X [-> | ->]]]]].
    - exists JNull. split; [reflexivity | left; reflexivity].
    - exists (JArr []). split; [reflexivity | right; left; reflexivity].
    - exists (JArr []). split; [reflexivity | right; left; reflexivity].
    - exists (JObj []). split; [reflexivity | right; right; reflexivity].
    - exists (JObj []). split; [reflexivity | right; right; reflexivity].
  Qed.

  Lemma NoDup_map_inj_in : forall {A B} (f : A -> B) (l : list A) x y,
    NoDup (map f l) -> In x l -> In y l -> f x = f y -> x = y.
  Proof.
    intros A B f. induction l as [|a l IH]; intros x y Hnd Hx Hy E; [destruct Hx|].
    cbn [map] in Hnd. inversion Hnd as [|? ? Hni Hnd']; subst.
    destruct Hx as [-> | Hx], Hy as [-> | Hy]; auto.
    - exfalso. apply Hni. rewrite E. apply in_map. exact Hy.
    - exfalso. apply Hni. rewrite <- E. apply in_map. exact Hx.
  Qed.

  Lemma alookup_Some_In : forall {V} (l : list (str * V)) k v, alookup k l = Some v -> In (k, v) l.
  Proof.
    induction l as [|[k' v'] l IH]; intros k v H; [discriminate|]. cbn [alookup] in H.
    destruct (str_eqb k k') eqn:E.
    - apply str_eqb_eq in E. inversion H; subst. left. reflexivity.
    - right. apply IH. exact H.
  Qed.

  Lemma alookup_None_notin : forall {V} (l : list (str * V)) k, alookup k l = None -> ~ In k (map fst l).
  Proof.
    induction l as [|[k' v'] l IH]; intros k H Hin; [destruct Hin|]. cbn [alookup] in H.
    destruct (str_eqb k k') eqn:E; [discriminate|].
    destruct Hin as [Hk | Hin]; [cbn [fst] in Hk; subst; rewrite str_eqb_refl in E; discriminate|].
    exact (IH k H Hin).
  Qed.

  Lemma in_combine_map : forall {A B C} (f : A -> B) (g : A -> C) l x,
    In x l -> In (f x, g x) (combine (map f l) (map g l)).
  Proof.
    intros A B C f g. induction l as [|a l IH]; intros x Hx; [destruct Hx|].
    cbn [map combine]. destruct Hx as [-> | Hx]; [left; reflexivity | right; apply IH; exact Hx].
  Qed.

  Lemma map_fst_combine_map : forall {A B C} (f : A -> B) (g : A -> C) l,
    map fst (combine (map f l) (map g l)) = map f l.
  Proof. intros A B C f g. induction l as [|a l IH]; [reflexivity|]. cbn [map combine fst]. rewrite IH. reflexivity. Qed.

  Lemma data_de : forall c k kvs, R c ->
    lookup_cls ct c = Some k -> NoDup (map fst kvs) ->
    (forall key v, In (key, v) kvs -> exists f, In f (c_fields k) /\ wire k f = key /\ D v (f_ty f)) ->
    (forall f, In f (c_fields k) -> f_default f = None -> In (wire k f) (map fst kvs)) ->
    D (JObj kvs) (TData c).
  Proof.
    intros c k kvs HRc Hk Hnd Hkeys Hreq.
    destruct (H_ct c k Hk) as [_ [[Hnd_n [Hnd_w Hdump]] [Htyok _]]].
    pose (vf := fun f : field =>
            match alookup (wire k f) kvs with
            | Some jv => match S jv (f_ty f) with Ok v => v | Err => VNone end
            | None => match f_default f with Some d => d | None => VNone end
            end).
    pose (jf := fun f : field => match U (vf f) (f_ty f) with Ok j => j | Err => JNull end).
    (* per field: what is structured, what is written back, how they relate *)
    assert (Hpt : forall f, In f (c_fields k) ->
              (match alookup (wire k f) kvs with
               | Some jv => S jv (f_ty f) = Ok (vf f)
               | None => default_or_err f = Ok (vf f)
               end) /\
              U (vf f) (f_ty f) = Ok (jf f) /\
              ((exists jv, alookup (wire k f) kvs = Some jv /\ REL (f_ty f) jv (jf f)) \/
               (alookup (wire k f) kvs = None /\ empty_json (jf f)))).
    { intros f Hf. unfold jf, vf.
      destruct (alookup (wire k f) kvs) as [jv|] eqn:El.
      - apply alookup_Some_In in El as Hin.
        destruct (Hkeys _ _ Hin) as [f' [Hf' [Hw Dv]]].
        assert (f' = f) by (apply (NoDup_map_inj_in (wire k) (c_fields k)); assumption). subst f'.
        destruct Dv as [v [j' [Hs [Hu [Hr _]]]]]. rewrite Hs, Hu.
        split; [reflexivity|]. split; [reflexivity|]. left. exists jv. split; [reflexivity | exact Hr].
      - destruct (f_default f) as [d|] eqn:Ed.
        + destruct (default_unstructure (f_ty f) d (H_def c k f d Hk Hf Ed)) as [jd [Hu He]].
          rewrite Hu. unfold default_or_err. rewrite Ed.
          split; [reflexivity|]. split; [reflexivity|]. right. split; [reflexivity | exact He].
        + exfalso. apply (alookup_None_notin kvs _ El). apply Hreq; assumption. }
    pose (names := map f_name (c_fields k)).
    pose (fs := combine names (map vf (c_fields k))).
    pose (kvs' := map (fun f => (wire k f, jf f)) (c_fields k)).
    assert (Hnd' : NoDup (map fst kvs')) by (unfold kvs'; rewrite map_map; cbn [fst]; exact Hnd_w).
    assert (Hfs_names : map fst fs = names) by (unfold fs, names; apply map_fst_combine_map).
    exists (VData c fs), (JObj kvs'). split; [|split; [|split]].
    - rewrite S_unfold. cbn [skl skd structure_node structure_nonopt]. unfold structure_data.
      rewrite Hk, (H_sreg c k HRc Hk).
      assert (Heb : existsb (fun f => eager_bad (f_ty f)) (c_fields k) = false).
      { apply not_true_is_false. intro He. apply existsb_exists in He as [f [Hf He]].
        rewrite (ty_ok_not_eager _ (Htyok f Hf)) in He. discriminate. }
      rewrite Heb. unfold pack_fields.
      rewrite (map_result_pointwise _ vf); [reflexivity|].
      intros f Hf. rewrite alookup_map_snd. destruct (Hpt f Hf) as [H1 _]. unfold wire in H1.
      destruct (alookup (load_key k true (f_name f)) kvs); cbn [option_map]; exact H1.
    - rewrite U_unfold. cbn [ukl ukd unstructure_node unstructure_nonopt]. rewrite N.eqb_refl.
      unfold unstructure_data. rewrite Hk, (H_ureg c k HRc Hk).
      rewrite (map_result_pointwise _ (fun f => (wire k f, jf f))).
      + cbn [bind]. fold kvs'. rewrite dict_of_NoDup by exact Hnd'. reflexivity.
      + intros f Hf. rewrite alookup_map_snd.
        rewrite (alookup_In_NoDup fs (f_name f) (vf f)).
        * cbn [option_map]. destruct (Hpt f Hf) as [_ [Hu _]]. rewrite Hu. cbn [bind].
          rewrite (Hdump f Hf). reflexivity.
        * rewrite Hfs_names. exact Hnd_n.
        * unfold fs, names. apply in_combine_map. exact Hf.
    - apply (R_data ct c k kvs kvs' Hk).
      + unfold kvs'. rewrite map_map. reflexivity.
      + intros f j' Hf Hl.
        assert (Hj : alookup (wire k f) kvs' = Some (jf f)).
        { apply alookup_In_NoDup; [exact Hnd'|]. unfold kvs'. apply in_map_iff. exists f. auto. }
        rewrite Hj in Hl. inversion Hl; subst j'. apply (Hpt f Hf).
    - intros _ Hv. discriminate.
  Qed.

  (* decode then encode: every conforming document is decoded, and encoding the instance gives the
     document back (keys in class order, absent optional keys as null / empty container) *)
  Theorem decode_encode_core : forall j T, ty_ok T = true -> inR T -> CONF T j -> D j T.
  Proof.
    induction j using json_ind'; apply D_lift; intros T Hno Hok HR Hc;
      inversion Hc; subst; try discriminate Hno; try apply D_any.
    all: try (eexists _, _; split; [reflexivity|]; split; [reflexivity|];
              split; [apply R_leaf; reflexivity | intros _ ?; discriminate]).
    - (* bytes *) exists (VBytes b), (JStr (b64enc b)). split.
      { cbn [structure structure_str]. rewrite H_b64. reflexivity. }
      split; [reflexivity|]. split; [apply R_leaf; reflexivity | intros _ ?; discriminate].
    - (* datetime *) exists (VDatetime s), (JStr s). split.
      { cbn [structure structure_str]. unfold structure_datetime.
        match goal with H : replace_Z s = s |- _ => rewrite H end.
        match goal with H : dt_parse s = Some s |- _ => rewrite H end. reflexivity. }
      split; [reflexivity|]. split; [apply R_leaf; reflexivity | intros _ ?; discriminate].
    - (* date *) exists (VDate s), (JStr s). split.
      { cbn [structure structure_str]. match goal with H : date_parse s = Some s |- _ => rewrite H end. reflexivity. }
      split; [reflexivity|]. split; [apply R_leaf; reflexivity | intros _ ?; discriminate].
    - (* uuid *) exists (VUuid s), (JStr s). split.
      { cbn [structure structure_str]. match goal with H : uuid_parse s = Some s |- _ => rewrite H end. reflexivity. }
      split; [reflexivity|]. split; [apply R_leaf; reflexivity | intros _ ?; discriminate].
    - (* time *) exists (VTime s), (JStr s). split.
      { cbn [structure structure_str]. match goal with H : time_parse s = Some s |- _ => rewrite H end. reflexivity. }
      split; [reflexivity|]. split; [apply R_leaf; reflexivity | intros _ ?; discriminate].
    - (* enum *) exists (VStr s), (JStr s). split.
      { cbn [structure structure_str]. match goal with H : mem_str s _ = true |- _ => rewrite H end. reflexivity. }
      split; [reflexivity|]. split; [apply R_leaf; reflexivity | intros _ ?; discriminate].
    - (* list *)
      cbn [ty_ok] in Hok.
      assert (HD : Forall (fun x => D x X) l).
      { rewrite Forall_forall in *. intros x Hx. apply H; [exact Hx | exact Hok | exact HR | auto]. }
      destruct (list_de X l HD) as [vs [l' [E1 [E2 F]]]].
      exists (VList vs), (JArr l'). split; [|split; [|split]].
      + rewrite S_unfold. cbn [skl skd structure_node structure_nonopt].
        rewrite (ty_ok_not_eager _ Hok), map_result_map, E1. reflexivity.
      + rewrite U_unfold. cbn [ukl ukd unstructure_node unstructure_nonopt].
        rewrite map_result_map, E2. reflexivity.
      + apply R_list. exact F.
      + intros _ ?. discriminate.
    - (* dict *)
      cbn [ty_ok] in Hok.
      assert (HD : Forall (fun kv => D (snd kv) X) kvs).
      { rewrite Forall_forall in *. intros x Hx. apply H; [exact Hx | exact Hok | exact HR | auto]. }
      destruct (dict_de X kvs HD) as [vs [kvs' [E1 [E2 F]]]].
      exists (VDict vs), (JObj kvs'). split; [|split; [|split]].
      + rewrite S_unfold. cbn [skl skd structure_node structure_nonopt].
        rewrite (ty_ok_not_eager _ Hok), map_result_map. cbn [fst snd]. rewrite E1. reflexivity.
      + rewrite U_unfold. cbn [ukl ukd unstructure_node unstructure_nonopt].
        rewrite map_result_map. cbn [fst snd]. rewrite E2. reflexivity.
      + apply R_dict. exact F.
      + intros _ ?. discriminate.
    - (* dataclass *)
      match goal with Hk : lookup_cls ct c = Some ?k |- _ =>
        apply (data_de c k kvs (HR c (or_introl eq_refl)) Hk); try assumption;
        destruct (H_ct c k Hk) as [_ [_ [Htyok _]]];
        assert (HRf : forall g, In g (c_fields k) -> inR (f_ty g))
          by (intros g Hg d Hd; exact (H_R c k g d (HR c (or_introl eq_refl)) Hk Hg Hd)) end.
      intros key v Hin.
      match goal with Hkeys : forall key v, In (key, v) kvs -> _ |- _ =>
        destruct (Hkeys key v Hin) as [f [Hf [Hw Hcv]]] end.
      exists f. split; [exact Hf|]. split; [exact Hw|].
      rewrite Forall_forall in H. apply (H (key, v) Hin); [apply Htyok; exact Hf | apply HRf; exact Hf | exact Hcv].
  Qed.
End RoundTrip.

(* the all-classes-hooked instances (R = every class) *)
Lemma encode_decode_all :
  forall b64dec b64enc dt_parse date_parse uuid_parse time_parse int_of_str float_of_str str_of_json ct sreg ureg,
    (forall b, b64dec (b64enc b) = Some b) -> ct_ok ct -> all_hooked ct sreg -> all_hooked ct ureg ->
    forall v T, ty_ok T = true -> inst_ok dt_parse date_parse uuid_parse time_parse ct T v ->
    Q b64dec b64enc dt_parse date_parse uuid_parse time_parse int_of_str float_of_str str_of_json ct sreg ureg v T.
Proof.
  intros until ureg. intros Hb Hct Hs Hu v T Hok Hi.
  apply (encode_decode_core b64dec b64enc dt_parse date_parse uuid_parse time_parse int_of_str float_of_str
           str_of_json ct sreg ureg Hb Hct (fun _ => True)); auto.
  - intros c k _ Hk. exact (Hs c k Hk).
  - intros c k _ Hk. exact (Hu c k Hk).
  - intros d _. exact I.
Qed.

Lemma decode_encode_all :
  forall b64dec b64enc dt_parse date_parse uuid_parse time_parse int_of_str float_of_str str_of_json ct sreg ureg,
    (forall b, b64dec (b64enc b) = Some b) -> ct_ok ct -> all_hooked ct sreg -> all_hooked ct ureg -> defaults_ok ct ->
    forall j T, ty_ok T = true -> conforms b64enc dt_parse date_parse uuid_parse time_parse ct T j ->
    D b64dec b64enc dt_parse date_parse uuid_parse time_parse int_of_str float_of_str str_of_json ct sreg ureg j T.
Proof.
  intros until ureg. intros Hb Hct Hs Hu Hd j T Hok Hc.
  apply (decode_encode_core b64dec b64enc dt_parse date_parse uuid_parse time_parse int_of_str float_of_str
           str_of_json ct sreg ureg Hb Hct (fun _ => True)); auto.
  - intros c k _ Hk. exact (Hs c k Hk).
  - intros c k _ Hk. exact (Hu c k Hk).
  - intros d _. exact I.
Qed.

(* ---------- only ValueError leaves structure_from_dict (the shape of its try/except) ---------- *)
Lemma errors_only_ValueError :
  forall b64dec dt_parse date_parse uuid_parse time_parse int_of_str float_of_str str_of_json ct st T j,
    match snd (structure_from_dict b64dec dt_parse date_parse uuid_parse time_parse int_of_str float_of_str str_of_json ct st T j) with
    | Returned _ | ValueError => True
    | OtherError => False
    end.
Proof.
  intros. unfold structure_from_dict. cbn [snd].
  destruct (structure _ _ _ _ _ _ _ _ _ _); exact I.
Qed.

(* ---------- non-vacuity: a concrete table that meets every hypothesis of the round-trip theorem ---------- *)
Definition k_demo : cls :=
  {| c_id := 0;
     c_fields := [ {| f_name := [105;100;95]; f_ty := TInt; f_default := None |};                      (* id_ *)
                   {| f_name := [116;97;103;115]; f_ty := TOpt (TList TStr); f_default := Some VNone |}; (* tags *)
                   {| f_name := [114;97;119]; f_ty := TBytes; f_default := None |} ];                   (* raw *)
     c_load := Some [([105;100], [105;100;95]); ([84;97;103;115], [116;97;103;115])];                  (* id -> id_, Tags -> tags *)
     c_dump := Some [([105;100;95], [105;100]); ([116;97;103;115], [84;97;103;115])] |}.
Definition ct_demo : list cls := [k_demo].
Definition v_demo : value :=
  VData 0 [([105;100;95], VInt 7); ([116;97;103;115], VList [VStr [97]]); ([114;97;119], VBytes [1;2])].

Lemma ct_demo_ok : ct_ok ct_demo.
Proof.
  intros c k H. unfold lookup_cls, ct_demo in H. cbn [find] in H.
  destruct (c_id k_demo =? c) eqn:E; [|discriminate]. inversion H; subst k. clear H.
  apply N.eqb_eq in E. split; [exact E|].
  split; [|split].
  - split; [|split].
    + cbn. repeat constructor; cbn; intuition discriminate.
    + cbn. repeat constructor; cbn; intuition discriminate.
    + intros f Hf. cbn in Hf. destruct Hf as [<-|[<-|[<-|[]]]]; reflexivity.
  - intros f Hf. cbn in Hf. destruct Hf as [<-|[<-|[<-|[]]]]; reflexivity.
  - intros f c' Hf Hc. cbn in Hf. destruct Hf as [<-|[<-|[<-|[]]]]; destruct Hc.
Qed.

Lemma v_demo_ok : forall dt_parse date_parse uuid_parse time_parse, inst_ok dt_parse date_parse uuid_parse time_parse ct_demo (TData 0) v_demo.
Proof.
  intros. apply (I_data _ _ _ _ _ 0 k_demo); [reflexivity | reflexivity |].
  cbn [c_fields k_demo v_demo].
  constructor; [apply I_int|]. constructor; [|constructor; [apply I_bytes | constructor]].
  cbn [snd f_ty]. apply I_some; [discriminate|]. apply I_list. constructor; [apply I_str | constructor].
Qed.

Lemma ct_demo_defaults : defaults_ok ct_demo.
Proof.
  intros c k f d Hk Hf Hd. unfold lookup_cls, ct_demo in Hk. cbn [find] in Hk.
  destruct (c_id k_demo =? c); [|discriminate]. inversion Hk; subst k. clear Hk.
  cbn in Hf. destruct Hf as [<-|[<-|[<-|[]]]]; cbn in Hd; try discriminate.
  inversion Hd; subst d. left. split; [reflexivity | eexists; reflexivity].
Qed.

(* {"raw": <base64 of 01 02>, "id": 7} : the optional "Tags" key is absent *)
Definition j_demo (b64enc : list N -> str) : json :=
  JObj [([114;97;119], JStr (b64enc [1;2])); ([105;100], JInt 7)].
Lemma j_demo_conforms : forall b64enc dt_parse date_parse uuid_parse time_parse,
  conforms b64enc dt_parse date_parse uuid_parse time_parse ct_demo (TData 0) (j_demo b64enc).
Proof.
  intros. apply (C_data _ _ _ _ _ _ 0 k_demo); [reflexivity | | |].
  - cbn. repeat constructor; cbn; intuition discriminate.
  - intros key v [H | [H | []]]; inversion H; subst.
    + eexists. split; [right; right; left; reflexivity|]. split; [reflexivity | apply C_bytes].
    + eexists. split; [left; reflexivity|]. split; [reflexivity | apply C_int].
  - intros f Hf Hd. cbn in Hf. destruct Hf as [<-|[<-|[<-|[]]]]; cbn in Hd; try discriminate; cbn; auto.
Qed.

Lemma demo_hooked : all_hooked ct_demo [0].
Proof.
  intros c k H. unfold lookup_cls, ct_demo in H. cbn [find] in H.
  destruct (c_id k_demo =? c) eqn:E; [|discriminate]. apply N.eqb_eq in E. cbn in E. subst c. reflexivity.
Qed.

(* ======================================================================================
   Independence from the prior history: the result depends on the registry only through the
   classes reachable from the annotation, and the entry points register exactly those themselves
   ====================================================================================== *)
Lemma map_result_ext_in : forall {A B} (f g : A -> result B) l,
  (forall x, In x l -> f x = g x) -> map_result f l = map_result g l.
Proof.
  intros A B f g. induction l as [|x l IH]; intro H; [reflexivity|].
  rewrite !map_result_cons, (H x (or_introl eq_refl)), IH; [reflexivity|].
  intros y Hy. apply H. right. exact Hy.
Qed.

Lemma map_result_Forall2_ext : forall {A A' B} (f : A -> result B) (g : A' -> result B) l1 l2,
  Forall2 (fun a b => f a = g b) l1 l2 -> map_result f l1 = map_result g l2.
Proof.
  intros A A' B f g l1 l2 H. induction H as [|a b l1 l2 Hab _ IH]; [reflexivity|].
  rewrite !map_result_cons, Hab, IH. reflexivity.
Qed.

Lemma Forall2_weaken : forall {A B} (P Q : A -> B -> Prop) l1 l2,
  (forall a b, P a b -> Q a b) -> Forall2 P l1 l2 -> Forall2 Q l1 l2.
Proof. intros A B P Q l1 l2 H F. induction F; constructor; auto. Qed.

Lemma ty_classes_strip : forall T, ty_classes (strip_opt T) = ty_classes T.
Proof. induction T; cbn [strip_opt ty_classes]; auto. Qed.

Lemma mem_N_app : forall c a b, mem_N c (a ++ b) = mem_N c a || mem_N c b.
Proof. intros. unfold mem_N. apply existsb_app. Qed.

Lemma mem_N_In : forall c l, In c l -> mem_N c l = true.
Proof. intros c l H. unfold mem_N. apply existsb_exists. exists c. split; [exact H | apply N.eqb_refl]. Qed.

Section History.
  Variable b64dec : str -> option (list N).
  Variable b64enc : list N -> str.
  Variable dt_parse date_parse uuid_parse time_parse : str -> option str.
  Variable int_of_str float_of_str : str -> option Z.
  Variable str_of_json : json -> str.
  Variable ct : list cls.

  (* a set of classes closed under "a field of c mentions d" *)
  Variable R : N -> Prop.
  Hypothesis H_R : forall c k f d, R c -> lookup_cls ct c = Some k -> In f (c_fields k) ->
                                   In d (ty_classes (f_ty f)) -> R d.
  Definition inRh (T : ty) : Prop := forall d, In d (ty_classes T) -> R d.

  (* two registries that agree on it *)
  Definition reg_equiv (r1 r2 : list N) : Prop :=
    forall c k, R c -> lookup_cls ct c = Some k -> mem_N c r1 = mem_N c r2.

  Notation Sr r := (structure b64dec dt_parse date_parse uuid_parse time_parse int_of_str float_of_str str_of_json ct r).
  Notation Sstr r := (structure_str b64dec dt_parse date_parse uuid_parse time_parse int_of_str float_of_str ct r).
  Notation Ur r := (unstructure b64enc ct r).

  Lemma structure_str_equiv : forall r1 r2, reg_equiv r1 r2 -> forall T s, inRh T -> Sstr r1 T s = Sstr r2 T s.
  Proof.
    intros r1 r2 He. induction T; intros s HT; cbn [structure_str]; try reflexivity.
    - destruct (eager_bad T); [reflexivity|].
      f_equal. apply map_result_ext_in. intros c _. apply IHT. exact HT.
    - destruct T; try reflexivity; try (apply IHT; exact HT).
    - destruct (lookup_cls ct c) as [k|] eqn:Ek; [|reflexivity].
      rewrite (He c k (HT c (or_introl eq_refl)) Ek). reflexivity.
  Qed.

  Definition kid_equiv {A} (f g : ty -> result A) : Prop := forall T, inRh T -> f T = g T.
  Definition kd_equiv {A} (kd1 kd2 : list (str * (ty -> result A))) : Prop :=
    Forall2 (fun a b => fst a = fst b /\ kid_equiv (snd a) (snd b)) kd1 kd2.

  Lemma alookup_equiv : forall {A} (kd1 kd2 : list (str * (ty -> result A))) key,
    kd_equiv kd1 kd2 ->
    match alookup key kd1, alookup key kd2 with
    | Some f, Some g => kid_equiv f g
    | None, None => True
    | _, _ => False
    end.
  Proof.
    intros A kd1 kd2 key H. induction H as [|[k1 f] [k2 g] r1' r2' [Hk Hf] _ IH]; [exact I|].
    cbn [fst snd] in *. subst k2. cbn [alookup]. destruct (str_eqb key k1); [exact Hf | exact IH].
  Qed.

  Section Node.
    Variables r1 r2 : list N.
    Hypothesis He : reg_equiv r1 r2.
    Variable j : json.
    Variables kl1 kl2 : list (ty -> result value).
    Variables kd1 kd2 : list (str * (ty -> result value)).
    Hypothesis Hkl : Forall2 kid_equiv kl1 kl2.
    Hypothesis Hkd : kd_equiv kd1 kd2.

    Lemma data_equiv : forall c, R c -> structure_data ct r1 j kd1 c = structure_data ct r2 j kd2 c.
    Proof.
      intros c Hc. unfold structure_data.
      destruct (lookup_cls ct c) as [k|] eqn:Ek; [|reflexivity]. rewrite (He c k Hc Ek).
      destruct (existsb _ _); [reflexivity|].
      destruct j; try reflexivity.
      f_equal. apply map_result_ext_in. intros f Hf.
      pose proof (alookup_equiv kd1 kd2 (load_key k (mem_N c r2) (f_name f)) Hkd) as Ha.
      destruct (alookup _ kd1), (alookup _ kd2); try contradiction; [|reflexivity].
      apply Ha. intros d Hd. exact (H_R c k f d Hc Ek Hf Hd).
    Qed.

    Lemma nonopt_equiv : forall T, inRh T ->
      structure_nonopt b64dec dt_parse date_parse uuid_parse time_parse int_of_str float_of_str str_of_json ct r1 j kl1 kd1 T =
      structure_nonopt b64dec dt_parse date_parse uuid_parse time_parse int_of_str float_of_str str_of_json ct r2 j kl2 kd2 T.
    Proof.
      intros T HT. destruct T; cbn [structure_nonopt]; try reflexivity.
      - destruct (eager_bad T); [reflexivity|]. destruct j; try reflexivity.
        + f_equal. apply map_result_Forall2_ext. eapply Forall2_weaken; [|exact Hkl]. intros a b Hab. apply Hab. exact HT.
        + f_equal. apply map_result_Forall2_ext. eapply Forall2_weaken; [|exact Hkd].
          intros a b [Hk _]. rewrite Hk. apply structure_str_equiv; [exact He | exact HT].
      - destruct (eager_bad T); [reflexivity|]. destruct j; try reflexivity.
        f_equal. apply map_result_Forall2_ext. eapply Forall2_weaken; [|exact Hkd].
        intros a b [Hk Hf]. rewrite Hk, (Hf T HT). reflexivity.
      - apply data_equiv. apply HT. left. reflexivity.
      - destruct j; try reflexivity.
        f_equal. apply map_result_Forall2_ext. eapply Forall2_weaken; [|exact Hkd].
        intros a b [Hk Hf]. rewrite Hk, (Hf T HT). reflexivity.
    Qed.

    Lemma node_equiv : forall T, inRh T ->
      structure_node b64dec dt_parse date_parse uuid_parse time_parse int_of_str float_of_str str_of_json ct r1 j kl1 kd1 T =
      structure_node b64dec dt_parse date_parse uuid_parse time_parse int_of_str float_of_str str_of_json ct r2 j kl2 kd2 T.
    Proof.
      intros T HT. destruct T; cbn [structure_node]; try (apply nonopt_equiv; exact HT).
      assert (HS : inRh (strip_opt T)) by (unfold inRh; rewrite ty_classes_strip; exact HT).
      destruct j eqn:Ej; try reflexivity;
        destruct (strip_opt T) as [| | | | | | | | | |X|X|X|c|vals|c|X] eqn:Es; try reflexivity;
        try (rewrite <- Ej; apply nonopt_equiv; exact HS);
        try (rewrite <- Ej; apply data_equiv; apply HS; left; reflexivity);
        try (destruct X; try reflexivity; rewrite <- Ej; apply nonopt_equiv; exact HS).
    Qed.
  End Node.

  Lemma structure_equiv : forall r1 r2, reg_equiv r1 r2 -> forall j T, inRh T -> Sr r1 j T = Sr r2 j T.
  Proof.
    intros r1 r2 He. induction j using json_ind'; intros T HT; cbn [structure].
    1-4: apply (node_equiv r1 r2 He); [constructor | constructor | exact HT].
    - apply structure_str_equiv; assumption.
    - apply (node_equiv r1 r2 He); [|constructor | exact HT].
      induction H as [|x l Hx _ IH]; cbn [map]; constructor; [exact Hx | exact IH].
    - apply (node_equiv r1 r2 He); [constructor| | exact HT].
      induction H as [|[k v] l Hv _ IH]; cbn [map]; constructor; [|exact IH].
      cbn [fst snd]. split; [reflexivity | exact Hv].
  Qed.

  (* the encode side: the same for unstructure, on instances that conform to their annotation (no
     instance of an unrelated class hidden under Any — that is finding F16b) *)
  Hypothesis H_ct : ct_ok ct.
  Notation IOK := (inst_ok dt_parse date_parse uuid_parse time_parse ct).

  Lemma U_opt_eq : forall r v X, v <> VNone -> is_opt X = false -> Ur r v (TOpt X) = Ur r v X.
  Proof.
    intros r v X Hv HX. rewrite !U_unfold.
    destruct X; try discriminate HX; destruct v; try (exfalso; apply Hv; reflexivity); reflexivity.
  Qed.

  Lemma unstructure_equiv : forall r1 r2, reg_equiv r1 r2 -> forall v T, ty_ok T = true -> inRh T ->
    IOK T v -> Ur r1 v T = Ur r2 v T.
  Proof.
    intros r1 r2 He.
    assert (Hany : forall j, Ur r1 (inject j) TAny = Ur r2 (inject j) TAny)
      by (intro j; rewrite !U_inject; reflexivity).
    assert (Hlift : forall v,
              (forall T, is_opt T = false -> ty_ok T = true -> inRh T -> IOK T v -> Ur r1 v T = Ur r2 v T) ->
              forall T, ty_ok T = true -> inRh T -> IOK T v -> Ur r1 v T = Ur r2 v T).
    { intros v Hno T Hok HT Hi. destruct T; try (apply Hno; [reflexivity | exact Hok | exact HT | exact Hi]).
      cbn [ty_ok] in Hok. apply andb_true_iff in Hok as [Hok1 Hok2].
      assert (HX : is_opt T = false) by (destruct T; try reflexivity; discriminate Hok2).
      inversion Hi; subst; [reflexivity|].
      rewrite !U_opt_eq by assumption. apply Hno; assumption. }
    induction v using value_ind'; apply Hlift; intros T Hno Hok HT Hi;
      inversion Hi; subst; try discriminate Hno; try apply Hany; try reflexivity.
    - (* list *)
      cbn [ty_ok] in Hok. rewrite !U_unfold. cbn [ukl ukd unstructure_node unstructure_nonopt].
      rewrite !map_result_map. f_equal. apply map_result_ext_in. intros x Hx.
      rewrite Forall_forall in *. apply H; auto.
    - (* dict *)
      cbn [ty_ok] in Hok. rewrite !U_unfold. cbn [ukl ukd unstructure_node unstructure_nonopt].
      rewrite !map_result_map. cbn [fst snd]. f_equal. apply map_result_ext_in. intros x Hx.
      rewrite Forall_forall in *. rewrite (H x Hx X); auto.
    - (* dataclass *)
      match goal with Hk : lookup_cls ct c = Some ?k |- _ =>
        destruct (H_ct c k Hk) as [_ [[Hnd_n _] [Htyok _]]];
        assert (Hc : R c) by (apply HT; left; reflexivity);
        rewrite !U_unfold; cbn [ukl ukd unstructure_node unstructure_nonopt]; rewrite N.eqb_refl;
        unfold unstructure_data; rewrite Hk, (He c k Hc Hk) end.
      f_equal. apply map_result_ext_in. intros f Hf. rewrite !alookup_map_snd.
      match goal with HF : Forall2 _ (c_fields ?k) fs, Hm : map fst fs = _ |- _ =>
        destruct (Forall2_fields _ _ _ HF Hm f Hf) as [[n v] [Hin [Hn Hiv]]] end.
      cbn [fst snd] in *. subst n.
      rewrite (alookup_In_NoDup fs (f_name f) v);
        [|match goal with Hm : map fst fs = _ |- _ => rewrite Hm; exact Hnd_n end | exact Hin].
      cbn [option_map]. rewrite Forall_forall in H.
      pose proof (H (f_name f, v) Hin (f_ty f)) as Hx. cbn [snd] in Hx.
      rewrite Hx; [reflexivity | apply Htyok; exact Hf | | exact Hiv].
      intros d Hd. match goal with Hk : lookup_cls ct c = Some _ |- _ => exact (H_R c _ f d Hc Hk Hf Hd) end.
  Qed.
End History.

(* ---------- the two entry points, any prior state ---------- *)
Section Api.
  Variable b64dec : str -> option (list N).
  Variable b64enc : list N -> str.
  Variable dt_parse date_parse uuid_parse time_parse : str -> option str.
  Variable int_of_str float_of_str : str -> option Z.
  Variable str_of_json : json -> str.
  Variable ct : list cls.

  Definition Rof (T : ty) : N -> Prop := fun d => In d (reach ct T).

  Lemma Rof_closed : forall T c k f d, Rof T c -> lookup_cls ct c = Some k -> In f (c_fields k) ->
    In d (ty_classes (f_ty f)) -> Rof T d.
  Proof.
    intros T c k f d Hc Hk Hf Hd. unfold Rof in *.
    exact (stable_fields ct (reach ct T) c k f (proj2 (reach_closed ct T)) Hc Hk Hf d Hd).
  Qed.

  Lemma Rof_in : forall T d, In d (ty_classes T) -> Rof T d.
  Proof. intros T d Hd. exact (proj1 (reach_closed ct T) d Hd). Qed.

  Lemma Rof_hooked : forall T extra c, Rof T c -> mem_N c (reach ct T ++ extra) = true.
  Proof. intros T extra c Hc. rewrite mem_N_app, (mem_N_In c _ Hc). reflexivity. Qed.

  (* structure_from_dict: whatever was registered or structured before, the outcome is the same — for
     every annotation, every document (conforming or not), every pair of prior states *)
  Theorem history_free_full : forall T st1 st2 j,
    snd (structure_from_dict b64dec dt_parse date_parse uuid_parse time_parse int_of_str float_of_str str_of_json ct st1 T j) =
    snd (structure_from_dict b64dec dt_parse date_parse uuid_parse time_parse int_of_str float_of_str str_of_json ct st2 T j).
  Proof.
    intros T st1 st2 j. unfold structure_from_dict. cbn [snd sreg_of].
    rewrite (structure_equiv b64dec dt_parse date_parse uuid_parse time_parse int_of_str float_of_str str_of_json ct
               (Rof T) (Rof_closed T) (reach ct T ++ sreg_of st1) (reach ct T ++ sreg_of st2)); [reflexivity| |].
    - intros c k Hc _. rewrite !Rof_hooked by exact Hc. reflexivity.
    - intros d Hd. apply Rof_in. exact Hd.
  Qed.

  (* unstructure_to_dict on an instance that conforms to its class: independent of the prior state too *)
  Theorem history_free_encode : ct_ok ct -> forall c v st1 st2,
    inst_ok dt_parse date_parse uuid_parse time_parse ct (TData c) v ->
    snd (unstructure_to_dict b64enc ct st1 v) = snd (unstructure_to_dict b64enc ct st2 v).
  Proof.
    intros Hct c v st1 st2 Hi.
    assert (Hv : exists fs, v = VData c fs) by (inversion Hi; eexists; reflexivity).
    destruct Hv as [fs ->]. unfold unstructure_to_dict. cbn [snd ureg_of].
    assert (Hdyn : forall r, unstructure b64enc ct r (VData c fs) TAny = unstructure b64enc ct r (VData c fs) (TData c)).
    { intro r. cbn [unstructure unstructure_node unstructure_nonopt]. rewrite N.eqb_refl. reflexivity. }
    rewrite !Hdyn.
    rewrite (unstructure_equiv b64enc dt_parse date_parse uuid_parse time_parse ct (Rof (TData c)) (Rof_closed (TData c)) Hct
               (reach ct (TData c) ++ ureg_of st1) (reach ct (TData c) ++ ureg_of st2)); [reflexivity | | reflexivity | | exact Hi].
    - intros c' k Hc _. rewrite !Rof_hooked by exact Hc. reflexivity.
    - intros d Hd. apply Rof_in. exact Hd.
  Qed.

  (* encode, then decode, through the entry points, from ANY prior state *)
  Theorem api_encode_decode_full :
    (forall b, b64dec (b64enc b) = Some b) -> ct_ok ct ->
    forall c v st, inst_ok dt_parse date_parse uuid_parse time_parse ct (TData c) v ->
      exists j st', unstructure_to_dict b64enc ct st v = (st', Returned j) /\
        snd (structure_from_dict b64dec dt_parse date_parse uuid_parse time_parse int_of_str float_of_str str_of_json ct st' (TData c) j)
        = Returned v.
  Proof.
    intros Hb Hct c v st Hi.
    assert (Hv : exists fs, v = VData c fs) by (inversion Hi; eexists; reflexivity).
    destruct Hv as [fs ->].
    pose (st' := {| sreg_of := sreg_of st; ureg_of := reach ct (TData c) ++ ureg_of st |}).
    destruct (encode_decode_core b64dec b64enc dt_parse date_parse uuid_parse time_parse int_of_str float_of_str str_of_json ct
                (reach ct (TData c) ++ sreg_of st') (ureg_of st') Hb Hct (Rof (TData c)) (Rof_closed (TData c))
                (fun c' k Hc _ => Rof_hooked (TData c) _ c' Hc) (fun c' k Hc _ => Rof_hooked (TData c) _ c' Hc)
                (VData c fs) (TData c) eq_refl (Rof_in (TData c)) Hi)
      as [j [Hu [Hs _]]].
    exists j, st'. split.
    - unfold unstructure_to_dict. fold st'.
      assert (Hdyn : unstructure b64enc ct (ureg_of st') (VData c fs) TAny
                   = unstructure b64enc ct (ureg_of st') (VData c fs) (TData c)).
      { cbn [unstructure unstructure_node unstructure_nonopt]. rewrite N.eqb_refl. reflexivity. }
      rewrite Hdyn, Hu. reflexivity.
    - unfold structure_from_dict. cbn [snd sreg_of]. rewrite Hs. reflexivity.
  Qed.
End Api.

(* ---------- F16b: unstructure_to_dict on a container root is history-dependent ---------- *)
Definition k_F16b : cls :=
  {| c_id := 0; c_fields := [ {| f_name := [120;95;121]; f_ty := TInt; f_default := None |} ];     (* x_y *)
     c_load := Some [([120;89], [120;95;121])]; c_dump := Some [([120;95;121], [120;89])] |}.   (* xY <-> x_y *)
Definition inst_F16b : value := VData 0 [([120;95;121], VInt 5)].
Definition root_F16b : value := VDict [([107], inst_F16b)].                                      (* {"k": inst} *)

Lemma refuted_F16b : forall b64enc,
  let st2 := fst (unstructure_to_dict b64enc [k_F16b] st0 inst_F16b) in
  snd (unstructure_to_dict b64enc [k_F16b] st0 root_F16b)
    = Returned (JObj [([107], JObj [([120;95;121], JInt 5)])]) /\
  snd (unstructure_to_dict b64enc [k_F16b] st2 root_F16b)
    = Returned (JObj [([107], JObj [([120;89], JInt 5)])]).
Proof. intro b64enc. split; vm_compute; reflexivity. Qed.
