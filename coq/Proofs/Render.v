(* C19 — proofs about Model/Render.v *)
From PG Require Import Lib.Strs Model.Sites Model.Diff Model.Render Proofs.Sites Proofs.Diff.
From PG Require Model.Parser Proofs.Parser.
From Coq Require Import Permutation.

(* ================================================================================================
   (1) keys *)
(* ---------- str(int(s)) = s for canonical decimal strings: the decimal printer [Diff.dec] inverts [dec_value] ---------- *)
Fixpoint pow10 (f : nat) : N := match f with O => 1 | S f' => 10 * pow10 f' end.
Fixpoint pow2 (f : nat) : N := match f with O => 1 | S f' => 2 * pow2 f' end.

Lemma pow2_le_pow10 : forall f, pow2 f <= pow10 f.
Proof. induction f as [|f IH]; cbn [pow2 pow10]; lia. Qed.

Lemma pow10_pos : forall f, 0 < pow10 f.
Proof. induction f as [|f IH]; cbn [pow10]; lia. Qed.

Lemma pos_lt_pow2 : forall p, N.pos p < pow2 (Pos.size_nat p).
Proof.
  induction p as [p IH|p IH|]; cbn [Pos.size_nat pow2].
  - replace (N.pos p~1) with (2 * N.pos p + 1) by reflexivity. lia.
  - replace (N.pos p~0) with (2 * N.pos p) by reflexivity. lia.
  - reflexivity.
Qed.

Lemma lt_pow10_size : forall n, 0 < n -> n < pow10 (N.size_nat n).
Proof.
  intros [|p] H; [lia|]. cbn [N.size_nat].
  pose proof (pos_lt_pow2 p). pose proof (pow2_le_pow10 (Pos.size_nat p)). lia.
Qed.

Lemma dec_fuel_enough : forall f1 f2 n,
  n < pow10 (S f1) -> n < pow10 (S f2) -> dec_fuel (S f1) n = dec_fuel (S f2) n.
Proof.
  induction f1 as [|f1 IH]; intros f2 n H1 H2.
  - cbn [pow10] in H1. cbn [dec_fuel]. assert (E : n <? 10 = true) by (apply N.ltb_lt; lia). rewrite E. reflexivity.
  - cbn [dec_fuel]. destruct (n <? 10) eqn:E; [reflexivity|]. apply N.ltb_ge in E.
    destruct f2 as [|f2]; [cbn [pow10] in H2; lia|].
    f_equal. apply IH.
    + apply N.div_lt_upper_bound; [lia|]. exact H1.
    + apply N.div_lt_upper_bound; [lia|]. exact H2.
Qed.

Lemma dec_snoc : forall n d, 0 < n -> d < 10 -> dec (10 * n + d) = dec n ++ [48 + d].
Proof.
  intros n d Hn Hd. unfold dec at 1. set (m := 10 * n + d).
  assert (Hm : 10 <= m) by (unfold m; lia).
  cbn [dec_fuel]. assert (E : m <? 10 = false) by (apply N.ltb_ge; exact Hm). rewrite E.
  assert (Hq : m / 10 = n) by (symmetry; apply (N.div_unique m 10 n d); [exact Hd | unfold m; lia]).
  assert (Hr : m mod 10 = d) by (symmetry; apply (N.mod_unique m 10 n d); [exact Hd | unfold m; lia]).
  rewrite Hq, Hr. f_equal.
  pose proof (lt_pow10_size m ltac:(lia)) as Bm.
  destruct (N.size_nat m) as [|k] eqn:Ek; [cbn [pow10] in Bm; lia|].
  unfold dec. apply dec_fuel_enough.
  - lia.
  - pose proof (lt_pow10_size n Hn). cbn [pow10]. pose proof (pow10_pos (N.size_nat n)). lia.
Qed.

Lemma dec_small : forall d, d < 10 -> dec d = [48 + d].
Proof. intros d H. unfold dec. cbn [dec_fuel]. assert (E : d <? 10 = true) by (apply N.ltb_lt; exact H). rewrite E. reflexivity. Qed.

Lemma dec_value_digits : forall r acc, 0 < acc -> forallb is_digit r = true -> dec (dec_value r acc) = dec acc ++ r.
Proof.
  induction r as [|c r IH]; intros acc Ha Hd; cbn [dec_value].
  - rewrite app_nil_r. reflexivity.
  - cbn [forallb] in Hd. apply andb_true_iff in Hd. destruct Hd as [Hc Hr].
    unfold is_digit in Hc. apply andb_true_iff in Hc. destruct Hc as [C1 C2].
    apply N.leb_le in C1. apply N.leb_le in C2.
    rewrite IH; [|lia|exact Hr]. rewrite dec_snoc by lia.
    rewrite <- app_assoc. cbn [app]. replace (48 + (c - 48)) with c by lia. reflexivity.
Qed.

Theorem dec_roundtrip : forall s, is_canonical_dec s = true -> dec (dec_value s 0) = s.
Proof.
  intros [|c r] H; [discriminate|]. cbn [is_canonical_dec] in H.
  destruct (c =? 48) eqn:E0.
  - apply N.eqb_eq in E0. subst c. destruct r; [reflexivity | discriminate].
  - apply N.eqb_neq in E0. apply andb_true_iff in H. destruct H as [H Hr]. apply andb_true_iff in H. destruct H as [C1 C2].
    apply N.leb_le in C1. apply N.leb_le in C2.
    cbn [dec_value]. replace (10 * 0 + (c - 48)) with (c - 48) by lia.
    rewrite dec_value_digits; [|lia|exact Hr]. rewrite dec_small by lia.
    cbn [app]. replace (48 + (c - 48)) with c by lia. reflexivity.
Qed.

Lemma key_str_retype : forall k, key_str (retype_key k) = key_str k.
Proof.
  intros [s|n]; simpl; [|reflexivity].
  destruct (is_canonical_dec s) eqn:E; [|reflexivity]. simpl. apply dec_roundtrip. exact E.
Qed.

Lemma flat_map_ext_in' : forall {A B} (f g : A -> list B) l,
  (forall x, In x l -> f x = g x) -> flat_map f l = flat_map g l.
Proof.
  induction l as [|x l IH]; intro H; simpl; [reflexivity|].
  rewrite (H x (or_introl eq_refl)), IH; [reflexivity|]. intros y Hy. apply H. right. exact Hy.
Qed.

(* FULL since the fix of F07b: writing numeric response codes without quotes changes nothing for the parser *)
Theorem keys_full : forall d, parse_doc (retype_keys d) = parse_doc d.
Proof.
  intro d. unfold parse_doc, retype_keys. rewrite flat_map_concat_map, map_map, <- flat_map_concat_map.
  apply flat_map_ext_in'. intros [p it] _. unfold parse_item. simpl.
  rewrite flat_map_concat_map, map_map, <- flat_map_concat_map.
  apply flat_map_ext_in'. intros [m o] _. unfold parse_op. simpl.
  destruct (is_method m); [|reflexivity]. f_equal. f_equal.
  unfold codes_of. rewrite map_map. apply map_ext. apply key_str_retype.
Qed.

Definition s_200 : str := [50;48;48].
Definition s_get : str := [103;101;116].
Definition s_a : str := [47;97].
Definition s_op : str := [111;112].
Definition doc_F07b : doc :=
  [(s_a, [(s_get, {| o_id := s_op; o_tags := []; o_sig := []; o_resps := [KStr s_200] |})])].
(* regression for the fixed F07b: the 200 key really becomes an int, and the operation is still parsed, with code "200" *)
Lemma regression_F07b :
  all_str doc_F07b = true /\ all_str (retype_keys doc_F07b) = false /\
  map p_codes (parse_doc (retype_keys doc_F07b)) = [[s_200]] /\
  parse_doc (retype_keys doc_F07b) = parse_doc doc_F07b.
Proof. repeat split; vm_compute; reflexivity. Qed.

(* ================================================================================================
   (2) grouping *)
Lemma nodupb_NoDup : forall l, nodupb l = true <-> NoDup l.
Proof.
  induction l as [|x l IH]; simpl; split; intro H; try reflexivity; try constructor.
  - apply andb_true_iff in H. destruct H as [H _]. apply negb_true_iff in H. intro X. apply mem_str_In in X. congruence.
  - apply IH. apply andb_true_iff in H. tauto.
  - inversion H; subst. apply andb_true_iff. split; [|apply IH; assumption].
    apply negb_true_iff. destruct (mem_str x l) eqn:E; [apply mem_str_In in E; contradiction | reflexivity].
Qed.

Section GroupFacts.
  Variable tagkey : str -> str.
  Variable san : str -> str.

  Definition gflat (g : list (str * list pop)) : list (str * pop) :=
    flat_map (fun kv => map (fun p => (fst kv, p)) (snd kv)) g.

  Lemma In_gadd : forall k p g x, In x (gflat (gadd k p g)) <-> (k, p) = x \/ In x (gflat g).
  Proof.
    intros k p. induction g as [|[k0 ps] r IH]; intro x; simpl.
    - tauto.
    - destruct (str_eqb k k0) eqn:E; simpl.
      + apply str_eqb_eq in E. subst k0. rewrite map_app, !in_app_iff. simpl. tauto.
      + rewrite !in_app_iff, IH. tauto.
  Qed.

  Lemma In_gadd_tags : forall p ts g x,
    In x (gflat (fold_left (fun g t => gadd (tagkey t) p g) ts g)) <->
    In x (gflat g) \/ (snd x = p /\ In (fst x) (map tagkey ts)).
  Proof.
    intros p. induction ts as [|t ts IH]; intros g x; simpl.
    - tauto.
    - rewrite IH, In_gadd. destruct x as [k q]. simpl. split.
      + intros [[H|H]|H]; [inversion H; subst; auto | auto | tauto].
      + intros [H|[H1 [H2|H2]]]; [auto | subst; auto | auto].
  Qed.

  Lemma In_group_from : forall ops g x,
    In x (gflat (fold_left (gadd_op tagkey) ops g)) <->
    In x (gflat g) \/ (In (snd x) ops /\ In (fst x) (map tagkey (op_tags (snd x)))).
  Proof.
    induction ops as [|p ops IH]; intros g x; simpl.
    - tauto.
    - rewrite IH. unfold gadd_op. rewrite In_gadd_tags. split.
      + intros [[H|[H1 H2]]|[H1 H2]]; [auto | subst; auto | auto].
      + intros [H|[[H1|H1] H2]]; [auto | subst; auto | auto].
  Qed.

  Lemma In_group : forall ops x,
    In x (gflat (group tagkey ops)) <-> In (snd x) ops /\ In (fst x) (map tagkey (op_tags (snd x))).
  Proof. intros ops x. unfold group. rewrite In_group_from. simpl. tauto. Qed.

  Lemma emitted_as_map : forall g,
    flat_map (fun kv => map (fun p => (fst kv, san (p_id p), p_sig p)) (snd kv)) g =
    map (fun kp => (fst kp, san (p_id (snd kp)), p_sig (snd kp))) (gflat g).
  Proof.
    induction g as [|[k ps] r IH]; simpl; [reflexivity|]. rewrite map_app, map_map, IH. reflexivity.
  Qed.

  Lemma set_id_same : forall p, set_id p (p_id p) = p.
  Proof. destruct p; reflexivity. Qed.

  Lemma dedup_pops_guard : forall ops, guard_collide san ops = true -> dedup_pops san ops = ops.
  Proof.
    intros ops G. unfold dedup_pops, guard_collide in *. rewrite (dedup_ops_nodup san _ G).
    induction ops as [|p ops IH]; simpl; [reflexivity|]. rewrite set_id_same. f_equal. apply IH.
    simpl in G. apply andb_true_iff in G. tauto.
  Qed.

  Lemma In_emitted : forall ops y, guard_collide san ops = true ->
    (In y (emitted_methods tagkey san ops) <->
     exists p k, In p ops /\ In k (map tagkey (op_tags p)) /\ y = (k, san (p_id p), p_sig p)).
  Proof.
    intros ops y G. unfold emitted_methods. rewrite (dedup_pops_guard _ G), emitted_as_map, in_map_iff. split.
    - intros [[k p] [E H]]. apply In_group in H. simpl in *. exists p, k. intuition.
    - intros [p [k [H1 [H2 E]]]]. exists (k, p). split; [symmetry; exact E|]. apply In_group. simpl. auto.
  Qed.

  (* the SET of (tag client, method name, signature) does not depend on the order of `paths` *)
  Theorem path_order_partial : forall d d',
    Permutation d d' -> guard_collide san (parse_doc d) = true ->
    forall y, In y (emitted_methods tagkey san (parse_doc d)) <-> In y (emitted_methods tagkey san (parse_doc d')).
  Proof.
    intros d d' Hp G y.
    assert (Hops : Permutation (parse_doc d) (parse_doc d')) by (apply Permutation_flat_map; exact Hp).
    assert (G' : guard_collide san (parse_doc d') = true).
    { unfold guard_collide in *. apply nodupb_NoDup. apply nodupb_NoDup in G.
      eapply Permutation_NoDup; [|exact G]. apply Permutation_map, Permutation_map. exact Hops. }
    rewrite (In_emitted _ _ G), (In_emitted _ _ G').
    split; intros [p [k [H1 H2]]]; exists p, k; (split; [|exact H2]).
    - eapply Permutation_in; eassumption.
    - eapply Permutation_in; [apply Permutation_sym|]; eassumption.
  Qed.
End GroupFacts.

(* with a collision the de-duplication suffix goes to whichever path comes second: order dependent (by design;
   the property's quantifier excludes such documents) *)
Definition s_b : str := [47;98].
Definition s_foo : str := [102;111;111].
Definition sigA : str := [65].
Definition sigB : str := [66].
Definition doc_collide : doc :=
  [(s_a, [(s_get, {| o_id := s_foo; o_tags := []; o_sig := sigA; o_resps := [] |})]);
   (s_b, [(s_get, {| o_id := s_foo; o_tags := []; o_sig := sigB; o_resps := [] |})])].
Lemma collide_order_dependent :
  guard_collide (fun s => s) (parse_doc doc_collide) = false /\
  Permutation doc_collide (rev doc_collide) /\
  exists y, In y (emitted_methods (fun s => s) (fun s => s) (parse_doc doc_collide)) /\
            ~ In y (emitted_methods (fun s => s) (fun s => s) (parse_doc (rev doc_collide))).
Proof.
  split; [vm_compute; reflexivity|]. split; [apply Permutation_rev|].
  exists (s_default_tag, s_foo, sigA). split; [vm_compute; auto|].
  vm_compute. intros [H|[H|[]]]; discriminate.
Qed.

Lemma guard_collide_nonvacuous :
  guard_collide (fun s => s) (parse_doc doc_F07b) = true /\
  emitted_methods (fun s => s) (fun s => s) (parse_doc doc_F07b) = [(s_default_tag, s_op, [])].
Proof. split; vm_compute; reflexivity. Qed.

(* ================================================================================================
   (3) dataclass fields *)

Lemma prop_key_inj_name : forall x y : prop, fst x <> fst y -> prop_key x <> prop_key y.
Proof. intros x y H E. unfold prop_key in E. inversion E. contradiction. Qed.

Theorem sort_props_perm : forall l l', Permutation l l' -> NoDup (map fst l) -> sort_props l = sort_props l'.
Proof.
  intros l l' Hp Hnd. unfold sort_props. apply sort_by_perm; [exact Hp|].
  clear -Hnd. induction l as [|x l IH]; simpl in *; [constructor|]. inversion Hnd; subst. constructor; [|apply IH; assumption].
  intro X. apply in_map_iff in X. destruct X as [y [E Hy]].
  assert (fst y = fst x) by (unfold prop_key in E; inversion E; reflexivity).
  apply H1. apply in_map_iff. exists y. auto.
Qed.

(* property names are the keys of a mapping, hence distinct: the generated field LIST (names, collision
   suffixes, types, required flags, order) is the same for every order of `properties` *)
Theorem prop_order_full : forall san props props',
  NoDup (map fst props) -> Permutation props props' -> gen_fields san props = gen_fields san props'.
Proof. intros san props props' Hnd Hp. unfold gen_fields. rewrite (sort_props_perm _ _ Hp Hnd). reflexivity. Qed.

Definition n_a_dash_b : str := [97;45;98].
Definition n_a_us_b : str := [97;95;98].
Definition n_id : str := [105;100].
Definition demo_san : str -> str := san_of [(n_a_dash_b, n_a_us_b)].
Definition demo_props : list prop := [(n_a_us_b, (false, [])); (n_id, (true, [])); (n_a_dash_b, (false, []))].
Lemma prop_order_nonvacuous :
  NoDup (map fst demo_props) /\
  gen_fields demo_san demo_props = [(n_id, [], true); (n_a_us_b, [], false); (n_a_us_b ++ [95;50], [], false)] /\
  gen_fields demo_san (rev demo_props) = gen_fields demo_san demo_props.
Proof.
  split; [repeat constructor; simpl; intuition discriminate|]. split; vm_compute; reflexivity.
Qed.

(* ================================================================================================
   (4) the graph guards on the witnesses of F02a / F02c and on a DAG *)
Definition n_User : str := [85;115;101;114].
Definition n_UserGroup : str := [85;115;101;114;71;114;111;117;112].
Definition n_Parent : str := [80;97;114;101;110;116].
Definition n_Child : str := [67;104;105;108;100].
Definition graph_F02a : graph := [(n_User, [(false, n_UserGroup)]); (n_UserGroup, [(false, n_User)])].
Definition graph_F02c : graph := [(n_Parent, [(false, n_Child)]); (n_Child, [(true, n_Parent)])].
Definition n_Folder : str := [70;111;108;100;101;114].
Definition n_SharedFolder : str := [83;104;97;114;101;100;70;111;108;100;101;114].
(* a self-referencing base and a schema derived from it through allOf: no guard fires *)
Definition graph_selfref : graph :=
  [(n_SharedFolder, [(true, n_Folder)]); (n_Folder, [(false, n_Folder); (false, n_Folder)])].
Definition graph_dag : graph := [(n_User, [(false, n_UserGroup)]); (n_UserGroup, []); (n_Child, [(true, n_User)])].
Lemma graph_guards_examples :
  guard_acyclic graph_F02a = false /\ guard_no_allof_cycle graph_F02a = true /\
  guard_acyclic graph_F02c = false /\ guard_no_allof_cycle graph_F02c = false /\
  guard_acyclic graph_dag = true /\ guard_no_allof_cycle graph_dag = true /\
  guard_acyclic graph_selfref = true /\ guard_no_allof_cycle graph_selfref = true.
Proof. repeat split; vm_compute; reflexivity. Qed.

(* ================================================================================================
   (5) order of components.schemas: C02's theorem (coq/Model/Parser.v, coq/Proofs/Parser.v by the builder of C02)
   is exactly the statement C19 needs; it is re-exported here so that C19's obligations name it. *)
Theorem schema_order_partial : forall md (S S' : Model.Parser.spec) rk rk',
  Model.Parser.core_spec S = true -> Model.Parser.ranked_b rk S = true -> Model.Parser.depth_ok rk S md = true ->
  Model.Parser.core_spec S' = true -> Model.Parser.ranked_b rk' S' = true -> Model.Parser.depth_ok rk' S' md = true ->
  Permutation S S' ->
  forall n, Model.Parser.model_fields (Model.Parser.parse_doc md S) n =
            Model.Parser.model_fields (Model.Parser.parse_doc md S') n.
Proof. exact Proofs.Parser.order_independent. Qed.
