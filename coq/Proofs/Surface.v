(* C13 — proofs about Model/Surface.v *)
From PG Require Import Lib.Strs Model.Tags Model.Surface Proofs.Tags.
From Coq Require Import Lia PeanoNat.

(* ====================================================================================== *)
(* Part 1 — grouping: MocksEmitter (first tag, raw) vs EndpointsEmitter (every tag, key)   *)
(* ====================================================================================== *)
Section Grouping.
  Variable tag_key : str -> str.
  Variable score : str -> bool * N * N.

  Definition single_tag (l : list op) : Prop := forall o, In o l -> (length (o_tags o) <= 1)%nat.
  (* two first-tags with the same normalised key are the same string *)
  Definition uniform (ts : list str) : Prop :=
    forall a b, In a ts -> In b ts -> tag_key a = tag_key b -> a = b.

  Lemma single_tag_default : forall o, (length (o_tags o) <= 1)%nat -> tags_or_default o = [first_tag o].
  Proof.
    intros o H. unfold tags_or_default, first_tag. destruct (o_tags o) as [|t [|t' r]]; simpl in *;
      [reflexivity | reflexivity | lia].
  Qed.

  Definition keyify {V} (d : list (str * V)) : list (str * V) := map (fun tg => (tag_key (fst tg), snd tg)) d.

  Lemma keyify_aappend : forall {V} (d : list (str * list V)) t (v : V),
    (forall t0, In t0 (map fst d) -> tag_key t0 = tag_key t -> t0 = t) ->
    keyify (aappend d t v) = aappend (keyify d) (tag_key t) v.
  Proof.
    induction d as [|[t0 g] d IH]; intros t v H; simpl; [reflexivity|].
    destruct (str_eqb t t0) eqn:E.
    - apply str_eqb_eq in E. subst t0. rewrite str_eqb_refl. reflexivity.
    - assert (X : str_eqb (tag_key t) (tag_key t0) = false).
      { apply str_eqb_neq. intro K. apply str_eqb_neq in E. apply E. symmetry.
        apply H; [left; reflexivity | symmetry; exact K]. }
      rewrite X. simpl. f_equal. apply IH. intros t1 Hin. apply H. right. exact Hin.
  Qed.

  Lemma aappend_keys_in : forall {V} (d : list (str * list V)) t (v : V) x,
    In x (map fst (aappend d t v)) -> x = t \/ In x (map fst d).
  Proof.
    induction d as [|[t0 g] d IH]; intros t v x H; simpl in *.
    - destruct H as [<-|[]]. left. reflexivity.
    - destruct (str_eqb t t0); simpl in H.
      + right. exact H.
      + destruct H as [<-|H]; [right; left; reflexivity|].
        destruct (IH _ _ _ H) as [->|H']; [left; reflexivity | right; right; exact H'].
  Qed.

  (* one fold, generic in what is appended (the operation itself, or its tag) *)
  Lemma fold_keyify : forall {V} (f : op -> V) l (d : list (str * list V)),
    uniform (map fst d ++ map first_tag l) ->
    keyify (fold_left (fun d o => aappend d (first_tag o) (f o)) l d)
    = fold_left (fun d o => aappend d (tag_key (first_tag o)) (f o)) l (keyify d).
  Proof.
    induction l as [|o l IH]; intros d U; simpl; [reflexivity|].
    rewrite IH.
    - f_equal. apply keyify_aappend. intros t0 Hin K. apply U; [| |exact K].
      + apply in_or_app. left. exact Hin.
      + apply in_or_app. right. left. reflexivity.
    - intros a b Ha Hb K. apply U; [| |exact K].
      + apply in_app_or in Ha. destruct Ha as [Ha|Ha].
        * destruct (aappend_keys_in _ _ _ _ Ha) as [->|Ha'].
          -- apply in_or_app. right. left. reflexivity.
          -- apply in_or_app. left. exact Ha'.
        * apply in_or_app. right. right. exact Ha.
      + apply in_app_or in Hb. destruct Hb as [Hb|Hb].
        * destruct (aappend_keys_in _ _ _ _ Hb) as [->|Hb'].
          -- apply in_or_app. right. left. reflexivity.
          -- apply in_or_app. left. exact Hb'.
        * apply in_or_app. right. right. exact Hb.
  Qed.

  Lemma fold_left_ext_in : forall {A B} (f g : A -> B -> A) l a,
    (forall a b, In b l -> f a b = g a b) -> fold_left f l a = fold_left g l a.
  Proof.
    induction l as [|x l IH]; intros a H; simpl; [reflexivity|].
    rewrite H by (left; reflexivity). apply IH. intros a' b Hb. apply H. right. exact Hb.
  Qed.

  (* under single_tag, the emitter's fold over tags_or_default is the fold over the first tag *)
  Lemma group_single : forall l, single_tag l ->
    group tag_key l = fold_left (fun d o => aappend d (tag_key (first_tag o)) o) l [].
  Proof.
    intros l H. unfold group. apply fold_left_ext_in. intros d o Hin.
    unfold group_step. rewrite (single_tag_default o (H o Hin)). reflexivity.
  Qed.
  Lemma candidates_single : forall l, single_tag l ->
    candidates tag_key l = fold_left (fun d o => aappend d (tag_key (first_tag o)) (first_tag o)) l [].
  Proof.
    intros l H. unfold candidates. apply fold_left_ext_in. intros d o Hin.
    unfold cand_step. rewrite (single_tag_default o (H o Hin)). reflexivity.
  Qed.

  (* the mock groups ARE the endpoint groups (same order, same operations) up to key normalisation *)
  Theorem groups_agree : forall l, single_tag l -> uniform (map first_tag l) ->
    keyify (mock_groups l) = group tag_key l.
  Proof.
    intros l S U. rewrite (group_single l S). unfold mock_groups.
    rewrite (fold_keyify (fun o => o) l []); [reflexivity | exact U].
  Qed.

  (* ... and every candidate list consists of the group's raw tag only, so the canonical tag chosen
     by the emitter / ClientVisitor is the very tag MocksEmitter uses *)
  Definition mock_cands (l : list op) : list (str * list str) :=
    fold_left (fun d o => aappend d (first_tag o) (first_tag o)) l [].

  Lemma aappend_all_key : forall (d : list (str * list str)) t,
    Forall (fun tg => Forall (eq (fst tg)) (snd tg) /\ snd tg <> []) d ->
    Forall (fun tg => Forall (eq (fst tg)) (snd tg) /\ snd tg <> []) (aappend d t t).
  Proof.
    induction d as [|[t0 g] d IH]; intros t H; simpl.
    - constructor; [|constructor]. simpl. split; [constructor; [reflexivity | constructor] | discriminate].
    - inversion H as [|? ? [H1 H2] Ht]; subst. destruct (str_eqb t t0) eqn:E.
      + apply str_eqb_eq in E. subst t0. constructor; [|exact Ht]. simpl in *. split.
        * apply Forall_app. split; [exact H1 | constructor; [reflexivity | constructor]].
        * destruct g; discriminate.
      + constructor; [split; assumption | apply IH, Ht].
  Qed.

  Lemma mock_cands_inv : forall l, Forall (fun tg => Forall (eq (fst tg)) (snd tg) /\ snd tg <> []) (mock_cands l).
  Proof.
    intro l. unfold mock_cands.
    assert (G : forall l d, Forall (fun tg => Forall (eq (fst tg)) (snd tg) /\ snd tg <> []) d ->
                Forall (fun tg => Forall (eq (fst tg)) (snd tg) /\ snd tg <> [])
                       (fold_left (fun d o => aappend d (first_tag o) (first_tag o)) l d)).
    { induction l0 as [|o l0 IH]; intros d Hd; simpl; [exact Hd|]. apply IH, aappend_all_key, Hd. }
    apply G. constructor.
  Qed.

  Lemma str_ltb_irrefl : forall a, str_ltb a a = false.
  Proof. induction a as [|x a IH]; simpl; [reflexivity|]. rewrite N.ltb_irrefl. exact IH. Qed.
  Lemma score_gtb_irrefl : forall t, score_gtb score t t = false.
  Proof.
    intro t. unfold score_gtb. destruct (score t) as [[p w] u].
    rewrite Bool.eqb_reflx, !N.eqb_refl. apply str_ltb_irrefl.
  Qed.
  Lemma max_by_same : forall t g, Forall (eq t) g -> max_by score t g = t.
  Proof.
    intros t g H. induction H as [|x g <- _ IH]; simpl; [reflexivity|].
    rewrite score_gtb_irrefl. exact IH.
  Qed.

  Lemma aappend_fst : forall {V W} (d1 : list (str * list V)) (d2 : list (str * list W)) t (v : V) (w : W),
    map fst d1 = map fst d2 -> map fst (aappend d1 t v) = map fst (aappend d2 t w).
  Proof.
    induction d1 as [|[k1 g1] d1 IHd]; destruct d2 as [|[k2 g2] d2]; simpl; intros t v w H; try discriminate; [reflexivity|].
    inversion H as [[H1 H2]]. subst k2. destruct (str_eqb t k1); simpl; [rewrite H2; reflexivity|].
    f_equal. apply IHd, H2.
  Qed.

  Lemma mock_cands_fst : forall l, map fst (mock_cands l) = map fst (mock_groups l).
  Proof.
    intro l. unfold mock_cands, mock_groups.
    assert (G : forall l (d1 : list (str * list str)) (d2 : list (str * list op)), map fst d1 = map fst d2 ->
      map fst (fold_left (fun d o => aappend d (first_tag o) (first_tag o)) l d1)
      = map fst (fold_left (fun d o => aappend d (first_tag o) o) l d2)).
    { induction l0 as [|o l0 IH]; intros d1 d2 H; simpl; [exact H|]. apply IH, aappend_fst, H. }
    apply G. reflexivity.
  Qed.

  Theorem tags_agree : forall l, single_tag l -> uniform (map first_tag l) ->
    emitter_tags tag_key score l = map (fun tg => (tag_key (fst tg), fst tg)) (mock_groups l).
  Proof.
    intros l S U. unfold emitter_tags. rewrite (candidates_single l S).
    pose proof (fold_keyify (fun o => first_tag o) l [] U) as K. simpl in K.
    fold (mock_cands l) in K. rewrite <- K. unfold keyify. rewrite map_map. simpl.
    pose proof (mock_cands_inv l) as I. pose proof (mock_cands_fst l) as F.
    assert (X : map (fun x : str * list str => (tag_key (fst x), emitter_best score (snd x))) (mock_cands l)
                = map (fun x => (tag_key x, x)) (map fst (mock_cands l))).
    { rewrite map_map. apply map_ext_in. intros [t g] Hin. simpl.
      rewrite Forall_forall in I. destruct (I _ Hin) as [I1 I2]. simpl in *.
      destruct g as [|x g]; [contradiction I2; reflexivity|]. simpl.
      pose proof (Forall_inv I1) as E. pose proof (Forall_inv_tail I1) as I1'. simpl in E.
      rewrite <- E, (max_by_same t g I1'). reflexivity. }
    rewrite X, F, map_map. reflexivity.
  Qed.

  (* same methods per tag: every mock group is the endpoint group of its key *)
  Theorem same_methods_partial : forall l, single_tag l -> uniform (map first_tag l) ->
    same_methods tag_key l.
  Proof.
    intros l S U t g Hin. pose proof (group_keys_nodup tag_key l) as N.
    rewrite <- (groups_agree l S U) in N. rewrite <- (groups_agree l S U).
    apply alookup_in; [exact N|].
    unfold keyify. apply in_map_iff. exists (t, g). split; [reflexivity | exact Hin].
  Qed.
End Grouping.

(* ---------- refutations of the unguarded grouping statements ---------- *)
Definition s_admin : str := [97;100;109;105;110].
Definition ident_any (s : str) : bool := negb (is_nil s).
(* F13a — one operation tagged Users and admin *)
Definition ops_F13a : list op := [ {| o_id := s_a; o_method := s_GET; o_path := s_pa; o_tags := [s_Users; s_admin] |} ].
Theorem refuted_F13a :
  guard_F13a ops_F13a = false
  /\ mock_props idf key_F07c ident_any ops_F13a = Some [s_users]
  /\ client_props idf key_F07c key_F07c idf no_score ident_any ops_F13a = Some [s_admin; s_users]
  /\ ~ same_tags idf key_F07c key_F07c idf no_score ident_any ops_F13a.
Proof.
  split; [reflexivity|]. split; [vm_compute; reflexivity|]. split; [vm_compute; reflexivity|].
  intros (m & c & Hm & Hc & H). vm_compute in Hm, Hc. inversion Hm; inversion Hc; subst.
  assert (X : In s_admin [s_users]) by (apply H; left; reflexivity).
  destruct X as [X|[]]. discriminate.
Qed.

(* F13b — Users on one operation, users on another *)
Definition ops_F13b : list op :=
  [ {| o_id := s_a; o_method := s_GET; o_path := s_pa; o_tags := [s_Users] |};
    {| o_id := s_b; o_method := s_POST; o_path := s_pa; o_tags := [s_users] |} ].
Theorem refuted_F13b :
  guard_F13a ops_F13b = true /\ guard_F13b key_F07c ops_F13b = false
  /\ mock_props idf key_F07c ident_any ops_F13b = None
  /\ mock_files idf key_F07c idf ops_F13b = [(s_users, (k_Mock ++ s_users ++ s_Client, [s_b]))]
  /\ ~ same_methods key_F07c ops_F13b.
Proof.
  repeat split; try (vm_compute; reflexivity).
  intro H. specialize (H s_Users [nth 0 ops_F13b op_F07c]).
  assert (X : In (s_Users, [nth 0 ops_F13b op_F07c]) (mock_groups ops_F13b)) by (vm_compute; left; reflexivity).
  apply H in X. vm_compute in X. discriminate.
Qed.

(* F01e — no operation at all *)
Theorem refuted_F01e :
  guard_F01e [] = false /\ mock_props idf idf ident_any [] = None
  /\ client_props idf idf idf idf no_score ident_any [] = Some [].
Proof. repeat split; vm_compute; reflexivity. Qed.

Definition ops_ok13 : list op :=
  [ {| o_id := s_a; o_method := s_GET; o_path := s_pa; o_tags := [s_Users] |};
    {| o_id := s_b; o_method := s_POST; o_path := s_pa; o_tags := [] |};
    {| o_id := s_foo; o_method := s_POST; o_path := s_a; o_tags := [s_Users] |} ].
Theorem grouping_guard_nonvacuous :
  single_tag ops_ok13 /\ uniform key_F07c (map first_tag ops_ok13) /\ length (mock_groups ops_ok13) = 2%nat.
Proof.
  split; [|split; [|reflexivity]].
  - intros o [<-|[<-|[<-|[]]]]; simpl; lia.
  - intros a b Ha Hb. vm_compute in Ha, Hb.
    destruct Ha as [<-|[<-|[<-|[]]]]; destruct Hb as [<-|[<-|[<-|[]]]]; vm_compute; intro E; try reflexivity; discriminate.
Qed.

(* executable guards imply the Prop guards *)
Lemma guard_F13a_single : forall l, guard_F13a l = true -> single_tag l.
Proof.
  intros l H o Hin. unfold guard_F13a in H. rewrite forallb_forall in H.
  apply Nat.leb_le. apply H, Hin.
Qed.
Lemma guard_F13b_uniform : forall tk l, guard_F13b tk l = true -> uniform tk (map first_tag l).
Proof.
  intros tk l H a b Ha Hb K. unfold guard_F13b in H. rewrite forallb_forall in H.
  specialize (H a Ha). rewrite forallb_forall in H. specialize (H b Hb).
  rewrite K, str_eqb_refl in H. simpl in H. apply str_eqb_eq. exact H.
Qed.
