(* C13 — proofs about Model/Surface.v *)
From PG Require Import Lib.Strs Model.Tags Model.Surface.
From Coq Require Import Lia.

Lemma placeholder : strip [32;97;32] = [97].
Proof. reflexivity. Qed.
