(* C13 — proofs about Model/Surface.v *)
From PG Require Import Lib.Strs Model.Tags Model.Surface Proofs.Tags.
From Coq Require Import Lia PeanoNat Permutation.

(* ====================================================================================== *)
(* Part 1 — grouping: MocksEmitter (after the fix of F13a/F13b) vs EndpointsEmitter        *)
(* ====================================================================================== *)
Section Grouping.
  Variable method_name tag_key tag_attr tag_class : str -> str.
  Variable score : str -> bool * N * N.
  Variable py_ident : str -> bool.

  Notation ops_of_key := (ops_of_key tag_key).
  Notation mock_groups := (mock_groups tag_key score).
  Notation group := (group tag_key).
  Notation emitter_tags := (emitter_tags tag_key score).
  Notation contrib := (contrib tag_key).
  Notation group_tags := (group_tags tag_key).

  Lemma dedup_keys_sub : forall ts seen t, In t (dedup_keys_go tag_key seen ts) -> In t ts.
  Proof.
    induction ts as [|x ts IH]; intros seen t H; simpl in *; [contradiction|].
    destruct (mem_str (tag_key x) seen).
    - right. apply (IH _ _ H).
    - destruct H as [<-|H]; [left; reflexivity | right; apply (IH _ _ H)].
  Qed.

  Lemma mem_key_iff : forall k ts, mem_str k (map tag_key ts) = true <-> exists t, In t ts /\ tag_key t = k.
  Proof.
    intros k ts. rewrite mem_str_In, in_map_iff. split; intros [t [A B]]; exists t; tauto.
  Qed.

  Lemma contrib_nonempty_iff : forall k o,
    negb (is_nil (contrib k o)) = mem_str k (map tag_key (tags_or_default o)).
  Proof.
    intros k o. destruct (mem_str k (map tag_key (tags_or_default o))) eqn:E.
    - apply mem_key_iff in E. destruct E as [t [Ht Ek]].
      destruct (group_tags_key_in tag_key o t Ht) as [t' [Ht' Ek']].
      unfold Proofs.Tags.contrib.
      assert (X : In t' (filter (fun t0 => str_eqb k (tag_key t0)) (group_tags o))).
      { apply filter_In. split; [exact Ht'|]. rewrite Ek', Ek. apply str_eqb_refl. }
      destruct (filter _ (group_tags o)); [contradiction | reflexivity].
    - unfold Proofs.Tags.contrib.
      destruct (filter (fun t0 => str_eqb k (tag_key t0)) (group_tags o)) as [|t' r] eqn:F; [reflexivity|].
      exfalso. assert (X : In t' (filter (fun t0 => str_eqb k (tag_key t0)) (group_tags o))) by (rewrite F; left; reflexivity).
      apply filter_In in X. destruct X as [X1 X2]. apply str_eqb_eq in X2.
      assert (M : mem_str k (map tag_key (tags_or_default o)) = true).
      { apply mem_key_iff. exists t'. split; [apply (dedup_keys_sub _ [] _ X1) | symmetry; exact X2]. }
      congruence.
  Qed.

  (* the filter MocksEmitter applies is exactly the endpoint group of that key *)
  Theorem ops_of_key_group : forall l k, ops_of_key k l = alookup_l k (group l).
  Proof.
    intros l k. rewrite (group_lookup tag_key l k).
    rewrite (flat_map_contrib_filter tag_key l k) by (intros; apply group_tags_nodupb).
    unfold Surface.ops_of_key. apply filter_ext. intro o. symmetry. apply contrib_nonempty_iff.
  Qed.

  Lemma canon_ops_nonempty : forall l k c, In (k, c) (emitter_tags l) -> ops_of_key (tag_key c) l <> [].
  Proof.
    intros l k c Hin. destruct (canon_ok tag_key score l k c Hin) as [_ T].
    unfold all_tags in T. apply in_flat_map in T. destruct T as [o [Ho Hc]].
    assert (X : In o (ops_of_key (tag_key c) l)).
    { apply filter_In. split; [exact Ho|]. apply mem_key_iff. exists c. split; [exact Hc | reflexivity]. }
    intro E. rewrite E in X. contradiction.
  Qed.

  Definition mg_entry (l : list op) (kc : str * str) : str * list op := (snd kc, ops_of_key (tag_key (snd kc)) l).

  Lemma canon_nodup : forall l, NoDup (map snd (emitter_tags l)).
  Proof.
    intro l. apply NoDup_map_inj_on.
    - apply (NoDup_map_inv fst), emitter_tags_nodup.
    - intros [k1 c1] [k2 c2] H1 H2 E. simpl in E. subst c2.
      destruct (canon_ok tag_key score l k1 c1 H1) as [K1 _]. destruct (canon_ok tag_key score l k2 c1 H2) as [K2 _].
      subst. reflexivity.
  Qed.

  Lemma filter_all_true : forall {A} (f : A -> bool) l, (forall x, In x l -> f x = true) -> filter f l = l.
  Proof.
    induction l as [|x l IH]; intro H; simpl; [reflexivity|].
    rewrite (H x (or_introl eq_refl)), IH; [reflexivity|]. intros y Hy. apply H. right. exact Hy.
  Qed.

  (* no canonical tag repeats (the dict loses nothing) and no group is empty (emit() skips nothing) *)
  Theorem mock_groups_eq : forall l, mock_groups l = map (mg_entry l) (sort_by_key (emitter_tags l)).
  Proof.
    intro l. unfold Surface.mock_groups. rewrite (clients_mirror tag_key score l).
    change (map (fun kc : str * str => (snd kc, ops_of_key (tag_key (snd kc)) l)) (sort_by_key (emitter_tags l)))
      with (map (mg_entry l) (sort_by_key (emitter_tags l))).
    pose proof (sort_by_key_perm (emitter_tags l)) as P.
    rewrite dict_of_nodup.
    - apply filter_all_true. intros [t g] Hin. apply in_map_iff in Hin. destruct Hin as [[k c] [E Hk]].
      inversion E; subst t g. apply (Permutation_in _ P) in Hk. simpl.
      pose proof (canon_ops_nonempty l k c Hk) as NE. destruct (ops_of_key (tag_key c) l); [contradiction NE; reflexivity | reflexivity].
    - rewrite map_map. simpl. apply (Permutation_NoDup (l := map snd (emitter_tags l))); [|apply canon_nodup].
      apply Permutation_map, Permutation_sym, P.
  Qed.

  (* C13 same methods, FULL: every mock group is the endpoint group of its tag — all operation lists *)
  Theorem same_methods_full : forall l, same_methods tag_key score l.
  Proof.
    intros l t g Hin. rewrite mock_groups_eq in Hin. apply in_map_iff in Hin.
    destruct Hin as [[k c] [E Hk]]. unfold mg_entry in E. simpl in E. inversion E; subst t g. clear E.
    apply (Permutation_in _ (sort_by_key_perm (emitter_tags l))) in Hk.
    pose proof (canon_ops_nonempty l k c Hk) as NE.
    rewrite ops_of_key_group in *. unfold alookup_l in *.
    destruct (alookup (tag_key c) (group l)); [reflexivity | contradiction NE; reflexivity].
  Qed.

  Lemma emitted_tags : forall l, map o_tags (emitted_ops method_name l) = map o_tags l.
  Proof.
    assert (G : forall l used, map o_tags (dedup_go method_name used l) = map o_tags l).
    { intros l used. pose proof (dedup_go_shape method_name l used) as S.
      induction S as [|a b l1 l2 H _ IH]; simpl; [reflexivity|].
      destruct (suffixed_tags _ _ H) as (E & _). rewrite E, IH. reflexivity. }
    intro l. unfold emitted_ops, dedup_ops. rewrite !G. reflexivity.
  Qed.

  Lemma nodupb_perm : forall a b, Permutation a b -> nodupb a = true -> nodupb b = true.
  Proof. intros a b P H. apply nodupb_NoDup. apply nodupb_NoDup in H. apply (Permutation_NoDup P H). Qed.
  Lemma forallb_perm : forall (f : str -> bool) a b, Permutation a b -> forallb f a = true -> forallb f b = true.
  Proof.
    intros f a b P H. apply forallb_forall. intros x Hx. rewrite forallb_forall in H.
    apply H. apply (Permutation_in _ (Permutation_sym P)), Hx.
  Qed.

  (* C13 same tags: MockAPIClient and APIClient have the same tag properties for every operation list whose
     canonical module names are pairwise distinct identifiers (modules_ok — the C07 guard, negation of F07e) *)
  Theorem same_tags_full : forall l,
    modules_ok tag_key tag_attr score py_ident (emitted_ops method_name l) = true ->
    same_tags method_name tag_key tag_attr tag_class score py_ident l.
  Proof.
    intros l Hm. set (e := emitted_ops method_name l) in *.
    destruct (reachable method_name tag_key tag_attr tag_class score py_ident l Hm) as (t & Pt & Perm & _ & _).
    fold e in Perm.
    unfold modules_ok in Hm. apply andb_true_iff in Hm. destruct Hm as [Hn Hi].
    set (mods := map (fun kc : str * str => tag_attr (snd kc)) (emitter_tags e)) in *.
    set (mm := map (fun tg : str * list op => tag_attr (fst tg)) (mock_groups e)).
    assert (Q : Permutation mods mm).
    { unfold mm, mods. rewrite mock_groups_eq, map_map. simpl.
      apply Permutation_sym. apply (Permutation_map (fun kc : str * str => tag_attr (snd kc))), sort_by_key_perm. }
    exists mm, (map fst t). split; [|split].
    - unfold mock_props. fold e. fold mm. rewrite (nodupb_perm _ _ Q Hn), (forallb_perm _ _ _ Q Hi). reflexivity.
    - unfold client_props. unfold props_of in Pt. rewrite Pt. reflexivity.
    - intro x.
      assert (R : Permutation (map fst t) mods).
      { apply (Permutation_map fst) in Perm. rewrite map_map in Perm. exact Perm. }
      split; intro H.
      + apply (Permutation_in _ (Permutation_sym R)), (Permutation_in _ (Permutation_sym Q)), H.
      + apply (Permutation_in _ Q), (Permutation_in _ R), H.
  Qed.
End Grouping.

(* ---------- regressions of the fixed findings ---------- *)
Definition s_admin : str := [97;100;109;105;110].
Definition ident_any (s : str) : bool := negb (is_nil s).
(* F13a FIXED — one operation tagged Users and admin: both tags have a mock group and a property *)
Definition ops_F13a : list op := [ {| o_id := s_a; o_method := s_GET; o_path := s_pa; o_tags := [s_Users; s_admin] |} ].
Theorem fixed_F13a :
  mock_props idf key_F07c key_F07c no_score ident_any ops_F13a = Some [s_admin; s_users]
  /\ client_props idf key_F07c key_F07c idf no_score ident_any ops_F13a = Some [s_admin; s_users]
  /\ map (fun tg => (fst tg, map o_id (snd tg))) (mock_groups key_F07c no_score ops_F13a) = [(s_admin, [s_a]); (s_Users, [s_a])].
Proof. repeat split; vm_compute; reflexivity. Qed.

(* F13b FIXED — Users on one operation, users on another: one mock group with both operations *)
Definition ops_F13b : list op :=
  [ {| o_id := s_a; o_method := s_GET; o_path := s_pa; o_tags := [s_Users] |};
    {| o_id := s_b; o_method := s_POST; o_path := s_pa; o_tags := [s_users] |} ].
Theorem fixed_F13b :
  mock_props idf key_F07c key_F07c no_score ident_any ops_F13b = Some [s_users]
  /\ client_props idf key_F07c key_F07c idf no_score ident_any ops_F13b = Some [s_users]
  /\ map (fun tg => map o_id (snd tg)) (mock_groups key_F07c no_score ops_F13b) = [[s_a; s_b]]
  /\ mock_files idf key_F07c key_F07c idf no_score ops_F13b = [(s_users, (k_Mock ++ s_users ++ s_Client, [s_a; s_b]))].
Proof. repeat split; vm_compute; reflexivity. Qed.

(* F01e FIXED — regression: without any operation both clients have no tag property and agree *)
Theorem fixed_F01e :
  mock_props idf idf idf no_score ident_any [] = Some [] /\ client_props idf idf idf idf no_score ident_any [] = Some []
  /\ same_tags idf idf idf idf no_score ident_any [].
Proof.
  split; [reflexivity|]. split; [reflexivity|].
  exists [], []. repeat split; try reflexivity; intros [].
Qed.

(* ====================================================================================== *)
(* Part 2 — the line scanners are exact on every well-formed signature                     *)
(* ====================================================================================== *)

(* ---------- string lemmas ---------- *)
Lemma prefixb_app : forall p s, prefixb p (p ++ s) = true.
Proof. induction p as [|x p IH]; intro s; simpl; [reflexivity|]. rewrite N.eqb_refl. apply IH. Qed.

Lemma suffixb_app : forall p s, suffixb p (s ++ p) = true.
Proof. intros p s. unfold suffixb. rewrite rev_app_distr. apply prefixb_app. Qed.

Lemma suffixb_ne : forall p a b x, a <> b -> suffixb (p ++ [a]) (x ++ [b]) = false.
Proof.
  intros p a b x H. unfold suffixb. rewrite !rev_app_distr. simpl.
  apply N.eqb_neq in H. rewrite H. reflexivity.
Qed.

Lemma suffixb_nil_false : forall p a, suffixb (p ++ [a]) [] = false.
Proof. intros p a. unfold suffixb. rewrite rev_app_distr. reflexivity. Qed.

Lemma containsb_fuel_app : forall p y x f, (length x <= f)%nat -> containsb_fuel f p (x ++ p ++ y) = true.
Proof.
  induction x as [|c x IH]; intros f H; simpl.
  - destruct f; simpl; rewrite prefixb_app; reflexivity.
  - destruct f as [|f]; [simpl in H; lia|]. simpl. rewrite IH by (simpl in H; lia). apply orb_true_r.
Qed.
Lemma containsb_app : forall p x y, containsb p (x ++ p ++ y) = true.
Proof. intros p x y. unfold containsb. apply containsb_fuel_app. rewrite app_length. lia. Qed.

Lemma last_app_ne : forall (a b : str) d, b <> [] -> last (a ++ b) d = last b d.
Proof.
  induction a as [|x a IH]; intros b d H; simpl; [reflexivity|].
  destruct (a ++ b) eqn:E; [destruct a; destruct b; simpl in E; try discriminate; contradiction H; reflexivity|].
  rewrite <- E. apply IH, H.
Qed.

Lemma hd_rev : forall (s : str) d, hd d (rev s) = last s d.
Proof.
  intros s d. destruct s as [|x s] using rev_ind; [reflexivity|].
  rewrite rev_app_distr, last_last. reflexivity.
Qed.

(* ---------- strip ---------- *)
Definition clean (s : str) : Prop := s <> [] /\ is_ws (hd 0 s) = false /\ is_ws (last s 0) = false.

Lemma lstrip_id : forall s, is_ws (hd 0 s) = false -> lstrip s = s.
Proof. intros [|c s] H; simpl in *; [reflexivity | rewrite H; reflexivity]. Qed.

Lemma strip_clean : forall s, clean s -> strip s = s.
Proof.
  intros s (_ & H1 & H2). unfold strip. rewrite (lstrip_id s H1).
  rewrite lstrip_id by (rewrite hd_rev; exact H2). apply rev_involutive.
Qed.

Lemma strip_indent : forall s, clean s -> strip (k_indent ++ s) = s.
Proof. intros s H. unfold strip. change (lstrip (k_indent ++ s)) with (lstrip s). apply (strip_clean s H). Qed.

Lemma clean_app3 : forall a x b, a <> [] -> is_ws (hd 0 a) = false -> b <> [] -> is_ws (last b 0) = false ->
  clean (a ++ x ++ b).
Proof.
  intros a x b Ha Ha' Hb Hb'. split; [|split].
  - destruct a; [contradiction Ha; reflexivity | discriminate].
  - destruct a; [contradiction Ha; reflexivity | exact Ha'].
  - rewrite app_assoc, last_app_ne by exact Hb. exact Hb'.
Qed.

Lemma clean_app2 : forall a b, clean a -> b <> [] -> is_ws (last b 0) = false -> clean (a ++ b).
Proof.
  intros a b (Ha & Ha' & _) Hb Hb'. change (a ++ b) with (a ++ [] ++ b).
  apply (clean_app3 a [] b); assumption.
Qed.

(* ---------- well-formed signatures ---------- *)
(* the text of one argument: non-empty, no surrounding white space, does not start with ")" and
   does not end with ":" "," or ": ..." *)
Definition arg_text_ok (t : str) : bool :=
  negb (is_nil t) && negb (is_ws (hd 0 t)) && negb (is_ws (last t 0)) && negb (hd 0 t =? 41)
  && negb (suffixb k_colon t) && negb (suffixb k_comma t) && negb (suffixb k_stub_end t).
Definition closing (s : sig) (term : str) : line := k_close_arrow ++ s_ret s ++ term.
Definition def_line (kw : str) (s : sig) : line := kw ++ s_name s ++ k_lparen.
(* the scanner decides "async generator" by looking for AsyncIterator in the closing line *)
Definition proto_gen (s : sig) : bool := containsb k_ret_gen (closing s k_colon).
Definition wf_sig (s : sig) : bool :=
  forallb (fun c => negb (c =? 40)) (s_name s)
  && forallb (fun a => arg_text_ok (render_arg a)) (s_args s)
  && Bool.eqb (proto_gen s) (match s_kind s with AsyncGen => true | Coroutine => false end).

Fixpoint sarg_lines (st : style) (l : list str) : list line :=
  match l with
  | [] => []
  | [a] => [a ++ match st with Standard => k_comma | StarStyle => [] end]
  | a :: r => (a ++ k_comma) :: sarg_lines st r
  end.
(* the signature block with every line stripped *)
Definition sig_lines (kw term : str) (s : sig) : list line :=
  def_line kw s :: sarg_lines (s_style s) (map render_arg (s_args s)) ++ [closing s term].

Lemma arg_ok_clean : forall t, arg_text_ok t = true -> clean t.
Proof.
  intros t H. unfold arg_text_ok in H. repeat (apply andb_true_iff in H; destruct H as [H ?]).
  repeat match goal with X : negb _ = true |- _ => apply negb_true_iff in X end.
  split; [destruct t; [discriminate | discriminate] | split; assumption].
Qed.

Definition neutral (x : line) : Prop :=
  ends_sig x = false /\ suffixb k_stub_end x = false /\ prefixb k_close_arrow x = false.

Lemma not_close_prefix : forall t x, t <> [] -> (hd 0 t =? 41) = false -> prefixb k_close_arrow (t ++ x) = false.
Proof.
  intros [|c t] x Hne H; [contradiction Hne; reflexivity|]. cbn [hd] in H.
  change (prefixb k_close_arrow ((c :: t) ++ x)) with ((41 =? c) && prefixb [32;45;62;32] (t ++ x)).
  rewrite N.eqb_sym, H. reflexivity.
Qed.

Lemma neutral_comma : forall t, arg_text_ok t = true -> neutral (t ++ k_comma).
Proof.
  intros t H. pose proof (arg_ok_clean t H) as (Hne & _ & _).
  unfold arg_text_ok in H. repeat (apply andb_true_iff in H; destruct H as [H ?]).
  repeat match goal with X : negb _ = true |- _ => apply negb_true_iff in X end.
  split; [|split].
  - unfold ends_sig. change k_colon with ([] ++ [58]). unfold k_comma at 1.
    rewrite (suffixb_ne [] 58 44 t) by discriminate. reflexivity.
  - change k_stub_end with ([58;32;46;46] ++ [46]). apply suffixb_ne. discriminate.
  - apply not_close_prefix; assumption.
Qed.

Lemma neutral_plain : forall t, arg_text_ok t = true -> neutral t.
Proof.
  intros t H. pose proof (arg_ok_clean t H) as (Hne & _ & _).
  unfold arg_text_ok in H. repeat (apply andb_true_iff in H; destruct H as [H ?]).
  repeat match goal with X : negb _ = true |- _ => apply negb_true_iff in X end.
  split; [|split].
  - unfold ends_sig. match goal with X : suffixb k_colon t = false |- _ => rewrite X end. reflexivity.
  - assumption.
  - rewrite <- (app_nil_r t). apply not_close_prefix; assumption.
Qed.

Lemma sarg_neutral : forall st l, forallb arg_text_ok l = true -> Forall neutral (sarg_lines st l).
Proof.
  induction l as [|a l IH]; intro H; simpl; [constructor|].
  simpl in H. apply andb_true_iff in H. destruct H as [Ha Hl].
  destruct l as [|b l].
  - constructor; [|constructor]. destruct st; [apply neutral_comma, Ha | rewrite app_nil_r; apply neutral_plain, Ha].
  - constructor; [apply neutral_comma, Ha | apply IH, Hl].
Qed.

Lemma clean_comma : forall t, clean t -> clean (t ++ k_comma).
Proof. intros t H. apply clean_app2; [exact H | discriminate | reflexivity]. Qed.

Lemma strip_arg_lines : forall st l, forallb arg_text_ok l = true -> map strip (arg_lines st l) = sarg_lines st l.
Proof.
  induction l as [|a l IH]; intro H; [reflexivity|].
  simpl in H. apply andb_true_iff in H. destruct H as [Ha Hl].
  pose proof (arg_ok_clean a Ha) as Ca.
  destruct l as [|b l].
  - simpl. f_equal. destruct st.
    + apply strip_indent, clean_comma, Ca.
    + rewrite app_nil_r. apply strip_indent, Ca.
  - change (arg_lines st (a :: b :: l)) with ((k_indent ++ a ++ k_comma) :: arg_lines st (b :: l)).
    change (sarg_lines st (a :: b :: l)) with ((a ++ k_comma) :: sarg_lines st (b :: l)).
    cbn [map]. f_equal; [apply strip_indent, clean_comma, Ca | apply IH, Hl].
Qed.

(* ---------- facts about the first and the closing line ---------- *)
Lemma def_line_clean : forall kw s, kw <> [] -> is_ws (hd 0 kw) = false -> clean (def_line kw s).
Proof. intros kw s H1 H2. unfold def_line. apply clean_app3; [exact H1 | exact H2 | discriminate | reflexivity]. Qed.

Lemma def_line_facts : forall s,
  let d := def_line k_async_def s in
  strip d = d /\ prefixb k_overload d = false /\ prefixb k_async_def d = true /\ containsb k_lparen d = true
  /\ ends_sig d = false /\ suffixb k_stub_end d = false.
Proof.
  intros s d. assert (C : clean d) by (apply def_line_clean; [discriminate | reflexivity]).
  repeat apply conj.
  - apply strip_clean, C.
  - reflexivity.
  - apply prefixb_app.
  - unfold d, def_line. rewrite app_assoc. rewrite <- (app_nil_r k_lparen) at 2. apply containsb_app.
  - unfold ends_sig, d, def_line. rewrite app_assoc. change k_colon with ([] ++ [58]). unfold k_lparen.
    rewrite (suffixb_ne [] 58 40) by discriminate. reflexivity.
  - unfold d, def_line. rewrite app_assoc. change k_stub_end with ([58;32;46;46] ++ [46]).
    apply suffixb_ne. discriminate.
Qed.

Lemma closing_clean : forall s term, term <> [] -> is_ws (last term 0) = false -> clean (closing s term).
Proof. intros s term H1 H2. unfold closing. apply clean_app3; [discriminate | reflexivity | exact H1 | exact H2]. Qed.

Lemma closing_colon_facts : forall s,
  let c := closing s k_colon in
  strip c = c /\ ends_sig c = true /\ suffixb k_colon c = true /\ removelast c = k_close_arrow ++ s_ret s.
Proof.
  intros s c. assert (C : clean c) by (apply closing_clean; [discriminate | reflexivity]).
  assert (S : suffixb k_colon c = true) by (unfold c, closing; rewrite app_assoc; apply suffixb_app).
  repeat apply conj.
  - apply strip_clean, C.
  - unfold ends_sig. rewrite S. unfold c, closing. rewrite app_assoc. change k_comma with ([] ++ [44]). unfold k_colon.
    rewrite (suffixb_ne [] 44 58) by discriminate. reflexivity.
  - exact S.
  - unfold c, closing, k_colon. rewrite app_assoc. apply removelast_last.
Qed.

Lemma closing_stub_facts : forall s,
  let c := closing s k_stub_end in strip c = c /\ suffixb k_stub_end c = true.
Proof.
  intros s c. split.
  - apply strip_clean, closing_clean; [discriminate | reflexivity].
  - unfold c, closing. rewrite app_assoc. apply suffixb_app.
Qed.

(* ---------- Protocol scanner ---------- *)
Lemma proto_sig_neutral : forall ls acc rest,
  Forall neutral (map strip ls) ->
  proto_go (PSig acc) (ls ++ rest) = proto_go (PSig (acc ++ map strip ls)) rest.
Proof.
  induction ls as [|l ls IH]; intros acc rest H; simpl.
  - rewrite app_nil_r. reflexivity.
  - inversion H as [|? ? (H1 & _ & _) Ht]; subst. rewrite H1. rewrite (IH _ _ Ht), <- app_assoc. reflexivity.
Qed.

Lemma proto_over_neutral : forall ls rest,
  Forall neutral (map strip ls) ->
  proto_go POver (ls ++ rest) = map strip ls ++ proto_go POver rest.
Proof.
  induction ls as [|l ls IH]; intros rest H; simpl; [reflexivity|].
  inversion H as [|? ? (_ & H2 & _) Ht]; subst. rewrite H2, (IH _ Ht). reflexivity.
Qed.

Lemma forallb_map' : forall {A B} (f : A -> B) (p : B -> bool) l, forallb p (map f l) = forallb (fun x => p (f x)) l.
Proof. induction l as [|x l IH]; simpl; [reflexivity | rewrite IH; reflexivity]. Qed.

Definition wf_args (s : sig) : bool := forallb arg_text_ok (map render_arg (s_args s)).
Lemma wf_sig_args : forall s, wf_sig s = true -> wf_args s = true.
Proof.
  intros s H. unfold wf_sig in H. apply andb_true_iff in H. destruct H as [H _].
  apply andb_true_iff in H. destruct H as [_ H]. unfold wf_args. rewrite forallb_map'. exact H.
Qed.

Definition proto_kw (s : sig) : str := if proto_gen s then k_def else k_async_def.

Lemma proto_scan_def : forall s rest,
  proto_go PScan (def_line k_async_def s :: rest) = proto_go (PSig [def_line k_async_def s]) rest.
Proof.
  intros s rest. destruct (def_line_facts s) as (D1 & D2 & D3 & D4 & D5 & _).
  cbn [proto_go]. rewrite D1, D2, D3, D4, D5. reflexivity.
Qed.

Lemma proto_sig_close : forall s acc rest,
  proto_go (PSig acc) (closing s k_colon :: rest) = proto_emit (acc ++ [closing s k_colon]).
Proof.
  intros s acc rest. destruct (closing_colon_facts s) as (C1 & C2 & _ & _).
  cbn [proto_go]. rewrite C1, C2. reflexivity.
Qed.

Lemma proto_emit_sig : forall s sargs,
  proto_emit ((def_line k_async_def s :: sargs) ++ [closing s k_colon])
  = (def_line (proto_kw s) s :: sargs) ++ [closing s k_stub_end; []].
Proof.
  intros s sargs. destruct (def_line_facts s) as (_ & _ & D3 & _ & _ & _).
  destruct (closing_colon_facts s) as (_ & _ & C3 & C4).
  unfold proto_emit. rewrite last_last, removelast_last, C3, C4, D3.
  unfold proto_kw, proto_gen.
  destruct (containsb k_ret_gen (closing s k_colon)); cbn [andb];
    unfold closing; rewrite <- app_assoc; reflexivity.
Qed.

Lemma proto_final : forall s body, wf_args s = true ->
  proto_go PScan (render_sig s ++ body) = sig_lines (proto_kw s) k_stub_end s ++ [[]].
Proof.
  intros s body W.
  pose proof (strip_arg_lines (s_style s) _ W) as SA.
  pose proof (sarg_neutral (s_style s) _ W) as SN.
  unfold render_sig, render_sig_with. fold (def_line k_async_def s). fold (closing s k_colon).
  rewrite <- app_comm_cons, proto_scan_def, <- app_assoc.
  rewrite proto_sig_neutral by (rewrite SA; exact SN). rewrite SA.
  cbn [app]. rewrite proto_sig_close.
  change ([def_line k_async_def s] ++ ?x) with (def_line k_async_def s :: x).
  rewrite proto_emit_sig. unfold sig_lines. cbn [app]. rewrite <- app_assoc. reflexivity.
Qed.

Definition stripped_overload (o : sig) : list line := k_overload :: sig_lines k_async_def k_stub_end o ++ [[]].

Lemma proto_over_block : forall o rest, wf_args o = true ->
  proto_go PScan ((render_overload o ++ [[]]) ++ rest) = stripped_overload o ++ proto_go PScan rest.
Proof.
  intros o rest W.
  destruct (def_line_facts o) as (D1 & _ & _ & _ & _ & D6).
  destruct (closing_stub_facts o) as (C1 & C2).
  pose proof (strip_arg_lines (s_style o) _ W) as SA.
  pose proof (sarg_neutral (s_style o) _ W) as SN.
  unfold render_overload, render_sig_with. fold (def_line k_async_def o). fold (closing o k_stub_end).
  rewrite <- !app_comm_cons.
  cbn [proto_go]. change (strip k_overload) with k_overload. change (prefixb k_overload k_overload) with true. cbn iota.
  rewrite D1, D6.
  rewrite <- !app_assoc. rewrite proto_over_neutral by (rewrite SA; exact SN). rewrite SA.
  cbn [app proto_go]. rewrite C1, C2.
  change (strip []) with (@nil N). change (prefixb k_overload []) with false. change (prefixb k_async_def []) with false.
  cbn [andb].
  unfold stripped_overload, sig_lines. rewrite <- !app_comm_cons, <- !app_assoc. reflexivity.
Qed.

Lemma proto_overloads : forall ovs rest, forallb wf_args ovs = true ->
  proto_go PScan (flat_map (fun o => render_overload o ++ [[]]) ovs ++ rest)
  = flat_map stripped_overload ovs ++ proto_go PScan rest.
Proof.
  induction ovs as [|o ovs IH]; intros rest H; [reflexivity|].
  simpl in H. apply andb_true_iff in H. destruct H as [W H].
  cbn [flat_map]. rewrite <- app_assoc, (proto_over_block o _ W), (IH rest H), <- app_assoc. reflexivity.
Qed.

(* the Protocol stub block is, line for line, the rendering of the same signature: same name,
   same argument texts in the same order (names, annotations, defaults), same return annotation;
   `async def` unless the closing line mentions AsyncIterator, then plain `def`; overload stubs are
   copied verbatim; whatever follows the signature (docstring, body) has no influence *)
Theorem extract_protocol_exact : forall ovs s body,
  forallb wf_args ovs = true -> wf_args s = true ->
  extract_protocol (render_method ovs s body)
  = flat_map stripped_overload ovs ++ sig_lines (proto_kw s) k_stub_end s ++ [[]].
Proof.
  intros ovs s body Ho Hs. unfold extract_protocol, render_method.
  rewrite proto_overloads by exact Ho. rewrite (proto_final s body Hs). reflexivity.
Qed.

(* ---------- mock scanner ---------- *)
Lemma collect_neutral : forall ls rest,
  Forall neutral (map strip ls) ->
  collect_sig (ls ++ rest) = let (a, t) := collect_sig rest in (map strip ls ++ a, t).
Proof.
  induction ls as [|l ls IH]; intros rest H; simpl.
  - destruct (collect_sig rest); reflexivity.
  - inversion H as [|? ? (H1 & _ & _) Ht]; subst. rewrite H1, (IH _ Ht).
    destruct (collect_sig rest). reflexivity.
Qed.

Lemma mock_over_neutral : forall who ls rest,
  Forall neutral (map strip ls) ->
  mock_go who MOver (ls ++ rest) = map strip ls ++ mock_go who MOver rest.
Proof.
  induction ls as [|l ls IH]; intros rest H; simpl; [reflexivity|].
  inversion H as [|? ? (_ & H2 & _) Ht]; subst. rewrite H2, (IH _ Ht). reflexivity.
Qed.

Definition mock_gen (s : sig) : bool := containsb k_ret_gen (last (sig_lines k_async_def k_colon s) []).

Lemma collect_def : forall s rest,
  collect_sig (def_line k_async_def s :: rest) = let (a, t) := collect_sig rest in (def_line k_async_def s :: a, t).
Proof.
  intros s rest. destruct (def_line_facts s) as (D1 & _ & _ & _ & D5 & _).
  cbn [collect_sig]. rewrite D1, D5. reflexivity.
Qed.
Lemma collect_close : forall s rest, collect_sig (closing s k_colon :: rest) = ([closing s k_colon], true).
Proof.
  intros s rest. destruct (closing_colon_facts s) as (C1 & C2 & _ & _).
  cbn [collect_sig]. rewrite C1, C2. reflexivity.
Qed.

Lemma mock_final : forall who s body, wf_args s = true ->
  mock_go who MScan (render_sig s ++ body) = sig_lines k_async_def k_colon s ++ mock_body who (mock_gen s).
Proof.
  intros who s body W.
  destruct (def_line_facts s) as (D1 & D2 & D3 & D4 & _ & _).
  pose proof (strip_arg_lines (s_style s) _ W) as SA.
  pose proof (sarg_neutral (s_style s) _ W) as SN.
  unfold render_sig, render_sig_with. fold (def_line k_async_def s). fold (closing s k_colon).
  rewrite <- app_comm_cons. cbn [mock_go]. rewrite D1, D2, D3, D4. cbn [orb andb].
  rewrite collect_def, <- app_assoc. rewrite collect_neutral by (rewrite SA; exact SN). rewrite SA.
  cbn [app]. rewrite collect_close. cbn [andb].
  unfold mock_gen, sig_lines. reflexivity.
Qed.

Lemma mock_over_block : forall who o rest, wf_args o = true ->
  mock_go who MScan ((render_overload o ++ [[]]) ++ rest) = stripped_overload o ++ mock_go who MScan rest.
Proof.
  intros who o rest W.
  destruct (def_line_facts o) as (D1 & _ & _ & _ & _ & D6).
  destruct (closing_stub_facts o) as (C1 & C2).
  pose proof (strip_arg_lines (s_style o) _ W) as SA.
  pose proof (sarg_neutral (s_style o) _ W) as SN.
  unfold render_overload, render_sig_with. fold (def_line k_async_def o). fold (closing o k_stub_end).
  rewrite <- !app_comm_cons.
  cbn [mock_go]. change (strip k_overload) with k_overload. change (prefixb k_overload k_overload) with true. cbn iota.
  rewrite D1, D6.
  rewrite <- !app_assoc. rewrite mock_over_neutral by (rewrite SA; exact SN). rewrite SA.
  cbn [app mock_go]. rewrite C1, C2.
  change (strip []) with (@nil N). change (prefixb k_overload []) with false.
  change (prefixb k_async_def []) with false. change (prefixb k_def []) with false.
  cbn [andb orb].
  unfold stripped_overload, sig_lines. rewrite <- !app_comm_cons, <- !app_assoc. reflexivity.
Qed.

Lemma mock_overloads : forall who ovs rest, forallb wf_args ovs = true ->
  mock_go who MScan (flat_map (fun o => render_overload o ++ [[]]) ovs ++ rest)
  = flat_map stripped_overload ovs ++ mock_go who MScan rest.
Proof.
  induction ovs as [|o ovs IH]; intros rest H; [reflexivity|].
  simpl in H. apply andb_true_iff in H. destruct H as [W H].
  cbn [flat_map]. rewrite <- app_assoc, (mock_over_block who o _ W), (IH rest H), <- app_assoc. reflexivity.
Qed.

(* the mock method is the very signature block (`async def`, same arguments, same return) followed
   by the NotImplementedError body, plus an unreachable `yield` exactly when the signature text
   mentions AsyncIterator *)
Theorem to_mock_exact : forall who ovs s body,
  forallb wf_args ovs = true -> wf_args s = true ->
  to_mock who (render_method ovs s body)
  = flat_map stripped_overload ovs ++ sig_lines k_async_def k_colon s ++ mock_body who (mock_gen s).
Proof.
  intros who ovs s body Ho Hs. unfold to_mock, render_method.
  rewrite mock_overloads by exact Ho. rewrite (mock_final who s body Hs). reflexivity.
Qed.

Theorem mock_raises : forall who g, In (k_raise_pre ++ who ++ k_raise_post) (mock_body who g).
Proof. intros who g. unfold mock_body. apply in_or_app. left. do 6 right. left. reflexivity. Qed.

(* ---------- reading the blocks back: what they declare ---------- *)
Lemma split_lparen : forall name, forallb (fun c => negb (c =? 40)) name = true ->
  split_at_lparen (name ++ k_lparen) = Some (name, []).
Proof.
  induction name as [|c name IH]; intro H; [reflexivity|].
  simpl in H. apply andb_true_iff in H. destruct H as [H1 H2]. apply negb_true_iff in H1.
  cbn [app split_at_lparen]. rewrite H1, (IH H2). reflexivity.
Qed.

Lemma rstrip_comma_app : forall a, rstrip_comma (a ++ k_comma) = a.
Proof. intro a. unfold rstrip_comma. rewrite suffixb_app. unfold k_comma. apply removelast_last. Qed.

Lemma arg_ok_nocomma : forall t, arg_text_ok t = true -> rstrip_comma t = t.
Proof.
  intros t H. unfold arg_text_ok in H. repeat (apply andb_true_iff in H; destruct H as [H ?]).
  repeat match goal with X : negb _ = true |- _ => apply negb_true_iff in X end.
  unfold rstrip_comma. match goal with X : suffixb k_comma t = false |- _ => rewrite X end. reflexivity.
Qed.

Lemma read_args_sarg : forall st l c, forallb arg_text_ok l = true -> prefixb k_close_arrow c = true ->
  read_args (sarg_lines st l ++ [c]) = Some (l, c).
Proof.
  induction l as [|a l IH]; intros c H Hc.
  - cbn [sarg_lines app read_args]. rewrite Hc. reflexivity.
  - simpl in H. apply andb_true_iff in H. destruct H as [Ha Hl].
    destruct l as [|b l].
    + cbn [sarg_lines app read_args]. destruct st.
      * destruct (neutral_comma a Ha) as (_ & _ & N3). rewrite N3, Hc, rstrip_comma_app. reflexivity.
      * rewrite app_nil_r. destruct (neutral_plain a Ha) as (_ & _ & N3). rewrite N3, Hc, (arg_ok_nocomma a Ha). reflexivity.
    + change (sarg_lines st (a :: b :: l)) with ((a ++ k_comma) :: sarg_lines st (b :: l)).
      rewrite <- app_comm_cons. cbn [read_args].
      destruct (neutral_comma a Ha) as (_ & _ & N3). rewrite N3.
      pose proof (IH c Hl Hc) as E. unfold line, str in *. rewrite E, rstrip_comma_app. reflexivity.
Qed.

Lemma firstn_app_len : forall (a b : str), firstn (length (a ++ b) - length b) (a ++ b) = a.
Proof.
  intros a b. rewrite app_length, Nat.add_sub, firstn_app, Nat.sub_diag, firstn_all. simpl. apply app_nil_r.
Qed.

Lemma wf_sig_name : forall s, wf_sig s = true -> forallb (fun c => negb (c =? 40)) (s_name s) = true.
Proof.
  intros s H. unfold wf_sig in H. apply andb_true_iff in H. destruct H as [H _].
  apply andb_true_iff in H. destruct H as [H _]. exact H.
Qed.
Lemma wf_sig_kind : forall s, wf_sig s = true ->
  proto_gen s = match s_kind s with AsyncGen => true | Coroutine => false end.
Proof.
  intros s H. unfold wf_sig in H. apply andb_true_iff in H. destruct H as [_ H]. apply Bool.eqb_prop, H.
Qed.

Theorem read_proto : forall s, wf_sig s = true ->
  read_sig (sig_lines (proto_kw s) k_stub_end s) = Some (proto_view s).
Proof.
  intros s W. pose proof (wf_sig_args s W) as WA. pose proof (wf_sig_name s W) as WN.
  pose proof (wf_sig_kind s W) as WK.
  unfold sig_lines, read_sig.
  rewrite (read_args_sarg _ _ (closing s k_stub_end) WA) by apply prefixb_app.
  unfold proto_kw, proto_view. rewrite WK.
  destruct (s_kind s).
  - change (prefixb k_async_def (def_line k_async_def s)) with (prefixb k_async_def (k_async_def ++ s_name s ++ k_lparen)).
    rewrite prefixb_app. change (skipn 10 (def_line k_async_def s)) with (s_name s ++ k_lparen).
    rewrite (split_lparen _ WN). change (skipn 5 (closing s k_stub_end)) with (s_ret s ++ k_stub_end).
    rewrite suffixb_app. change 5%nat with (length k_stub_end). rewrite firstn_app_len. reflexivity.
  - change (prefixb k_async_def (def_line k_def s)) with false.
    change (prefixb k_def (def_line k_def s)) with (prefixb k_def (k_def ++ s_name s ++ k_lparen)).
    rewrite prefixb_app. change (skipn 4 (def_line k_def s)) with (s_name s ++ k_lparen).
    rewrite (split_lparen _ WN). change (skipn 5 (closing s k_stub_end)) with (s_ret s ++ k_stub_end).
    rewrite suffixb_app. change 5%nat with (length k_stub_end). rewrite firstn_app_len. reflexivity.
Qed.

Theorem read_mock : forall s, wf_sig s = true ->
  read_sig (sig_lines k_async_def k_colon s) = Some (mock_view s).
Proof.
  intros s W. pose proof (wf_sig_args s W) as WA. pose proof (wf_sig_name s W) as WN.
  unfold sig_lines, read_sig.
  rewrite (read_args_sarg _ _ (closing s k_colon) WA) by apply prefixb_app.
  change (prefixb k_async_def (def_line k_async_def s)) with (prefixb k_async_def (k_async_def ++ s_name s ++ k_lparen)).
  rewrite prefixb_app. change (skipn 10 (def_line k_async_def s)) with (s_name s ++ k_lparen).
  rewrite (split_lparen _ WN). change (skipn 5 (closing s k_colon)) with (s_ret s ++ k_colon).
  change k_stub_end with ([58;32;46;46] ++ [46]). unfold k_colon at 1.
  rewrite (suffixb_ne [58;32;46;46] 46 58) by discriminate.
  rewrite suffixb_app. unfold k_colon. rewrite removelast_last. reflexivity.
Qed.

(* ---------- C13_stub_exact, both directions ---------- *)
Theorem stub_exact : forall ovs s body, wf_sig s = true -> forallb wf_args ovs = true ->
  exists blk,
    extract_protocol (render_method ovs s body) = flat_map stripped_overload ovs ++ blk ++ [[]]
    /\ read_sig blk = Some (proto_view s).
Proof.
  intros ovs s body W Ho. exists (sig_lines (proto_kw s) k_stub_end s). split.
  - apply extract_protocol_exact; [exact Ho | apply wf_sig_args, W].
  - apply read_proto, W.
Qed.

Theorem mock_exact : forall who ovs s body, wf_sig s = true -> forallb wf_args ovs = true ->
  exists blk,
    to_mock who (render_method ovs s body) = flat_map stripped_overload ovs ++ blk ++ mock_body who (mock_gen s)
    /\ read_sig blk = Some (mock_view s)
    /\ In (k_raise_pre ++ who ++ k_raise_post) (mock_body who (mock_gen s))
    /\ (In k_yield (mock_body who (mock_gen s)) <-> mock_gen s = true).
Proof.
  intros who ovs s body W Ho. exists (sig_lines k_async_def k_colon s). split; [|split; [|split]].
  - apply to_mock_exact; [exact Ho | apply wf_sig_args, W].
  - apply read_mock, W.
  - apply mock_raises.
  - unfold mock_body. destruct (mock_gen s); split; intro H; try reflexivity.
    + apply in_or_app. right. left. reflexivity.
    + apply in_app_or in H. destruct H as [H|[]].
      repeat (destruct H as [H|H]; [discriminate H|]). destruct H.
    + discriminate.
Qed.

(* F13c fixed: both scanners look for ") -> AsyncIterator[" in the closing line — they always agree *)
Theorem scanners_agree : forall s, mock_gen s = proto_gen s.
Proof.
  intro s. unfold mock_gen, proto_gen, sig_lines. rewrite app_comm_cons, last_last. reflexivity.
Qed.

Definition sig_disagree : sig :=
  {| s_name := s_a; s_args := [ASelf; AParam s_b (k_AsyncIterator ++ [91;105;110;116;93]) None];
     s_ret := [78;111;110;101]; s_kind := Coroutine; s_style := Standard |}.

(* non-vacuity: a streaming signature with optional parameters and an overloaded one are well-formed *)
Definition sig_stream : sig :=
  {| s_name := [115;116;114;101;97;109]; s_args := [ASelf; AParam [113] [115;116;114;32;124;32;78;111;110;101] (Some [78;111;110;101])];
     s_ret := k_AsyncIterator ++ [91;73;116;101;109;93]; s_kind := AsyncGen; s_style := Standard |}.
Definition sig_star : sig :=
  {| s_name := [117;112]; s_args := [ASelf; AStar; AParam [98;111;100;121] [73;116;101;109] None;
                                      AParam [99;116] [115;116;114] (Some [34;97;58;98;34])];
     s_ret := [73;116;101;109]; s_kind := Coroutine; s_style := StarStyle |}.
Theorem wf_nonvacuous : wf_sig sig_stream = true /\ wf_sig sig_star = true /\ proto_kw sig_stream = k_def
  /\ mock_gen sig_stream = true /\ mock_gen sig_star = false.
Proof. repeat split; vm_compute; reflexivity. Qed.

(* F13c FIXED — regression: a coroutine returning / taking a schema class named AsyncIteratorInfo, or with a
   parameter annotated AsyncIterator[int], keeps `async def` in the Protocol and gets no `yield` in the mock *)
Definition s_AsyncIteratorInfo : str := k_AsyncIterator ++ [73;110;102;111].
Definition sig_ai_ret : sig :=
  {| s_name := [103;101;116]; s_args := [ASelf]; s_ret := s_AsyncIteratorInfo; s_kind := Coroutine; s_style := Standard |}.
Theorem fixed_F13c :
  wf_sig sig_ai_ret = true /\ proto_kw sig_ai_ret = k_async_def /\ mock_gen sig_ai_ret = false
  /\ wf_sig sig_disagree = true /\ proto_kw sig_disagree = k_async_def /\ mock_gen sig_disagree = false.
Proof. repeat split; vm_compute; reflexivity. Qed.

