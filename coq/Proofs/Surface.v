(* C13 — proofs about Model/Surface.v *)
From PG Require Import Lib.Strs Model.Tags Model.Surface Proofs.Tags.
From Coq Require Import Lia PeanoNat Permutation.

(* ====================================================================================== *)
(* Part 1 — grouping: MocksEmitter (first tag, raw) vs EndpointsEmitter (every tag, key)   *)
(* ====================================================================================== *)
Section Grouping.
  Variable tag_key : str -> str.
  Variable score : str -> bool * N * N.

  Definition single_tag (l : list op) : Prop := forall o, In o l -> (length (o_tags o) <= 1)%nat.
  (* two first-tags with the same normalised key are the same string *)
  Definition uniform (ts : list str) : Prop :=
    forall a b, In a ts -> In b ts -> tag_key a = tag_key b -> a = b.

  Lemma single_tag_default : forall o, (length (o_tags o) <= 1)%nat -> tags_or_default o = [first_tag o].
  Proof.
    intros o H. unfold tags_or_default, first_tag. destruct (o_tags o) as [|t [|t' r]]; simpl in *;
      [reflexivity | reflexivity | lia].
  Qed.

  Definition keyify {V} (d : list (str * V)) : list (str * V) := map (fun tg => (tag_key (fst tg), snd tg)) d.

  Lemma keyify_aappend : forall {V} (d : list (str * list V)) t (v : V),
    (forall t0, In t0 (map fst d) -> tag_key t0 = tag_key t -> t0 = t) ->
    keyify (aappend d t v) = aappend (keyify d) (tag_key t) v.
  Proof.
    induction d as [|[t0 g] d IH]; intros t v H; simpl; [reflexivity|].
    destruct (str_eqb t t0) eqn:E.
    - apply str_eqb_eq in E. subst t0. rewrite str_eqb_refl. reflexivity.
    - assert (X : str_eqb (tag_key t) (tag_key t0) = false).
      { apply str_eqb_neq. intro K. apply str_eqb_neq in E. apply E. symmetry.
        apply H; [left; reflexivity | symmetry; exact K]. }
      rewrite X. simpl. f_equal. apply IH. intros t1 Hin. apply H. right. exact Hin.
  Qed.

  Lemma aappend_keys_in : forall {V} (d : list (str * list V)) t (v : V) x,
    In x (map fst (aappend d t v)) -> x = t \/ In x (map fst d).
  Proof.
    induction d as [|[t0 g] d IH]; intros t v x H; simpl in *.
    - destruct H as [<-|[]]. left. reflexivity.
    - destruct (str_eqb t t0); simpl in H.
      + right. exact H.
      + destruct H as [<-|H]; [right; left; reflexivity|].
        destruct (IH _ _ _ H) as [->|H']; [left; reflexivity | right; right; exact H'].
  Qed.

  (* one fold, generic in what is appended (the operation itself, or its tag) *)
  Lemma fold_keyify : forall {V} (f : op -> V) l (d : list (str * list V)),
    uniform (map fst d ++ map first_tag l) ->
    keyify (fold_left (fun d o => aappend d (first_tag o) (f o)) l d)
    = fold_left (fun d o => aappend d (tag_key (first_tag o)) (f o)) l (keyify d).
  Proof.
    induction l as [|o l IH]; intros d U; simpl; [reflexivity|].
    rewrite IH.
    - f_equal. apply keyify_aappend. intros t0 Hin K. apply U; [| |exact K].
      + apply in_or_app. left. exact Hin.
      + apply in_or_app. right. left. reflexivity.
    - intros a b Ha Hb K. apply U; [| |exact K].
      + apply in_app_or in Ha. destruct Ha as [Ha|Ha].
        * destruct (aappend_keys_in _ _ _ _ Ha) as [->|Ha'].
          -- apply in_or_app. right. left. reflexivity.
          -- apply in_or_app. left. exact Ha'.
        * apply in_or_app. right. right. exact Ha.
      + apply in_app_or in Hb. destruct Hb as [Hb|Hb].
        * destruct (aappend_keys_in _ _ _ _ Hb) as [->|Hb'].
          -- apply in_or_app. right. left. reflexivity.
          -- apply in_or_app. left. exact Hb'.
        * apply in_or_app. right. right. exact Hb.
  Qed.

  Lemma fold_left_ext_in : forall {A B} (f g : A -> B -> A) l a,
    (forall a b, In b l -> f a b = g a b) -> fold_left f l a = fold_left g l a.
  Proof.
    induction l as [|x l IH]; intros a H; simpl; [reflexivity|].
    rewrite H by (left; reflexivity). apply IH. intros a' b Hb. apply H. right. exact Hb.
  Qed.

  (* under single_tag, the emitter's fold over tags_or_default is the fold over the first tag *)
  Lemma group_single : forall l, single_tag l ->
    group tag_key l = fold_left (fun d o => aappend d (tag_key (first_tag o)) o) l [].
  Proof.
    intros l H. unfold group. apply fold_left_ext_in. intros d o Hin.
    unfold group_step, group_tags. rewrite (single_tag_default o (H o Hin)). reflexivity.
  Qed.
  Lemma candidates_single : forall l, single_tag l ->
    candidates tag_key l = fold_left (fun d o => aappend d (tag_key (first_tag o)) (first_tag o)) l [].
  Proof.
    intros l H. unfold candidates. apply fold_left_ext_in. intros d o Hin.
    unfold cand_step. rewrite (single_tag_default o (H o Hin)). reflexivity.
  Qed.

  (* the mock groups ARE the endpoint groups (same order, same operations) up to key normalisation *)
  Theorem groups_agree : forall l, single_tag l -> uniform (map first_tag l) ->
    keyify (mock_groups l) = group tag_key l.
  Proof.
    intros l S U. rewrite (group_single l S). unfold mock_groups.
    rewrite (fold_keyify (fun o => o) l []); [reflexivity | exact U].
  Qed.

  (* ... and every candidate list consists of the group's raw tag only, so the canonical tag chosen
     by the emitter / ClientVisitor is the very tag MocksEmitter uses *)
  Definition mock_cands (l : list op) : list (str * list str) :=
    fold_left (fun d o => aappend d (first_tag o) (first_tag o)) l [].

  Lemma aappend_all_key : forall (d : list (str * list str)) t,
    Forall (fun tg => Forall (eq (fst tg)) (snd tg) /\ snd tg <> []) d ->
    Forall (fun tg => Forall (eq (fst tg)) (snd tg) /\ snd tg <> []) (aappend d t t).
  Proof.
    induction d as [|[t0 g] d IH]; intros t H; simpl.
    - constructor; [|constructor]. simpl. split; [constructor; [reflexivity | constructor] | discriminate].
    - inversion H as [|? ? [H1 H2] Ht]; subst. destruct (str_eqb t t0) eqn:E.
      + apply str_eqb_eq in E. subst t0. constructor; [|exact Ht]. simpl in *. split.
        * apply Forall_app. split; [exact H1 | constructor; [reflexivity | constructor]].
        * destruct g; discriminate.
      + constructor; [split; assumption | apply IH, Ht].
  Qed.

  Lemma mock_cands_inv : forall l, Forall (fun tg => Forall (eq (fst tg)) (snd tg) /\ snd tg <> []) (mock_cands l).
  Proof.
    intro l. unfold mock_cands.
    assert (G : forall l d, Forall (fun tg => Forall (eq (fst tg)) (snd tg) /\ snd tg <> []) d ->
                Forall (fun tg => Forall (eq (fst tg)) (snd tg) /\ snd tg <> [])
                       (fold_left (fun d o => aappend d (first_tag o) (first_tag o)) l d)).
    { induction l0 as [|o l0 IH]; intros d Hd; simpl; [exact Hd|]. apply IH, aappend_all_key, Hd. }
    apply G. constructor.
  Qed.

  Lemma str_ltb_irrefl : forall a, str_ltb a a = false.
  Proof. induction a as [|x a IH]; simpl; [reflexivity|]. rewrite N.ltb_irrefl. exact IH. Qed.
  Lemma score_gtb_irrefl : forall t, score_gtb score t t = false.
  Proof.
    intro t. unfold score_gtb. destruct (score t) as [[p w] u].
    rewrite Bool.eqb_reflx, !N.eqb_refl. apply str_ltb_irrefl.
  Qed.
  Lemma max_by_same : forall t g, Forall (eq t) g -> max_by score t g = t.
  Proof.
    intros t g H. induction H as [|x g <- _ IH]; simpl; [reflexivity|].
    rewrite score_gtb_irrefl. exact IH.
  Qed.

  Lemma aappend_fst : forall {V W} (d1 : list (str * list V)) (d2 : list (str * list W)) t (v : V) (w : W),
    map fst d1 = map fst d2 -> map fst (aappend d1 t v) = map fst (aappend d2 t w).
  Proof.
    induction d1 as [|[k1 g1] d1 IHd]; destruct d2 as [|[k2 g2] d2]; simpl; intros t v w H; try discriminate; [reflexivity|].
    inversion H as [[H1 H2]]. subst k2. destruct (str_eqb t k1); simpl; [rewrite H2; reflexivity|].
    f_equal. apply IHd, H2.
  Qed.

  Lemma mock_cands_fst : forall l, map fst (mock_cands l) = map fst (mock_groups l).
  Proof.
    intro l. unfold mock_cands, mock_groups.
    assert (G : forall l (d1 : list (str * list str)) (d2 : list (str * list op)), map fst d1 = map fst d2 ->
      map fst (fold_left (fun d o => aappend d (first_tag o) (first_tag o)) l d1)
      = map fst (fold_left (fun d o => aappend d (first_tag o) o) l d2)).
    { induction l0 as [|o l0 IH]; intros d1 d2 H; simpl; [exact H|]. apply IH, aappend_fst, H. }
    apply G. reflexivity.
  Qed.

  Theorem tags_agree : forall l, single_tag l -> uniform (map first_tag l) ->
    emitter_tags tag_key score l = map (fun tg => (tag_key (fst tg), fst tg)) (mock_groups l).
  Proof.
    intros l S U. unfold emitter_tags. rewrite (candidates_single l S).
    pose proof (fold_keyify (fun o => first_tag o) l [] U) as K. simpl in K.
    fold (mock_cands l) in K. rewrite <- K. unfold keyify. rewrite map_map. simpl.
    pose proof (mock_cands_inv l) as I. pose proof (mock_cands_fst l) as F.
    assert (X : map (fun x : str * list str => (tag_key (fst x), emitter_best score (snd x))) (mock_cands l)
                = map (fun x => (tag_key x, x)) (map fst (mock_cands l))).
    { rewrite map_map. apply map_ext_in. intros [t g] Hin. simpl.
      rewrite Forall_forall in I. destruct (I _ Hin) as [I1 I2]. simpl in *.
      destruct g as [|x g]; [contradiction I2; reflexivity|]. simpl.
      pose proof (Forall_inv I1) as E. pose proof (Forall_inv_tail I1) as I1'. simpl in E.
      rewrite <- E, (max_by_same t g I1'). reflexivity. }
    rewrite X, F, map_map. reflexivity.
  Qed.

  (* same methods per tag: every mock group is the endpoint group of its key *)
  Theorem same_methods_partial : forall l, single_tag l -> uniform (map first_tag l) ->
    same_methods tag_key l.
  Proof.
    intros l S U t g Hin. pose proof (group_keys_nodup tag_key l) as N.
    rewrite <- (groups_agree l S U) in N. rewrite <- (groups_agree l S U).
    apply alookup_in; [exact N|].
    unfold keyify. apply in_map_iff. exists (t, g). split; [reflexivity | exact Hin].
  Qed.
End Grouping.

(* ---------- refutations of the unguarded grouping statements ---------- *)
Definition s_admin : str := [97;100;109;105;110].
Definition ident_any (s : str) : bool := negb (is_nil s).
(* F13a — one operation tagged Users and admin *)
Definition ops_F13a : list op := [ {| o_id := s_a; o_method := s_GET; o_path := s_pa; o_tags := [s_Users; s_admin] |} ].
Theorem refuted_F13a :
  guard_F13a ops_F13a = false
  /\ mock_props idf key_F07c ident_any ops_F13a = Some [s_users]
  /\ client_props idf key_F07c key_F07c idf no_score ident_any ops_F13a = Some [s_admin; s_users]
  /\ ~ same_tags idf key_F07c key_F07c idf no_score ident_any ops_F13a.
Proof.
  split; [reflexivity|]. split; [vm_compute; reflexivity|]. split; [vm_compute; reflexivity|].
  intros (m & c & Hm & Hc & H). vm_compute in Hm, Hc. inversion Hm; inversion Hc; subst.
  assert (X : In s_admin [s_users]) by (apply H; left; reflexivity).
  destruct X as [X|[]]. discriminate.
Qed.

(* F13b — Users on one operation, users on another *)
Definition ops_F13b : list op :=
  [ {| o_id := s_a; o_method := s_GET; o_path := s_pa; o_tags := [s_Users] |};
    {| o_id := s_b; o_method := s_POST; o_path := s_pa; o_tags := [s_users] |} ].
Theorem refuted_F13b :
  guard_F13a ops_F13b = true /\ guard_F13b key_F07c ops_F13b = false
  /\ mock_props idf key_F07c ident_any ops_F13b = None
  /\ mock_files idf key_F07c idf ops_F13b = [(s_users, (k_Mock ++ s_users ++ s_Client, [s_b]))]
  /\ ~ same_methods key_F07c ops_F13b.
Proof.
  repeat split; try (vm_compute; reflexivity).
  intro H. specialize (H s_Users [nth 0 ops_F13b op_F07c]).
  assert (X : In (s_Users, [nth 0 ops_F13b op_F07c]) (mock_groups ops_F13b)) by (vm_compute; left; reflexivity).
  apply H in X. vm_compute in X. discriminate.
Qed.

(* F01e FIXED — regression: without any operation both clients have no tag property and agree *)
Theorem fixed_F01e :
  mock_props idf idf ident_any [] = Some [] /\ client_props idf idf idf idf no_score ident_any [] = Some []
  /\ same_tags idf idf idf idf no_score ident_any [].
Proof.
  split; [reflexivity|]. split; [reflexivity|].
  exists [], []. repeat split; try reflexivity; intros [].
Qed.

Definition ops_ok13 : list op :=
  [ {| o_id := s_a; o_method := s_GET; o_path := s_pa; o_tags := [s_Users] |};
    {| o_id := s_b; o_method := s_POST; o_path := s_pa; o_tags := [] |};
    {| o_id := s_foo; o_method := s_POST; o_path := s_a; o_tags := [s_Users] |} ].
Theorem grouping_guard_nonvacuous :
  single_tag ops_ok13 /\ uniform key_F07c (map first_tag ops_ok13) /\ length (mock_groups ops_ok13) = 2%nat.
Proof.
  split; [|split; [|reflexivity]].
  - intros o [<-|[<-|[<-|[]]]]; simpl; lia.
  - intros a b Ha Hb. vm_compute in Ha, Hb.
    destruct Ha as [<-|[<-|[<-|[]]]]; destruct Hb as [<-|[<-|[<-|[]]]]; vm_compute; intro E; try reflexivity; discriminate.
Qed.

(* executable guards imply the Prop guards *)
Lemma guard_F13a_single : forall l, guard_F13a l = true -> single_tag l.
Proof.
  intros l H o Hin. unfold guard_F13a in H. rewrite forallb_forall in H.
  apply Nat.leb_le. apply H, Hin.
Qed.
Lemma guard_F13b_uniform : forall tk l, guard_F13b tk l = true -> uniform tk (map first_tag l).
Proof.
  intros tk l H a b Ha Hb K. unfold guard_F13b in H. rewrite forallb_forall in H.
  specialize (H a Ha). rewrite forallb_forall in H. specialize (H b Hb).
  rewrite K, str_eqb_refl in H. simpl in H. apply str_eqb_eq. exact H.
Qed.

(* ---------- same tag properties on MockAPIClient and APIClient (under the guards) ---------- *)
Section SameTags.
  Variable method_name tag_key tag_attr tag_class : str -> str.
  Variable score : str -> bool * N * N.
  Variable py_ident : str -> bool.

  Lemma emitted_tags : forall l, map o_tags (emitted_ops method_name l) = map o_tags l.
  Proof.
    assert (G : forall l used, map o_tags (dedup_go method_name used l) = map o_tags l).
    { intros l used. pose proof (dedup_go_shape method_name l used) as S.
      induction S as [|a b l1 l2 H _ IH]; simpl; [reflexivity|].
      destruct (suffixed_tags _ _ H) as (E & _). rewrite E, IH. reflexivity. }
    intro l. unfold emitted_ops, dedup_ops. rewrite !G. reflexivity.
  Qed.

  Lemma first_tag_tags : forall a b, map o_tags a = map o_tags b -> map first_tag a = map first_tag b.
  Proof.
    induction a as [|x a IH]; destruct b as [|y b]; simpl; intro H; try discriminate; [reflexivity|].
    inversion H as [[H1 H2]]. unfold first_tag at 1 3. rewrite H1. f_equal. apply IH, H2.
  Qed.
  Lemma guard_F13a_tags : forall a b, map o_tags a = map o_tags b -> guard_F13a a = guard_F13a b.
  Proof.
    induction a as [|x a IH]; destruct b as [|y b]; simpl; intro H; try discriminate; [reflexivity|].
    inversion H as [[H1 H2]]. rewrite H1. f_equal. apply IH, H2.
  Qed.
  Lemma guard_F13b_tags : forall a b, map o_tags a = map o_tags b -> guard_F13b tag_key a = guard_F13b tag_key b.
  Proof. intros a b H. unfold guard_F13b. rewrite (first_tag_tags a b H). reflexivity. Qed.

  (* Under single_tag [F13a], tags_spelled_uniformly [F13b] and pairwise distinct identifier module names
     (the C07 guard: negation of F07e / fixed F07d): mock_client.py and client.py are both importable and
     MockAPIClient has exactly the tag properties of APIClient — for every operation list *)
  Theorem same_tags_partial : forall l,
    guard_F13a l = true -> guard_F13b tag_key l = true ->
    modules_ok tag_key tag_attr score py_ident (emitted_ops method_name l) = true ->
    same_tags method_name tag_key tag_attr tag_class score py_ident l.
  Proof.
    intros l Ha Hb Hm. set (e := emitted_ops method_name l) in *.
    pose proof (emitted_tags l) as ET. fold e in ET.
    rewrite <- (guard_F13a_tags e l ET) in Ha. rewrite <- (guard_F13b_tags e l ET) in Hb.
    pose proof (tags_agree tag_key score e (guard_F13a_single e Ha) (guard_F13b_uniform tag_key e Hb)) as TA.
    assert (M : map (fun tg : str * list op => tag_attr (fst tg)) (mock_groups e)
                = map (fun kc : str * str => tag_attr (snd kc)) (emitter_tags tag_key score e)).
    { rewrite TA, map_map. reflexivity. }
    destruct (reachable method_name tag_key tag_attr tag_class score py_ident l Hm) as (t & Pt & Perm & _ & _).
    fold e in Perm.
    unfold modules_ok in Hm. apply andb_true_iff in Hm. destruct Hm as [Hn Hi].
    exists (map (fun tg : str * list op => tag_attr (fst tg)) (mock_groups e)), (map fst t).
    split; [|split].
    - unfold mock_props. fold e. rewrite M, Hn, Hi. reflexivity.
    - unfold client_props. unfold props_of in Pt. rewrite Pt. reflexivity.
    - intro x. rewrite M.
      assert (Q : Permutation (map fst t) (map (fun kc : str * str => tag_attr (snd kc)) (emitter_tags tag_key score e))).
      { apply (Permutation_map fst) in Perm. rewrite map_map in Perm. exact Perm. }
      split; intro H; [apply (Permutation_in _ (Permutation_sym Q)), H | apply (Permutation_in _ Q), H].
  Qed.
End SameTags.

(* ====================================================================================== *)
(* Part 2 — the line scanners are exact on every well-formed signature                     *)
(* ====================================================================================== *)

(* ---------- string lemmas ---------- *)
Lemma prefixb_app : forall p s, prefixb p (p ++ s) = true.
Proof. induction p as [|x p IH]; intro s; simpl; [reflexivity|]. rewrite N.eqb_refl. apply IH. Qed.

Lemma suffixb_app : forall p s, suffixb p (s ++ p) = true.
Proof. intros p s. unfold suffixb. rewrite rev_app_distr. apply prefixb_app. Qed.

Lemma suffixb_ne : forall p a b x, a <> b -> suffixb (p ++ [a]) (x ++ [b]) = false.
Proof.
  intros p a b x H. unfold suffixb. rewrite !rev_app_distr. simpl.
  apply N.eqb_neq in H. rewrite H. reflexivity.
Qed.

Lemma suffixb_nil_false : forall p a, suffixb (p ++ [a]) [] = false.
Proof. intros p a. unfold suffixb. rewrite rev_app_distr. reflexivity. Qed.

Lemma containsb_fuel_app : forall p y x f, (length x <= f)%nat -> containsb_fuel f p (x ++ p ++ y) = true.
Proof.
  induction x as [|c x IH]; intros f H; simpl.
  - destruct f; simpl; rewrite prefixb_app; reflexivity.
  - destruct f as [|f]; [simpl in H; lia|]. simpl. rewrite IH by (simpl in H; lia). apply orb_true_r.
Qed.
Lemma containsb_app : forall p x y, containsb p (x ++ p ++ y) = true.
Proof. intros p x y. unfold containsb. apply containsb_fuel_app. rewrite app_length. lia. Qed.

Lemma last_app_ne : forall (a b : str) d, b <> [] -> last (a ++ b) d = last b d.
Proof.
  induction a as [|x a IH]; intros b d H; simpl; [reflexivity|].
  destruct (a ++ b) eqn:E; [destruct a; destruct b; simpl in E; try discriminate; contradiction H; reflexivity|].
  rewrite <- E. apply IH, H.
Qed.

Lemma hd_rev : forall (s : str) d, hd d (rev s) = last s d.
Proof.
  intros s d. destruct s as [|x s] using rev_ind; [reflexivity|].
  rewrite rev_app_distr, last_last. reflexivity.
Qed.

(* ---------- strip ---------- *)
Definition clean (s : str) : Prop := s <> [] /\ is_ws (hd 0 s) = false /\ is_ws (last s 0) = false.

Lemma lstrip_id : forall s, is_ws (hd 0 s) = false -> lstrip s = s.
Proof. intros [|c s] H; simpl in *; [reflexivity | rewrite H; reflexivity]. Qed.

Lemma strip_clean : forall s, clean s -> strip s = s.
Proof.
  intros s (_ & H1 & H2). unfold strip. rewrite (lstrip_id s H1).
  rewrite lstrip_id by (rewrite hd_rev; exact H2). apply rev_involutive.
Qed.

Lemma strip_indent : forall s, clean s -> strip (k_indent ++ s) = s.
Proof. intros s H. unfold strip. change (lstrip (k_indent ++ s)) with (lstrip s). apply (strip_clean s H). Qed.

Lemma clean_app3 : forall a x b, a <> [] -> is_ws (hd 0 a) = false -> b <> [] -> is_ws (last b 0) = false ->
  clean (a ++ x ++ b).
Proof.
  intros a x b Ha Ha' Hb Hb'. split; [|split].
  - destruct a; [contradiction Ha; reflexivity | discriminate].
  - destruct a; [contradiction Ha; reflexivity | exact Ha'].
  - rewrite app_assoc, last_app_ne by exact Hb. exact Hb'.
Qed.

Lemma clean_app2 : forall a b, clean a -> b <> [] -> is_ws (last b 0) = false -> clean (a ++ b).
Proof.
  intros a b (Ha & Ha' & _) Hb Hb'. change (a ++ b) with (a ++ [] ++ b).
  apply (clean_app3 a [] b); assumption.
Qed.

(* ---------- well-formed signatures ---------- *)
(* the text of one argument: non-empty, no surrounding white space, does not start with ")" and
   does not end with ":" "," or ": ..." *)
Definition arg_text_ok (t : str) : bool :=
  negb (is_nil t) && negb (is_ws (hd 0 t)) && negb (is_ws (last t 0)) && negb (hd 0 t =? 41)
  && negb (suffixb k_colon t) && negb (suffixb k_comma t) && negb (suffixb k_stub_end t).
Definition closing (s : sig) (term : str) : line := k_close_arrow ++ s_ret s ++ term.
Definition def_line (kw : str) (s : sig) : line := kw ++ s_name s ++ k_lparen.
(* the scanner decides "async generator" by looking for AsyncIterator in the closing line *)
Definition proto_gen (s : sig) : bool := containsb k_ret_gen (closing s k_colon).
Definition wf_sig (s : sig) : bool :=
  forallb (fun c => negb (c =? 40)) (s_name s)
  && forallb (fun a => arg_text_ok (render_arg a)) (s_args s)
  && Bool.eqb (proto_gen s) (match s_kind s with AsyncGen => true | Coroutine => false end).

Fixpoint sarg_lines (st : style) (l : list str) : list line :=
  match l with
  | [] => []
  | [a] => [a ++ match st with Standard => k_comma | StarStyle => [] end]
  | a :: r => (a ++ k_comma) :: sarg_lines st r
  end.
(* the signature block with every line stripped *)
Definition sig_lines (kw term : str) (s : sig) : list line :=
  def_line kw s :: sarg_lines (s_style s) (map render_arg (s_args s)) ++ [closing s term].

Lemma arg_ok_clean : forall t, arg_text_ok t = true -> clean t.
Proof.
  intros t H. unfold arg_text_ok in H. repeat (apply andb_true_iff in H; destruct H as [H ?]).
  repeat match goal with X : negb _ = true |- _ => apply negb_true_iff in X end.
  split; [destruct t; [discriminate | discriminate] | split; assumption].
Qed.

Definition neutral (x : line) : Prop :=
  ends_sig x = false /\ suffixb k_stub_end x = false /\ prefixb k_close_arrow x = false.

Lemma not_close_prefix : forall t x, t <> [] -> (hd 0 t =? 41) = false -> prefixb k_close_arrow (t ++ x) = false.
Proof.
  intros [|c t] x Hne H; [contradiction Hne; reflexivity|]. cbn [hd] in H.
  change (prefixb k_close_arrow ((c :: t) ++ x)) with ((41 =? c) && prefixb [32;45;62;32] (t ++ x)).
  rewrite N.eqb_sym, H. reflexivity.
Qed.

Lemma neutral_comma : forall t, arg_text_ok t = true -> neutral (t ++ k_comma).
Proof.
  intros t H. pose proof (arg_ok_clean t H) as (Hne & _ & _).
  unfold arg_text_ok in H. repeat (apply andb_true_iff in H; destruct H as [H ?]).
  repeat match goal with X : negb _ = true |- _ => apply negb_true_iff in X end.
  split; [|split].
  - unfold ends_sig. change k_colon with ([] ++ [58]). unfold k_comma at 1.
    rewrite (suffixb_ne [] 58 44 t) by discriminate. reflexivity.
  - change k_stub_end with ([58;32;46;46] ++ [46]). apply suffixb_ne. discriminate.
  - apply not_close_prefix; assumption.
Qed.

Lemma neutral_plain : forall t, arg_text_ok t = true -> neutral t.
Proof.
  intros t H. pose proof (arg_ok_clean t H) as (Hne & _ & _).
  unfold arg_text_ok in H. repeat (apply andb_true_iff in H; destruct H as [H ?]).
  repeat match goal with X : negb _ = true |- _ => apply negb_true_iff in X end.
  split; [|split].
  - unfold ends_sig. match goal with X : suffixb k_colon t = false |- _ => rewrite X end. reflexivity.
  - assumption.
  - rewrite <- (app_nil_r t). apply not_close_prefix; assumption.
Qed.

Lemma sarg_neutral : forall st l, forallb arg_text_ok l = true -> Forall neutral (sarg_lines st l).
Proof.
  induction l as [|a l IH]; intro H; simpl; [constructor|].
  simpl in H. apply andb_true_iff in H. destruct H as [Ha Hl].
  destruct l as [|b l].
  - constructor; [|constructor]. destruct st; [apply neutral_comma, Ha | rewrite app_nil_r; apply neutral_plain, Ha].
  - constructor; [apply neutral_comma, Ha | apply IH, Hl].
Qed.

Lemma clean_comma : forall t, clean t -> clean (t ++ k_comma).
Proof. intros t H. apply clean_app2; [exact H | discriminate | reflexivity]. Qed.

Lemma strip_arg_lines : forall st l, forallb arg_text_ok l = true -> map strip (arg_lines st l) = sarg_lines st l.
Proof.
  induction l as [|a l IH]; intro H; [reflexivity|].
  simpl in H. apply andb_true_iff in H. destruct H as [Ha Hl].
  pose proof (arg_ok_clean a Ha) as Ca.
  destruct l as [|b l].
  - simpl. f_equal. destruct st.
    + apply strip_indent, clean_comma, Ca.
    + rewrite app_nil_r. apply strip_indent, Ca.
  - change (arg_lines st (a :: b :: l)) with ((k_indent ++ a ++ k_comma) :: arg_lines st (b :: l)).
    change (sarg_lines st (a :: b :: l)) with ((a ++ k_comma) :: sarg_lines st (b :: l)).
    cbn [map]. f_equal; [apply strip_indent, clean_comma, Ca | apply IH, Hl].
Qed.

(* ---------- facts about the first and the closing line ---------- *)
Lemma def_line_clean : forall kw s, kw <> [] -> is_ws (hd 0 kw) = false -> clean (def_line kw s).
Proof. intros kw s H1 H2. unfold def_line. apply clean_app3; [exact H1 | exact H2 | discriminate | reflexivity]. Qed.

Lemma def_line_facts : forall s,
  let d := def_line k_async_def s in
  strip d = d /\ prefixb k_overload d = false /\ prefixb k_async_def d = true /\ containsb k_lparen d = true
  /\ ends_sig d = false /\ suffixb k_stub_end d = false.
Proof.
  intros s d. assert (C : clean d) by (apply def_line_clean; [discriminate | reflexivity]).
  repeat apply conj.
  - apply strip_clean, C.
  - reflexivity.
  - apply prefixb_app.
  - unfold d, def_line. rewrite app_assoc. rewrite <- (app_nil_r k_lparen) at 2. apply containsb_app.
  - unfold ends_sig, d, def_line. rewrite app_assoc. change k_colon with ([] ++ [58]). unfold k_lparen.
    rewrite (suffixb_ne [] 58 40) by discriminate. reflexivity.
  - unfold d, def_line. rewrite app_assoc. change k_stub_end with ([58;32;46;46] ++ [46]).
    apply suffixb_ne. discriminate.
Qed.

Lemma closing_clean : forall s term, term <> [] -> is_ws (last term 0) = false -> clean (closing s term).
Proof. intros s term H1 H2. unfold closing. apply clean_app3; [discriminate | reflexivity | exact H1 | exact H2]. Qed.

Lemma closing_colon_facts : forall s,
  let c := closing s k_colon in
  strip c = c /\ ends_sig c = true /\ suffixb k_colon c = true /\ removelast c = k_close_arrow ++ s_ret s.
Proof.
  intros s c. assert (C : clean c) by (apply closing_clean; [discriminate | reflexivity]).
  assert (S : suffixb k_colon c = true) by (unfold c, closing; rewrite app_assoc; apply suffixb_app).
  repeat apply conj.
  - apply strip_clean, C.
  - unfold ends_sig. rewrite S. unfold c, closing. rewrite app_assoc. change k_comma with ([] ++ [44]). unfold k_colon.
    rewrite (suffixb_ne [] 44 58) by discriminate. reflexivity.
  - exact S.
  - unfold c, closing, k_colon. rewrite app_assoc. apply removelast_last.
Qed.

Lemma closing_stub_facts : forall s,
  let c := closing s k_stub_end in strip c = c /\ suffixb k_stub_end c = true.
Proof.
  intros s c. split.
  - apply strip_clean, closing_clean; [discriminate | reflexivity].
  - unfold c, closing. rewrite app_assoc. apply suffixb_app.
Qed.

(* ---------- Protocol scanner ---------- *)
Lemma proto_sig_neutral : forall ls acc rest,
  Forall neutral (map strip ls) ->
  proto_go (PSig acc) (ls ++ rest) = proto_go (PSig (acc ++ map strip ls)) rest.
Proof.
  induction ls as [|l ls IH]; intros acc rest H; simpl.
  - rewrite app_nil_r. reflexivity.
  - inversion H as [|? ? (H1 & _ & _) Ht]; subst. rewrite H1. rewrite (IH _ _ Ht), <- app_assoc. reflexivity.
Qed.

Lemma proto_over_neutral : forall ls rest,
  Forall neutral (map strip ls) ->
  proto_go POver (ls ++ rest) = map strip ls ++ proto_go POver rest.
Proof.
  induction ls as [|l ls IH]; intros rest H; simpl; [reflexivity|].
  inversion H as [|? ? (_ & H2 & _) Ht]; subst. rewrite H2, (IH _ Ht). reflexivity.
Qed.

Lemma forallb_map' : forall {A B} (f : A -> B) (p : B -> bool) l, forallb p (map f l) = forallb (fun x => p (f x)) l.
Proof. induction l as [|x l IH]; simpl; [reflexivity | rewrite IH; reflexivity]. Qed.

Definition wf_args (s : sig) : bool := forallb arg_text_ok (map render_arg (s_args s)).
Lemma wf_sig_args : forall s, wf_sig s = true -> wf_args s = true.
Proof.
  intros s H. unfold wf_sig in H. apply andb_true_iff in H. destruct H as [H _].
  apply andb_true_iff in H. destruct H as [_ H]. unfold wf_args. rewrite forallb_map'. exact H.
Qed.

Definition proto_kw (s : sig) : str := if proto_gen s then k_def else k_async_def.

Lemma proto_scan_def : forall s rest,
  proto_go PScan (def_line k_async_def s :: rest) = proto_go (PSig [def_line k_async_def s]) rest.
Proof.
  intros s rest. destruct (def_line_facts s) as (D1 & D2 & D3 & D4 & D5 & _).
  cbn [proto_go]. rewrite D1, D2, D3, D4, D5. reflexivity.
Qed.

Lemma proto_sig_close : forall s acc rest,
  proto_go (PSig acc) (closing s k_colon :: rest) = proto_emit (acc ++ [closing s k_colon]).
Proof.
  intros s acc rest. destruct (closing_colon_facts s) as (C1 & C2 & _ & _).
  cbn [proto_go]. rewrite C1, C2. reflexivity.
Qed.

Lemma proto_emit_sig : forall s sargs,
  proto_emit ((def_line k_async_def s :: sargs) ++ [closing s k_colon])
  = (def_line (proto_kw s) s :: sargs) ++ [closing s k_stub_end; []].
Proof.
  intros s sargs. destruct (def_line_facts s) as (_ & _ & D3 & _ & _ & _).
  destruct (closing_colon_facts s) as (_ & _ & C3 & C4).
  unfold proto_emit. rewrite last_last, removelast_last, C3, C4, D3.
  unfold proto_kw, proto_gen.
  destruct (containsb k_ret_gen (closing s k_colon)); cbn [andb];
    unfold closing; rewrite <- app_assoc; reflexivity.
Qed.

Lemma proto_final : forall s body, wf_args s = true ->
  proto_go PScan (render_sig s ++ body) = sig_lines (proto_kw s) k_stub_end s ++ [[]].
Proof.
  intros s body W.
  pose proof (strip_arg_lines (s_style s) _ W) as SA.
  pose proof (sarg_neutral (s_style s) _ W) as SN.
  unfold render_sig, render_sig_with. fold (def_line k_async_def s). fold (closing s k_colon).
  rewrite <- app_comm_cons, proto_scan_def, <- app_assoc.
  rewrite proto_sig_neutral by (rewrite SA; exact SN). rewrite SA.
  cbn [app]. rewrite proto_sig_close.
  change ([def_line k_async_def s] ++ ?x) with (def_line k_async_def s :: x).
  rewrite proto_emit_sig. unfold sig_lines. cbn [app]. rewrite <- app_assoc. reflexivity.
Qed.

Definition stripped_overload (o : sig) : list line := k_overload :: sig_lines k_async_def k_stub_end o ++ [[]].

Lemma proto_over_block : forall o rest, wf_args o = true ->
  proto_go PScan ((render_overload o ++ [[]]) ++ rest) = stripped_overload o ++ proto_go PScan rest.
Proof.
  intros o rest W.
  destruct (def_line_facts o) as (D1 & _ & _ & _ & _ & D6).
  destruct (closing_stub_facts o) as (C1 & C2).
  pose proof (strip_arg_lines (s_style o) _ W) as SA.
  pose proof (sarg_neutral (s_style o) _ W) as SN.
  unfold render_overload, render_sig_with. fold (def_line k_async_def o). fold (closing o k_stub_end).
  rewrite <- !app_comm_cons.
  cbn [proto_go]. change (strip k_overload) with k_overload. change (prefixb k_overload k_overload) with true. cbn iota.
  rewrite D1, D6.
  rewrite <- !app_assoc. rewrite proto_over_neutral by (rewrite SA; exact SN). rewrite SA.
  cbn [app proto_go]. rewrite C1, C2.
  change (strip []) with (@nil N). change (prefixb k_overload []) with false. change (prefixb k_async_def []) with false.
  cbn [andb].
  unfold stripped_overload, sig_lines. rewrite <- !app_comm_cons, <- !app_assoc. reflexivity.
Qed.

Lemma proto_overloads : forall ovs rest, forallb wf_args ovs = true ->
  proto_go PScan (flat_map (fun o => render_overload o ++ [[]]) ovs ++ rest)
  = flat_map stripped_overload ovs ++ proto_go PScan rest.
Proof.
  induction ovs as [|o ovs IH]; intros rest H; [reflexivity|].
  simpl in H. apply andb_true_iff in H. destruct H as [W H].
  cbn [flat_map]. rewrite <- app_assoc, (proto_over_block o _ W), (IH rest H), <- app_assoc. reflexivity.
Qed.

(* the Protocol stub block is, line for line, the rendering of the same signature: same name,
   same argument texts in the same order (names, annotations, defaults), same return annotation;
   `async def` unless the closing line mentions AsyncIterator, then plain `def`; overload stubs are
   copied verbatim; whatever follows the signature (docstring, body) has no influence *)
Theorem extract_protocol_exact : forall ovs s body,
  forallb wf_args ovs = true -> wf_args s = true ->
  extract_protocol (render_method ovs s body)
  = flat_map stripped_overload ovs ++ sig_lines (proto_kw s) k_stub_end s ++ [[]].
Proof.
  intros ovs s body Ho Hs. unfold extract_protocol, render_method.
  rewrite proto_overloads by exact Ho. rewrite (proto_final s body Hs). reflexivity.
Qed.

(* ---------- mock scanner ---------- *)
Lemma collect_neutral : forall ls rest,
  Forall neutral (map strip ls) ->
  collect_sig (ls ++ rest) = let (a, t) := collect_sig rest in (map strip ls ++ a, t).
Proof.
  induction ls as [|l ls IH]; intros rest H; simpl.
  - destruct (collect_sig rest); reflexivity.
  - inversion H as [|? ? (H1 & _ & _) Ht]; subst. rewrite H1, (IH _ Ht).
    destruct (collect_sig rest). reflexivity.
Qed.

Lemma mock_over_neutral : forall who ls rest,
  Forall neutral (map strip ls) ->
  mock_go who MOver (ls ++ rest) = map strip ls ++ mock_go who MOver rest.
Proof.
  induction ls as [|l ls IH]; intros rest H; simpl; [reflexivity|].
  inversion H as [|? ? (_ & H2 & _) Ht]; subst. rewrite H2, (IH _ Ht). reflexivity.
Qed.

Definition mock_gen (s : sig) : bool := containsb k_ret_gen (last (sig_lines k_async_def k_colon s) []).

Lemma collect_def : forall s rest,
  collect_sig (def_line k_async_def s :: rest) = let (a, t) := collect_sig rest in (def_line k_async_def s :: a, t).
Proof.
  intros s rest. destruct (def_line_facts s) as (D1 & _ & _ & _ & D5 & _).
  cbn [collect_sig]. rewrite D1, D5. reflexivity.
Qed.
Lemma collect_close : forall s rest, collect_sig (closing s k_colon :: rest) = ([closing s k_colon], true).
Proof.
  intros s rest. destruct (closing_colon_facts s) as (C1 & C2 & _ & _).
  cbn [collect_sig]. rewrite C1, C2. reflexivity.
Qed.

Lemma mock_final : forall who s body, wf_args s = true ->
  mock_go who MScan (render_sig s ++ body) = sig_lines k_async_def k_colon s ++ mock_body who (mock_gen s).
Proof.
  intros who s body W.
  destruct (def_line_facts s) as (D1 & D2 & D3 & D4 & _ & _).
  pose proof (strip_arg_lines (s_style s) _ W) as SA.
  pose proof (sarg_neutral (s_style s) _ W) as SN.
  unfold render_sig, render_sig_with. fold (def_line k_async_def s). fold (closing s k_colon).
  rewrite <- app_comm_cons. cbn [mock_go]. rewrite D1, D2, D3, D4. cbn [orb andb].
  rewrite collect_def, <- app_assoc. rewrite collect_neutral by (rewrite SA; exact SN). rewrite SA.
  cbn [app]. rewrite collect_close. cbn [andb].
  unfold mock_gen, sig_lines. reflexivity.
Qed.

Lemma mock_over_block : forall who o rest, wf_args o = true ->
  mock_go who MScan ((render_overload o ++ [[]]) ++ rest) = stripped_overload o ++ mock_go who MScan rest.
Proof.
  intros who o rest W.
  destruct (def_line_facts o) as (D1 & _ & _ & _ & _ & D6).
  destruct (closing_stub_facts o) as (C1 & C2).
  pose proof (strip_arg_lines (s_style o) _ W) as SA.
  pose proof (sarg_neutral (s_style o) _ W) as SN.
  unfold render_overload, render_sig_with. fold (def_line k_async_def o). fold (closing o k_stub_end).
  rewrite <- !app_comm_cons.
  cbn [mock_go]. change (strip k_overload) with k_overload. change (prefixb k_overload k_overload) with true. cbn iota.
  rewrite D1, D6.
  rewrite <- !app_assoc. rewrite mock_over_neutral by (rewrite SA; exact SN). rewrite SA.
  cbn [app mock_go]. rewrite C1, C2.
  change (strip []) with (@nil N). change (prefixb k_overload []) with false.
  change (prefixb k_async_def []) with false. change (prefixb k_def []) with false.
  cbn [andb orb].
  unfold stripped_overload, sig_lines. rewrite <- !app_comm_cons, <- !app_assoc. reflexivity.
Qed.

Lemma mock_overloads : forall who ovs rest, forallb wf_args ovs = true ->
  mock_go who MScan (flat_map (fun o => render_overload o ++ [[]]) ovs ++ rest)
  = flat_map stripped_overload ovs ++ mock_go who MScan rest.
Proof.
  induction ovs as [|o ovs IH]; intros rest H; [reflexivity|].
  simpl in H. apply andb_true_iff in H. destruct H as [W H].
  cbn [flat_map]. rewrite <- app_assoc, (mock_over_block who o _ W), (IH rest H), <- app_assoc. reflexivity.
Qed.

(* the mock method is the very signature block (`async def`, same arguments, same return) followed
   by the NotImplementedError body, plus an unreachable `yield` exactly when the signature text
   mentions AsyncIterator *)
Theorem to_mock_exact : forall who ovs s body,
  forallb wf_args ovs = true -> wf_args s = true ->
  to_mock who (render_method ovs s body)
  = flat_map stripped_overload ovs ++ sig_lines k_async_def k_colon s ++ mock_body who (mock_gen s).
Proof.
  intros who ovs s body Ho Hs. unfold to_mock, render_method.
  rewrite mock_overloads by exact Ho. rewrite (mock_final who s body Hs). reflexivity.
Qed.

Theorem mock_raises : forall who g, In (k_raise_pre ++ who ++ k_raise_post) (mock_body who g).
Proof. intros who g. unfold mock_body. apply in_or_app. left. do 6 right. left. reflexivity. Qed.

(* ---------- reading the blocks back: what they declare ---------- *)
Lemma split_lparen : forall name, forallb (fun c => negb (c =? 40)) name = true ->
  split_at_lparen (name ++ k_lparen) = Some (name, []).
Proof.
  induction name as [|c name IH]; intro H; [reflexivity|].
  simpl in H. apply andb_true_iff in H. destruct H as [H1 H2]. apply negb_true_iff in H1.
  cbn [app split_at_lparen]. rewrite H1, (IH H2). reflexivity.
Qed.

Lemma rstrip_comma_app : forall a, rstrip_comma (a ++ k_comma) = a.
Proof. intro a. unfold rstrip_comma. rewrite suffixb_app. unfold k_comma. apply removelast_last. Qed.

Lemma arg_ok_nocomma : forall t, arg_text_ok t = true -> rstrip_comma t = t.
Proof.
  intros t H. unfold arg_text_ok in H. repeat (apply andb_true_iff in H; destruct H as [H ?]).
  repeat match goal with X : negb _ = true |- _ => apply negb_true_iff in X end.
  unfold rstrip_comma. match goal with X : suffixb k_comma t = false |- _ => rewrite X end. reflexivity.
Qed.

Lemma read_args_sarg : forall st l c, forallb arg_text_ok l = true -> prefixb k_close_arrow c = true ->
  read_args (sarg_lines st l ++ [c]) = Some (l, c).
Proof.
  induction l as [|a l IH]; intros c H Hc.
  - cbn [sarg_lines app read_args]. rewrite Hc. reflexivity.
  - simpl in H. apply andb_true_iff in H. destruct H as [Ha Hl].
    destruct l as [|b l].
    + cbn [sarg_lines app read_args]. destruct st.
      * destruct (neutral_comma a Ha) as (_ & _ & N3). rewrite N3, Hc, rstrip_comma_app. reflexivity.
      * rewrite app_nil_r. destruct (neutral_plain a Ha) as (_ & _ & N3). rewrite N3, Hc, (arg_ok_nocomma a Ha). reflexivity.
    + change (sarg_lines st (a :: b :: l)) with ((a ++ k_comma) :: sarg_lines st (b :: l)).
      rewrite <- app_comm_cons. cbn [read_args].
      destruct (neutral_comma a Ha) as (_ & _ & N3). rewrite N3.
      pose proof (IH c Hl Hc) as E. unfold line, str in *. rewrite E, rstrip_comma_app. reflexivity.
Qed.

Lemma firstn_app_len : forall (a b : str), firstn (length (a ++ b) - length b) (a ++ b) = a.
Proof.
  intros a b. rewrite app_length, Nat.add_sub, firstn_app, Nat.sub_diag, firstn_all. simpl. apply app_nil_r.
Qed.

Lemma wf_sig_name : forall s, wf_sig s = true -> forallb (fun c => negb (c =? 40)) (s_name s) = true.
Proof.
  intros s H. unfold wf_sig in H. apply andb_true_iff in H. destruct H as [H _].
  apply andb_true_iff in H. destruct H as [H _]. exact H.
Qed.
Lemma wf_sig_kind : forall s, wf_sig s = true ->
  proto_gen s = match s_kind s with AsyncGen => true | Coroutine => false end.
Proof.
  intros s H. unfold wf_sig in H. apply andb_true_iff in H. destruct H as [_ H]. apply Bool.eqb_prop, H.
Qed.

Theorem read_proto : forall s, wf_sig s = true ->
  read_sig (sig_lines (proto_kw s) k_stub_end s) = Some (proto_view s).
Proof.
  intros s W. pose proof (wf_sig_args s W) as WA. pose proof (wf_sig_name s W) as WN.
  pose proof (wf_sig_kind s W) as WK.
  unfold sig_lines, read_sig.
  rewrite (read_args_sarg _ _ (closing s k_stub_end) WA) by apply prefixb_app.
  unfold proto_kw, proto_view. rewrite WK.
  destruct (s_kind s).
  - change (prefixb k_async_def (def_line k_async_def s)) with (prefixb k_async_def (k_async_def ++ s_name s ++ k_lparen)).
    rewrite prefixb_app. change (skipn 10 (def_line k_async_def s)) with (s_name s ++ k_lparen).
    rewrite (split_lparen _ WN). change (skipn 5 (closing s k_stub_end)) with (s_ret s ++ k_stub_end).
    rewrite suffixb_app. change 5%nat with (length k_stub_end). rewrite firstn_app_len. reflexivity.
  - change (prefixb k_async_def (def_line k_def s)) with false.
    change (prefixb k_def (def_line k_def s)) with (prefixb k_def (k_def ++ s_name s ++ k_lparen)).
    rewrite prefixb_app. change (skipn 4 (def_line k_def s)) with (s_name s ++ k_lparen).
    rewrite (split_lparen _ WN). change (skipn 5 (closing s k_stub_end)) with (s_ret s ++ k_stub_end).
    rewrite suffixb_app. change 5%nat with (length k_stub_end). rewrite firstn_app_len. reflexivity.
Qed.

Theorem read_mock : forall s, wf_sig s = true ->
  read_sig (sig_lines k_async_def k_colon s) = Some (mock_view s).
Proof.
  intros s W. pose proof (wf_sig_args s W) as WA. pose proof (wf_sig_name s W) as WN.
  unfold sig_lines, read_sig.
  rewrite (read_args_sarg _ _ (closing s k_colon) WA) by apply prefixb_app.
  change (prefixb k_async_def (def_line k_async_def s)) with (prefixb k_async_def (k_async_def ++ s_name s ++ k_lparen)).
  rewrite prefixb_app. change (skipn 10 (def_line k_async_def s)) with (s_name s ++ k_lparen).
  rewrite (split_lparen _ WN). change (skipn 5 (closing s k_colon)) with (s_ret s ++ k_colon).
  change k_stub_end with ([58;32;46;46] ++ [46]). unfold k_colon at 1.
  rewrite (suffixb_ne [58;32;46;46] 46 58) by discriminate.
  rewrite suffixb_app. unfold k_colon. rewrite removelast_last. reflexivity.
Qed.

(* ---------- C13_stub_exact, both directions ---------- *)
Theorem stub_exact : forall ovs s body, wf_sig s = true -> forallb wf_args ovs = true ->
  exists blk,
    extract_protocol (render_method ovs s body) = flat_map stripped_overload ovs ++ blk ++ [[]]
    /\ read_sig blk = Some (proto_view s).
Proof.
  intros ovs s body W Ho. exists (sig_lines (proto_kw s) k_stub_end s). split.
  - apply extract_protocol_exact; [exact Ho | apply wf_sig_args, W].
  - apply read_proto, W.
Qed.

Theorem mock_exact : forall who ovs s body, wf_sig s = true -> forallb wf_args ovs = true ->
  exists blk,
    to_mock who (render_method ovs s body) = flat_map stripped_overload ovs ++ blk ++ mock_body who (mock_gen s)
    /\ read_sig blk = Some (mock_view s)
    /\ In (k_raise_pre ++ who ++ k_raise_post) (mock_body who (mock_gen s))
    /\ (In k_yield (mock_body who (mock_gen s)) <-> mock_gen s = true).
Proof.
  intros who ovs s body W Ho. exists (sig_lines k_async_def k_colon s). split; [|split; [|split]].
  - apply to_mock_exact; [exact Ho | apply wf_sig_args, W].
  - apply read_mock, W.
  - apply mock_raises.
  - unfold mock_body. destruct (mock_gen s); split; intro H; try reflexivity.
    + apply in_or_app. right. left. reflexivity.
    + apply in_app_or in H. destruct H as [H|[]].
      repeat (destruct H as [H|H]; [discriminate H|]). destruct H.
    + discriminate.
Qed.

(* F13c fixed: both scanners look for ") -> AsyncIterator[" in the closing line — they always agree *)
Theorem scanners_agree : forall s, mock_gen s = proto_gen s.
Proof.
  intro s. unfold mock_gen, proto_gen, sig_lines. rewrite app_comm_cons, last_last. reflexivity.
Qed.

Definition sig_disagree : sig :=
  {| s_name := s_a; s_args := [ASelf; AParam s_b (k_AsyncIterator ++ [91;105;110;116;93]) None];
     s_ret := [78;111;110;101]; s_kind := Coroutine; s_style := Standard |}.

(* non-vacuity: a streaming signature with optional parameters and an overloaded one are well-formed *)
Definition sig_stream : sig :=
  {| s_name := [115;116;114;101;97;109]; s_args := [ASelf; AParam [113] [115;116;114;32;124;32;78;111;110;101] (Some [78;111;110;101])];
     s_ret := k_AsyncIterator ++ [91;73;116;101;109;93]; s_kind := AsyncGen; s_style := Standard |}.
Definition sig_star : sig :=
  {| s_name := [117;112]; s_args := [ASelf; AStar; AParam [98;111;100;121] [73;116;101;109] None;
                                      AParam [99;116] [115;116;114] (Some [34;97;58;98;34])];
     s_ret := [73;116;101;109]; s_kind := Coroutine; s_style := StarStyle |}.
Theorem wf_nonvacuous : wf_sig sig_stream = true /\ wf_sig sig_star = true /\ proto_kw sig_stream = k_def
  /\ mock_gen sig_stream = true /\ mock_gen sig_star = false.
Proof. repeat split; vm_compute; reflexivity. Qed.

(* F13c FIXED — regression: a coroutine returning / taking a schema class named AsyncIteratorInfo, or with a
   parameter annotated AsyncIterator[int], keeps `async def` in the Protocol and gets no `yield` in the mock *)
Definition s_AsyncIteratorInfo : str := k_AsyncIterator ++ [73;110;102;111].
Definition sig_ai_ret : sig :=
  {| s_name := [103;101;116]; s_args := [ASelf]; s_ret := s_AsyncIteratorInfo; s_kind := Coroutine; s_style := Standard |}.
Theorem fixed_F13c :
  wf_sig sig_ai_ret = true /\ proto_kw sig_ai_ret = k_async_def /\ mock_gen sig_ai_ret = false
  /\ wf_sig sig_disagree = true /\ proto_kw sig_disagree = k_async_def /\ mock_gen sig_disagree = false.
Proof. repeat split; vm_compute; reflexivity. Qed.
