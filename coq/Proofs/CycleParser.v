(* C08 — termination of the reduced parser model (w02's Model/Parser.v, imported). *)
From PG Require Import Lib.Strs Model.CycleParser.
From PG Require Model.Parser Proofs.Parser.
From Coq Require Import Arith Lia.

(* Stage 1 (w02's theorem, re-exported): on the fragment for which fidelity is proved — core documents whose
   reference graph is acyclic with rank witness [rk] and whose deepest chain fits the limit — the parse with fuel
   max_depth + 50 never runs out of fuel, takes no placeholder branch and registers every declared name. *)
Theorem parse_terminates_acyclic : forall md S rk,
  P.core_spec S = true -> P.ranked_b rk S = true -> P.depth_ok rk S md = true ->
  P.oof (P.parse_doc md S) = false /\ P.all_present S (P.parse_doc md S) = true.
Proof.
  intros md S rk H1 H2 H3. destruct (Proofs.Parser.acyclic_clean md S rk H1 H2 H3) as (_ & O & A). split; assumption.
Qed.

(* Stage 2, bounded scope (stated with its bound): EVERY reference graph over at most three named object schemas
   whose properties are $refs (all 2 + 16 + 512 edge sets: self-loops, mutual and longer cycles, parallel paths),
   for the limits 0..6, 20 and the default 150: the parse needs at most 8 nested frames — independent of the limit
   once it is >= 5 — and does not run out of fuel; every declared name is registered. *)
Definition limits : list N := [0; 1; 2; 3; 4; 5; 6; 20; 150]%N.
Definition small_scope_ok (k : nat) : bool :=
  forallb (fun m => forallb (fun md =>
     Nat.leb (needed md (gspec k m)) 8
     && negb (P.oof (P.parse_doc md (gspec k m)))
     && P.all_present (gspec k m) (P.parse_doc md (gspec k m))) limits) (masks k).

Lemma small_scope_1 : small_scope_ok 1 = true. Proof. vm_compute. reflexivity. Qed.
Lemma small_scope_2 : small_scope_ok 2 = true. Proof. vm_compute. reflexivity. Qed.
Lemma small_scope_3 : small_scope_ok 3 = true. Proof. vm_compute. reflexivity. Qed.

Theorem parse_terminates_small_scope : forall k m md,
  (1 <= k <= 3)%nat -> In m (masks k) -> In md limits ->
  (needed md (gspec k m) <= 8)%nat
  /\ P.oof (P.parse_doc md (gspec k m)) = false
  /\ P.all_present (gspec k m) (P.parse_doc md (gspec k m)) = true.
Proof.
  intros k m md Hk Hm Hmd.
  assert (H : small_scope_ok k = true).
  { destruct k as [|[|[|[|k]]]]; try lia; [apply small_scope_1 | apply small_scope_2 | apply small_scope_3]. }
  unfold small_scope_ok in H. rewrite forallb_forall in H. specialize (H m Hm).
  rewrite forallb_forall in H. specialize (H md Hmd).
  apply andb_true_iff in H. destruct H as [H H3]. apply andb_true_iff in H. destruct H as [H1 H2].
  repeat split; [apply Nat.leb_le; exact H1 | apply negb_true_iff; exact H2 | exact H3].
Qed.

(* the nesting really exceeds the counted limit + 1 (because of the RETURN_EXISTING fall-through, F08b): the graph
   A{pc:C} B{pc:C} C{pa:A, pb:B, pc:C} (mask 484) needs 7 nested frames at limit 4 (5 would be limit + 1) *)
Example nesting_exceeds_limit : needed 4 (gspec 3 484) = 7%nat /\ needed 150 (gspec 3 484) = 8%nat.
Proof. vm_compute. split; reflexivity. Qed.

(* NOT PROVED — the general statement, kept visible:

   Theorem parse_terminates : forall md S, named_refs_only S = true ->
     exists fuel, forall f, (fuel <= f)%nat -> P.oof (P.build md S f P.st0) = false.

   Why the obvious measures fail (see DESIGN §3 C08 and C08_not_lifo): the counted depth is not the nesting (every
   completed fall-through frame lowers it by one more) and the stack is not the set of active names (early exits pop
   outer frames).  Sketch of the argument that should work: (1) all body-executing frames of one name n that start
   before n is first registered lie on one root-to-leaf path and alternate CONTINUE / fall-through; (2) at any moment
   #active CONTINUE frames <= counted depth + #fall-through frames already completed <= max_depth + 1 + F; (3) order
   the names by the time of their first registration: F_k <= max_depth + 2 + sum_{j<k} F_j, hence nesting
   <= (max_depth + 2) * 2^|names|.  The measured values are far smaller (3 / 8 / see evidence for 1 / 2 / 3 / 4
   schemas, saturating in the limit), so the exponential is an artefact of the sketch, not a finding.  What is missing
   is the formalisation of (1) over [P.step] (an invariant over all ten recursive call sites of the parser body). *)
