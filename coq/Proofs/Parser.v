(* Proofs about the parser model (Model/Parser.v). *)
From PG Require Import Lib.Strs Model.AllOf Model.Parser Proofs.AllOf Gen.T_C02.
From Coq Require Import Lia.

(* ------------------------------------------------------------------ the declared semantics is fuel-monotone,
   hence a (partial) function of the document alone *)
Lemma decl_members_mono : forall (r1 r2 : node -> option dmember),
  (forall x m, r1 x = Some m -> r2 x = Some m) ->
  forall l acc m, decl_members r1 l acc = Some m -> decl_members r2 l acc = Some m.
Proof.
  intros r1 r2 H. induction l as [|x l IH]; intros acc m Hm; simpl in *; [exact Hm|].
  destruct (r1 x) as [mx|] eqn:E; [|discriminate].
  rewrite (H _ _ E). apply IH, Hm.
Qed.

Lemma decl_node_mono1 : forall f S nd m, decl_node f S nd = Some m -> decl_node (Datatypes.S f) S nd = Some m.
Proof.
  induction f as [|f IH]; intros S nd m H; [discriminate|].
  destruct nd; try exact H.
  - (* Ref *) simpl in H |- *. destruct (alookup n S) as [nd'|]; [apply IH, H | exact H].
  - (* AllOf *) change (decl_members (decl_node (Datatypes.S f) S) l [] = Some m).
    change (decl_members (decl_node f S) l [] = Some m) in H.
    eapply decl_members_mono; [|exact H]. intros x mx Hx. apply IH, Hx.
Qed.

Lemma decl_node_mono : forall f g S nd m, (f <= g)%nat -> decl_node f S nd = Some m -> decl_node g S nd = Some m.
Proof.
  intros f g S nd m Hle H. induction Hle; [exact H|]. apply decl_node_mono1, IHHle.
Qed.

Lemma decl_node_functional : forall f g S nd m1 m2,
  decl_node f S nd = Some m1 -> decl_node g S nd = Some m2 -> m1 = m2.
Proof.
  intros f g S nd m1 m2 H1 H2.
  apply (decl_node_mono f (Nat.max f g)) in H1; [|lia].
  apply (decl_node_mono g (Nat.max f g)) in H2; [|lia].
  congruence.
Qed.

Lemma declared_f_functional : forall f g S n d1 d2,
  declared_f f S n = Some d1 -> declared_f g S n = Some d2 -> d1 = d2.
Proof.
  unfold declared_f. intros f g S n d1 d2 H1 H2. destruct (alookup n S) as [nd|]; [|discriminate].
  destruct (decl_node f S nd) as [m1|] eqn:E1; [|discriminate].
  destruct (decl_node g S nd) as [m2|] eqn:E2; [|discriminate].
  simpl in *. rewrite (decl_node_functional _ _ _ _ _ _ E1 E2) in H1. congruence.
Qed.

(* ------------------------------------------------------------------ equality deciders are sound *)
Lemma prim_eqb_eq : forall a b, prim_eqb a b = true -> a = b.
Proof. destruct a, b; simpl; intro; congruence. Qed.

Lemma list_eqb_refl : forall {A} (eqb : A -> A -> bool), (forall x, eqb x x = true) -> forall l, list_eqb eqb l l = true.
Proof. intros A eqb H. induction l; simpl; [reflexivity|]. rewrite H, IHl. reflexivity. Qed.

Lemma tyref_eqb_refl : forall t, tyref_eqb t t = true.
Proof.
  fix IH 1. destruct t; simpl; try reflexivity.
  - apply str_eqb_refl.
  - apply IH.
  - destruct k; reflexivity.
  - apply list_eqb_refl, str_eqb_refl.
  - apply IH.
  - induction l as [|x l IHl]; [reflexivity|]. rewrite IH. exact IHl.
Qed.

Lemma field_eqb_refl : forall x, field_eqb x x = true.
Proof.
  intros [[k b] t]. unfold field_eqb; simpl. rewrite str_eqb_refl, tyref_eqb_refl, Bool.eqb_reflx. reflexivity.
Qed.

(* the executable check is complete for the property (used to refute it by evaluation) *)
Lemma faithful_b_complete : forall S s n,
  faithful S s n -> declared S n <> None -> faithful_b S s n = true.
Proof.
  intros S s n [e [He [Hf [f Hd]]]] Hsome. unfold faithful_b. rewrite He.
  destruct (declared S n) as [d|] eqn:Ed; [|congruence].
  unfold declared in Ed. rewrite (declared_f_functional _ _ _ _ _ _ Ed Hd).
  rewrite Hf. simpl. apply list_eqb_refl, field_eqb_refl.
Qed.

Lemma refute : forall S s n, declared S n <> None -> faithful_b S s n = false -> ~ faithful S s n.
Proof. intros S s n Hd Hb Hf. rewrite (faithful_b_complete _ _ _ Hf Hd) in Hb. discriminate. Qed.

(* ------------------------------------------------------------------ witnesses of the findings *)
Definition sUser : str := [85;115;101;114].
Definition sUserGroup : str := [85;115;101;114;71;114;111;117;112].
Definition sgroup : str := [103;114;111;117;112].
Definition smembers : str := [109;101;109;98;101;114;115].
Definition sxx : str := [120;120].
Definition syy : str := [121;121].
Definition sParent : str := [80;97;114;101;110;116].
Definition sChild : str := [67;104;105;108;100].
Definition skid : str := [107;105;100].
Definition saa : str := [97;97].
Definition sbb : str := [98;98].
Definition sTree : str := [84;114;101;101].
Definition skids : str := [107;105;100;115].
Definition sS (i : N) : str := [83; 48 + i].
Definition snxt : str := [110;120;116].
Definition sv : str := [118;118].

(* F02a: User{group:$ref UserGroup}, UserGroup{members:[$ref User]} declared in this order *)
Definition spec_F02a : spec :=
  [(sUser, Obj [(sgroup, Ref sUserGroup)] []); (sUserGroup, Obj [(smembers, Arr (Ref sUser))] [])].
(* F02b: User{group: inline object}, declared UserGroup *)
Definition spec_F02b : spec :=
  [(sUser, Obj [(sgroup, Obj [(sxx, Prim PString)] [])] []); (sUserGroup, Obj [(syy, Prim PInteger)] [])].
(* F02c: Parent{kid:$ref Child, aa}, Child{allOf:[$ref Parent, {bb}]}, parent first *)
Definition spec_F02c : spec :=
  [(sParent, Obj [(skid, Ref sChild); (saa, Prim PString)] [saa]);
   (sChild, AllOf [Ref sParent; Obj [(sbb, Prim PInteger)] []])].
(* F02d: $ref chain S0 -> S1 -> ... -> S5 with depth limit 3 *)
Definition chain_link (i : N) : str * node := (sS i, Obj [(snxt, Ref (sS (i + 1))); (sv, Prim PString)] [sv]).
Definition spec_F02d : spec :=
  [chain_link 0; chain_link 1; chain_link 2; chain_link 3; chain_link 4; (sS 5, Obj [(sv, Prim PString)] [sv])].
(* F02f: Tree = array of {kids: $ref Tree} *)
Definition spec_F02f : spec := [(sTree, Arr (Obj [(skids, Ref sTree)] []))].

Lemma refuted_F02a :
  guard_F02a (parse_doc default_max_depth spec_F02a) = false
  /\ ~ faithful spec_F02a (parse_doc default_max_depth spec_F02a) sUser
  /\ faithful_b (rev spec_F02a) (parse_doc default_max_depth (rev spec_F02a)) sUser = true.
Proof.
  split; [vm_compute; reflexivity|]. split; [|vm_compute; reflexivity].
  apply refute; [vm_compute; discriminate | vm_compute; reflexivity].
Qed.

Lemma refuted_F02b :
  guard_F02b spec_F02b = false
  /\ ~ faithful spec_F02b (parse_doc default_max_depth spec_F02b) sUserGroup.
Proof.
  split; [vm_compute; reflexivity|].
  apply refute; [vm_compute; discriminate | vm_compute; reflexivity].
Qed.

Lemma refuted_F02c :
  guard_F02c (parse_doc default_max_depth spec_F02c) = false
  /\ ~ faithful spec_F02c (parse_doc default_max_depth spec_F02c) sChild
  /\ faithful_b (rev spec_F02c) (parse_doc default_max_depth (rev spec_F02c)) sChild = true.
Proof.
  split; [vm_compute; reflexivity|]. split; [|vm_compute; reflexivity].
  apply refute; [vm_compute; discriminate | vm_compute; reflexivity].
Qed.

Lemma refuted_F02d :
  guard_F02d (parse_doc 3 spec_F02d) = false
  /\ ~ faithful spec_F02d (parse_doc 3 spec_F02d) (sS 3).
Proof.
  split; [vm_compute; reflexivity|].
  apply refute; [vm_compute; discriminate | vm_compute; reflexivity].
Qed.

Lemma refuted_F02f :
  guard_F02f (parse_doc default_max_depth spec_F02f) = false
  /\ ~ faithful spec_F02f (parse_doc default_max_depth spec_F02f) sTree.
Proof.
  split; [vm_compute; reflexivity|].
  apply refute; [vm_compute; discriminate | vm_compute; reflexivity].
Qed.
